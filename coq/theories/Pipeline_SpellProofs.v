(** Pipeline proofs, part 5: the spelling-corruption stage (C15_Spell.spell_text, builder B's model and theorems) inside
    the item path: it is defined for every seed and text, its output is described by C15's [spell_text_spec], and the
    item path with it is still a function of (configurations, max_length, item, seed, incoming marks). *)
From TU Require Import RNG_Model RNG_Proofs.
From TU Require Import Base UCD_Model C15_Model C15_Seeded C15_Spell C15_SpellProofs C15_SpellTotal.
From TU Require Import Pipeline_Model Pipeline_Proofs Pipeline_Tasks Pipeline_TasksProofs C08_Bytes Pipeline_Spell.
Require Import Lia.
Local Open Scope nat_scope.

(** every probability of the menu passes the constructor's assertion [prob > 0] *)
Lemma pw_menu_positive : forallb (fun p => positive (fclamp01 p)) pw_menu = true.
Proof. vm_compute. reflexivity. Qed.

Lemma spell_dom : forall fd prob s, positive (fclamp01 prob) = true ->
  (N.of_nat (S (length s)) * 2 < 4611686018427387904)%N -> dom_ok 3 fd prob [] [] s = true.
Proof.
  intros fd prob s Hp Hs. unfold dom_ok. rewrite Hp. cbn [andb].
  assert (E : mode_cfg 3 fd [] = Some (spell_cfg fd None)) by reflexivity. rewrite E.
  assert (Em : max_str (erase (spell_cfg fd None)) = 0) by (destruct fd; reflexivity).
  unfold size_ok. rewrite Em. cbn [has_tables Nat.eqb orb negb andb mode_miss has_miss miss_smallb forallb].
  apply andb_true_iff. split; [|reflexivity]. apply N.ltb_lt. exact Hs.
Qed.

(** the stage is defined: a text (never an Err, never a panic) for every seed, both probabilities, every text *)
Lemma spell_stage_defined : forall fd prob pc seed s, positive (fclamp01 prob) = true ->
  (N.of_nat (S (length s)) * 2 < 4611686018427387904)%N ->
  exists t, spell_stage fd prob pc seed s = ROk t.
Proof.
  intros fd prob pc seed s Hp Hs.
  destruct (spell_text_total_l 3 fd prob pc f_zero [] [] seed s (spell_dom fd prob s Hp Hs)) as [t Ht].
  exists t. unfold spell_stage. rewrite Ht. reflexivity.
Qed.

(** what it returns: the words of the text in order, joined by one space, each itself or the end of a chain of
    1 .. max(1, #clusters) edit_word calls (delete / swap) from the empty exclusion set, dropped when empty *)
Lemma spell_stage_words : forall fd prob pc seed s t, spell_stage fd prob pc seed s = ROk t ->
  exists os, Forall2 (word_result_t (spell_cfg fd None) []) (split_ws s) os /\ t = join_sp (C15_Seeded.keep_some os).
Proof.
  intros fd prob pc seed s t H. unfold spell_stage in H.
  destruct (spell_text 3 fd prob pc f_zero [] [] seed s) as [t'| | |] eqn:E; try discriminate.
  injection H as <-.
  destruct (spell_text_spec_l 3 fd prob pc f_zero [] [] seed s t' ltac:(discriminate) E) as (wc & os & Hwc & HF & Ht).
  assert (Ewc : mode_cfg 3 fd [] = Some (spell_cfg fd None)) by reflexivity. rewrite Ewc in Hwc. injection Hwc as <-.
  exists os. split; [exact HF|exact Ht].
Qed.

(** the file index is irrelevant for every stage [opq_full] interprets *)
Lemma opq_full_file : forall id x i fl, id < 258 ->
  opq_full id x (set_file fl i) = rmap (snd_file fl) (opq_full id x i).
Proof.
  intros id x i fl Hid. destruct id as [|[|id]].
  - cbn [opq_full opq_std]. apply apply_part_file. intros; reflexivity.
  - cbn [opq_full opq_std]. apply apply_part_file. intros; reflexivity.
  - unfold opq_full. change (S (S id) - 2) with (id - 0). rewrite Nat.sub_0_r.
    destruct (Nat.ltb id 256) eqn:E; [|apply Nat.ltb_ge in E; lia].
    apply apply_part_file. intros; reflexivity.
Qed.

Lemma preproc_full_file : forall c, has_unmodelled_full c = false -> forall x i fl,
  preproc opq_full c x (set_file fl i) = rmap (snd_file fl) (preproc opq_full c x i).
Proof.
  induction c using cfg_ind'; intros Hop x i fl; cbn [has_unmodelled_full] in Hop;
    try (cbn [Pipeline_Model.preproc]; apply apply_part_file; intros; reflexivity);
    try (cbn [Pipeline_Model.preproc]; apply substring_file).
  - reflexivity.
  - rewrite !preproc_chain. revert x i. induction l as [|c r IHr]; intros x i; [reflexivity|].
    cbn [existsb] in Hop. apply orb_false_iff in Hop. destruct Hop as [Hc Hr].
    inversion H as [|? ? Hhd Htl]; subst. cbn [chain_run]. rewrite (Hhd Hc x i fl).
    destruct (preproc opq_full c x i) as [[a j]| |]; cbn [rmap snd_file fst snd]; [|reflexivity|reflexivity].
    exact (IHr Htl Hr a j).
  - reflexivity.
  - rewrite !preproc_switch. cbn [set_file i_seed]. generalize (switch_choice ps (i_seed i)) as k.
    induction l as [|c r IHr]; intros k; [reflexivity|].
    cbn [existsb] in Hop. apply orb_false_iff in Hop. destruct Hop as [Hc Hr].
    inversion H as [|? ? Hhd Htl]; subst. cbn [pick_run]. destruct k as [|k]; [apply Hhd; assumption|].
    apply IHr; assumption.
  - reflexivity.
  - cbn [Pipeline_Model.preproc]. apply opq_full_file. apply Nat.leb_gt in Hop. exact Hop.
Qed.

Lemma pipeline_full_file : forall c t q maxlen x i fl, has_unmodelled_full c = false -> q_has_opaque q = false ->
  pipeline_t opq_full qopq_none (PGlobal c) t (QGlobal q) maxlen x (set_file fl i) =
  pipeline_t opq_full qopq_none (PGlobal c) t (QGlobal q) maxlen x i.
Proof.
  intros c t q maxlen x i fl Hc Hq. unfold pipeline_t, preprocess, postprocess. rewrite (preproc_full_file c Hc x i fl).
  destruct (preproc opq_full c x i) as [[a j]| |]; cbn [rmap rbind snd_file fst snd]; [|reflexivity|reflexivity].
  destruct (task t a) as [inp| |]; cbn [rbind]; [|reflexivity|reflexivity].
  rewrite (postproc_file maxlen q Hq _ j fl).
  destruct (postproc qopq_none maxlen q _ j) as [[y k]| |]; reflexivity.
Qed.

Lemma pipeline_full_function_of_seed : forall c t q maxlen x i i',
  has_unmodelled_full c = false -> q_has_opaque q = false ->
  i_seed i = i_seed i' -> i_marks i = i_marks i' ->
  pipeline_t opq_full qopq_none (PGlobal c) t (QGlobal q) maxlen x i =
  pipeline_t opq_full qopq_none (PGlobal c) t (QGlobal q) maxlen x i'.
Proof.
  intros c t q maxlen x i i' Hc Hq Hs Hm.
  rewrite <- (pipeline_full_file c t q maxlen x i (i_file i') Hc Hq). f_equal.
  destruct i as [s f m], i' as [s' f' m']. cbn [i_seed i_marks i_file set_file] in *. subst. reflexivity.
Qed.

(** the decoding of a stage id *)
Lemma opq_full_spell : forall (tg fd : bool) pw pc x i, pw < 8 -> pc < 8 ->
  opq_full (2 + (if tg then 1 else 0) + 2 * (if fd then 1 else 0) + 4 * pw + 32 * pc) x i =
  apply_part (if tg then PTarget else PInput)
             (fun s i => spell_stage fd (nth pw pw_menu f_zero) (nth pc pc_menu f_zero) (i_seed i) s) x i.
Proof.
  intros tg fd pw pc x i Hpw Hpc.
  do 8 (destruct pw as [|pw]; [do 8 (destruct pc as [|pc]; [destruct tg, fd; reflexivity|]); lia|]). lia.
Qed.

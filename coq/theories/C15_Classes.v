(** C15 with the Unicode class tests inside the model.

    [corrupt_spelling] (src/data/preprocessing.rs:505-517) hands [edit_word] the predicates
      can_delete(s) = is_alphabetic(s) || is_punctuation(s)
      can_swap(a, b) = is_alphabetic(a) && is_alphabetic(b)
    with [unicode::is_alphabetic(s) = s.chars().all(char::is_alphabetic)] (std tables) and
    [unicode::is_punctuation(s)] = the regex [^\p{P}+$] (regex-syntax tables).  Until now the
    per-position booleans [cd] / [cs] of C15_Model were inputs computed by the harness with the crate's own
    [Character] methods.  Here they are computed from the clusters of the word with [UCD_Model]
    ([str_is_alphabetic], [str_is_punctuation]: machine-translated tables of the std library and of
    regex-syntax, tied to the running code by the C18 / C20 checks and now by every C15 case):
    [cd_u], [cs_u], [pf_u].  [classes_ok] is the clause of the correspondence that demands that every
    boolean the harness still sends equals the model's.

    Theorems (no oracle premise): what a call / a chain of calls under [pf_u] can delete or swap —
    statements about the clusters of the word alone. *)
From TU Require Import RNG_Model RNG_Proofs.
From TU Require Import Base UCD_Model C15_Model C15_Proofs C15_Seeded C15_SeededProofs.
From Coq Require Import Lia.
Close Scope N_scope.
Open Scope nat_scope.

(** * the predicates of corrupt_spelling on clusters *)
Definition can_delete_u (c : cluster) : bool := str_is_alphabetic c || str_is_punctuation c.
Definition can_swap_u (a b : cluster) : bool := str_is_alphabetic a && str_is_alphabetic b.

(** per position / per adjacent pair, as [DeleteEdits::can_edit] / [SwapEdits::can_edit] ask them *)
Definition cd_u (w : word) : list bool := map can_delete_u w.
Fixpoint cs_u (w : word) : list bool :=
  match w with
  | a :: ((b :: _) as r) => can_swap_u a b :: cs_u r
  | _ => []
  end.
Definition pf_u (w : word) : list bool * list bool := (cd_u w, cs_u w).

(** what the statements say of a cluster, in terms of its code points *)
Definition alpha_cl (c : cluster) : Prop := Forall (fun x => is_alphabetic x = true) c.
Definition punct_cl (c : cluster) : Prop := c <> [] /\ Forall (fun x => re_punct x = true) c.

Lemma str_alpha_spec c : str_is_alphabetic c = true <-> alpha_cl c.
Proof. unfold str_is_alphabetic, alpha_cl. rewrite forallb_forall, Forall_forall. reflexivity. Qed.

Lemma str_punct_spec c : str_is_punctuation c = true <-> punct_cl c.
Proof.
  unfold str_is_punctuation, punct_cl. destruct c as [|x r].
  - split; [discriminate|intros [H _]; contradiction].
  - rewrite forallb_forall, Forall_forall. split; [intros H; split; [discriminate|exact H]|intros [_ H]; exact H].
Qed.

Lemma can_delete_spec c : can_delete_u c = true <-> alpha_cl c \/ punct_cl c.
Proof. unfold can_delete_u. rewrite Bool.orb_true_iff, str_alpha_spec, str_punct_spec. reflexivity. Qed.

Lemma can_swap_spec a b : can_swap_u a b = true <-> alpha_cl a /\ alpha_cl b.
Proof. unfold can_swap_u. rewrite Bool.andb_true_iff, !str_alpha_spec. reflexivity. Qed.

(** * reading the lists *)
Lemma cd_u_nth w i : nth i (cd_u w) false = true ->
  exists c, nth_error w i = Some c /\ can_delete_u c = true.
Proof.
  unfold cd_u. revert i. induction w as [|a w IH]; intros [|i] H; cbn in H; try discriminate.
  - exists a. split; [reflexivity|exact H].
  - apply IH in H as (c & Hc & Hd). exists c. split; assumption.
Qed.

Lemma cs_u_nth w : forall i, nth i (cs_u w) false = true ->
  exists a b, nth_error w i = Some a /\ nth_error w (S i) = Some b /\ can_swap_u a b = true.
Proof.
  induction w as [|a w IH]; intros i H; [destruct i; discriminate|].
  destruct w as [|b r]; [destruct i; discriminate|].
  destruct i as [|i].
  - cbn in H. exists a, b. repeat split. exact H.
  - change (cs_u (a :: b :: r)) with (can_swap_u a b :: cs_u (b :: r)) in H. cbn [nth] in H.
    apply IH in H as (x & y & Hx & Hy & Hs). exists x, y. repeat split; assumption.
Qed.

Lemma del_idxs_class fd w ex i : In i (del_idxs fd (cd_u w) w ex) ->
  exists c, nth_error w i = Some c /\ can_delete_u c = true.
Proof.
  unfold del_idxs. rewrite filter_In, Bool.andb_true_iff. intros [_ [_ H]]. unfold del_ok in H.
  destruct (negb fd && (length w <=? 1)); [discriminate|]. apply cd_u_nth. exact H.
Qed.

Lemma swap_idxs_class w ex i : In i (swap_idxs (cs_u w) w ex) ->
  exists a b, nth_error w i = Some a /\ nth_error w (S i) = Some b /\ can_swap_u a b = true.
Proof.
  unfold swap_idxs. rewrite filter_In, Bool.andb_true_iff. intros [_ [_ H]]. apply cs_u_nth. exact H.
Qed.

(** * one call of the relational model under [pf_u] *)
Lemma choices_del_class c w ex l i :
  choices c (cd_u w) (cs_u w) w ex = Some l -> In (EDel i) l ->
  exists cl, nth_error w i = Some cl /\ can_delete_u cl = true.
Proof.
  unfold choices, choices_gen. intros H Hin.
  destruct (negb (k_ins c || k_del c || k_rep c || k_swap c)).
  { injection H as <-. destruct Hin as [E|[]]. discriminate. }
  apply opt_app_Some in H as (l1 & r1 & H1 & H & ->).
  apply opt_app_Some in H as (l2 & r2 & H2 & H & ->).
  apply opt_app_Some in H as (l3 & l4 & H3 & H4 & ->).
  injection H2 as <-. injection H4 as <-.
  rewrite !in_app_iff in Hin. destruct Hin as [Hin|[Hin|[Hin|Hin]]].
  - exfalso. destruct (k_ins c); [|injection H1 as <-; destruct Hin].
    apply ins_choices_cases in H1 as (cands & _ & [->| ->]).
    + destruct Hin as [E|[]]; discriminate.
    + apply in_flat_map in Hin as (x & _ & Hx). apply in_map_iff in Hx as (e & E & _). discriminate.
  - destruct (k_del c); [|destruct Hin]. unfold del_choices in Hin.
    destruct (del_idxs (full_del c) (cd_u w) w ex) as [|i0 r] eqn:E.
    + destruct Hin as [E'|[]]; discriminate.
    + rewrite <- E in Hin. apply in_map_iff in Hin as (j & Ej & Hj). injection Ej as ->.
      eapply del_idxs_class; eassumption.
  - exfalso. destruct (k_rep c); [|injection H3 as <-; destruct Hin].
    apply rep_choices_cases in H3 as (cands & _ & [->| ->]).
    + destruct Hin as [E|[]]; discriminate.
    + apply in_flat_map in Hin as (x & _ & Hx). apply in_map_iff in Hx as (e & E & _). discriminate.
  - exfalso. destruct (k_swap c); [|destruct Hin]. unfold swap_choices in Hin.
    destruct (1 <? length w); [|destruct Hin as [E|[]]; discriminate].
    destruct (swap_idxs (cs_u w) w ex) as [|i0 r] eqn:E.
    + destruct Hin as [E'|[]]; discriminate.
    + rewrite <- E in Hin. apply in_map_iff in Hin as (j & Ej & _). discriminate.
Qed.

Lemma choices_swap_class c w ex l i :
  choices c (cd_u w) (cs_u w) w ex = Some l -> In (ESwap i) l ->
  exists a b, nth_error w i = Some a /\ nth_error w (S i) = Some b /\ can_swap_u a b = true.
Proof.
  unfold choices, choices_gen. intros H Hin.
  destruct (negb (k_ins c || k_del c || k_rep c || k_swap c)).
  { injection H as <-. destruct Hin as [E|[]]. discriminate. }
  apply opt_app_Some in H as (l1 & r1 & H1 & H & ->).
  apply opt_app_Some in H as (l2 & r2 & H2 & H & ->).
  apply opt_app_Some in H as (l3 & l4 & H3 & H4 & ->).
  injection H2 as <-. injection H4 as <-.
  rewrite !in_app_iff in Hin. destruct Hin as [Hin|[Hin|[Hin|Hin]]].
  - exfalso. destruct (k_ins c); [|injection H1 as <-; destruct Hin].
    apply ins_choices_cases in H1 as (cands & _ & [->| ->]).
    + destruct Hin as [E|[]]; discriminate.
    + apply in_flat_map in Hin as (x & _ & Hx). apply in_map_iff in Hx as (e & E & _). discriminate.
  - exfalso. destruct (k_del c); [|destruct Hin]. unfold del_choices in Hin.
    destruct (del_idxs (full_del c) (cd_u w) w ex) as [|i0 r] eqn:E.
    + destruct Hin as [E'|[]]; discriminate.
    + rewrite <- E in Hin. apply in_map_iff in Hin as (j & Ej & _). discriminate.
  - exfalso. destruct (k_rep c); [|injection H3 as <-; destruct Hin].
    apply rep_choices_cases in H3 as (cands & _ & [->| ->]).
    + destruct Hin as [E|[]]; discriminate.
    + apply in_flat_map in Hin as (x & _ & Hx). apply in_map_iff in Hx as (e & E & _). discriminate.
  - destruct (k_swap c); [|destruct Hin]. unfold swap_choices in Hin.
    destruct (1 <? length w); [|destruct Hin as [E|[]]; discriminate].
    destruct (swap_idxs (cs_u w) w ex) as [|i0 r] eqn:E.
    + destruct Hin as [E'|[]]; discriminate.
    + rewrite <- E in Hin. apply in_map_iff in Hin as (j & Ej & Hj). injection Ej as ->.
      eapply swap_idxs_class; eassumption.
Qed.

(** * one call of the seeded function under [pf_u]: for every generator state *)
Definition class_of_edit (w : word) (k : ed) : Prop :=
  match k with
  | EDel i => exists c, nth_error w i = Some c /\ can_delete_u c = true
  | ESwap i => exists a b, nth_error w i = Some a /\ nth_error w (S i) = Some b /\ can_swap_u a b = true
  | _ => True
  end.

Lemma choices_class c w ex l k :
  choices c (cd_u w) (cs_u w) w ex = Some l -> In k l -> class_of_edit w k.
Proof.
  intros H Hin. destruct k; cbn [class_of_edit]; try exact Logic.I.
  - eapply choices_del_class; eassumption.
  - eapply choices_swap_class; eassumption.
Qed.

Lemma seeded_class_l wc w ex st k st' : wf st -> wtabs_ok wc = true ->
  edit_word_seeded wc (cd_u w) (cs_u w) w ex st = SOk k st' -> class_of_edit w k.
Proof.
  intros Hw Hok H. destruct (seeded_in_choices_l _ _ _ _ _ _ _ _ Hw Hok H) as (_ & l & Hl & Hin).
  eapply choices_class; eassumption.
Qed.

(** * chains under [pf_u]: the predicates of every intermediate word are the model's *)
Inductive chain_u (c : cfg) : nat -> word * list nat -> word * list nat -> Prop :=
| chain_u_0 : forall s, chain_u c 0 s s
| chain_u_S : forall n w ex l k s',
    choices c (cd_u w) (cs_u w) w ex = Some l -> In k l ->
    chain_u c n (apply_ed w ex k) s' -> chain_u c (S n) (w, ex) s'.

Lemma chain_u_chain c n s s' : chain_u c n s s' -> chain c n s s'.
Proof.
  induction 1 as [s|n w ex l k s' Hl Hin _ IH]; [constructor|].
  eapply chain_S with (cd := cd_u w) (cs := cs_u w) (l := map (apply_ed w ex) l) (o := apply_ed w ex k).
  - unfold outcomes. rewrite Hl. reflexivity.
  - apply in_map. exact Hin.
  - exact IH.
Qed.

Lemma chain_seeded_chain_u wc n : forall w ex st w' ex' st', wf st -> wtabs_ok wc = true ->
  chain_seeded wc pf_u n w ex st = Some (w', ex', st') -> wf st' /\ chain_u (erase wc) n (w, ex) (w', ex').
Proof.
  induction n as [|n IH]; intros w ex st w' ex' st' Hw Hok H; cbn [chain_seeded] in H.
  - injection H as <- <- <-. split; [exact Hw|constructor].
  - cbn [pf_u fst snd] in H.
    destruct (edit_word_seeded wc (cd_u w) (cs_u w) w ex st) as [k st1|e| |] eqn:E; try discriminate.
    destruct (seeded_in_choices_l _ _ _ _ _ _ _ _ Hw Hok E) as (Hw1 & l & Hl & Hin).
    destruct (IH _ _ _ _ _ _ Hw1 Hok H) as [Hw' Hc]. split; [exact Hw'|].
    eapply chain_u_S; eassumption.
Qed.

(** the characters that are neither alphabetic nor punctuation (digits, symbols, marks on their own,
    emoji, ...), in order *)
Definition fixed_u (w : word) : list cluster := filter (fun c => negb (can_delete_u c)) w.

Lemma fixed_app a b : fixed_u (a ++ b) = fixed_u a ++ fixed_u b.
Proof. apply filter_app. Qed.

Lemma split_nth {A} (w : list A) i c : nth_error w i = Some c -> w = firstn i w ++ c :: skipn (S i) w.
Proof.
  revert i. induction w as [|a w IH]; intros [|i] H; cbn in H; try discriminate.
  - injection H as ->. reflexivity.
  - cbn [firstn skipn app]. f_equal. apply IH. exact H.
Qed.

Lemma skipn_two {A} (w : list A) i a b : nth_error w i = Some a -> nth_error w (S i) = Some b ->
  skipn i w = a :: b :: skipn (S (S i)) w.
Proof.
  revert i. induction w as [|x w IH]; intros [|i] Ha Hb; cbn in Ha; try discriminate.
  - injection Ha as ->. destruct w as [|y w]; cbn in Hb; [discriminate|]. injection Hb as ->. reflexivity.
  - cbn [skipn]. apply IH; assumption.
Qed.

Lemma fixed_step c w ex l k : k_ins c = false -> k_rep c = false ->
  choices c (cd_u w) (cs_u w) w ex = Some l -> In k l -> fixed_u (apply_word k w) = fixed_u w.
Proof.
  intros Hi Hr Hl Hin. pose proof (choices_valid _ _ _ _ _ _ _ Hl Hin) as Hv.
  pose proof (choices_class _ _ _ _ _ Hl Hin) as Hc.
  destruct k as [|i e|i|i e|i]; cbn [valid_ed class_of_edit apply_word] in *.
  - reflexivity.
  - destruct Hv as [Hv _]. congruence.
  - destruct Hc as (cl & Hn & Hd). rewrite (split_nth w i cl Hn) at 3. rewrite !fixed_app.
    f_equal. cbn [fixed_u filter]. rewrite Hd. reflexivity.
  - destruct Hv as [Hv _]. congruence.
  - destruct Hc as (a & b & Ha & Hb & Hs). rewrite (skipn_two w i a b Ha Hb).
    rewrite <- (firstn_skipn i w) at 3. rewrite (skipn_two w i a b Ha Hb). rewrite !fixed_app. f_equal.
    unfold can_swap_u in Hs. apply Bool.andb_true_iff in Hs as [Sa Sb].
    cbn [fixed_u filter]. unfold can_delete_u. rewrite Sa, Sb. reflexivity.
Qed.

Lemma fixed_chain_l c : k_ins c = false -> k_rep c = false ->
  forall n s s', chain_u c n s s' -> fixed_u (fst s') = fixed_u (fst s).
Proof.
  intros Hi Hr n s s' H. induction H as [s|n w ex l k s' Hl Hin _ IH]; [reflexivity|].
  rewrite IH. cbn [apply_ed fst]. eapply fixed_step; eassumption.
Qed.

(** * the clause of the correspondence: every class boolean the harness sends is the model's.
    chain stream (input = (g kinds fd pm itab rtab seed steps ...)): pm = 0: [cd] / [cs] of every call are
    [cd_u] / [cs_u] of that call's word; pm = 1 (the always-true predicates): all true;
    corrupt_spelling streams 2 / 3: the class oracle [info] = ((cluster alphabetic punctuation) ...) *)
Fixpoint bools_eqb (a b : list bool) : bool :=
  match a, b with
  | [], [] => true
  | x :: a', y :: b' => Bool.eqb x y && bools_eqb a' b'
  | _, _ => false
  end.

Lemma bools_eqb_eq a : forall b, bools_eqb a b = true <-> a = b.
Proof.
  induction a as [|x a IH]; intros [|y b]; cbn [bools_eqb]; split; intros H; try reflexivity; try discriminate.
  - apply Bool.andb_true_iff in H as [H1 H2]. apply Bool.eqb_prop in H1. apply IH in H2. congruence.
  - injection H as -> ->. rewrite Bool.eqb_reflx. cbn. apply IH. reflexivity.
Qed.

Definition step_classes_ok (real : bool) (s : step) : bool :=
  if real then bools_eqb (s_cd s) (cd_u (s_w s)) && bools_eqb (s_cs s) (cs_u (s_w s))
  else bools_eqb (s_cd s) (map (fun _ => true) (s_w s))
       && bools_eqb (s_cs s) (map (fun _ => true) (cs_u (s_w s))).

Definition info_ok (ci : cls_info) : bool :=
  forallb (fun e : str * bool * bool =>
             match e with (c, a, p) => Bool.eqb a (str_is_alphabetic c) && Bool.eqb p (str_is_punctuation c) end) ci.

Definition stream_of (v : val) : Z := v_z (v_nth 0 v).
Definition real_preds (v : val) : bool := Z.eqb (v_z (v_nth 3 v)) 0.

Definition classes_ok (v : val) : bool :=
  if Z.eqb (stream_of v) 2 || Z.eqb (stream_of v) 3 then info_ok (v_info (v_nth 10 v))
  else forallb (step_classes_ok (real_preds v)) (v_steps v).

Lemma classes_ok_steps v : is_e2e v = false -> Z.eqb (stream_of v) 3 = false -> real_preds v = true ->
  classes_ok v = true ->
  Forall (fun s => s_cd s = cd_u (s_w s) /\ s_cs s = cs_u (s_w s)) (v_steps v).
Proof.
  unfold classes_ok, is_e2e, stream_of. intros -> -> -> H. cbn [orb] in H.
  apply Forall_forall. intros s Hs. apply (proj1 (forallb_forall _ _) H) in Hs.
  cbn [step_classes_ok] in Hs. apply Bool.andb_true_iff in Hs as [H1 H2].
  split; apply bools_eqb_eq; assumption.
Qed.

(** corrupt_spelling streams: on a word whose clusters are all listed in a checked class oracle, the
    predicates the relational line computes from the oracle are the model's *)
Lemma info_of_ok ci c : info_ok ci = true -> In c (map (fun e : str * bool * bool => fst (fst e)) ci) ->
  info_of ci c = (str_is_alphabetic c, str_is_punctuation c).
Proof.
  induction ci as [|[[c' a] p] r IH]; intros H Hin; [destruct Hin|].
  cbn [info_ok forallb] in H. apply Bool.andb_true_iff in H as [H1 H2].
  apply Bool.andb_true_iff in H1 as [Ha Hp]. apply Bool.eqb_prop in Ha, Hp.
  cbn [info_of]. destruct (nlist_eqb c c') eqn:E.
  - apply nlist_eqb_eq in E. subst. reflexivity.
  - destruct Hin as [E'|Hin]; [cbn in E'; subst; rewrite nlist_eqb_refl in E; discriminate|]. apply IH; assumption.
Qed.

Lemma cd_of_u ci w : info_ok ci = true ->
  Forall (fun c => In c (map (fun e : str * bool * bool => fst (fst e)) ci)) w -> cd_of ci w = cd_u w.
Proof.
  intros Hok Hall. unfold cd_of, cd_u. apply map_ext_in. intros c Hc.
  rewrite (info_of_ok ci c Hok (proj1 (Forall_forall _ _) Hall c Hc)). reflexivity.
Qed.

Lemma cs_of_u ci w : info_ok ci = true ->
  Forall (fun c => In c (map (fun e : str * bool * bool => fst (fst e)) ci)) w -> cs_of ci w = cs_u w.
Proof.
  intros Hok. induction w as [|a w IH]; intros Hall; [reflexivity|].
  destruct w as [|b r]; [reflexivity|].
  change (cs_of ci (a :: b :: r)) with ((fst (info_of ci a) && fst (info_of ci b)) :: cs_of ci (b :: r)).
  change (cs_u (a :: b :: r)) with (can_swap_u a b :: cs_u (b :: r)).
  inversion Hall as [|? ? Ha Hr]; subst. inversion Hr as [|? ? Hb _]; subst.
  rewrite (info_of_ok ci a Hok Ha), (info_of_ok ci b Hok Hb). cbn [fst]. f_equal. apply IH. exact Hr.
Qed.

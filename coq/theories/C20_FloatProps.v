(** C20 — pinned statements about the binary64 level of [Dictionary::get] / [get_closest] (C20_Float.v): the relative
    frequency [freq as f64 / freq_sum as f64] and the comparison of the [f64] distances, bit for bit.  Nothing but
    statements, [exact], and assumption audits.  These theorems go through Flocq's theory of [round] / [B2R] (and C12's
    [norm_fl_order_exact]) and therefore depend on the four axioms of Coq's real numbers / classical logic, allow-listed
    by exact name for THIS file in props/C20.json ([axioms_allow_by_file]); the theorems of C20_Props.v do not and stay
    closed under the global context.

    [closest_fl norm q d]: the two passes of [get_closest] on the iteration order [d], first pass with [<] / [==] on
    the doubles [distance_fl] (= [dist as f64 / max(len) as f64], C12_Float.v) starting from INFINITY; [closest_m]: the
    same over the rationals (C20_Props.closest_m_spec); [kdist_m norm q e] = C12's rational [distance] between the
    query's clusters and the model's segmentation of the key; [short a]: fewer than 2^26 clusters;
    [relfreq_fl f fs] = [f as f64 / fs as f64]; [P53N] = 2^53. *)
From Coq Require Import ZArith List Bool QArith Qreals Reals Lia.
From Flocq Require Import Core IEEE754.BinarySingleNaN.
From TU Require Import Base C12_Model C12_Float C12_FloatBase C12_FloatProofs.
From TU Require Import C20_Model C20_Words C20_Bytes C20_Float C20_FloatProofs C20_FloatCheck.
Import ListNotations.
Close Scope Q_scope.
Open Scope N_scope.

(** (1) the float comparison decides exactly as the rationals do: for a query and keys below 2^26 clusters the binary64
    passes return the very entry the rational passes return — for every iteration order, both measures *)
Theorem closest_fl_exact : forall norm q (d : dict), short q -> short_dict d ->
  closest_fl norm q d = closest_m norm q d.
Proof. exact closest_fl_eq_l. Qed.
Print Assumptions closest_fl_exact.

(** (2) closest_spec at float level: the entry returned under the float comparison is an argmin of the RATIONAL
    distance and has maximal frequency among the entries at that distance; [None] only on the empty dictionary *)
Theorem closest_spec_fl : forall norm q (d : dict), short q -> short_dict d ->
  (d = [] -> closest_fl norm q d = CNone) /\
  (d <> [] ->
   exists e, closest_fl norm q d = CSome e /\ In e d /\
     forall e', In e' d ->
       (kdist_m norm q e <= kdist_m norm q e')%Q /\
       ((kdist_m norm q e' == kdist_m norm q e)%Q -> snd e' <= snd e)).
Proof. exact closest_spec_fl_l. Qed.
Print Assumptions closest_spec_fl.

(** (3) the distances it compares: one per entry, each a finite double, the correctly rounded rational distance *)
Theorem dists_fl_correct : forall norm q (d : dict), short q -> short_dict d ->
  length (dists_fl norm q d) = length d /\
  forall e, In e d ->
    is_finite (distance_fl nofl norm q (seg_key (fst e))) = true /\
    B2R (distance_fl nofl norm q (seg_key (fst e))) = rnd prec64 emax64 (Q2R (kdist_m norm q e)).
Proof. exact dists_fl_correct_l. Qed.
Print Assumptions dists_fl_correct.

(** (4) relative frequencies: for 0 < freq_sum <= 2^53 and f <= freq_sum (every entry of the dictionary) a finite,
    non-negative double in [0,1], within relative 2^-53 of f / freq_sum, exactly 1.0 for f = freq_sum, +0.0 iff f = 0 *)
Theorem relfreq_range : forall f fs : N, 0 < fs -> fs <= P53N -> f <= fs ->
  is_finite (relfreq_fl f fs) = true /\ (0 <= B2R (relfreq_fl f fs) <= 1)%R /\ Bsign (relfreq_fl f fs) = false.
Proof. exact relfreq_range_l. Qed.
Print Assumptions relfreq_range.

Theorem relfreq_close : forall f fs : N, 0 < fs -> fs <= P53N -> f <= fs ->
  (Rabs (B2R (relfreq_fl f fs) - IZR (Z.of_N f) / IZR (Z.of_N fs)) <= u53 * (IZR (Z.of_N f) / IZR (Z.of_N fs)))%R.
Proof. exact relfreq_close_l. Qed.
Print Assumptions relfreq_close.

Theorem relfreq_one : forall fs : N, 0 < fs -> fs <= P53N -> relfreq_fl fs fs = f64_one.
Proof. exact relfreq_one_l. Qed.
Print Assumptions relfreq_one.

Theorem relfreq_zero_iff : forall f fs : N, 0 < fs -> fs <= P53N -> f <= fs -> (relfreq_fl f fs = f64_zero <-> f = 0).
Proof. exact relfreq_zero_iff_l. Qed.
Print Assumptions relfreq_zero_iff.

(** ... and with freq_sum = 0 (a loaded file whose frequencies are all 0; [create] never produces one, counts_exact: f > 0)
    there is no relative frequency: 0/0 = NaN *)
Theorem relfreq_zero_sum_nan : relfreq_fl 0 0 = B754_nan.
Proof. exact relfreq_nan_l. Qed.
Print Assumptions relfreq_zero_sum_nan.

(** (5) the relative frequencies of all entries sum to 1 up to ONE relative rounding error, whatever the number of entries *)
Theorem relfreq_sum : forall d : dict, 0 < freq_sum d -> freq_sum d <= P53N ->
  (Rabs (sumR (map (fun e : word * N => B2R (relfreq_fl (snd e) (freq_sum d))) d) - 1) <= u53)%R.
Proof. exact relfreq_sum_l. Qed.
Print Assumptions relfreq_sum.

(** (6) the executable statement as it is extracted and evaluated on every implementation output ([check] =
    [check_C20f]: [check_C20u] on the prepared input after dropping the float fields, and returned relative frequencies in
    [0,1] when freq_sum > 0) holds of the float model's own output, for every input whose queries and keys have fewer than
    2^26 clusters and whose loaded dictionary has freq_sum <= 2^53 — no oracle premise *)
Theorem check_run_f : forall v, short_input v -> check_C20f v (run_C20f v) = true.
Proof. exact check_run_f_l. Qed.
Print Assumptions check_run_f.

(** ** non-vacuity *)
(** dictionary file "good\t8\nthis\t7\nis\t4\n" (the crate's test file), query "god", edit distance *)
Definition ex_f_in : val :=
  L [L [I 0; I 1; L []; L []; L []]%Z; L []; L [L []; L []];
     L [I 103; I 111; I 111; I 100; I 9; I 56; I 10; I 116; I 104; I 105; I 115; I 9; I 55; I 10; I 105; I 115; I 9; I 52; I 10]%Z;
     L []; L [L [L [I 103; I 111; I 100]%Z; I 0%Z; L []; L []]]].
Example short_input_example : short_input ex_f_in.
Proof.
  split.
  - intros q Hq. vm_compute in Hq. destruct Hq as [<-|[]]. unfold short. cbn. lia.
  - intros d0 H. vm_compute in H. injection H as <-. split; [|vm_compute; discriminate].
    intros e He. cbn [In] in He. destruct He as [<-|[<-|[<-|[]]]]; unfold short; vm_compute; reflexivity.
Qed.
(** get_closest("god") = ("good", 8, 8/19); the distances to is, this, good (ascending (freq, word) order): 3.0, 4.0, 1.0 *)
Example run_f_example :
  v_nth 3 (run_C20f ex_f_in)
  = L [L [L []; L [L [L [I 103; I 111; I 111; I 100]; I 8; L [I 1; I 0; I 7585009898729256; I (-54)]]];
          L [L [I 1; I 0; I 6755399441055744; I (-51)]; L [I 1; I 0; I 4503599627370496; I (-50)]; L [I 1; I 0; I 4503599627370496; I (-52)]]]]%Z.
Proof. vm_compute. reflexivity. Qed.
(** 2^53 + 1 as f64 is 2^53 (ties to even): relfreq_fl (2^53+1) (2^53+1) is still exactly 1.0, and 1/3 < 2/5 *)
Example relfreq_example :
  fl_v (relfreq_fl 9007199254740993 9007199254740993) = fl_v f64_one
  /\ fl_v (relfreq_fl 1 3) = L [I 1; I 0; I 6004799503160661; I (-54)]%Z.
Proof. split; vm_compute; reflexivity. Qed.

(** C13 proofs, part 6: the binary64 model (C13_Float.v). *)
From Coq Require Import ZArith List Bool QArith Qreals Reals Lia Lra.
From Flocq Require Import Core IEEE754.BinarySingleNaN Relative.
From TU Require Import Base C13_Model C13_Float C13_F1.
Import ListNotations.
Close Scope Q_scope.
Open Scope Z_scope.

(** * the range clause F <= 1 is false of the expression before the repair *)
(** beta = 1.9243201927590334e-08 (tp 1000, fn 2) and beta = 108442877.09708491 (tp 1390, fp 2) *)
Definition beta_tiny : f64 := mk_fl false 5815900915580489 (-78).
Definition beta_huge : f64 := mk_fl false 7277478290876986 (-26).
Definition c1f (x : fpr_fl) : f64 := fst (fst x).
Definition c2f (x : fpr_fl) : f64 := snd (fst x).
Definition c3f (x : fpr_fl) : f64 := snd x.

Lemma pinned_tiny : B2SF (c1f (f1_fl_pinned beta_tiny 1000 0 2)) = SpecFloat.S754_finite false 4503599627370497 (-52).
Proof. vm_compute. reflexivity. Qed.
Lemma pinned_huge : B2SF (c1f (f1_fl_pinned beta_huge 1390 2 0)) = SpecFloat.S754_finite false 4503599627370497 (-52).
Proof. vm_compute. reflexivity. Qed.

(** [B2R] of the constants *)
Lemma B2R_one : B2R f_one = 1%R.
Proof.
  unfold f_one, of_Z. cbn -[bpow]. unfold B2R. cbn -[bpow].
  unfold F2R. cbn. lra.
Qed.

Lemma Bltb_R : forall x y : f64, is_finite x = true -> is_finite y = true ->
  Bltb x y = true -> (B2R x < B2R y)%R.
Proof.
  intros x y Fx Fy H. rewrite (Bltb_correct _ _ x y Fx Fy) in H.
  destruct (Rlt_bool_spec (B2R x) (B2R y)) as [L|L]; [exact L|discriminate].
Qed.

Lemma f1_fl_le_1_refuted_l :
  exists tp fp fn beta,
    (is_finite (fmul beta beta) = true) /\
    (Bltb f_one (c1f (f1_fl_pinned beta tp fp fn)) = true) /\
    (1 < B2R (c1f (f1_fl_pinned beta tp fp fn)))%R.
Proof.
  exists 1000%nat, 0%nat, 2%nat, beta_tiny.
  assert (E : Bltb f_one (c1f (f1_fl_pinned beta_tiny 1000 0 2)) = true) by (vm_compute; reflexivity).
  split; [vm_compute; reflexivity|]. split; [exact E|].
  rewrite <- B2R_one. apply Bltb_R; [reflexivity| |exact E].
  vm_compute. reflexivity.
Qed.

Lemma f1_fl_le_1_refuted_huge_l :
  (is_finite (fmul beta_huge beta_huge) = true) /\
  (Bltb f_one (c1f (f1_fl_pinned beta_huge 1390 2 0)) = true) /\
  (1 < B2R (c1f (f1_fl_pinned beta_huge 1390 2 0)))%R.
Proof.
  assert (E : Bltb f_one (c1f (f1_fl_pinned beta_huge 1390 2 0)) = true) by (vm_compute; reflexivity).
  split; [vm_compute; reflexivity|]. split; [exact E|].
  rewrite <- B2R_one. apply Bltb_R; [reflexivity| |exact E].
  vm_compute. reflexivity.
Qed.

(** the repaired expression on the same inputs: exactly 1.0 and not above *)
Lemma fixed_on_witnesses :
  (B2SF (c1f (f1_fl beta_tiny 1000 0 2)) = SpecFloat.S754_finite false 4503599627370496 (-52)) /\
  (Bleb (c1f (f1_fl beta_huge 1390 2 0)) f_one = true).
Proof. split; vm_compute; reflexivity. Qed.

(** * rounding: notation and the facts about Flocq's [round] used below *)
Open Scope R_scope.
Notation fexp64 := (SpecFloat.fexp prec emax).
Definition rnd (x : R) : R := round radix2 fexp64 ZnearestE x.
Definition fmt (x : R) : Prop := generic_format radix2 fexp64 x.
Definition Fin (x : f64) : Prop := is_finite x = true.
Definition TOP : R := bpow radix2 emax.
Definition MAXR : R := bpow radix2 emax - bpow radix2 (emax - prec).

Local Instance vexp : Valid_exp fexp64 := fexp_correct prec emax Hprec.
Local Instance vrnd : Valid_rnd ZnearestE := valid_rnd_N _.

Lemma rnd_le : forall x y, x <= y -> rnd x <= rnd y.
Proof. intros. apply round_le; auto with typeclass_instances. Qed.
Lemma rnd_fmt : forall x, fmt x -> rnd x = x.
Proof. intros. apply round_generic; auto with typeclass_instances. Qed.
Lemma rnd_le_fmt : forall x c, fmt c -> x <= c -> rnd x <= c.
Proof. intros. apply round_le_generic; auto with typeclass_instances. Qed.
Lemma rnd_ge_fmt : forall x c, fmt c -> c <= x -> c <= rnd x.
Proof. intros. apply round_ge_generic; auto with typeclass_instances. Qed.
Lemma rnd_0 : rnd 0 = 0.
Proof. apply round_0; auto with typeclass_instances. Qed.
Lemma fmt_0 : fmt 0.
Proof. apply generic_format_0. Qed.
Lemma fmt_rnd : forall x, fmt (rnd x).
Proof. intros. apply generic_format_round; auto with typeclass_instances. Qed.
Lemma fmt_B2R : forall x : f64, fmt (B2R x).
Proof. intros. apply generic_format_B2R. Qed.
Lemma fmt_bpow : forall e, (-1074 <= e)%Z -> fmt (bpow radix2 e).
Proof.
  intros e H. apply generic_format_bpow. unfold SpecFloat.fexp, SpecFloat.emin, prec, emax. lia.
Qed.
Lemma rnd_nonneg : forall x, 0 <= x -> 0 <= rnd x.
Proof. intros. apply rnd_ge_fmt; [apply fmt_0|assumption]. Qed.

Lemma fmt_IZR : forall z, (Z.abs z <= 2 ^ 53)%Z -> fmt (IZR z).
Proof.
  intros z H. destruct (Z.eq_dec (Z.abs z) (2 ^ 53)) as [E|E].
  - assert (Hz : z = (2 ^ 53)%Z \/ z = (- 2 ^ 53)%Z) by lia.
    destruct Hz as [-> | ->].
    + change (IZR (2 ^ 53)) with (IZR (Zpower radix2 53)). rewrite IZR_Zpower by lia.
      apply fmt_bpow. lia.
    + rewrite opp_IZR. apply generic_format_opp.
      change (IZR (2 ^ 53)) with (IZR (Zpower radix2 53)). rewrite IZR_Zpower by lia.
      apply fmt_bpow. lia.
  - apply generic_format_FLT. apply (FLT_spec radix2 _ _ _ (Float radix2 z 0)).
    + unfold F2R. cbn. ring.
    + cbn [Fnum]. unfold prec. change (Zpower radix2 53) with (2 ^ 53)%Z. lia.
    + cbn. unfold SpecFloat.emin, emax, prec. lia.
Qed.

Lemma fmt_1 : fmt 1.
Proof. apply (fmt_IZR 1). lia. Qed.

Lemma TOP_pos : 0 < TOP. Proof. apply bpow_gt_0. Qed.
Lemma MAXR_lt_TOP : MAXR < TOP.
Proof. unfold MAXR, TOP. pose proof (bpow_gt_0 radix2 (emax - prec)). lra. Qed.
Lemma B2R_le_MAX : forall x : f64, Rabs (B2R x) <= MAXR.
Proof. intros. apply abs_B2R_le_emax_minus_prec. exact Hprec. Qed.

(** a rounded value whose argument is bounded by a representable c < 2^1024 does not overflow *)
Lemma rnd_lt_TOP : forall x c, fmt c -> c < TOP -> Rabs x <= c -> Rabs (rnd x) < TOP.
Proof.
  intros x c Fc Hc Hx. apply Rle_lt_trans with c; [|exact Hc].
  apply abs_round_le_generic; auto with typeclass_instances.
Qed.

(** * the operations on finite floats *)
Lemma fadd_spec : forall x y : f64, Fin x -> Fin y ->
  Rabs (rnd (B2R x + B2R y)) < TOP ->
  B2R (fadd x y) = rnd (B2R x + B2R y) /\ Fin (fadd x y).
Proof.
  intros x y Fx Fy H. pose proof (Bplus_correct prec emax Hprec Hmax mode_NE x y Fx Fy) as C.
  cbn [round_mode] in C. fold (rnd (B2R x + B2R y)) in C. fold TOP in C.
  rewrite (Rlt_bool_true _ _ H) in C. destruct C as (C1 & C2 & _). split; assumption.
Qed.

Lemma fmul_spec : forall x y : f64, Fin x -> Fin y ->
  Rabs (rnd (B2R x * B2R y)) < TOP ->
  B2R (fmul x y) = rnd (B2R x * B2R y) /\ Fin (fmul x y).
Proof.
  intros x y Fx Fy H. pose proof (Bmult_correct prec emax Hprec Hmax mode_NE x y) as C.
  cbn [round_mode] in C. fold (rnd (B2R x * B2R y)) in C. fold TOP in C.
  rewrite (Rlt_bool_true _ _ H) in C. destruct C as (C1 & C2 & _). split; [assumption|].
  unfold Fin in *. unfold fmul. rewrite C2, Fx, Fy. reflexivity.
Qed.

Lemma fdiv_spec : forall x y : f64, Fin x -> B2R y <> 0 ->
  Rabs (rnd (B2R x / B2R y)) < TOP ->
  B2R (fdiv x y) = rnd (B2R x / B2R y) /\ Fin (fdiv x y).
Proof.
  intros x y Fx Hy H. pose proof (Bdiv_correct prec emax Hprec Hmax mode_NE x y Hy) as C.
  cbn [round_mode] in C. fold (rnd (B2R x / B2R y)) in C. fold TOP in C.
  rewrite (Rlt_bool_true _ _ H) in C. destruct C as (C1 & C2 & _). split; [assumption|].
  unfold Fin in *. unfold fdiv. rewrite C2. exact Fx.
Qed.

Lemma bpow53_lt_TOP : bpow radix2 53 < TOP.
Proof. unfold TOP. apply bpow_lt. unfold emax. lia. Qed.

Lemma of_Z_spec : forall z, (Z.abs z <= 2 ^ 53)%Z -> B2R (of_Z z) = IZR z /\ Fin (of_Z z).
Proof.
  intros z H. pose proof (binary_normalize_correct prec emax Hprec Hmax mode_NE z 0 false) as C.
  cbv zeta in C. cbn [round_mode] in C.
  assert (E : F2R (Float radix2 z 0) = IZR z) by (unfold F2R; cbn; ring).
  rewrite E in C. fold (rnd (IZR z)) in C. fold TOP in C.
  rewrite (rnd_fmt _ (fmt_IZR z H)) in C.
  rewrite Rlt_bool_true in C.
  - destruct C as (C1 & C2 & _). split; assumption.
  - apply Rle_lt_trans with (bpow radix2 53); [|apply bpow53_lt_TOP].
    rewrite <- abs_IZR. change (bpow radix2 53) with (IZR (Zpower radix2 53)). apply IZR_le.
    change (Zpower radix2 53) with (2 ^ 53)%Z. exact H.
Qed.

Lemma B2R_zero : B2R f_zero = 0. Proof. reflexivity. Qed.
Lemma Fin_zero : Fin f_zero. Proof. reflexivity. Qed.
Lemma Fin_one : Fin f_one. Proof. reflexivity. Qed.

(** * precision / recall: [a as f64 / b.max(1) as f64] with 0 <= a <= b < 2^53 *)
Definition u53 : R := bpow radix2 (-53).

Lemma u53_pos : 0 < u53. Proof. apply bpow_gt_0. Qed.
Lemma u53_lt_1 : u53 < 1.
Proof. unfold u53. change 1 with (bpow radix2 0). apply bpow_lt. lia. Qed.
Lemma fmt_u53 : fmt u53. Proof. apply fmt_bpow. lia. Qed.
Lemma bpow53_u53 : bpow radix2 53 * u53 = 1.
Proof. unfold u53. rewrite <- bpow_plus. reflexivity. Qed.
Lemma IZR_2p53 : IZR (2 ^ 53) = bpow radix2 53.
Proof. change (IZR (2 ^ 53)) with (IZR (Zpower radix2 53)). apply IZR_Zpower. lia. Qed.
Lemma fmt_pred1 : fmt (1 - u53).
Proof.
  apply generic_format_FLT. apply (FLT_spec radix2 _ _ _ (Float radix2 (2 ^ 53 - 1) (-53))).
  - unfold F2R. cbn [Fnum Fexp]. fold u53. rewrite minus_IZR, IZR_2p53.
    pose proof bpow53_u53. lra.
  - cbn [Fnum]. unfold prec. change (Zpower radix2 53) with (2 ^ 53)%Z. lia.
  - cbn [Fexp]. unfold SpecFloat.emin, emax, prec. lia.
Qed.

Lemma inv_IZR_ge_u53 : forall d, (1 <= d <= 2 ^ 53)%Z -> u53 <= / IZR d.
Proof.
  intros d H. change u53 with (bpow radix2 (Z.opp 53)). rewrite bpow_opp.
  apply Rinv_le_contravar; [apply IZR_lt; lia|].
  change (bpow radix2 53) with (IZR (Zpower radix2 53)). apply IZR_le.
  change (Zpower radix2 53) with (2 ^ 53)%Z. lia.
Qed.

Lemma ratio_fl_spec : forall a b, (0 <= a <= b)%Z -> (b < 2 ^ 53)%Z ->
  Fin (ratio_fl a b) /\
  B2R (ratio_fl a b) = rnd (IZR a / IZR (Z.max b 1)) /\
  0 <= B2R (ratio_fl a b) <= 1 /\
  (B2R (ratio_fl a b) = 0 <-> a = 0%Z) /\
  (B2R (ratio_fl a b) = 1 <-> (a = b /\ 0 < a)%Z) /\
  ((0 < a)%Z -> u53 <= B2R (ratio_fl a b)) /\
  ((a < b)%Z -> B2R (ratio_fl a b) <= 1 - u53).
Proof.
  intros a b Hab Hb. set (d := Z.max b 1).
  assert (Hd : (1 <= d < 2 ^ 53)%Z) by (unfold d; lia).
  assert (Had : (a <= d)%Z) by (unfold d; lia).
  destruct (of_Z_spec a ltac:(lia)) as [Ra Fa].
  destruct (of_Z_spec d ltac:(lia)) as [Rd Fd].
  set (A := IZR a) in *. set (D := IZR d) in *.
  assert (D1 : 1 <= D) by (apply (IZR_le 1); lia).
  assert (A0 : 0 <= A) by (apply (IZR_le 0); lia).
  assert (AD : A <= D) by (apply IZR_le; lia).
  set (i := / D).
  assert (Di : D * i = 1) by (unfold i; field; lra).
  assert (i0 : 0 < i) by (unfold i; apply Rinv_0_lt_compat; lra).
  assert (iu : u53 <= i) by (apply inv_IZR_ge_u53; lia).
  assert (Q0 : 0 <= A * i) by (apply Rmult_le_pos; lra).
  assert (Q1 : A * i <= 1).
  { assert (0 <= (D - A) * i) by (apply Rmult_le_pos; lra). lra. }
  assert (S : B2R (ratio_fl a b) = rnd (A * i) /\ Fin (ratio_fl a b)).
  { unfold ratio_fl. fold d.
    assert (E : B2R (of_Z a) / B2R (of_Z d) = A * i) by (rewrite Ra, Rd; reflexivity).
    rewrite <- E. apply fdiv_spec; [exact Fa|rewrite Rd; lra|].
    rewrite E. apply rnd_lt_TOP with 1; [apply fmt_1|unfold TOP; change 1 with (bpow radix2 0); apply bpow_lt; unfold emax; lia|].
    rewrite Rabs_pos_eq; assumption. }
  destruct S as [S FS]. fold D. change (A / D) with (A * i).
  assert (R0 : 0 <= rnd (A * i)) by (apply rnd_nonneg; exact Q0).
  assert (R1 : rnd (A * i) <= 1) by (apply rnd_le_fmt; [apply fmt_1|exact Q1]).
  assert (Pos : (0 < a)%Z -> u53 <= rnd (A * i)).
  { intros Ha. apply rnd_ge_fmt; [apply fmt_u53|].
    assert (1 <= A) by (apply (IZR_le 1); lia).
    assert (0 <= (A - 1) * i) by (apply Rmult_le_pos; lra). lra. }
  assert (Lt : (a < d)%Z -> rnd (A * i) <= 1 - u53).
  { intros Ha. apply rnd_le_fmt; [apply fmt_pred1|].
    assert (A + 1 <= D) by (unfold A, D; rewrite <- (plus_IZR a 1); apply IZR_le; lia).
    assert (0 <= (D - A - 1) * i) by (apply Rmult_le_pos; lra). lra. }
  pose proof u53_pos as U0.
  rewrite S. repeat split; try assumption.
  - intros E0. destruct (Z.eq_dec a 0) as [Z0|NZ]; [exact Z0|]. specialize (Pos ltac:(lia)). lra.
  - intros ->. unfold A. rewrite Rmult_0_l. apply rnd_0.
  - destruct (Z.eq_dec a b) as [Eab|Nab]; [exact Eab|]. specialize (Lt ltac:(lia)). lra.
  - destruct (Z_lt_le_dec 0 a) as [Pa|Na]; [exact Pa|].
    assert (a = 0%Z) by lia. subst a. unfold A in H. rewrite Rmult_0_l, rnd_0 in H. lra.
  - intros [Eab Pa]. assert (a = d) by (unfold d; lia).
    assert (AeD : A = D) by (unfold A, D; congruence).
    rewrite AeD, Di. apply rnd_fmt, fmt_1.
  - intros Ha. apply Lt. unfold d. lia.
Qed.


(** * no overflow when at most 1 is added to a finite float *)
Lemma fmt_TOP : fmt TOP.
Proof. unfold TOP. apply generic_format_bpow. unfold SpecFloat.fexp, SpecFloat.emin, emax, prec. lia. Qed.
Lemma MAXR_pred : MAXR = pred radix2 fexp64 TOP.
Proof. unfold MAXR, TOP. rewrite pred_bpow. reflexivity. Qed.
Lemma fmt_MAXR : fmt MAXR.
Proof. rewrite MAXR_pred. apply generic_format_pred; [apply vexp|apply fmt_TOP]. Qed.
Lemma succ_MAXR : succ radix2 fexp64 MAXR = TOP.
Proof. rewrite MAXR_pred. apply succ_pred; [apply vexp|apply fmt_TOP]. Qed.
Lemma MAXR_pos : 0 < MAXR.
Proof.
  unfold MAXR. assert (bpow radix2 (emax - prec) < bpow radix2 emax) by (apply bpow_lt; unfold emax, prec; lia). lra.
Qed.

Lemma rnd_MAX_plus_1 : forall v, v <= MAXR + 1 -> rnd v <= MAXR.
Proof.
  intros v H. apply round_N_le_midp; [apply vexp|apply fmt_MAXR|]. rewrite succ_MAXR.
  unfold MAXR in *. fold TOP in *.
  assert (E : bpow radix2 (emax - prec) = 2 * bpow radix2 970).
  { change (emax - prec)%Z with (1 + 970)%Z. rewrite bpow_plus. reflexivity. }
  assert (1 < bpow radix2 970) by (change 1 with (bpow radix2 0); apply bpow_lt; lia).
  lra.
Qed.

(** * building blocks on non-negative finite floats *)
Definition NNF (x : f64) : Prop := Fin x /\ 0 <= B2R x.

Lemma NNF_le_MAX : forall x, NNF x -> B2R x <= MAXR.
Proof. intros x [_ H]. pose proof (B2R_le_MAX x) as M. rewrite Rabs_pos_eq in M; assumption. Qed.

(** multiplying by a float in [0,1] stays below the other factor *)
Lemma fmul_le1 : forall x y, NNF x -> NNF y -> B2R y <= 1 ->
  NNF (fmul x y) /\ B2R (fmul x y) = rnd (B2R x * B2R y) /\ B2R (fmul x y) <= B2R x.
Proof.
  intros x y [Fx X0] [Fy Y0] Y1.
  assert (P0 : 0 <= B2R x * B2R y) by (apply Rmult_le_pos; assumption).
  assert (P1 : B2R x * B2R y <= B2R x).
  { assert (0 <= B2R x * (1 - B2R y)) by (apply Rmult_le_pos; lra). lra. }
  destruct (fmul_spec x y Fx Fy) as [E F].
  { apply rnd_lt_TOP with (B2R x); [apply fmt_B2R| |rewrite Rabs_pos_eq; assumption].
    pose proof (NNF_le_MAX x (conj Fx X0)). pose proof MAXR_lt_TOP. lra. }
  unfold NNF. rewrite E. repeat split; [exact F|apply rnd_nonneg; exact P0|apply rnd_le_fmt; [apply fmt_B2R|exact P1]].
Qed.

(** adding a float in [0,1] to a non-negative finite float does not overflow *)
Lemma fadd_le1 : forall x y, NNF x -> NNF y -> B2R y <= 1 ->
  NNF (fadd x y) /\ B2R (fadd x y) = rnd (B2R x + B2R y).
Proof.
  intros x y [Fx X0] [Fy Y0] Y1.
  destruct (fadd_spec x y Fx Fy) as [E F].
  { rewrite Rabs_pos_eq by (apply rnd_nonneg; lra).
    apply Rle_lt_trans with MAXR; [|apply MAXR_lt_TOP].
    apply rnd_MAX_plus_1. pose proof (NNF_le_MAX x (conj Fx X0)). lra. }
  unfold NNF. rewrite E. repeat split; [exact F|apply rnd_nonneg; lra].
Qed.

(** general sum of two non-negative finite floats whose real sum is below a representable bound *)
Lemma fadd_bound : forall x y c, NNF x -> NNF y -> fmt c -> c < TOP -> B2R x + B2R y <= c ->
  NNF (fadd x y) /\ B2R (fadd x y) = rnd (B2R x + B2R y) /\ B2R (fadd x y) <= c.
Proof.
  intros x y c [Fx X0] [Fy Y0] Fc Hc H.
  destruct (fadd_spec x y Fx Fy) as [E F].
  { apply rnd_lt_TOP with c; try assumption. rewrite Rabs_pos_eq; lra. }
  unfold NNF. rewrite E. repeat split; [exact F|apply rnd_nonneg; lra|apply rnd_le_fmt; assumption].
Qed.

(** * the square of beta *)
Lemma b2_NNF : forall beta : f64, Fin (fmul beta beta) -> NNF (fmul beta beta).
Proof.
  intros beta F. split; [exact F|].
  pose proof (Bmult_correct prec emax Hprec Hmax mode_NE beta beta) as C.
  cbn [round_mode] in C. fold (rnd (B2R beta * B2R beta)) in C. fold TOP in C.
  destruct (Rlt_bool_spec (Rabs (rnd (B2R beta * B2R beta))) TOP) as [L|L].
  - destruct C as (C1 & _). unfold fmul. rewrite C1. apply rnd_nonneg.
    apply Rle_0_sqr.
  - exfalso. unfold Fin, fmul in F. rewrite <- is_finite_SF_B2SF, C in F. discriminate.
Qed.

(** * the repaired quotient is in [0,1] *)
Lemma fbeta_fixed_range : forall b2 p r, NNF b2 -> NNF p -> B2R p <= 1 -> Fin r -> u53 <= B2R r <= 1 ->
  Fin (fbeta_fixed b2 p r) /\ 0 <= B2R (fbeta_fixed b2 p r) <= 1.
Proof.
  intros b2 p r Hb Hp P1 Fr [R0 R1]. pose proof u53_pos as U.
  assert (Hr : NNF r) by (split; [exact Fr|lra]).
  destruct (fmul_le1 b2 p Hb Hp P1) as (Hbp & Ebp & Lbp).
  destruct (fmul_le1 (fmul b2 p) r Hbp Hr R1) as (Hbpr & Ebpr & Lbpr).
  destruct (fmul_le1 p r Hp Hr R1) as (Hpr & Epr & Lpr0).
  assert (Lpr : B2R (fmul p r) <= B2R r).
  { rewrite Epr. apply rnd_le_fmt; [apply fmt_B2R|].
    destruct Hp as [_ P0]. assert (0 <= (1 - B2R p) * B2R r) by (apply Rmult_le_pos; lra). lra. }
  destruct (fadd_le1 (fmul b2 p) r Hbp Hr R1) as (HD & ED).
  assert (Lpr1 : B2R (fmul p r) <= 1) by lra.
  destruct (fadd_le1 (fmul (fmul b2 p) r) (fmul p r) Hbpr Hpr Lpr1) as (HN & EN).
  set (N := fadd (fmul (fmul b2 p) r) (fmul p r)) in *.
  set (D := fadd (fmul b2 p) r) in *.
  assert (ND : B2R N <= B2R D) by (rewrite EN, ED; apply rnd_le; lra).
  assert (Dpos : u53 <= B2R D).
  { rewrite ED. apply rnd_ge_fmt; [apply fmt_u53|]. destruct Hbp as [_ B0]. lra. }
  destruct HN as [FN N0]. destruct HD as [FD D0].
  set (i := / B2R D).
  assert (i0 : 0 < i) by (apply Rinv_0_lt_compat; lra).
  assert (Q0 : 0 <= B2R N * i) by (apply Rmult_le_pos; lra).
  assert (Q1 : B2R N * i <= 1).
  { assert (B2R D * i = 1) by (unfold i; field; lra).
    assert (0 <= (B2R D - B2R N) * i) by (apply Rmult_le_pos; lra). lra. }
  unfold fbeta_fixed. fold N D.
  destruct (fdiv_spec N D FN ltac:(lra)) as [E F].
  { change (B2R N / B2R D) with (B2R N * i).
    apply rnd_lt_TOP with 1; [apply fmt_1|unfold TOP; change 1 with (bpow radix2 0); apply bpow_lt; unfold emax; lia|].
    rewrite Rabs_pos_eq; assumption. }
  change (B2R N / B2R D) with (B2R N * i) in E. rewrite E.
  repeat split; [exact F|apply rnd_nonneg; exact Q0|apply rnd_le_fmt; [apply fmt_1|exact Q1]].
Qed.

(** * [_f1] as a whole *)
Definition in01f (x : f64) : Prop := Fin x /\ 0 <= B2R x <= 1.

Lemma fmt_2 : fmt 2.
Proof. apply (fmt_IZR 2). lia. Qed.
Lemma two_lt_TOP : 2 < TOP.
Proof. unfold TOP. change 2 with (bpow radix2 1). apply bpow_lt. unfold emax. lia. Qed.
Lemma one_lt_TOP : 1 < TOP.
Proof. pose proof two_lt_TOP. lra. Qed.

(** the guard [precision + recall > 0.0] *)
Lemma guard_spec : forall p r, in01f p -> in01f r ->
  fgt0 (fadd p r) = true -> 0 < B2R p \/ 0 < B2R r.
Proof.
  intros p r (Fp & P0 & P1) (Fr & R0 & R1) G.
  destruct (fadd_bound p r 2 (conj Fp P0) (conj Fr R0) fmt_2 two_lt_TOP ltac:(lra)) as ([Fs _] & Es & _).
  unfold fgt0 in G. apply Bltb_R in G; [|reflexivity|exact Fs].
  rewrite B2R_zero, Es in G.
  destruct (Rle_lt_dec (B2R p + B2R r) 0) as [Z|Z]; [|lra].
  exfalso. assert (B2R p + B2R r = 0) by lra.
  replace (B2R p + B2R r) with 0 in G. rewrite rnd_0 in G. lra.
Qed.

Lemma f1_gen_shape : forall q beta tp fp fn,
  c2f (f1_gen q beta tp fp fn) = ratio_fl tp (tp + fp) /\
  c3f (f1_gen q beta tp fp fn) = ratio_fl tp (tp + fn) /\
  c1f (f1_gen q beta tp fp fn) =
    (if fgt0 (fadd (ratio_fl tp (tp + fp)) (ratio_fl tp (tp + fn)))
     then q (fmul beta beta) (ratio_fl tp (tp + fp)) (ratio_fl tp (tp + fn)) else f_zero).
Proof. intros. repeat split. Qed.

Lemma f1_fixed_range_z : forall beta tp fp fn,
  Fin (fmul beta beta) -> (0 <= tp)%Z -> (0 <= fp)%Z -> (0 <= fn)%Z ->
  (tp + fp < 2 ^ 53)%Z -> (tp + fn < 2 ^ 53)%Z ->
  in01f (c1f (f1_fl_z beta tp fp fn)) /\ in01f (c2f (f1_fl_z beta tp fp fn)) /\ in01f (c3f (f1_fl_z beta tp fp fn)).
Proof.
  intros beta tp fp fn Fb Htp Hfp Hfn H1 H2. unfold f1_fl_z.
  destruct (f1_gen_shape fbeta_fixed beta tp fp fn) as (E2 & E3 & E1). rewrite E1, E2, E3. clear E1 E2 E3.
  destruct (ratio_fl_spec tp (tp + fp) ltac:(lia) H1) as (Fp & _ & P01 & Pz & _ & Ppos & _).
  destruct (ratio_fl_spec tp (tp + fn) ltac:(lia) H2) as (Fr & _ & R01 & Rz & _ & Rpos & _).
  set (p := ratio_fl tp (tp + fp)) in *. set (r := ratio_fl tp (tp + fn)) in *.
  assert (Ip : in01f p) by (split; assumption). assert (Ir : in01f r) by (split; assumption).
  split; [|split; assumption].
  destruct (fgt0 (fadd p r)) eqn:G.
  - assert (T : (0 < tp)%Z).
    { destruct (Z_lt_le_dec 0 tp) as [T|T]; [exact T|]. exfalso.
      assert (T0 : tp = 0%Z) by lia.
      destruct (guard_spec p r Ip Ir G) as [X|X]; [rewrite (proj2 Pz T0) in X|rewrite (proj2 Rz T0) in X]; lra. }
    assert (Np : NNF p) by (split; tauto).
    assert (Rr : u53 <= B2R r <= 1) by (split; [apply Rpos; exact T|tauto]).
    destruct (fbeta_fixed_range (fmul beta beta) p r (b2_NNF beta Fb) Np (proj2 P01) Fr Rr) as [F R].
    split; assumption.
  - split; [reflexivity|]. rewrite B2R_zero. lra.
Qed.

Lemma f1_fixed_range_l : forall beta tp fp fn,
  Fin (fmul beta beta) -> (Z.of_nat (tp + fp) < 2 ^ 53)%Z -> (Z.of_nat (tp + fn) < 2 ^ 53)%Z ->
  in01f (c1f (f1_fl beta tp fp fn)) /\ in01f (c2f (f1_fl beta tp fp fn)) /\ in01f (c3f (f1_fl beta tp fp fn)).
Proof.
  intros beta tp fp fn Fb H1 H2. unfold f1_fl. apply f1_fixed_range_z; try lia; exact Fb.
Qed.

(** * left-fold sums of floats in [0,1] and their mean *)
Lemma IZR_lt_TOP : forall z, (Z.abs z <= 2 ^ 53)%Z -> IZR z < TOP.
Proof.
  intros z H. apply Rle_lt_trans with (bpow radix2 53); [|apply bpow53_lt_TOP].
  rewrite <- IZR_2p53. apply IZR_le. lia.
Qed.

Lemma fold_fadd_range : forall l acc k,
  Forall in01f l -> NNF acc -> (0 <= k)%Z -> B2R acc <= IZR k -> (k + Z.of_nat (length l) <= 2 ^ 53)%Z ->
  NNF (fold_left fadd l acc) /\ B2R (fold_left fadd l acc) <= IZR (k + Z.of_nat (length l)).
Proof.
  induction l as [|x l IH]; intros acc k Hl Ha Hk Hak Hn; cbn [fold_left length].
  - rewrite Z.add_0_r. split; assumption.
  - inversion Hl as [|? ? (Fx & X0 & X1) Hl']; subst.
    cbn [length] in Hn. rewrite Nat2Z.inj_succ in *.
    destruct (fadd_bound acc x (IZR (k + 1)) Ha (conj Fx X0)) as (Hs & _ & Ls).
    + apply fmt_IZR. lia.
    + apply IZR_lt_TOP. lia.
    + rewrite plus_IZR. lra.
    + destruct (IH (fadd acc x) (k + 1)%Z Hl' Hs ltac:(lia) Ls ltac:(lia)) as [A B].
      split; [exact A|]. replace (k + Z.succ (Z.of_nat (length l)))%Z with (k + 1 + Z.of_nat (length l))%Z by lia.
      exact B.
Qed.

(** a non-negative finite float divided by an integer that bounds it *)
Lemma fdiv_by_count : forall s n, NNF s -> (1 <= n <= 2 ^ 53)%Z -> B2R s <= IZR n ->
  in01f (fdiv s (of_Z n)).
Proof.
  intros s n [Fs S0] Hn Hs.
  destruct (of_Z_spec n ltac:(lia)) as [Rn Fn].
  assert (N1 : 1 <= IZR n) by (apply (IZR_le 1); lia).
  set (i := / IZR n).
  assert (i0 : 0 < i) by (apply Rinv_0_lt_compat; lra).
  assert (Ni : IZR n * i = 1) by (unfold i; field; lra).
  assert (Q0 : 0 <= B2R s * i) by (apply Rmult_le_pos; lra).
  assert (Q1 : B2R s * i <= 1).
  { assert (0 <= (IZR n - B2R s) * i) by (apply Rmult_le_pos; lra). lra. }
  destruct (fdiv_spec s (of_Z n) Fs ltac:(rewrite Rn; lra)) as [E F].
  { rewrite Rn. change (B2R s / IZR n) with (B2R s * i).
    apply rnd_lt_TOP with 1; [apply fmt_1|apply one_lt_TOP|rewrite Rabs_pos_eq; assumption]. }
  rewrite Rn in E. change (B2R s / IZR n) with (B2R s * i) in E.
  split; [exact F|]. rewrite E. split; [apply rnd_nonneg; exact Q0|apply rnd_le_fmt; [apply fmt_1|exact Q1]].
Qed.

Lemma NNF_zero : NNF f_zero.
Proof. split; [reflexivity|rewrite B2R_zero; lra]. Qed.

(** the mean as the code computes it: left fold from 0.0, then / max(n,1) as f64 *)
Lemma mean_fl_range_l : forall l, Forall in01f l -> (Z.of_nat (length l) <= 2 ^ 53)%Z ->
  in01f (fdiv (fold_left fadd l f_zero) (of_nat (Nat.max (length l) 1))).
Proof.
  intros l Hl Hn.
  destruct (fold_fadd_range l f_zero 0 Hl NNF_zero ltac:(lia) ltac:(rewrite B2R_zero; lra) ltac:(lia)) as [A B].
  unfold of_nat. apply fdiv_by_count; [exact A|lia|].
  eapply Rle_trans; [exact B|]. apply IZR_le. lia.
Qed.

(** the partial sums themselves: never above the number of summands *)
Lemma sum_fl_range_l : forall l, Forall in01f l -> (Z.of_nat (length l) <= 2 ^ 53)%Z ->
  Fin (fold_left fadd l f_zero) /\ 0 <= B2R (fold_left fadd l f_zero) <= IZR (Z.of_nat (length l)).
Proof.
  intros l Hl Hn.
  destruct (fold_fadd_range l f_zero 0 Hl NNF_zero ltac:(lia) ltac:(rewrite B2R_zero; lra) ltac:(lia)) as [[A A0] B].
  repeat split; assumption.
Qed.

(** * aggregation *)
Definition in01f3 (x : fpr_fl) : Prop := in01f (c1f x) /\ in01f (c2f x) /\ in01f (c3f x).

Lemma fold_fpr_split : forall (g : counts -> fpr_fl) vals a b c,
  fold_left (fun acc v => fpr_fadd acc (g v)) vals (a, b, c) =
  (fold_left fadd (map (fun v => c1f (g v)) vals) a,
   fold_left fadd (map (fun v => c2f (g v)) vals) b,
   fold_left fadd (map (fun v => c3f (g v)) vals) c).
Proof.
  intros g. induction vals as [|v vals IH]; intros a b c; cbn [fold_left map]; [reflexivity|].
  destruct (g v) as [[x y] z] eqn:E. cbn [fpr_fadd c1f c2f c3f fst snd]. apply IH.
Qed.

Definition counts_ok (v : counts) : Prop :=
  match v with (_, tp, fp, fn) => (Z.of_nat (tp + fp) < 2 ^ 53)%Z /\ (Z.of_nat (tp + fn) < 2 ^ 53)%Z end.

Lemma in01f_one : in01f f_one.
Proof. split; [reflexivity|]. rewrite B2R_one. lra. Qed.

Lemma seq_one_fl_range : forall beta v, Fin (fmul beta beta) -> counts_ok v -> in01f3 (seq_one_fl beta v).
Proof.
  intros beta [[[e tp] fp] fn] Fb [H1 H2]. unfold seq_one_fl. destruct e.
  - repeat split; try apply in01f_one; cbn [c1f c2f c3f fst snd]; rewrite B2R_one; lra.
  - apply f1_fixed_range_l; assumption.
Qed.

Lemma seq_avg_f1_fl_range_l : forall beta vals,
  Fin (fmul beta beta) -> Forall counts_ok vals -> (Z.of_nat (length vals) <= 2 ^ 53)%Z ->
  in01f3 (seq_avg_f1_fl beta vals).
Proof.
  intros beta vals Fb Hv Hn. unfold seq_avg_f1_fl. rewrite fold_fpr_split.
  cbn [c1f c2f c3f fst snd]. unfold in01f3. cbn [c1f c2f c3f fst snd].
  assert (K : forall (sel : fpr_fl -> f64), (forall x, in01f3 x -> in01f (sel x)) ->
            in01f (fdiv (fold_left fadd (map (fun v => sel (seq_one_fl beta v)) vals) f_zero)
                        (of_nat (Nat.max (length vals) 1)))).
  { intros sel Hsel. rewrite <- (map_length (fun v => sel (seq_one_fl beta v)) vals).
    apply mean_fl_range_l; [|rewrite map_length; exact Hn].
    apply Forall_map. eapply Forall_impl; [|exact Hv]. intros v Hc. apply Hsel. apply seq_one_fl_range; assumption. }
  repeat split; apply K; intros x (A & B & C); assumption.
Qed.

(** ** micro averaging and both aggregates *)

Lemma micro_f1_fl_spec : forall beta vals,
  micro_f1_fl beta vals = f1_fl beta (total tp_of vals) (total fp_of vals) (total fn_of vals).
Proof. intros beta vals. unfold micro_f1_fl. rewrite micro_fold. reflexivity. Qed.

Definition totals_ok (vals : list counts) : Prop :=
  (Z.of_nat (total tp_of vals + total fp_of vals) < 2 ^ 53)%Z /\
  (Z.of_nat (total tp_of vals + total fn_of vals) < 2 ^ 53)%Z.

Lemma total_ge : forall (f : counts -> nat) vals v, In v vals -> (f v <= total f vals)%nat.
Proof.
  intros f vals v. unfold total, sum_nat. induction vals as [|w vals IH]; intros H; [contradiction|].
  cbn [map fold_right]. destruct H as [->|H]; [lia|]. specialize (IH H). lia.
Qed.

Lemma totals_counts_ok : forall vals, totals_ok vals -> Forall counts_ok vals.
Proof.
  intros vals [H1 H2]. apply Forall_forall. intros [[[e tp] fp] fn] Hin.
  pose proof (total_ge tp_of vals _ Hin) as A. pose proof (total_ge fp_of vals _ Hin) as B.
  pose proof (total_ge fn_of vals _ Hin) as C. cbn [tp_of fp_of fn_of] in A, B, C.
  unfold counts_ok. split; lia.
Qed.

Lemma aggregate_fl_range_l : forall sa beta vals,
  Fin (fmul beta beta) -> totals_ok vals -> (Z.of_nat (length vals) <= 2 ^ 53)%Z ->
  in01f3 (aggregate_fl sa beta vals).
Proof.
  intros sa beta vals Fb Ht Hn. unfold aggregate_fl. destruct sa.
  - apply seq_avg_f1_fl_range_l; [exact Fb|apply totals_counts_ok; exact Ht|exact Hn].
  - rewrite micro_f1_fl_spec. destruct Ht as [H1 H2]. apply f1_fixed_range_l; assumption.
Qed.

(** ** binary_f1, accuracy *)
Lemma binary_f1_fl_range_l : forall beta p t x,
  Fin (fmul beta beta) -> (Z.of_nat (length p) < 2 ^ 53)%Z -> binary_f1_fl beta p t = Some x -> in01f3 x.
Proof.
  intros beta p t x Fb Hn H. unfold binary_f1_fl in H.
  destruct (Nat.eqb (length p) (length t)) eqn:E; [|discriminate]. apply Nat.eqb_eq in E.
  rewrite count_fold in H. injection H as <-.
  assert (S : (cnt andb p t + cnt (fun x y => x && negb y) p t + cnt (fun x y => negb x && y) p t <= length p)%nat).
  { unfold cnt. clear. revert t. induction p as [|a p IH]; intros [|b t]; cbn [combine filter length fst snd]; try lia.
    specialize (IH t). destruct a, b; cbn [andb negb length]; lia. }
  apply f1_fixed_range_l; [exact Fb| |]; cbn [Nat.add]; lia.
Qed.

Lemma accuracy_fl_range_l : forall p t x,
  (Z.of_nat (length p) < 2 ^ 53)%Z -> accuracy_fl p t = Some x -> in01f x.
Proof.
  intros p t x Hn H. unfold accuracy_fl in H.
  destruct (Nat.eqb (length p) (length t)); [|discriminate]. injection H as <-.
  pose proof (count_eq_le p t) as L.
  destruct (ratio_fl_spec (Z.of_nat (count_eq p t)) (Z.of_nat (length p)) ltac:(lia) Hn) as (F & _ & R & _).
  split; assumption.
Qed.

(** * calibration, exactly, in binary64 *)
Lemma fbeta_fixed_one : forall b2 p r, NNF b2 -> Fin p -> Fin r -> B2R p = 1 -> B2R r = 1 ->
  Fin (fbeta_fixed b2 p r) /\ B2R (fbeta_fixed b2 p r) = 1.
Proof.
  intros b2 p r Hb Fp Fr P1 R1.
  assert (Hp : NNF p) by (split; [exact Fp|lra]). assert (Hr : NNF r) by (split; [exact Fr|lra]).
  destruct (fmul_le1 b2 p Hb Hp ltac:(lra)) as (Hbp & Ebp & _).
  rewrite P1, Rmult_1_r, (rnd_fmt _ (fmt_B2R b2)) in Ebp.
  destruct (fmul_le1 (fmul b2 p) r Hbp Hr ltac:(lra)) as (Hbpr & Ebpr & _).
  rewrite R1, Rmult_1_r, Ebp, (rnd_fmt _ (fmt_B2R b2)) in Ebpr.
  destruct (fmul_le1 p r Hp Hr ltac:(lra)) as (Hpr & Epr & _).
  rewrite P1, R1, Rmult_1_r, (rnd_fmt _ fmt_1) in Epr.
  destruct (fadd_le1 (fmul b2 p) r Hbp Hr ltac:(lra)) as ([FD D0] & ED). rewrite Ebp, R1 in ED.
  destruct (fadd_le1 (fmul (fmul b2 p) r) (fmul p r) Hbpr Hpr ltac:(lra)) as ([FN N0] & EN). rewrite Ebpr, Epr in EN.
  unfold fbeta_fixed.
  set (N := fadd (fmul (fmul b2 p) r) (fmul p r)) in *. set (D := fadd (fmul b2 p) r) in *.
  assert (D1 : 1 <= B2R D).
  { rewrite ED. apply rnd_ge_fmt; [apply fmt_1|]. destruct Hb as [_ B0]. lra. }
  assert (Q : B2R N / B2R D = 1) by (rewrite EN, <- ED; field; lra).
  destruct (fdiv_spec N D FN ltac:(lra)) as [E F].
  { rewrite Q, (rnd_fmt _ fmt_1), Rabs_pos_eq by lra. apply one_lt_TOP. }
  split; [exact F|]. rewrite E, Q. apply rnd_fmt, fmt_1.
Qed.

Lemma guard_true : forall p r, in01f p -> in01f r -> 0 < B2R r -> fgt0 (fadd p r) = true.
Proof.
  intros p r (Fp & P0 & P1) (Fr & R0 & R1) Rpos.
  destruct (fadd_bound p r 2 (conj Fp P0) (conj Fr R0) fmt_2 two_lt_TOP ltac:(lra)) as ([Fs _] & Es & _).
  unfold fgt0. rewrite (Bltb_correct _ _ f_zero (fadd p r) eq_refl Fs), B2R_zero, Es.
  apply Rlt_bool_true. apply Rlt_le_trans with (B2R r); [exact Rpos|].
  apply rnd_ge_fmt; [apply fmt_B2R|lra].
Qed.

Lemma f1_fl_calibrated_l : forall beta,
  (forall fp fn, (Z.of_nat fp < 2 ^ 53)%Z -> (Z.of_nat fn < 2 ^ 53)%Z ->
     B2R (c1f (f1_fl beta 0 fp fn)) = 0 /\ B2R (c2f (f1_fl beta 0 fp fn)) = 0 /\ B2R (c3f (f1_fl beta 0 fp fn)) = 0
     /\ Fin (c1f (f1_fl beta 0 fp fn))) /\
  (Fin (fmul beta beta) -> forall tp, (0 < tp)%nat -> (Z.of_nat tp < 2 ^ 53)%Z ->
     B2R (c1f (f1_fl beta tp 0 0)) = 1 /\ B2R (c2f (f1_fl beta tp 0 0)) = 1 /\ B2R (c3f (f1_fl beta tp 0 0)) = 1
     /\ Fin (c1f (f1_fl beta tp 0 0))).
Proof.
  intros beta. split.
  - intros fp fn Hfp Hfn. unfold f1_fl, f1_fl_z.
    destruct (f1_gen_shape fbeta_fixed beta (Z.of_nat 0) (Z.of_nat fp) (Z.of_nat fn)) as (E2 & E3 & E1).
    rewrite E1, E2, E3. clear E1 E2 E3. cbn [Z.of_nat Z.add].
    destruct (ratio_fl_spec 0 (Z.of_nat fp) ltac:(lia) Hfp) as (Fp & _ & P01 & Pz & _).
    destruct (ratio_fl_spec 0 (Z.of_nat fn) ltac:(lia) Hfn) as (Fr & _ & R01 & Rz & _).
    set (p := ratio_fl 0 (Z.of_nat fp)) in *. set (r := ratio_fl 0 (Z.of_nat fn)) in *.
    assert (P0 : B2R p = 0) by (apply Pz; reflexivity). assert (R0 : B2R r = 0) by (apply Rz; reflexivity).
    destruct (fgt0 (fadd p r)) eqn:G.
    + exfalso. destruct (guard_spec p r (conj Fp P01) (conj Fr R01) G); lra.
    + repeat split; assumption.
  - intros Fb tp Htp Hn. unfold f1_fl, f1_fl_z.
    destruct (f1_gen_shape fbeta_fixed beta (Z.of_nat tp) (Z.of_nat 0) (Z.of_nat 0)) as (E2 & E3 & E1).
    rewrite E1, E2, E3. clear E1 E2 E3. cbn [Z.of_nat]. rewrite Z.add_0_r.
    destruct (ratio_fl_spec (Z.of_nat tp) (Z.of_nat tp) ltac:(lia) Hn) as (Fp & _ & P01 & _ & P1 & _).
    set (p := ratio_fl (Z.of_nat tp) (Z.of_nat tp)) in *.
    assert (E1 : B2R p = 1) by (apply P1; lia).
    rewrite (guard_true p p) by (try split; try assumption; lra).
    destruct (fbeta_fixed_one (fmul beta beta) p p (b2_NNF beta Fb) Fp Fp E1 E1) as [F E].
    repeat split; assumption.
Qed.

(** * closeness to the rational model (C13_Model.ratio / f1): precision and recall *)
Lemma rnd_rel : forall x, bpow radix2 (-1022) <= Rabs x -> Rabs (rnd x - x) <= u53 * Rabs x.
Proof.
  intros x H. pose proof (relative_error_N_FLT radix2 (SpecFloat.emin prec emax) prec ltac:(reflexivity)
                          (fun z => negb (Z.even z)) x H) as E.
  replace (/ 2 * bpow radix2 (- prec + 1)) with u53 in E; [exact E|].
  unfold u53. change (- prec + 1)%Z with (1 + -53)%Z. rewrite bpow_plus. change (bpow radix2 1) with 2. field.
Qed.

Lemma Q2R_ratio : forall a b, Q2R (ratio a b) = IZR (Z.of_nat a) / IZR (Z.max (Z.of_nat b) 1).
Proof.
  intros a b. unfold ratio, Q2R. cbn [Qnum Qden]. rewrite nz_Z.
  replace (Z.of_nat (Nat.max b 1)) with (Z.max (Z.of_nat b) 1) by lia. reflexivity.
Qed.

Lemma ratio_q_close_l : forall a b, (a <= b)%nat -> (Z.of_nat b < 2 ^ 53)%Z ->
  Rabs (B2R (ratio_fl (Z.of_nat a) (Z.of_nat b)) - Q2R (ratio a b)) <= u53 * Q2R (ratio a b).
Proof.
  intros a b Hab Hb.
  destruct (ratio_fl_spec (Z.of_nat a) (Z.of_nat b) ltac:(lia) Hb) as (_ & E & _).
  rewrite E, Q2R_ratio. set (q := IZR (Z.of_nat a) / IZR (Z.max (Z.of_nat b) 1)).
  assert (D1 : 1 <= IZR (Z.max (Z.of_nat b) 1)) by (apply (IZR_le 1); lia).
  assert (i0 : 0 < / IZR (Z.max (Z.of_nat b) 1)) by (apply Rinv_0_lt_compat; lra).
  destruct (Nat.eq_dec a 0) as [->|Na].
  - unfold q. cbn [Z.of_nat]. unfold Rdiv. rewrite Rmult_0_l, rnd_0, Rminus_0_r, Rabs_R0. lra.
  - assert (Q : u53 <= q).
    { unfold q, Rdiv. apply Rle_trans with (1 * / IZR (Z.max (Z.of_nat b) 1)).
      - rewrite Rmult_1_l. apply inv_IZR_ge_u53. lia.
      - apply Rmult_le_compat_r; [lra|]. apply (IZR_le 1). lia. }
    pose proof u53_pos as U.
    pose proof (rnd_rel q) as RR. rewrite (Rabs_pos_eq q) in RR by lra. apply RR.
    eapply Rle_trans; [|exact Q]. unfold u53. apply bpow_le. lia.
Qed.

Lemma f1_q_close_pr_l : forall (betaq : Q) beta tp fp fn,
  (Z.of_nat (tp + fp) < 2 ^ 53)%Z -> (Z.of_nat (tp + fn) < 2 ^ 53)%Z ->
  Rabs (B2R (c2f (f1_fl beta tp fp fn)) - Q2R (c2 (f1 betaq tp fp fn))) <= u53 * Q2R (c2 (f1 betaq tp fp fn)) /\
  Rabs (B2R (c3f (f1_fl beta tp fp fn)) - Q2R (c3 (f1 betaq tp fp fn))) <= u53 * Q2R (c3 (f1 betaq tp fp fn)).
Proof.
  intros betaq beta tp fp fn H1 H2. unfold f1_fl, f1_fl_z.
  destruct (f1_gen_shape fbeta_fixed beta (Z.of_nat tp) (Z.of_nat fp) (Z.of_nat fn)) as (E2 & E3 & _).
  rewrite E2, E3. unfold f1, c2, c3. cbn [fst snd]. rewrite <- !Nat2Z.inj_add.
  split; apply ratio_q_close_l; try assumption; lia.
Qed.

(** * the expression before the repair: error analysis *)
Definition eta64 : R := bpow radix2 (-1075).

Lemma rnd_up : forall x, bpow radix2 (-1022) <= x -> rnd x <= x * (1 + u53).
Proof.
  intros x H. assert (X0 : 0 <= x) by (pose proof (bpow_ge_0 radix2 (-1022)); lra).
  pose proof (rnd_rel x) as E. rewrite (Rabs_pos_eq x X0) in E. specialize (E H).
  apply Rabs_le_inv in E. lra.
Qed.
Lemma rnd_dn : forall x, bpow radix2 (-1022) <= x -> x * (1 - u53) <= rnd x.
Proof.
  intros x H. assert (X0 : 0 <= x) by (pose proof (bpow_ge_0 radix2 (-1022)); lra).
  pose proof (rnd_rel x) as E. rewrite (Rabs_pos_eq x X0) in E. specialize (E H).
  apply Rabs_le_inv in E. lra.
Qed.
(** with the absolute term for the subnormal range *)
Lemma rnd_dn_abs : forall x, 0 <= x -> x * (1 - u53) - eta64 <= rnd x.
Proof.
  intros x X0.
  destruct (error_N_FLT radix2 (SpecFloat.emin prec emax) prec ltac:(reflexivity) (fun z => negb (Z.even z)) x)
    as (eps & eta & He & Ht & _ & E).
  change (round radix2 (FLT_exp (SpecFloat.emin prec emax) prec) (Znearest (fun z => negb (Z.even z))) x) with (rnd x) in E.
  replace (/ 2 * bpow radix2 (- prec + 1)) with u53 in He.
  2:{ unfold u53. change (- prec + 1)%Z with (1 + -53)%Z. rewrite bpow_plus. change (bpow radix2 1) with 2. field. }
  replace (/ 2 * bpow radix2 (SpecFloat.emin prec emax)) with eta64 in Ht.
  2:{ unfold eta64. change (SpecFloat.emin prec emax) with (1 + -1075)%Z. rewrite bpow_plus. change (bpow radix2 1) with 2. field. }
  apply Rabs_le_inv in He. apply Rabs_le_inv in Ht. rewrite E.
  assert (- u53 * x <= x * eps) by nra. lra.
Qed.

Lemma eta_le : eta64 <= u53 * u53.
Proof. unfold eta64, u53. rewrite <- bpow_plus. apply bpow_le. lia. Qed.
Lemma u53_normal : bpow radix2 (-1022) <= u53 * u53.
Proof. unfold u53. rewrite <- bpow_plus. apply bpow_le. lia. Qed.

Lemma pinned_parts : forall b2 p r, NNF b2 -> Fin p -> u53 <= B2R p <= 1 -> Fin r -> u53 <= B2R r <= 1 ->
  let N := fmul (fmul (fadd f_one b2) p) r in
  let D := fadd (fmul b2 p) r in
  Fin N /\ Fin D /\ 0 <= B2R N /\ u53 <= B2R D /\
  B2R N <= (1 + B2R b2) * B2R p * B2R r * ((1 + u53) * (1 + u53) * (1 + u53)) /\
  (B2R b2 * B2R p + B2R r) * ((1 - u53) * (1 - u53)) <= B2R D.
Proof.
  intros b2 p r Hb Fp [P0 P1] Fr [R0 R1]. cbv zeta.
  pose proof u53_pos as U. pose proof u53_lt_1 as U1. pose proof u53_normal as UN. pose proof eta_le as ET.
  assert (Hp : NNF p) by (split; [exact Fp|lra]). assert (Hr : NNF r) by (split; [exact Fr|lra]).
  destruct Hb as [Fb B0]. set (b := B2R b2) in *. set (P := B2R p) in *. set (R := B2R r) in *.
  assert (BM : b <= MAXR) by (apply (NNF_le_MAX b2); split; assumption).
  (* a = 1.0 + beta_sq *)
  destruct (fadd_spec f_one b2 Fin_one Fb) as [Ea Fa].
  { rewrite B2R_one. fold b. rewrite Rabs_pos_eq by (apply rnd_nonneg; lra).
    apply Rle_lt_trans with MAXR; [|apply MAXR_lt_TOP]. apply rnd_MAX_plus_1. lra. }
  rewrite B2R_one in Ea. fold b in Ea. set (A := fadd f_one b2) in *. set (a := B2R A) in *.
  assert (a1 : 1 <= a) by (rewrite Ea; apply rnd_ge_fmt; [apply fmt_1|lra]).
  assert (aU : a <= (1 + b) * (1 + u53)).
  { rewrite Ea. apply rnd_up. apply Rle_trans with (u53 * u53); [exact UN|]. nra. }
  assert (Ha : NNF A) by (split; [exact Fa|fold a; lra]).
  (* a * precision *)
  destruct (fmul_le1 A p Ha Hp P1) as ([Fap ap0] & Eap & _). fold a P in Eap.
  set (ap := B2R (fmul A p)) in *.
  assert (aP : u53 <= a * P) by nra.
  assert (apL : u53 <= ap) by (rewrite Eap; apply rnd_ge_fmt; [apply fmt_u53|exact aP]).
  assert (apU : ap <= a * P * (1 + u53)).
  { rewrite Eap. apply rnd_up. apply Rle_trans with (u53 * u53); [exact UN|]. nra. }
  (* (a * precision) * recall *)
  destruct (fmul_le1 (fmul A p) r (conj Fap ap0) Hr R1) as ([Fapr apr0] & Eapr & _). fold ap R in Eapr.
  set (apr := B2R (fmul (fmul A p) r)) in *.
  assert (aprU : apr <= ap * R * (1 + u53)).
  { rewrite Eapr. apply rnd_up. apply Rle_trans with (u53 * u53); [exact UN|]. nra. }
  (* beta_sq * precision, + recall *)
  destruct (fmul_le1 b2 p (conj Fb B0) Hp P1) as (Hbp & Ebp & _). fold b P in Ebp.
  destruct (fadd_le1 (fmul b2 p) r Hbp Hr R1) as ([FD D0] & ED). fold R in ED.
  destruct Hbp as [Fbp bp0]. set (bp := B2R (fmul b2 p)) in *.
  assert (bpL : b * P * (1 - u53) - eta64 <= bp) by (rewrite Ebp; apply rnd_dn_abs; nra).
  set (d := B2R (fadd (fmul b2 p) r)) in *.
  assert (dR : u53 <= d) by (rewrite ED; apply rnd_ge_fmt; [apply fmt_u53|lra]).
  assert (dL : (bp + R) * (1 - u53) <= d).
  { rewrite ED. apply rnd_dn. apply Rle_trans with (u53 * u53); [exact UN|]. nra. }
  repeat split; try assumption.
  - (* numerator *)
    assert (S1 : ap * R * (1 + u53) <= a * P * (1 + u53) * R * (1 + u53)).
    { apply Rmult_le_compat_r; [lra|]. apply Rmult_le_compat_r; [lra|]. exact apU. }
    assert (S2 : a * P * (1 + u53) * R * (1 + u53) <= (1 + b) * (1 + u53) * P * (1 + u53) * R * (1 + u53)).
    { apply Rmult_le_compat_r; [lra|]. apply Rmult_le_compat_r; [lra|]. apply Rmult_le_compat_r; [lra|].
      apply Rmult_le_compat_r; [lra|]. exact aU. }
    replace ((1 + b) * P * R * ((1 + u53) * (1 + u53) * (1 + u53)))
      with ((1 + b) * (1 + u53) * P * (1 + u53) * R * (1 + u53)) by ring.
    lra.
  - (* denominator *)
    assert (E1 : eta64 <= u53 * R) by nra.
    assert (S1 : (b * P + R) * (1 - u53) <= bp + R) by lra.
    assert (S2 : (b * P + R) * (1 - u53) * (1 - u53) <= (bp + R) * (1 - u53)).
    { apply Rmult_le_compat_r; [lra|exact S1]. }
    replace ((b * P + R) * ((1 - u53) * (1 - u53))) with ((b * P + R) * (1 - u53) * (1 - u53)) by ring.
    lra.
Qed.

Lemma u53_val : u53 = / 9007199254740992.
Proof.
  change u53 with (bpow radix2 (Z.opp 53)). rewrite bpow_opp. reflexivity.
Qed.
Definition u50 : R := bpow radix2 (-50).
Lemma u50_val : u50 = / 1125899906842624.
Proof.
  change u50 with (bpow radix2 (Z.opp 50)). rewrite bpow_opp. reflexivity.
Qed.
Lemma fmt_1_u50 : fmt (1 + u50).
Proof.
  apply generic_format_FLT. apply (FLT_spec radix2 _ _ _ (Float radix2 (2 ^ 50 + 1) (-50))).
  - unfold F2R. cbn [Fnum Fexp]. fold u50. rewrite plus_IZR.
    change (IZR (2 ^ 50)) with (IZR (Zpower radix2 50)). rewrite IZR_Zpower by lia.
    assert (bpow radix2 50 * u50 = 1) by (unfold u50; rewrite <- bpow_plus; reflexivity). lra.
  - cbn [Fnum]. unfold prec. change (Zpower radix2 53) with (2 ^ 53)%Z. lia.
  - cbn [Fexp]. unfold SpecFloat.emin, emax, prec. lia.
Qed.

(** the quotient before the repair, given a bound theta on the exact quotient of its float operands *)
Lemma pinned_quot : forall b2 p r theta kappa,
  NNF b2 -> Fin p -> u53 <= B2R p <= 1 -> Fin r -> u53 <= B2R r <= 1 ->
  0 <= theta ->
  (1 + B2R b2) * B2R p * B2R r <= theta * (B2R b2 * B2R p + B2R r) ->
  theta * ((1 + u53) * (1 + u53) * (1 + u53)) <= kappa * ((1 - u53) * (1 - u53)) ->
  fmt kappa -> kappa < TOP ->
  Fin (fbeta_pinned b2 p r) /\ 0 <= B2R (fbeta_pinned b2 p r) <= kappa.
Proof.
  intros b2 p r theta kappa Hb Fp HP Fr HR T0 HT HK FK KT.
  destruct (pinned_parts b2 p r Hb Fp HP Fr HR) as (FN & FD & N0 & DL & NU & DD).
  unfold fbeta_pinned.
  set (N := fmul (fmul (fadd f_one b2) p) r) in *. set (D := fadd (fmul b2 p) r) in *.
  pose proof u53_pos as U. pose proof u53_lt_1 as U1.
  set (c3 := (1 + u53) * (1 + u53) * (1 + u53)) in *. set (c2 := (1 - u53) * (1 - u53)) in *.
  assert (C3 : 0 <= c3) by (unfold c3; apply Rmult_le_pos; [apply Rmult_le_pos|]; lra).
  assert (C2 : 0 < c2) by (unfold c2; apply Rmult_lt_0_compat; lra).
  set (D0 := B2R b2 * B2R p + B2R r) in *.
  assert (D00 : 0 <= D0).
  { unfold D0. destruct Hb as [_ B0]. assert (0 <= B2R b2 * B2R p) by (apply Rmult_le_pos; lra). lra. }
  assert (K0 : 0 <= kappa).
  { destruct (Rle_lt_dec 0 kappa) as [K|K]; [exact K|]. exfalso.
    assert (0 <= theta * c3) by (apply Rmult_le_pos; assumption).
    assert (0 < (- kappa) * c2) by (apply Rmult_lt_0_compat; lra).
    lra. }
  assert (ND : B2R N <= kappa * B2R D).
  { apply Rle_trans with (theta * D0 * c3).
    - eapply Rle_trans; [exact NU|]. apply Rmult_le_compat_r; [exact C3|exact HT].
    - apply Rle_trans with (kappa * (D0 * c2)).
      + replace (theta * D0 * c3) with (D0 * (theta * c3)) by ring.
        replace (kappa * (D0 * c2)) with (D0 * (kappa * c2)) by ring.
        apply Rmult_le_compat_l; assumption.
      + apply Rmult_le_compat_l; assumption. }
  set (i := / B2R D).
  assert (i0 : 0 < i) by (apply Rinv_0_lt_compat; lra).
  assert (Di : B2R D * i = 1) by (unfold i; field; lra).
  assert (Q0 : 0 <= B2R N * i) by (apply Rmult_le_pos; lra).
  assert (Q1 : B2R N * i <= kappa).
  { assert (0 <= (kappa * B2R D - B2R N) * i) by (apply Rmult_le_pos; lra).
    replace kappa with (kappa * (B2R D * i)) by (rewrite Di; ring). lra. }
  destruct (fdiv_spec N D FN ltac:(lra)) as [E F].
  { change (B2R N / B2R D) with (B2R N * i).
    apply rnd_lt_TOP with kappa; [exact FK|exact KT|rewrite Rabs_pos_eq; assumption]. }
  change (B2R N / B2R D) with (B2R N * i) in E. rewrite E.
  repeat split; [exact F|apply rnd_nonneg; exact Q0|apply rnd_le_fmt; assumption].
Qed.

(** exact inequality of the defining formula on [0,1] x [0,1] *)
Lemma fbeta_exact_le : forall b P R, 0 <= b -> 0 <= P <= 1 -> 0 <= R <= 1 -> (1 + b) * P * R <= b * P + R.
Proof.
  intros b P R B [P0 P1] [R0 R1].
  assert (0 <= b * P * (1 - R)) by (apply Rmult_le_pos; [apply Rmult_le_pos|]; lra).
  assert (0 <= R * (1 - P)) by (apply Rmult_le_pos; lra).
  lra.
Qed.

Lemma fbeta_pinned_upper : forall b2 p r,
  NNF b2 -> Fin p -> u53 <= B2R p <= 1 -> Fin r -> u53 <= B2R r <= 1 ->
  Fin (fbeta_pinned b2 p r) /\ 0 <= B2R (fbeta_pinned b2 p r) <= 1 + u50.
Proof.
  intros b2 p r Hb Fp HP Fr HR. pose proof u53_pos as U.
  apply (pinned_quot b2 p r 1 (1 + u50)); try assumption; try lra.
  - rewrite Rmult_1_l. destruct Hb as [_ B0]. apply fbeta_exact_le; lra.
  - rewrite u53_val, u50_val. lra.
  - apply fmt_1_u50.
  - pose proof two_lt_TOP. assert (u50 < 1) by (unfold u50; change 1 with (bpow radix2 0); apply bpow_lt; lia). lra.
Qed.

(** the F component of [_f1] (either expression): 0.0, or tp > 0 and the quotient was taken *)
Lemma f1_gen_c1 : forall q beta tp fp fn,
  (0 <= tp)%Z -> (0 <= fp)%Z -> (0 <= fn)%Z -> (tp + fp < 2 ^ 53)%Z -> (tp + fn < 2 ^ 53)%Z ->
  c1f (f1_gen q beta tp fp fn) = f_zero \/
  ((0 < tp)%Z /\ c1f (f1_gen q beta tp fp fn) = q (fmul beta beta) (ratio_fl tp (tp + fp)) (ratio_fl tp (tp + fn))).
Proof.
  intros q beta tp fp fn Htp Hfp Hfn H1 H2.
  destruct (f1_gen_shape q beta tp fp fn) as (_ & _ & E1). rewrite E1. clear E1.
  destruct (ratio_fl_spec tp (tp + fp) ltac:(lia) H1) as (Fp & _ & P01 & Pz & _).
  destruct (ratio_fl_spec tp (tp + fn) ltac:(lia) H2) as (Fr & _ & R01 & Rz & _).
  set (p := ratio_fl tp (tp + fp)) in *. set (r := ratio_fl tp (tp + fn)) in *.
  destruct (fgt0 (fadd p r)) eqn:G; [right|left; reflexivity].
  split; [|reflexivity].
  destruct (Z_lt_le_dec 0 tp) as [T|T]; [exact T|]. exfalso.
  assert (T0 : tp = 0%Z) by lia.
  destruct (guard_spec p r (conj Fp P01) (conj Fr R01) G) as [X|X];
    [rewrite (proj2 Pz T0) in X|rewrite (proj2 Rz T0) in X]; lra.
Qed.

(** (2)+(3b) the expression before the repair: finite, non-negative and at most 1 + 2^-50 *)
Lemma f1_fl_upper_l : forall beta tp fp fn,
  Fin (fmul beta beta) -> (Z.of_nat (tp + fp) < 2 ^ 53)%Z -> (Z.of_nat (tp + fn) < 2 ^ 53)%Z ->
  Fin (c1f (f1_fl_pinned beta tp fp fn)) /\ 0 <= B2R (c1f (f1_fl_pinned beta tp fp fn)) <= 1 + u50.
Proof.
  intros beta tp fp fn Fb H1 H2. unfold f1_fl_pinned, f1_fl_pinned_z.
  assert (U : 0 < u50) by apply bpow_gt_0.
  destruct (f1_gen_c1 fbeta_pinned beta (Z.of_nat tp) (Z.of_nat fp) (Z.of_nat fn)) as [E|[T E]]; try lia; rewrite E.
  - split; [reflexivity|]. rewrite B2R_zero. lra.
  - destruct (ratio_fl_spec (Z.of_nat tp) (Z.of_nat tp + Z.of_nat fp) ltac:(lia) ltac:(lia)) as (Fp & _ & P01 & _ & _ & Pp & _).
    destruct (ratio_fl_spec (Z.of_nat tp) (Z.of_nat tp + Z.of_nat fn) ltac:(lia) ltac:(lia)) as (Fr & _ & R01 & _ & _ & Rp & _).
    apply fbeta_pinned_upper; [apply b2_NNF; exact Fb|exact Fp| |exact Fr|].
    + split; [apply Pp; exact T|tauto].
    + split; [apply Rp; exact T|tauto].
Qed.

(** * when F <= 1 does hold for the expression before the repair *)
Definition g31 : R := bpow radix2 (-31).
Lemma g31_val : g31 = / 2147483648.
Proof. change g31 with (bpow radix2 (Z.opp 31)). rewrite bpow_opp. reflexivity. Qed.
Lemma fmt_1_g31 : fmt (1 - g31).
Proof.
  apply generic_format_FLT. apply (FLT_spec radix2 _ _ _ (Float radix2 (2 ^ 31 - 1) (-31))).
  - unfold F2R. cbn [Fnum Fexp]. fold g31. rewrite minus_IZR.
    change (IZR (2 ^ 31)) with (IZR (Zpower radix2 31)). rewrite IZR_Zpower by lia.
    assert (bpow radix2 31 * g31 = 1) by (unfold g31; rewrite <- bpow_plus; reflexivity). lra.
  - cbn [Fnum]. unfold prec. change (Zpower radix2 53) with (2 ^ 53)%Z. lia.
  - cbn [Fexp]. unfold SpecFloat.emin, emax, prec. lia.
Qed.

(** with denominators below 2^31 a ratio that is not 1 is at most 1 - 2^-31 *)
Lemma ratio_fl_gap : forall a b, (0 <= a < b)%Z -> (b < 2 ^ 31)%Z -> B2R (ratio_fl a b) <= 1 - g31.
Proof.
  intros a b Hab Hb.
  destruct (ratio_fl_spec a b ltac:(lia) ltac:(lia)) as (_ & E & _). rewrite E.
  apply rnd_le_fmt; [apply fmt_1_g31|].
  replace (Z.max b 1) with b by lia.
  assert (B1 : 1 <= IZR b) by (apply (IZR_le 1); lia).
  assert (B31 : IZR b <= 2147483648) by (apply (IZR_le b 2147483648); lia).
  assert (AB : IZR a + 1 <= IZR b) by (rewrite <- (plus_IZR a 1); apply IZR_le; lia).
  set (i := / IZR b). assert (i0 : 0 < i) by (apply Rinv_0_lt_compat; lra).
  assert (Bi : IZR b * i = 1) by (unfold i; field; lra).
  assert (G : g31 <= i).
  { rewrite g31_val. unfold i. apply Rinv_le_contravar; lra. }
  change (IZR a / IZR b) with (IZR a * i).
  assert (0 <= (IZR b - IZR a - 1) * i) by (apply Rmult_le_pos; lra). lra.
Qed.

Lemma fbeta_pinned_one : forall b2 p r, NNF b2 -> Fin p -> Fin r -> B2R p = 1 -> B2R r = 1 ->
  Fin (fbeta_pinned b2 p r) /\ B2R (fbeta_pinned b2 p r) = 1.
Proof.
  intros b2 p r Hb Fp Fr P1 R1.
  assert (Hp : NNF p) by (split; [exact Fp|lra]). assert (Hr : NNF r) by (split; [exact Fr|lra]).
  destruct Hb as [Fb B0].
  assert (BM : B2R b2 <= MAXR) by (apply (NNF_le_MAX b2); split; assumption).
  destruct (fadd_spec f_one b2 Fin_one Fb) as [Ea Fa].
  { rewrite B2R_one. rewrite Rabs_pos_eq by (apply rnd_nonneg; lra).
    apply Rle_lt_trans with MAXR; [|apply MAXR_lt_TOP]. apply rnd_MAX_plus_1. lra. }
  rewrite B2R_one in Ea. set (A := fadd f_one b2) in *.
  assert (a1 : 1 <= B2R A) by (rewrite Ea; apply rnd_ge_fmt; [apply fmt_1|lra]).
  assert (Ha : NNF A) by (split; [exact Fa|lra]).
  destruct (fmul_le1 A p Ha Hp ltac:(lra)) as (Hap & Eap & _).
  rewrite P1, Rmult_1_r, (rnd_fmt _ (fmt_B2R A)) in Eap.
  destruct (fmul_le1 (fmul A p) r Hap Hr ltac:(lra)) as ([FN N0] & EN & _).
  rewrite R1, Rmult_1_r, Eap, (rnd_fmt _ (fmt_B2R A)) in EN.
  destruct (fmul_le1 b2 p (conj Fb B0) Hp ltac:(lra)) as (Hbp & Ebp & _).
  rewrite P1, Rmult_1_r, (rnd_fmt _ (fmt_B2R b2)) in Ebp.
  destruct (fadd_le1 (fmul b2 p) r Hbp Hr ltac:(lra)) as ([FD D0] & ED). rewrite Ebp, R1 in ED.
  unfold fbeta_pinned. fold A.
  set (N := fmul (fmul A p) r) in *. set (D := fadd (fmul b2 p) r) in *.
  assert (ND : B2R N = B2R D) by (rewrite EN, ED, Ea; f_equal; ring).
  assert (Q : B2R N / B2R D = 1) by (rewrite ND; field; lra).
  destruct (fdiv_spec N D FN ltac:(lra)) as [E F].
  { rewrite Q, (rnd_fmt _ fmt_1), Rabs_pos_eq by lra. apply one_lt_TOP. }
  split; [exact F|]. rewrite E, Q. apply rnd_fmt, fmt_1.
Qed.

Lemma bpow18_val : bpow radix2 18 = 262144.
Proof. reflexivity. Qed.
Lemma bpowm18_val : bpow radix2 (-18) = / 262144.
Proof. reflexivity. Qed.

Lemma theta_bound : forall b P R,
  / 262144 <= b <= 262144 -> 0 <= P <= 1 -> 0 <= R <= 1 ->
  (P = 1 \/ P <= 1 - g31) -> (R = 1 \/ R <= 1 - g31) -> ~ (P = 1 /\ R = 1) ->
  (1 + b) * P * R <= (1 - u50) * (b * P + R).
Proof.
  intros b P R [B0 B1] [P0 P1] [R0 R1] HP HR HN.
  pose proof g31_val as G. pose proof u50_val as U.
  destruct HP as [->|HP]; destruct HR as [->|HR].
  - exfalso. apply HN. split; reflexivity.
  - (* precision exactly 1 *)
    assert (S1 : 0 <= b * ((1 - R) - g31)) by (apply Rmult_le_pos; lra).
    assert (S2 : (g31 - u50) * / 262144 <= (g31 - u50) * b) by (apply Rmult_le_compat_l; lra).
    assert (S3 : u50 * R <= u50 * 1) by (apply Rmult_le_compat_l; lra).
    lra.
  - (* recall exactly 1 *)
    assert (S1 : b * P <= 262144 * 1) by (apply Rmult_le_compat; lra).
    assert (S2 : u50 * (b * P) <= u50 * 262144) by (apply Rmult_le_compat_l; lra).
    lra.
  - assert (S1 : 0 <= b * P * ((1 - R) - g31)) by (apply Rmult_le_pos; [apply Rmult_le_pos|]; lra).
    assert (S2 : 0 <= R * ((1 - P) - g31)) by (apply Rmult_le_pos; lra).
    assert (S3 : 0 <= (g31 - u50) * (b * P + R)).
    { apply Rmult_le_pos; [lra|]. assert (0 <= b * P) by (apply Rmult_le_pos; lra). lra. }
    lra.
Qed.

Lemma f1_fl_le_1_partial_l : forall beta tp fp fn,
  Fin (fmul beta beta) -> bpow radix2 (-18) <= B2R (fmul beta beta) <= bpow radix2 18 ->
  (Z.of_nat (tp + fp) < 2 ^ 31)%Z -> (Z.of_nat (tp + fn) < 2 ^ 31)%Z ->
  Fin (c1f (f1_fl_pinned beta tp fp fn)) /\ 0 <= B2R (c1f (f1_fl_pinned beta tp fp fn)) <= 1.
Proof.
  intros beta tp fp fn Fb HB H1 H2. unfold f1_fl_pinned, f1_fl_pinned_z.
  rewrite bpow18_val, bpowm18_val in HB.
  destruct (f1_gen_c1 fbeta_pinned beta (Z.of_nat tp) (Z.of_nat fp) (Z.of_nat fn)) as [E|[T E]]; try lia; rewrite E.
  - split; [reflexivity|]. rewrite B2R_zero. lra.
  - destruct (ratio_fl_spec (Z.of_nat tp) (Z.of_nat tp + Z.of_nat fp) ltac:(lia) ltac:(lia)) as (Fp & _ & P01 & _ & Pone & Pp & _).
    destruct (ratio_fl_spec (Z.of_nat tp) (Z.of_nat tp + Z.of_nat fn) ltac:(lia) ltac:(lia)) as (Fr & _ & R01 & _ & Rone & Rp & _).
    specialize (Pp T). specialize (Rp T).
    assert (GP : B2R (ratio_fl (Z.of_nat tp) (Z.of_nat tp + Z.of_nat fp)) = 1 \/
                 B2R (ratio_fl (Z.of_nat tp) (Z.of_nat tp + Z.of_nat fp)) <= 1 - g31).
    { destruct (Nat.eq_dec fp 0) as [->|N]; [left; apply Pone; lia|right; apply ratio_fl_gap; lia]. }
    assert (GR : B2R (ratio_fl (Z.of_nat tp) (Z.of_nat tp + Z.of_nat fn)) = 1 \/
                 B2R (ratio_fl (Z.of_nat tp) (Z.of_nat tp + Z.of_nat fn)) <= 1 - g31).
    { destruct (Nat.eq_dec fn 0) as [->|N]; [left; apply Rone; lia|right; apply ratio_fl_gap; lia]. }
    set (p := ratio_fl (Z.of_nat tp) (Z.of_nat tp + Z.of_nat fp)) in *.
    set (r := ratio_fl (Z.of_nat tp) (Z.of_nat tp + Z.of_nat fn)) in *.
    pose proof (b2_NNF beta Fb) as Hb.
    destruct (Req_dec (B2R p) 1) as [P1|P1]; [destruct (Req_dec (B2R r) 1) as [R1|R1]|].
    + destruct (fbeta_pinned_one (fmul beta beta) p r Hb Fp Fr P1 R1) as [F Q]. split; [exact F|]. rewrite Q. lra.
    + apply (pinned_quot (fmul beta beta) p r (1 - u50) 1); try assumption; try tauto.
      * pose proof u50_val. lra.
      * apply theta_bound; try assumption; tauto.
      * rewrite u53_val, u50_val. lra.
      * apply fmt_1.
      * apply one_lt_TOP.
    + apply (pinned_quot (fmul beta beta) p r (1 - u50) 1); try assumption; try tauto.
      * pose proof u50_val. lra.
      * apply theta_bound; try assumption; tauto.
      * rewrite u53_val, u50_val. lra.
      * apply fmt_1.
      * apply one_lt_TOP.
Qed.

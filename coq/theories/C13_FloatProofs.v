(** C13 proofs, part 6: the binary64 model (C13_Float.v). *)
From Coq Require Import ZArith List Bool QArith Reals Lia Lra.
From Flocq Require Import Core IEEE754.BinarySingleNaN.
From TU Require Import Base C13_Model C13_Float.
Import ListNotations.
Open Scope Z_scope.

(** * the range clause F <= 1 is false of the expression before the repair *)
(** beta = 1.9243201927590334e-08 (tp 1000, fn 2) and beta = 108442877.09708491 (tp 1390, fp 2) *)
Definition beta_tiny : f64 := mk_fl false 5815900915580489 (-78).
Definition beta_huge : f64 := mk_fl false 7277478290876986 (-26).
Definition c1f (x : fpr_fl) : f64 := fst (fst x).
Definition c2f (x : fpr_fl) : f64 := snd (fst x).
Definition c3f (x : fpr_fl) : f64 := snd x.

Lemma pinned_tiny : B2SF (c1f (f1_fl_pinned beta_tiny 1000 0 2)) = SpecFloat.S754_finite false 4503599627370497 (-52).
Proof. vm_compute. reflexivity. Qed.
Lemma pinned_huge : B2SF (c1f (f1_fl_pinned beta_huge 1390 2 0)) = SpecFloat.S754_finite false 4503599627370497 (-52).
Proof. vm_compute. reflexivity. Qed.

(** [B2R] of the constants *)
Lemma B2R_one : B2R f_one = 1%R.
Proof.
  unfold f_one, of_Z. cbn -[bpow]. unfold B2R. cbn -[bpow].
  unfold F2R. cbn. lra.
Qed.

Lemma Bltb_R : forall x y : f64, is_finite x = true -> is_finite y = true ->
  Bltb x y = true -> (B2R x < B2R y)%R.
Proof.
  intros x y Fx Fy H. rewrite (Bltb_correct _ _ x y Fx Fy) in H.
  destruct (Rlt_bool_spec (B2R x) (B2R y)) as [L|L]; [exact L|discriminate].
Qed.

Lemma f1_fl_le_1_refuted_l :
  exists tp fp fn beta,
    (is_finite (fmul beta beta) = true) /\
    (Bltb f_one (c1f (f1_fl_pinned beta tp fp fn)) = true) /\
    (1 < B2R (c1f (f1_fl_pinned beta tp fp fn)))%R.
Proof.
  exists 1000%nat, 0%nat, 2%nat, beta_tiny.
  assert (E : Bltb f_one (c1f (f1_fl_pinned beta_tiny 1000 0 2)) = true) by (vm_compute; reflexivity).
  split; [vm_compute; reflexivity|]. split; [exact E|].
  rewrite <- B2R_one. apply Bltb_R; [reflexivity| |exact E].
  vm_compute. reflexivity.
Qed.

Lemma f1_fl_le_1_refuted_huge_l :
  (is_finite (fmul beta_huge beta_huge) = true) /\
  (Bltb f_one (c1f (f1_fl_pinned beta_huge 1390 2 0)) = true) /\
  (1 < B2R (c1f (f1_fl_pinned beta_huge 1390 2 0)))%R.
Proof.
  assert (E : Bltb f_one (c1f (f1_fl_pinned beta_huge 1390 2 0)) = true) by (vm_compute; reflexivity).
  split; [vm_compute; reflexivity|]. split; [exact E|].
  rewrite <- B2R_one. apply Bltb_R; [reflexivity| |exact E].
  vm_compute. reflexivity.
Qed.

(** the repaired expression on the same inputs: exactly 1.0 and not above *)
Lemma fixed_on_witnesses :
  (B2SF (c1f (f1_fl beta_tiny 1000 0 2)) = SpecFloat.S754_finite false 4503599627370496 (-52)) /\
  (Bleb (c1f (f1_fl beta_huge 1390 2 0)) f_one = true).
Proof. split; vm_compute; reflexivity. Qed.

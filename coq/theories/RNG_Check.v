(** RNG proofs, part 2: the executable statements [check_calls] hold of the model's own results. *)
From TU Require Import Base RNG_Model RNG_Proofs.
Require Import Lia ZifyN Permutation.
Local Open Scope N_scope.
Local Arguments N.add : simpl never. Local Arguments N.mul : simpl never. Local Arguments N.land : simpl never.
Local Arguments N.lor : simpl never. Local Arguments N.shiftl : simpl never. Local Arguments N.shiftr : simpl never.
Local Arguments N.div : simpl never. Local Arguments N.modulo : simpl never. Local Arguments N.pow : simpl never.
Local Arguments N.ltb : simpl never. Local Arguments N.leb : simpl never.
Local Arguments Z.ltb : simpl never. Local Arguments Z.leb : simpl never.

(** what a script must satisfy for the theorem (the correspondence runs every script):
    weights are usizes; f64 weights are all positive (for a zero weight the positivity of the chosen
    weight is not proved); no Uniform<f64> call (its bound [sample <= high] is not proved);
    lengths are usizes *)
Definition call_ok (c : call) : Prop :=
  match c with
  | CWeightedN ws => Forall (fun w => w < p64) ws
  | CWeightedF ws => Forall (fun w => fpos w = true) ws
  | CUniformF _ => False
  | CPartial len _ _ => len < p64
  | CShuffle m => N.of_nat m < p64
  | _ => True
  end.

Lemma v_n_n_v : forall a, v_n (n_v a) = a.
Proof. intros a. unfold v_n, n_v. cbn [v_z]. apply N2Z.id. Qed.

Lemma v_hl_hi_lo : forall x, v_hl (hi_lo x) = x.
Proof.
  intros x. unfold v_hl, hi_lo. cbn [v_nth nth]. rewrite !v_n_n_v.
  rewrite N.shiftl_mul_pow2, N.shiftr_div_pow2, w32_mod. change p32 with (2 ^ 32).
  pose proof (N.div_mod x (2 ^ 32) ltac:(discriminate)). lia.
Qed.

Lemma map_v_nat : forall l, map v_nat (map nat_v l) = l.
Proof.
  induction l as [|a l IH]; cbn [map]; [reflexivity|]. rewrite IH. f_equal.
  unfold v_nat, nat_v. cbn [v_z]. apply Nat2Z.id.
Qed.
Lemma map_v_n : forall l, map v_n (map n_v l) = l.
Proof. induction l as [|a l IH]; cbn [map]; [reflexivity|]. rewrite IH, v_n_n_v. reflexivity. Qed.

(** * the permutation test accepts every permutation of 0..m-1 *)
Lemma tick_some : forall fl x, nth x fl true = false ->
  exists fl', tick x fl = Some fl' /\ length fl' = length fl /\ (forall y, y <> x -> nth y fl' true = nth y fl true).
Proof.
  induction fl as [|b fl IH]; intros x H.
  - destruct x; discriminate.
  - destruct x as [|x]; cbn [tick nth] in *.
    + subst b. exists (true :: fl). split; [reflexivity|]. split; [reflexivity|].
      intros [|y] Hy; [contradiction|reflexivity].
    + destruct (IH x H) as (fl' & -> & Hl & Hn). exists (b :: fl'). split; [reflexivity|].
      split; [cbn [length]; congruence|]. intros [|y] Hy; cbn [nth]; [reflexivity|]. apply Hn. congruence.
Qed.

Lemma tick_all_ok : forall l fl, NoDup l -> (forall x, In x l -> nth x fl true = false) -> tick_all l fl = true.
Proof.
  induction l as [|x l IH]; intros fl Hnd H; cbn [tick_all]; [reflexivity|].
  inversion Hnd as [|? ? Hni Hnd']; subst.
  destruct (tick_some fl x (H x (or_introl eq_refl))) as (fl' & -> & _ & Hn).
  apply IH; [exact Hnd'|]. intros y Hy. rewrite Hn; [apply H; right; exact Hy|]. intros ->. contradiction.
Qed.

Lemma is_perm_seq_perm : forall m l, Permutation l (seq 0 m) -> is_perm_seq m l = true.
Proof.
  intros m l HP. unfold is_perm_seq. rewrite (Permutation_length HP), seq_length, Nat.eqb_refl. cbn [andb].
  apply tick_all_ok.
  - eapply Permutation_NoDup; [apply Permutation_sym; exact HP|apply seq_NoDup].
  - intros x Hx. apply (Permutation_in _ HP) in Hx. apply in_seq in Hx.
    rewrite nth_indep with (d' := false) by (rewrite repeat_length; lia).
    apply nth_repeat.
Qed.

(** * one call *)
Lemma z_nonneg : forall x, (0 <=? Z.of_N x)%Z = true.
Proof. intros x. apply Z.leb_le. lia. Qed.
Lemma z_lt32 : forall x, x < p32 -> (Z.of_N x <? 4294967296)%Z = true.
Proof. intros x H. apply Z.ltb_lt. change p32 with 4294967296 in H. lia. Qed.
Lemma z_lt53 : forall x, x < 9007199254740992 -> (Z.of_N x <? 9007199254740992)%Z = true.
Proof. intros x H. apply Z.ltb_lt. lia. Qed.

Lemma idx_le_check : forall js i,
  idx_le i js ->
  (fix ok (i : N) (js : list N) := match js with [] => true | j :: r => (j <=? i) && ok (i + 1) r end) i js = true.
Proof.
  induction js as [|j js IH]; intros i H; [reflexivity|]. destruct H as [Hj Hr].
  apply andb_true_intro. split; [apply N.leb_le; exact Hj|apply IH; exact Hr].
Qed.

Lemma check_call_run : forall c st out st', wf st -> call_ok c -> run_call c st = (out, st') ->
  out <> v_fuel -> check_call c out = true /\ wf st'.
Proof.
  intros c st out st' Hw Hok H Hnf. destruct c as [| | |n|m|ws|ws|b off|len amount show|high]; cbn [run_call check_call call_ok] in *.
  - (* next_u32 *)
    destruct (next_u32 st) as [x s1] eqn:E. destruct (next_u32_spec _ _ _ Hw E) as [Hx Hw1]. injection H as <- <-.
    split; [|exact Hw1]. unfold n_v. rewrite z_nonneg, (z_lt32 _ Hx). reflexivity.
  - (* next_u64 *)
    destruct (next_u64 st) as [x s1] eqn:E. destruct (next_u64_spec _ _ _ Hw E) as [Hx Hw1]. injection H as <- <-.
    split; [|exact Hw1]. unfold hi_lo, n_v.
    assert (H1 : N.shiftr x 32 < p32) by (rewrite N.shiftr_div_pow2; apply N.div_lt_upper_bound; [discriminate|exact Hx]).
    rewrite !z_nonneg, (z_lt32 _ H1), (z_lt32 _ (w32_lt x)). reflexivity.
  - (* f64 *)
    destruct (random_f64 st) as [k s1] eqn:E. destruct (random_f64_spec _ _ _ Hw E) as [Hk Hw1]. injection H as <- <-.
    split; [|exact Hw1]. unfold n_v. rewrite z_nonneg, (z_lt53 _ Hk). reflexivity.
  - (* random_range *)
    destruct (random_range n st) as [[x s1]|] eqn:E.
    + destruct (random_range_spec _ _ _ _ Hw E) as [Hx Hw1]. injection H as <- <-. split; [|exact Hw1].
      pose proof (v_hl_hi_lo x) as Hv. unfold hi_lo in *. unfold n_v at 1 2.
      rewrite Hv. replace (x <? n) with true by (symmetry; apply N.ltb_lt; exact Hx).
      rewrite !z_nonneg, (z_lt32 _ (w32_lt x)). reflexivity.
    + injection H as <- <-. split; [|exact Hw]. unfold v_panic. unfold random_range in E.
      destruct ((n =? 0) || (p64 <=? n)); [reflexivity|]. destruct (mask32 <? n); discriminate.
  - (* shuffle *)
    destruct (shuffle (seq 0 m) st) as [l s1] eqn:E. injection H as <- <-. split.
    + unfold list_v, v_list. rewrite map_v_nat. apply is_perm_seq_perm.
      pose proof (shuffle_perm_l (seq 0 m) st) as P. rewrite E in P. exact P.
    + pose proof (shuffle_wf _ (seq 0 m) st Hw) as P. rewrite seq_length, E in P. apply P. exact Hok.
  - (* WeightedIndex<usize> *)
    destruct (weighted_sample_n lemire_fuel ws st) as [e|[[i s1]|]] eqn:E.
    + injection H as <- <-. split; [|exact Hw]. unfold werr_v. unfold weighted_sample_n in E.
      destruct (windex_new_n ws) as [e'|[cum T]]; [reflexivity|discriminate].
    + destruct (weighted_sample_n_spec _ _ _ _ _ Hw Hok E) as (Hi & Hpos & Hw1). injection H as <- <-. split; [|exact Hw1].
      unfold nat_v. rewrite Nat2Z.id. replace (0 <? nth i ws 0) with true by (symmetry; apply N.ltb_lt; exact Hpos).
      replace (0 <=? Z.of_nat i)%Z with true by (symmetry; apply Z.leb_le; lia). reflexivity.
    + injection H as <- <-. contradiction.
  - (* WeightedIndex<f64> *)
    destruct (weighted_sample_f ws st) as [e|[[i total] s1]] eqn:E.
    + injection H as <- <-. split; [|exact Hw]. unfold werr_v. unfold weighted_sample_f in E.
      destruct (windex_new_f ws) as [e'|[[cum T] sc]]; [reflexivity|].
      destruct (uniform_f64_sample sc st); discriminate.
    + destruct (weighted_sample_f_spec _ _ _ _ _ Hw E) as (Hi & Hw1). injection H as <- <-. split; [|exact Hw1].
      unfold weighted_sample_f in E. destruct (windex_new_f ws) as [e'|[[cum T] sc]] eqn:En; [discriminate|].
      destruct (uniform_f64_sample sc st) as [ch s2]. injection E as <- <- <-.
      assert (HT : exists m e, T = Fin m e).
      { unfold windex_new_f in En. destruct ws as [|w0 r]; [discriminate|]. destruct (fge0 w0); [|discriminate].
        destruct (wcum_f r w0 []) as [e'|[cum' T']]; [discriminate|].
        destruct (uniform_f64_new T') as [[| |]|s'] eqn:Eu; try discriminate. injection En as <- <- <-.
        unfold uniform_f64_new in Eu. destruct T' as [m e| | |]; try discriminate. eauto. }
      destruct HT as (m & e & ->). unfold f64w_v, n_v, nat_v. rewrite Nat2Z.id.
      replace (0 <=? Z.of_nat (ppoint fle cum ch))%Z with true by (symmetry; apply Z.leb_le; lia).
      replace (Nat.ltb (ppoint fle cum ch) (length ws)) with true by (symmetry; apply Nat.ltb_lt; exact Hi).
      assert (Hp : fpos (nth (ppoint fle cum ch) ws FNaN) = true)
        by (apply (proj1 (Forall_forall _ ws) Hok); apply nth_In; exact Hi).
      rewrite Hp. reflexivity.
  - (* set_word_pos *)
    injection H as <- <-. split; [reflexivity|apply wf_set_word_pos].
  - (* partial_shuffle *)
    destruct (partial_indices len amount st) as [js s1] eqn:E. injection H as <- <-.
    destruct (partial_indices_spec _ _ _ _ _ Hw Hok E) as (Hl & Hle & Hw1). split; [|exact Hw1].
    destruct show; [|reflexivity].
    unfold list_v, v_list. rewrite map_v_n, Hl, Nat.eqb_refl. cbn [andb]. apply idx_le_check. exact Hle.
  - contradiction.
Qed.

Lemma check_calls_run_l : forall cs st outs st', wf st -> Forall call_ok cs -> run_calls cs st = (outs, st') ->
  ~ In v_fuel outs -> check_calls cs outs = true /\ wf st'.
Proof.
  induction cs as [|c cs IH]; intros st outs st' Hw Hok H Hnf; cbn [run_calls] in H.
  - injection H as <- <-. split; [reflexivity|exact Hw].
  - destruct (run_call c st) as [v s1] eqn:E1. destruct (run_calls cs s1) as [vs s2] eqn:E2. injection H as <- <-.
    inversion Hok as [|? ? Hc Hcs]; subst.
    destruct (check_call_run _ _ _ _ Hw Hc E1 ltac:(intros ->; apply Hnf; left; reflexivity)) as [Hk Hw1].
    destruct (IH _ _ _ Hw1 Hcs E2 ltac:(intros Hin; apply Hnf; right; exact Hin)) as [Hks Hw2].
    cbn [check_calls]. rewrite Hk, Hks. split; [reflexivity|exact Hw2].
Qed.

(** [call_ok] as a boolean, for concrete scripts *)
Definition call_okb (c : call) : bool :=
  match c with
  | CWeightedN ws => forallb (fun w => w <? p64) ws
  | CWeightedF ws => forallb fpos ws
  | CUniformF _ => false
  | CPartial len _ _ => len <? p64
  | CShuffle m => N.of_nat m <? p64
  | _ => true
  end.

Lemma call_okb_ok : forall c, call_okb c = true -> call_ok c.
Proof.
  intros [| | |n|m|ws|ws|b off|len amount show|high] H; cbn [call_okb call_ok] in *; try exact Logic.I.
  - apply N.ltb_lt. exact H.
  - apply Forall_forall. intros w Hw. apply N.ltb_lt. exact (proj1 (forallb_forall _ ws) H w Hw).
  - apply Forall_forall. intros w Hw. exact (proj1 (forallb_forall _ ws) H w Hw).
  - apply N.ltb_lt. exact H.
  - discriminate.
Qed.

(** C03 — pinned statements. Nothing but statements, [exact], and assumption audits.
    [merge_word] = the (repaired) heap loop of [BPETokenizer::merge_bytes] for one word;
    [canon] = the naive reference: among all adjacent pairs whose concatenation is a
    table entry merge the one with the least (merge id, position), repeat. *)
From TU Require Import Base BPE_Model C03_Model C02_Inv C02_Loop C02_Proofs C02_Check C03_Sim C03_Proofs
  MsgPack_Model C03_File C03_FileProofs C02_FileProofs C02_File C03_Limit C03_LimitProofs.
From Coq Require Import Permutation.
Open Scope N_scope.

(** The heap loop computes exactly the canonical segmentation — for EVERY table (a list of
    byte strings, id = position; no well-formedness needed) and every word of bytes.
    In particular the out-of-fuel value [None] is never returned. *)
Theorem merge_word_canonical : forall (tbl : list (list N)) (w : list N),
  Forall (fun b => b < 256) w -> merge_word tbl w = Some (canon_ids tbl w).
Proof. exact merge_word_canonical_l. Qed.
Print Assumptions merge_word_canonical.

(** The reference step [best] is "lowest merge id, leftmost": it returns a mergeable adjacent
    pair, and every other mergeable adjacent pair has a larger id or the same id further right. *)
Theorem best_is_min : forall tbl ts m p, best tbl 0 ts = Some (m, p) ->
  (exists l x y r, ts = l ++ x :: y :: r /\ p = length l /\ lookup tbl (x ++ y) = Some m) /\
  (forall l x y r m', ts = l ++ x :: y :: r -> lookup tbl (x ++ y) = Some m' ->
     m < m' \/ (m = m' /\ (p <= length l)%nat)).
Proof. exact best_is_min_l. Qed.
Print Assumptions best_is_min.

(** [best] finds a pair whenever one exists *)
Theorem best_none_iff : forall tbl ts, best tbl 0 ts = None ->
  forall l x y r, ts = l ++ x :: y :: r -> lookup tbl (x ++ y) = None.
Proof. exact best_none_l. Qed.
Print Assumptions best_none_iff.

(** In the result of the reference no adjacent pair is mergeable (its fuel [length ts] is enough). *)
Theorem canon_maximal : forall tbl ts l x y r,
  canon tbl ts = l ++ x :: y :: r -> lookup tbl (x ++ y) = None.
Proof. exact canon_maximal_pairs. Qed.
Print Assumptions canon_maximal.

(** The reference only regroups the bytes. *)
Theorem canon_concat : forall tbl ts, concat (canon tbl ts) = concat ts.
Proof. exact canon_concat_l. Qed.
Print Assumptions canon_concat.

(** Text level: the ids of [tokenize(s, true)] (no prefix/suffix) are the canonical ids of
    every whitespace-prefixed word, concatenated. *)
Theorem bpe_body_canonical : forall tbl s,
  Forall valid_cp s -> bpe_body tbl s = Some (canon_text tbl s).
Proof. exact bpe_body_canonical_l. Qed.
Print Assumptions bpe_body_canonical.

(** The heap invariant the simulation rests on, at loop exit: slots concatenate to the word,
    every live slot holds a token and carries that token's id. *)
Theorem merge_word_inv : forall tbl w, Forall (fun b => b < 256) w ->
  exists bs, merge_word_st tbl w = Some (bs, map (idopt tbl) bs) /\ concat bs = w /\
             forall k, nth k bs [] <> [] -> Tok tbl (nth k bs []).
Proof. exact merge_word_inv_l. Qed.
Print Assumptions merge_word_inv.

(** The loop as it stood at the pinned commit (defect D1) is NOT canonical:
    table {ab:0, abc:1}, word "abc" gives [256, 99] instead of [257]. *)
Theorem merge_word_pinned_refuted :
  exists tbl w, Forall (fun b => b < 256) w /\ merge_word_pinned tbl w <> Some (canon_ids tbl w).
Proof. exact merge_word_pinned_refuted_l. Qed.
Print Assumptions merge_word_pinned_refuted.

(** The executable statement evaluated on the implementation's outputs holds of the model's own output. *)
Theorem check_run : forall v, Forall valid_cp (v_str (v_nth 1 v)) -> check_C03 v (run_C03 v) = true.
Proof. exact check_run_C03_l. Qed.
Print Assumptions check_run.

(** ... and a [true] of the executable statement on an implementation output means that output IS
    the canonical id sequence of the text. *)
Theorem check_sound : forall v out, check_C03 v out = true ->
  out = L [list_v n_v (canon_text (v_table (v_nth 0 v)) (v_str (v_nth 1 v)))].
Proof. exact check_C03_sound_l. Qed.
Print Assumptions check_sound.

(** Non-vacuity: a three-level chain ab < abc < abcd collapses " abcd"-style words into one token,
    competing merges ab / bc are resolved by id, and the premises are met by concrete inputs. *)
Example chain3 : merge_word [[97;98];[97;98;99];[97;98;99;100]] [97;98;99;100] = Some [258].
Proof. vm_compute. reflexivity. Qed.
Example competing : merge_word [[98;99];[97;98]] [97;98;99;97;98] = Some [97;256;257].
Proof. vm_compute. reflexivity. Qed.
Example premise_bytes : Forall (fun b => b < 256) [97;98;99;100].
Proof. repeat constructor. Qed.
Example premise_text : Forall valid_cp [32;228;8364;128512].
Proof. repeat constructor. Qed.

(** * The merge file in the correspondence (third session; MsgPack_Model.v, MsgPack_Props.v, C03_File.v) *)

(** The executable statement on the output without its two file fields is true of the model's output. *)
Theorem check_run_f : forall v, Forall valid_cp (v_str (v_nth 1 v)) -> check_C03f v (run_C03 v) = true.
Proof. exact check_run_C03f_l. Qed.
Print Assumptions check_run_f.

(** An accepted correspondence: the ids are the model's, and the file the tokenizer was built from is [mp_encode] of
    the input table's entries (id = position) in some order, nothing behind, loads as the input's table, and the
    real [MergeOps::load] read these entries. *)
Theorem agree_file_sound : forall v m a fb lv, agree_C03f v m (L [a; fb; lv]) = true ->
  m = L [a] /\
  exists es, v_list v_n fb = mp_encode es /\ mp_parse (v_list v_n fb) = Some (es, []) /\
             Permutation es (entries_of_table (v_table (v_nth 0 v))) /\
             load_table (v_list v_n fb) = Loaded (v_table (v_nth 0 v)) /\ v_entries lv = sort_items es.
Proof. exact agree_C03f_sound_l. Qed.
Print Assumptions agree_file_sound.

Example ex_agree_file :
  agree_C03f (L [L [L [I 97; I 98]; L [I 97; I 98; I 99]]; L [I 97; I 98; I 99]])
             (L [L [I 257]])
             (L [L [I 257]; L [I 130; I 147; I 97; I 98; I 99; I 1; I 146; I 97; I 98; I 0];
                 L [L [I 0; L [I 97; I 98]]; L [I 1; L [I 97; I 98; I 99]]]]) = true.
Proof. vm_compute. reflexivity. Qed.

(** * A vocabulary limit (third session; C03_Limit.v): [max_vocab_size] keeps the first [k] merges of the table
    ([retain (id < limit)] = [firstn], C02_Props.retain_firstn); the canonical reference is the one of that prefix. *)

(** The executable statement with a limit holds of the model's own output. *)
Theorem check_run_limit : forall v, Forall valid_cp (v_str (v_nth 1 v)) -> check_C03l v (run_C03l v) = true.
Proof. exact check_run_C03l_l. Qed.
Print Assumptions check_run_limit.

(** A [true] on an implementation output: its ids are exactly the canonical ids under the first [k] merges. *)
Theorem check_limit_sound : forall v out k, keep_of v = Some k -> check_C03l v out = true ->
  strip_file3 out = L [list_v n_v (canon_text (firstn k (v_table (v_nth 0 v))) (v_str (v_nth 1 v)))].
Proof. exact check_C03l_sound. Qed.
Print Assumptions check_limit_sound.

(** Without the third field nothing changes. *)
Theorem check_limit_none : forall v out, keep_of v = None -> check_C03l v out = check_C03f v out.
Proof. exact check_C03l_nolimit. Qed.
Print Assumptions check_limit_none.

Example ex_limit : (* table {ab:0, abc:1}, text "abc", one merge kept: ab + c *)
  run_C03l (L [L [L [I 97; I 98]; L [I 97; I 98; I 99]]; L [I 97; I 98; I 99]; L [I 1]]) = L [L [I 256; I 99]]
  /\ run_C03l (L [L [L [I 97; I 98]; L [I 97; I 98; I 99]]; L [I 97; I 98; I 99]]) = L [L [I 257]]
  /\ run_C03l (L [L [L [I 97; I 98]; L [I 97; I 98; I 99]]; L [I 97; I 98; I 99]; L [I 0]]) = L [L [I 97; I 98; I 99]].
Proof. vm_compute. repeat split. Qed.

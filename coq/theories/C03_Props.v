(** C03 — pinned statements. Nothing but statements, [exact], and assumption audits. *)
From TU Require Import Base BPE_Model C03_Model C03_Proofs.
Open Scope N_scope.

(** The loop as it stood at the pinned commit (defect D1) is NOT canonical:
    table {ab:0, abc:1}, word "abc" gives [256, 99] instead of [257]. *)
Theorem merge_word_pinned_refuted :
  exists tbl w, merge_word_pinned tbl w <> Some (canon_ids tbl w).
Proof. exact merge_word_pinned_refuted_l. Qed.
Print Assumptions merge_word_pinned_refuted.

(** C06 proofs, part 5: what acceptance by the correspondence relation means.
    - one call of build_batch reads the oracle at one argument only ([build_batch_reads_l]);
    - an oracle can be made total ([sanitize]) without changing any run that succeeded;
    - the per-call oracles the replay reconstructs are glued into ONE oracle in range
      under which [batches] returns exactly the implementation's batch sequence
      ([agree_sound_l]); the same for the oracle observed from the seed ([exact_sound_l]);
    - hence every theorem about [batches] holds of an accepted output ([agree_transfers_l]). *)
From TU Require Import Base C06_Model C06_Subseq C06_Proofs C06_Loop C06_Top.
Require Import Lia Permutation.

Section Reads.
Context {A : Type} (size : A -> nat).
Implicit Types (buf rest : list A).

(** * locality: which oracle values one call reads *)
Lemma build_batch_reads_l : forall sort shuffle L P ty o o' t rest buf,
  (sort = false -> shuffle = true -> 0 < shuf_arg size L P ty rest buf ->
     shuf o t (shuf_arg size L P ty rest buf) = shuf o' t (shuf_arg size L P ty rest buf)) ->
  (sort = true -> shuffle = true -> 0 < pick_arg size L P ty rest buf ->
     pick o t (pick_arg size L P ty rest buf) = pick o' t (pick_arg size L P ty rest buf)) ->
  build_batch size sort shuffle L P ty o t rest buf = build_batch size sort shuffle L P ty o' t rest buf.
Proof.
  intros sort shuffle L P ty o o' t rest buf Hs Hp.
  unfold build_batch, shuf_arg, pick_arg in *.
  destruct sort, shuffle; cbn [negb andb]; try reflexivity;
    destruct (fill size ty (L * P) (lim_from size buf) buf rest) as [buf1 rest1]; cbn [fst] in *;
    (destruct (is_nil buf1) eqn:En; [reflexivity|]).
  - set (sb := sort_by size buf1) in *.
    destruct (find_subseq (fun s e => limit size ty (slice sb s e)) L (length sb)) as [subs|]; [|reflexivity].
    destruct subs as [|p0 subs]; [reflexivity|].
    rewrite Hp; auto. cbn [length]. lia.
  - rewrite Hs; auto. destruct buf1; [discriminate|cbn [length]; lia].
Qed.

(** * a successful call only saw in-range answers *)
Lemma remove_nth_lt : forall i (l : list A) x r, remove_nth i l = Some (x, r) ->
  i < length l /\ length l = S (length r).
Proof.
  induction i as [|i IH]; destruct l as [|y l]; cbn [remove_nth]; intros x r H; try discriminate.
  - injection H as <- <-. cbn [length]. lia.
  - destruct (remove_nth i l) as [[z r']|] eqn:E; [|discriminate].
    injection H as <- <-. destruct (IH _ _ _ E) as [H1 H2]. cbn [length]. lia.
Qed.

Lemma apply_shuf_inrange : forall p buf sb, apply_shuf p buf = Some sb -> lehmer_okb p (length buf) = true.
Proof.
  induction p as [|i p IH]; intros buf sb H; cbn [apply_shuf] in H.
  - destruct buf; [reflexivity|discriminate].
  - destruct (remove_nth i buf) as [[x r]|] eqn:E; [|discriminate].
    destruct (apply_shuf p r) as [sb'|] eqn:E'; [|discriminate].
    destruct (remove_nth_lt _ _ _ _ E) as [Hi Hl]. rewrite Hl. cbn [lehmer_okb].
    apply andb_true_iff. split; [apply Nat.ltb_lt; lia|]. eapply IH. exact E'.
Qed.

Lemma build_batch_inrange : forall sort shuffle L P ty o t rest buf ob rest' buf',
  build_batch size sort shuffle L P ty o t rest buf = BOk ob rest' buf' ->
  (sort = false -> shuffle = true -> 0 < shuf_arg size L P ty rest buf ->
     lehmer_okb (shuf o t (shuf_arg size L P ty rest buf)) (shuf_arg size L P ty rest buf) = true) /\
  (sort = true -> shuffle = true -> 0 < pick_arg size L P ty rest buf ->
     pick o t (pick_arg size L P ty rest buf) < pick_arg size L P ty rest buf).
Proof.
  intros sort shuffle L P ty o t rest buf ob rest' buf' H.
  unfold build_batch in H. unfold shuf_arg, pick_arg.
  destruct (fill size ty (L * P) (lim_from size buf) buf rest) as [buf1 rest1]. cbn [fst].
  split; intros -> -> Hpos; cbn [negb andb] in H.
  - (* shuffle only: shuf *)
    destruct (is_nil buf1) eqn:En; [destruct buf1; [cbn in Hpos; lia|discriminate]|].
    destruct (apply_shuf (shuf o t (length buf1)) buf1) as [sb|] eqn:Es; [|discriminate].
    eapply apply_shuf_inrange. exact Es.
  - (* sort+shuffle: pick *)
    destruct (is_nil buf1) eqn:En; [destruct buf1; [cbn in Hpos; lia|discriminate]|].
    set (sb := sort_by size buf1) in *.
    destruct (find_subseq (fun s e => limit size ty (slice sb s e)) L (length sb)) as [subs|]; [|lia].
    destruct subs as [|p0 subs]; [cbn [length] in Hpos; lia|].
    destruct (nth_error (p0 :: subs) (pick o t (length (p0 :: subs)))) eqn:Enth; [|discriminate].
    apply nth_error_Some. congruence.
Qed.
End Reads.

(** * sanitize: a total oracle that answers like [o] wherever [o] was in range *)
Lemma repeat0_ok : forall n, lehmer_okb (repeat 0 n) n = true.
Proof. induction n as [|n IH]; [reflexivity|]. cbn [repeat lehmer_okb]. rewrite IH. reflexivity. Qed.

Lemma sanitize_guard : forall o, oracle_guard (sanitize o).
Proof.
  intros o. split; cbn [shuf pick sanitize].
  - intros t n. destruct (lehmer_okb (shuf o t n) n) eqn:E; [exact E|apply repeat0_ok].
  - intros t m Hm. destruct (pick o t m <? m) eqn:E; [apply Nat.ltb_lt; exact E|exact Hm].
Qed.

Section Loop.
Context {A : Type} (size : A -> nat).
Implicit Types (buf rest : list A).

Lemma build_batch_sanitize : forall sort shuffle L P ty o t rest buf ob rest' buf',
  build_batch size sort shuffle L P ty o t rest buf = BOk ob rest' buf' ->
  build_batch size sort shuffle L P ty (sanitize o) t rest buf = BOk ob rest' buf'.
Proof.
  intros sort shuffle L P ty o t rest buf ob rest' buf' H.
  destruct (build_batch_inrange size _ _ _ _ _ _ _ _ _ _ _ _ H) as [Hs Hp].
  rewrite <- H. apply build_batch_reads_l; intros E1 E2 Hpos; cbn [shuf pick sanitize].
  - rewrite (Hs E1 E2 Hpos). reflexivity.
  - rewrite (proj2 (Nat.ltb_lt _ _) (Hp E1 E2 Hpos)). reflexivity.
Qed.

Lemma loop_S : forall sort shuffle L P ty o f t rest buf,
  batches_loop size sort shuffle L P ty o (S f) t rest buf =
  match build_batch size sort shuffle L P ty o t rest buf with
  | BErr e => Err e
  | BOk None _ _ => Ok []
  | BOk (Some b) rest' buf' => cons_res b (batches_loop size sort shuffle L P ty o f (S t) rest' buf')
  end.
Proof. reflexivity. Qed.

Lemma loop_sanitize : forall sort shuffle L P ty o fuel t rest buf bs,
  batches_loop size sort shuffle L P ty o fuel t rest buf = Ok bs ->
  batches_loop size sort shuffle L P ty (sanitize o) fuel t rest buf = Ok bs.
Proof.
  intros sort shuffle L P ty o. induction fuel as [|f IH]; intros t rest buf bs H; [discriminate|].
  rewrite loop_S in *.
  destruct (build_batch size sort shuffle L P ty o t rest buf) as [ob rest' buf'|e] eqn:E; [|discriminate].
  rewrite (build_batch_sanitize _ _ _ _ _ _ _ _ _ _ _ _ E).
  destruct ob as [b|]; [|exact H].
  apply cons_res_ok in H. destruct H as (bs' & H & ->). rewrite (IH _ _ _ _ H). reflexivity.
Qed.

Lemma sanitize_ok_l : forall o,
  oracle_guard (sanitize o) /\
  forall sort shuffle L P ty fuel t rest buf bs,
    batches_loop size sort shuffle L P ty o fuel t rest buf = Ok bs ->
    batches_loop size sort shuffle L P ty (sanitize o) fuel t rest buf = Ok bs.
Proof. intros o. split; [exact (sanitize_guard o)|]. intros. apply loop_sanitize. assumption. Qed.

(** more fuel does not change a result *)
Lemma loop_fuel_S : forall sort shuffle L P ty o fuel t rest buf bs,
  batches_loop size sort shuffle L P ty o fuel t rest buf = Ok bs ->
  batches_loop size sort shuffle L P ty o (S fuel) t rest buf = Ok bs.
Proof.
  intros sort shuffle L P ty o. induction fuel as [|f IH]; intros t rest buf bs H; [discriminate|].
  rewrite loop_S in H. rewrite (loop_S _ _ _ _ _ _ (S f)).
  destruct (build_batch size sort shuffle L P ty o t rest buf) as [ob rest' buf'|e]; [|discriminate].
  destruct ob as [b|]; [|exact H].
  apply cons_res_ok in H. destruct H as (bs' & H & ->). rewrite (IH _ _ _ _ H). reflexivity.
Qed.

(** a run that succeeded with SOME fuel from the initial state is the run of [batches]
    under the sanitized oracle *)
Lemma batches_of_loop : forall sort shuffle prefetch lim ty o (input : list A) k bs,
  batches_loop size sort shuffle (Nat.max lim 1) (Nat.max prefetch 1) ty o (length input + 1 + k) 0 input [] = Ok bs ->
  batches size sort shuffle prefetch lim ty (sanitize o) input = Ok bs.
Proof.
  intros sort shuffle prefetch lim ty o input k bs H. apply loop_sanitize in H.
  destruct (batches_total_l size sort shuffle prefetch lim ty (sanitize o) input (sanitize_guard o)) as [bs' Hbs'].
  rewrite Hbs'. unfold batches in Hbs'.
  assert (Hk : batches_loop size sort shuffle (Nat.max lim 1) (Nat.max prefetch 1) ty (sanitize o)
                 (length input + 1 + k) 0 input [] = Ok bs').
  { clear H. induction k as [|k IHk]; [rewrite Nat.add_0_r; exact Hbs'|].
    rewrite Nat.add_succ_r. apply loop_fuel_S. exact IHk. }
  congruence.
Qed.
End Loop.

(** * the replay: one glued oracle for the whole run *)
Lemma replay_loop : forall sort shuffle L P ty fuel t rest buf impl,
  replay sort shuffle L P ty fuel t rest buf impl = true ->
  forall o,
    (forall k n, shuf o (t + k) n =
                 shuf (nth k (replay_os sort shuffle L P ty fuel t rest buf impl) o_default) (t + k) n) ->
    (forall k m, pick o (t + k) m =
                 pick (nth k (replay_os sort shuffle L P ty fuel t rest buf impl) o_default) (t + k) m) ->
    exists bs, batches_loop isize sort shuffle L P ty o fuel t rest buf = Ok bs /\ map (map fst) bs = impl.
Proof.
  intros sort shuffle L P ty. induction fuel as [|f IH]; intros t rest buf impl H o Hs Hp; [discriminate|].
  cbn [replay] in H. cbn [replay_os] in Hs, Hp. rewrite loop_S.
  set (o0 := match impl with b :: _ => oracle_for sort shuffle L P ty rest buf b | [] => o_default end) in *.
  assert (Hb : build_batch isize sort shuffle L P ty o t rest buf = build_batch isize sort shuffle L P ty o0 t rest buf).
  { apply build_batch_reads_l; intros _ _ _.
    - pose proof (Hs 0 (shuf_arg isize L P ty rest buf)) as H0. rewrite Nat.add_0_r in H0. exact H0.
    - pose proof (Hp 0 (pick_arg isize L P ty rest buf)) as H0. rewrite Nat.add_0_r in H0. exact H0. }
  rewrite Hb.
  destruct (build_batch isize sort shuffle L P ty o0 t rest buf) as [[mb|] rest' buf'|e].
  - destruct impl as [|b impl']; [discriminate|].
    apply andb_true_iff in H. destruct H as [H1 H2]. apply nat_list_eqb_eq in H1.
    destruct (IH (S t) rest' buf' impl' H2 o) as (bs' & Hl & Hids).
    + intros k n. pose proof (Hs (S k) n) as H0. cbn [nth] in H0. rewrite Nat.add_succ_r in H0. exact H0.
    + intros k m. pose proof (Hp (S k) m) as H0. cbn [nth] in H0. rewrite Nat.add_succ_r in H0. exact H0.
    + exists (mb :: bs'). rewrite Hl. cbn [cons_res map]. split; [reflexivity|]. rewrite H1, Hids. reflexivity.
  - destruct impl as [|b impl']; [|discriminate]. exists []. split; reflexivity.
  - discriminate.
Qed.

Lemma nat_ll_eqb_eq : forall a b, nat_ll_eqb a b = true -> a = b.
Proof.
  induction a as [|x a IH]; destruct b as [|y b]; cbn [nat_ll_eqb]; intros H; try discriminate; [reflexivity|].
  apply andb_true_iff in H. destruct H as [H1 H2]. apply nat_list_eqb_eq in H1. f_equal; auto.
Qed.

(** a batch sequence of the model whose positions are [ids] is [ids] resolved to items *)
Lemma resolve_ids : forall sort shuffle prefetch lim ty o sizes bs ids,
  batches isize sort shuffle prefetch lim ty o (mk_items sizes) = Ok bs ->
  map (map fst) bs = ids ->
  bs = map (map (lookup (mk_items sizes))) ids.
Proof.
  intros sort shuffle prefetch lim ty o sizes bs ids H <-. symmetry. apply relookup.
  intros x Hx. eapply Permutation_in; [|exact Hx]. exact (batches_partition_l _ _ _ _ _ _ _ _ _ _ H).
Qed.

(** ** acceptance by the relational line: ONE oracle in range explains the whole run *)
Lemma replay_sound_l : forall v i,
  replay (v_bool (v_nth 0 v)) (v_bool (v_nth 1 v)) (Nat.max (v_nat (v_nth 3 v)) 1)
         (Nat.max (v_nat (v_nth 2 v)) 1) (v_ty (v_nth 4 v)) (length (v_items v) + 2) 0 (v_items v) []
         (v_batches (v_nth 0 i)) = true ->
  oracle_guard (glued_oracle v i) /\
  run_with (glued_oracle v i) v = Ok (map (map (lookup (v_items v))) (v_batches (v_nth 0 i))).
Proof.
  intros v i H. split; [apply sanitize_guard|].
  unfold glued_oracle, run_with.
  set (os := replay_os _ _ _ _ _ _ _ _ _ _) in *.
  destruct (replay_loop _ _ _ _ _ _ _ _ _ _ H (glue os)) as (bs & Hl & Hids);
    [intros k n; reflexivity|intros k m; reflexivity|].
  replace (length (v_items v) + 2) with (length (v_items v) + 1 + 1) in Hl by lia.
  apply batches_of_loop in Hl. rewrite Hl. f_equal.
  unfold v_items in *. eapply resolve_ids; eauto.
Qed.

Lemma agree_sound_glued_l : forall v m i, agree_C06 v m i = true ->
  oracle_guard (glued_oracle v i) /\
  run_with (glued_oracle v i) v = Ok (map (map (lookup (v_items v))) (v_batches (v_nth 0 i))).
Proof.
  intros v m i H. unfold agree_C06 in H. rewrite !andb_true_iff in H.
  destruct H as [[[_ _] Hr] _]. apply replay_sound_l. exact Hr.
Qed.

Lemma agree_sound_l : forall v m i, agree_C06 v m i = true ->
  exists o, oracle_guard o /\
    run_with o v = Ok (map (map (lookup (v_items v))) (v_batches (v_nth 0 i))).
Proof. intros v m i H. exists (glued_oracle v i). exact (agree_sound_glued_l v m i H). Qed.

(** ** acceptance by the exact line: the oracle is the one observed from the seed *)
Lemma exact_sound_l : forall v i, exact_ok v i = true ->
  exists orc, v_obs (v_nth 2 i) = Some orc /\
    run_with (o_obs orc) v = Ok (map (map (lookup (v_items v))) (v_batches (v_nth 0 i))) /\
    oracle_guard (sanitize (o_obs orc)) /\
    run_with (sanitize (o_obs orc)) v = Ok (map (map (lookup (v_items v))) (v_batches (v_nth 0 i))).
Proof.
  intros v i H. unfold exact_ok in H.
  destruct (v_obs (v_nth 2 i)) as [orc|]; [|discriminate]. exists orc. split; [reflexivity|].
  destruct (run_with (o_obs orc) v) as [bs|e] eqn:E; [|discriminate].
  apply nat_ll_eqb_eq in H.
  assert (Hbs : bs = map (map (lookup (v_items v))) (v_batches (v_nth 0 i))).
  { unfold run_with, v_items in *. eapply resolve_ids; eauto. }
  subst bs. split; [reflexivity|]. split; [apply sanitize_guard|].
  unfold run_with, batches in *. apply loop_sanitize. exact E.
Qed.

(** ** transfer: the theorems about [batches] hold of an accepted output *)
Lemma agree_transfers_l : forall v m i, agree_C06 v m i = true ->
  let items := v_items v in
  let ty := v_ty (v_nth 4 v) in
  let lm := v_nat (v_nth 3 v) in
  let bs := map (map (lookup items)) (v_batches (v_nth 0 i)) in
  Permutation (concat bs) items /\
  Forall (fun b => b <> []) bs /\
  Forall (fun b => 1 < length b -> limit isize ty b <= Nat.max lm 1) bs /\
  (v_bool (v_nth 0 v) = false -> v_bool (v_nth 1 v) = false ->
   concat bs = items /\
   forall k b b' x, nth_error bs k = Some b -> nth_error bs (S k) = Some (x :: b') ->
     Nat.max lm 1 < limit isize ty (b ++ [x])).
Proof.
  intros v m i H. cbn zeta. destruct (agree_sound_l v m i H) as (o & _ & Hrun).
  unfold run_with in Hrun.
  split; [exact (batches_partition_l _ _ _ _ _ _ _ _ _ _ Hrun)|].
  split; [exact (batches_nonempty_l _ _ _ _ _ _ _ _ _ _ Hrun)|].
  split; [exact (batches_limit_l _ _ _ _ _ _ _ _ _ _ Hrun)|].
  intros E1 E2. rewrite E1, E2 in Hrun.
  split; [exact (plain_order_l _ _ _ _ _ _ _ _ Hrun)|exact (plain_greedy_l _ _ _ _ _ _ _ _ Hrun)].
Qed.

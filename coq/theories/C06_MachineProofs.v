(** C06 — machine-integer model: simulation lemmas.  For the repaired code ([fixed = true]) one call
    of the machine [build_batch] is one call of the unbounded model under the effective parameters
    [eff_limit] / [eff_prefetch], in both profiles, provided the items in flight are at most [n] and
    their sizes at most [smax] (so that every value of [limit()] is at most [xmax ty n smax]) and
    [n + 2] is a usize. *)
From TU Require Import RNG_Model.
From TU Require Import Base C06_Model C06_Subseq C06_Proofs C06_Seeded C06_Machine.
Require Import Lia Permutation.

Arguments N.add : simpl never.
Arguments N.sub : simpl never.
Arguments N.mul : simpl never.
Arguments N.ltb : simpl never.
Arguments N.leb : simpl never.
Arguments N.min : simpl never.
Arguments N.max : simpl never.
Arguments N.of_nat : simpl never.
Arguments N.to_nat : simpl never.

(** * the three operations *)
Lemma W_val : W = (UMAX + 1)%N.
Proof. reflexivity. Qed.

Lemma madd_ok : forall p s a b, (a + b < W)%N -> madd p s a b = MOk (a + b)%N.
Proof.
  intros p s a b H. unfold madd, add_o. cbn zeta.
  destruct (N.ltb_spec (a + b) W); [reflexivity|lia].
Qed.
Lemma msub_ok : forall p s a b, (b <= a)%N -> msub p s a b = MOk (a - b)%N.
Proof.
  intros p s a b H. unfold msub, sub_o. destruct (N.leb_spec b a); [reflexivity|lia].
Qed.
Lemma mmul_ok : forall p s a b, (a * b < W)%N -> mmul p s a b = MOk (a * b)%N.
Proof.
  intros p s a b H. unfold mmul, mul_o. cbn zeta.
  destruct (N.ltb_spec (a * b) W); [reflexivity|lia].
Qed.

Lemma machine_ops_spec_l : forall s a b, (a < W)%N -> (b < W)%N ->
  madd Checked s a b = (if (a + b <? W)%N then MOk (a + b)%N else MFault s) /\
  madd Wrapping s a b = MOk ((a + b) mod W)%N /\
  msub Checked s a b = (if (b <=? a)%N then MOk (a - b)%N else MFault s) /\
  msub Wrapping s a b = MOk ((a + W - b) mod W)%N /\
  mmul Checked s a b = (if (a * b <? W)%N then MOk (a * b)%N else MFault s) /\
  mmul Wrapping s a b = MOk ((a * b) mod W)%N.
Proof.
  intros s a b Ha Hb. unfold madd, msub, mmul, add_o, sub_o, mul_o, ovf. cbn zeta.
  repeat split.
  - destruct (a + b <? W)%N; reflexivity.
  - destruct (N.ltb_spec (a + b) W); [|reflexivity]. rewrite N.mod_small by assumption. reflexivity.
  - destruct (b <=? a)%N; reflexivity.
  - destruct (N.leb_spec b a).
    + f_equal. replace (a + W - b)%N with (a - b + 1 * W)%N by lia.
      rewrite N.mod_add by (unfold W; lia). rewrite N.mod_small by lia. reflexivity.
    + f_equal. rewrite (N.mod_small b W) by assumption. f_equal. lia.
  - destruct (a * b <? W)%N; reflexivity.
  - destruct (N.ltb_spec (a * b) W); [|reflexivity]. rewrite N.mod_small by assumption. reflexivity.
Qed.

(** * comparisons: saturated machine values against the thresholds = unbounded values against
    the effective thresholds *)
Lemma cmp_limit : forall (LN X : N) (x : nat), (LN <= UMAX)%N -> (N.of_nat x <= X)%N ->
  (LN <? N.min (N.of_nat x) UMAX)%N = (N.to_nat (eff_limit LN X) <? x).
Proof.
  intros LN X x HL Hx. unfold eff_limit.
  destruct (N.ltb_spec LN UMAX) as [H1|H1]; cbn [orb].
  - destruct (N.ltb_spec LN (N.min (N.of_nat x) UMAX)); destruct (Nat.ltb_spec (N.to_nat LN) x); try reflexivity; lia.
  - destruct (N.leb_spec X UMAX) as [H2|H2].
    + destruct (N.ltb_spec LN (N.min (N.of_nat x) UMAX)); destruct (Nat.ltb_spec (N.to_nat LN) x); try reflexivity; lia.
    + destruct (N.ltb_spec LN (N.min (N.of_nat x) UMAX)); destruct (Nat.ltb_spec (N.to_nat X) x); try reflexivity; lia.
Qed.

Lemma cmp_limit_le : forall (LN X : N) (x : nat), (LN <= UMAX)%N -> (N.of_nat x <= X)%N ->
  (N.min (N.of_nat x) UMAX <=? LN)%N = (x <=? N.to_nat (eff_limit LN X)).
Proof.
  intros LN X x HL Hx. pose proof (cmp_limit LN X x HL Hx) as H.
  rewrite N.leb_antisym, Nat.leb_antisym, H. reflexivity.
Qed.

Lemma eff_limit_pos : forall LN X, (1 <= LN)%N -> (1 <= eff_limit LN X)%N.
Proof.
  intros LN X H. unfold eff_limit.
  destruct (N.ltb_spec LN UMAX); cbn [orb]; [exact H|].
  destruct (N.leb_spec X UMAX); [exact H|]. unfold UMAX in *. lia.
Qed.

Lemma cmp_bound : forall (LN PN X : N) (x : nat), (1 <= LN)%N -> (LN <= UMAX)%N -> (1 <= PN)%N ->
  (N.of_nat x <= X)%N ->
  (N.min (N.of_nat x) UMAX <=? sat_mul LN PN)%N
  = (x <=? N.to_nat (eff_limit LN X) * N.to_nat (eff_prefetch LN PN X)).
Proof.
  intros LN PN X x HL1 HL HP Hx. unfold sat_mul.
  assert (HLP : (LN <= LN * PN)%N) by nia.
  rewrite <- N2Nat.inj_mul.
  destruct (N.ltb_spec (LN * PN) UMAX) as [H1|H1].
  - (* the bound is exact *)
    assert (E1 : eff_limit LN X = LN).
    { unfold eff_limit. destruct (N.ltb_spec LN UMAX); [reflexivity|lia]. }
    assert (E2 : eff_prefetch LN PN X = PN).
    { unfold eff_prefetch. destruct (N.ltb_spec (LN * PN) UMAX); [reflexivity|lia]. }
    rewrite E1, E2.
    destruct (N.leb_spec (N.min (N.of_nat x) UMAX) (N.min (LN * PN) UMAX));
      destruct (Nat.leb_spec x (N.to_nat (LN * PN))); try reflexivity; lia.
  - (* the bound is saturated: the condition of the fill loop is always true *)
    assert (Hl : (N.min (N.of_nat x) UMAX <=? N.min (LN * PN) UMAX)%N = true).
    { apply N.leb_le. lia. }
    rewrite Hl. symmetry. apply Nat.leb_le.
    pose proof (eff_limit_pos LN X HL1) as He.
    assert (Hge : (X <= eff_limit LN X * eff_prefetch LN PN X)%N).
    { unfold eff_prefetch. destruct (N.ltb_spec (LN * PN) UMAX); [lia|]. cbn [orb].
      destruct (N.leb_spec X (LN * PN)) as [H2|H2].
      - unfold eff_limit. destruct (N.ltb_spec LN UMAX); cbn [orb]; [exact H2|].
        destruct (N.leb_spec X UMAX); [exact H2|]. nia.
      - nia. }
    lia.
Qed.

Lemma Forall_firstn : forall B (P : B -> Prop) k (l : list B), Forall P l -> Forall P (firstn k l).
Proof.
  intros B P. induction k as [|k IH]; intros [|x l] H; cbn [firstn]; try constructor.
  - inversion H; assumption.
  - apply IH. inversion H; assumption.
Qed.
Lemma Forall_skipn : forall B (P : B -> Prop) k (l : list B), Forall P l -> Forall P (skipn k l).
Proof.
  intros B P. induction k as [|k IH]; intros [|x l] H; cbn [skipn]; try assumption.
  apply IH. inversion H; assumption.
Qed.

(** * conversions between the unbounded model's [nat] and the machine's [N] *)
Section Conv.
Context {A : Type} (sizeN : A -> N).
Definition sz (a : A) : nat := N.to_nat (sizeN a).

Definition limN (l : lim) : mlim := (N.of_nat (fst l), N.of_nat (snd l)).

Lemma smax_conv : forall l, fold_right N.max 0%N (map sizeN l) = N.of_nat (list_max (map sz l)).
Proof.
  induction l as [|a l IH]; [reflexivity|].
  change (list_max (map sz (a :: l))) with (Nat.max (sz a) (list_max (map sz l))).
  cbn [map fold_right]. rewrite IH. pose proof (eq_refl : sz a = N.to_nat (sizeN a)). lia.
Qed.

Lemma mlim_from_conv : forall l, mlim_from sizeN l = limN (lim_from sz l).
Proof. intros l. unfold mlim_from, limN, lim_from. cbn [fst snd]. rewrite smax_conv. reflexivity. Qed.

Lemma mlim_update_conv : forall p ty l x, (N.of_nat (fst l) + 1 < W)%N ->
  mlim_update sizeN p ty (limN l) x = MOk (limN (lim_update sz l x)).
Proof.
  intros p ty l x H. unfold mlim_update, limN, lim_update. cbn [fst snd].
  rewrite madd_ok by exact H. cbn [mbind]. f_equal. f_equal; unfold sz; lia.
Qed.

Lemma mlim_val_conv : forall p fixed ty l, (ty = BatchSize -> (N.of_nat (fst l) <= UMAX)%N) ->
  (fixed = false -> (N.of_nat (lim_val ty l) <= UMAX)%N) ->
  mlim_val p fixed ty (limN l) = MOk (N.min (N.of_nat (lim_val ty l)) UMAX).
Proof.
  intros p fixed ty l H Hf. unfold mlim_val, limN, sat_mul. cbn [fst snd]. destruct ty.
  - unfold lim_val. f_equal. specialize (H eq_refl). lia.
  - destruct fixed.
    + unfold lim_val. f_equal. lia.
    + specialize (Hf eq_refl). unfold lim_val in *. rewrite mmul_ok by (rewrite W_val; lia). f_equal. lia.
Qed.

Lemma mbound_eq : forall p fixed LN PN, (fixed = false -> (LN * PN <= UMAX)%N) ->
  mbound p fixed LN PN = MOk (sat_mul LN PN).
Proof.
  intros p fixed LN PN Hf. unfold mbound, sat_mul. destruct fixed; [reflexivity|].
  specialize (Hf eq_refl). rewrite mmul_ok by (rewrite W_val; lia). f_equal. lia.
Qed.

(** the items in flight: at most [n], sizes at most [smax] *)
Definition bnd (n : nat) (smax : N) (l : list A) : Prop :=
  length l <= n /\ Forall (fun a => (sizeN a <= smax)%N) l.

Lemma bnd_app_l : forall n smax l1 l2, bnd n smax (l1 ++ l2) -> bnd n smax l1.
Proof.
  intros n smax l1 l2 [Hl Hf]. rewrite app_length in Hl. apply Forall_app in Hf. split; [lia|tauto].
Qed.
Lemma bnd_app_r : forall n smax l1 l2, bnd n smax (l1 ++ l2) -> bnd n smax l2.
Proof.
  intros n smax l1 l2 [Hl Hf]. rewrite app_length in Hl. apply Forall_app in Hf. split; [lia|tauto].
Qed.
Lemma bnd_perm : forall n smax l l', Permutation l l' -> bnd n smax l -> bnd n smax l'.
Proof.
  intros n smax l l' Hp [Hl Hf]. split.
  - rewrite <- (Permutation_length Hp). exact Hl.
  - eapply Permutation_Forall; eauto.
Qed.
Lemma bnd_slice : forall n smax l s e, bnd n smax l -> bnd n smax (slice l s e).
Proof.
  intros n smax l s e [Hl Hf]. unfold slice. split.
  - rewrite firstn_length, skipn_length. lia.
  - apply Forall_firstn, Forall_skipn, Hf.
Qed.

Lemma list_max_le_bnd : forall smax l, Forall (fun a => (sizeN a <= smax)%N) l ->
  (N.of_nat (list_max (map sz l)) <= smax)%N.
Proof.
  intros smax l H. induction H as [|a l Ha _ IH]; [cbn; lia|].
  change (list_max (map sz (a :: l))) with (Nat.max (sz a) (list_max (map sz l))).
  pose proof (eq_refl : sz a = N.to_nat (sizeN a)). lia.
Qed.

Lemma lim_from_bnd : forall ty n smax l, bnd n smax l ->
  (N.of_nat (lim_val ty (lim_from sz l)) <= xmax ty (N.of_nat n) smax)%N /\ fst (lim_from sz l) <= n.
Proof.
  intros ty n smax l [Hl Hf]. pose proof (list_max_le_bnd smax l Hf) as Hm.
  unfold lim_from, lim_val, xmax. cbn [fst snd]. split; [|exact Hl].
  destruct ty; [lia|]. nia.
Qed.
End Conv.

(** * the components of one [build_batch] call, repaired code, either profile *)
Section Components.
Context {A : Type} (sizeN : A -> N) (p : profile) (fixed : bool) (ty : limit_type).
Context (n : nat) (smax LN PN : N).
Hypothesis Hn : (N.of_nat n + 2 < W)%N.
Hypothesis HL1 : (1 <= LN)%N.
Hypothesis HL : (LN <= UMAX)%N.
Hypothesis HP1 : (1 <= PN)%N.
(** the pinned code ([fixed = false]) is covered where its two products do not overflow *)
Hypothesis Hfx : fixed = false ->
  (xmax ty (N.of_nat n) smax <= UMAX)%N /\ (LN * PN <= UMAX)%N.

Notation sz := (sz sizeN).
Notation X := (xmax ty (N.of_nat n) smax).
Notation effL := (N.to_nat (eff_limit LN X)).
Notation effP := (N.to_nat (eff_prefetch LN PN X)).
Notation bnd := (bnd sizeN n smax).

Lemma W_UMAX : (W = UMAX + 1)%N.
Proof. reflexivity. Qed.

Lemma mlim_val_bnd : forall l, bnd l ->
  mlim_val p fixed ty (limN (lim_from sz l)) = MOk (N.min (N.of_nat (lim_val ty (lim_from sz l))) UMAX).
Proof.
  intros l Hb. destruct (lim_from_bnd sizeN ty n smax l Hb) as [Hv Hc]. apply mlim_val_conv.
  - intros _. pose proof W_UMAX. lia.
  - intros Hf. destruct (Hfx Hf) as [Hx _]. lia.
Qed.

Lemma val_le_X : forall l, bnd l -> (N.of_nat (lim_val ty (lim_from sz l)) <= X)%N.
Proof. intros l Hb. apply (lim_from_bnd sizeN ty n smax l Hb). Qed.

Lemma count_ok : forall l, bnd l -> (N.of_nat (fst (lim_from sz l)) + 1 < W)%N.
Proof. intros l Hb. destruct (lim_from_bnd sizeN ty n smax l Hb) as [_ Hc]. lia. Qed.

(** batch_from *)
Lemma mbatch_from_eq : forall src acc, bnd (acc ++ src) ->
  mbatch_from sizeN p fixed ty LN acc (limN (lim_from sz acc)) src
  = MOk (batch_from sz ty effL acc (lim_from sz acc) src).
Proof.
  induction src as [|x src IH]; intros acc Hb; cbn [mbatch_from batch_from]; [reflexivity|].
  assert (Hb' : bnd ((acc ++ [x]) ++ src)) by (rewrite <- app_assoc; exact Hb).
  assert (Hb1 : bnd (acc ++ [x])) by (eapply bnd_app_l; exact Hb').
  rewrite mlim_update_conv by (apply count_ok; eapply bnd_app_l; exact Hb).
  cbn [mbind]. rewrite lim_update_from. rewrite (mlim_val_bnd _ Hb1). cbn [mbind].
  rewrite (cmp_limit LN X _ HL (val_le_X _ Hb1)).
  destruct ((effL <? lim_val ty (lim_from sz (acc ++ [x]))) && negb (is_nil acc)); [reflexivity|].
  apply IH. exact Hb'.
Qed.

(** buffer fill *)
Lemma mfill_eq : forall rest buf, bnd (buf ++ rest) ->
  mfill sizeN p fixed ty LN PN (limN (lim_from sz buf)) buf rest
  = MOk (fill sz ty (effL * effP) (lim_from sz buf) buf rest).
Proof.
  induction rest as [|x rest IH]; intros buf Hb; cbn [mfill fill];
    assert (Hb0 : bnd buf) by (eapply bnd_app_l; exact Hb);
    rewrite (mlim_val_bnd _ Hb0); cbn [mbind];
    rewrite mbound_eq by (intros Hf; apply (Hfx Hf)); cbn [mbind];
    rewrite (cmp_bound LN PN X _ HL1 HL HP1 (val_le_X _ Hb0)).
  - destruct (lim_val ty (lim_from sz buf) <=? effL * effP); reflexivity.
  - destruct (lim_val ty (lim_from sz buf) <=? effL * effP); [|reflexivity].
    rewrite mlim_update_conv by (apply count_ok; exact Hb0). cbn [mbind].
    rewrite lim_update_from. apply IH. rewrite <- app_assoc. exact Hb.
Qed.

(** sort_by_key *)
Lemma minsert_by_eq : forall x l, minsert_by sizeN x l = insert_by sz x l.
Proof using.
  clear Hn HL1 HL HP1 Hfx.
  intros x. induction l as [|y l IH]; [reflexivity|]. cbn [minsert_by insert_by].
  replace (sizeN x <=? sizeN y)%N with (sz x <=? sz y).
  - rewrite IH. reflexivity.
  - unfold C06_MachineProofs.sz.
    destruct (N.leb_spec (sizeN x) (sizeN y)); destruct (Nat.leb_spec (N.to_nat (sizeN x)) (N.to_nat (sizeN y))); try reflexivity; lia.
Qed.
Lemma msort_by_eq : forall l, msort_by sizeN l = sort_by sz l.
Proof using.
  induction l as [|x l IH]; [reflexivity|]. cbn [msort_by sort_by]. rewrite IH. apply minsert_by_eq.
Qed.

(** find_subsequences_of_max_size_k *)
Section Sub.
Context (sb : list A).
Hypothesis Hsb : bnd sb.
Notation len := (length sb).
Notation szf := (fun s e => limit sz ty (slice sb s e)).
Notation kk := effL.

Definition pairN (q : nat * nat) : N * N := (N.of_nat (fst q), N.of_nat (snd q)).
Definition olift (r : option (list (nat * nat))) : mres (list (N * N)) :=
  match r with Some l => MOk (map pairN l) | None => MErr OutOfFuel end.

Lemma len_ok : (N.of_nat len + 2 < W)%N.
Proof. destruct Hsb as [H _]. lia. Qed.

Lemma msz_eq : forall site s e, s <= e -> e <= len ->
  msz sizeN p fixed ty sb site (N.of_nat s) (N.of_nat e) = MOk (N.min (N.of_nat (szf s e)) UMAX).
Proof.
  intros site s e Hse He. unfold msz.
  replace ((N.of_nat s <=? N.of_nat e)%N) with true by (symmetry; apply N.leb_le; lia).
  replace ((N.of_nat e <=? N.of_nat len)%N) with true by (symmetry; apply N.leb_le; lia).
  cbn [andb]. rewrite !Nat2N.id, mlim_from_conv. apply mlim_val_bnd. apply bnd_slice. exact Hsb.
Qed.

Lemma msz1_eq : forall s, s < len ->
  msz1 sizeN p fixed ty sb (N.of_nat s) = MOk (N.min (N.of_nat (szf s (S s))) UMAX).
Proof.
  intros s Hs. unfold msz1.
  replace ((N.of_nat s <? N.of_nat len)%N) with true by (symmetry; apply N.ltb_lt; lia).
  rewrite !Nat2N.id, mlim_from_conv. apply mlim_val_bnd. apply bnd_slice. exact Hsb.
Qed.

Lemma szf_le_X : forall s e, (N.of_nat (szf s e) <= X)%N.
Proof. intros s e. apply val_le_X. apply bnd_slice. exact Hsb. Qed.

Lemma mff_eq : forall rem start fuel, start + rem = len -> rem <= fuel ->
  mff sizeN p fixed ty sb LN fuel (N.of_nat start) = MOk (N.of_nat (ff_start szf kk rem start)).
Proof.
  pose proof len_ok as Hlen.
  induction rem as [|r IH]; intros start fuel Hs Hf.
  - cbn [ff_start]. destruct fuel; cbn [mff];
      replace ((N.of_nat start <? N.of_nat len)%N) with false by (symmetry; apply N.ltb_ge; lia); reflexivity.
  - destruct fuel as [|f]; [lia|]. cbn [mff ff_start].
    replace ((N.of_nat start <? N.of_nat len)%N) with true by (symmetry; apply N.ltb_lt; lia).
    rewrite msz1_eq by lia. cbn [mbind].
    rewrite (cmp_limit LN X _ HL (szf_le_X start (S start))).
    destruct (kk <? limit sz ty (slice sb start (S start))); [|reflexivity].
    rewrite madd_ok by lia. cbn [mbind].
    replace (N.of_nat start + 1)%N with (N.of_nat (S start)) by lia.
    apply IH; lia.
Qed.

Lemma olift_cons : forall q r,
  (do l <- olift r; MOk (pairN q :: l)) = olift (option_map (cons q) r).
Proof. intros q [l|]; reflexivity. Qed.

Lemma mfs_loop_eq : forall fuel s e prev,
  LoopInv szf kk len s e prev -> (N.of_nat prev <= X)%N ->
  mfs_loop sizeN p fixed ty sb LN fuel (N.of_nat s) (N.of_nat e) (N.min (N.of_nat prev) UMAX)
  = olift (fs_loop szf kk len fuel s e prev).
Proof.
  pose proof len_ok as Hlen.
  induction fuel as [|f IH]; intros s e prev (Hse & Hs & He & Hprev) Hpx; [reflexivity|].
  cbn [mfs_loop fs_loop].
  replace ((N.of_nat s <? N.of_nat len)%N) with (s <? len)
    by (destruct (N.ltb_spec (N.of_nat s) (N.of_nat len)); destruct (Nat.ltb_spec s len); try reflexivity; lia).
  replace ((N.of_nat e <=? N.of_nat len)%N) with (e <=? len)
    by (destruct (N.leb_spec (N.of_nat e) (N.of_nat len)); destruct (Nat.leb_spec e len); try reflexivity; lia).
  destruct ((s <? len) && (e <=? len)) eqn:Ec; [|reflexivity].
  apply andb_true_iff in Ec. destruct Ec as [Es Ee].
  apply Nat.ltb_lt in Es. apply Nat.leb_le in Ee.
  rewrite msz_eq by lia. cbn [mbind].
  rewrite (cmp_limit_le LN X _ HL (szf_le_X s e)).
  destruct (limit sz ty (slice sb s e) <=? kk) eqn:Ecur.
  - (* (_, true) *)
    apply Nat.leb_le in Ecur.
    rewrite madd_ok by lia. cbn [mbind].
    replace (N.of_nat e + 1)%N with (N.of_nat (S e)) by lia.
    rewrite IH.
    + replace ((N.of_nat len <=? N.of_nat e)%N) with (len <=? e)
        by (destruct (N.leb_spec (N.of_nat len) (N.of_nat e)); destruct (Nat.leb_spec len e); try reflexivity; lia).
      destruct (fs_loop szf kk len f s (S e) (limit sz ty (slice sb s e))) as [l|]; cbn [olift mbind option_map];
        destruct (len <=? e); reflexivity.
    + unfold LoopInv. repeat split; try lia.
      intros _. left. replace (S e - 1) with e by lia. split; [reflexivity|lia].
    + apply szf_le_X.
  - apply Nat.leb_gt in Ecur.
    rewrite (cmp_limit_le LN X _ HL Hpx).
    destruct (prev <=? kk) eqn:Ep.
    + (* (true, false) *)
      apply Nat.leb_le in Ep.
      assert (Hlt : s < e - 1) by (destruct (Hprev Ep) as [[_ Hlt]|Hpv]; [exact Hlt|lia]).
      rewrite msub_ok by lia. cbn [mbind].
      rewrite madd_ok by lia. cbn [mbind].
      replace (N.of_nat s + 1)%N with (N.of_nat (S s)) by lia.
      rewrite IH.
      * replace (N.of_nat s, N.of_nat e - 1)%N with (pairN (s, e - 1)) by (unfold pairN; cbn [fst snd]; f_equal; lia).
        apply olift_cons.
      * unfold LoopInv. repeat split; try lia.
      * apply szf_le_X.
    + (* (false, false) *)
      rewrite madd_ok by lia. cbn [mbind].
      rewrite madd_ok by lia. cbn [mbind].
      replace (N.of_nat s + 1)%N with (N.of_nat (S s)) by lia.
      replace (N.max (N.of_nat e) (N.of_nat (S s) + 1))%N with (N.of_nat (Nat.max e (S (S s)))) by lia.
      apply IH.
      * unfold LoopInv. repeat split; try lia.
      * apply szf_le_X.
Qed.

Lemma mfind_subseq_eq :
  mfind_subseq sizeN p fixed ty sb LN = olift (find_subseq szf kk len).
Proof.
  pose proof len_ok as Hlen.
  unfold mfind_subseq, find_subseq.
  change 0%N with (N.of_nat 0). rewrite (mff_eq len 0 len) by lia. cbn [mbind].
  pose proof (ff_start_spec szf kk len len 0 eq_refl) as [Hle Hfit]. cbn zeta in Hle, Hfit.
  set (s := ff_start szf kk len 0) in *.
  replace ((N.of_nat len <=? N.of_nat s)%N) with (len <=? s)
    by (destruct (N.leb_spec (N.of_nat len) (N.of_nat s)); destruct (Nat.leb_spec len s); try reflexivity; lia).
  destruct (len <=? s) eqn:E; [reflexivity|].
  apply Nat.leb_gt in E.
  rewrite madd_ok by lia. cbn [mbind].
  replace (N.of_nat s + 1)%N with (N.of_nat (S s)) by lia.
  rewrite msz_eq by lia. cbn [mbind].
  apply mfs_loop_eq; [|apply szf_le_X].
  unfold LoopInv. repeat split; try lia.
Qed.
End Sub.
End Components.

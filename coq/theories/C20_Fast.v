(** C20 with the fast edit distance (topic R): [run_C20f] / [check_C20f] / [agree_C20f] of C20_Float.v computed with the
    binary-number dynamic programme of C12_Fast.v ([distance_f] instead of C12_Model.distance), the distances of one
    query computed once per dictionary instead of twice.  Proved equal to the pinned definitions for every input, so
    that what C20_Extract.v extracts is what C20_Props.v / C20_FloatProps.v speak about.  Keys of thousands of
    clusters become affordable (the unary model needed 34 s for one 8192-cluster key). *)
From Coq Require Import ZArith List Bool QArith.
From TU Require Import Base C12_Model C12_Float C12_Fast C20_Model C20_Words C20_Bytes C20_Float.
Import ListNotations.
Open Scope N_scope.

(** * definitions *)
Definition distance_fl_f (fl : flags) (nm : bool) (a b : list cluster) : f64 := q_fl (distance_f fl nm a b).

Definition dists_fl_f (norm : bool) (q : list bytes) (d : dict) : list f64 :=
  map (fun e : word * N => distance_fl_f nofl norm q (seg_key (fst e))) d.

(** [closest_fl] on distances already computed *)
Definition closest_of (ds : list f64) (d : dict) : cres :=
  match d with
  | [] => CNone
  | _ => match pass1_fl (combine ds d) f64_inf [] with
         | [] => CNone
         | t :: ts => CSome (pass2 t ts)
         end
  end.

Definition answer_fv_f (d : dict) (q : query) : val :=
  let fs := freq_sum d in
  let ds := dists_fl_f (fst q) (snd (snd q)) d in
  L [ get_fv fs (get (fst (snd q)) d);
      closest_fv fs (closest_of ds d);
      list_v fl_v (firstn dists_cap ds) ].

Definition run_C20f_f (v : val) : val :=
  match run_C20 (modelize (prep0 v)) with
  | L [creates; reload; loaded; _] =>
    L [creates; reload; loaded;
       match loaded_dict v with
       | Some d => list_v (answer_fv_f d) (prep_queries v)
       | None => L []
       end]
  | x => x
  end.

Definition kdist_m_f (norm : bool) (q : list bytes) (e : word * N) : Q := distance_f nofl norm q (seg_key (fst e)).
Definition check_closest_m_f (d : dict) (q : query) (a : val) : bool :=
  match d with
  | [] => match a with L [_; L []] => true | _ => false end
  | _ =>
    let l := map (fun e => (kdist_m_f (fst q) (snd (snd q)) e, e)) d in
    match a with
    | L [_; L [L [w; I f]]] =>
      let w := v_bytes w in
      let f := Z.to_N f in
      match find (fun p : Q * (word * N) => bytes_eqb (fst (snd p)) w && (snd (snd p) =? f)) l with
      | None => false
      | Some (dw, _) =>
        forallb (fun p : Q * (word * N) =>
                   Qle_bool dw (fst p) && (if Qeq_bool (fst p) dw then snd (snd p) <=? f else true)) l
      end
    | _ => false
    end
  end.

Definition check_C20f_f (v out : val) : bool :=
  check_C20u (prep0 v) (strip0 out)
  && match out with
     | L [_; _; loaded; L answers] =>
       match loaded with
       | L [] => match answers with [] => true | _ => false end
       | _ => match v_lres loaded with
              | Some (d, fs) =>
                all2b (fun q a => check_closest_m_f d q (strip_answer a)) (prep_queries v) answers
                && forallb (rel_ok fs) answers
              | None => false
              end
       end
     | _ => false
     end.

Definition agree_C20f_f (v m i : val) : bool :=
  agree_C20 (modelize (prep0 v)) (strip0 m) (strip0 i)
  && uax29_agree v && ucd_agree v && reader_agree v && query_agree v
  && match i with
     | L [_; _; L [L [ii; _]]; L ia] => val_eqb (L ia) (list_v (answer_fv_f (v_items ii)) (prep_queries v))
     | L [_; _; L []; L ia] => match ia with [] => true | _ => false end
     | _ => false
     end.

(** * proofs *)
Lemma distance_fl_f_eq fl nm a b : distance_fl_f fl nm a b = distance_fl fl nm a b.
Proof. unfold distance_fl_f, distance_fl. rewrite distance_f_eq. reflexivity. Qed.

Lemma dists_fl_f_eq norm q d : dists_fl_f norm q d = dists_fl norm q d.
Proof. unfold dists_fl_f, dists_fl. apply map_ext. intros e. apply distance_fl_f_eq. Qed.

Lemma closest_of_eq norm q d : closest_of (dists_fl norm q d) d = closest_fl norm q d.
Proof. reflexivity. Qed.

Lemma answer_fv_f_eq d q : answer_fv_f d q = answer_fv d q.
Proof.
  unfold answer_fv_f, answer_fv. cbv zeta. rewrite dists_fl_f_eq, closest_of_eq.
  unfold dists_fl. rewrite firstn_map. reflexivity.
Qed.

Lemma list_v_ext {A} (f g : A -> val) l : (forall x, f x = g x) -> list_v f l = list_v g l.
Proof. intros H. unfold list_v. f_equal. apply map_ext. exact H. Qed.

Lemma run_C20f_f_eq v : run_C20f_f v = run_C20f v.
Proof.
  unfold run_C20f_f, run_C20f.
  destruct (loaded_dict v) as [d|]; [|reflexivity].
  rewrite (list_v_ext (answer_fv_f d) (answer_fv d)) by (intros; apply answer_fv_f_eq). reflexivity.
Qed.

Lemma check_closest_m_f_eq d q a : check_closest_m_f d q a = check_closest_m d q a.
Proof.
  unfold check_closest_m_f, check_closest_m, kdist_m_f, kdist_m.
  destruct d as [|e d]; [reflexivity|]. cbv zeta.
  rewrite (map_ext (fun e0 => (distance_f nofl (fst q) (snd (snd q)) (seg_key (fst e0)), e0))
                   (fun e0 => (distance nofl (fst q) (snd (snd q)) (seg_key (fst e0)), e0)))
    by (intros; rewrite distance_f_eq; reflexivity).
  reflexivity.
Qed.

Lemma all2b_ext {A B} (f g : A -> B -> bool) : (forall x y, f x y = g x y) ->
  forall l r, all2b f l r = all2b g l r.
Proof.
  intros H. induction l as [|x l IH]; intros [|y r]; try reflexivity.
  cbn [all2b]. rewrite H, IH. reflexivity.
Qed.

Lemma check_C20f_f_eq v out : check_C20f_f v out = check_C20f v out.
Proof.
  unfold check_C20f_f, check_C20f. f_equal.
  destruct out as [z|l]; [reflexivity|].
  destruct l as [|x0 [|x1 [|loaded [|[z|answers] [|]]]]]; try reflexivity.
  destruct loaded as [z|[|y ys]]; try reflexivity;
    destruct (v_lres _) as [[d fs]|]; try reflexivity; f_equal; apply all2b_ext; intros; apply check_closest_m_f_eq.
Qed.

Lemma agree_C20f_f_eq v m i : agree_C20f_f v m i = agree_C20f v m i.
Proof.
  unfold agree_C20f_f, agree_C20f. f_equal.
  destruct i as [z|l]; [reflexivity|].
  destruct l as [|x0 [|x1 [|loaded [|[z|ia] [|]]]]]; try reflexivity.
  destruct loaded as [z|[|[z|[|ii [|x [|]]]] [|]]]; try reflexivity.
  rewrite (list_v_ext (answer_fv_f (v_items ii)) (answer_fv (v_items ii))) by (intros; apply answer_fv_f_eq).
  reflexivity.
Qed.

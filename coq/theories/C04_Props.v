(** C04 — pinned statements. *)
From TU Require Import Base C01_Model C04_Model C04_Proofs.
Open Scope N_scope.

Theorem vocab_len : forall t, N.of_nat (length (get_vocab t)) = vocab_size t.
Proof. exact vocab_len_l. Qed.
Print Assumptions vocab_len.

(** C04 — pinned statements. [build q = Some t]: the constructor of the byte (kind 0), character (1) or
    BPE (2) tokenizer succeeded on configuration [q]; [None] is the constructor error (pad / prefix /
    suffix token not among the special tokens). The merge table of a BPE configuration is given in id
    order (well-formed: distinct keys, ids 0..n-1). *)
From TU Require Import Base C01_Model C01_Proofs C04_Model C04_Proofs C04_Check
  MsgPack_Model C04_File C04_FileProofs.
From Coq Require Import Permutation.
Open Scope N_scope.

(** get_vocab has exactly vocab_size entries. *)
Theorem vocab_len : forall t, N.of_nat (length (get_vocab t)) = vocab_size t.
Proof. exact vocab_len_l. Qed.
Print Assumptions vocab_len.

(** id_to_token(id) = get_vocab()[id] (and is defined) for every id below vocab_size, None from vocab_size on. *)
Theorem id_to_token_spec : forall q t id, build q = Some t ->
  (id < vocab_size t -> id_to_token t id = nth_error (get_vocab t) (N.to_nat id)
                        /\ exists tok, id_to_token t id = Some tok)
  /\ (vocab_size t <= id -> id_to_token t id = None).
Proof. intros q t id Hb. apply id_to_token_spec_l. eapply build_Built; eauto. Qed.
Print Assumptions id_to_token_spec.

(** token_to_id maps every UTF-8 token of the vocabulary back to its id, provided the regular tokens are
    pairwise distinct, merges have at least two bytes, and no special token is spelled like a regular token. *)
Theorem token_to_id_spec : forall q t id tok s, build q = Some t ->
  WF t -> Disjoint t -> Forall (fun x => scalars x = true) (k_sv t) -> scalars (k_A t) = true ->
  nth_error (get_vocab t) (N.to_nat id) = Some tok -> utf8_decode tok = Some s ->
  token_to_id t s = Some id.
Proof. intros q t id tok s Hb. apply token_to_id_spec_l. eapply build_Built; eauto. Qed.
Print Assumptions token_to_id_spec.

(** "tok is valid UTF-8" ([String::from_utf8] succeeds with [s]) means exactly: [tok] is the encoding of the scalar string [s]. *)
Theorem utf8_decode_sound : forall l s, utf8_decode l = Some s -> utf8s s = l /\ scalars s = true.
Proof. exact utf8_decode_inv. Qed.
Print Assumptions utf8_decode_sound.

(** pad, prefix, suffix and unknown ids lie inside the vocabulary and after every regular id. *)
Theorem special_range : forall q t, build q = Some t ->
  n_reg t <= b_pad (k_base t) < vocab_size t
  /\ Forall (fun i => n_reg t <= i < vocab_size t) (b_pre (k_base t))
  /\ Forall (fun i => n_reg t <= i < vocab_size t) (b_suf (k_base t))
  /\ (k_kind t = 1 -> exists u, unk_id t (q_unk q) = Some u /\ n_reg t <= u < vocab_size t)
  /\ (k_kind t <> 1 -> unk_id t (q_unk q) = None).
Proof. exact special_range_l. Qed.
Print Assumptions special_range.

(** every special token has exactly one id, it is n_reg + its position: the vocabulary is the regular tokens
    followed by the special tokens, and the special-id map is a bijection onto [n_reg, vocab_size). *)
Theorem specials_after_regular : forall q t, build q = Some t ->
  get_vocab t = k_reg t ++ map utf8s (k_sv t) /\ b_off (k_base t) = n_reg t /\ NoDup (k_sv t)
  /\ forall s i, sp_id (b_off (k_base t)) (k_sv t) s = Some i <-> sp_tok (b_off (k_base t)) (k_sv t) i = Some s.
Proof.
  intros q t Hb. pose proof (build_Built _ _ Hb) as (Hoff & Hnd & _).
  split; [reflexivity|]. split; [exact Hoff|]. split; [exact Hnd|]. intros s i. split.
  - intros H. apply sp_id_tok in H. tauto.
  - apply sp_tok_id. exact Hnd.
Qed.
Print Assumptions specials_after_regular.

(** decoding a single regular id yields exactly that token's bytes (as a string; an error iff they are not UTF-8). *)
Theorem decode_single : forall q t id, build q = Some t -> scalars (k_A t) = true -> id < n_reg t ->
  decode_ids t [id] false = obind (nth_error (k_reg t) (N.to_nat id)) utf8_decode
  /\ nth_error (get_vocab t) (N.to_nat id) = nth_error (k_reg t) (N.to_nat id).
Proof.
  intros q t id Hb HA Hlt. split; [apply decode_single_l; [eapply build_Built; eauto|exact HA|exact Hlt]|].
  apply vocab_nth_reg. exact Hlt.
Qed.
Print Assumptions decode_single.

(** max_vocab_size truncation keeps a prefix of the merge table. *)
Theorem bpe_keep_prefix : forall maxv ntok merges, exists r, merges = bpe_keep maxv ntok merges ++ r.
Proof.
  intros [m|] ntok merges; cbn [bpe_keep]; [|exists []; symmetry; apply app_nil_r].
  eexists. symmetry. apply firstn_skipn.
Qed.
Print Assumptions bpe_keep_prefix.

Theorem premises_sound : forall t, (wfb t = true -> WF t) /\ (disjointb t = true -> Disjoint t).
Proof. intros t. split; [apply wfb_spec|apply disjointb_spec]. Qed.
Print Assumptions premises_sound.

(** The executable statement evaluated on every implementation output holds of the model's own output. *)
Theorem check_run : forall v, check_C04 v (run_C04 v) = true.
Proof. exact check_run_l. Qed.
Print Assumptions check_run.

(** Non-vacuity: a BPE tokenizer with table {ab:0, abc:1, cd:2}, max_vocab_size 262 (keeps two merges),
    four special tokens: premises hold, ids 256/257 are the merges, 258.. the specials. *)
Example bpe_witness :
  let q := {| q_kind := 2; q_padto := None;
              q_tokens := [[60;117;110;107;62];[60;98;111;115;62];[60;101;111;115;62];[60;112;97;100;62]];
              q_pad := [60;112;97;100;62]; q_prefix := [[60;98;111;115;62]]; q_suffix := [];
              q_unk := []; q_alpha := []; q_merges := [[97;98];[97;98;99];[99;100]]; q_maxv := Some 262 |} in
  exists t, build q = Some t /\ wfb t = true /\ disjointb t = true /\ vocab_size t = 262
    /\ id_to_token t 256 = Some [97;98] /\ id_to_token t 257 = Some [97;98;99]
    /\ id_to_token t 258 = Some [60;117;110;107;62] /\ id_to_token t 262 = None
    /\ token_to_id t [97;98;99] = Some 257 /\ token_to_id t [99;100] = None
    /\ b_pad (k_base t) = 261 /\ b_pre (k_base t) = [259].
Proof. cbv zeta. eexists. split; [vm_compute; reflexivity|]. vm_compute. repeat split. Qed.

(** * The merge file in the correspondence (third session; MsgPack_Model.v, MsgPack_Props.v, C04_File.v) *)

(** The executable statement on the eleven fields is true of the model's output. *)
Theorem check_run_f : forall v, check_C04f v (run_C04 v) = true.
Proof. exact check_run_C04f_l. Qed.
Print Assumptions check_run_f.

(** An accepted correspondence on a BPE case: the eleven fields are the model's, and the merge file the tokenizer was
    built from is [mp_encode] of the input's merges (id = position) in some order, nothing behind, the merges are
    distinct, the file loads as exactly these merges, and the real [MergeOps::load] read these entries. *)
Theorem agree_file_sound : forall v m a0 a1 a2 a3 a4 a5 a6 a7 a8 a9 a10 fb lv,
  agree_C04f v m (L [a0; a1; a2; a3; a4; a5; a6; a7; a8; a9; a10; fb; lv]) = true ->
  m = L [a0; a1; a2; a3; a4; a5; a6; a7; a8; a9; a10] /\
  exists es, v_list v_n fb = mp_encode es /\ mp_parse (v_list v_n fb) = Some (es, []) /\
             Permutation es (entries_of_table (in_merges v)) /\ NoDup (in_merges v) /\
             load_table (v_list v_n fb) = Loaded (in_merges v) /\ v_entries lv = sort_items es.
Proof. exact agree_C04f_sound_l. Qed.
Print Assumptions agree_file_sound.

Example ex_agree_file : forall a0 a1 a2 a3 a4 a5 a6 a7 a8 a9 a10,
  let v := L [I 2; L []; L []; L []; L []; L []; L []; L []; L [L [I 97; I 98]; L [I 97; I 98; I 99]]; L []; L []] in
  let i := L [a0; a1; a2; a3; a4; a5; a6; a7; a8; a9; a10; L [I 130; I 147; I 97; I 98; I 99; I 1; I 146; I 97; I 98; I 0];
              L [L [I 0; L [I 97; I 98]]; L [I 1; L [I 97; I 98; I 99]]]] in
  saved_agree (in_merges v) (v_nth 11 i) (v_nth 12 i) = true.
Proof. intros. vm_compute. reflexivity. Qed.

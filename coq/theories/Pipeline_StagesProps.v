(** Pipeline, part 4 — pinned statements about the stages that were opaque in C08 until topic N (Pipeline_Stages.v):
    SpellingCorruption in every mode, JsonDecode and ChatDecode as entries of a stage table, TokenMasking with the
    Geometric sampler of RNG_Geometric.  Nothing but statements, [exact], audits. *)
From TU Require Import RNG_Model RNG_Proofs RNG_Geometric.
From TU Require Import Base C01_Model UCD_Model C15_Model C15_Seeded C15_Tables C15_Spell C15_SpellProofs.
From TU Require Import JSON_Model Pipeline_Model Pipeline_Tasks Pipeline_TasksProofs C08_Model C08_EndToEnd C08_Pipeline C08_Bytes.
From TU Require Import Pipeline_Stages Pipeline_StagesProofs.
Local Open Scope nat_scope.

(** THE PURITY ASSUMPTION OF C08 IS A THEOREM FOR EVERY CONFIGURATION: whatever the two trees and the two stage tables
    hold — SpellingCorruption with its dictionary and misspellings, JsonDecode, ChatDecode, TokenMasking — the closure
    [train_pipeline] returns is a function of (configurations, tables, max_length, item, seed, incoming marks); the file
    index is irrelevant.  No premise "no unmodelled stage" is left. *)
Theorem pipeline_pure_all_stages : forall st qs c t q maxlen x i i',
  i_seed i = i_seed i' -> i_marks i = i_marks i' ->
  pipeline_t (opq_tab st) (qopq_tab qs) (PGlobal c) t (QGlobal q) maxlen x i =
  pipeline_t (opq_tab st) (qopq_tab qs) (PGlobal c) t (QGlobal q) maxlen x i'.
Proof. exact pipeline_tab_function_of_seed. Qed.
Print Assumptions pipeline_pure_all_stages.

(** ... and at the loader: a delivered item with index i is the pipeline's value for the line at generator position i
    with item seed  seed + epoch + i, for EVERY file index — whatever rank / world / skip / limit / offset delivers it *)
Theorem stage_item_function_of_position : forall st qs c tk q maxlen seed epoch data lim skip ff rank W i t,
  In (i, t) (loader_items data (g_fn (pipe_res_t (opq_tab st) (qopq_tab qs) (PGlobal c) tk (QGlobal q) maxlen seed epoch))
                          lim skip ff rank W) ->
  exists fl line, nth i data None = Some (fl, line) /\
    forall fl', pipeline_t (opq_tab st) (qopq_tab qs) (PGlobal c) tk (QGlobal q) maxlen line (item_info seed epoch i fl')
                = ROk t.
Proof. exact stage_item_by_position. Qed.
Print Assumptions stage_item_function_of_position.

(** the premise is met: three positions (the first no item), a realistic spelling stage ("ab" -> "xy" | "z") and a
    TokenMasking stage (p = 0.5, mask token <unk> = 256), generation task, seed 7: the loader delivers positions 1 and 2,
    "ab c ab c" became "xy c z c", and ids of both items are masked *)
Definition ex_tok : base := {| b_off := 256; b_sv := [[60;117;110;107;62]; [60;112;97;100;62]]%N; b_pre := []; b_suf := []; b_pad := 257%N |}.
Definition ex_st : list stage := [SSpell PInput g_one true (MRealistic [([97;98], [[120;121]; [122]])]%N)].
Definition ex_qs : list qstage := [mk_qs ex_tok (Fin 4503599627370496 (-53)) 1 FInf [60;117;110;107;62]%N].
Definition ex_data : list (option (nat * item)) :=
  [None; Some (0, mk_item [97;98;32;99;32;97;98;32;99]%N [97;98]%N); Some (1, mk_item [99;99;99;99;99;99]%N [99]%N)].
Definition ex_items : list (nat * xitem) :=
  loader_items ex_data
    (g_fn (pipe_res_t (opq_tab ex_st) (qopq_tab ex_qs) (PGlobal (COpaque 0)) (TGen false ex_tok true None)
                      (QGlobal (QOpaque 0)) 512 7 0)) 10 0 0 0 1.
Example stage_loader_example : exists t1 t2, ex_items = [(1, t1); (2, t2)] /\
  it_in (x_data t1) = [120;121;32;99;32;122;32;99]%N /\
  tin_ids (x_in t1) = [256;121;32;99;32;122;256;99;256]%N /\ tin_ids (x_in t2) = [256;256;99;99;99;256]%N.
Proof. eexists _, _. vm_compute. repeat split. Qed.

(** the generic form: any two opaque-stage functions that do not read the file index *)
Theorem pipeline_pure_generic :
  forall (opq : nat -> item -> info -> res (item * info)) (qopq : nat -> xitem -> info -> res (xitem * info)),
  (forall id x i fl, opq id x (set_file fl i) = rmap (snd_file fl) (opq id x i)) ->
  (forall id x i fl, qopq id x (set_file fl i) = rmap (snd_file fl) (qopq id x i)) ->
  forall c t q maxlen x i i', i_seed i = i_seed i' -> i_marks i = i_marks i' ->
  pipeline_t opq qopq (PGlobal c) t (QGlobal q) maxlen x i = pipeline_t opq qopq (PGlobal c) t (QGlobal q) maxlen x i'.
Proof. exact pipeline_function_of_seed_g. Qed.
Print Assumptions pipeline_pure_generic.

(** * TokenMasking *)
(** the stage never returns an Err (the loader never drops an item here); an Ok result has the same data and info, the
    same variant, labels and paddings, the same number of token ids, and the ids differ from the old ones only at
    positions strictly between the masking tokenizer's prefix and suffix tokens, where they hold the mask token's id *)
Theorem mask_stage_only_masks : forall q x i,
  match mask_stage q x i with
  | ROk (x', i') =>
      i' = i /\ x_data x' = x_data x /\ same_but_ids (x_in x) (x_in x') /\
      exists mid, byte_token_to_id (qs_b q) (qs_tok q) = Some mid /\
        masked_of (length (b_pre (qs_b q)))
                  (length (tin_ids (x_in x)) - length (b_pre (qs_b q)) - length (b_suf (qs_b q)))
                  mid (tin_ids (x_in x)) (tin_ids (x_in x'))
  | RErr _ => False
  | RPanic _ => True
  end.
Proof. exact mask_stage_spec. Qed.
Print Assumptions mask_stage_only_masks.

(** what the batcher counts (TrainTaskInput::len) is unchanged *)
Theorem mask_stage_keeps_size : forall q x i x' i', mask_stage q x i = ROk (x', i') -> tin_len (x_in x') = tin_len (x_in x).
Proof. exact mask_stage_len. Qed.
Print Assumptions mask_stage_keeps_size.

(** J's [postprocessing_only_cuts] for EVERY postprocessing configuration over the TokenMasking table (by induction over the
    nested configuration): the result is never an Err — the loader never drops an item in the postprocessing —, info and
    data come back unchanged, the variant is kept, and no sequence gets longer (ClipLength shortens, TokenMasking keeps
    every length): the size the batcher sees can only shrink *)
Theorem postprocessing_never_drops_or_grows : forall qs maxlen c, qrefs_ok (length qs) c = true ->
  forall x i, post_rel2 x i (postproc (qopq_tab qs) maxlen c x i).
Proof. exact postproc_rel2. Qed.
Print Assumptions postprocessing_never_drops_or_grows.

(** the premise is met: TokenMasking (entry 0 of [ex_qs] below) followed by ClipLength with max_length 4 on six token ids *)
Example postprocessing_example :
  qrefs_ok 1 (QChain [QOpaque 0; QClip]) = true /\
  exists ids, postproc (qopq_tab [mk_qs {| b_off := 256; b_sv := [[60;117;110;107;62]]%N; b_pre := []; b_suf := []; b_pad := 256%N |}
                                        (Fin 4503599627370496 (-53)) 1 FInf [60;117;110;107;62]%N])
                       4 (QChain [QOpaque 0; QClip])
                       (mk_xitem (mk_item [] []) (TIGen [99;99;99;99;99;99]%N 256%N [1;2;3;4;5;6]%Z)) (mk_info 7 0 [])
              = ROk (mk_xitem (mk_item [] []) (TIGen ids 256%N [1;2;3;4]%Z), mk_info 7 0 []) /\ length ids = 4.
Proof. split; [reflexivity|]. eexists. split; vm_compute; reflexivity. Qed.

(** the masking loop is TOTAL: with min_tokens >= 1 (the constructor's assertion) and at least two maskable tokens every
    round makes progress, so with fuel > nm - i the loop can only answer "fuel" when the SAMPLER does (the only loop left
    on fuel is the sampler's, RNG_GeometricProps.geo_sample_fuel_irrelevant) *)
Theorem mask_loop_never_out_of_fuel : forall fuel g p' mn nm npfx mid i ids st,
  (1 <= mn)%N -> 2 <= nm -> nm - i < fuel ->
  mask_loop fuel g p' mn nm npfx mid i ids st = MkFuel ->
  exists st', geo_sample geo_fuel g st' = GSFuel.
Proof. exact mask_loop_total. Qed.
Print Assumptions mask_loop_never_out_of_fuel.

(** A KNOWN ANSWER OF THE REAL CRATES (harness, line -7): byte tokenizer with suffix <eos> <pad>, p = the binary64 value
    just below 2/3 (the Bringmann–Friedrich branch, k = 1), min_tokens 1, num_tokens_prob +inf, mask token "\0" (id 0),
    22 token ids, seed 48176 *)
Definition ex_mask_q : qstage :=
  mk_qs {| b_off := 256; b_sv := [[60;117;110;107;62]; [60;98;111;115;62]; [60;101;111;115;62]; [60;112;97;100;62]]%N;
           b_pre := []; b_suf := [258; 259]%N; b_pad := 259%N |}
        (Fin 6004799503160660 (-53)) 1 FInf [0%N].
Example mask_known_answer :
  mask_stage ex_mask_q (mk_xitem (mk_item [] []) (TISeq (map N.of_nat (seq 1000 22)) 0%N [])) (mk_info 48176 0 [])
  = ROk (mk_xitem (mk_item [] [])
                  (TISeq [0;0;1002;1003;1004;1005;1006;1007;1008;0;0;0;0;1013;1014;0;0;0;1018;1019;1020;1021]%N 0%N []),
         mk_info 48176 0 []).
Proof. vm_compute. reflexivity. Qed.

(** * SpellingCorruption, every mode *)
(** inside C15's domain (positive probability, sane dictionary entries, no empty list of misspellings, sizes below the
    machine limits) the stage returns a text for every seed: never an Err (the loader never drops an item here), never
    a panic — C15's [spell_text_total] at the stage *)
Theorem spell_stage_x_never_fails : forall prob fd m seed s,
  dom_ok (smode_no m) fd prob (smode_items m) (smode_miss m) s = true ->
  exists t, spell_x prob fd m seed s = ROk t.
Proof. exact spell_x_defined. Qed.
Print Assumptions spell_stage_x_never_fails.

(** what it returns — C15's [spell_text_spec] at the stage: the whitespace-separated words in order, joined by ONE space;
    each word is itself, a misspelling of it (or of one of its regex parts, spliced in), or the end of a chain of
    edit_word calls under the mode's edit tables; dropped when nothing is left *)
Theorem spell_stage_x_output : forall prob fd m seed s t,
  (has_tables (smode_no m) = true -> items_sane (smode_items m) = true) ->
  spell_x prob fd m seed s = ROk t ->
  exists wc os, mode_cfg (smode_no m) fd (smode_items m) = Some wc /\
                Forall2 (word_result_t wc (mode_miss (smode_no m) (smode_miss m))) (split_ws s) os /\
                t = join_sp (keep_some os).
Proof. exact spell_x_words. Qed.
Print Assumptions spell_stage_x_output.

(** a constructor that accepts never yields one of the constructor's panics at a call *)
Theorem spell_ctor_accepts : forall prob fd m seed s, spell_ctor_ok prob m = true ->
  spell_text (smode_no m) fd prob (smode_pc m) (smode_art m) (smode_items m) (smode_miss m) seed s <> SpPanicProb /\
  spell_text (smode_no m) fd prob (smode_pc m) (smode_art m) (smode_items m) (smode_miss m) seed s <> SpPanicKey.
Proof. exact spell_ctor_run. Qed.
Print Assumptions spell_ctor_accepts.

(** realistic mode: "ab c", misspellings ab -> {xy, z}; every word is hit (probability 1.0); seed 3 *)
Example spell_x_example :
  dom_ok 1 true g_one [] [([97;98], [[120;121]; [122]])]%N [97;98;32;99]%N = true /\
  exists t, spell_x g_one true (MRealistic [([97;98], [[120;121]; [122]])]%N) 3 [97;98;32;99]%N = ROk t /\ t <> [97;98;32;99]%N.
Proof. split; [vm_compute; reflexivity|]. eexists. split; [vm_compute; reflexivity|discriminate]. Qed.

(** the misspellings file read from its bytes: a key given twice keeps its LAST list ([HashMap::insert]), the other keys are
    untouched *)
Theorem missp_last_wins : forall m k v,
  miss_lookup (miss_put k v m) k = Some v /\
  forall w, nlist_eqb w k = false -> miss_lookup (miss_put k v m) w = miss_lookup m w.
Proof. exact miss_put_spec. Qed.
Print Assumptions missp_last_wins.

(** the bytes  {"ab": ["first"], "c": [], "ab":["xy" , "z"]}  (a key twice, whitespace) give ab -> [xy; z], c -> [];
    a file whose value is no list of strings, and one with invalid UTF-8, are refused *)
Example missp_of_bytes_example :
  missp_of_bytes [123;34;97;98;34;58;32;91;34;102;105;114;115;116;34;93;44;32;34;99;34;58;32;91;93;44;32;34;97;98;34;58;91;34;120;121;34;32;44;32;34;122;34;93;125]%N
  = Some [([97;98], [[120;121]; [122]]); ([99], [])]%N
  /\ missp_of_bytes [123;34;97;34;58;91;49;93;125]%N = None
  /\ missp_of_bytes [123;34;97;255;34;58;91;93;125]%N = None.
Proof. vm_compute. repeat split. Qed.

(** * ChatDecode *)
(** a role template with exactly one {text} (what the Python constructor [ChatTemplate::new] demands) at position k: a
    message is  template[..k] ++ text ++ template[k+6..]  — the text is never scanned again, whatever it contains *)
Theorem chat_template_once : forall tpl k text, find_pat PAT_TEXT tpl = Some k ->
  find_pat PAT_TEXT (skipn (k + 6) tpl) = None ->
  replace_pat PAT_TEXT text 0 tpl = firstn k tpl ++ text ++ skipn (k + 6) tpl.
Proof. exact template_once. Qed.
Print Assumptions chat_template_once.

(** one message: start ++ template[..k] ++ text, then — unless the message is partial — the rest of the template and
    the end marker *)
Theorem chat_one_message : forall t role text partial tpl k,
  role_get role (ct_roles t) = Some tpl -> find_pat PAT_TEXT tpl = Some k ->
  find_pat PAT_TEXT (skipn (k + 6) tpl) = None ->
  chat_format t [mk_cm text role partial] =
  ROk (ostr (ct_start t) ++ firstn k tpl ++ text ++ (if partial then [] else skipn (k + 6) tpl ++ ostr (ct_end t))).
Proof. exact chat_single_message. Qed.
Print Assumptions chat_one_message.

(** messages are formatted one after the other *)
Theorem chat_messages_sequential : forall roles msgs acc,
  chat_msgs roles msgs acc =
  match chat_msgs roles msgs [] with
  | ROk (t, p) => ROk (acc ++ t, p)
  | RErr e => RErr e
  | RPanic s => RPanic s
  end.
Proof. exact chat_msgs_acc. Qed.
Print Assumptions chat_messages_sequential.

(** the typed parse inverts the printer: what [serde_json::to_string(&Vec<ChatMessage>)] writes is decoded to exactly that
    list, whatever the texts and role names contain (quotes, backslashes, control characters, "{text}", non-ASCII) *)
Theorem chat_roundtrip : forall l, chat_of_text (print_chat l) = Some l.
Proof. exact chat_roundtrip_l. Qed.
Print Assumptions chat_roundtrip.

(** the crate's own unit test (preprocessing.rs, test_chat_decode, second half):
    [{"role": "user", "text": "Hello"}, {"role": "bot", "text": "Hi"}]  with  <start> / "User: {text}\n" / "Bot: {text}" /
    <end>  gives  "<start>User: Hello\nBot: Hi<end>" *)
Definition ex_chat_text : str :=
  [91;123;34;114;111;108;101;34;58;32;34;117;115;101;114;34;44;32;34;116;101;120;116;34;58;32;34;72;101;108;108;111;34;125;
   44;32;123;34;114;111;108;101;34;58;32;34;98;111;116;34;44;32;34;116;101;120;116;34;58;32;34;72;105;34;125;93]%N.
Definition ex_chat_tpl : chat_template :=
  mk_ct (Some [60;115;116;97;114;116;62]%N)
        [([117;115;101;114], [85;115;101;114;58;32;123;116;101;120;116;125;10]);
         ([98;111;116], [66;111;116;58;32;123;116;101;120;116;125])]%N
        (Some [60;101;110;100;62]%N).
Example chat_decode_unit_test :
  chat_decode ex_chat_tpl ex_chat_text
  = ROk [60;115;116;97;114;116;62; 85;115;101;114;58;32;72;101;108;108;111;10; 66;111;116;58;32;72;105; 60;101;110;100;62]%N
  /\ find_pat PAT_TEXT [85;115;101;114;58;32;123;116;101;120;116;125;10]%N = Some 6
  /\ find_pat PAT_TEXT (skipn (6 + 6) [85;115;101;114;58;32;123;116;101;120;116;125;10]%N) = None.
Proof. vm_compute. repeat split. Qed.

(** * the executable statements of the three new lines hold of the model's own output (or the model answers fuel /
    outside its domain / a panic of the pipeline) *)
Theorem check_run_stage_item : forall v,
  check_item v (run_item_x v) = true \/ run_item_x v = v_fuel_out \/ run_item_x v = v_outside.
Proof. exact check_run_item_x. Qed.
Print Assumptions check_run_stage_item.

Theorem check_run_stage_loader : forall v,
  check_loader v (run_bloader_x v) = true \/ run_bloader_x v = v_panic \/ run_bloader_x v = v_fuel_out
  \/ run_bloader_x v = v_outside.
Proof. exact check_run_bloader_x. Qed.
Print Assumptions check_run_stage_loader.

Theorem check_run_mask_line : forall v,
  check_mask v (run_mask v) = true \/ run_mask v = v_fuel_out \/ run_mask v = v_outside.
Proof. exact check_run_mask. Qed.
Print Assumptions check_run_mask_line.

(** C10 — pinned statements. Nothing but statements, [exact], and assumption audits. *)
From TU Require Import Base C10_Model C10_Proofs C10_Inj.

(** Round trip: clean [from], [to] with equal non-whitespace clusters. *)
Theorem ops_roundtrip : forall f t : list cluster,
  Clean f -> Clean t -> strip f = strip t ->
  exists ops, operations f t = Some ops /\ length ops = length f /\ repair f ops = Some (concat t).
Proof. exact ops_roundtrip_l. Qed.
Print Assumptions ops_roundtrip.

(** The other half of "inverse": for a fixed clean source the operation list determines the target text
    (two clean targets with the same non-whitespace clusters and the same operations are the same text). *)
Theorem operations_injective : forall f t t' ops,
  Clean f -> Clean t -> Clean t' -> strip f = strip t -> strip f = strip t' ->
  operations f t = Some ops -> operations f t' = Some ops -> concat t = concat t'.
Proof. exact operations_injective_l. Qed.
Print Assumptions operations_injective.

(** Whenever [operations] succeeds there is exactly one operation per character of [from]. *)
Theorem ops_length : forall f t ops, operations f t = Some ops -> length ops = length f.
Proof. exact operations_length. Qed.
Print Assumptions ops_length.

(** Repair changes nothing but whitespace (code-point level), for every cluster
    list and every operation sequence of matching length. *)
Theorem repair_only_ws : forall cs os,
  length os = length cs -> exists r, repair cs os = Some r /\ strip_cp r = strip_cp (concat cs).
Proof. exact repair_only_ws_l. Qed.
Print Assumptions repair_only_ws.

Theorem repair_keep : forall cs os,
  length os = length cs -> all_keep os = true -> repair cs os = Some (concat cs).
Proof. exact repair_keep_l. Qed.
Print Assumptions repair_keep.

(** A length mismatch is the error value. *)
Theorem repair_len_err : forall cs os, length os <> length cs -> repair cs os = None.
Proof. exact repair_len_err_l. Qed.
Print Assumptions repair_len_err.

(** The boolean premise used by the checker is exactly the Prop-level premise. *)
Theorem premise_sound : forall f t, premiseb f t = true <-> Clean f /\ Clean t /\ strip f = strip t.
Proof. exact premiseb_spec. Qed.
Print Assumptions premise_sound.

(** The executable statement evaluated on the implementation's outputs holds of the model's own output. *)
Theorem check_run : forall v,
  (v_bool (v_nth 0 v) = true -> premiseb (v_clusters (v_nth 1 v)) (v_clusters (v_nth 2 v)) = true) ->
  check_C10 v (run_C10 v) = true.
Proof. exact check_run_l. Qed.
Print Assumptions check_run.

(** Non-vacuity: a concrete clean pair meets the premises ("a b c" vs "ab c"). *)
Example premise_witness : premiseb [[97];[32];[98];[32];[99]]%N [[97];[98];[32];[99]]%N = true.
Proof. vm_compute. reflexivity. Qed.

(** ** grapheme mode with the segmenter inside the model ([segment], UAX29_Model.v, tied to
    unicode-segmentation by this property's and C11's correspondence): the cluster lists are
    [segment] of the strings, "no mixed cluster" is the decidable [no_mixedb], and the KF1 seam
    class is characterised by [seam_safe]. *)
From TU Require Import UAX29_Model C10_Seam C10_UAX29.
From TU Require C11_Model.

(** the cluster-level theorems above, with premises on the strings and one cluster-level premise *)
Theorem ops_roundtrip_u : forall f t : str,
  C11_Model.cleansb f = true -> C11_Model.cleansb t = true ->
  no_mixedb f = true -> no_mixedb t = true ->
  strip (segment f) = strip (segment t) ->
  exists ops, operations (segment f) (segment t) = Some ops
              /\ length ops = length (segment f)
              /\ repair (segment f) ops = Some t.
Proof. exact ops_roundtrip_u_l. Qed.
Print Assumptions ops_roundtrip_u.

Theorem repair_only_ws_u : forall s os,
  length os = length (segment s) -> exists r, repair (segment s) os = Some r /\ strip_cp r = strip_cp s.
Proof. exact repair_only_ws_u_l. Qed.
Print Assumptions repair_only_ws_u.

Theorem repair_keep_u : forall s os,
  length os = length (segment s) -> all_keep os = true -> repair (segment s) os = Some s.
Proof. exact repair_keep_u_l. Qed.
Print Assumptions repair_keep_u.

(** [cf_break a b]: a boundary between [a] and [b] in every context — sound ... *)
Theorem cf_break_split : forall a b u v,
  cf_break a b = true ->
  segment ((u ++ [a]) ++ b :: v) = segment (u ++ [a]) ++ segment (b :: v).
Proof. exact C10_UAX29.cf_break_split. Qed.
Print Assumptions cf_break_split.

(** ... and exact: otherwise some text before [a] puts [a] and [b] into one cluster, whatever follows *)
Theorem cf_break_exact : forall a b,
  cf_break a b = false ->
  exists u, forall v, exists cl l1 l2,
    In cl (segment ((u ++ [a]) ++ b :: v)) /\ cl = l1 ++ a :: b :: l2.
Proof. exact cf_break_exact_l. Qed.
Print Assumptions cf_break_exact.

(** [seam_ok a b] = context-free boundaries a | b, a | SPACE and SPACE | b *)
Theorem seam_ok_spec : forall a b,
  seam_ok a b = (cf_break a 32 && cf_break 32%N b && cf_break a b)%bool.
Proof. exact seam_ok_cf. Qed.
Print Assumptions seam_ok_spec.

(** ** SeamStable as a theorem about [segment]: a list of non-empty clusters re-segments to
    itself exactly when every element is a cluster on its own and every two neighbours are
    [glued] (a boundary decided inside the left neighbour) *)
Theorem segment_break_split : forall s b v,
  s <> [] -> break_after s b = true -> segment (s ++ b :: v) = segment s ++ segment (b :: v).
Proof. exact C10_Stable.segment_break_split. Qed.
Print Assumptions segment_break_split.

Theorem stable_iff : forall L : list cluster,
  Forall (fun c => c <> []) L ->
  (segment (concat L) = L <-> forallb is_cluster L = true /\ chain L = true).
Proof. exact C10_Stable.stable_iff. Qed.
Print Assumptions stable_iff.

(** [seam_safe s] (no mixed cluster; across every whitespace cluster the neighbours are [glued])
    is, for a whitespace-clean text, exactly "the non-whitespace clusters of the text are the
    clusters of the text without whitespace" — SeamStable for deleting spaces *)
Theorem seam_safe_no_mixed : forall s, seam_safe s = true -> no_mixedb s = true.
Proof. exact seam_safe_no_mixed_l. Qed.
Print Assumptions seam_safe_no_mixed.

Theorem seam_safe_iff : forall s,
  C11_Model.cleansb s = true ->
  (seam_safe s = true <-> strip (segment s) = segment (strip_cp s)).
Proof. exact seam_safe_iff_l. Qed.
Print Assumptions seam_safe_iff.

(** the condition on categories alone — every word boundary (last code point of a word, first of
    the next) is [seam_ok] — is sufficient *)
Theorem seam_safe_cf_safe : forall s,
  C11_Model.cleansb s = true -> seam_safe_cf s = true -> seam_safe s = true.
Proof. exact seam_safe_cf_safe_l. Qed.
Print Assumptions seam_safe_cf_safe.

(** the string-level premise of the property gives the cluster-level premise ... *)
Theorem seam_safe_premise : forall f t,
  C11_Model.cleansb f = true -> C11_Model.cleansb t = true -> strip_cp f = strip_cp t ->
  seam_safe f = true -> seam_safe t = true ->
  Clean (segment f) /\ Clean (segment t) /\ strip (segment f) = strip (segment t).
Proof. exact seam_safe_premise_l. Qed.
Print Assumptions seam_safe_premise.

(** ... so the round trip holds with premises on the two strings alone: no cluster-level
    premise, no segmentation oracle, no SeamStable *)
Theorem operations_repair_roundtrip_u : forall f t,
  C11_Model.cleansb f = true -> C11_Model.cleansb t = true -> strip_cp f = strip_cp t ->
  seam_safe f = true -> seam_safe t = true ->
  exists ops, operations (segment f) (segment t) = Some ops
              /\ length ops = length (segment f)
              /\ repair (segment f) ops = Some t.
Proof. exact operations_repair_roundtrip_u_l. Qed.
Print Assumptions operations_repair_roundtrip_u.

(** the domain of that theorem and the KF1 class (string-level premise, no mixed cluster,
    different non-whitespace cluster lists) are disjoint: a KF1 pair has a text that is not seam-safe *)
Theorem kf1_outside : forall f t, dom_C10 f t = true -> kf1b f t = false.
Proof. exact kf1_outside_l. Qed.
Print Assumptions kf1_outside.

Theorem kf1_not_safe : forall f t, kf1b f t = true -> (seam_safe f && seam_safe t)%bool = false.
Proof. exact kf1_not_safe_l. Qed.
Print Assumptions kf1_not_safe.

(** the input built by the model alone (both cluster lists, the class flag and the seam flag)
    passes the executable statement, the segmentation clause and the cross-check of [agree] *)
Theorem check_run_u : forall f t rops,
  kf1b f t = false ->
  check_C10 (input_of f t rops) (run_C10 (input_of f t rops)) = true
  /\ uax29_agree (input_of f t rops) = true /\ xcheck (input_of f t rops) = true.
Proof. exact check_run_u_l. Qed.
Print Assumptions check_run_u.

(** non-vacuity: "a e\u{301} b" / "ae\u{301} b" is in the domain; the KF1 witnesses are not
    seam-safe: flag halves, Hangul L + V, consonant + virama | consonant, e | U+0301,
    Prepend | a, woman ZWJ | laptop *)
Example dom_witness : dom_C10 [97;32;101;769;32;98]%N [97;101;769;32;98]%N = true.
Proof. vm_compute. reflexivity. Qed.
Example kf1_not_seam_safe :
  seam_safe [127465;32;127466]%N = false /\ seam_safe [4352;32;4449]%N = false
  /\ seam_safe [2325;2381;32;2359]%N = false /\ seam_safe [101;32;769]%N = false
  /\ seam_safe [1536;32;97]%N = false /\ seam_safe [128105;8205;32;128187]%N = false
  /\ kf1b [127465;32;127466]%N [127465;127466]%N = true.
Proof. vm_compute. repeat split; reflexivity. Qed.
(** a complete flag, a space, a third regional indicator: the boundary is decided inside the
    flag — seam-safe although RI | RI is not a context-free boundary *)
Example seam_safe_in_context :
  seam_safe [127462;127463;32;127464]%N = true /\ seam_safe_cf [127462;127463;32;127464]%N = false
  /\ dom_C10 [127462;127463;32;127464]%N [127462;127463;127464]%N = true.
Proof. vm_compute. repeat split; reflexivity. Qed.
(** letters, a consonant after a letter, an emoji after a letter, Hangul syllable | letter: seam-safe *)
Example seam_ok_witness :
  seam_ok 97 98 = true /\ seam_ok 97 2325 = true /\ seam_ok 97 128512 = true /\ seam_ok 44032 97 = true
  /\ cf_break 2381 2325 = false /\ cf_break 8204 2325 = true.
Proof. vm_compute. repeat split; reflexivity. Qed.

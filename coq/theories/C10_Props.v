(** C10 — pinned statements. Nothing but statements, [exact], and assumption audits. *)
From TU Require Import Base C10_Model C10_Proofs.

(** Round trip: clean [from], [to] with equal non-whitespace clusters. *)
Theorem ops_roundtrip : forall f t : list cluster,
  Clean f -> Clean t -> strip f = strip t ->
  exists ops, operations f t = Some ops /\ length ops = length f /\ repair f ops = Some (concat t).
Proof. exact ops_roundtrip_l. Qed.
Print Assumptions ops_roundtrip.

(** Whenever [operations] succeeds there is exactly one operation per character of [from]. *)
Theorem ops_length : forall f t ops, operations f t = Some ops -> length ops = length f.
Proof. exact operations_length. Qed.
Print Assumptions ops_length.

(** Repair changes nothing but whitespace (code-point level), for every cluster
    list and every operation sequence of matching length. *)
Theorem repair_only_ws : forall cs os,
  length os = length cs -> exists r, repair cs os = Some r /\ strip_cp r = strip_cp (concat cs).
Proof. exact repair_only_ws_l. Qed.
Print Assumptions repair_only_ws.

Theorem repair_keep : forall cs os,
  length os = length cs -> all_keep os = true -> repair cs os = Some (concat cs).
Proof. exact repair_keep_l. Qed.
Print Assumptions repair_keep.

(** A length mismatch is the error value. *)
Theorem repair_len_err : forall cs os, length os <> length cs -> repair cs os = None.
Proof. exact repair_len_err_l. Qed.
Print Assumptions repair_len_err.

(** The boolean premise used by the checker is exactly the Prop-level premise. *)
Theorem premise_sound : forall f t, premiseb f t = true <-> Clean f /\ Clean t /\ strip f = strip t.
Proof. exact premiseb_spec. Qed.
Print Assumptions premise_sound.

(** The executable statement evaluated on the implementation's outputs holds of the model's own output. *)
Theorem check_run : forall v,
  (v_bool (v_nth 0 v) = true -> premiseb (v_clusters (v_nth 1 v)) (v_clusters (v_nth 2 v)) = true) ->
  check_C10 v (run_C10 v) = true.
Proof. exact check_run_l. Qed.
Print Assumptions check_run.

(** Non-vacuity: a concrete clean pair meets the premises ("a b c" vs "ab c"). *)
Example premise_witness : premiseb [[97];[32];[98];[32];[99]]%N [[97];[98];[32];[99]]%N = true.
Proof. vm_compute. reflexivity. Qed.

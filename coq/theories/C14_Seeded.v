(** C14 with the generator inside the model ("seed in, behaviour out") — definitions only.

    [corrupt_whitespace] (src/data/preprocessing.rs:329-359) builds its generator per call,
    [ChaCha8Rng::seed_from_u64(info.seed)], and draws [r: f64 = rng.random()] once per character
    INSIDE the [.map(|(idx, c)| ..)] closure, before it looks at the character; [.join("")] pulls the
    closure in text order.  [info.seed] is the item seed of [TextDataInfo] ([apply] hands [&info] to
    the text function unchanged; the loader sets it to [seed + item_idx], src/data/mod.rs:992).
    [corrupt_aux_s] is [C14_Model.corrupt_aux] with exactly that draw in exactly that place,
    [random_f64] of RNG_Model.v (= [next_u64 >> 11], the numerator k of r = k / 2^53).

    Probabilities are arbitrary binary64 values, given by their exact decomposition ([f64w] of
    RNG_Model.v: m * 2^e, +inf, NaN, negative).  The code compares [r < p] in f64, which is the
    comparison of the two real numbers (no rounding in a comparison); for r = k / 2^53 with an integer
    k this is [k < thr p] with [thr p = ceil (p * 2^53)] ([thr_spec] in C14_Seeded_Proofs.v), so the
    integer thresholds of C14_Model.v are kept and the f64 comparison is modelled for EVERY p. *)
From TU Require Import RNG_Model.
From TU Require Import Base UAX29_Model C10_Model C14_Model C14_Seam.
Open Scope Z_scope.

(** one step per character; the draw comes first, whatever the character is *)
Fixpoint corrupt_aux_s (ti td : Z) (prev_ws first : bool) (chars : list cluster) (st : rng)
  : list cluster * rng :=
  match chars with
  | [] => ([], st)
  | c :: r =>
    let (kn, st1) := random_f64 st in
    let k := Z.of_N kn in
    let w := cl_ws c in
    let piece :=
      if w then (if k <? td then [] else [c])
      else if (k <? ti) && negb first && negb prev_ws then [[32%N]; c] else [c] in
    let (rest, st2) := corrupt_aux_s ti td w false r st1 in
    (piece ++ rest, st2)
  end.

(** the text function [corrupt_whitespace(iw, dw, g)] builds, applied to (text, info) with
    [info.seed = seed]: thresholds as numerators over 2^53, clamped as the code clamps *)
Definition corrupt_seeded (iw dw : Z) (seed : N) (chars : list cluster) : list cluster :=
  fst (corrupt_aux_s (clamp iw) (clamp dw) false true chars (seed_from_u64 seed)).

(** the r-stream of a seed as a list (numerators over 2^53): what the oracle model is handed *)
Fixpoint stream_from (n : nat) (st : rng) : list Z :=
  match n with
  | O => []
  | S n' => let (k, st1) := random_f64 st in Z.of_N k :: stream_from n' st1
  end.
Definition stream (seed : N) (n : nat) : list Z := stream_from n (seed_from_u64 seed).

(** ** the f64 comparison [r < p] for r = k / 2^53 *)
(** ceiling of a / b for b > 0 *)
Definition cdiv (a b : Z) : Z := - ((- a) / b).

(** [thr p] = ceil (p * 2^53) for a finite non-negative p = m * 2^e; for the other values: what makes
    [k <? clamp (thr p)] equal to [r < p.clamp(0., 1.)] for every r in [0, 1): +inf clamps to 1;
    a negative p (and -0.0) clamps to 0; NaN stays NaN through [clamp] and every comparison with it
    is false, like a threshold 0 (also in [iw_p > 0. || dw_p > 0.]) *)
Definition thr (p : f64w) : Z :=
  match p with
  | Fin m e => let s := e + 53 in
               if 0 <=? s then Z.of_N m * 2 ^ s else cdiv (Z.of_N m) (2 ^ (- s))
  | FInf => 2 * D53
  | FNaN => 0
  | FNeg => 0
  end.

(** the real-number comparison k / 2^53 < m * 2^e, cross-multiplied by the powers of two *)
Definition lt_real (k : Z) (m : N) (e : Z) : Prop :=
  k * 2 ^ Z.max 0 (- (e + 53)) < Z.of_N m * 2 ^ Z.max 0 (e + 53).

(** * val glue
    input = (g text cseg seed ks iw dw np ns kf1 ss iwf dwf): the eleven fields of C14_Seam.v, then
            iwf dwf: the two probabilities as the code receives them, binary64 decomposed
                     ((0 m e) = m * 2^e | (1 0 0) +inf | (2 0 0) NaN | (3 0 0) negative or -0.0).
    The seeded run reads ONLY g, the text (as a string: the concatenation of field 1), seed, np, ns,
    iwf, dwf.  ks, iw, dw, cseg stay for the oracle model (second line) and are cross-checked. *)
Definition in_seed (v : val) : N := v_n (v_nth 3 v).
Definition in_iwf (v : val) : f64w := v_f64w (v_nth 11 v).
Definition in_dwf (v : val) : f64w := v_f64w (v_nth 12 v).
Definition in_str (v : val) : str := concat (v_clusters (v_nth 1 v)).
(** [CharString::new(s, g)] *)
Definition seg_of (g : bool) (s : str) : list cluster := if g then segment s else singletons s.

Definition run_C14s (v : val) : val :=
  let g := v_bool (v_nth 0 v) in
  let t := seg_of g (in_str v) in
  let iw := thr (in_iwf v) in
  let dw := thr (in_dwf v) in
  if negb (accepted iw dw) then L [I 0] else
  let ccl := corrupt_seeded iw dw (in_seed v) t in
  let item := apply_input (fun _ => concat ccl) (concat t, concat t) in
  let c := fst item in
  let lab := option_map (labels (in_np v) (in_ns v)) (operations (seg_of g c) t) in
  L [I 1; list_v n_v c; list_v n_v (snd item); opt_v (list_v z_v) lab; I 1].

(** the oracle fields of the input are what the model computes from (text, probabilities, seed):
    the harness' replicated r-stream is the model's stream of the seed, and its integer thresholds
    are the ceilings of the probabilities (after clamping) *)
Definition seeded_xcheck (v : val) : bool :=
  zlist_eqb (in_ks v) (stream (in_seed v) (length (in_ks v)))
  && (clamp (in_iw v) =? clamp (thr (in_iwf v)))
  && (clamp (in_dw v) =? clamp (thr (in_dwf v))).

(** correspondence: [m] is the SEEDED run — exact given (text, probabilities, seed) alone; second
    line: the oracle model run on the harness' stream agrees too (with the segmentation clause and
    the class cross-check of C14_Seam.v); third: the oracle fields are the model's own *)
Definition agree_C14s (inp m i : val) : bool :=
  val_eqb m i && agree_C14 inp (run_C14 inp) i && seeded_xcheck inp.

(** C16 — machine-integer model of the inference windows.  Definitions only.

    A second, literal model of src/windows.rs ([windows], [char], [byte], [count_until], the
    configuration checks), of the [CharString] offset arithmetic it calls (src/unicode.rs:
    [new], [byte_start_end], [char_byte_len], [char_range_to_byte_range], [get], [sub]), of
    [run_length_encode] (src/utils.rs) and of [possible_character_substrings] (src/text.rs), in
    which [usize] is a 64-bit machine integer: EVERY [+], [-], [*] the code performs on a [usize]
    is an explicit operation ([madd] / [msub] / [mmul], one numbered site per occurrence in the
    source) that first computes the mathematical result as an [option N] ([None] = it does not fit
    into 64 bits) and then acts according to the cargo profile:

      [Checked]   (overflow-checks = on, the debug profile): [None] is a panic, reported as the
                  value [Fault site];
      [Wrapping]  (overflow-checks = off, the release profile): [None] continues with the value
                  reduced modulo 2^64.

    [saturating_mul] / [saturating_sub] / [min] are the saturating / total operations the code
    uses (they cannot fault).  [assert!], [panic!("should not happen")] and slice indexing
    [&s[a..b]] are panics in BOTH profiles ([Panic 4/5/1/6], the sites of C16_Model.v); a slice
    panics when [a > b], [b > s.len()] or one of the two offsets is not on a character boundary
    of the string ([isb], the string's [is_char_boundary], computed from the code points).

    The flag [fixed] selects the configuration check: [true] = the code as it is after the D10
    repair ([max <= context.saturating_mul(2)]), [false] = the pinned code ([max <= 2 * context]).

    Iteration over [a..b] and [(a..b).rev()] is the standard library's ([nrange]); [Vec::len()],
    [str::len()] are values the machine provides (at most [isize::MAX]).

    The theorems (C16_MachineProofs.v) say: for every text of at most [isize::MAX] bytes and every
    [max], [ctx] below 2^64 no operation faults in either profile, and the result is the result of
    the unbounded model [C16_Model.windows]. *)
From TU Require Import Base C16_Model.
Open Scope N_scope.

Inductive profile := Checked | Wrapping.

(** 2^64 and isize::MAX = 2^63 - 1 *)
Definition W : N := 18446744073709551616.
Definition ISIZE_MAX : N := 9223372036854775807.

(** an arithmetic fault (overflow panic) at a numbered site; a [Panic] whose site is >= 100 *)
Definition Fault {A} (site : N) : res A := Panic (100 + site).
Definition is_fault {A} (r : res A) : bool :=
  match r with Panic s => 100 <=? s | _ => false end.

(** the mathematical result of the three operations, [None] when it is not a [usize] *)
Definition add_o (a b : N) : option N := let s := a + b in if s <? W then Some s else None.
Definition sub_o (a b : N) : option N := if b <=? a then Some (a - b) else None.
Definition mul_o (a b : N) : option N := let s := a * b in if s <? W then Some s else None.

(** what an operation whose result does not fit does: the overflow panic, or the wrapped value *)
Definition ovf (p : profile) (site wrapped : N) : res N :=
  match p with Checked => Fault site | Wrapping => Ok wrapped end.
Definition madd (p : profile) (site a b : N) : res N :=
  match add_o a b with Some r => Ok r | None => ovf p site ((a + b) mod W) end.
Definition msub (p : profile) (site a b : N) : res N :=
  match sub_o a b with Some r => Ok r | None => ovf p site ((a + (W - b mod W)) mod W) end.
Definition mmul (p : profile) (site a b : N) : res N :=
  match mul_o a b with Some r => Ok r | None => ovf p site ((a * b) mod W) end.
Definition sat_mul (a b : N) : N := N.min (a * b) (W - 1).
Definition sat_sub (a b : N) : N := a - b.

(** * utils.rs: run_length_encode ([count += 1] is site 30) *)
Fixpoint mrle_go (p : profile) (val count : N) (l : list N) : res (list (N * N)) :=
  match l with
  | [] => Ok [(val, count)]
  | v :: r =>
      if v =? val then do c <- madd p 30 count 1; mrle_go p val c r
      else do rest <- mrle_go p v 1 r; Ok ((val, count) :: rest)
  end.
Definition mrle (p : profile) (l : list N) : res (list (N * N)) :=
  match l with [] => Ok [] | v :: r => mrle_go p v 1 r end.

(** * unicode.rs: CharString *)
(** [CharString::new]; [cluster_lengths.len()] and [str.len()] are given by the machine *)
Definition mcs_new (p : profile) (lens : list N) : res cstr :=
  do r <- mrle p lens; Ok (mkcs r (lenN lens) (sumN lens)).

(** [byte_start_end]: sites 1-8 in source order *)
Fixpoint mbse_go (p : profile) (r : list (N * N)) (start total n : N) : res (N * N) :=
  match r with
  | [] => Panic 1                                   (* panic!("should not happen") *)
  | (nb, cnt) :: r' =>
      do t <- madd p 1 total cnt;                   (* total_count + *count *)
      if n <? t then
        do d <- msub p 2 n total;                   (* n - total_count *)
        do m <- mmul p 3 nb d;                      (* num_bytes * (..) *)
        do s <- madd p 4 start m;                   (* start += .. *)
        do e <- madd p 5 s nb;                      (* start + num_bytes *)
        Ok (s, e)
      else
        do m <- mmul p 6 cnt nb;                    (* count * num_bytes *)
        do s <- madd p 7 start m;                   (* start += .. *)
        do t' <- madd p 8 total cnt;                (* total_count += count *)
        mbse_go p r' s t' n
  end.
Definition mbse (p : profile) (cs : cstr) (n : N) : res (N * N) := mbse_go p (c_rle cs) 0 0 n.

(** [char_byte_len]: [end - start] is site 9 *)
Definition mcbl (p : profile) (cs : cstr) (n : N) : res N :=
  do pr <- mbse p cs n; msub p 9 (snd pr) (fst pr).

(** [char_range_to_byte_range]: [end - 1] occurs twice (sites 10, 11) *)
Definition mcr2br (p : profile) (cs : cstr) (s e : N) : res (N * N) :=
  if (s <? e) && (e <=? c_len cs) then
    do pr <- mbse p cs s;
    do e1 <- msub p 10 e 1;
    if s <? e1 then
      do e2 <- msub p 11 e 1;
      do q <- mbse p cs e2;
      Ok (fst pr, snd q)
    else Ok pr
  else Panic 4.                                     (* assert!(start < end && end <= len) *)

(** [&self.str[start..end]]: the range, and both offsets on a character boundary *)
Definition mslice (isb : N -> bool) (cs : cstr) (bs be : N) : res (N * N) :=
  if (bs <=? be) && (be <=? c_blen cs) && isb bs && isb be then Ok (bs, be - bs) else Panic 6.

(** [get] *)
Definition mget (p : profile) (isb : N -> bool) (cs : cstr) (n : N) : res (option (N * N)) :=
  if c_len cs <=? n then Ok None
  else do pr <- mbse p cs n; do r <- mslice isb cs (fst pr) (snd pr); Ok (Some r).

(** [sub] *)
Definition msubstr (p : profile) (isb : N -> bool) (cs : cstr) (s e : N) : res (N * N) :=
  if e <? s then Panic 5                            (* assert!(start <= end) *)
  else
    let s' := N.min s (c_len cs) in
    let e' := N.min e (c_len cs) in
    if (c_len cs =? 0) || (s' =? e') then Ok (0, 0)
    else do pr <- mcr2br p cs s' e'; mslice isb cs (fst pr) (snd pr).

(** * windows.rs *)
Definition mmkwin (p : profile) (isb : N -> bool) (cs : cstr) (cstart ws we cend : N) : res window :=
  do bctx <- mcr2br p cs cstart cend;
  do bwin <- mcr2br p cs ws we;
  do str <- msubstr p isb cs cstart cend;
  Ok (mkw cstart ws we cend (fst bctx) (fst bwin) (snd bwin) (snd bctx) (fst str) (snd str)).

(** the configuration check of [char] / [byte] *)
Definition mconfig_bad (p : profile) (fixed : bool) (site max ctx : N) : res bool :=
  if fixed then Ok (max <=? sat_mul ctx 2)          (* context.saturating_mul(2) *)
  else do t <- mmul p site 2 ctx; Ok (max <=? t).   (* 2 * context: the pinned code *)

(** [max - (1 + usize::from(window_start > 0)) * context]: three sites starting at [site] *)
Definition mwinlen (p : profile) (site max ctx ws : N) : res N :=
  do k <- madd p site 1 (b2n (0 <? ws));
  do kc <- mmul p (site + 1) k ctx;
  msub p (site + 2) max kc.

(** [char()]: sites 12-17 *)
Fixpoint mchar_loop (p : profile) (isb : N -> bool) (fuel : nat) (cs : cstr) (max ctx ws : N)
  : res (list window) :=
  if ws <? c_len cs then
    match fuel with
    | O => Fuel
    | S f =>
      do wl <- mwinlen p 12 max ctx ws;
      let cstart := sat_sub ws ctx in                             (* saturating_sub *)
      do a1 <- madd p 15 ws wl;                                   (* window_start + window_length *)
      do a2 <- madd p 16 a1 ctx;                                  (* .. + context_length *)
      let cend := N.min (c_len cs) a2 in
      do a3 <- madd p 17 ws wl;                                   (* window_start + window_length *)
      let we := N.min (c_len cs) a3 in
      do w <- mmkwin p isb cs cstart ws we cend;
      do rest <- mchar_loop p isb f cs max ctx we;
      Ok (w :: rest)
    end
  else Ok [].
Definition mchar_windows (p : profile) (fixed : bool) (isb : N -> bool) (lens : list N) (max ctx : N)
  : res (list window) :=
  do bad <- mconfig_bad p fixed 18 max ctx;
  if bad then Err 1 []
  else do cs <- mcs_new p lens; mchar_loop p isb (length lens) cs max ctx 0.

(** [count_until]: [acc + cs.char_byte_len(idx)] is site 19, [count + 1] site 20 *)
Fixpoint mcount_until (p : profile) (cs : cstr) (idxs : list N) (maxl count acc : N) : res N :=
  match idxs with
  | [] => Ok count
  | i :: r =>
    do b <- mcbl p cs i;
    do na <- madd p 19 acc b;
    if maxl <? na then Ok count
    else do c1 <- madd p 20 count 1; mcount_until p cs r maxl c1 na
  end.

(** [byte()]: sites 21-25 *)
Fixpoint mbyte_loop (p : profile) (isb : N -> bool) (fuel : nat) (cs : cstr) (max ctx ws : N)
  : res (list window) :=
  if ws <? c_len cs then
    match fuel with
    | O => Fuel
    | S f =>
      do wl <- mwinlen p 21 max ctx ws;
      do cnt <- mcount_until p cs (nrange ws (c_len cs)) wl 0 0;
      do we <- madd p 24 ws cnt;                                  (* window_start + count_until(..) *)
      if we <=? ws then
        do b <- mcbl p cs ws; Err 2 [ws; b; wl]
      else
        do cb <- mcount_until p cs (rev (nrange 0 ws)) ctx 0 0;
        let cstart := sat_sub ws cb in                            (* saturating_sub *)
        do cf <- mcount_until p cs (nrange we (c_len cs)) ctx 0 0;
        do cend <- madd p 25 we cf;                               (* window_end + count_until(..) *)
        do w <- mmkwin p isb cs cstart ws we cend;
        do rest <- mbyte_loop p isb f cs max ctx we;
        Ok (w :: rest)
    end
  else Ok [].
Definition mbyte_windows (p : profile) (fixed : bool) (isb : N -> bool) (lens : list N) (max ctx : N)
  : res (list window) :=
  do bad <- mconfig_bad p fixed 26 max ctx;
  if bad then Err 1 []
  else do cs <- mcs_new p lens; mbyte_loop p isb (length lens) cs max ctx 0.

(** [windows]; [kind] as in C16_Model *)
Definition mwindows (p : profile) (fixed : bool) (isb : N -> bool) (kind max ctx : N) (lens : list N)
  : res (list window) :=
  if kind =? 3 then mchar_windows p fixed isb lens max ctx
  else if 4 <=? kind then mbyte_windows p fixed isb lens max ctx
  else if sumN lens =? 0 then Ok [zero_window]                    (* s.is_empty() *)
  else if kind =? 0 then mchar_windows p fixed isb lens max ctx
  else if kind =? 1 then mbyte_windows p fixed isb lens max ctx
  else do cs <- mcs_new p lens; Ok [full_window cs].

(** * text.rs: possible_character_substrings (sites 40-43) *)
Definition mpcs (p : profile) (lens : list N) (maxc : N) : res (list (N * N * N)) :=
  if sumN lens =? 0 then Ok [(0, 0, 0)]
  else
    do cs <- mcs_new p lens;
    let num := c_len cs in
    let maxc := N.min maxc num in
    do d <- msub p 40 num maxc;                                   (* num_chars - max_chars *)
    do hi <- madd p 41 d 1;                                       (* .. + 1 *)
    mapM (fun st =>
            do e0 <- madd p 42 st maxc;                           (* start_char + max_chars *)
            let en := N.min num e0 in
            do pr <- mcr2br p cs st en;
            do n <- msub p 43 en st;                              (* end_char - start_char *)
            Ok (fst pr, snd pr, n))
         (nrange 0 hi).

(** * the string's [is_char_boundary], from the UTF-8 lengths of its code points:
    offset [b] is a boundary iff it is the byte length of a prefix of the code points *)
Fixpoint bnd (cpl : list N) (b : N) : bool :=
  (b =? 0) || match cpl with [] => false | x :: r => (x <=? b) && bnd r (b - x) end.
Definition isb_of (cl : list cluster) : N -> bool := bnd (map utf8_len (concat cl)).

(** * val glue: the same input and output as [run_C16], computed by the machine model *)
Definition mprobe_v (p : profile) (isb : N -> bool) (cs : cstr) (pv : val) : val :=
  let a := v_n (v_nth 0 pv) in
  let b := v_n (v_nth 1 pv) in
  L [ small_v (opt_v pair_nv) (mget p isb cs a); small_v pair_nv (msubstr p isb cs a b) ].

Definition run_M16 (p : profile) (v : val) : val :=
  let kind := v_n (v_nth 0 v) in
  let max := v_big (v_nth 1 v) in
  let ctx := v_big (v_nth 2 v) in
  let cl := v_clusters (v_nth 3 v) in
  let lens := lens_of cl in
  let isb := isb_of cl in
  L [ wres_v (mwindows p true isb kind max ctx lens);
      match mcs_new p lens with
      | Ok cs => L [ list_v pair_nv (c_rle cs); list_v n_v (unrle (c_rle cs)); n_v (c_len cs) ]
      | _ => v_panic
      end;
      match mcs_new p lens with
      | Ok cs => L (map (mprobe_v p isb cs) (match v_nth 5 v with L l => l | _ => [] end))
      | _ => v_panic
      end;
      res_v (fun l => [list_v (fun t => L [n_v (fst (fst t)); n_v (snd (fst t)); n_v (snd t)]) l])
            (mpcs p lens max) ].

(** the correspondence clause: both profiles of the machine model produce the output [m]
    (the output of the unbounded model, which [agree] demands to be the implementation's) *)
Definition machine_agree (inp m : val) : bool :=
  val_eqb (run_M16 Checked inp) m && val_eqb (run_M16 Wrapping inp) m.

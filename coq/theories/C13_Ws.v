(** C13 proofs, part 3: whitespace-correction counts = set comparison of the two operation sets. *)
From Coq Require Import Lia.
From TU Require Import Base C13_Model.
From TU Require C10_Model C10_Proofs.
Open Scope nat_scope.

Lemma op_eqb_eq : forall a b, C10_Model.op_eqb a b = true <-> a = b.
Proof. intros [] []; cbn; split; intros H; try reflexivity; try discriminate. Qed.

Lemma iop_eqb_eq : forall a b, iop_eqb a b = true <-> a = b.
Proof.
  intros [i o] [j p]. unfold iop_eqb. cbn [fst snd]. rewrite andb_true_iff, Nat.eqb_eq, op_eqb_eq.
  split; [intros [-> ->]; reflexivity|intros H; injection H as -> ->; auto].
Qed.

Lemma mem_iop_spec : forall p s, mem_iop p s = true <-> In p s.
Proof.
  intros p s. unfold mem_iop. rewrite existsb_exists. split.
  - intros (x & Hx & E). apply iop_eqb_eq in E. now subst.
  - intros H. exists p. split; [exact H|now apply iop_eqb_eq].
Qed.

Lemma combine_seq_in : forall (l : list wop) s k o,
  In (k, o) (combine (seq s (length l)) l) <-> s <= k /\ nth_error l (k - s) = Some o.
Proof.
  induction l as [|x l IH]; intros s k o; cbn [length seq combine In].
  - split; [tauto|]. intros [_ H]. destruct (k - s); discriminate.
  - rewrite IH. split.
    + intros [H|[H1 H2]].
      * injection H as <- <-. rewrite Nat.sub_diag. split; [lia|reflexivity].
      * split; [lia|]. replace (k - s) with (S (k - S s)) by lia. exact H2.
    + intros [H1 H2]. destruct (Nat.eq_dec k s) as [->|Hne].
      * rewrite Nat.sub_diag in H2. cbn [nth_error] in H2. injection H2 as ->. left. reflexivity.
      * right. split; [lia|]. replace (k - s) with (S (k - S s)) in H2 by lia. exact H2.
Qed.

(** the operation set: exactly the positions whose operation is selected by the mode *)
Lemma ops_to_set_in : forall m ops k o,
  In (k, o) (ops_to_set m ops) <-> nth_error ops k = Some o /\ in_mode m o = true.
Proof.
  intros m ops k o. unfold ops_to_set. rewrite filter_In, combine_seq_in. cbn [snd].
  rewrite Nat.sub_0_r. split; [tauto|]. intros [H1 H2]. split; [split; [lia|exact H1]|exact H2].
Qed.

Lemma combine_seq_fst_nodup : forall (l : list wop) s, NoDup (map fst (combine (seq s (length l)) l)).
Proof.
  induction l as [|x l IH]; intros s; cbn [length seq combine map]; constructor.
  - intros H. apply in_map_iff in H as ([k o] & E & H). cbn [fst] in E. subst k.
    apply combine_seq_in in H. lia.
  - apply IH.
Qed.

Lemma nodup_filter_fst : forall {A B} (f : A * B -> bool) (l : list (A * B)),
  NoDup (map fst l) -> NoDup (map fst (filter f l)).
Proof.
  intros A B f l. induction l as [|x l IH]; intros H; cbn [filter map]; [constructor|].
  inversion H as [|? ? Hx Hl]; subst. destruct (f x); cbn [map]; [|now apply IH].
  constructor; [|now apply IH]. intros Hin. apply Hx.
  apply in_map_iff in Hin as (y & E & Hy). apply filter_In in Hy as [Hy _].
  apply in_map_iff. exists y. auto.
Qed.

Lemma nodup_of_fst : forall {A B} (l : list (A * B)), NoDup (map fst l) -> NoDup l.
Proof.
  intros A B l. induction l as [|x l IH]; intros H; [constructor|].
  inversion H as [|? ? Hx Hl]; subst. constructor; [|now apply IH].
  intros Hin. apply Hx. now apply in_map.
Qed.

Lemma ops_to_set_nodup : forall m ops, NoDup (ops_to_set m ops).
Proof.
  intros m ops. apply nodup_of_fst. unfold ops_to_set. apply nodup_filter_fst. apply combine_seq_fst_nodup.
Qed.

Lemma set_inter_in : forall a b x, In x (set_inter a b) <-> In x a /\ In x b.
Proof. intros a b x. unfold set_inter. now rewrite filter_In, mem_iop_spec. Qed.

Lemma set_diff_in : forall a b x, In x (set_diff a b) <-> In x a /\ ~ In x b.
Proof.
  intros a b x. unfold set_diff. rewrite filter_In, negb_true_iff. split; intros [H1 H2]; split; auto.
  - intros Hin. apply mem_iop_spec in Hin. congruence.
  - destruct (mem_iop x b) eqn:E; [|reflexivity]. exfalso. apply H2. now apply mem_iop_spec.
Qed.

Lemma filter_nodup : forall {A} (f : A -> bool) l, NoDup l -> NoDup (filter f l).
Proof. intros A f l H. now apply NoDup_filter. Qed.

Lemma set_diff_self : forall a, set_diff a a = [].
Proof.
  intros a. unfold set_diff.
  assert (H : forall l, (forall x, In x l -> In x a) -> filter (fun p => negb (mem_iop p a)) l = []).
  { induction l as [|x l IH]; intros Hl; [reflexivity|]. cbn [filter].
    replace (mem_iop x a) with true by (symmetry; apply mem_iop_spec; apply Hl; left; reflexivity).
    cbn [negb]. apply IH. intros y Hy. apply Hl. now right. }
  apply H. auto.
Qed.

(** * the offsets never go out of bounds *)
Lemma offsets_length : forall ops z, length (offsets_from z ops) = length ops.
Proof. induction ops as [|o r IH]; intros z; cbn [offsets_from length]; [reflexivity|]. now rewrite IH. Qed.

Lemma offset_ops_total : forall offs l,
  Forall (fun p : iop => fst p <= length offs) l -> exists r, offset_ops offs l = Some r.
Proof.
  intros offs. induction l as [|[idx o] l IH]; intros H; [eexists; reflexivity|].
  inversion H as [|? ? Hx Hl]; subst. destruct (IH Hl) as [r Hr]. cbn [offset_ops]. rewrite Hr.
  cbn [fst] in Hx. destruct idx as [|k]; [eexists; reflexivity|].
  destruct (nth_error offs k) eqn:E; [eexists; reflexivity|].
  apply nth_error_None in E. lia.
Qed.

Lemma ops_to_set_bound : forall m ops, Forall (fun p : iop => fst p < length ops) (ops_to_set m ops).
Proof.
  intros m ops. apply Forall_forall. intros [k o] H. apply ops_to_set_in in H as [H _].
  cbn [fst]. apply nth_error_Some. congruence.
Qed.

(** * the three statements *)
(** never the panic value *)
Lemma ws_total_l : forall m i p t, ws_tp_fp_fn m i p t <> Some None.
Proof.
  intros m i p t. unfold ws_tp_fp_fn.
  destruct (C10_Model.operations i t) as [gt|] eqn:Eg; [|discriminate].
  destruct (C10_Model.operations i p) as [pr|] eqn:Ep; [|discriminate].
  pose proof (C10_Proofs.operations_length _ _ _ Eg) as Lg.
  pose proof (C10_Proofs.operations_length _ _ _ Ep) as Lp.
  assert (B : forall l, (forall x, In x l -> In x (ops_to_set m gt) \/ In x (ops_to_set m pr)) ->
              exists r, offset_ops (offsets_from 0 pr) l = Some r).
  { intros l Hl. apply offset_ops_total. rewrite offsets_length. apply Forall_forall. intros x Hx.
    destruct (Hl x Hx) as [H|H].
    - pose proof (ops_to_set_bound m gt) as F. rewrite Forall_forall in F. specialize (F x H). lia.
    - pose proof (ops_to_set_bound m pr) as F. rewrite Forall_forall in F. specialize (F x H). lia. }
  destruct (B (set_inter (ops_to_set m gt) (ops_to_set m pr))) as [a ->].
  { intros x Hx. apply set_inter_in in Hx. tauto. }
  destruct (B (set_diff (ops_to_set m pr) (ops_to_set m gt))) as [b ->].
  { intros x Hx. apply set_diff_in in Hx. tauto. }
  destruct (B (set_diff (ops_to_set m gt) (ops_to_set m pr))) as [c ->].
  { intros x Hx. apply set_diff_in in Hx. tauto. }
  discriminate.
Qed.

(** counts = |G ∩ P|, |P \ G|, |G \ P| for the mode-filtered operation sets G (ground truth) and P
    (prediction), both duplicate-free *)
Lemma ws_counts_spec_l : forall m i p t e tp fp fn info,
  ws_tp_fp_fn m i p t = Some (Some ((e, tp, fp, fn), info)) ->
  exists gt pr tps fps fns,
    C10_Model.operations i t = Some gt /\ C10_Model.operations i p = Some pr /\
    let G := ops_to_set m gt in
    let P := ops_to_set m pr in
    NoDup G /\ NoDup P /\
    (forall k o, In (k, o) G <-> nth_error gt k = Some o /\ in_mode m o = true) /\
    (forall k o, In (k, o) P <-> nth_error pr k = Some o /\ in_mode m o = true) /\
    NoDup tps /\ NoDup fps /\ NoDup fns /\
    (forall x, In x tps <-> In x G /\ In x P) /\
    (forall x, In x fps <-> In x P /\ ~ In x G) /\
    (forall x, In x fns <-> In x G /\ ~ In x P) /\
    tp = length tps /\ fp = length fps /\ fn = length fns /\
    (e = true <-> G = [] /\ P = []).
Proof.
  intros m i p t e tp fp fn info H. unfold ws_tp_fp_fn in H.
  destruct (C10_Model.operations i t) as [gt|]; [|discriminate].
  destruct (C10_Model.operations i p) as [pr|]; [|discriminate].
  destruct (offset_ops _ (set_inter _ _)) as [a|]; [|discriminate].
  destruct (offset_ops _ (set_diff (ops_to_set m pr) _)) as [b|]; [|discriminate].
  destruct (offset_ops _ (set_diff (ops_to_set m gt) _)) as [c|]; [|discriminate].
  injection H as He <- <- <- _.
  exists gt, pr, (set_inter (ops_to_set m gt) (ops_to_set m pr)),
         (set_diff (ops_to_set m pr) (ops_to_set m gt)), (set_diff (ops_to_set m gt) (ops_to_set m pr)).
  split; [reflexivity|]. split; [reflexivity|]. cbv zeta.
  split; [apply ops_to_set_nodup|]. split; [apply ops_to_set_nodup|].
  split; [apply ops_to_set_in|]. split; [apply ops_to_set_in|].
  split; [apply filter_nodup, ops_to_set_nodup|].
  split; [apply filter_nodup, ops_to_set_nodup|].
  split; [apply filter_nodup, ops_to_set_nodup|].
  split; [apply set_inter_in|]. split; [apply set_diff_in|]. split; [apply set_diff_in|].
  split; [reflexivity|]. split; [reflexivity|]. split; [reflexivity|].
  subst e. destruct (ops_to_set m gt); destruct (ops_to_set m pr); split; try tauto; try discriminate;
    intros [A B]; discriminate.
Qed.

(** prediction = target: no false positive, no false negative, the two info lists are empty *)
Lemma ws_pred_eq_target_l : forall m i p e tp fp fn a b c,
  ws_tp_fp_fn m i p p = Some (Some ((e, tp, fp, fn), (a, b, c))) -> fp = 0 /\ fn = 0 /\ b = [] /\ c = [].
Proof.
  intros m i p e tp fp fn a b c H. unfold ws_tp_fp_fn in H.
  destruct (C10_Model.operations i p) as [pr|]; [|discriminate].
  rewrite !set_diff_self in H. cbn [offset_ops length] in H.
  destruct (offset_ops _ (set_inter _ _)) as [a'|]; [|discriminate].
  injection H as _ _ <- <- _ <- <-. auto.
Qed.

(** prediction = input: nothing is predicted, so no true and no false positive *)
Lemma all_keep_ops : forall i ops, C10_Model.operations i i = Some ops -> forall o, In o ops -> o = C10_Model.Keep.
Proof.
  induction i as [|c i IH]; intros ops H o Ho; cbn [C10_Model.operations] in H.
  - injection H as <-. destruct Ho.
  - assert (E : cl_eqb c c = true) by (apply C10_Proofs.cl_eqb_eq; reflexivity). rewrite E in H.
    destruct (C10_Model.operations i i) as [r|] eqn:Er; [|discriminate]. cbn [option_map] in H.
    injection H as <-. destruct Ho as [<-|Ho]; [reflexivity|]. now apply (IH r).
Qed.

Lemma ws_unchanged_l : forall m i t e tp fp fn info,
  ws_tp_fp_fn m i i t = Some (Some ((e, tp, fp, fn), info)) -> tp = 0 /\ fp = 0.
Proof.
  intros m i t e tp fp fn info H.
  destruct (ws_counts_spec_l _ _ _ _ _ _ _ _ _ H) as (gt & pr & tps & fps & fns & _ & Hp & S).
  cbv zeta in S. destruct S as (_ & _ & _ & HP & _ & _ & _ & Htp & Hfp & _ & -> & -> & _).
  assert (E : ops_to_set m pr = []).
  { destruct (ops_to_set m pr) as [|[k o] r] eqn:E; [reflexivity|exfalso].
    assert (Hin : In (k, o) (ops_to_set m pr)) by (rewrite E; left; reflexivity).
    apply ops_to_set_in in Hin as [Hn Hm]. apply nth_error_In in Hn.
    rewrite (all_keep_ops i pr Hp o Hn) in Hm. destruct m; discriminate. }
  rewrite E in Htp, Hfp. split.
  - destruct tps as [|x r]; [reflexivity|]. destruct (proj1 (Htp x) (or_introl eq_refl)) as [_ []].
  - destruct fps as [|x r]; [reflexivity|]. destruct (proj1 (Hfp x) (or_introl eq_refl)) as [[] _].
Qed.

(** Lines — pinned statements about the loader's line reader (src/data/loading.rs:23-93): [LossyUtf8Lines],
    [count_lines], [String::from_utf8_lossy].  Nothing but statements, [exact], and assumption audits.
    [lossy_lines b]: the strings the iterator yields for a file with bytes [b]; [count_lines b]: what [len()] is
    computed from; [lossy]: from_utf8_lossy; [utf8_decode]: the strict decoder (String::from_utf8, C01_Model). *)
From TU Require Import Base C01_Model Lines_Model Lines_Proofs.

(** The structural definition IS the iterator: one [next_line] (= read_until(b'\n'), strip, decode) after the
    other until it reads 0 bytes. *)
Theorem lines_are_the_iterator : forall b,
  lossy_lines b = match next_line b with None => [] | Some (l, r) => l :: lossy_lines r end.
Proof. exact lossy_lines_unfold. Qed.
Print Assumptions lines_are_the_iterator.

(** [len()] is honest, for EVERY byte string (last line without newline, empty file, lone '\r', NUL, invalid
    UTF-8): the generator yields exactly as many items as [count_lines] counted. *)
Theorem len_is_honest : forall b, length (lossy_lines b) = count_lines b.
Proof. exact lines_count. Qed.
Print Assumptions len_is_honest.

(** ... and that number is: the '\n' bytes, plus one for a non-empty unterminated last line. *)
Theorem count_lines_closed_form : forall b, count_lines b = count_lines_spec b.
Proof. exact count_lines_closed. Qed.
Print Assumptions count_lines_closed_form.

(** Lossy decoding is total (a structural function) and returns scalar values only. *)
Theorem lossy_scalars_only : forall b, scalars (lossy b) = true.
Proof. exact lossy_scalars. Qed.
Print Assumptions lossy_scalars_only.

Theorem lines_scalars_only : forall b, Forall (fun l => scalars l = true) (lossy_lines b).
Proof. exact lines_scalars. Qed.
Print Assumptions lines_scalars_only.

(** On valid UTF-8 it is the strict decoder; on invalid UTF-8 at least one U+FFFD appears. *)
Theorem lossy_on_valid : forall b s, utf8_decode b = Some s -> lossy b = s.
Proof. exact lossy_strict. Qed.
Print Assumptions lossy_on_valid.

Theorem lossy_on_invalid : forall b, utf8_decode b = None -> In REPL (lossy b).
Proof. exact lossy_invalid. Qed.
Print Assumptions lossy_on_invalid.

(** Round trip: lines of scalar values without '\n', each written with "\n" or "\r\n" (a line written with a
    bare "\n" must not end in '\r'), are read back exactly. *)
Theorem lines_roundtrip : forall lines, Forall line_ok lines -> lossy_lines (file_of lines) = map fst lines.
Proof. exact lines_roundtrip_l. Qed.
Print Assumptions lines_roundtrip.

(** ... and so is a non-empty last line without terminator (whatever it ends in). *)
Theorem lines_roundtrip_open : forall lines s, Forall line_ok lines ->
  s <> [] -> scalars s = true -> no_nl s = true ->
  lossy_lines (file_of lines ++ utf8s s) = map fst lines ++ [s].
Proof. exact lines_roundtrip_open_l. Qed.
Print Assumptions lines_roundtrip_open.

(** The reader of the pinned tree (before /repo 833c360: [buf.pop()] unconditionally): its count is honest too, it
    agrees with the repaired reader on every file that ends with '\n' (and on the empty file), and it loses the
    last byte of an unterminated last line. *)
Theorem lines_pinned_len : forall b, length (lossy_lines_pinned b) = count_lines b.
Proof. exact lines_pinned_count. Qed.
Print Assumptions lines_pinned_len.

Theorem lines_pinned_same_when_terminated : forall b, (b = [] \/ last b 0%N = 10%N) ->
  lossy_lines_pinned b = lossy_lines b.
Proof. exact lines_pinned_terminated. Qed.
Print Assumptions lines_pinned_same_when_terminated.

Theorem lines_pinned_roundtrip_refuted : exists lines s, Forall line_ok lines /\
  s <> [] /\ scalars s = true /\ no_nl s = true /\
  lossy_lines_pinned (file_of lines ++ utf8s s) <> map fst lines ++ [s].
Proof.
  exists [([97%N], false)], [98%N; 99%N]. split.
  { constructor; [|constructor]. split; [reflexivity|split; [reflexivity|right; reflexivity]]. }
  split; [discriminate|]. split; [reflexivity|]. split; [reflexivity|]. vm_compute. discriminate.
Qed.
Print Assumptions lines_pinned_roundtrip_refuted.

(** Non-vacuity and concrete readings. *)
Example line_ok_witness : Forall line_ok [([97; 233; 128512]%N, false); ([98; 13]%N, true); ([], false)].
Proof.
  repeat apply Forall_cons; try apply Forall_nil; (split; [reflexivity|split; [reflexivity|]]);
    cbn [snd]; first [left; reflexivity|right; reflexivity].
Qed.
Example lines_read : lossy_lines [97; 13; 10; 13; 10; 10; 98; 13]%N = [[97]; []; []; [98; 13]]%N.
Proof. reflexivity. Qed.
Example lines_pinned_read : lossy_lines_pinned [97; 10; 98; 99]%N = [[97]; [98]]%N.
Proof. reflexivity. Qed.
(** maximal invalid subparts: F0 9F 92 is one chunk; E0 80 80 three; ED A0 80 three; FF one; a lone C3 one *)
Example lossy_subparts :
  lossy [240; 159; 146; 97; 224; 128; 128; 237; 160; 128; 255; 195; 195; 169; 0]%N
  = [65533; 97; 65533; 65533; 65533; 65533; 65533; 65533; 65533; 65533; 233; 0]%N.
Proof. reflexivity. Qed.
Example count_open : count_lines [97; 10; 98]%N = 2%nat /\ count_lines [97; 10]%N = 1%nat /\ count_lines [] = 0%nat /\ count_lines [10]%N = 1%nat.
Proof. repeat split. Qed.

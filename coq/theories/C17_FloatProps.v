(** C17 — pinned statements about the binary32 model (C17_Float.v): the f32 weights that
    [TokenGroup::get_weights] returns and [token_groups_to_sparse_coo_matrix] stores, bit for bit.
    Nothing but statements, [exact], and assumption audits.  These theorems go through Flocq's theory of
    [round] / [B2R] and depend on the axioms of Coq's real numbers (allow-listed by exact name in
    props/C17.json); the 18 theorems of C17_Props.v do not and stay closed under the global context.

    [weights_fl mean g] : list f32 = [get_weights] ([mean = false] is Sum); [f32] = Flocq [binary_float 24 128],
    round to nearest even; [weights mean g] : list Q is the rational model of C17_Model.v.
    [depth g] = nesting depth (a Full/Empty group has depth 1), [pmax g] = the largest product of group sizes
    along a path (Full n counts n, Nested l counts |l|), [sizes_okb g] = every size is at most 2^24 (so that
    [usize as f32] is exact), [no_emptyb g] = no [Empty] part with tokens, [all_pow2b g] = every size on every
    path is a power of two, [positiveb g] (C17_Model) = every nested part contains a token. *)
From Coq Require Import ZArith List Bool QArith Qreals Reals Lia.
From Flocq Require Import Core IEEE754.BinarySingleNaN.
From TU Require Import Base C01_Model C17_Model C17_Float C12_FloatBase C17_FloatProofs.
Import ListNotations.

(** one weight per token, for both aggregations (the builder's inner [assert_eq!] never fires) *)
Theorem weights_fl_len : forall mean g, length (weights_fl mean g) = tg_len g.
Proof. exact weights_fl_length. Qed.
Print Assumptions weights_fl_len.

(** Sum: every weight is exactly 1.0 at every nesting depth ([x * 1.0] is exact); an [Empty] part contributes
    exactly +0.0; and the matrix keeps 1.0 on every token of a Sum item (the weights are not even computed) *)
Theorem weights_fl_sum_ones : forall g,
  (no_emptyb g = true -> weights_fl false g = repeat f32_one (tg_len g)) /\
  Forall (fun w => w = f32_one \/ w = f32_zero) (weights_fl false g).
Proof. intros g. split; [apply weights_fl_sum_ones_l|apply weights_fl_sum_01]. Qed.
Print Assumptions weights_fl_sum_ones.

Theorem matrix_fl_sum_ones : forall groups,
  item_vals_fl false groups = repeat f32_one (list_sum (map tg_len groups)).
Proof. exact item_vals_fl_sum. Qed.
Print Assumptions matrix_fl_sum_ones.

(** Mean: every weight is a finite float in [0,1], and in (0,1] when every nested part contains a token
    (sizes up to 2^24, product of the sizes on a path up to 2^100 — beyond 2^126 the product underflows —,
    depth up to 2^22) *)
Theorem weights_fl_range : forall g,
  sizes_okb g = true -> (pmax g <= 2 ^ 100)%Z -> (Z.of_nat (depth g) <= 2 ^ 22)%Z ->
  Forall (fun w => is_finite w = true /\ (0 <= B2R w <= 1)%R) (weights_fl true g) /\
  (positiveb g = true -> Forall (fun w => (0 < B2R w)%R) (weights_fl true g)).
Proof. intros g S P D. exact (weights_fl_range_l g (conj S (conj P D))). Qed.
Print Assumptions weights_fl_range.

(** Mean: a weight at depth d is computed with 2d - 1 roundings (one division per level, one multiplication
    per Nested level) and lies within (1 -+ 2^-24)^(2d-1) of the rational weight; every rational weight is 0
    (an [Empty] part) or at least 1/pmax *)
Theorem weights_fl_ap : forall g,
  sizes_okb g = true -> (pmax g <= 2 ^ 100)%Z -> (Z.of_nat (depth g) <= 2 ^ 22)%Z ->
  Forall2 (fun w q =>
    (Q2R q * (1 - u24) ^ (2 * depth g - 1) <= B2R w <= Q2R q * (1 + u24) ^ (2 * depth g - 1))%R)
    (weights_fl true g) (weights true g).
Proof.
  intros g S P D. eapply Forall2_impl; [|exact (weights_inv g (conj S (conj P D)))].
  intros w q (_ & _ & _ & A & _). exact A.
Qed.
Print Assumptions weights_fl_ap.

(** ... hence, for depth up to 2048, within relative 2 * depth * 2^-24 of the rational weight, and the (exact,
    real) sum of the weights of a group all of whose parts contain a token is within 2 * depth * 2^-24 of 1,
    whatever the number of tokens *)
Theorem weights_fl_close : forall g,
  sizes_okb g = true -> (pmax g <= 2 ^ 100)%Z -> (Z.of_nat (depth g) <= 2048)%Z ->
  Forall2 (fun w q => (Rabs (B2R w - Q2R q) <= INR (2 * depth g) * u24 * Q2R q)%R)
          (weights_fl true g) (weights true g) /\
  (positiveb g = true -> (Rabs (sumR (map B2R (weights_fl true g)) - 1) <= INR (2 * depth g) * u24)%R).
Proof.
  intros g S P D. assert (C : Cok g) by (repeat split; [exact S|exact P|lia]).
  split; [exact (weights_fl_close_l g C D)|exact (weights_fl_sum_close_l g C D)].
Qed.
Print Assumptions weights_fl_close.

(** Mean, every group size on every path a power of two (product up to 2^149): every weight is EXACTLY the
    rational weight and the weights of a group all of whose parts contain a token sum to exactly 1 *)
Theorem weights_fl_pow2_exact : forall g,
  sizes_okb g = true -> all_pow2b g = true -> (pmax g <= 2 ^ 149)%Z ->
  Forall2 (fun w q => is_finite w = true /\ B2R w = Q2R q) (weights_fl true g) (weights true g) /\
  (positiveb g = true -> sumR (map B2R (weights_fl true g)) = 1%R).
Proof. intros g S A P. exact (weights_fl_pow2_exact_l g (conj S (conj A P))). Qed.
Print Assumptions weights_fl_pow2_exact.

(** what this means for the groups the byte tokenizer emits ([cluster_group]: one group per character — [Full #bytes],
    or one nested [Full] per code point — and [Full 1] per special, prefix and suffix token): for every non-empty
    character of at most 2^22 code points there is one weight per byte, every weight is a finite float in (0,1], and
    the weights of the character sum to 1 within 4 * 2^-24 (depth <= 2); a [Full 1] group has the single weight 1.0 *)
Theorem cluster_group_fl : forall cpg c, c <> [] -> (Z.of_nat (length c) <= 2 ^ 22)%Z ->
  let ws := weights_fl true (cluster_group cpg c) in
  length ws = length (utf8s c) /\
  Forall (fun w => is_finite w = true /\ (0 < B2R w <= 1)%R) ws /\
  (Rabs (sumR (map B2R ws) - 1) <= 4 * u24)%R.
Proof. exact cluster_group_fl_l. Qed.
Print Assumptions cluster_group_fl.

Theorem full1_weight_fl : weights_fl true (Full 1) = [f32_one].
Proof. exact full1_fl. Qed.
Print Assumptions full1_weight_fl.

(** ** non-vacuity *)
Definition ex_g : tg := Nested [Full 3; Nested [Full 1; Full 2]; Full 5].
Example ex_g_ok :
  sizes_okb ex_g = true /\ (pmax ex_g <= 2 ^ 100)%Z /\ (Z.of_nat (depth ex_g) <= 2048)%Z /\ positiveb ex_g = true
  /\ no_emptyb ex_g = true /\ depth ex_g = 3%nat /\ pmax ex_g = 15%Z.
Proof. vm_compute. repeat split; discriminate. Qed.
(** its Mean weights, as float fields: 1/9 three times (fl(fl(1/3) * fl(1/3))), 1/6 once, 1/12 twice, 1/15 five times *)
Example ex_g_weights :
  map fl32_v (weights_fl true ex_g)
  = [L [I 1; I 0; I 14913082; I (-27)]; L [I 1; I 0; I 14913082; I (-27)]; L [I 1; I 0; I 14913082; I (-27)];
     L [I 1; I 0; I 11184811; I (-26)];
     L [I 1; I 0; I 11184811; I (-27)]; L [I 1; I 0; I 11184811; I (-27)];
     L [I 1; I 0; I 8947849; I (-27)]; L [I 1; I 0; I 8947849; I (-27)]; L [I 1; I 0; I 8947849; I (-27)];
     L [I 1; I 0; I 8947849; I (-27)]; L [I 1; I 0; I 8947849; I (-27)]]%Z.
Proof. vm_compute. reflexivity. Qed.
Definition ex_p2 : tg := Nested [Full 4; Nested [Full 1; Full 2]; Full 8; Full 1].
Example ex_p2_ok : sizes_okb ex_p2 = true /\ all_pow2b ex_p2 = true /\ (pmax ex_p2 <= 2 ^ 149)%Z /\ positiveb ex_p2 = true.
Proof. vm_compute. repeat split; discriminate. Qed.

(** Pipeline proofs, part 7 (topic Q): the item path and the loader over every tokenizer kind (Pipeline_Toks.v).
    - the byte instance is the old development ([task_k_byte], [pipeline_k_byte]);
    - purity for every kind (the tokenizers do not read the info at all);
    - what [tokenize] of every kind returns: never a panic / fuel, every id a vocabulary id, and with special tokens ignored never an
      Err; byte and BPE ids decode to the text (C01 / C02 transported), the character tokenizer gives one id per character;
    - these facts at the level of the items a loader run delivers. *)
From Coq Require Import Sorting.Permutation.
From TU Require Import RNG_Model.
From TU Require BPE_Model MsgPack_Model C01_UAX29 C02_Proofs C03_Model C03_Proofs C10_Proofs C14_Proofs.
From TU Require Import Base C01_Model C01_Proofs C06_Model C06_Seeded C07_Model C08_Model C08_EndToEnd.
From TU Require Import C10_Model C14_Model C14_Seeded JSON_Model Lines_Model C07_Files Pipeline_Model C08_Pipeline Pipeline_Tasks Pipeline_TasksProofs.
From TU Require Import C08_Bytes C08_BytesProofs Pipeline_Stages Pipeline_StagesProofs Pipeline_Toks.
Require Import Lia ZifyBool ZifyNat ZifyN.
Local Open Scope nat_scope.

(** * the byte instance is the old development *)
Lemma task_k_byte : forall t x, task_k (embed_task t) x = task t x.
Proof.
  intros [g b|mask b ign sep|bi ii bt it|b ign cl] x; cbn [embed_task task_k task].
  - unfold ktask_wsc, task_wsc, k_tokenize, k_pad, k_npre, k_nsuf. cbn [k_base].
    destruct (byte_tokenize b (it_in x) true) as [ids|]; cbn [rbind]; [|reflexivity].
    destruct (operations _ _); reflexivity.
  - unfold ktask_gen, task_gen, kgen_mask_len, gen_mask_len, k_tokenize, k_pad, k_nsuf. cbn [k_base].
    destruct mask.
    + destruct (byte_tokenize b (it_in x ++ osep sep) ign) as [pids|]; cbn [rbind option_map]; [|reflexivity].
      destruct (byte_tokenize b (it_in x ++ osep sep ++ it_tg x) ign); reflexivity.
    + cbn [rbind]. destruct (byte_tokenize b (it_in x ++ osep sep ++ it_tg x) ign); reflexivity.
  - unfold ktask_cond, task_cond, k_tokenize, k_pad. cbn [k_base].
    destruct (byte_tokenize bi (it_in x) ii); cbn [rbind]; [|reflexivity].
    destruct (byte_tokenize bt (it_tg x) it); reflexivity.
  - unfold ktask_class, task_class, k_tokenize, k_pad. cbn [k_base].
    destruct (byte_tokenize b (it_in x) ign); cbn [rbind]; [|reflexivity].
    destruct (class_idx cl (it_tg x) 0); reflexivity.
Qed.

Lemma pipeline_k_byte : forall opq qopq p t q maxlen x i,
  pipeline_k opq qopq p (embed_task t) q maxlen x i = pipeline_t opq qopq p t q maxlen x i.
Proof.
  intros. unfold pipeline_k, pipeline_t. destruct (preprocess opq p x i) as [xi| |]; cbn [rbind]; [|reflexivity|reflexivity].
  rewrite task_k_byte. reflexivity.
Qed.

(** * the structure of an Ok result *)
Lemma pipeline_k_ok : forall opq qopq p t q maxlen x i y,
  pipeline_k opq qopq p t q maxlen x i = ROk y ->
  exists x' i' inp i'', preprocess opq p x i = ROk (x', i') /\ task_k t x' = ROk inp /\
    postprocess qopq maxlen q (mk_xitem x' inp) i' = ROk (y, i'').
Proof.
  intros opq qopq p t q maxlen x i y H. unfold pipeline_k in H.
  destruct (preprocess opq p x i) as [[x' i']| |]; cbn [rbind fst snd] in H; [|discriminate|discriminate].
  destruct (task_k t x') as [inp| |] eqn:Et; cbn [rbind] in H; [|discriminate|discriminate].
  destruct (postprocess qopq maxlen q (mk_xitem x' inp) i') as [[y' i'']| |] eqn:E; cbn [rbind fst] in H; [|discriminate|discriminate].
  injection H as <-. exists x', i', inp, i''. split; [reflexivity|]. split; [exact Et|exact E].
Qed.

(** postprocessing None: the item is the preprocessed data with the task's output *)
Lemma pipeline_k_ok_none : forall opq qopq p t maxlen x i y,
  pipeline_k opq qopq p t (QGlobal QNone) maxlen x i = ROk y ->
  exists i', preprocess opq p x i = ROk (x_data y, i') /\ task_k t (x_data y) = ROk (x_in y).
Proof.
  intros opq qopq p t maxlen x i y H. destruct (pipeline_k_ok _ _ _ _ _ _ _ _ _ H) as (x' & i' & inp & i'' & Hp & Ht & Hq).
  cbn [postprocess postproc] in Hq. injection Hq as <- _. exists i'. split; assumption.
Qed.

(** * purity: the file index is irrelevant, whatever the tokenizers *)
Section Equivariance.
Variable opq : nat -> item -> info -> res (item * info).
Variable qopq : nat -> xitem -> info -> res (xitem * info).
Hypothesis opq_file : forall id x i fl, opq id x (set_file fl i) = rmap (snd_file fl) (opq id x i).
Hypothesis qopq_file : forall id x i fl, qopq id x (set_file fl i) = rmap (snd_file fl) (qopq id x i).

Lemma pipeline_k_file : forall c t q maxlen x i f,
  pipeline_k opq qopq (PGlobal c) t (QGlobal q) maxlen x (set_file f i) =
  pipeline_k opq qopq (PGlobal c) t (QGlobal q) maxlen x i.
Proof.
  intros c t q maxlen x i f. unfold pipeline_k, preprocess, postprocess. rewrite (preproc_file_g opq opq_file c x i f).
  destruct (preproc opq c x i) as [[a j]| |]; cbn [rmap rbind snd_file fst snd]; [|reflexivity|reflexivity].
  destruct (task_k t a) as [inp| |]; cbn [rbind]; [|reflexivity|reflexivity].
  rewrite (postproc_file_g qopq qopq_file maxlen q _ j f).
  destruct (postproc qopq maxlen q _ j) as [[y k]| |]; reflexivity.
Qed.

Lemma pipeline_k_function_of_seed : forall c t q maxlen x i i',
  i_seed i = i_seed i' -> i_marks i = i_marks i' ->
  pipeline_k opq qopq (PGlobal c) t (QGlobal q) maxlen x i =
  pipeline_k opq qopq (PGlobal c) t (QGlobal q) maxlen x i'.
Proof.
  intros c t q maxlen x i i' Hs Hm.
  rewrite <- (pipeline_k_file c t q maxlen x i (i_file i')). f_equal.
  destruct i as [s f m], i' as [s' f' m']. cbn [i_seed i_marks i_file set_file] in *. subst. reflexivity.
Qed.
End Equivariance.

Lemma pipeline_k_tab_function_of_seed : forall st qs c t q maxlen x i i',
  i_seed i = i_seed i' -> i_marks i = i_marks i' ->
  pipeline_k (opq_tab st) (qopq_tab qs) (PGlobal c) t (QGlobal q) maxlen x i =
  pipeline_k (opq_tab st) (qopq_tab qs) (PGlobal c) t (QGlobal q) maxlen x i'.
Proof. intros st qs. apply pipeline_k_function_of_seed; [apply opq_tab_file|apply qopq_tab_file]. Qed.

(** * the loader theorems, instantiated *)
Lemma k_item_by_index : forall opq qopq p t q maxlen seed epoch data lim skip ff rank W i y,
  In (i, y) (loader_items data (g_fn (pipe_res_k opq qopq p t q maxlen seed epoch)) lim skip ff rank W) ->
  exists fl line, nth i data None = Some (fl, line) /\
    pipeline_k opq qopq p t q maxlen line (item_info seed epoch i fl) = ROk y.
Proof.
  intros opq qopq p t q maxlen seed epoch data lim skip ff rank W i y H.
  destruct (g_item_by_index _ _ _ _ _ _ _ _ _ H) as ([fl line] & Hd & Hp).
  exists fl, line. split; [exact Hd|exact Hp].
Qed.

(** * what [tokenize] returns, for every kind *)
Definition vbound (b : base) : N := (b_off b + N.of_nat (length (b_sv b)))%N.
Definition valid_ids (b : base) (ids : list N) : Prop := Forall (fun i => (i < vbound b)%N) ids.

Lemma sp_id_valid b t i : sp_id (b_off b) (b_sv b) t = Some i -> (i < vbound b)%N.
Proof. intros H. apply sp_id_tok in H. unfold vbound. lia. Qed.

Lemma ids_of_valid b toks ids : ids_of b toks ids -> valid_ids b ids.
Proof. unfold ids_of, valid_ids. induction 1; constructor; [eapply sp_id_valid; eassumption|assumption]. Qed.

Definition reg_scalars (g : seg) : Prop := match g with Reg r => scalars r = true | Spec _ => True end.
Definition spec_in (sv : list str) (g : seg) : Prop := match g with Spec t => In t sv | Reg _ => True end.

Lemma cons_reg_scalars c l : scalar c = true -> Forall reg_scalars l -> Forall reg_scalars (cons_reg c l).
Proof.
  intros Hc Hl. destruct l as [|[r|t] rest]; cbn [cons_reg].
  - constructor; [|constructor]. unfold reg_scalars, scalars. cbn [forallb]. rewrite Hc. reflexivity.
  - inversion Hl as [|? ? Hr Hrest]; subst. constructor; [|exact Hrest].
    unfold reg_scalars, scalars in *. cbn [forallb]. rewrite Hc. exact Hr.
  - constructor; [|exact Hl]. unfold reg_scalars, scalars. cbn [forallb]. rewrite Hc. reflexivity.
Qed.

Lemma scan_regs_scalars toks : forall s k, scalars s = true -> Forall reg_scalars (scan toks s k).
Proof.
  induction s as [|c r IH]; intros k Hs; cbn [scan]; [constructor|].
  unfold scalars in Hs. cbn [forallb] in Hs. apply andb_true_iff in Hs as [Hc Hr].
  destruct k as [|k]; [|apply IH; exact Hr].
  destruct (first_match toks (c :: r)) as [t|].
  - constructor; [exact Logic.I|apply IH; exact Hr].
  - apply cons_reg_scalars; [exact Hc|apply IH; exact Hr].
Qed.

Lemma split_regs_scalars sv s ign : scalars s = true -> Forall reg_scalars (split_input sv s ign).
Proof.
  intros Hs. unfold split_input. destruct ign; [constructor; [exact Hs|constructor]|apply scan_regs_scalars; exact Hs].
Qed.

Lemma split_spec_in sv s ign : Forall (spec_in sv) (split_input sv s ign).
Proof.
  unfold split_input. destruct ign; [constructor; [exact Logic.I|constructor]|].
  eapply Forall_impl; [|apply scan_seg_in]. intros [r|t] H; [exact Logic.I|exact H].
Qed.

Lemma scalars_valid s : scalars s = true -> Forall BPE_Model.valid_cp s.
Proof.
  unfold scalars. intros H. apply Forall_forall. intros c Hc. apply (proj1 (forallb_forall _ _) H) in Hc.
  unfold scalar in Hc. unfold BPE_Model.valid_cp. lia.
Qed.

(** ** byte *)
Lemma byte_seg_rel_valid b : b_off b = 256%N -> forall segs ls, Forall reg_scalars segs ->
  Forall2 (seg_ids_rel b) segs ls -> valid_ids b (concat ls).
Proof.
  intros Hoff segs ls Hs H. revert Hs. induction H as [|g l segs ls Hg _ IH]; intros Hs; [constructor|].
  inversion Hs as [|? ? Hg1 Hs1]; subst. cbn [concat]. apply Forall_app. split; [|apply IH; exact Hs1].
  destruct g as [r|t]; cbn [seg_ids_rel reg_scalars] in *.
  - subst l. eapply Forall_impl; [|apply utf8s_lt256; exact Hg1]. intros a Ha. cbn beta in Ha. unfold vbound. lia.
  - destruct Hg as (i & Hi & ->). constructor; [eapply sp_id_valid; exact Hi|constructor].
Qed.

Lemma byte_tok_valid tokens padto pad prefix suffix b s ign :
  byte_base tokens padto pad prefix suffix = Some b -> scalars s = true ->
  exists ids, byte_tokenize b s ign = Some ids /\ valid_ids b ids.
Proof.
  intros Hb Hs. destruct (byte_tokenize_shape_l _ _ _ _ _ _ s ign Hb) as (Hp & Hq & Hoff & body & Ht & Hign & Hpar).
  exists (b_pre b ++ body ++ b_suf b). split; [exact Ht|].
  unfold valid_ids. apply Forall_app. split; [exact (ids_of_valid _ _ _ Hp)|].
  apply Forall_app. split; [|exact (ids_of_valid _ _ _ Hq)].
  destruct ign.
  - rewrite (Hign eq_refl). eapply Forall_impl; [|apply utf8s_lt256; exact Hs]. intros a Ha. cbn beta in Ha. unfold vbound. lia.
  - destruct (Hpar eq_refl) as (ls & Hls & ->). eapply (byte_seg_rel_valid b Hoff); [|exact Hls].
    apply scan_regs_scalars. exact Hs.
Qed.

(** with special tokens ignored the ids between prefix and suffix ARE the UTF-8 bytes of the text *)
Lemma byte_ids_are_bytes tokens padto pad prefix suffix b s ids :
  byte_base tokens padto pad prefix suffix = Some b -> byte_tokenize b s true = Some ids -> middle b ids = utf8s s.
Proof.
  intros Hb Ht. destruct (byte_tokenize_shape_l _ _ _ _ _ _ s true Hb) as (_ & _ & _ & body & Ht' & Hign & _).
  rewrite Ht' in Ht. injection Ht as <-. rewrite middle_app. apply Hign. reflexivity.
Qed.

(** ** character *)
Lemma index_ofN_lt c l k : index_ofN c l = Some k -> k < length l.
Proof. intros H. apply index_ofN_nth in H. apply nth_error_Some. congruence. Qed.

Lemma char_id_valid b A u c : b_off b = N.of_nat (length A) -> (u < vbound b)%N -> (char_id A u c < vbound b)%N.
Proof.
  intros Hoff Hu. unfold char_id. destruct c as [|x [|y r]]; try exact Hu.
  destruct (index_ofN x A) as [i|] eqn:E; [|exact Hu]. apply index_ofN_lt in E. unfold vbound. rewrite Hoff. unfold cp in *. lia.
Qed.

Lemma char_segs_valid b A u g : b_off b = N.of_nat (length A) -> (u < vbound b)%N ->
  forall segs os, valid_ids b (char_segs_ids b A u g segs os).
Proof.
  intros Hoff Hu. induction segs as [|[r|t] rest IH]; intros os; cbn [char_segs_ids]; [constructor| |].
  - apply Forall_app. split; [|apply IH]. apply Forall_forall. intros i Hi.
    apply in_map_iff in Hi as (c & <- & _). apply char_id_valid; assumption.
  - constructor; [|apply IH]. destruct (sp_id (b_off b) (b_sv b) t) as [i|] eqn:E; [eapply sp_id_valid; exact E|exact Hu].
Qed.

Lemma char_tok_valid A tokens unk pad prefix suffix b g s ign os :
  char_base A tokens unk pad prefix suffix = Some b ->
  exists ids, char_tokenize b A unk g s ign os = Some ids /\ valid_ids b ids.
Proof.
  intros Hb. destruct (char_base_spec _ _ _ _ _ _ _ Hb) as (Hoff & Hp & Hq & u & Hu & _).
  unfold char_tokenize, char_body. rewrite Hu. cbn [option_map]. eexists. split; [reflexivity|].
  unfold add_pre_suf, valid_ids. apply Forall_app. split; [exact (ids_of_valid _ _ _ Hp)|].
  apply Forall_app. split; [|exact (ids_of_valid _ _ _ Hq)].
  apply char_segs_valid; [exact Hoff|eapply sp_id_valid; exact Hu].
Qed.

(** ** BPE *)
Lemma bpe_segs_valid b tbl : b_off b = (256 + N.of_nat (length tbl))%N ->
  forall segs, Forall reg_scalars segs -> Forall (spec_in (b_sv b)) segs ->
  exists body, bpe_segs b tbl segs = SgOk body /\ valid_ids b body.
Proof.
  intros Hoff. induction segs as [|g rest IH]; intros Hs Hin; cbn [bpe_segs]; [exists []; split; [reflexivity|constructor]|].
  inversion Hs as [|? ? Hg Hs']; subst. inversion Hin as [|? ? Hgi Hin']; subst.
  destruct (IH Hs' Hin') as (rest_ids & Hr & Hv).
  destruct g as [r|t]; cbn [bpe_seg_ids reg_scalars spec_in] in *.
  - destruct (C02_Proofs.body_lossless tbl r (scalars_valid _ Hg)) as (body & Hb & _ & Hbv). rewrite Hb, Hr.
    eexists. split; [reflexivity|]. apply Forall_app. split; [|exact Hv].
    eapply Forall_impl; [|exact Hbv]. intros a Ha. cbn beta in Ha. unfold vbound. lia.
  - destruct (sp_id_In (b_off b) (b_sv b) t Hgi) as [i Hi]. rewrite Hi, Hr. eexists. split; [reflexivity|].
    constructor; [eapply sp_id_valid; exact Hi|exact Hv].
Qed.

(** ** every kind: [tokenize] is TOTAL on texts of scalar values (no Err, no panic, no fuel) and every id it returns is a
    vocabulary id *)
Definition ids_valid (k : tokz) (ids : list N) : Prop := Forall (fun i => (i < k_vocab k)%N) ids.

Lemma k_tokenize_total_valid : forall d k s ign, build d = Some k -> scalars s = true ->
  exists ids, k_tokenize k s ign = ROk ids /\ ids_valid k ids.
Proof.
  intros [sp padto|sp unk g A|sp tbl maxv] k s ign Hb Hs; cbn [build] in Hb.
  - destruct (byte_base _ _ _ _ _) as [b|] eqn:Eb; [|discriminate]. injection Hb as <-.
    destruct (byte_tok_valid _ _ _ _ _ _ s ign Eb Hs) as (ids & Ht & Hv). exists ids. cbn [k_tokenize]. rewrite Ht.
    split; [reflexivity|exact Hv].
  - destruct (char_base _ _ _ _ _ _) as [b|] eqn:Eb; [|discriminate]. injection Hb as <-.
    destruct (char_tok_valid _ _ _ _ _ _ _ g s ign (C01_UAX29.oracle_u g (split_input (b_sv b) s ign)) Eb) as (ids & Ht & Hv).
    exists ids. cbn [k_tokenize]. rewrite Ht. split; [reflexivity|exact Hv].
  - destruct (mk_base _ _ _ _ _) as [b|] eqn:Eb; [|discriminate]. injection Hb as <-.
    apply mk_base_spec in Eb as (Hoff & _ & Hp & Hq & _).
    destruct (bpe_segs_valid b (bpe_eff sp tbl maxv) Hoff (split_input (b_sv b) s ign)
                (split_regs_scalars _ _ _ Hs) (split_spec_in _ _ _)) as (body & Hbd & Hv).
    exists (add_pre_suf b body). cbn [k_tokenize]. rewrite Hbd. split; [reflexivity|].
    unfold add_pre_suf, ids_valid. apply Forall_app. split; [exact (ids_of_valid _ _ _ Hp)|].
    apply Forall_app. split; [exact Hv|exact (ids_of_valid _ _ _ Hq)].
Qed.

(** ** BPE through the loader path: with special tokens ignored the ids between prefix and suffix are the canonical BPE
    (lowest merge id, leftmost) of every word of the text under the EFFECTIVE table — the table after the vocabulary
    limit — and decode to the text without its trailing whitespace *)
Lemma bpe_ids_canonical_lossless : forall sp tbl maxv k s ids, build (DBpe sp tbl maxv) = Some k -> scalars s = true ->
  k_tokenize k s true = ROk ids ->
  exists b, k = KBpe b (bpe_eff sp tbl maxv) /\
    middle b ids = C03_Model.canon_text (bpe_eff sp tbl maxv) s /\
    BPE_Model.bpe_decode (bpe_eff sp tbl maxv) (middle b ids) = utf8s (BPE_Model.strip_trailing_ws s).
Proof.
  intros sp tbl maxv k s ids Hb Hs Ht. cbn [build] in Hb.
  destruct (mk_base _ _ _ _ _) as [b|] eqn:Eb; [|discriminate]. injection Hb as <-. exists b. split; [reflexivity|].
  cbn [k_tokenize] in Ht. unfold split_input in Ht. cbn [bpe_segs bpe_seg_ids] in Ht.
  pose proof (C03_Proofs.bpe_body_canonical_l (bpe_eff sp tbl maxv) s (scalars_valid _ Hs)) as Hc.
  destruct (C02_Proofs.body_lossless (bpe_eff sp tbl maxv) s (scalars_valid _ Hs)) as (body & Hbd & Hdec & _).
  rewrite Hbd in Ht. rewrite Hbd in Hc. injection Hc as Hc. injection Ht as <-. rewrite app_nil_r.
  unfold add_pre_suf. rewrite middle_app. split; [exact Hc|exact Hdec].
Qed.

(** ** the whitespace-correction task with the character tokenizer in the task's own mode: ONE LABEL PER TOKEN ID *)
Lemma wsc_char_one_label : forall sp unk g A k x ids pad ls,
  build (DChar sp unk g A) = Some k -> task_k (KWsc g k) x = ROk (TISeq ids pad ls) -> length ids = length ls.
Proof.
  intros sp unk g A k x ids pad ls Hb Ht. cbn [build] in Hb.
  destruct (char_base _ _ _ _ _ _) as [b|] eqn:Eb; [|discriminate]. injection Hb as <-.
  cbn [task_k] in Ht. unfold ktask_wsc in Ht. cbn [k_tokenize] in Ht.
  destruct (char_len_l _ _ _ _ _ _ _ g (it_in x) true (C01_UAX29.oracle_u g (split_input (b_sv b) (it_in x) true)) Eb)
    as (ids' & Hids & Hlen).
  rewrite Hids in Ht. cbn [rbind] in Ht.
  destruct (operations (seg_of g (it_in x)) (seg_of g (it_tg x))) as [ops|] eqn:Eo; [|discriminate].
  injection Ht as <- _ <-. rewrite Hlen, C14_Proofs.labels_length, (C10_Proofs.operations_length _ _ _ Eo).
  destruct (char_base_spec _ _ _ _ _ _ _ Eb) as (_ & Hp & Hq & _).
  unfold k_npre, k_nsuf. cbn [k_base]. rewrite (ids_of_length _ _ _ Hp), (ids_of_length _ _ _ Hq).
  unfold split_input. cbn [n_chars C01_UAX29.oracle_u hd tl]. unfold clusters_of, C01_UAX29.seg_of, seg_of.
  destruct g; lia.
Qed.

(** * the tasks: every token id of the task's output is an id of the vocabulary of the tokenizer that produced it *)
Definition built (k : tokz) : Prop := exists d, build d = Some k.
Definition task_built (t : ktask) : Prop :=
  match t with
  | KWsc _ k | KGen _ k _ _ | KClass k _ _ => built k
  | KCond ki _ kt _ => built ki /\ built kt
  end.

Definition tin_valid (t : ktask) (inp : tinput) : Prop :=
  match t, inp with
  | KWsc _ k, TISeq ids _ _ => ids_valid k ids
  | KGen _ k _ _, TIGen ids _ _ => ids_valid k ids
  | KClass k _ _, TIClass ids _ _ => ids_valid k ids
  | KCond ki _ kt _, TICond ids _ tids _ _ => ids_valid ki ids /\ ids_valid kt tids
  | _, _ => False
  end.

(** the texts the task tokenizes consist of scalar values (any Rust [String] does) *)
Definition task_scalars (t : ktask) (x : item) : Prop :=
  scalars (it_in x) = true /\ scalars (it_tg x) = true /\
  match t with KGen _ _ _ sep => scalars (osep sep) = true | _ => True end.

Lemma removelast_Forall {A} (P : A -> Prop) : forall l, Forall P l -> Forall P (removelast l).
Proof.
  induction l as [|a [|b r] IH]; intros H; cbn [removelast]; [constructor|constructor|].
  inversion H; subst. constructor; [assumption|apply IH; assumption].
Qed.

Lemma task_k_valid : forall t x inp, task_built t -> task_scalars t x -> task_k t x = ROk inp -> tin_valid t inp.
Proof.
  intros [g k|mask k ign sep|ki ii kt it|k ign cl] x inp Hb (Hi & Htg & Hsep) Ht; cbn [task_k task_built] in *.
  - destruct Hb as [d Hd]. unfold ktask_wsc in Ht.
    destruct (k_tokenize_total_valid d k (it_in x) true Hd Hi) as (ids & Hk & Hv). rewrite Hk in Ht. cbn [rbind] in Ht.
    destruct (operations _ _); [|discriminate]. injection Ht as <-. exact Hv.
  - destruct Hb as [d Hd]. unfold ktask_gen in Ht.
    destruct (kgen_mask_len mask k ign sep x) as [ml| |]; cbn [rbind] in Ht; [|discriminate|discriminate].
    assert (Hs : scalars (it_in x ++ osep sep ++ it_tg x) = true) by (rewrite !scalars_app, Hi, Hsep, Htg; reflexivity).
    destruct (k_tokenize_total_valid d k _ ign Hd Hs) as (ids & Hk & Hv). rewrite Hk in Ht. cbn [rbind] in Ht.
    injection Ht as <-. cbn [tin_valid]. apply removelast_Forall. exact Hv.
  - destruct Hb as [[di Hdi] [dt Hdt]]. unfold ktask_cond in Ht.
    destruct (k_tokenize_total_valid di ki (it_in x) ii Hdi Hi) as (ids & Hk & Hv). rewrite Hk in Ht. cbn [rbind] in Ht.
    destruct (k_tokenize_total_valid dt kt (it_tg x) it Hdt Htg) as (tids & Hk' & Hv'). rewrite Hk' in Ht. cbn [rbind] in Ht.
    injection Ht as <-. cbn [tin_valid]. split; [exact Hv|apply removelast_Forall; exact Hv'].
  - destruct Hb as [d Hd]. unfold ktask_class in Ht.
    destruct (k_tokenize_total_valid d k (it_in x) ign Hd Hi) as (ids & Hk & Hv). rewrite Hk in Ht. cbn [rbind] in Ht.
    destruct (class_idx cl (it_tg x) 0); [|discriminate]. injection Ht as <-. exact Hv.
Qed.

(** the tokenizers never make a task panic, and the only Err a task can return on such texts is its own
    ([operations]: 3, unknown class: 4) — never the tokenizer's *)
Lemma task_k_outcomes : forall t x, task_built t -> task_scalars t x ->
  match task_k t x with
  | ROk _ => True
  | RErr e => e = 3%N \/ e = 4%N
  | RPanic _ => False
  end.
Proof.
  intros [g k|mask k ign sep|ki ii kt it|k ign cl] x Hb (Hi & Htg & Hsep); cbn [task_k task_built] in *.
  - destruct Hb as [d Hd]. unfold ktask_wsc.
    destruct (k_tokenize_total_valid d k (it_in x) true Hd Hi) as (ids & Hk & _). rewrite Hk. cbn [rbind].
    destruct (operations _ _); [exact Logic.I|left; reflexivity].
  - destruct Hb as [d Hd]. unfold ktask_gen, kgen_mask_len.
    assert (Hs1 : scalars (it_in x ++ osep sep) = true) by (rewrite !scalars_app, Hi, Hsep; reflexivity).
    assert (Hs : scalars (it_in x ++ osep sep ++ it_tg x) = true) by (rewrite !scalars_app, Hi, Hsep, Htg; reflexivity).
    destruct (k_tokenize_total_valid d k _ ign Hd Hs) as (ids & Hk & _).
    destruct (k_tokenize_total_valid d k _ ign Hd Hs1) as (pids & Hk1 & _).
    destruct mask; [rewrite Hk1|]; cbn [rbind]; rewrite Hk; exact Logic.I.
  - destruct Hb as [[di Hdi] [dt Hdt]]. unfold ktask_cond.
    destruct (k_tokenize_total_valid di ki (it_in x) ii Hdi Hi) as (ids & Hk & _). rewrite Hk. cbn [rbind].
    destruct (k_tokenize_total_valid dt kt (it_tg x) it Hdt Htg) as (tids & Hk' & _). rewrite Hk'. exact Logic.I.
  - destruct Hb as [d Hd]. unfold ktask_class.
    destruct (k_tokenize_total_valid d k (it_in x) ign Hd Hi) as (ids & Hk & _). rewrite Hk. cbn [rbind].
    destruct (class_idx cl (it_tg x) 0); [exact Logic.I|right; reflexivity].
Qed.

Lemma Forall_app_l {A} (P : A -> Prop) a r : Forall P (a ++ r) -> Forall P a.
Proof. intros H. apply Forall_app in H. tauto. Qed.

Lemma tin_prefix_valid : forall t a b, tin_prefix a b -> tin_valid t b -> tin_valid t a.
Proof.
  intros t a b Hp Hv.
  destruct t, a, b; cbn [tin_prefix tin_valid] in *; try contradiction.
  - destruct Hp as (_ & (r & ->) & _). eapply Forall_app_l. exact Hv.
  - destruct Hp as (_ & (r & ->) & _). eapply Forall_app_l. exact Hv.
  - destruct Hp as (_ & _ & (r & ->) & (r' & ->) & _). destruct Hv as [H1 H2]. split; eapply Forall_app_l; eassumption.
  - destruct Hp as (_ & _ & (r & ->)). eapply Forall_app_l. exact Hv.
Qed.

(** * at the loader *)
(** every token id of every delivered item is a vocabulary id of its tokenizer: any preprocessing (opaque stages
    included), any task over built tokenizers, any postprocessing without TokenMasking, any rank / world / window *)
Lemma delivered_ids_valid : forall opq p t c maxlen seed epoch data lim skip ff rank W i y,
  task_built t -> q_has_opaque c = false ->
  In (i, y) (loader_items data (g_fn (pipe_res_k opq qopq_none p t (QGlobal c) maxlen seed epoch)) lim skip ff rank W) ->
  task_scalars t (x_data y) -> tin_valid t (x_in y).
Proof.
  intros opq p t c maxlen seed epoch data lim skip ff rank W i y Hb Hc Hin Hs.
  destruct (k_item_by_index _ _ _ _ _ _ _ _ _ _ _ _ _ _ _ _ Hin) as (fl & line & _ & Hp).
  destruct (pipeline_k_ok _ _ _ _ _ _ _ _ _ Hp) as (x' & i' & inp & i'' & _ & Ht & Hq).
  cbn [postprocess] in Hq. pose proof (postproc_rel maxlen c Hc (mk_xitem x' inp) i') as Hrel. rewrite Hq in Hrel.
  destruct Hrel as (_ & Hd & Hpre & _). cbn [x_data x_in] in Hd, Hpre. rewrite Hd in Hs.
  eapply tin_prefix_valid; [exact Hpre|]. eapply task_k_valid; eassumption.
Qed.

(** the tasks that tokenize the input text alone *)
Definition input_side (t : ktask) : option (tokz * bool) :=
  match t with
  | KWsc _ k => Some (k, true)
  | KClass k ign _ => Some (k, ign)
  | KCond ki ii _ _ => Some (ki, ii)
  | KGen _ _ _ _ => None
  end.

Lemma task_k_input_ids : forall t x inp k ign, input_side t = Some (k, ign) -> task_k t x = ROk inp ->
  k_tokenize k (it_in x) ign = ROk (tin_ids inp).
Proof.
  intros [g k0|mask k0 ign0 sep|ki ii kt it|k0 ign0 cl] x inp k ign Hs Ht; cbn [input_side] in Hs; try discriminate;
    injection Hs as <- <-; cbn [task_k] in Ht.
  - unfold ktask_wsc in Ht. destruct (k_tokenize k0 (it_in x) true) as [ids| |]; cbn [rbind] in Ht; try discriminate.
    destruct (operations _ _); [|discriminate]. injection Ht as <-. reflexivity.
  - unfold ktask_cond in Ht. destruct (k_tokenize ki (it_in x) ii) as [ids| |]; cbn [rbind] in Ht; try discriminate.
    destruct (k_tokenize kt (it_tg x) it) as [tids| |]; cbn [rbind] in Ht; try discriminate. injection Ht as <-. reflexivity.
  - unfold ktask_class in Ht. destruct (k_tokenize k0 (it_in x) ign0) as [ids| |]; cbn [rbind] in Ht; try discriminate.
    destruct (class_idx cl (it_tg x) 0); [|discriminate]. injection Ht as <-. reflexivity.
Qed.

(** lossless through the loader (postprocessing None, special tokens ignored): the token ids of a delivered item, between
    the prefix and suffix tokens, are — byte tokenizer — the UTF-8 bytes of the item's own processed input text; — BPE —
    the canonical BPE of it under the effective table, decoding to the text without its trailing whitespace *)
Lemma delivered_ids_lossless : forall opq qopq p t maxlen seed epoch data lim skip ff rank W i y k,
  In (i, y) (loader_items data (g_fn (pipe_res_k opq qopq p t (QGlobal QNone) maxlen seed epoch)) lim skip ff rank W) ->
  input_side t = Some (k, true) -> scalars (it_in (x_data y)) = true ->
  (forall tokens padto pad prefix suffix b, k = KByte b -> byte_base tokens padto pad prefix suffix = Some b ->
     middle b (tin_ids (x_in y)) = utf8s (it_in (x_data y))) /\
  (forall sp tbl maxv, build (DBpe sp tbl maxv) = Some k ->
     exists b, k = KBpe b (bpe_eff sp tbl maxv) /\
       middle b (tin_ids (x_in y)) = C03_Model.canon_text (bpe_eff sp tbl maxv) (it_in (x_data y)) /\
       BPE_Model.bpe_decode (bpe_eff sp tbl maxv) (middle b (tin_ids (x_in y)))
       = utf8s (BPE_Model.strip_trailing_ws (it_in (x_data y)))).
Proof.
  intros opq qopq p t maxlen seed epoch data lim skip ff rank W i y k Hin Hside Hs.
  destruct (k_item_by_index _ _ _ _ _ _ _ _ _ _ _ _ _ _ _ _ Hin) as (fl & line & _ & Hp).
  destruct (pipeline_k_ok_none _ _ _ _ _ _ _ _ Hp) as (i' & _ & Ht).
  pose proof (task_k_input_ids _ _ _ _ _ Hside Ht) as Hk. split.
  - intros tokens padto pad prefix suffix b -> Hb. cbn [k_tokenize] in Hk.
    destruct (byte_tokenize b (it_in (x_data y)) true) as [ids|] eqn:E; [|discriminate]. injection Hk as Hk. rewrite <- Hk.
    eapply byte_ids_are_bytes; eassumption.
  - intros sp tbl maxv Hb. exact (bpe_ids_canonical_lossless _ _ _ _ _ _ Hb Hs Hk).
Qed.

(** labels aligned with ids through the loader: whitespace correction with the character tokenizer in the task's mode *)
Lemma delivered_wsc_char_aligned : forall opq qopq p sp unk g A k maxlen seed epoch data lim skip ff rank W i y,
  build (DChar sp unk g A) = Some k ->
  In (i, y) (loader_items data (g_fn (pipe_res_k opq qopq p (KWsc g k) (QGlobal QNone) maxlen seed epoch)) lim skip ff rank W) ->
  exists ids pad ls, x_in y = TISeq ids pad ls /\ length ids = length ls.
Proof.
  intros opq qopq p sp unk g A k maxlen seed epoch data lim skip ff rank W i y Hb Hin.
  destruct (k_item_by_index _ _ _ _ _ _ _ _ _ _ _ _ _ _ _ _ Hin) as (fl & line & _ & Hp).
  destruct (pipeline_k_ok_none _ _ _ _ _ _ _ _ Hp) as (i' & _ & Ht).
  assert (Hv : exists ids pad ls, x_in y = TISeq ids pad ls).
  { cbn [task_k] in Ht. unfold ktask_wsc in Ht. destruct (k_tokenize k (it_in (x_data y)) true); cbn [rbind] in Ht; try discriminate.
    destruct (operations _ _); [|discriminate]. injection Ht as <-. eexists _, _, _. reflexivity. }
  destruct Hv as (ids & pad & ls & E). exists ids, pad, ls. split; [exact E|]. rewrite E in Ht.
  eapply wsc_char_one_label; eassumption.
Qed.

(** * the executable statements of the two new lines hold of the model's own output *)
Lemma check_run_item_k_l : forall v,
  check_item v (run_item_k v) = true \/ run_item_k v = v_fuel_out \/ run_item_k v = v_outside.
Proof.
  intros v. unfold run_item_k. destruct (map_opt v_qstage _) as [qs|]; [|left; reflexivity].
  destruct (negb _ || negb _ || negb _ || negb _ || negb _); [right; right; reflexivity|].
  destruct (v_ktask (v_nth 2 v)) as [t| |]; [|left; reflexivity|right; right; reflexivity].
  destruct (negb _ || negb _ || negb _ || negb _); [left; reflexivity|]. apply res_x_shape.
Qed.

Lemma check_run_bloader_k_l : forall v,
  check_loader v (run_bloader_k v) = true \/ run_bloader_k v = v_panic \/ run_bloader_k v = v_fuel_out
  \/ run_bloader_k v = v_outside.
Proof.
  intros v. unfold run_bloader_k. destruct (map_opt v_qstage _) as [qs|]; [|left; reflexivity].
  destruct (negb _ || negb _ || negb _ || negb _ || negb _); [auto|].
  destruct (v_ktask (v_nth 6 v)) as [t| |]; [|left; reflexivity|auto].
  destruct (negb _ || negb _); [left; reflexivity|].
  destruct (loader_run_kb _ _ _ _ _ _ _ _ _ _ _ _ _ _ _ _ _ _ _ _) as [m bs| | |]; auto.
Qed.

(** Pipe_Model: labelled transition systems of the two threaded iterators of
    src/data/loading.rs — [Pipe] (W worker threads, ticket mutex, turn counter,
    bounded channel) and [Buffered] (one thread, bounded channel) — plus the
    deterministic scheduler-driven runners used by the correspondence check.
    Definitions only.

    One LTS step = one operation on shared state (DESIGN 3.4):
      Pull t      worker t locks the shared iterator and calls next()
      Compute t   worker t finishes the pipeline function for its item
      TurnOk t    worker t loads send_next and sees its own index
      SendOk t    tx.send succeeds (room in the channel, receiver alive)
      SendFail t  tx.send fails (receiver dropped)
      Advance t   send_next := idx + 1; then back to the loop head, or return after a failed send
      Recv        the consumer receives one item
      Drop        the consumer drops the iterator (receiver)
    A worker that loads send_next and sees another index spins: a stutter, no step. *)
From TU Require Import Base.

Inductive tstate :=
| Idle | Got (i : nat) | Computed (i : nat) | Sending (i : nat) | Sent (i : nat) (ok : bool) | Exited.

Inductive label :=
| Pull (t : nat) | Compute (t : nat) | TurnOk (t : nat) | SendOk (t : nat) | SendFail (t : nat)
| Advance (t : nat) | Recv | Drop.

Definition upd {X} (t : nat) (x : X) (l : list X) : list X := firstn t l ++ x :: skipn (S t) l.

Section Pipe.
Variables (A B : Type) (f : A -> B) (d : A).

(** [log], [pad], [ndrop] are ghost: indices whose computation finished (in
    order), per-thread number of items pulled after the drop, value of [next]
    at the drop. *)
Record state := mk {
  xs : list A; next : nat; turn : nat; thr : list tstate; chan : list B; out : list B;
  dropped : bool; log : list nat; pad : list nat; ndrop : nat }.

Definition set_thr (s : state) (t : nat) (st : tstate) : state :=
  mk (xs s) (next s) (turn s) (upd t st (thr s)) (chan s) (out s) (dropped s) (log s) (pad s) (ndrop s).

Definition step (s : state) (l : label) : option state :=
  match l with
  | Pull t =>
      match nth_error (thr s) t with
      | Some Idle =>
          if next s <? length (xs s)
          then Some (mk (xs s) (S (next s)) (turn s) (upd t (Got (next s)) (thr s)) (chan s) (out s)
                        (dropped s) (log s)
                        (if dropped s then upd t (S (nth t (pad s) 0)) (pad s) else pad s) (ndrop s))
          else Some (set_thr s t Exited)
      | _ => None
      end
  | Compute t =>
      match nth_error (thr s) t with
      | Some (Got i) => Some (mk (xs s) (next s) (turn s) (upd t (Computed i) (thr s)) (chan s) (out s)
                                 (dropped s) (log s ++ [i]) (pad s) (ndrop s))
      | _ => None
      end
  | TurnOk t =>
      match nth_error (thr s) t with
      | Some (Computed i) => if i =? turn s then Some (set_thr s t (Sending i)) else None
      | _ => None
      end
  | SendOk t =>
      match nth_error (thr s) t with
      | Some (Sending i) =>
          if negb (dropped s) && (length (chan s) <? length (thr s))
          then Some (mk (xs s) (next s) (turn s) (upd t (Sent i true) (thr s))
                        (chan s ++ [f (nth i (xs s) d)]) (out s) (dropped s) (log s) (pad s) (ndrop s))
          else None
      | _ => None
      end
  | SendFail t =>
      match nth_error (thr s) t with
      | Some (Sending i) => if dropped s then Some (set_thr s t (Sent i false)) else None
      | _ => None
      end
  | Advance t =>
      match nth_error (thr s) t with
      | Some (Sent i ok) =>
          Some (mk (xs s) (next s) (S i) (upd t (if ok then Idle else Exited) (thr s)) (chan s) (out s)
                   (dropped s) (log s) (pad s) (ndrop s))
      | _ => None
      end
  | Recv =>
      if dropped s then None
      else match chan s with
           | y :: c => Some (mk (xs s) (next s) (turn s) (thr s) c (out s ++ [y]) false (log s) (pad s) (ndrop s))
           | [] => None
           end
  | Drop =>
      if dropped s then None
      else Some (mk (xs s) (next s) (turn s) (thr s) [] (out s) true (log s) (pad s) (next s))
  end.

Definition init (l : list A) (W : nat) : state :=
  mk l 0 0 (repeat Idle W) [] [] false [] (repeat 0 W) 0.

(** a schedule is a list of labels; [run] fails as soon as a label is not enabled *)
Fixpoint run (s : state) (tr : list label) : option state :=
  match tr with
  | [] => Some s
  | l :: tr' => match step s l with Some s' => run s' tr' | None => None end
  end.

Definition all_exited (s : state) : bool :=
  forallb (fun st => match st with Exited => true | _ => false end) (thr s).
(** all workers returned and nothing is left in the channel: the consumer's next
    recv() reports end of stream *)
Definition final (s : state) : bool :=
  all_exited s && match chan s with [] => true | _ => false end.

(** every label that could be enabled in [s] *)
Definition labels_of (s : state) : list label :=
  flat_map (fun t => [Pull t; Compute t; TurnOk t; SendOk t; SendFail t; Advance t]) (seq 0 (length (thr s)))
  ++ [Recv; Drop].
Definition enabled (s : state) (l : label) : bool :=
  match step s l with Some _ => true | None => false end.

(** the decreasing measure of [pipe_finite] *)
Definition weight (st : tstate) : nat :=
  match st with
  | Idle => 1 | Got _ => 6 | Computed _ => 5 | Sending _ => 4
  | Sent _ true => 2 | Sent _ false => 1 | Exited => 0
  end.
Definition measure (s : state) : nat :=
  6 * (length (xs s) - next s) + list_sum (map weight (thr s)) + length (chan s)
  + (if dropped s then 0 else 1).

(** ** Deterministic scheduler-driven execution (what the harness also does with the real threads).
    Actors: worker t (0 <= t < W), the consumer receiving (W), the consumer dropping (W+1).
    [dropk] = Some k: the consumer consumes exactly k items, then only drops. *)
Inductive actor := AThr (t : nat) | ARecv | ADrop.

Definition grantable (dropk : option nat) (s : state) (a : actor) : bool :=
  match a with
  | AThr t =>
      match nth_error (thr s) t with
      | Some Idle | Some (Got _) | Some (Computed _) | Some (Sent _ _) => true
      | Some (Sending _) => dropped s || (length (chan s) <? length (thr s))
      | _ => false
      end
  | ARecv =>
      negb (dropped s) && negb (match chan s with [] => true | _ => false end)
      && match dropk with Some k => length (out s) <? k | None => true end
  | ADrop =>
      negb (dropped s) && match dropk with Some k => k <=? length (out s) | None => false end
  end.

Definition actors (dropk : option nat) (s : state) : list actor :=
  filter (grantable dropk s) (map AThr (seq 0 (length (thr s))) ++ [ARecv; ADrop]).

(** what the label of an actor's next move is; [None] = stutter (spin) *)
Definition actor_label (s : state) (a : actor) : option label :=
  match a with
  | AThr t =>
      match nth_error (thr s) t with
      | Some Idle => Some (Pull t)
      | Some (Got _) => Some (Compute t)
      | Some (Computed i) => if i =? turn s then Some (TurnOk t) else None
      | Some (Sending _) => Some (if dropped s then SendFail t else SendOk t)
      | Some (Sent _ _) => Some (Advance t)
      | _ => None
      end
  | ARecv => Some Recv
  | ADrop => Some Drop
  end.

(** observation after a move: (actor id, point code, index, items pulled so far).
    Point codes: 1 Got, 2 End(exited at pull), 3 Computed, 4 Spin, 5 BeforeSend,
    6 SentOk, 7 SentErr, 8 Idle again, 9 Exit after failed send, 10 Recv, 11 Drop,
    12 end of stream seen by the consumer, 13 out of fuel. *)
Definition event := (nat * nat * nat * nat)%type.

Definition observe (W : nat) (s' : state) (a : actor) (recv_idx : nat) : event :=
  match a with
  | AThr t =>
      match nth_error (thr s') t with
      | Some (Got i) => (t, 1, i, next s')
      | Some (Computed i) => (t, 3, i, next s')
      | Some (Sending i) => (t, 5, i, next s')
      | Some (Sent i true) => (t, 6, i, next s')
      | Some (Sent i false) => (t, 7, i, next s')
      | Some Idle => (t, 8, 0, next s')
      | _ => (t, 2, 0, next s')
      end
  | ARecv => (W, 10, recv_idx, next s')
  | ADrop => (W, 11, 0, next s')
  end.

Fixpoint run_sched (fuel : nat) (k : nat) (choices : list nat) (dropk : option nat) (s : state)
  : list event * state :=
  match fuel with
  | 0 => ([(length (thr s), 13, 0, next s)], s)
  | S fuel' =>
      match actors dropk s with
      | [] => ((if final s && negb (dropped s) then [(length (thr s), 12, 0, next s)] else []), s)
      | a0 :: rest =>
          let acts := a0 :: rest in
          let c := match choices with c :: _ => c | [] => k end in
          let a := nth (c mod length acts) acts a0 in
          let W := length (thr s) in
          match actor_label s a with
          | None => (* spin *)
              let ev := match a with
                        | AThr t => match nth_error (thr s) t with
                                    | Some (Computed i) => (t, 4, i, next s)
                                    | _ => (t, 13, 2, next s)
                                    end
                        | _ => (W, 13, 0, next s)
                        end in
              let (evs, s'') := run_sched fuel' (S k) (tl choices) dropk s in
              (ev :: evs, s'')
          | Some l =>
              match step s l with
              | None => ([(W, 13, 1, next s)], s)
              | Some s' =>
                  (* exit after a failed send is reported with code 9 *)
                  let ev := match l, a with
                            | Advance t, _ =>
                                match nth_error (thr s') t with
                                | Some Exited => (t, 9, 0, next s')
                                | _ => observe W s' a 0
                                end
                            | _, _ => observe W s' a (length (out s))
                            end in
                  let (evs, s'') := run_sched fuel' (S k) (tl choices) dropk s' in
                  (ev :: evs, s'')
              end
          end
      end
  end.

End Pipe.

Arguments mk {A B}.
Arguments xs {A B}. Arguments next {A B}. Arguments turn {A B}. Arguments thr {A B}.
Arguments chan {A B}. Arguments out {A B}. Arguments dropped {A B}. Arguments log {A B}.
Arguments pad {A B}. Arguments ndrop {A B}.

(** * Buffered: one producer thread, bounded channel of capacity [cap]
    (cap = 0: rendezvous — send and receive happen together). *)
Inductive bstate := BIdle | BHolding (i : nat) | BExited.
Inductive blabel := BPull | BSendOk | BSendFail | BRecv | BHandoff | BDrop.

Record bst := bmk {
  bn : nat;            (* upstream length *)
  bcap : nat;
  bpulled : nat;
  bthr : bstate;
  bchan : list nat;
  bout : list nat;
  bdropped : bool;
  bpad : nat           (* ghost: items pulled after the drop *)
}.

(** [stop_on_fail] = true: the repaired producer (returns when send fails);
    false: the producer at the pinned commit (ignores the error, keeps draining upstream). *)
Definition bstep (stop_on_fail : bool) (s : bst) (l : blabel) : option bst :=
  match l with
  | BPull =>
      match bthr s with
      | BIdle =>
          if bpulled s <? bn s
          then Some (bmk (bn s) (bcap s) (S (bpulled s)) (BHolding (bpulled s)) (bchan s) (bout s) (bdropped s)
                         (if bdropped s then S (bpad s) else bpad s))
          else Some (bmk (bn s) (bcap s) (bpulled s) BExited (bchan s) (bout s) (bdropped s) (bpad s))
      | _ => None
      end
  | BSendOk =>
      match bthr s with
      | BHolding i =>
          if negb (bdropped s) && (length (bchan s) <? bcap s)
          then Some (bmk (bn s) (bcap s) (bpulled s) BIdle (bchan s ++ [i]) (bout s) false (bpad s))
          else None
      | _ => None
      end
  | BHandoff =>
      match bthr s with
      | BHolding i =>
          if negb (bdropped s) && (bcap s =? 0)
          then Some (bmk (bn s) (bcap s) (bpulled s) BIdle (bchan s) (bout s ++ [i]) false (bpad s))
          else None
      | _ => None
      end
  | BSendFail =>
      match bthr s with
      | BHolding _ =>
          if bdropped s
          then Some (bmk (bn s) (bcap s) (bpulled s) (if stop_on_fail then BExited else BIdle)
                         (bchan s) (bout s) true (bpad s))
          else None
      | _ => None
      end
  | BRecv =>
      if bdropped s then None
      else match bchan s with
           | y :: c => Some (bmk (bn s) (bcap s) (bpulled s) (bthr s) c (bout s ++ [y]) false (bpad s))
           | [] => None
           end
  | BDrop =>
      if bdropped s then None
      else Some (bmk (bn s) (bcap s) (bpulled s) (bthr s) [] (bout s) true (bpad s))
  end.

Definition binit (n cap : nat) : bst := bmk n cap 0 BIdle [] [] false 0.

Fixpoint brun (sof : bool) (s : bst) (tr : list blabel) : option bst :=
  match tr with
  | [] => Some s
  | l :: tr' => match bstep sof s l with Some s' => brun sof s' tr' | None => None end
  end.

Definition bmeasure (s : bst) : nat :=
  3 * (bn s - bpulled s) + match bthr s with BIdle => 1 | BHolding _ => 3 | BExited => 0 end
  + length (bchan s) + (if bdropped s then 0 else 1).

(** scheduler-driven run of the Buffered LTS. Actors: 0 producer, 1 consumer recv, 2 consumer drop.
    Event = (actor, code, idx, pulled). codes: 1 Got, 2 exit at end of upstream, 3 sent ok (idle again),
    4 send failed and exited, 5 send failed and idle again (pinned behaviour), 10 recv, 11 drop,
    12 end of stream, 13 out of fuel, 14 handoff (sent and received at once). *)
Definition bgrantable (dropk : option nat) (s : bst) (a : nat) : bool :=
  match a with
  | 0 => match bthr s with
         | BIdle => true
         | BHolding _ => bdropped s || (length (bchan s) <? bcap s)
                         || ((bcap s =? 0) && match dropk with Some k => length (bout s) <? k | None => true end)
         | BExited => false
         end
  | 1 => negb (bdropped s) && negb (match bchan s with [] => true | _ => false end)
         && match dropk with Some k => length (bout s) <? k | None => true end
  | _ => negb (bdropped s) && match dropk with Some k => k <=? length (bout s) | None => false end
  end.

Definition bactor_label (s : bst) (a : nat) : blabel :=
  match a with
  | 0 => match bthr s with
         | BIdle => BPull
         | _ => if bdropped s then BSendFail else if bcap s =? 0 then BHandoff else BSendOk
         end
  | 1 => BRecv
  | _ => BDrop
  end.

Fixpoint brun_sched (sof : bool) (fuel k : nat) (choices : list nat) (dropk : option nat) (s : bst)
  : list event * bst :=
  match fuel with
  | 0 => ([(0, 13, 0, bpulled s)], s)
  | S fuel' =>
      match filter (bgrantable dropk s) [0; 1; 2] with
      | [] => ((if match bthr s with BExited => true | _ => false end
                   && match bchan s with [] => true | _ => false end && negb (bdropped s)
                then [(1, 12, 0, bpulled s)] else []), s)
      | a0 :: rest =>
          let acts := a0 :: rest in
          let c := match choices with c :: _ => c | [] => k end in
          let a := nth (c mod length acts) acts a0 in
          let l := bactor_label s a in
          match bstep sof s l with
          | None => ([(a, 13, 1, bpulled s)], s)
          | Some s' =>
              let ev :=
                match l with
                | BPull => match bthr s' with BHolding i => (0, 1, i, bpulled s') | _ => (0, 2, 0, bpulled s') end
                | BSendOk => (0, 3, 0, bpulled s')
                | BHandoff => (0, 14, length (bout s), bpulled s')
                | BSendFail => match bthr s' with BExited => (0, 4, 0, bpulled s') | _ => (0, 5, 0, bpulled s') end
                | BRecv => (1, 10, length (bout s), bpulled s')
                | BDrop => (1, 11, 0, bpulled s')
                end in
              let (evs, s'') := brun_sched sof fuel' (S k) (tl choices) dropk s' in
              (ev :: evs, s'')
          end
      end
  end.

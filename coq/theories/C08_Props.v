(** C08 — pinned statements: the index algebra of the train loader
    (enumerate / take(limit) / skip(skip + fast_forward + rank) / step_by(world_size)),
    delivered streams, and transparency of the threaded stages. *)
From Coq Require Import Sorting.Sorted.
From Coq Require Import Sorting.Permutation.
From TU Require C07_Model.
From TU Require Import Base C06_Model C06_Top C08_EndToEnd C08_Sources C08_Model C08_Proofs C08_Check Pipe_Model Pipe_Proofs Pipe_Proofs2 Pipe_Proofs3 C05_Model C05_Proofs C09_Model C09_Proofs.

(** which global indices a rank selects *)
Theorem sel_mem : forall lim skip ff rank W N i, 1 <= W ->
  In i (sel lim skip ff rank W N) <-> exists j, i = skip + ff + rank + j * W /\ i < Nat.min lim N.
Proof. exact sel_mem_l. Qed.
Print Assumptions sel_mem.

(** in increasing order (so the per-rank order is the global order) *)
Theorem sel_sorted : forall lim skip ff rank W N, StronglySorted lt (sel lim skip ff rank W N).
Proof. exact sel_sorted_l. Qed.
Print Assumptions sel_sorted.

Theorem ranks_disjoint : forall lim skip ff W N r1 r2 i, r1 < W -> r2 < W -> r1 <> r2 ->
  In i (sel lim skip ff r1 W N) -> In i (sel lim skip ff r2 W N) -> False.
Proof. exact ranks_disjoint_l. Qed.
Print Assumptions ranks_disjoint.

(** union over the ranks = the single-process stream with the same skip / limit / fast-forward
    (for every fast-forward offset, not only multiples of W) *)
Theorem ranks_union : forall lim skip ff W N i, 1 <= W ->
  In i (sel lim skip ff 0 1 N) <-> exists r, r < W /\ In i (sel lim skip ff r W N).
Proof. exact ranks_union_l. Qed.
Print Assumptions ranks_union.

(** limit = k and skip = k split the data: no overlap, nothing lost *)
Theorem limit_part : forall k N i, In i (sel k 0 0 0 1 N) <-> i < Nat.min k N.
Proof. exact limit_part_l. Qed.
Print Assumptions limit_part.
Theorem skip_part : forall k N i, In i (sel N k 0 0 1 N) <-> k <= i < N.
Proof. exact skip_part_l. Qed.
Print Assumptions skip_part.

(** fast_forward(k) in a single process = drop the first k items of the uninterrupted selection, same order *)
Theorem fast_forward_single : forall lim skip k N, sel lim skip k 0 1 N = skipn k (sel lim skip 0 0 1 N).
Proof. exact fast_forward_single_l. Qed.
Print Assumptions fast_forward_single.

(** in a world of size W, fast_forward(k*W) = every rank drops its own first k items *)
Theorem fast_forward_world : forall lim skip k r W N, 1 <= W ->
  sel lim skip (k * W) r W N = skipn k (sel lim skip 0 r W N).
Proof. exact fast_forward_world_l. Qed.
Print Assumptions fast_forward_world.

(** delivered items (line parsed, pipeline Ok): selection filtered by per-index facts only — whether
    and how index i is processed does not depend on rank, world size or fast-forward offset *)
Theorem stream_mem : forall oks res lim skip ff rank W N i,
  In i (stream oks res lim skip ff rank W N) <->
  In i (sel lim skip ff rank W N) /\ nth i oks false = true /\ nth i res false = true.
Proof. exact stream_mem_l. Qed.
Print Assumptions stream_mem.

Theorem stream_resume : forall oks res lim skip k N,
  stream oks res lim skip k 0 1 N = filter (fun i => skip + k <=? i) (stream oks res lim skip 0 0 1 N).
Proof. exact stream_resume_l. Qed.
Print Assumptions stream_resume.

Theorem stream_rank : forall oks res lim skip ff rank W N, 1 <= W ->
  stream oks res lim skip ff rank W N =
  filter (fun i => (skip + ff + rank <=? i) && Nat.eqb ((i - (skip + ff + rank)) mod W) 0)
         (stream oks res lim skip 0 0 1 N).
Proof. exact stream_rank_l. Qed.
Print Assumptions stream_rank.

(** the threaded stages are transparent: whatever the worker count (>= 1) and the schedule, a
    maximal execution of the Pipe stage delivers exactly [map g inp] (C05), and of the Buffered
    stage exactly its upstream in order (C09); with 0 workers the code is [map] itself *)
Theorem pipe_stage_transparent : forall (A B : Type) (g : A -> B) (d : A) (inp : list A) (W : nat) tr (s : state A B),
  0 < W -> run A B g d (init A B inp W) tr = Some s -> dropped s = false ->
  (forall lab, lab <> Drop -> step A B g d s lab = None) -> out s = map g inp.
Proof. intros A B g d inp W tr s HW H Hd Hno. apply (pipe_terminal_l A B g d inp W tr s HW H Hd Hno). Qed.
Print Assumptions pipe_stage_transparent.

Theorem buffered_stage_transparent : forall sof n cap tr s,
  brun sof (binit n cap) tr = Some s -> bdropped s = false ->
  (forall l, l <> BDrop -> bstep sof s l = None) -> bout s = seq 0 n.
Proof. intros sof n cap tr s H Hd Hno. apply (buf_terminal_top sof n cap tr s H Hd Hno). Qed.
Print Assumptions buffered_stage_transparent.

(** The executable statement evaluated on every implementation output (per-rank streams disjoint
    with union = single-process stream, this rank's stream = the positions it owns, resumed stream,
    limit/skip split, flags) holds of the model's own output whenever the world size is >= 1. *)
Theorem check_run : forall v, 1 <= v_nat (v_nth 7 v) -> check_C08 v (run_C08 v) = true.
Proof. exact check_run_l. Qed.
Print Assumptions check_run.

(** ** End to end: the loader as the composition of the modelled stages (C08_EndToEnd.v).
    [data] is the generator's output position by position ([None]: the line did not parse), [g i d] the
    pipeline's result for the item of global position [i] ([None]: Err, dropped).  [loader_items] is what
    one rank hands to its batcher. *)

(** the positions a rank delivers are C08's [stream] for the oracles derived from [data] and [g] *)
Theorem loader_positions : forall (D B : Type) (data : list (option D)) (g : nat -> D -> option B) lim skip ff rank W,
  map fst (loader_items data g lim skip ff rank W) = stream (oks data) (ress data g) lim skip ff rank W (length data).
Proof. exact @loader_positions_l. Qed.
Print Assumptions loader_positions.

(** every delivered item is the pipeline's value for its global position, whatever rank, world size,
    skip or fast-forward offset delivers it *)
Theorem loader_item_value : forall (D B : Type) (data : list (option D)) (g : nat -> D -> option B) lim skip ff rank W i b,
  In (i, b) (loader_items data g lim skip ff rank W) -> exists d, nth i data None = Some d /\ g i d = Some b.
Proof. exact @loader_item_value_l. Qed.
Print Assumptions loader_item_value.

(** the items of the W ranks together are a permutation of the single-process items *)
Theorem world_items_perm : forall (D B : Type) (data : list (option D)) (g : nat -> D -> option B) lim skip ff W, 1 <= W ->
  Permutation (concat (map (fun r => loader_items data g lim skip ff r W) (seq 0 W))) (loader_items data g lim skip ff 0 1).
Proof. exact @world_items_perm_l. Qed.
Print Assumptions world_items_perm.

(** ... and so are their batches: for every batching mode, limit type, limit, prefetch factor and every
    oracle (= rng state) per rank, all batches of all ranks hold exactly the single-process items, each once;
    no batch is empty and every batch with more than one item respects the limit (C06's theorems, composed) *)
Theorem world_batches_partition : forall (D B : Type) (data : list (option D)) (g : nat -> D -> option B)
    (size : nat * B -> nat) sort shuffle prefetch blim ty os lim skip ff W bss, 1 <= W ->
  world_batches data g size sort shuffle prefetch blim ty os lim skip ff W bss ->
  Permutation (concat (concat bss)) (loader_items data g lim skip ff 0 1).
Proof. exact @world_batches_partition_l. Qed.
Print Assumptions world_batches_partition.

Theorem world_batches_wellformed : forall (D B : Type) (data : list (option D)) (g : nat -> D -> option B)
    (size : nat * B -> nat) sort shuffle prefetch blim ty os lim skip ff W bss r, r < W ->
  world_batches data g size sort shuffle prefetch blim ty os lim skip ff W bss ->
  Forall (fun b => b <> []) (nth r bss []) /\
  Forall (fun b => 1 < length b -> limit size ty b <= Nat.max blim 1) (nth r bss []).
Proof. exact @world_batches_wellformed_l. Qed.
Print Assumptions world_batches_wellformed.

(** Generator included (C07 composed): for every strategy, generator oracle, source files, world size,
    batching configuration and batching oracle per rank, with a limit that does not cut the stream and no skip,
    the batches of all ranks hold — each exactly once — the processed item of every position of the generator's
    output that parses and whose pipeline result is Ok; and those positions are the lines of the source files,
    each exactly once and in per-source order. *)
Theorem world_covers_sources : forall (A D B : Type) (parse : nat -> A -> option D) (g : nat -> D -> option B)
    (size : nat * B -> nat) s o (srcs : list (list A)) out sort shuffle prefetch blim ty os lim W bss,
  srcs <> [] -> C07_Model.run_gen s o srcs = C07_Model.Ok out -> length out <= lim -> 1 <= W ->
  world_batches (data_of parse out) g size sort shuffle prefetch blim ty os lim 0 0 W bss ->
  Permutation (concat (concat bss)) (keep_some (map (item_at (data_of parse out) g) (seq 0 (length out)))) /\
  length out = C07_Model.total_len srcs /\
  (forall j, C07_Model.proj j out = nth j srcs []) /\
  Forall (fun p => fst p < length srcs) out.
Proof. exact @world_covers_sources_l. Qed.
Print Assumptions world_covers_sources.

(** Non-vacuity: two ranks over five lines (line 2 does not parse, the pipeline fails on position 3),
    batches of at most two items *)
Example world_example :
  let data := [Some 10; Some 11; None; Some 13; Some 14] in
  let g := fun (i d : nat) => if Nat.eqb i 3 then None else Some (d * 2) in
  let o := {| shuf := fun _ _ => []; pick := fun _ _ => 0 |} in
  loader_items data g 5 0 0 0 2 = [(0, 20); (4, 28)] /\ loader_items data g 5 0 0 1 2 = [(1, 22)] /\
  loader_items data g 5 0 0 0 1 = [(0, 20); (1, 22); (4, 28)] /\
  world_batches data g (fun _ => 1) false false 1 2 BatchSize (fun _ => o) 5 0 0 2 [[[(0, 20); (4, 28)]]; [[(1, 22)]]].
Proof.
  cbv zeta. split; [vm_compute; reflexivity|]. split; [vm_compute; reflexivity|]. split; [vm_compute; reflexivity|].
  split; [reflexivity|]. intros r Hr. destruct r as [|[|r]]; [vm_compute; reflexivity|vm_compute; reflexivity|].
  exfalso. apply (PeanoNat.Nat.lt_irrefl 2). apply (PeanoNat.Nat.le_lt_trans _ (S (S r))); [|exact Hr].
  apply le_n_S, le_n_S, PeanoNat.Nat.le_0_l.
Qed.

(** Non-vacuity / sanity: 3 ranks over 10 items, skip 1, limit 9 *)
Example sel_example :
  sel 9 1 0 0 3 10 = [1; 4; 7] /\ sel 9 1 0 1 3 10 = [2; 5; 8] /\ sel 9 1 0 2 3 10 = [3; 6]
  /\ sel 9 1 0 0 1 10 = [1; 2; 3; 4; 5; 6; 7; 8] /\ sel 9 1 3 1 3 10 = [5; 8].
Proof. vm_compute. repeat split. Qed.

(** ** Third session: the pipeline inside the model (Pipeline_Model.v, C08_Pipeline.v, C08_PipelineProofs.v).
    The Section variable [g] of the end-to-end theorems above is instantiated with [pipe_fn opq p g b seed epoch]:
    the interpreter of the preprocessing configuration [p] (global or per source) followed by the whitespace-correction
    task over a byte tokenizer [b], applied with the info the loader builds, item seed = seed + epoch + position.
    The generator is C07's (seeded for the weighted strategy), the batcher C06's seeded one: [loader_run] computes
    min_items and the batches of one rank from (file lines, configuration, seed, epoch, limit, skip, fast-forward,
    rank, world size, batching configuration) alone — no oracle, no purity premise.  [opq]: the stages that are not
    modelled (spelling corruption, json/chat decode) as an arbitrary function; the pinned file Pipeline_Props.v has
    the theorems about the interpreter itself. *)
From TU Require Import RNG_Model.
From TU Require Import C01_Model C06_Seeded C07_Model Pipeline_Model C08_Pipeline C08_PipelineProofs.
Local Open Scope nat_scope.

(** item level, every [g]: restarting with fast_forward(k) yields exactly the ITEMS (position and value) of the
    uninterrupted run from position skip + k on, in the same order *)
Theorem loader_resume_items : forall (D B : Type) (data : list (option D)) (g : nat -> D -> option B) lim skip k,
  loader_items data g lim skip k 0 1 = filter (fun q => skip + k <=? fst q) (loader_items data g lim skip 0 0 1).
Proof. exact @loader_items_resume. Qed.
Print Assumptions loader_resume_items.

(** one rank, any fast-forward offset: exactly the items of the single-process run at the positions it owns *)
Theorem loader_rank_items : forall (D B : Type) (data : list (option D)) (g : nat -> D -> option B) lim skip ff rank W,
  1 <= W ->
  loader_items data g lim skip ff rank W =
  filter (fun q => (skip + ff + rank <=? fst q) && Nat.eqb ((fst q - (skip + ff + rank)) mod W) 0)
         (loader_items data g lim skip 0 0 1).
Proof. exact @loader_items_rank. Qed.
Print Assumptions loader_rank_items.

(** limit = k and skip = k split the items: nothing lost, nothing twice, below k / from k on *)
Theorem loader_limit_skip_items : forall (D B : Type) (data : list (option D)) (g : nat -> D -> option B) k,
  Permutation (loader_items data g k 0 0 0 1 ++ loader_items data g (length data) k 0 0 1)
              (loader_items data g (length data) 0 0 0 1)
  /\ (forall q, In q (loader_items data g k 0 0 0 1) -> fst q < k)
  /\ (forall q, In q (loader_items data g (length data) k 0 0 1) -> k <= fst q).
Proof. exact @loader_items_limit_skip. Qed.
Print Assumptions loader_limit_skip_items.

(** the modelled pipeline: a delivered item IS the interpreter's value for (line, file index, seed + epoch + position),
    whatever rank, world size, skip or fast-forward offset delivers it *)
Theorem item_by_index : forall opq p g b seed epoch data lim skip ff rank W i t,
  In (i, t) (loader_items data (pipe_fn opq p g b seed epoch) lim skip ff rank W) ->
  exists d, nth i data None = Some d /\
            pipeline opq p g b (snd d) (item_info seed epoch i (fst d)) = ROk t.
Proof. exact loader_item_by_index. Qed.
Print Assumptions item_by_index.

Theorem item_same_everywhere : forall opq p g b seed epoch data lim skip ff rank W lim' skip' ff' rank' W' i t t',
  In (i, t) (loader_items data (pipe_fn opq p g b seed epoch) lim skip ff rank W) ->
  In (i, t') (loader_items data (pipe_fn opq p g b seed epoch) lim' skip' ff' rank' W') -> t = t'.
Proof. exact loader_item_same. Qed.
Print Assumptions item_same_everywhere.

(** what used to be the purity ASSUMPTION, as a theorem about the modelled configurations: the processed item is a
    function of (configuration, line, seed + epoch + position) alone — file index and marks do not matter *)
Theorem pipeline_pure : forall c g b x i i', has_opaque c = false -> i_seed i = i_seed i' ->
  pipeline opq_none (PGlobal c) g b x i = pipeline opq_none (PGlobal c) g b x i'.
Proof. exact pipeline_function_of_seed. Qed.
Print Assumptions pipeline_pure.

(** a successful loader run, taken apart *)
Theorem loader_run_spec : forall opq p g b seed epoch s files sort shuffle prefetch blim ty lim skip ff rank W m bs,
  loader_run opq p g b seed epoch s files lim skip ff rank W sort shuffle prefetch blim ty = LOk m bs ->
  exists out, gen_lines s (seed + epoch)%N files = Some (C07_Model.Ok out) /\
    m = min_items lim skip (length out) /\
    loader_panics opq p g b seed epoch (data_of_out out) lim skip ff rank W = false /\
    batches_seeded tsize sort shuffle prefetch blim ty (seed + epoch)%N
                   (loader_items (data_of_out out) (pipe_fn opq p g b seed epoch) lim skip ff rank W) = C06_Model.Ok bs.
Proof. exact loader_run_ok. Qed.
Print Assumptions loader_run_spec.

(** [world_batches_partition] without oracle and without purity premise: the batches the W ranks COMPUTE from the
    seed hold exactly the single-process items, each once, and none is empty — every strategy, every modelled
    pipeline, every batching mode *)
Theorem world_partition_modelled_pipeline :
  forall opq p g b seed epoch s files sort shuffle prefetch blim ty lim skip ff W ms bss,
  1 <= W -> files <> [] -> (N.of_nat (total_len files) < 9223372036854775807)%N -> length bss = W ->
  (forall r, r < W -> loader_run opq p g b seed epoch s files lim skip ff r W sort shuffle prefetch blim ty
                      = LOk (nth r ms 0) (nth r bss [])) ->
  exists out, gen_lines s (seed + epoch)%N files = Some (C07_Model.Ok out) /\
    Permutation (concat (concat bss)) (loader_items (data_of_out out) (pipe_fn opq p g b seed epoch) lim skip ff 0 1) /\
    Forall (fun bs => Forall (fun bt => bt <> []) bs) bss.
Proof. exact world_partition_modelled. Qed.
Print Assumptions world_partition_modelled_pipeline.

(** [world_covers_sources] likewise: with a limit that does not cut, no skip and no offset the batches of all ranks
    hold, each exactly once, the processed item of every line of every file that is an item and that the pipeline
    accepts; the generator's output is the files' lines, each once, in per-file order, tagged with its file *)
Theorem world_covers_sources_modelled_pipeline :
  forall opq p g b seed epoch s files sort shuffle prefetch blim ty lim W ms bss,
  1 <= W -> files <> [] -> (N.of_nat (total_len files) < 9223372036854775807)%N ->
  total_len files <= lim -> length bss = W ->
  (forall r, r < W -> loader_run opq p g b seed epoch s files lim 0 0 r W sort shuffle prefetch blim ty
                      = LOk (nth r ms 0) (nth r bss [])) ->
  exists out, gen_lines s (seed + epoch)%N files = Some (C07_Model.Ok out) /\
    Permutation (concat (concat bss))
                (keep_some (map (item_at (data_of_out out) (pipe_fn opq p g b seed epoch)) (seq 0 (length out)))) /\
    (forall j, proj j out = nth j files []) /\ length out = total_len files /\
    Forall (fun q => fst q < length files) out.
Proof. exact world_covers_sources_modelled. Qed.
Print Assumptions world_covers_sources_modelled_pipeline.

(** Non-vacuity: two files, sequential, the whitespace-correction pipeline with probabilities (1/2, 1/2), seed 7, two
    ranks, batches of two: both ranks run, and the hypotheses of the two world theorems are met by what they return *)
Definition ex_files : list (list line) :=
  [[Some (mk_item [97;32;98] [97;32;98]); None; Some (mk_item [99;100] [99;32;100])];
   [Some (mk_item [101;32;102;32;103] [101;32;102;32;103])]]%N.
Definition ex_base : base := {| b_off := 256; b_sv := []; b_pre := [257]; b_suf := [258]; b_pad := 259 |}%N.
Definition ex_run (r : nat) : lres :=
  loader_run opq_none (PGlobal (Pipeline_Proofs2.wsc_cfg (Fin 4503599627370496 (-53)) (Fin 4503599627370496 (-53))))
             false ex_base 7 0 Sequential ex_files 10 0 0 r 2 false false 1 2 BatchSize.
Example modelled_world_example :
  exists m0 bs0 m1 bs1, ex_run 0 = LOk m0 bs0 /\ ex_run 1 = LOk m1 bs1 /\ m0 = 4 /\ m1 = 4 /\
    length (concat bs0) = 2 /\ length (concat bs1) = 1.
Proof. vm_compute. do 4 eexists. repeat split. Qed.

(** the loader run is DEFINED: for the sequential and the interleaved strategy, whenever the constructors accept the
    configuration and no selected pipeline call panics, no fuel runs out anywhere and the run returns min_items and
    batches; for the weighted strategy the same whenever the generator's rejection sampler stays within its fuel *)
Theorem loader_total_nw : forall opq p g b seed epoch files sort shuffle prefetch blim ty s lim skip ff rank W,
  s <> Weighted -> pcfg_ok p = true -> files <> [] -> (N.of_nat (total_len files) < 9223372036854775807)%N ->
  exists out, gen_lines s (seed + epoch)%N files = Some (C07_Model.Ok out) /\
    (loader_panics opq p g b seed epoch (data_of_out out) lim skip ff rank W = false ->
     exists bs, loader_run opq p g b seed epoch s files lim skip ff rank W sort shuffle prefetch blim ty
                = LOk (min_items lim skip (length out)) bs).
Proof. exact loader_run_total_nw. Qed.
Print Assumptions loader_total_nw.

Theorem loader_total_weighted : forall opq p g b seed epoch files sort shuffle prefetch blim ty lim skip ff rank W r,
  pcfg_ok p = true -> files <> [] -> existsb (@C07_Model.is_nil line) files = false ->
  (N.of_nat (total_len files) < 9223372036854775807)%N ->
  gen_lines Weighted (seed + epoch)%N files = Some r ->
  exists out, r = C07_Model.Ok out /\
    (loader_panics opq p g b seed epoch (data_of_out out) lim skip ff rank W = false ->
     exists bs, loader_run opq p g b seed epoch Weighted files lim skip ff rank W sort shuffle prefetch blim ty
                = LOk (min_items lim skip (length out)) bs).
Proof. exact loader_run_total_w. Qed.
Print Assumptions loader_total_weighted.

(** the executable statement of the direct line holds of the model's own output (inside the model's domain) *)
Theorem check_run_direct : forall v, kind v = (-1)%Z ->
  cfg_dom (v_cfg (v_nth 1 v)) = true -> has_opaque (v_cfg (v_nth 1 v)) = false ->
  check_C08x v (run_C08x v) = true.
Proof. exact check_preproc_run. Qed.
Print Assumptions check_run_direct.

(** ** Third session, second round (topic J): the loader from the raw BYTES of the files, every task and the modelled
    postprocessing (C08_Bytes.v, C08_BytesProofs.v, Pipeline_Tasks.v; statements about tasks and postprocessing themselves
    are pinned in Pipeline_TasksProps.v).  [lines_of_file b] = what train_data_generator_from_jsonl yields for a file with
    the bytes [b] — [C07_Files.items_of_file]: LossyUtf8Lines (Lines_Model), serde_json and the key handling (JSON_Model) —
    an Err item as [None].  The loader drops an Err item only AFTER enumerate/take/skip/step_by: a broken line occupies a
    position.  [loader_run_bytes] = [loader_run] on [map lines_of_file files]; [loader_run_tb] = the same for every task
    and postprocessing ([pipeline_t]); [loader_g] = the loader with the pipeline as a parameter. *)
From TU Require Import Lines_Model JSON_Model C07_Files C07_FilesProofs Pipeline_Tasks C08_Bytes C08_BytesProofs.
Local Open Scope nat_scope.

(** len() of a file is honest about what the generator yields: one position per line read, whatever it holds *)
Theorem lines_len_honest : forall b, length (lines_of_file b) = count_lines b.
Proof. exact lines_of_file_length. Qed.
Print Assumptions lines_len_honest.

(** [loader_run_bytes] on the bytes of well-formed jsonl (every item written by serde_json as one line, terminated by
    \n or \r\n; texts of scalar values) IS [loader_run] on the lines: every theorem about [loader_run] above transfers to
    the loader over such files.  Likewise for every task. *)
Theorem loader_bytes_wellformed : forall opq p g b seed epoch s fs lim skip ff rank W sort shuffle prefetch blim ty,
  Forall (Forall item_ok) fs ->
  loader_run_bytes opq p g b seed epoch s (map jsonl_file fs) lim skip ff rank W sort shuffle prefetch blim ty =
  loader_run opq p g b seed epoch s (map (map line_written) fs) lim skip ff rank W sort shuffle prefetch blim ty.
Proof. exact loader_run_bytes_wf. Qed.
Print Assumptions loader_bytes_wellformed.

Theorem loader_tb_wellformed : forall opq qopq p t q maxlen seed epoch s fs lim skip ff rank W sort shuffle prefetch blim ty,
  Forall (Forall item_ok) fs ->
  loader_run_tb opq qopq p t q maxlen seed epoch s (map jsonl_file fs) lim skip ff rank W sort shuffle prefetch blim ty =
  loader_run_t opq qopq p t q maxlen seed epoch s (map (map line_written) fs) lim skip ff rank W sort shuffle prefetch blim ty.
Proof. exact loader_run_tb_wf. Qed.
Print Assumptions loader_tb_wellformed.

(** ... also when the last line of the file has no terminator (D14) *)
Theorem lines_of_written_file_open : forall items i t, Forall item_ok items -> item_ok ((i, t), false) ->
  lines_of_file (jsonl_file items ++ utf8s (line_of i t)) = map line_written items ++ [line_written ((i, t), false)].
Proof. exact lines_of_jsonl_open. Qed.
Print Assumptions lines_of_written_file_open.

(** min_items is computed from count_lines of the bytes (broken lines counted) *)
Theorem loader_bytes_min_items_count_lines :
  forall opq p g b seed epoch s files lim skip ff rank W sort shuffle prefetch blim ty m bs,
  files <> [] -> (N.of_nat (sum_nat (map count_lines files)) < 9223372036854775807)%N ->
  loader_run_bytes opq p g b seed epoch s files lim skip ff rank W sort shuffle prefetch blim ty = LOk m bs ->
  m = min_items lim skip (sum_nat (map count_lines files)).
Proof. exact loader_bytes_min_items. Qed.
Print Assumptions loader_bytes_min_items_count_lines.

Theorem loader_tb_min_items_count_lines :
  forall opq qopq p t q maxlen seed epoch s files lim skip ff rank W sort shuffle prefetch blim ty m bs,
  files <> [] -> (N.of_nat (sum_nat (map count_lines files)) < 9223372036854775807)%N ->
  loader_run_tb opq qopq p t q maxlen seed epoch s files lim skip ff rank W sort shuffle prefetch blim ty = GOk m bs ->
  m = min_items lim skip (sum_nat (map count_lines files)).
Proof. exact loader_tb_min_items. Qed.
Print Assumptions loader_tb_min_items_count_lines.

(** a broken line occupies a position.  One file, sequential strategy, any rank / world / skip / limit / offset and
    batching: a delivered item with index i IS the processed line number i of the file (0-based, EVERY line counted,
    broken or not), processed with the seed  seed + epoch + i *)
Theorem broken_lines_count :
  forall opq qopq p t q maxlen seed epoch b lim skip ff rank W sort shuffle prefetch blim ty m bs i y,
  (N.of_nat (count_lines b) < 9223372036854775807)%N ->
  loader_run_tb opq qopq p t q maxlen seed epoch Sequential [b] lim skip ff rank W sort shuffle prefetch blim ty = GOk m bs ->
  In (i, y) (concat bs) ->
  exists l inp tg, nth_error (lossy_lines b) i = Some l /\ item_of_line l = IItem inp tg /\
    pipeline_t opq qopq p t q maxlen (mk_item inp (match tg with Some x => x | None => inp end))
               (item_info seed epoch i 0) = ROk y.
Proof. exact tb_single_file_line_number. Qed.
Print Assumptions broken_lines_count.

(** the world theorem over bytes, every strategy, task, postprocessing, batching mode: with a limit that does not cut the
    batches of all ranks hold, each once, the processed item of every line of every file that is an item and that the
    pipeline accepts; the generator's output is the files' lines — broken ones included, as positions — each once, in
    per-file order, tagged with its file, count_lines many *)
Theorem world_covers_files_bytes :
  forall opq qopq p t q maxlen seed epoch s files sort shuffle prefetch blim ty lim W ms bss,
  1 <= W -> files <> [] -> (N.of_nat (sum_nat (map count_lines files)) < 9223372036854775807)%N ->
  sum_nat (map count_lines files) <= lim -> length bss = W ->
  (forall r, r < W -> loader_run_tb opq qopq p t q maxlen seed epoch s files lim 0 0 r W sort shuffle prefetch blim ty
                      = GOk (nth r ms 0) (nth r bss [])) ->
  exists out, gen_lines s (seed + epoch)%N (map lines_of_file files) = Some (C07_Model.Ok out) /\
    Permutation (concat (concat bss))
                (keep_some (map (item_at (data_of_out out) (g_fn (pipe_res_t opq qopq p t q maxlen seed epoch)))
                                (seq 0 (length out)))) /\
    (forall j, proj j out = lines_of_file (nth j files [])) /\
    length out = sum_nat (map count_lines files) /\
    Forall (fun x => fst x < length files) out.
Proof. exact world_covers_files_tb. Qed.
Print Assumptions world_covers_files_bytes.

(** the loader of C08_Pipeline.v is an instance of the loader with the pipeline as a parameter ... *)
Theorem loader_run_instance : forall opq p g b seed epoch s files lim skip ff rank W sort shuffle prefetch blim ty,
  loader_run opq p g b seed epoch s files lim skip ff rank W sort shuffle prefetch blim ty =
  lres_of (loader_g (pipe_res opq p g b seed epoch) tsize (pcfg_ok p) s (seed + epoch)%N files
                    lim skip ff rank W sort shuffle prefetch blim ty).
Proof. exact loader_run_is_g. Qed.
Print Assumptions loader_run_instance.

(** ... and the world theorem holds for EVERY pipeline function and item size (hence for every task and postprocessing,
    opaque stages included): the batches of the W ranks are a permutation of the single-process items, none is empty *)
Theorem world_partition_every_pipeline :
  forall (B : Type) (pres : nat -> nat * item -> res B) (size : nat * B -> nat) ok s seede files
         sort shuffle prefetch blim ty lim skip ff W ms bss,
  1 <= W -> files <> [] -> (N.of_nat (total_len files) < 9223372036854775807)%N -> length bss = W ->
  (forall r, r < W -> loader_g pres size ok s seede files lim skip ff r W sort shuffle prefetch blim ty
                      = GOk (nth r ms 0) (nth r bss [])) ->
  exists out, gen_lines s seede files = Some (C07_Model.Ok out) /\
    Permutation (concat (concat bss)) (loader_items (data_of_out out) (g_fn pres) lim skip ff 0 1) /\
    Forall (fun bs => Forall (fun bt => bt <> []) bs) bss.
Proof. exact @world_partition_g. Qed.
Print Assumptions world_partition_every_pipeline.

(** a delivered item is the pipeline's value for its global position, whatever rank / world / skip / offset delivers it *)
Theorem item_by_index_every_pipeline :
  forall (B : Type) (pres : nat -> nat * item -> res B) data lim skip ff rank W i t,
  In (i, t) (loader_items data (g_fn pres) lim skip ff rank W) ->
  exists d, nth i data None = Some d /\ pres i d = ROk t.
Proof. exact @g_item_by_index. Qed.
Print Assumptions item_by_index_every_pipeline.

(** the run is defined (sequential / interleaved): constructors accept, no selected pipeline call panics => batches *)
Theorem loader_total_every_pipeline :
  forall (B : Type) (pres : nat -> nat * item -> res B) (size : nat * B -> nat) ok s seede files
         sort shuffle prefetch blim ty lim skip ff rank W,
  s <> Weighted -> ok = true -> files <> [] -> (N.of_nat (total_len files) < 9223372036854775807)%N ->
  exists out, gen_lines s seede files = Some (C07_Model.Ok out) /\
    (g_panics pres (data_of_out out) lim skip ff rank W = false ->
     exists bs, loader_g pres size ok s seede files lim skip ff rank W sort shuffle prefetch blim ty
                = GOk (min_items lim skip (length out)) bs).
Proof. exact @loader_g_total_nw. Qed.
Print Assumptions loader_total_every_pipeline.

(** the executable statement of the byte loader line holds of the model's own output (or the model declares the case
    outside its domain / a panic of the pipeline / fuel) *)
Theorem check_run_bytes : forall v, check_loader v (run_bloader v) = true \/ run_bloader v = v_outside
  \/ run_bloader v = v_panic \/ run_bloader v = L [I (-4)%Z].
Proof. exact check_bloader_run. Qed.
Print Assumptions check_run_bytes.

(** Non-vacuity.  The file  x <LF> {"input":"a b"} <LF> {"input":"c"}  (first line broken, last line unterminated), two
    ranks, generation task: three positions (min_items 3); rank 0 owns positions 0 and 2 and delivers only the item of
    line 2, rank 1 delivers the item of line 1 — the broken line is a position of rank 0's stride *)
Definition ex_bytes : list byte :=
  [120; 10; 123;34;105;110;112;117;116;34;58;34;97;32;98;34;125; 10; 123;34;105;110;112;117;116;34;58;34;99;34;125]%N.
Definition ex_brun (r : nat) : gres xitem :=
  loader_run_tb opq_std qopq_none (PGlobal CNone)
                (TGen false {| b_off := 256; b_sv := []; b_pre := []; b_suf := [256%N]; b_pad := 256%N |} true None)
                (QGlobal QClip) 3 5 0 Sequential [ex_bytes] 10 0 0 r 2 false false 1 4 BatchSize.
Example bytes_world_example :
  lines_of_file ex_bytes = [None; Some (mk_item [97;32;98] [97;32;98]); Some (mk_item [99] [99])]%N /\
  ex_brun 0 = GOk 3 [[(2, mk_xitem (mk_item [99] [99])%N (TIGen [99; 99]%N 256%N [99; 256]%Z))]] /\
  ex_brun 1 = GOk 3 [[(1, mk_xitem (mk_item [97;32;98] [97;32;98])%N (TIGen [97; 32; 98]%N 256%N [32; 98; 97]%Z))]].
Proof. vm_compute. repeat split. Qed.

(** C08 — pinned statements (placeholder until C08_Proofs lands). *)
From TU Require Import Base C08_Model.
Theorem step_by_one : forall (A : Type) (l : list A), step_by 1 l = l.
Proof. intros A l. unfold step_by. induction l as [|x l IH]; cbn; [reflexivity|]. f_equal. exact IH. Qed.
Print Assumptions step_by_one.

(** C07 model: MultiTrainDataGenerator (src/data/loading.rs): [next], [next_idx]
    for the strategies Sequential / Interleaved / Weighted.  A source is the list
    of items its generator will yield; [generators[j].next()] pops the head of
    source [j].  The ChaCha8 rng + WeightedIndex of the weighted strategy is an
    oracle [o : call number -> number of unfinished sources -> sampled position].
    The interleaved selection is the repaired one (at most n probes, may stay on
    the only unfinished source); the unrepaired loop of the pinned tree is kept
    as [next_pinned] for [interleaved_pinned_diverges].  Definitions only. *)
From TU Require Import RNG_Model.
From TU Require Import Base.

Inductive strategy := Sequential | Interleaved | Weighted.
Inductive err := OutOfFuel | BadOracle | AssertFail | CtorErr.
Inductive res (A : Type) := Ok (out : list (nat * A)) | Err (e : err).
Arguments Ok {A} out.
Arguments Err {A} e.

Definition oracle := nat -> nat -> nat.
(** what rand guarantees: the sampled position is below the number of weights *)
Definition oracle_guard (o : oracle) : Prop := forall t m, 0 < m -> o t m < m.

Fixpoint set_nth {B} (i : nat) (x : B) (l : list B) : list B :=
  match l, i with
  | [], _ => []
  | _ :: l', O => x :: l'
  | y :: l', S i' => y :: set_nth i' x l'
  end.

Definition all_fin (fin : list bool) : bool := forallb (fun b => b) fin.

(** indices of the sources not yet marked finished, increasing *)
Definition unfinished (fin : list bool) : list nat :=
  filter (fun j => negb (nth j fin true)) (seq 0 (length fin)).

(** repaired interleaved selection:
      let mut idx = (self.idx + 1) % n; while self.finished[idx] { idx = (idx + 1) % n }
    with the number of probes bounded by the fuel (n suffices). *)
Fixpoint probe (fin : list bool) (fuel idx : nat) : option nat :=
  match fuel with
  | O => None
  | S f => if nth idx fin true then probe fin f (S idx mod length fin) else Some idx
  end.

(** the loop of the pinned tree:
      let mut idx = self.idx; while idx == self.idx || self.finished[idx] { idx = (idx + 1) % n } *)
Fixpoint probe_pinned (fin : list bool) (self fuel idx : nat) : option nat :=
  match fuel with
  | O => None
  | S f => if Nat.eqb idx self || nth idx fin true
           then probe_pinned fin self f (S idx mod length fin) else Some idx
  end.

(** [next_idx]: clock (number of oracle draws so far), finished flags, current
    index |-> error or (new index, new clock).  The leading [assert!(!all_finished())]
    and the index panics are [AssertFail]. *)
Definition selector := nat -> list bool -> nat -> err + (nat * nat).

Definition next_idx (s : strategy) (o : oracle) : selector := fun clk fin idx =>
  if all_fin fin then inl AssertFail
  else if negb (idx <? length fin) then inl AssertFail
  else match s with
  | Sequential => inr (if nth idx fin true then S idx mod length fin else idx, clk)
  | Interleaved =>
      match probe fin (length fin) (S idx mod length fin) with
      | Some j => inr (j, clk)
      | None => inl OutOfFuel
      end
  | Weighted =>
      let unf := unfinished fin in
      match nth_error unf (o clk (length unf)) with
      | Some j => inr (j, S clk)
      | None => inl BadOracle
      end
  end.

(** interleaved selection of the pinned tree, inner loop bounded by [g] *)
Definition next_pinned (g : nat) : selector := fun clk fin idx =>
  if all_fin fin then inl AssertFail
  else if negb (idx <? length fin) then inl AssertFail
  else match probe_pinned fin idx g idx with
       | Some j => inr (j, clk)
       | None => inl OutOfFuel
       end.

Section Gen.
Context {A : Type}.

Definition cons_res (p : nat * A) (r : res A) : res A :=
  match r with Ok out => Ok (p :: out) | Err e => Err e end.

(** The consumer drains the iterator; one unit of fuel = one call of
    [generators[idx].next()].  [Some v]: yield [(v, idx)], then [next_idx];
    [None]: mark finished, stop when all are finished, else [next_idx] and retry. *)
Fixpoint run_loop (sel : selector) (fuel : nat) (srcs : list (list A)) (idx : nat)
         (fin : list bool) (clk : nat) : res A :=
  match fuel with
  | O => Err OutOfFuel
  | S f =>
    match nth_error srcs idx with
    | None => Err AssertFail
    | Some (x :: xs) =>
        match sel clk fin idx with
        | inl e => Err e
        | inr (idx', clk') => cons_res (idx, x) (run_loop sel f (set_nth idx xs srcs) idx' fin clk')
        end
    | Some [] =>
        let fin' := set_nth idx true fin in
        if all_fin fin' then Ok []
        else match sel clk fin' idx with
             | inl e => Err e
             | inr (idx', clk') => run_loop sel f srcs idx' fin' clk'
             end
    end
  end.

Definition total_len (srcs : list (list A)) : nat := sum_nat (map (@length A) srcs).
Definition gen_fuel (srcs : list (list A)) : nat := total_len srcs + length srcs + 1.

Definition is_weighted (s : strategy) : bool := match s with Weighted => true | _ => false end.
Definition is_nil (l : list A) : bool := match l with [] => true | _ => false end.

(** [MultiTrainDataGenerator::new] + drain *)
Definition run_gen (s : strategy) (o : oracle) (srcs : list (list A)) : res A :=
  if is_weighted s && existsb is_nil srcs then Err CtorErr
  else run_loop (next_idx s o) (gen_fuel srcs) srcs 0 (repeat false (length srcs)) 0.

(** the pinned tree, interleaved, outer fuel [f], inner fuel [g] *)
Definition run_pinned (f g : nat) (srcs : list (list A)) : res A :=
  run_loop (next_pinned g) f srcs 0 (repeat false (length srcs)) 0.

(** ** Specifications *)

(** projection of the output on one tag *)
Definition proj (j : nat) (out : list (nat * A)) : list A :=
  map snd (filter (fun p => Nat.eqb (fst p) j) out).

(** sequential: the tagged sources one after another *)
Fixpoint tagged_from (i : nat) (l : list (list A)) : list (nat * A) :=
  match l with
  | [] => []
  | s :: l' => map (pair i) s ++ tagged_from (S i) l'
  end.
Definition seq_spec (srcs : list (list A)) : list (nat * A) := tagged_from 0 srcs.

(** interleaved: round-robin transpose that skips exhausted sources.
    Round [r] lists, in index order, the [r]-th item of every source that has one. *)
Definition round (srcs : list (list A)) (r : nat) : list (nat * A) :=
  flat_map (fun j => match nth_error (nth j srcs []) r with Some x => [(j, x)] | None => [] end)
           (seq 0 (length srcs)).
Definition max_len (srcs : list (list A)) : nat := list_max (map (@length A) srcs).
Definition rr (srcs : list (list A)) : list (nat * A) :=
  flat_map (round srcs) (seq 0 (max_len srcs)).

(** executable "tagged interleaving": walking the output, every element is the
    next unread item of the source its tag names, and at the end every source is
    used up.  (= each item once, per-source order, right tag.) *)
Context (eqb : A -> A -> bool).

Fixpoint is_ti (srcs : list (list A)) (out : list (nat * A)) : bool :=
  match out with
  | [] => forallb is_nil srcs
  | (j, x) :: out' =>
      match nth_error srcs j with
      | Some (y :: ys) => eqb x y && is_ti (set_nth j ys srcs) out'
      | _ => false
      end
  end.

Fixpoint out_eqb (a b : list (nat * A)) : bool :=
  match a, b with
  | [], [] => true
  | (i, x) :: a', (j, y) :: b' => Nat.eqb i j && eqb x y && out_eqb a' b'
  | _, _ => false
  end.

(** the weighted strategy never draws before the first item: the first tag is 0 *)
Definition first_tag0 (out : list (nat * A)) : bool :=
  match out with [] => true | (j, _) :: _ => Nat.eqb j 0 end.

End Gen.

(** ** val glue.
    input  = (strat seed srcs orc)
             strat 0/1/2 = sequential/interleaved/weighted; seed only used by the
             implementation; srcs = list of sources, a source = list of (kind id)
             (kind < 3: the line parses to Ok data, otherwise it is an Err item;
             id unique); orc = positions for the model's own weighted run, reduced
             modulo the number of unfinished sources (so every list is in range).
    output = (1 items rep len)   items = ((tag ok id) ...), rep = second run with the
             same seed gave the same items, len = what len() reported
           | (0)                 the constructor refused (weighted with an empty source) *)
Definition item := (bool * nat)%type.
Definition item_eqb (a b : item) : bool := Bool.eqb (fst a) (fst b) && Nat.eqb (snd a) (snd b).

Definition v_strategy (v : val) : strategy :=
  match v_z v with 1%Z => Interleaved | 2%Z => Weighted | _ => Sequential end.
Definition v_item (v : val) : item := (Nat.ltb (v_nat (v_nth 0 v)) 3, v_nat (v_nth 1 v)).
Definition v_srcs (v : val) : list (list item) := v_list (v_list v_item) (v_nth 2 v).
Definition v_oracle (v : val) : oracle :=
  let l := v_list v_nat (v_nth 3 v) in fun t m => nth t l 0 mod m.

Definition out_v (p : nat * item) : val := L [nat_v (fst p); bool_v (fst (snd p)); nat_v (snd (snd p))].
Definition v_out (v : val) : nat * item := (v_nat (v_nth 0 v), (v_bool (v_nth 1 v), v_nat (v_nth 2 v))).

Definition run_C07 (v : val) : val :=
  let srcs := v_srcs v in
  match run_gen (v_strategy (v_nth 0 v)) (v_oracle v) srcs with
  | Ok out => L [I 1%Z; list_v out_v out; I 1%Z; nat_v (total_len srcs)]
  | Err CtorErr => L [I 0%Z]
  | Err OutOfFuel => L [I (-1)%Z]
  | Err BadOracle => L [I (-2)%Z]
  | Err AssertFail => L [I (-3)%Z]
  end.

Definition shape_ok (out : val) : bool :=
  match out with L [I 1%Z; L _; I _; I _] => true | _ => false end.
Definition shape_ctor_err (out : val) : bool :=
  match out with L [I 0%Z] => true | _ => false end.

(** the property, evaluated on an implementation output *)
Definition check_C07 (v out : val) : bool :=
  let s := v_strategy (v_nth 0 v) in
  let srcs := v_srcs v in
  if shape_ctor_err out then is_weighted s && existsb is_nil srcs
  else
    let items := v_list v_out (v_nth 1 out) in
    shape_ok out
    && is_ti item_eqb srcs items                       (* each item once, in source order, right tag *)
    && v_bool (v_nth 2 out)                             (* same seed, same stream *)
    && Nat.eqb (v_nat (v_nth 3 out)) (total_len srcs)   (* len() *)
    && match s with
       | Sequential => out_eqb item_eqb items (seq_spec srcs)
       | Interleaved => out_eqb item_eqb items (rr srcs)
       | Weighted => true
       end.

(** correspondence: exact for sequential / interleaved; for weighted the
    implementation's stream must lie in the model's outcome set (tagged
    interleavings that start with source 0), the constructor error must match. *)
Definition agree_C07 (v m i : val) : bool :=
  match v_strategy (v_nth 0 v) with
  | Weighted =>
      if shape_ctor_err m then shape_ctor_err i
      else check_C07 v i && negb (shape_ctor_err i) && first_tag0 (v_list v_out (v_nth 1 i))
  | _ => val_eqb m i
  end.

(** ** The weighted strategy computed from the seed (RNG_Model inside the model).

    [next_idx], weighted arm, as the code runs it: the weights are the INITIAL lengths
    ([self.lengths], taken from [len()] at construction) of the sources not yet finished,
    [WeightedIndex::new(..).expect(..)], [self.rng.sample(dist)], the sampled position is mapped
    through the unfinished indices.  The generator state is threaded through the drain;
    [None] = the rejection loop of the uniform sampler ran out of its fuel (depends on the stream;
    never observed, see notes/RNG.md). *)
Definition unf_weights (lens unf : list nat) : list N := map (fun j => N.of_nat (nth j lens 0)) unf.

Definition next_idx_seeded (lens : list nat) (st : RNG_Model.rng) (fin : list bool) (idx : nat)
  : option (err + (nat * RNG_Model.rng)) :=
  if all_fin fin then Some (inl AssertFail)
  else if negb (idx <? length fin) then Some (inl AssertFail)
  else
    let unf := unfinished fin in
    match RNG_Model.weighted_sample_n RNG_Model.lemire_fuel (unf_weights lens unf) st with
    | inl _ => Some (inl AssertFail)               (* .expect("could not create line distribution") *)
    | inr None => None
    | inr (Some (p, st')) =>
        match nth_error unf p with
        | Some j => Some (inr (j, st'))
        | None => Some (inl BadOracle)              (* index out of bounds; excluded by seeded_in_range *)
        end
    end.

Section GenSeeded.
Context {A : Type}.

Fixpoint run_loop_s (lens : list nat) (fuel : nat) (srcs : list (list A)) (idx : nat)
         (fin : list bool) (st : RNG_Model.rng) : option (res A) :=
  match fuel with
  | O => Some (Err OutOfFuel)
  | S f =>
    match nth_error srcs idx with
    | None => Some (Err AssertFail)
    | Some (x :: xs) =>
        match next_idx_seeded lens st fin idx with
        | None => None
        | Some (inl e) => Some (Err e)
        | Some (inr (idx', st')) =>
            option_map (cons_res (idx, x)) (run_loop_s lens f (set_nth idx xs srcs) idx' fin st')
        end
    | Some [] =>
        let fin' := set_nth idx true fin in
        if all_fin fin' then Some (Ok [])
        else match next_idx_seeded lens st fin' idx with
             | None => None
             | Some (inl e) => Some (Err e)
             | Some (inr (idx', st')) => run_loop_s lens f srcs idx' fin' st'
             end
    end
  end.

(** [MultiTrainDataGenerator::new(generators, Weighted, Some(seed))] + drain *)
Definition run_gen_seeded (seed : N) (srcs : list (list A)) : option (res A) :=
  if existsb is_nil srcs then Some (Err CtorErr)
  else run_loop_s (map (@length A) srcs) (gen_fuel srcs) srcs 0 (repeat false (length srcs))
                  (RNG_Model.seed_from_u64 seed).
End GenSeeded.

(** val glue, second model line.
    weighted cases: the seed (second field) now determines the model's stream;
    rng cases (strat = 3): input = (3 (seed-hi seed-lo) script ()), see RNG_Model.v_call;
    output = (results (block-hi block-lo offset)) *)
Definition is_rng_case (v : val) : bool := Z.eqb (v_z (v_nth 0 v)) 3.
Definition v_script (v : val) : list RNG_Model.call := v_list RNG_Model.v_call (v_nth 2 v).
Definition run_rng (v : val) : val := RNG_Model.run_script (RNG_Model.v_hl (v_nth 1 v)) (v_script v).

Definition res_v (srcs : list (list item)) (r : res item) : val :=
  match r with
  | Ok out => L [I 1%Z; list_v out_v out; I 1%Z; nat_v (total_len srcs)]
  | Err CtorErr => L [I 0%Z]
  | Err OutOfFuel => L [I (-1)%Z]
  | Err BadOracle => L [I (-2)%Z]
  | Err AssertFail => L [I (-3)%Z]
  end.

Definition run_C07s (v : val) : val :=
  if is_rng_case v then run_rng v
  else match v_strategy (v_nth 0 v) with
       | Weighted =>
           match run_gen_seeded (v_n (v_nth 1 v)) (v_srcs v) with
           | Some r => res_v (v_srcs v) r
           | None => RNG_Model.v_fuel
           end
       | _ => run_C07 v
       end.

Definition check_rng (v out : val) : bool :=
  match out with
  | L [L outs; L [I _; I _; I _]] => RNG_Model.check_calls (v_script v) outs
  | _ => false
  end.
Definition check_C07s (v out : val) : bool :=
  if is_rng_case v then check_rng v out else check_C07 v out.

(** correspondence: rng scripts and the weighted strategy EXACT (the model computes the draws
    from the seed); for weighted the relational acceptance (outcome set of the oracle model)
    stays as a second line that must accept too. *)
Definition agree_C07s (v m i : val) : bool :=
  if is_rng_case v then val_eqb m i
  else match v_strategy (v_nth 0 v) with
       | Weighted => val_eqb m i && agree_C07 v (run_C07 v) i
       | _ => val_eqb m i
       end.

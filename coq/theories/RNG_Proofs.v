(** RNG proofs: word-level ranges, the generator invariant, ranges of the samplers, shuffle = permutation,
    weighted index positive. *)
From TU Require Import Base RNG_Model.
Require Import Lia ZifyN Permutation.
Local Open Scope N_scope.
Local Arguments N.add : simpl never. Local Arguments N.mul : simpl never. Local Arguments N.land : simpl never.
Local Arguments N.lor : simpl never. Local Arguments N.lxor : simpl never. Local Arguments N.shiftl : simpl never. Local Arguments N.shiftr : simpl never.
Local Arguments N.div : simpl never. Local Arguments N.modulo : simpl never. Local Arguments N.pow : simpl never. Local Arguments N.ltb : simpl never. Local Arguments N.leb : simpl never.

Lemma w32_mod : forall x, w32 x = x mod p32.
Proof. intros x. unfold w32. change mask32 with (N.ones 32). rewrite N.land_ones. reflexivity. Qed.
Lemma w64_mod : forall x, w64 x = x mod p64.
Proof. intros x. unfold w64. change mask64 with (N.ones 64). rewrite N.land_ones. reflexivity. Qed.
Lemma w32_lt : forall x, w32 x < p32.
Proof. intros x. rewrite w32_mod. apply N.mod_lt. discriminate. Qed.
Lemma w64_lt : forall x, w64 x < p64.
Proof. intros x. rewrite w64_mod. apply N.mod_lt. discriminate. Qed.
Lemma w32_id : forall x, x < p32 -> w32 x = x.
Proof. intros x H. rewrite w32_mod. apply N.mod_small. exact H. Qed.

Lemma lt_pow2_log2 : forall a n, a < 2 ^ n <-> (a = 0 \/ N.log2 a < n).
Proof.
  intros a n. destruct (N.eq_dec a 0) as [->|Hne].
  - split; [auto|]. intros _. apply N.neq_0_lt_0. apply N.pow_nonzero. discriminate.
  - split.
    + intros H. right. apply N.log2_lt_pow2; [lia|exact H].
    + intros [H|H]; [contradiction|]. apply N.log2_lt_pow2; [lia|exact H].
Qed.

Lemma lor_lt : forall n a b, a < 2 ^ n -> b < 2 ^ n -> N.lor a b < 2 ^ n.
Proof.
  intros n a b Ha Hb. apply lt_pow2_log2.
  destruct (N.eq_dec (N.lor a b) 0) as [E|E]; [left; exact E|right].
  rewrite N.log2_lor. apply lt_pow2_log2 in Ha, Hb.
  destruct Ha as [->|Ha], Hb as [->|Hb].
  - exfalso. apply E. reflexivity.
  - rewrite N.max_r by apply N.le_0_l. exact Hb.
  - rewrite N.max_l by apply N.le_0_l. exact Ha.
  - apply N.max_lub_lt; assumption.
Qed.

Lemma lxor_lt : forall n a b, a < 2 ^ n -> b < 2 ^ n -> N.lxor a b < 2 ^ n.
Proof.
  intros n a b Ha Hb. apply lt_pow2_log2.
  destruct (N.eq_dec (N.lxor a b) 0) as [E|E]; [left; exact E|right].
  eapply N.le_lt_trans; [apply N.log2_lxor|]. apply lt_pow2_log2 in Ha, Hb.
  destruct Ha as [->|Ha], Hb as [->|Hb].
  - exfalso. apply E. reflexivity.
  - rewrite N.max_r by apply N.le_0_l. exact Hb.
  - rewrite N.max_l by apply N.le_0_l. exact Ha.
  - apply N.max_lub_lt; assumption.
Qed.

Lemma shiftr_le : forall x k, N.shiftr x k <= x.
Proof.
  intros x k. rewrite N.shiftr_div_pow2. apply N.div_le_upper_bound; [apply N.pow_nonzero; discriminate|].
  pose proof (N.pow_nonzero 2 k ltac:(discriminate)) as H. nia.
Qed.

(** * 32-bit words *)
Definition lt32 (x : N) : Prop := x < p32.

Lemma add32_spec : forall a b, add32 a b = (a + b) mod p32.
Proof. intros. apply w32_mod. Qed.
Lemma add32_lt : forall a b, add32 a b < p32.
Proof. intros. apply w32_lt. Qed.

Lemma rotr32_lt : forall x k, x < p32 -> rotr32 x k < p32.
Proof.
  intros x k H. unfold rotr32. change p32 with (2 ^ 32). apply lor_lt.
  - eapply N.le_lt_trans; [apply shiftr_le|exact H].
  - apply w32_lt.
Qed.

Lemma lxor32_lt : forall a b, a < p32 -> b < p32 -> N.lxor a b < p32.
Proof. intros. change p32 with (2 ^ 32). apply lxor_lt; assumption. Qed.

Lemma quarter_round_range_l : forall a b c d a' b' c' d',
  b < p32 -> d < p32 -> quarter_round a b c d = (a', b', c', d') ->
  a' < p32 /\ b' < p32 /\ c' < p32 /\ d' < p32.
Proof.
  intros a b c d a' b' c' d' Hb Hd H. unfold quarter_round in H. cbv zeta in H.
  injection H as <- <- <- <-.
  assert (H1 : rotr32 (N.lxor d (add32 a b)) 16 < p32) by (apply rotr32_lt, lxor32_lt; [exact Hd|apply add32_lt]).
  assert (H2 : rotr32 (N.lxor b (add32 c (rotr32 (N.lxor d (add32 a b)) 16))) 20 < p32)
    by (apply rotr32_lt, lxor32_lt; [exact Hb|apply add32_lt]).
  repeat split; try apply add32_lt.
  - apply rotr32_lt, lxor32_lt; [exact H2|apply add32_lt].
  - apply rotr32_lt, lxor32_lt; [|apply add32_lt]. apply rotr32_lt, lxor32_lt; [exact Hd|apply add32_lt].
Qed.

Lemma chacha_block_spec : forall k c,
  length (chacha_block k c) = 16%nat /\ Forall lt32 (chacha_block k c).
Proof.
  intros k c. unfold chacha_block.
  destruct (init_state k c), (iter_rounds drounds _).
  split; [reflexivity|]. repeat constructor; apply add32_lt.
Qed.

Lemma refill_words_spec : forall k c,
  length (refill_words k c) = 64%nat /\ Forall lt32 (refill_words k c).
Proof.
  intros k c. unfold refill_words. split.
  - rewrite !app_length. rewrite !(proj1 (chacha_block_spec _ _)). reflexivity.
  - apply Forall_app; split; [apply chacha_block_spec|].
    apply Forall_app; split; [apply chacha_block_spec|].
    apply Forall_app; split; apply chacha_block_spec.
Qed.

(** * the generator invariant: every buffered word is a 32-bit word *)
Definition wf (st : rng) : Prop := Forall lt32 (r_buf st).

Lemma wf_seed : forall seed, wf (seed_from_u64 seed).
Proof. intros. constructor. Qed.

Lemma wf_generate : forall i st, wf (generate_and_set i st).
Proof. intros. unfold wf, generate_and_set. cbn [r_buf]. apply refill_words_spec. Qed.

Lemma wf_set_word_pos : forall b off st, wf (set_word_pos b off st).
Proof. intros. apply wf_generate. Qed.

Lemma nth_lt32 : forall l i, Forall lt32 l -> nth i l 0 < p32.
Proof.
  intros l i H. destruct (Nat.lt_ge_cases i (length l)) as [Hi|Hi].
  - apply (proj1 (Forall_forall lt32 l) H). apply nth_In. exact Hi.
  - rewrite nth_overflow by exact Hi. reflexivity.
Qed.

Lemma next_u32_spec : forall st x st', wf st -> next_u32 st = (x, st') -> x < p32 /\ wf st'.
Proof.
  intros st x st' Hw H. unfold next_u32 in H.
  set (st1 := if Nat.leb buf_len (r_idx st) then generate_and_set 0 st else st) in H.
  assert (Hw1 : wf st1) by (unfold st1; destruct (Nat.leb buf_len (r_idx st)); [apply wf_generate|exact Hw]).
  injection H as <- <-. split; [apply nth_lt32; exact Hw1|exact Hw1].
Qed.

(** [next_u64] is two [next_u32] in a row, low half first — in all three cases of the code
    (two words buffered; buffer used up; one word left = the value straddles the refill) *)
Lemma next_u64_as_u32s : forall st,
  next_u64 st = (let (lo, st1) := next_u32 st in let (hi, st2) := next_u32 st1 in
                 (N.lor (N.shiftl hi 32) lo, st2)).
Proof.
  intros [k c buf i]. unfold next_u64, next_u32, buf_len, generate_and_set, read_u64.
  cbn [r_idx r_buf r_key r_ctr].
  destruct (Nat.ltb i (64 - 1)) eqn:E1.
  - apply Nat.ltb_lt in E1. replace (Nat.leb 64 i) with false by (symmetry; apply Nat.leb_gt; lia).
    cbn [r_idx r_buf r_key r_ctr]. replace (Nat.leb 64 (S i)) with false by (symmetry; apply Nat.leb_gt; lia).
    cbn [r_idx r_buf r_key r_ctr]. rewrite (Nat.add_comm i 2). reflexivity.
  - apply Nat.ltb_ge in E1. destruct (Nat.leb 64 i) eqn:E2.
    + cbn [r_idx r_buf r_key r_ctr]. change (Nat.leb 64 1) with false. cbn [r_idx r_buf r_key r_ctr]. reflexivity.
    + apply Nat.leb_gt in E2. assert (i = 63%nat) by lia. subst i.
      cbn [r_idx r_buf r_key r_ctr]. change (Nat.leb 64 64) with true. cbn [r_idx r_buf r_key r_ctr].
      change (64 - 1)%nat with 63%nat. reflexivity.
Qed.

Lemma next_u64_spec : forall st x st', wf st -> next_u64 st = (x, st') -> x < p64 /\ wf st'.
Proof.
  intros st x st' Hw H. rewrite next_u64_as_u32s in H.
  destruct (next_u32 st) as [lo st1] eqn:E1. destruct (next_u32 st1) as [hi st2] eqn:E2.
  destruct (next_u32_spec _ _ _ Hw E1) as [Hlo Hw1]. destruct (next_u32_spec _ _ _ Hw1 E2) as [Hhi Hw2].
  injection H as <- <-. split; [|exact Hw2].
  change p64 with (2 ^ 64). apply lor_lt.
  - rewrite N.shiftl_mul_pow2. change (2 ^ 64) with (p32 * 2 ^ 32). apply N.mul_lt_mono_pos_r; [reflexivity|exact Hhi].
  - eapply N.lt_trans; [exact Hlo|reflexivity].
Qed.

Lemma random_f64_spec : forall st k st', wf st -> random_f64 st = (k, st') -> k < 9007199254740992 /\ wf st'.
Proof.
  intros st k st' Hw H. unfold random_f64 in H. destruct (next_u64 st) as [x st1] eqn:E.
  destruct (next_u64_spec _ _ _ Hw E) as [Hx Hw1]. injection H as <- <-. split; [|exact Hw1].
  rewrite N.shiftr_div_pow2. apply N.div_lt_upper_bound; [discriminate|]. exact Hx.
Qed.

(** * random_range: Canon's method *)
Lemma land_ones_mod : forall p bits, N.land p (N.shiftl 1 bits - 1) = p mod 2 ^ bits.
Proof.
  intros p bits. rewrite N.shiftl_1_l, N.sub_1_r. rewrite <- N.ones_equiv, N.land_ones. reflexivity.
Qed.

(** the arithmetic of one sample: x, y the draws, pw = 2^bits *)
Lemma canon_arith : forall pw x y n, 0 < pw -> x < pw -> 0 < n -> n <= pw ->
  let p := x * n in
  (if pw - n <? p mod pw then (if pw <=? p mod pw + (y * n) / pw then p / pw + 1 else p / pw) else p / pw) < n.
Proof.
  intros pw x y n Hpw Hx Hn Hle p.
  assert (Hhi : p / pw < n) by (apply N.div_lt_upper_bound; [lia|]; unfold p; nia).
  destruct (pw - n <? p mod pw) eqn:E; [|exact Hhi].
  destruct (pw <=? p mod pw + y * n / pw); [|exact Hhi].
  apply N.ltb_lt in E.
  pose proof (N.div_mod p pw ltac:(lia)) as Hdm.
  pose proof (N.mod_lt p pw ltac:(lia)) as Hml.
  (* p / pw = n - 1 would force x * n > n * (pw - 1) *)
  destruct (N.lt_ge_cases (p / pw + 1) n) as [|Hge]; [assumption|exfalso].
  assert (Hq : p / pw = n - 1) by lia.
  assert (Hp : n * pw - n < p) by (rewrite Hdm, Hq; nia).
  unfold p in Hp. nia.
Qed.

Lemma canon_spec : forall draw bits n st x st' (inv : rng -> Prop),
  (forall s y s', inv s -> draw s = (y, s') -> y < 2 ^ bits /\ inv s') ->
  inv st -> 0 < n -> n <= 2 ^ bits -> canon draw bits n st = (x, st') -> x < n /\ inv st'.
Proof.
  intros draw bits n st x st' inv Hd Hi Hn Hle H. unfold canon in H. cbv zeta in H.
  destruct (draw st) as [a st1] eqn:E1. rewrite land_ones_mod in H. rewrite N.shiftl_1_l in H. rewrite !N.shiftr_div_pow2 in H.
  destruct (Hd _ _ _ Hi E1) as [Ha Hi1].
  assert (Hpw : 0 < 2 ^ bits) by (apply N.neq_0_lt_0, N.pow_nonzero; discriminate).
  destruct (2 ^ bits - n <? (a * n) mod 2 ^ bits) eqn:E.
  - destruct (draw st1) as [b st2] eqn:E2. destruct (Hd _ _ _ Hi1 E2) as [Hb Hi2].
    injection H as <- <-. split; [|exact Hi2]. rewrite N.shiftr_div_pow2.
    pose proof (canon_arith (2 ^ bits) a b n Hpw Ha Hn Hle) as Hc. cbv zeta in Hc. rewrite E in Hc. exact Hc.
  - injection H as <- <-. split; [|exact Hi1].
    pose proof (canon_arith (2 ^ bits) a 0 n Hpw Ha Hn Hle) as Hc. cbv zeta in Hc. rewrite E in Hc. exact Hc.
Qed.

Lemma draw32_inv : forall s y s', wf s -> next_u32 s = (y, s') -> y < 2 ^ 32 /\ wf s'.
Proof. exact next_u32_spec. Qed.
Lemma draw64_inv : forall s y s', wf s -> next_u64 s = (y, s') -> y < 2 ^ 64 /\ wf s'.
Proof. exact next_u64_spec. Qed.

Lemma random_range_some : forall n st, random_range n st <> None <-> 0 < n < p64.
Proof.
  intros n st. unfold random_range.
  destruct (n =? 0) eqn:E0; [apply N.eqb_eq in E0; cbn [orb]; split; [congruence|lia]|].
  apply N.eqb_neq in E0. cbn [orb]. destruct (p64 <=? n) eqn:E1.
  - apply N.leb_le in E1. split; [congruence|lia].
  - apply N.leb_gt in E1. destruct (mask32 <? n); split; intros; try discriminate; lia.
Qed.

Lemma random_range_spec : forall n st i st', wf st -> random_range n st = Some (i, st') -> i < n /\ wf st'.
Proof.
  intros n st i st' Hw H. unfold random_range in H.
  destruct (n =? 0) eqn:E0; [discriminate|]. apply N.eqb_neq in E0. cbn [orb] in H.
  destruct (p64 <=? n) eqn:E1; [discriminate|]. apply N.leb_gt in E1.
  destruct (mask32 <? n) eqn:E2; injection H as H.
  - eapply (canon_spec next_u64 64 n st i st' wf draw64_inv); try eassumption; [lia|]. change (2 ^ 64) with p64. lia.
  - apply N.ltb_ge in E2. eapply (canon_spec next_u32 32 n st i st' wf draw32_inv); try eassumption; [lia|].
    change (2 ^ 32) with (mask32 + 1). lia.
Qed.

Lemma random_below_u32_spec : forall b st i st', wf st -> 0 < b -> b < p32 ->
  random_below_u32 b st = (i, st') -> i < b /\ wf st'.
Proof.
  intros b st i st' Hw H0 Hb H. unfold random_below_u32 in H.
  eapply (canon_spec next_u32 32 b st i st' wf draw32_inv); try eassumption. change (2 ^ 32) with p32. lia.
Qed.

(** * Uniform<usize>: Lemire's method *)
Lemma lemire_spec : forall fuel draw bits range thresh st x st' (inv : rng -> Prop),
  (forall s y s', inv s -> draw s = (y, s') -> y < 2 ^ bits /\ inv s') ->
  inv st -> 0 < range -> lemire fuel draw bits range thresh st = Some (x, st') -> x < range /\ inv st'.
Proof.
  induction fuel as [|f IH]; intros draw bits range thresh st x st' inv Hd Hi Hr H; [discriminate|].
  cbn [lemire] in H. destruct (draw st) as [a st1] eqn:E1. destruct (Hd _ _ _ Hi E1) as [Ha Hi1].
  destruct (thresh <=? _).
  - injection H as <- <-. split; [|exact Hi1]. rewrite N.shiftr_div_pow2.
    apply N.div_lt_upper_bound; [apply N.pow_nonzero; discriminate|]. nia.
  - eapply IH; eassumption.
Qed.

Lemma uniform_usize_spec : forall fuel total st x st', wf st -> 0 < total -> total < p64 ->
  uniform_usize fuel total st = Some (x, st') -> x < total /\ wf st'.
Proof.
  intros fuel total st x st' Hw H0 Hlt H. unfold uniform_usize in H.
  destruct (mask32 <? total - 1) eqn:E.
  - eapply (lemire_spec fuel next_u64 64 total _ st x st' wf draw64_inv); eassumption.
  - apply N.ltb_ge in E. rewrite w32_mod in H.
    destruct (N.eq_dec total p32) as [->|Hne].
    + change (p32 mod p32 =? 0) with true in H. cbv iota in H.
      destruct (next_u32 st) as [y s1] eqn:E1. injection H as <- <-. eapply next_u32_spec; eassumption.
    + assert (Hs : total < p32) by (change p32 with (mask32 + 1) in *; lia).
      rewrite (N.mod_small _ _ Hs) in H. destruct (total =? 0) eqn:Ez; [apply N.eqb_eq in Ez; lia|].
      eapply (lemire_spec fuel next_u32 32 total _ st x st' wf draw32_inv); eassumption.
Qed.

(** * IncreasingUniform *)

(** n (n+1) .. (n+r-1) *)
Fixpoint prodfrom (n : N) (r : nat) : N :=
  match r with O => 1 | S r' => n * prodfrom (n + 1) r' end.

Lemma prodfrom_snoc : forall r n, prodfrom n (S r) = prodfrom n r * (n + N.of_nat r).
Proof.
  induction r as [|r IH]; intros n.
  - cbn [prodfrom]. change (N.of_nat 0) with 0. lia.
  - change (prodfrom n (S (S r))) with (n * prodfrom (n + 1) (S r)). rewrite IH.
    change (prodfrom n (S r)) with (n * prodfrom (n + 1) r). rewrite Nat2N.inj_succ. nia.
Qed.

Lemma prodfrom_pos : forall r n, 0 < n -> 0 < prodfrom n r.
Proof. induction r as [|r IH]; intros n Hn; cbn [prodfrom]; [lia|]. specialize (IH (n + 1)). nia. Qed.

(** the loop of [calculate_bound_u32]: 33 steps of fuel are enough, and the result is the
    product of [count] consecutive numbers from m, below 2^32 *)
Lemma calc_bound_f_some : forall f m product current,
  2 <= current -> p32 <= product * 2 ^ N.of_nat f -> calc_bound_f (S f) m product current <> None.
Proof.
  induction f as [|f IH]; intros m product current Hc Hp.
  - cbn [calc_bound_f]. change (2 ^ N.of_nat 0) with 1 in Hp.
    replace (product * current <? p32) with false by (symmetry; apply N.ltb_ge; nia). discriminate.
  - change (calc_bound_f (S (S f)) m product current) with
      (if product * current <? p32 then calc_bound_f (S f) m (product * current) (current + 1)
       else Some (product, current - m)).
    destruct (product * current <? p32); [|discriminate]. apply IH; [lia|].
    rewrite Nat2N.inj_succ, N.pow_succ_r' in Hp. nia.
Qed.

Lemma calc_bound_f_spec : forall f m product current b c k,
  0 < m -> current = m + N.of_nat (S k) -> product = prodfrom m (S k) -> product < p32 ->
  calc_bound_f f m product current = Some (b, c) ->
  exists r, c = N.of_nat (S r) /\ b = prodfrom m (S r) /\ b < p32.
Proof.
  induction f as [|f IH]; intros m product current b c k Hm Hc Hp Hlt H; [discriminate|].
  cbn [calc_bound_f] in H. destruct (product * current <? p32) eqn:E.
  - apply N.ltb_lt in E. apply (IH m (product * current) (current + 1) b c (S k)); try assumption.
    + rewrite Hc, !Nat2N.inj_succ. lia.
    + rewrite (prodfrom_snoc (S k)), <- Hp, Hc. reflexivity.
  - injection H as <- <-. exists k. split; [lia|]. split; [exact Hp|exact Hlt].
Qed.

Lemma calc_bound_spec : forall m, 0 < m -> m < p32 ->
  exists r, calc_bound m = (prodfrom m (S r), N.of_nat (S r)) /\ prodfrom m (S r) < p32.
Proof.
  intros m Hm Hlt. unfold calc_bound.
  destruct (calc_bound_f 33 m m (m + 1)) as [[b c]|] eqn:E.
  - destruct (calc_bound_f_spec 33 m m (m + 1) b c 0 Hm) as (r & -> & -> & Hb); auto.
    + cbn [prodfrom]. lia.
    + exists r. split; [reflexivity|exact Hb].
  - exfalso. revert E. apply (calc_bound_f_some 32); [lia|]. change (2 ^ N.of_nat 32) with p32. nia.
Qed.

(** the chooser's invariant: a fresh chunk is due, or the chunk is below the product of the
    next [rem] bounds *)
Definition incu_ok (c : incu) : Prop :=
  iu_rem c = 0 \/ iu_chunk c < prodfrom (iu_n c + 1) (N.to_nat (iu_rem c)).

Lemma incu_new_ok : forall n, incu_ok (incu_new n).
Proof.
  intros n. unfold incu_ok, incu_new. destruct (n =? 0) eqn:E; cbn [iu_rem iu_chunk iu_n]; [right|left; reflexivity].
  apply N.eqb_eq in E. subst n. reflexivity.
Qed.

Lemma finish_step : forall next_n chunk r, 0 < next_n -> chunk < prodfrom next_n (S r) ->
  (N.of_nat r = 0 -> chunk < next_n) /\
  chunk mod next_n < next_n /\ chunk / next_n < prodfrom (next_n + 1) r.
Proof.
  intros next_n chunk r Hn Hc. change (prodfrom next_n (S r)) with (next_n * prodfrom (next_n + 1) r) in Hc.
  split; [|split].
  - intros Hr. destruct r; [|discriminate]. cbn [prodfrom] in Hc. lia.
  - apply N.mod_lt. lia.
  - apply N.div_lt_upper_bound; [lia|exact Hc].
Qed.

Lemma next_index_spec : forall c st j c' st', wf st -> incu_ok c -> iu_n c + 1 < p32 ->
  next_index c st = (j, c', st') ->
  j <= iu_n c /\ iu_n c' = iu_n c + 1 /\ incu_ok c' /\ wf st'.
Proof.
  intros c st j c' st' Hw Hok Hn H. unfold next_index in H.
  destruct (iu_rem c =? 0) eqn:Er.
  - destruct (calc_bound_spec (iu_n c + 1) ltac:(lia) Hn) as (r & Ecb & Hb). rewrite Ecb in H.
    destruct (random_below_u32 _ st) as [ch st1] eqn:Ed.
    destruct (random_below_u32_spec _ _ _ _ Hw (prodfrom_pos (S r) (iu_n c + 1) ltac:(lia)) Hb Ed) as [Hch Hw1].
    destruct (finish_step (iu_n c + 1) ch r ltac:(lia) Hch) as (F1 & F2 & F3).
    replace (N.of_nat (S r) - 1) with (N.of_nat r) in H by lia.
    destruct (N.of_nat r =? 0) eqn:Ez; injection H as <- <- <-.
    + apply N.eqb_eq in Ez. cbn [iu_n]. repeat split; [specialize (F1 Ez); lia| |exact Hw1].
      left. exact Ez.
    + cbn [iu_n]. repeat split; [lia| |exact Hw1]. right. cbn [iu_chunk iu_rem iu_n]. rewrite Nat2N.id. exact F3.
  - apply N.eqb_neq in Er. destruct Hok as [Hz|Hc]; [contradiction|].
    destruct (N.to_nat (iu_rem c)) as [|r] eqn:Enat; [lia|].
    destruct (finish_step (iu_n c + 1) (iu_chunk c) r ltac:(lia) Hc) as (F1 & F2 & F3).
    assert (Hr : iu_rem c - 1 = N.of_nat r) by lia. rewrite Hr in H.
    destruct (N.of_nat r =? 0) eqn:Ez; injection H as <- <- <-.
    + apply N.eqb_eq in Ez. cbn [iu_n]. repeat split; [specialize (F1 Ez); lia| |exact Hw].
      left. exact Ez.
    + cbn [iu_n]. repeat split; [lia| |exact Hw]. right. cbn [iu_chunk iu_rem iu_n]. rewrite Nat2N.id. exact F3.
Qed.

(** every index drawn for position i is at most i *)
Fixpoint idx_le (i : N) (js : list N) : Prop :=
  match js with [] => True | j :: r => j <= i /\ idx_le (i + 1) r end.

Lemma shuffle_idx_fast_spec : forall k c st js st', wf st -> incu_ok c -> iu_n c + N.of_nat k < p32 ->
  shuffle_idx_fast k c st = (js, st') -> length js = k /\ idx_le (iu_n c) js /\ wf st'.
Proof.
  induction k as [|k IH]; intros c st js st' Hw Hok Hn H; cbn [shuffle_idx_fast] in H.
  - injection H as <- <-. repeat split. exact Hw.
  - destruct (next_index c st) as [[j c1] st1] eqn:E1.
    destruct (next_index_spec _ _ _ _ _ Hw Hok ltac:(lia) E1) as (Hj & Hn1 & Hok1 & Hw1).
    destruct (shuffle_idx_fast k c1 st1) as [js1 st2] eqn:E2. injection H as <- <-.
    destruct (IH _ _ _ _ Hw1 Hok1 ltac:(lia) E2) as (Hl & Hle & Hw2).
    split; [cbn [length]; congruence|]. split; [|exact Hw2]. cbn [idx_le]. rewrite <- Hn1. auto.
Qed.

Lemma shuffle_idx_slow_spec : forall k i st js st', wf st -> i + N.of_nat k < p64 ->
  shuffle_idx_slow k i st = (js, st') -> length js = k /\ idx_le i js /\ wf st'.
Proof.
  induction k as [|k IH]; intros i st js st' Hw Hn H; cbn [shuffle_idx_slow] in H.
  - injection H as <- <-. repeat split. exact Hw.
  - destruct (random_range (i + 1) st) as [[j st1]|] eqn:E1.
    + destruct (random_range_spec _ _ _ _ Hw E1) as [Hj Hw1].
      destruct (shuffle_idx_slow k (i + 1) st1) as [js1 st2] eqn:E2. injection H as <- <-.
      destruct (IH (i + 1) st1 js1 st2 Hw1 ltac:(lia) E2) as (Hl & Hle & Hw2).
      split; [cbn [length]; congruence|]. split; [|exact Hw2]. cbn [idx_le]. split; [lia|exact Hle].
    + exfalso. revert E1. apply random_range_some. lia.
Qed.

Lemma partial_indices_spec : forall len amount st js st', wf st -> len < p64 ->
  partial_indices len amount st = (js, st') ->
  let eff := if N.of_nat amount <? len then amount else N.to_nat len in
  length js = eff /\ idx_le (len - N.of_nat eff) js /\ wf st'.
Proof.
  intros len amount st js st' Hw Hlen H eff. unfold partial_indices in H. fold eff in H.
  assert (He : N.of_nat eff <= len) by (unfold eff; destruct (N.of_nat amount <? len) eqn:E; [apply N.ltb_lt in E|]; lia).
  destruct (len <? mask32) eqn:E.
  - apply N.ltb_lt in E.
    assert (Hn : iu_n (incu_new (len - N.of_nat eff)) + N.of_nat eff < p32)
      by (unfold incu_new; cbn [iu_n]; change p32 with (mask32 + 1); lia).
    destruct (shuffle_idx_fast_spec eff (incu_new (len - N.of_nat eff)) st js st' Hw (incu_new_ok _) Hn H) as (A & B & C).
    unfold incu_new in B. cbn [iu_n] in B. auto.
  - eapply shuffle_idx_slow_spec; eauto. lia.
Qed.

Lemma shuffle_indices_spec : forall len st js st', wf st -> N.of_nat len < p64 ->
  shuffle_indices len st = (js, st') ->
  (js = [] \/ length js = len) /\ idx_le 0 js /\ wf st'.
Proof.
  intros len st js st' Hw Hlen H. unfold shuffle_indices in H. destruct (Nat.leb len 1).
  - injection H as <- <-. repeat split; auto.
  - destruct (partial_indices_spec _ _ _ _ _ Hw Hlen H) as (A & B & C).
    rewrite N.ltb_irrefl, Nat2N.id in A, B. rewrite N.sub_diag in B. auto.
Qed.

(** * shuffle is a permutation *)
Section Perm.
Context {A : Type}.
Implicit Types l : list A.

Lemma upd_length : forall i (x : A) l, length (upd i x l) = length l.
Proof. induction i; destruct l; cbn; auto. Qed.

Lemma upd_perm : forall l j (a b : A), nth_error l j = Some b -> Permutation (b :: upd j a l) (a :: l).
Proof.
  induction l as [|y l IH]; intros [|j] a b H; cbn in H; try discriminate.
  - injection H as ->. cbn [upd]. apply perm_swap.
  - cbn [upd]. eapply perm_trans; [apply perm_swap|]. eapply perm_trans; [|apply perm_swap].
    apply perm_skip. apply IH. exact H.
Qed.

Lemma swap_perm : forall l i j, Permutation (swap i j l) l.
Proof.
  induction l as [|y l IH]; intros i j; unfold swap.
  - destruct i; reflexivity.
  - destruct i as [|i], j as [|j]; cbn [nth_error].
    + cbn [upd]. reflexivity.
    + destruct (nth_error l j) as [b|] eqn:E; [|reflexivity]. cbn [upd]. apply upd_perm. exact E.
    + destruct (nth_error l i) as [a|] eqn:E; [|reflexivity]. cbn [upd]. apply upd_perm. exact E.
    + specialize (IH i j). unfold swap in IH.
      destruct (nth_error l i) as [a|]; [|reflexivity]. destruct (nth_error l j) as [b|]; [|reflexivity].
      cbn [upd]. apply perm_skip. exact IH.
Qed.

Lemma swap_length : forall l i j, length (swap i j l) = length l.
Proof. intros. apply Permutation_length, swap_perm. Qed.

Lemma apply_swaps_perm : forall js i l, Permutation (apply_swaps i js l) l.
Proof.
  induction js as [|j js IH]; intros i l; cbn [apply_swaps]; [reflexivity|].
  eapply perm_trans; [apply IH|apply swap_perm].
Qed.

Lemma shuffle_perm_l : forall l st, Permutation (fst (shuffle l st)) l.
Proof.
  intros l st. unfold shuffle. destruct (shuffle_indices (length l) st) as [js st']. cbn [fst].
  apply apply_swaps_perm.
Qed.

(** in bounds, [swap i j] really exchanges the two elements *)
Lemma swap_in_bounds : forall l i j a b, nth_error l i = Some a -> nth_error l j = Some b ->
  swap i j l = upd i b (upd j a l).
Proof. intros l i j a b Ha Hb. unfold swap. rewrite Ha, Hb. reflexivity. Qed.

(** no swap of a shuffle is out of bounds (in the code that would be a panic) *)
Fixpoint swaps_in_bounds (n i : nat) (js : list N) : Prop :=
  match js with [] => True | j :: r => (i < n)%nat /\ (N.to_nat j <= i)%nat /\ swaps_in_bounds n (S i) r end.

End Perm.

Lemma idx_le_in_bounds : forall js n i, (i + length js <= n)%nat -> idx_le (N.of_nat i) js -> swaps_in_bounds n i js.
Proof.
  induction js as [|j js IH]; intros n i Hn H; cbn [swaps_in_bounds idx_le length] in *; [exact Logic.I|].
  destruct H as [Hj Hr]. split; [lia|]. split; [lia|]. apply IH; [lia|].
  replace (N.of_nat (S i)) with (N.of_nat i + 1) by lia. exact Hr.
Qed.

Lemma shuffle_in_bounds_l : forall len st, wf st -> N.of_nat len < p64 ->
  swaps_in_bounds len 0 (fst (shuffle_indices len st)).
Proof.
  intros len st Hw Hlen. destruct (shuffle_indices len st) as [js st'] eqn:E. cbn [fst].
  destruct (shuffle_indices_spec _ _ _ _ Hw Hlen E) as ([->|Hl] & Hle & _); [exact Logic.I|].
  apply idx_le_in_bounds; [lia|exact Hle].
Qed.

Lemma shuffle_wf : forall A (l : list A) st, wf st -> N.of_nat (length l) < p64 -> wf (snd (shuffle l st)).
Proof.
  intros A l st Hw Hlen. unfold shuffle. destruct (shuffle_indices (length l) st) as [js st'] eqn:E. cbn [snd].
  eapply shuffle_indices_spec; eassumption.
Qed.

(** * WeightedIndex<usize> *)

(** prefix sums: [psums t r] = (t, t+r0, t+r0+r1, .. without the last, the last) *)
Fixpoint psums (t : N) (r : list N) : list N * N :=
  match r with
  | [] => ([], t)
  | w :: r' => let (c, T) := psums (t + w) r' in (t :: c, T)
  end.

Lemma wcum_n_psums : forall r t acc cum T, wcum_n r t acc = inr (cum, T) ->
  cum = rev acc ++ fst (psums t r) /\ T = snd (psums t r) /\ T <> 0.
Proof.
  induction r as [|w r IH]; intros t acc cum T H; cbn [wcum_n psums] in *.
  - destruct (t =? 0) eqn:E; [discriminate|]. apply N.eqb_neq in E. injection H as <- <-.
    cbn [fst snd]. rewrite app_nil_r. auto.
  - destruct (p64 <=? t + w); [discriminate|]. destruct (IH _ _ _ _ H) as (Hc & HT & Hz).
    destruct (psums (t + w) r) as [c T'] eqn:Ep. cbn [fst snd] in *. cbn [rev] in Hc. rewrite <- app_assoc in Hc.
    cbn [app] in Hc. auto.
Qed.

Lemma wcum_n_lt : forall r t acc cum T, t < p64 -> wcum_n r t acc = inr (cum, T) -> T < p64.
Proof.
  induction r as [|w r IH]; intros t acc cum T Ht H; cbn [wcum_n] in H.
  - destruct (t =? 0); [discriminate|]. injection H as <- <-. exact Ht.
  - destruct (p64 <=? t + w) eqn:E; [discriminate|]. apply N.leb_gt in E. eapply IH; eassumption.
Qed.

Lemma ppoint_psums : forall r w base x, base <= x -> x < snd (psums (base + w) r) ->
  let i := ppoint N.leb (fst (psums (base + w) r)) x in
  (i < length (w :: r))%nat /\ 0 < nth i (w :: r) 0.
Proof.
  induction r as [|w' r IH]; intros w base x Hb Hx; cbn [psums] in *.
  - cbn [fst snd ppoint length nth] in *. split; [lia|lia].
  - destruct (psums (base + w + w') r) as [c T] eqn:Ep. cbn [fst snd] in *. cbn [ppoint].
    destruct (base + w <=? x) eqn:E.
    + apply N.leb_le in E. specialize (IH w' (base + w) x E). rewrite Ep in IH. cbn [fst snd] in IH.
      destruct (IH Hx) as [I1 I2]. cbn [length] in *. split; [lia|]. exact I2.
    + apply N.leb_gt in E. cbn [length nth]. split; lia.
Qed.

Lemma weighted_sample_n_spec : forall fuel ws st i st', wf st -> Forall (fun w => w < p64) ws ->
  weighted_sample_n fuel ws st = inr (Some (i, st')) ->
  (i < length ws)%nat /\ 0 < nth i ws 0 /\ wf st'.
Proof.
  intros fuel ws st i st' Hw Hws H. unfold weighted_sample_n, windex_new_n in H.
  destruct ws as [|w0 r]; [discriminate|].
  destruct (wcum_n r w0 []) as [e|[cum T]] eqn:Ec; [discriminate|].
  destruct (wcum_n_psums _ _ _ _ _ Ec) as (Hc & HT & Hz). cbn [rev app] in Hc.
  assert (HTl : T < p64) by (eapply wcum_n_lt; [|exact Ec]; inversion Hws; assumption).
  destruct (uniform_usize fuel T st) as [[x st1]|] eqn:Eu; [|discriminate].
  destruct (uniform_usize_spec fuel T st x st1 Hw ltac:(lia) HTl Eu) as [Hx Hw1].
  injection H as <- <-. subst cum T.
  pose proof (ppoint_psums r w0 0 x ltac:(lia)) as P. rewrite N.add_0_l in P. destruct (P Hx) as [P1 P2].
  auto.
Qed.

(** [new] succeeds whenever there is a weight, the sum fits a usize and is positive *)
Lemma wcum_n_ok : forall r t acc, t + sumN r < p64 -> 0 < t + sumN r ->
  exists cum, wcum_n r t acc = inr (cum, t + sumN r).
Proof.
  induction r as [|w r IH]; intros t acc H1 H2; cbn [wcum_n sumN fold_right] in *.
  - rewrite N.add_0_r in *. replace (t =? 0) with false by (symmetry; apply N.eqb_neq; lia). eauto.
  - fold (sumN r) in *. replace (p64 <=? t + w) with false by (symmetry; apply N.leb_gt; lia).
    destruct (IH (t + w) (t :: acc)) as [cum Hc]; [lia|lia|]. exists cum. rewrite Hc. f_equal. f_equal. lia.
Qed.

Lemma windex_new_n_ok : forall ws, ws <> [] -> sumN ws < p64 -> 0 < sumN ws ->
  exists cum, windex_new_n ws = inr (cum, sumN ws).
Proof.
  intros ws Hne Hlt Hpos. destruct ws as [|w0 r]; [contradiction|]. unfold windex_new_n.
  cbn [sumN fold_right] in *. fold (sumN r) in *. apply wcum_n_ok; assumption.
Qed.

(** * WeightedIndex<f64>: the index is in range *)
Lemma ppoint_le : forall W (le : W -> W -> bool) cum x, (ppoint le cum x <= length cum)%nat.
Proof. induction cum as [|w r IH]; intros x; cbn [ppoint length]; [lia|]. destruct (le w x); [specialize (IH x)|]; lia. Qed.

Lemma wcum_f_length : forall r t acc cum T, wcum_f r t acc = inr (cum, T) -> length cum = (length acc + length r)%nat.
Proof.
  induction r as [|w r IH]; intros t acc cum T H; cbn [wcum_f] in H.
  - destruct (fis_zero t); [discriminate|]. injection H as <- <-. rewrite rev_length. cbn. lia.
  - destruct (fge0 w); [|discriminate]. rewrite (IH _ _ _ _ H). cbn [length]. lia.
Qed.

Lemma uniform_f64_sample_wf : forall scale st x st', wf st -> uniform_f64_sample scale st = (x, st') -> wf st'.
Proof.
  intros scale st x st' Hw H. unfold uniform_f64_sample in H. destruct (next_u64 st) as [y st1] eqn:E.
  destruct (next_u64_spec _ _ _ Hw E) as [_ Hw1]. injection H as _ <-. exact Hw1.
Qed.

Lemma weighted_sample_f_spec : forall ws st i total st', wf st ->
  weighted_sample_f ws st = inr (i, total, st') -> (i < length ws)%nat /\ wf st'.
Proof.
  intros ws st i total st' Hw H. unfold weighted_sample_f, windex_new_f in H.
  destruct ws as [|w0 r]; [discriminate|]. destruct (fge0 w0); [|discriminate].
  destruct (wcum_f r w0 []) as [e|[cum T]] eqn:Ec; [discriminate|].
  destruct (uniform_f64_new T) as [[| |]|scale]; try discriminate.
  destruct (uniform_f64_sample scale st) as [chosen st1] eqn:E.
  injection H as <- <- <-. split; [|eapply uniform_f64_sample_wf; eassumption].
  pose proof (ppoint_le _ fle cum chosen) as P.
  rewrite (wcum_f_length _ _ _ _ _ Ec) in P. cbn [length] in *. lia.
Qed.

(** C11 — pinned statements. Nothing but statements, [exact], and assumption audits.
    [wf_seg seg = true] is the executable form of "no empty cluster and no cluster
    mixes whitespace with non-whitespace" ([wf_seg_iff]); code-point mode is the
    segmentation [singletons s], for which it always holds. *)
From TU Require Import Base UAX29_Model C11_Model C11_Proofs C11_Link C11_UAX29.
From TU Require C10_Model C10_Proofs.

(** ** hypotheses *)
Theorem wf_seg_iff : forall seg,
  wf_seg seg = true <-> Forall (fun c => c <> []) seg /\ NoMixed seg.
Proof. exact wf_seg_spec. Qed.
Print Assumptions wf_seg_iff.

Theorem wf_seg_singletons : forall s, wf_seg (singletons s) = true /\ concat (singletons s) = s.
Proof. exact (fun s => conj (wf_singletons s) (concat_singletons s)). Qed.
Print Assumptions wf_seg_singletons.

(** ** [words] is determined by these three facts (adequacy of the specification) *)
Theorem words_word : forall w, w <> [] -> forallb nonws_cp w = true -> words w = [w].
Proof. exact (wordsP_word is_ws). Qed.
Print Assumptions words_word.

Theorem words_allws : forall g, forallb is_ws g = true -> words g = [].
Proof. exact (wordsP_allws is_ws). Qed.
Print Assumptions words_allws.

Theorem words_split : forall a c b, is_ws c = true -> words (a ++ c :: b) = words a ++ words b.
Proof. exact (wordsP_split is_ws). Qed.
Print Assumptions words_split.

(** ** clean *)
(** code-point mode, all strings: the words joined by single spaces *)
Theorem clean_spec : forall s, clean (singletons s) = join [32%N] (words s).
Proof. exact clean_spec_cp. Qed.
Print Assumptions clean_spec.

(** grapheme mode: every segmentation without empty or mixed clusters *)
Theorem clean_spec_g : forall seg,
  wf_seg seg = true -> clean seg = join [32%N] (words (concat seg)).
Proof. exact clean_spec_seg. Qed.
Print Assumptions clean_spec_g.

(** no leading/trailing/consecutive whitespace, only U+0020 — and [cleansb]
    says exactly "is its words joined by single spaces" *)
Theorem clean_clean : forall seg, wf_seg seg = true -> cleansb (clean seg) = true.
Proof. exact clean_clean_seg. Qed.
Print Assumptions clean_clean.

Theorem cleansb_meaning : forall s, cleansb s = true <-> s = join [32%N] (words s).
Proof. exact cleansb_iff. Qed.
Print Assumptions cleansb_meaning.

(** ... which is C10's [Clean] for every segmentation of the cleaned text
    without mixed clusters, hence the premise of C10's [ops_roundtrip] *)
Theorem clean_clean_C10 : forall seg seg',
  wf_seg seg = true -> concat seg' = clean seg -> wf_seg seg' = true -> C10_Proofs.Clean seg'.
Proof. exact C11_Link.clean_Clean_seg. Qed.
Print Assumptions clean_clean_C10.

Theorem clean_clean_C10_cp : forall s, C10_Proofs.Clean (singletons (clean (singletons s))).
Proof. exact C11_Link.clean_Clean_cp. Qed.
Print Assumptions clean_clean_C10_cp.

(** code-point mode: two texts equal modulo whitespace, both cleaned, round-trip
    through C10's operations/repair *)
Theorem clean_pair_roundtrip : forall a b,
  strip_cps a = strip_cps b ->
  let f := singletons (clean (singletons a)) in
  exists ops, C10_Model.operations f (singletons (clean (singletons b))) = Some ops
              /\ length ops = length f
              /\ C10_Model.repair f ops = Some (clean (singletons b)).
Proof. exact C11_Link.clean_pair_roundtrip_cp. Qed.
Print Assumptions clean_pair_roundtrip.

(** idempotence: code-point mode for all strings; grapheme mode for every
    segmentation [seg'] of the cleaned text without mixed clusters (the real
    segmenter can violate that hypothesis: known finding KF1 for C11) *)
Theorem clean_idem : forall s, clean (singletons (clean (singletons s))) = clean (singletons s).
Proof. exact clean_idem_cp. Qed.
Print Assumptions clean_idem.

Theorem clean_idem_g : forall seg seg',
  wf_seg seg = true -> concat seg' = clean seg -> wf_seg seg' = true -> clean seg' = clean seg.
Proof. exact clean_idem_seg. Qed.
Print Assumptions clean_idem_g.

Theorem clean_fixpoints : forall s, clean (singletons s) = s <-> cleansb s = true.
Proof. exact clean_fix_iff. Qed.
Print Assumptions clean_fixpoints.

(** the non-whitespace code points survive in order — for EVERY segmentation,
    mixed clusters included *)
Theorem clean_nonws : forall seg, strip_cps (clean seg) = strip_cps (concat seg).
Proof. exact clean_nonws_seg. Qed.
Print Assumptions clean_nonws.

(** ** word_boundaries: for every segmentation the ranges are, in order, exactly
    the maximal whitespace-free runs of characters *)
Theorem wb_spec : forall seg,
  let wbs := word_boundaries seg in
  map (sub seg) wbs = words_cl seg /\ incr 0 true (length seg) wbs /\ tile 0 seg wbs = true.
Proof. exact (fun seg => conj (wb_words_cl seg) (conj (wb_incr seg) (tile_model seg))). Qed.
Print Assumptions wb_spec.

(** the checker [tile] accepts nothing but the word ranges *)
Theorem tile_only_words : forall seg wbs, tile 0 seg wbs = true -> map (sub seg) wbs = words_cl seg.
Proof. exact (fun seg wbs => tile_sound seg wbs 0). Qed.
Print Assumptions tile_only_words.

(** without mixed clusters the character ranges spell the code-point words *)
Theorem wb_words : forall seg,
  wf_seg seg = true ->
  map (fun r => concat (sub seg r)) (word_boundaries seg) = words (concat seg).
Proof. exact wb_words_cp. Qed.
Print Assumptions wb_words.

(** ** remove / full *)
Theorem remove_spec : forall s, remove (singletons s) = strip_cps s.
Proof. exact remove_spec_cp. Qed.
Print Assumptions remove_spec.

Theorem remove_spec_g : forall seg, wf_seg seg = true -> remove seg = strip_cps (concat seg).
Proof. exact remove_spec_seg. Qed.
Print Assumptions remove_spec_g.

Theorem full_spec : forall s, full (singletons s) = join [32%N] (singletons (strip_cps s)).
Proof. exact full_spec_cp. Qed.
Print Assumptions full_spec.

(** grapheme mode: the remaining characters (clusters) separated by single
    spaces; together they spell [remove] *)
Theorem full_spec_g : forall seg,
  full seg = join [32%N] (strip_cl seg) /\ concat (strip_cl seg) = remove seg.
Proof. exact (fun seg => conj (full_def seg) (strip_cl_concat seg)). Qed.
Print Assumptions full_spec_g.

(** ** the executable statement *)
Theorem check_run : forall v, wf_input v -> check_C11 v (run_C11 v) = true.
Proof. exact check_run_l. Qed.
Print Assumptions check_run.

Theorem check_sound : forall v out,
  check_C11 v out = true -> wf_seg (in_seg v) = true ->
  let seg := in_seg v in
  let c := v_list v_n (v_nth 0 out) in
  c = join [32%N] (words (concat seg)) /\ cleansb c = true /\
  strip_cps c = strip_cps (concat seg) /\
  v_opt (v_list v_n) (v_nth 4 out) = Some c /\
  map (sub seg) (v_list v_pair (v_nth 1 out)) = words_cl seg /\
  v_list v_n (v_nth 2 out) = strip_cps (concat seg) /\
  v_list v_n (v_nth 3 out) = join [32%N] (strip_cl seg).
Proof. exact check_sound_l. Qed.
Print Assumptions check_sound.


(** ** grapheme mode with the segmenter inside the model: the theorems above instantiated with
    [segment s] (UAX29_Model.v, tied to unicode-segmentation by this property's correspondence).
    No segmentation premise is left; "no cluster mixes whitespace and non-whitespace" is the
    decidable [no_mixedb s]. *)
Theorem segment_valid : forall s, ValidSeg (segment s) s.
Proof. exact segment_valid_l. Qed.
Print Assumptions segment_valid.

Theorem no_mixedb_NoMixed : forall s, no_mixedb s = true <-> NoMixed (segment s).
Proof. exact no_mixedb_NoMixed_l. Qed.
Print Assumptions no_mixedb_NoMixed.

Theorem wf_seg_segment_eq : forall s, wf_seg (segment s) = no_mixedb s.
Proof. exact wf_seg_segment. Qed.
Print Assumptions wf_seg_segment_eq.

Theorem clean_spec_u : forall s, no_mixedb s = true -> clean (segment s) = join [32%N] (words s).
Proof. exact clean_spec_u_l. Qed.
Print Assumptions clean_spec_u.

Theorem clean_clean_u : forall s, no_mixedb s = true -> cleansb (clean (segment s)) = true.
Proof. exact clean_clean_u_l. Qed.
Print Assumptions clean_clean_u.

Theorem clean_nonws_u : forall s, strip_cps (clean (segment s)) = strip_cps s.
Proof. exact clean_nonws_u_l. Qed.
Print Assumptions clean_nonws_u.

(** idempotence: the second premise is exactly what fails on the KF1 class ... *)
Theorem clean_idem_u : forall s,
  no_mixedb s = true -> no_mixedb (clean (segment s)) = true ->
  clean (segment (clean (segment s))) = clean (segment s).
Proof. exact clean_idem_u_l. Qed.
Print Assumptions clean_idem_u.

(** ... and it follows from a condition on the words of the text alone: no word but the last
    ends in a Prepend, no word but the first starts with Extend / SpacingMark / ZWJ
    ([seam_free]); then the spaces that [clean] writes stay clusters of their own *)
Theorem clean_no_mixed : forall s,
  no_mixedb s = true -> seam_free s = true -> no_mixedb (clean (segment s)) = true.
Proof. exact clean_no_mixed_l. Qed.
Print Assumptions clean_no_mixed.

(** ... and the condition is exact: for a text without mixed clusters, the cleaned text has a
    mixed cluster (the harness' class KF1) precisely when the text is not seam-free *)
Theorem clean_mixed_iff : forall s,
  no_mixedb s = true -> no_mixedb (clean (segment s)) = seam_free s.
Proof. exact clean_mixed_iff_l. Qed.
Print Assumptions clean_mixed_iff.

Theorem clean_idem_seam : forall s,
  no_mixedb s = true -> seam_free s = true ->
  clean (segment (clean (segment s))) = clean (segment s).
Proof. exact clean_idem_seam_l. Qed.
Print Assumptions clean_idem_seam.

Theorem segment_clean : forall s,
  no_mixedb s = true -> seam_free s = true ->
  segment (clean (segment s)) = join [[32%N]] (map segment (words s)).
Proof. exact segment_clean_l. Qed.
Print Assumptions segment_clean.

Theorem clean_clean_C10_u : forall s,
  no_mixedb s = true -> no_mixedb (clean (segment s)) = true ->
  C10_Proofs.Clean (segment (clean (segment s))).
Proof. exact clean_Clean_u_l. Qed.
Print Assumptions clean_clean_C10_u.

Theorem wb_words_u : forall s,
  no_mixedb s = true ->
  map (fun r => concat (sub (segment s) r)) (word_boundaries (segment s)) = words s.
Proof. exact wb_words_u_l. Qed.
Print Assumptions wb_words_u.

Theorem remove_spec_u : forall s, no_mixedb s = true -> remove (segment s) = strip_cps s.
Proof. exact remove_spec_u_l. Qed.
Print Assumptions remove_spec_u.

(** the input the harness builds for a text in grapheme mode — both cluster lists computed by
    the model itself — passes the executable statement and the segmentation clause of [agree] *)
Theorem check_run_u : forall s,
  (no_mixedb s = true -> no_mixedb (clean (segment s)) = true) ->
  check_C11 (input_of s) (run_C11 (input_of s)) = true /\ uax29_agree (input_of s) = true.
Proof. exact check_run_u_l. Qed.
Print Assumptions check_run_u.

(** ** non-vacuity *)
(** a grapheme segmentation with CRLF and a combining sequence: "a\r\n e\u{301}" *)
Example wf_seg_witness : wf_seg [[97];[13;10];[32];[101;769]]%N = true.
Proof. vm_compute. reflexivity. Qed.
(** its cleaned text "a e\u{301}" segmented as (a)( )(e\u{301}) is a well-formed oracle *)
Example wf_input_witness :
  wf_input (L [I 1; L [L [I 97]; L [I 13; I 10]; L [I 32]; L [I 101; I 769]];
               L [L [I 97]; L [I 32]; L [I 101; I 769]]])%Z.
Proof. intros _ _. vm_compute. split; reflexivity. Qed.
(** the KF1 seam: the real segmentation (a)( \u{301}) of clean "a\n\u{301}" is mixed *)
Example seam_not_wf : wf_seg [[97];[32;769]]%N = false.
Proof. vm_compute. reflexivity. Qed.
Example clean_example :
  clean (singletons [32;32;116;9;32;105;10]%N) = [116;32;105]%N
  /\ word_boundaries (singletons [32;32;116;9;32;105;10]%N) = [(2,3);(5,6)]%nat.
Proof. vm_compute. split; reflexivity. Qed.
(** "a\r\n e\u{301} b": no mixed cluster, seam-free; "a\n\u{301}" (KF1): no mixed cluster, not seam-free,
    and the cleaned text "a \u{301}" has a mixed cluster *)
Example seam_free_witness :
  no_mixedb [97;13;10;32;101;769;32;98]%N = true /\ seam_free [97;13;10;32;101;769;32;98]%N = true.
Proof. vm_compute. split; reflexivity. Qed.
Example kf1_not_seam_free :
  no_mixedb [97;10;769]%N = true /\ seam_free [97;10;769]%N = false
  /\ no_mixedb (clean (segment [97;10;769]%N)) = false.
Proof. vm_compute. repeat split; reflexivity. Qed.

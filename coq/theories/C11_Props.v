(** C11 — pinned statements. *)
From TU Require Import Base C11_Model C11_Proofs.

Theorem remove_is_concat_strip : forall seg, remove seg = concat (strip_cl seg).
Proof. exact remove_def. Qed.
Print Assumptions remove_is_concat_strip.

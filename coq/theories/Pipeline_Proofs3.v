(** Pipeline proofs, part 3: idempotence of the Clean / Normalize stages where it holds; the substring stages:
    the new input is a contiguous run of characters of the old input within the length bound (characters / bytes),
    the new target is a trimmed contiguous piece of the old target; no index is ever out of range. *)
From TU Require Import RNG_Model RNG_Proofs.
From TU Require Import Base UAX29_Model UAX29_Proofs NFKC_Model NFKC_Proofs NFKC_Clean NFKC_Graph C06_Model C06_Subseq C14_Seeded.
From TU Require Import C11_Model C11_Proofs C11_UAX29 Pipeline_Model Pipeline_Proofs Pipeline_Proofs2.
Require Import Lia ZifyBool ZifyNat ZifyN.
Local Open Scope nat_scope.

Section Idem.
Variable opq : nat -> item -> info -> res (item * info).
Notation preproc := (preproc opq).

(** Clean twice = Clean once: code-point mode, every text, either part *)
Lemma clean_stage_idem_cp : forall p x i,
  preproc (CChain [CClean p false; CClean p false]) x i = preproc (CClean p false) x i.
Proof.
  intros p x i. destruct p; cbn [Pipeline_Model.preproc apply_part rbind it_in it_tg seg_of]; rewrite clean_idem_cp; reflexivity.
Qed.

(** grapheme mode: where the cleaned text has no mixed cluster (outside: KF1 of C11, [clean_idem_seam]) *)
Lemma clean_stage_idem_g : forall x i,
  no_mixedb (it_in x) = true -> no_mixedb (clean (segment (it_in x))) = true ->
  preproc (CChain [CClean PInput true; CClean PInput true]) x i = preproc (CClean PInput true) x i.
Proof.
  intros x i H1 H2. cbn [Pipeline_Model.preproc apply_part rbind it_in it_tg seg_of]. rewrite (clean_idem_u_l _ H1 H2). reflexivity.
Qed.

(** Normalize twice = once for the decomposing forms, code-point mode (the composing forms are not proved
    idempotent in NFKC_Proofs) *)
Lemma nf_idem_d : forall f s, f = NFD \/ f = NFKD -> nf f (nf f s) = nf f s.
Proof. intros f s [-> | ->]; [exact (nfxd_idem false s)|exact (nfxd_idem true s)]. Qed.

Lemma normalize_stage_idem_d : forall p f x i, f = NFD \/ f = NFKD ->
  preproc (CChain [CNormalize p f false; CNormalize p f false]) x i = preproc (CNormalize p f false) x i.
Proof.
  intros p f x i Hf. destruct p; cbn [Pipeline_Model.preproc apply_part rbind it_in it_tg]; unfold normalize_model;
    rewrite (nf_idem_d f _ Hf); reflexivity.
Qed.

(** ASCII text is a fixed point of every form in both modes *)
Lemma normalize_stage_ascii : forall f g x i, Forall (fun c => (c <= 127)%N) (it_in x) ->
  preproc (CNormalize PInput f g) x i = ROk (x, i).
Proof.
  intros f g x i H. cbn [Pipeline_Model.preproc apply_part rbind]. rewrite (normalize_ascii_l f g _ H).
  destruct x; reflexivity.
Qed.
End Idem.

(** * substrings *)
Lemma strip_prefix_some : forall lit s r, strip_prefix lit s = Some r -> s = lit ++ r.
Proof.
  induction lit as [|a lit IH]; intros s r H; cbn [strip_prefix] in H; [injection H as <-; reflexivity|].
  destruct s as [|b s]; [discriminate|]. destruct (N.eqb a b) eqn:E; [|discriminate].
  apply N.eqb_eq in E. subst b. cbn [app]. f_equal. apply IH. exact H.
Qed.

Lemma m_star_suffix : forall (k : str -> option str),
  (forall s r, k s = Some r -> exists m, s = m ++ r) ->
  forall s r, m_star k s = Some r -> exists m, s = m ++ r.
Proof.
  intros k Hk. induction s as [|c s IH]; intros r H; cbn [m_star] in H; [apply Hk; exact H|].
  destruct (is_ws c); [|apply Hk; exact H].
  destruct (m_star k s) as [x|] eqn:E; [|apply Hk; exact H].
  injection H as <-. destruct (IH x eq_refl) as [m ->]. exists (c :: m). reflexivity.
Qed.

Lemma m_pieces_suffix : forall pieces s r, m_pieces pieces s = Some r -> exists m, s = m ++ r.
Proof.
  induction pieces as [|p ps IH]; intros s r H; cbn [m_pieces] in H.
  - apply (m_star_suffix (fun x => Some x)); [|exact H]. intros s' r' E. injection E as <-. exists []. reflexivity.
  - apply (m_star_suffix _) in H; [exact H|]. intros s' r' E.
    destruct (strip_prefix p s') as [s''|] eqn:Ep; [|discriminate].
    apply strip_prefix_some in Ep. destruct (IH s'' r' E) as [m ->]. exists (p ++ m). rewrite Ep, app_assoc. reflexivity.
Qed.

(** the match is a contiguous piece of the text *)
Lemma re_find_sub : forall pieces s m, re_find pieces s = Some m -> exists pre post, s = pre ++ m ++ post.
Proof.
  intros pieces. induction s as [|c s IH]; intros m H; cbn [re_find] in H.
  - destruct (m_pieces pieces []) as [rest|] eqn:E; [|discriminate]. injection H as <-.
    apply m_pieces_suffix in E. destruct E as [mid E]. exists [], rest. destruct mid, rest; try discriminate. reflexivity.
  - destruct (m_pieces pieces (c :: s)) as [rest|] eqn:E.
    + injection H as <-. apply m_pieces_suffix in E. destruct E as [mid E]. exists [], rest. cbn [app].
      change (match length rest with 0 => S (length s) | S l => length s - l end) with (length (c :: s) - length rest).
      rewrite E, app_length. replace (length mid + length rest - length rest) with (length mid) by lia.
      rewrite firstn_app, Nat.sub_diag, firstn_all. cbn [firstn]. rewrite app_nil_r. reflexivity.
    + destruct (IH m H) as (pre & post & ->). exists (c :: pre), post. reflexivity.
Qed.

Lemma cslice_split : forall (seg : list cluster) s e, s <= e -> e <= length seg ->
  seg = firstn s seg ++ cslice seg s e ++ skipn e seg.
Proof.
  intros seg s e Hse He. unfold cslice.
  rewrite <- (firstn_skipn s seg) at 1. f_equal.
  rewrite <- (firstn_skipn (e - s) (skipn s seg)) at 1. f_equal.
  rewrite skipn_skipn. f_equal. lia.
Qed.

Lemma cslice_length : forall (seg : list cluster) s e, e <= length seg -> length (cslice seg s e) = e - s.
Proof. intros seg s e He. unfold cslice. rewrite firstn_length, skipn_length. lia. Qed.

Lemma seg_of_concat : forall g s, concat (seg_of g s) = s.
Proof. intros [|] s; [apply segment_concat_l|apply concat_singletons]. Qed.

Lemma utf8s_concat_len : forall l : list cluster, length (utf8s (concat l)) = sumnat (map blen l).
Proof.
  induction l as [|c l IH]; [reflexivity|]. cbn [concat map sumnat fold_right]. fold (sumnat (map blen l)).
  unfold utf8s in *. rewrite flat_map_app, app_length, IH. reflexivity.
Qed.

(** the ranges the two substring functions offer *)
Definition range_in (n : nat) (p : nat * nat) : Prop := fst p <= snd p /\ snd p <= n.

Lemma char_subs_spec : forall n maxc poss, char_subs n maxc = ROk poss ->
  poss <> [] /\ Forall (fun p => range_in n p /\ snd p - fst p <= maxc /\ (0 < n -> snd p - fst p = Nat.min maxc n)) poss.
Proof.
  intros n maxc poss H. unfold char_subs in H. destruct (Nat.eqb n 0) eqn:En.
  - injection H as <-. apply Nat.eqb_eq in En. subst n. split; [discriminate|]. repeat constructor; cbn; lia.
  - apply Nat.eqb_neq in En. destruct (Nat.eqb (Nat.min maxc n) 0) eqn:Em; [discriminate|]. apply Nat.eqb_neq in Em.
    injection H as <-. split.
    + intros E. apply (f_equal (@length _)) in E. rewrite map_length, seq_length in E. cbn in E. lia.
    + apply Forall_forall. intros p Hp. apply in_map_iff in Hp. destruct Hp as (st & <- & Hst). apply in_seq in Hst.
      unfold range_in. cbn [fst snd]. lia.
Qed.

Lemma byte_subs_spec : forall seg maxb poss, byte_subs seg maxb = ROk poss ->
  Forall (fun p => range_in (length seg) p /\
                   (seg <> [] -> fst p < snd p /\ length (utf8s (concat (cslice seg (fst p) (snd p)))) <= maxb)) poss.
Proof.
  intros seg maxb poss H. unfold byte_subs in H. destruct (Nat.eqb (length seg) 0) eqn:En.
  - injection H as <-. apply Nat.eqb_eq in En. destruct seg; [|discriminate]. repeat constructor; cbn; try lia. congruence.
  - destruct (find_subseq_ok_l (fun s e => sumnat (map blen (cslice seg s e))) maxb (length seg)) as (subs & Hfs & Hok).
    rewrite Hfs in H. destruct (forallb _ subs); [|discriminate]. injection H as <-.
    eapply Forall_impl; [|exact Hok]. intros [s e] (Hlt & Hle & Hsz). cbn [fst snd] in *. unfold range_in. cbn [fst snd].
    split; [lia|]. intros _. split; [exact Hlt|]. rewrite utf8s_concat_len. exact Hsz.
Qed.

(** the byte-substring function never runs out of fuel and never trips the range assertion *)
Lemma byte_subs_total : forall seg maxb, exists poss, byte_subs seg maxb = ROk poss.
Proof.
  intros seg maxb. unfold byte_subs. destruct (Nat.eqb (length seg) 0); [eexists; reflexivity|].
  destruct (find_subseq_ok_l (fun s e => sumnat (map blen (cslice seg s e))) maxb (length seg)) as (subs & Hfs & Hok).
  rewrite Hfs. assert (Hb : forallb (fun p => Nat.ltb (fst p) (snd p) && Nat.leb (snd p) (length seg)) subs = true).
  { apply forallb_forall. intros p Hp. rewrite Forall_forall in Hok. destruct (Hok p Hp) as (H1 & H2 & _).
    apply andb_true_iff. split; [apply Nat.ltb_lt; exact H1|apply Nat.leb_le; exact H2]. }
  rewrite Hb. eexists; reflexivity.
Qed.

(** [substring]: the chosen index is in range for every seed; the new input is the chosen run of characters,
    the new target a trimmed contiguous piece of the old target; the info is untouched *)
Lemma substring_spec : forall subs g x i x' i',
  substring subs g x i = ROk (x', i') ->
  exists poss s e m, subs (seg_of g (it_in x)) = ROk poss /\ In (s, e) poss /\
    it_in x' = concat (cslice (seg_of g (it_in x)) s e) /\
    (exists pre post, it_tg x = pre ++ m ++ post) /\ it_tg x' = trim m /\ i' = i.
Proof.
  intros subs g x i x' i' H. unfold substring in H.
  destruct (subs (seg_of g (it_in x))) as [poss| |] eqn:Es; cbn [rbind] in H; try discriminate.
  destruct (random_range _ _) as [[idx st]|]; [|discriminate].
  destruct (nth_error poss (N.to_nat idx)) as [[s e]|] eqn:En; [|discriminate].
  destruct (find_sub_ignoring_ws _ _ _) as [m|] eqn:Ef; [|discriminate].
  injection H as <- <-. exists poss, s, e, m. split; [reflexivity|]. split; [eapply nth_error_In; exact En|].
  split; [reflexivity|]. split; [|split; reflexivity]. unfold find_sub_ignoring_ws in Ef. exact (re_find_sub _ _ _ Ef).
Qed.

(** no panic from the index: whenever there is a possible substring, one is chosen *)
Lemma substring_no_index_panic : forall subs g x i poss,
  subs (seg_of g (it_in x)) = ROk poss -> poss <> [] -> (N.of_nat (length poss) < p64)%N ->
  substring subs g x i <> RPanic 2 /\ substring subs g x i <> RPanic 3.
Proof.
  intros subs g x i poss Hs Hne Hlt. unfold substring. rewrite Hs. cbn [rbind].
  destruct (random_range (N.of_nat (length poss)) (seed_from_u64 (i_seed i))) as [[idx st]|] eqn:Er.
  - destruct (random_range_spec _ _ _ _ (wf_seed _) Er) as [Hidx _].
    destruct (nth_error poss (N.to_nat idx)) as [[s e]|] eqn:En.
    + destruct (find_sub_ignoring_ws _ _ _); split; discriminate.
    + apply nth_error_None in En. lia.
  - exfalso. apply (proj2 (random_range_some (N.of_nat (length poss)) (seed_from_u64 (i_seed i)))); [|exact Er].
    destruct poss; [contradiction|]. cbn [length] in *. lia.
Qed.

Section SubTop.
Variable opq : nat -> item -> info -> res (item * info).

(** CharSubstring(n, g): at most n characters, a contiguous piece of the input *)
Lemma char_substring_spec : forall n g x i x' i', preproc opq (CCharSub n g) x i = ROk (x', i') ->
  let seg := seg_of g (it_in x) in
  exists s e m, s <= e /\ e <= length seg /\ e - s <= n /\ (seg <> [] -> e - s = Nat.min n (length seg)) /\
    it_in x' = concat (cslice seg s e) /\
    (exists pre post, it_in x = pre ++ it_in x' ++ post) /\
    (exists pre post, it_tg x = pre ++ m ++ post) /\ it_tg x' = trim m /\ i' = i.
Proof.
  intros n g x i x' i' H seg. cbn [Pipeline_Model.preproc] in H. apply substring_spec in H.
  destruct H as (poss & s & e & m & Hs & Hin & Hinp & Htg & Htrim & Hi). fold seg in Hs, Hinp.
  destruct (char_subs_spec _ _ _ Hs) as [_ Hall]. rewrite Forall_forall in Hall.
  destruct (Hall _ Hin) as ([H1 H2] & H3 & H4). cbn [fst snd] in *.
  exists s, e, m. repeat split; try assumption.
  - intros Hne. apply H4. destruct seg; [contradiction|cbn; lia].
  - exists (concat (firstn s seg)), (concat (skipn e seg)). rewrite Hinp, <- !concat_app.
    transitivity (concat seg); [unfold seg; rewrite seg_of_concat; reflexivity|].
    f_equal. apply cslice_split; assumption.
Qed.

(** ByteSubstring(n, g): at most n bytes (UTF-8), a contiguous non-empty run of characters of a non-empty input *)
Lemma byte_substring_spec : forall n g x i x' i', preproc opq (CByteSub n g) x i = ROk (x', i') ->
  let seg := seg_of g (it_in x) in
  exists s e m, s <= e /\ e <= length seg /\ (seg <> [] -> s < e /\ length (utf8s (it_in x')) <= n) /\
    it_in x' = concat (cslice seg s e) /\
    (exists pre post, it_in x = pre ++ it_in x' ++ post) /\
    (exists pre post, it_tg x = pre ++ m ++ post) /\ it_tg x' = trim m /\ i' = i.
Proof.
  intros n g x i x' i' H seg. cbn [Pipeline_Model.preproc] in H. apply substring_spec in H.
  destruct H as (poss & s & e & m & Hs & Hin & Hinp & Htg & Htrim & Hi). fold seg in Hs, Hinp.
  pose proof (byte_subs_spec _ _ _ Hs) as Hall. rewrite Forall_forall in Hall.
  destruct (Hall _ Hin) as ([H1 H2] & H3). cbn [fst snd] in *.
  exists s, e, m. repeat split; try assumption.
  - apply H3. assumption.
  - rewrite Hinp. apply H3. assumption.
  - exists (concat (firstn s seg)), (concat (skipn e seg)). rewrite Hinp, <- !concat_app.
    transitivity (concat seg); [unfold seg; rewrite seg_of_concat; reflexivity|].
    f_equal. apply cslice_split; assumption.
Qed.
End SubTop.

(** * Clean, Normalize, WhitespaceCorruption on the input, code-point mode: C11 + NFKC + C14 composed.  For a text
    whose cleaned form has none of the 52 code points whose compatibility decomposition contains White_Space (KF3), the
    normalised cleaned text is clean again, and C14's clauses hold of the pipeline's output relative to it. *)
Lemma cnw_pipeline_c14 : forall opq f iw dw x i,
  let s1 := clean (singletons (it_in x)) in
  (match f with NFKC | NFKD => forall c, In c s1 -> ~ In c nfkc_makes_space | _ => True end) ->
  let t := normalize_model f false s1 in
  exists c,
    preproc opq (CChain [CClean PInput false; CNormalize PInput f false; CWsCorrupt PInput iw dw false]) x i
      = ROk (mk_item c (it_tg x), i)
    /\ C10_Model.strip_cp c = C10_Model.strip_cp t /\ cleansb t = true /\ cleansb c = true
    /\ exists ops, C10_Model.operations (singletons c) (singletons t) = Some ops /\ length ops = length c
                   /\ C10_Model.repair (singletons c) ops = Some t.
Proof.
  intros opq f iw dw x i s1 Hkf t.
  assert (Hs1 : cleansb s1 = true) by (apply clean_clean_seg, wf_singletons).
  assert (Ht : cleansb t = true) by (apply normalize_keeps_clean_l; assumption).
  destruct (Pipeline_Proofs2.ws_corrupt_cp iw dw (i_seed i) t Ht) as (c & Hc & Hstrip & Hclean & Hops).
  exists c. split; [|auto].
  cbn [Pipeline_Model.preproc apply_part rbind it_in it_tg seg_of]. fold s1. fold t. rewrite Hc. reflexivity.
Qed.

(** What NFKC does to the two ends of a piece of text, as far as the grapheme segmenter can see:
    - the FIRST code point of [nfkc cl] attaches to a preceding U+0020 (Extend / SpacingMark / ZWJ)
      exactly when the first code point of the compatibility decomposition of [hd cl] does;
    - the LAST code point of [nfkc cl] is a Prepend exactly when the last code point of the
      compatibility decomposition of [last cl] is.
    Both are needed for "no mixed cluster after normalisation" (KF3, the half NFKC_Props leaves open):
    the words of a cleaned text are normalised one by one, and a space between two normalised words
    stays a cluster of its own unless one of these two things happens (C11_UAX29.no_mixedb_join_eq).
    Table facts (checked by computation over the translated tables): every code point with a
    non-zero combining class attaches to what precedes it; composition never changes whether the
    composee attaches, never yields a Prepend and never consumes one. *)
From Coq Require Import Lia Permutation.
From TU Require Import Base UAX29_Model UAX29_Proofs C11_Model C11_Proofs NFKC_Model NFKC_Proofs NFKC_Clean NFKC_Graph.
Open Scope N_scope.

(** * A. Table facts *)
Definition seam_entry_ok (e : N * N * N) : bool :=
  match e with
  | (a, b, r) => Bool.eqb (ws_joinable r) (ws_joinable a) && negb (is_prepend r) && negb (is_prepend b)
  end.

Lemma composition_table_seam a b r :
  composition_table a b = Some r ->
  ws_joinable r = ws_joinable a /\ is_prepend r = false /\ is_prepend b = false.
Proof.
  rewrite composition_table_spec_l. intros H.
  assert (P : seam_entry_ok (a, b, r) = true).
  { destruct ((a <? 65536) && (b <? 65536)).
    - apply (alookup2_forall _ comp_bmp_table a b r); [vm_compute; reflexivity|exact H].
    - apply (alookup2_forall _ comp_astral_table a b r); [vm_compute; reflexivity|exact H]. }
  unfold seam_entry_ok in P. repeat (apply andb_true_iff in P as [P ?]).
  repeat match goal with H : negb _ = true |- _ => apply negb_true_iff in H end.
  apply Bool.eqb_prop in P. auto.
Qed.

(** neither attaches to a preceding space nor is a Prepend *)
Definition plain_cat (k : cat) : bool :=
  match k with GC_Extend | GC_SpacingMark | GC_ZWJ | GC_Prepend => false | _ => true end.

Lemma plain_range lo hi c :
  126 < lo -> covered plain_cat grapheme_cat_table lo hi = true -> lo <= c -> c <= hi ->
  ws_joinable c = false /\ is_prepend c = false.
Proof.
  intros Hlo Hc H1 H2. destruct (covered_sound _ _ _ _ c Hc H1 H2) as (k & Hk & Hp).
  unfold ws_joinable, is_prepend. rewrite gcb_spec_l.
  destruct (c <=? 126) eqn:E; [apply N.leb_le in E; lia|]. rewrite Hk.
  destruct k; try discriminate Hp; split; reflexivity.
Qed.

(** Hangul syllables and the conjoining jamo *)
Lemma hangul_plain c : (4352 <= c /\ c <= 4607) \/ (44032 <= c /\ c <= 55203) ->
  ws_joinable c = false /\ is_prepend c = false.
Proof.
  intros [[H1 H2]|[H1 H2]].
  - apply (plain_range 4352 4607); [lia|vm_compute; reflexivity|exact H1|exact H2].
  - apply (plain_range 44032 55203); [lia|vm_compute; reflexivity|exact H1|exact H2].
Qed.

Lemma compose_hangul_bounds a b r :
  compose_hangul a b = Some r ->
  (a <= 4370 \/ 44032 <= a) /\ 4352 <= a /\ a <= 55203 /\ 4449 <= b /\ b <= 4546 /\ 44032 <= r /\ r <= 55203.
Proof.
  unfold compose_hangul, L_BASE, L_LAST, V_BASE, V_LAST, S_BASE, S_LAST, T_FIRST, T_LAST, T_BASE, N_COUNT, T_COUNT.
  destruct ((4352 <=? a) && (a <=? 4370) && (4449 <=? b) && (b <=? 4469)) eqn:E1.
  - intros H. assert (R : r = 44032 + ((a - 4352) * 588 + (b - 4449) * 28)) by congruence. clear H.
    repeat (apply andb_true_iff in E1 as [E1 ?]).
    repeat match goal with H : (_ <=? _) = true |- _ => apply N.leb_le in H end. lia.
  - destruct ((44032 <=? a) && (a <=? 55203) && (4520 <=? b) && (b <=? 4546) && ((a - 44032) mod 28 =? 0)) eqn:E2;
      [|discriminate].
    intros H. assert (R : r = a + (b - 4519)) by congruence. clear H.
    repeat (apply andb_true_iff in E2 as [E2 ?]).
    repeat match goal with H : (_ <=? _) = true |- _ => apply N.leb_le in H end.
    match goal with H : (_ =? 0) = true |- _ => apply N.eqb_eq in H; rename H into Hm end.
    pose proof (N.div_mod (a - 44032) 28 ltac:(lia)) as D. rewrite Hm in D. lia.
Qed.

Lemma compose_seam a b r :
  compose a b = Some r -> ws_joinable r = ws_joinable a /\ is_prepend r = false /\ is_prepend b = false.
Proof.
  unfold compose. destruct (compose_hangul a b) as [h|] eqn:E.
  - intros H. injection H as <-. apply compose_hangul_bounds in E.
    destruct (hangul_plain a) as [A1 A2]; [lia|].
    destruct (hangul_plain h) as [R1 R2]; [lia|].
    destruct (hangul_plain b) as [B1 B2]; [lia|].
    rewrite A1, R1. auto.
  - apply composition_table_seam.
Qed.

(** a non-starter attaches to what precedes it *)
Lemma nonstarter_joinable c : ccc c <> 0 -> ws_joinable c = true.
Proof.
  rewrite ccc_spec_l. destruct (alookup ccc_table c) as [k|] eqn:E; [|congruence]. intros _.
  exact (alookup_forall (fun e : N * N => ws_joinable (fst e)) ccc_table c k ltac:(vm_compute; reflexivity) E).
Qed.

Lemma joinable_not_prepend c : ws_joinable c = true -> is_prepend c = false.
Proof. unfold ws_joinable, is_prepend. destruct (gcb c); try discriminate; reflexivity. Qed.

Lemma nonstarter_not_prepend c : ccc c <> 0 -> is_prepend c = false.
Proof. intros H. apply joinable_not_prepend, nonstarter_joinable, H. Qed.

Lemma prepend_starter c : is_prepend c = true -> ccc c = 0.
Proof.
  intros H. destruct (N.eq_dec (ccc c) 0) as [E|E]; [exact E|].
  rewrite (nonstarter_not_prepend c E) in H. discriminate.
Qed.

Lemma prepend_no_compose_r p : is_prepend p = true -> forall x, compose x p = None.
Proof.
  intros H x. destruct (compose x p) as [r|] eqn:E; [|reflexivity].
  apply compose_seam in E as (_ & _ & E). congruence.
Qed.

(** * B. The first code point *)
Lemma comp_loop_hd d s : forall k last buf,
  ws_joinable (hd d (comp_loop (Some k) last buf s)) = ws_joinable k.
Proof.
  induction s as [|ch r IH]; intros k last buf; cbn [comp_loop]; [reflexivity|].
  destruct last as [l|].
  - destruct (ccc ch <=? l).
    + destruct (ccc ch =? 0); [reflexivity|apply IH].
    + destruct (compose k ch) as [k'|] eqn:E; [|apply IH].
      rewrite IH. apply compose_seam in E as (E & _). exact E.
  - destruct (compose k ch) as [k'|] eqn:E.
    + rewrite IH. apply compose_seam in E as (E & _). exact E.
    + destruct (ccc ch =? 0); [reflexivity|apply IH].
Qed.

Lemma recompose_hd d a r : ws_joinable (hd d (recompose (a :: r))) = ws_joinable a.
Proof.
  unfold recompose. cbn [comp_loop]. destruct (negb (ccc a =? 0)); [reflexivity|apply comp_loop_hd].
Qed.

Lemma sort_cc_in l x : In x (sort_cc l) -> In x l.
Proof. intros H. apply (Permutation_in x (sort_cc_perm l) H). Qed.

Lemma sort_cc_nonempty l : l <> [] -> sort_cc l <> [].
Proof.
  intros H E. pose proof (sort_cc_perm l) as P. rewrite E in P. apply Permutation_nil in P. congruence.
Qed.

Definition nonstarters (l : list N) : Prop := Forall (fun c => ccc c <> 0) l.

Lemma rev_nonstarters l : nonstarters l -> nonstarters (rev l).
Proof. apply Forall_rev. Qed.

(** with pending non-starters the output begins with a non-starter *)
Lemma reorder_hd_pending d s : forall pend,
  pend <> [] -> nonstarters pend -> ccc (hd d (reorder pend s)) <> 0.
Proof.
  assert (S : forall pend, pend <> [] -> nonstarters pend -> forall t, ccc (hd d (sort_cc (rev pend) ++ t)) <> 0).
  { intros pend Hne Hp t.
    assert (Hr : rev pend <> []) by (intros E; apply Hne; rewrite <- (rev_involutive pend), E; reflexivity).
    pose proof (sort_cc_nonempty _ Hr) as Hs. destruct (sort_cc (rev pend)) as [|h q] eqn:E; [congruence|].
    cbn [app hd]. assert (Hin : In h (rev pend)) by (apply sort_cc_in; rewrite E; left; reflexivity).
    pose proof (rev_nonstarters _ Hp) as Hq. unfold nonstarters in Hq. rewrite Forall_forall in Hq. apply Hq, Hin. }
  induction s as [|c r IH]; intros pend Hne Hp; cbn [reorder].
  - rewrite <- (app_nil_r (sort_cc (rev pend))). apply S; assumption.
  - destruct (ccc c =? 0) eqn:E.
    + apply S; assumption.
    + apply IH; [discriminate|]. constructor; [apply N.eqb_neq, E|exact Hp].
Qed.

Lemma reorder_hd d a r :
  ws_joinable (hd d (reorder [] (a :: r))) = ws_joinable a.
Proof.
  cbn [reorder]. destruct (ccc a =? 0) eqn:E; [reflexivity|]. apply N.eqb_neq in E.
  rewrite (nonstarter_joinable a E). apply nonstarter_joinable.
  apply reorder_hd_pending; [discriminate|]. constructor; [exact E|constructor].
Qed.

Lemma reorder_nonempty s : forall pend, s <> [] \/ pend <> [] -> reorder pend s <> [].
Proof.
  intros pend H E. pose proof (reorder_perm s pend) as P. rewrite E in P. apply Permutation_nil in P.
  apply app_eq_nil in P as [P1 P2]. destruct H as [H|H]; [congruence|].
  apply H. rewrite <- (rev_involutive pend), P1. reflexivity.
Qed.

Lemma hd_app_ne {A} (d : A) a b : a <> [] -> hd d (a ++ b) = hd d a.
Proof. destruct a; [congruence|reflexivity]. Qed.

Lemma nfkc_nonempty cl : cl <> [] -> nfkc cl <> [].
Proof.
  intros H. unfold nfkc, nfkd. apply recompose_nonempty. apply reorder_nonempty. left.
  apply decompose_nonempty, H.
Qed.

(** the first code point of the NFKC of a piece attaches to a preceding space iff the first code
    point of the compatibility decomposition of its first code point does *)
Lemma nfkc_hd_joinable d x rest :
  ws_joinable (hd d (nfkc (x :: rest))) = ws_joinable (hd d (decompose_char true x)).
Proof.
  unfold nfkc, nfkd. unfold decompose. cbn [flat_map].
  pose proof (decompose_char_nonempty true x) as Hne.
  destruct (decompose_char true x) as [|d1 ds] eqn:E; [congruence|]. cbn [app hd].
  assert (Hr : reorder [] (d1 :: ds ++ flat_map (decompose_char true) rest) <> [])
    by (apply reorder_nonempty; left; discriminate).
  destruct (reorder [] (d1 :: ds ++ flat_map (decompose_char true) rest)) as [|a r] eqn:Er; [congruence|].
  rewrite recompose_hd. change a with (hd d (a :: r)). rewrite <- Er. apply reorder_hd.
Qed.

(** * C. The last code point *)
Definition nonprep (l : list N) : Prop := Forall (fun c => is_prepend c = false) l.

Lemma last_app_ne {A} (d : A) a b : b <> [] -> last (a ++ b) d = last b d.
Proof.
  intros H. induction a as [|x a IH]; [reflexivity|]. cbn [app].
  destruct (a ++ b) eqn:E; [apply app_eq_nil in E as [_ E]; congruence|]. cbn [last]. exact IH.
Qed.

Lemma last_cons_ne {A} (d : A) x l : l <> [] -> last (x :: l) d = last l d.
Proof. destruct l; [congruence|reflexivity]. Qed.

Lemma last_snoc {A} (d : A) l x : last (l ++ [x]) d = x.
Proof. apply last_last. Qed.

Lemma last_rev_cons {A} (d : A) x l : last (rev (x :: l)) d = x.
Proof. cbn [rev]. apply last_last. Qed.

(** if the output of the composition loop ends in a Prepend, so does its input — or, at the end of
    the input, the composee is that Prepend and nothing is buffered *)
Lemma comp_loop_last d : is_prepend d = false -> forall s co l buf,
  nonprep buf ->
  is_prepend (last (comp_loop co l buf s) d) = true ->
  match s with
  | [] => buf = [] /\ exists k, co = Some k /\ is_prepend k = true
  | _ :: _ => is_prepend (last s d) = true
  end.
Proof.
  intros Hd. induction s as [|ch r IH]; intros co l buf Hb H.
  - cbn [comp_loop] in H. destruct buf as [|b buf'].
    + split; [reflexivity|]. destruct co as [k|]; cbn [rev last] in H; [eauto|congruence].
    + exfalso. inversion Hb as [|? ? Hb1 _]; subst.
      assert (E : last (match co with Some k => k :: rev (b :: buf') | None => rev (b :: buf') end) d = b).
      { destruct co as [k|]; [rewrite last_cons_ne|]; try apply last_rev_cons.
        cbn [rev]. intros E. apply app_eq_nil in E as [_ E]. discriminate. }
      rewrite E in H. congruence.
  - (* what the induction hypothesis gives for the rest, in the shape needed here *)
    assert (K : forall co' l' buf' pre,
               nonprep buf' ->
               (comp_loop co' l' buf' r = [] -> is_prepend (last pre d) = false) ->
               is_prepend (last (pre ++ comp_loop co' l' buf' r) d) = true ->
               (r = [] -> (buf' = [] -> forall k, co' = Some k -> is_prepend k = true -> is_prepend ch = true)) ->
               is_prepend (last (ch :: r) d) = true).
    { intros co' l' buf' pre Hb' Hpre HL Hend.
      destruct (comp_loop co' l' buf' r) as [|y ys] eqn:EX.
      - rewrite app_nil_r in HL. rewrite (Hpre eq_refl) in HL. discriminate.
      - rewrite last_app_ne in HL by discriminate. rewrite <- EX in HL.
        specialize (IH co' l' buf' Hb' HL). destruct r as [|c2 r2].
        + destruct IH as (Eb & k & Ek & Hk). cbn [last]. apply (Hend eq_refl Eb k Ek Hk).
        + rewrite last_cons_ne by discriminate. exact IH. }
    assert (Some_ne : forall k l' buf', comp_loop (Some k) l' buf' r = [] -> forall pre, is_prepend (last pre d) = false).
    { intros k l' buf' E. exfalso. exact (comp_loop_some_nonempty r k l' buf' E). }
    cbn [comp_loop] in H. destruct co as [k|].
    + destruct l as [lc|].
      * destruct (ccc ch <=? lc) eqn:El.
        -- destruct (ccc ch =? 0) eqn:E0.
           ++ change (k :: rev buf ++ comp_loop (Some ch) None [] r)
                with ((k :: rev buf) ++ comp_loop (Some ch) None [] r) in H.
              apply (K (Some ch) None [] (k :: rev buf)); [constructor| |exact H|].
              ** intros E. exfalso. exact (comp_loop_some_nonempty r ch None [] E).
              ** intros _ _ k0 Ek Hk. injection Ek as <-. exact Hk.
           ++ apply (K (Some k) (Some (ccc ch)) (ch :: buf) []); [| |exact H|].
              ** constructor; [apply nonstarter_not_prepend, N.eqb_neq, E0|exact Hb].
              ** intros E. exfalso. exact (comp_loop_some_nonempty r k _ _ E).
              ** intros _ Eb. discriminate Eb.
        -- destruct (compose k ch) as [k'|] eqn:Ec.
           ++ apply (K (Some k') (Some lc) buf []); [exact Hb| |exact H|].
              ** intros E. exfalso. exact (comp_loop_some_nonempty r k' _ _ E).
              ** intros _ _ k0 Ek Hk. injection Ek as <-. apply compose_seam in Ec as (_ & Ec & _). congruence.
           ++ assert (E0 : ccc ch <> 0).
              { intros E0. rewrite E0 in El. apply N.leb_gt in El. lia. }
              apply (K (Some k) (Some (ccc ch)) (ch :: buf) []); [| |exact H|].
              ** constructor; [apply nonstarter_not_prepend, E0|exact Hb].
              ** intros E. exfalso. exact (comp_loop_some_nonempty r k _ _ E).
              ** intros _ Eb. discriminate Eb.
      * destruct (compose k ch) as [k'|] eqn:Ec.
        -- apply (K (Some k') None buf []); [exact Hb| |exact H|].
           ++ intros E. exfalso. exact (comp_loop_some_nonempty r k' _ _ E).
           ++ intros _ _ k0 Ek Hk. injection Ek as <-. apply compose_seam in Ec as (_ & Ec & _). congruence.
        -- destruct (ccc ch =? 0) eqn:E0.
           ++ change (k :: comp_loop (Some ch) None buf r) with ([k] ++ comp_loop (Some ch) None buf r) in H.
              apply (K (Some ch) None buf [k]); [exact Hb| |exact H|].
              ** intros E. exfalso. exact (comp_loop_some_nonempty r ch _ _ E).
              ** intros _ _ k0 Ek Hk. injection Ek as <-. exact Hk.
           ++ apply (K (Some k) (Some (ccc ch)) (ch :: buf) []); [| |exact H|].
              ** constructor; [apply nonstarter_not_prepend, N.eqb_neq, E0|exact Hb].
              ** intros E. exfalso. exact (comp_loop_some_nonempty r k _ _ E).
              ** intros _ Eb. discriminate Eb.
    + destruct (ccc ch =? 0) eqn:E0; cbn [negb] in H.
      * apply (K (Some ch) l buf []); [exact Hb| |exact H|].
        -- intros E. exfalso. exact (comp_loop_some_nonempty r ch _ _ E).
        -- intros _ _ k0 Ek Hk. injection Ek as <-. exact Hk.
      * change (ch :: comp_loop None l buf r) with ([ch] ++ comp_loop None l buf r) in H.
        apply (K None l buf [ch]); [exact Hb| |exact H|].
        -- intros _. cbn [last]. apply nonstarter_not_prepend, N.eqb_neq, E0.
        -- intros _ _ k0 Ek. discriminate Ek.
Qed.

Lemma recompose_last_prepend d s :
  is_prepend d = false -> s <> [] ->
  is_prepend (last (recompose s) d) = is_prepend (last s d).
Proof.
  intros Hd Hs. destruct (is_prepend (last s d)) eqn:E.
  - (* a Prepend at the end is a starter that nothing composes with: the loop is cut before it *)
    destruct (exists_last Hs) as (u & p & ->). rewrite last_snoc in E.
    unfold recompose. rewrite (comp_loop_split u None None [] p [] st_ok_init (prepend_starter p E) (prepend_no_compose_r p E)).
    cbn [comp_loop rev]. rewrite last_snoc. exact E.
  - destruct (is_prepend (last (recompose s) d)) eqn:E2; [|reflexivity].
    pose proof (comp_loop_last d Hd s None None [] ltac:(constructor) E2) as H.
    destruct s as [|c r]; [congruence|]. congruence.
Qed.

(** the reordering buffer: a text that ends in a non-starter (or pending non-starters only) is
    written out ending in a non-starter *)
Lemma sort_cc_last_nonstarter d l : l <> [] -> nonstarters l -> ccc (last (sort_cc l) d) <> 0.
Proof.
  intros Hne Hl. pose proof (sort_cc_nonempty l Hne) as Hs.
  destruct (exists_last Hs) as (u & z & E). rewrite E, last_snoc.
  assert (Hin : In z l) by (apply sort_cc_in; rewrite E; apply in_or_app; right; left; reflexivity).
  unfold nonstarters in Hl. rewrite Forall_forall in Hl. apply Hl, Hin.
Qed.

Lemma reorder_last_nonstarter d s : forall pend,
  nonstarters pend -> (s = [] -> pend <> []) -> (s <> [] -> ccc (last s d) <> 0) ->
  ccc (last (reorder pend s) d) <> 0.
Proof.
  induction s as [|c r IH]; intros pend Hp H1 H2; cbn [reorder].
  - apply sort_cc_last_nonstarter; [|apply rev_nonstarters, Hp].
    intros E. apply (H1 eq_refl). rewrite <- (rev_involutive pend), E. reflexivity.
  - destruct (ccc c =? 0) eqn:E.
    + apply N.eqb_eq in E.
      assert (Hr : r <> []).
      { intros ->. apply (H2 ltac:(discriminate)). exact E. }
      change (sort_cc (rev pend) ++ c :: reorder [] r) with (sort_cc (rev pend) ++ [c] ++ reorder [] r).
      rewrite app_assoc. rewrite last_app_ne by (apply reorder_nonempty; left; exact Hr).
      apply IH; [constructor|congruence|]. intros _. rewrite <- (last_cons_ne d c r Hr). apply H2. discriminate.
    + apply N.eqb_neq in E. apply IH; [constructor; assumption|discriminate|].
      intros Hr. rewrite <- (last_cons_ne d c r Hr). apply H2. discriminate.
Qed.

Lemma reorder_last_prepend d s :
  s <> [] -> is_prepend (last (reorder [] s) d) = is_prepend (last s d).
Proof.
  intros Hs. destruct (exists_last Hs) as (u & z & ->). rewrite last_snoc.
  destruct (N.eq_dec (ccc z) 0) as [E|E].
  - rewrite (reorder_split u [] z [] E). cbn [reorder rev sort_cc].
    change (reorder [] u ++ [z]) with (reorder [] u ++ [z]). rewrite last_snoc. reflexivity.
  - rewrite (nonstarter_not_prepend z E). apply nonstarter_not_prepend.
    apply reorder_last_nonstarter; [constructor|intros E2; apply app_eq_nil in E2 as [_ E2]; discriminate|].
    intros _. rewrite last_snoc. exact E.
Qed.

(** the last code point of the NFKC of a piece is a Prepend iff the last code point of the
    compatibility decomposition of its last code point is *)
Lemma nfkc_last_prepend d u y :
  is_prepend d = false ->
  is_prepend (last (nfkc (u ++ [y])) d) = is_prepend (last (decompose_char true y) d).
Proof.
  intros Hd. unfold nfkc, nfkd.
  assert (Hne : decompose true (u ++ [y]) <> []).
  { apply decompose_nonempty. intros E. apply app_eq_nil in E as [_ E]. discriminate. }
  rewrite recompose_last_prepend by (exact Hd || (apply reorder_nonempty; left; exact Hne)).
  rewrite reorder_last_prepend by exact Hne.
  rewrite decompose_app. unfold decompose at 2. cbn [flat_map]. rewrite app_nil_r.
  rewrite last_app_ne by apply decompose_char_nonempty. reflexivity.
Qed.

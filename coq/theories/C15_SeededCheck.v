(** C15 seeded, part 3: the val level. The flags "weight > 0" of an input are the signs of its weights
    iff the relational configuration is the erased weighted one ([flags_cfg]); an implementation output
    that passes the EXACT line passes the relational line's chain clause ([exact_member_l]): inside the
    domain the exact line subsumes membership. *)
From TU Require Import RNG_Model RNG_Proofs.
From TU Require Import Base C15_Model C15_Proofs C15_Apply C15_Check C15_Chain C15_Seeded C15_SeededFloat C15_SeededProofs.
From Coq Require Import Lia.

Lemma v_list_id_in {A} (f : val -> A) v x : In x (v_list (fun y => y) v) -> In (f x) (v_list f v).
Proof. destruct v as [z|l]; cbn [v_list]; [intros []|]. rewrite map_id. apply in_map. Qed.

Lemma v_list_erase {A B} (f : val -> A) (g : val -> B) (h : B -> A) (P : val -> bool) v :
  forallb P (v_list (fun y => y) v) = true -> (forall x, P x = true -> f x = h (g x)) ->
  v_list f v = map h (v_list g v).
Proof.
  intros Hall Hx. destruct v as [z|l]; cbn [v_list] in *; [reflexivity|]. rewrite map_id in Hall. rewrite map_map.
  apply map_ext_in. intros x Hin. apply Hx. exact (proj1 (forallb_forall _ _) Hall x Hin).
Qed.

Lemma flags_edits v : flags_ok_edits v = true -> v_list v_edit v = map erase_edit (v_list v_wedit v).
Proof.
  intros H. eapply v_list_erase; [exact H|]. intros x Hx. cbv beta in Hx. apply Bool.eqb_prop in Hx.
  unfold v_edit, erase_edit, v_wedit. cbn [fst snd]. rewrite Hx. reflexivity.
Qed.

Lemma flags_cfg v : flags_ok v = true -> v_cfg v = erase (v_wcfg v).
Proof.
  intros H. unfold flags_ok in H. apply Bool.andb_true_iff in H as [Hi Hr].
  unfold v_cfg, erase, v_wcfg. cbn [wk_ins wk_del wk_rep wk_swap wfull_del witab wrtab]. f_equal.
  - eapply v_list_erase; [exact Hi|]. intros e He. cbv beta in He. unfold v_ient, v_wient, erase_ient.
    rewrite (flags_edits _ He). reflexivity.
  - eapply v_list_erase; [exact Hr|]. intros e He. cbv beta in He. unfold v_rent, v_wrent, erase_rent.
    rewrite (flags_edits _ He). reflexivity.
Qed.

(** decoding what [outcome_v] encodes *)
Lemma v_str_enc (s : str) : v_str (list_v n_v s) = s.
Proof.
  unfold v_str, list_v. cbn [v_list]. rewrite map_map. rewrite <- (map_id s) at 2. apply map_ext.
  intros x. unfold v_n, n_v. cbn [v_z]. apply N2Z.id.
Qed.

Lemma v_cls_enc (w : word) : v_cls (list_v (list_v n_v) w) = w.
Proof.
  unfold v_cls, list_v at 1. cbn [v_list]. rewrite map_map. rewrite <- (map_id w) at 2. apply map_ext. apply v_str_enc.
Qed.

Lemma v_nats_enc (l : list nat) : v_list v_nat (list_v nat_v l) = l.
Proof.
  unfold list_v. cbn [v_list]. rewrite map_map. rewrite <- (map_id l) at 2. apply map_ext.
  intros x. unfold v_nat, nat_v. cbn [v_z]. apply Nat2Z.id.
Qed.

Lemma step_exact_member c s k o lo :
  outcomes c (s_cd s) (s_cs s) (s_w s) (s_ex s) = Some lo -> In (apply_ed (s_w s) (s_ex s) k) lo ->
  step_exact (outcome_v (apply_ed (s_w s) (s_ex s) k)) o = true -> step_agree false c s o = true.
Proof.
  intros Hlo Hin H. unfold step_exact, outcome_v in H. cbn [fst snd apply_ed] in H.
  destruct o as [z|[|ow [|oex [|x t]]]]; try discriminate.
  rewrite v_cls_enc, v_nats_enc in H. unfold step_agree. rewrite Hlo.
  apply existsb_exists. exists (apply_ed (s_w s) (s_ex s) k). split; [exact Hin|exact H].
Qed.

Lemma steps_member wc : forall ss st vs stf ch, wf st -> wtabs_ok wc = true ->
  seeded_steps wc ss st = (vs, stf) -> all2 step_exact vs ch = true ->
  all2 (step_agree false (erase wc)) ss ch = true.
Proof.
  induction ss as [|s r IH]; intros st vs stf ch Hw Hok H Ha; cbn [seeded_steps] in H.
  - injection H as <- _. destruct ch; [reflexivity|discriminate].
  - destruct (edit_word_seeded wc (s_cd s) (s_cs s) (s_w s) (s_ex s) st) as [k st1|e| |] eqn:E.
    + destruct (seeded_steps wc r st1) as [vs' stf'] eqn:Er. injection H as <- <-.
      destruct ch as [|o ch']; [discriminate|]. cbn [all2] in Ha |- *. apply Bool.andb_true_iff in Ha as [Ho Ha].
      destruct (seeded_in_choices_l _ _ _ _ _ _ _ _ Hw Hok E) as (Hw1 & l & Hl & Hin).
      destruct (outcomes_of_choices _ _ _ _ _ _ _ Hl Hin) as (lo & Hlo & Hino).
      rewrite (step_exact_member _ _ _ _ _ Hlo Hino Ho). cbn [andb]. eapply IH; eassumption.
    + injection H as <- _. destruct ch as [|o ch']; [discriminate|]. cbn [all2 sres_fault_v step_exact] in Ha. discriminate.
    + injection H as <- _. destruct ch as [|o ch']; [discriminate|]. cbn [all2 sres_fault_v step_exact] in Ha. discriminate.
    + injection H as <- _. destruct ch as [|o ch']; [discriminate|]. cbn [all2 sres_fault_v step_exact] in Ha. discriminate.
Qed.

(** EXACT implies MEMBER: the chain clause of the relational correspondence *)
Lemma exact_member_l v pv ch ipos : wtabs_ok (v_wcfg v) = true -> is_e2e v = false ->
  agree_exact v (L [L [pv; L ch]; ipos]) = true ->
  all2 (step_agree false (v_cfg v)) (v_steps v) ch = true.
Proof.
  intros Hok He H. unfold agree_exact in H. rewrite He in H. apply Bool.andb_true_iff in H as [Hf H].
  rewrite (flags_cfg v Hf). unfold seeded_edit in H.
  destruct (seeded_steps (v_wcfg v) (v_steps v) (seed_from_u64 (v_seed v))) as [vs stf] eqn:Es.
  unfold exact_edit in H. apply Bool.andb_true_iff in H as [H _].
  eapply steps_member; [apply wf_seed|exact Hok|exact Es|exact H].
Qed.


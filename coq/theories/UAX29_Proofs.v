(** Proofs about the UAX #29 model (UAX29_Model.v). Pinned statements are in UAX29_Props.v. *)
From TU Require Import Base UAX29_Model.
From Coq Require Import Lia.
Open Scope N_scope.

(** * A. Range tables *)

Lemma rbuild_flatten {A} d : forall (l : list (N * N * A)),
  rflatten (fst (rbuild d l)) ++ snd (rbuild d l) = l.
Proof.
  induction d as [|d IH]; intros l; [reflexivity|].
  cbn [rbuild]. pose proof (IH l) as H1. destruct (rbuild d l) as [tl l1] eqn:E1.
  cbn [fst snd] in H1. destruct l1 as [|[[lo hi] a] l2].
  - cbn [fst snd]. exact H1.
  - pose proof (IH l2) as H2. destruct (rbuild d l2) as [tr l3] eqn:E2. cbn [fst snd] in *.
    cbn [rflatten]. rewrite <- H1, <- H2, <- !app_assoc. reflexivity.
Qed.

(** a hit of the tree is an entry of the tree that contains the point *)
Lemma rlookup_in {A} (t : rtree A) x a :
  rlookup t x = Some a -> exists lo hi, In (lo, hi, a) (rflatten t) /\ lo <= x /\ x <= hi.
Proof.
  induction t as [|l IHl lo hi b r IHr]; [discriminate|]. cbn [rlookup rflatten]. intros H.
  destruct (x ?= lo) eqn:E1.
  - destruct (x ?= hi) eqn:E2.
    + injection H as <-. exists lo, hi. split; [apply in_or_app; right; left; reflexivity|].
      apply N.compare_eq in E1, E2. lia.
    + injection H as <-. exists lo, hi. split; [apply in_or_app; right; left; reflexivity|].
      apply N.compare_eq in E1. rewrite N.compare_lt_iff in E2. lia.
    + destruct (IHr H) as (lo' & hi' & Hin & Hb). exists lo', hi'.
      split; [apply in_or_app; right; right; exact Hin|exact Hb].
  - destruct (IHl H) as (lo' & hi' & Hin & Hb). exists lo', hi'.
    split; [apply in_or_app; left; exact Hin|exact Hb].
  - destruct (x ?= hi) eqn:E2.
    + injection H as <-. exists lo, hi. split; [apply in_or_app; right; left; reflexivity|].
      apply N.compare_eq in E2. rewrite N.compare_gt_iff in E1. lia.
    + injection H as <-. exists lo, hi. split; [apply in_or_app; right; left; reflexivity|].
      rewrite N.compare_lt_iff in E2. rewrite N.compare_gt_iff in E1. lia.
    + destruct (IHr H) as (lo' & hi' & Hin & Hb). exists lo', hi'.
      split; [apply in_or_app; right; right; exact Hin|exact Hb].
Qed.

Lemma llookup_app {A} (l1 l2 : list (N * N * A)) x :
  llookup (l1 ++ l2) x = match llookup l1 x with Some a => Some a | None => llookup l2 x end.
Proof.
  induction l1 as [|[[lo hi] a] l1 IH]; [reflexivity|]. cbn [app llookup].
  destruct ((lo <=? x) && (x <=? hi)); [reflexivity|exact IH].
Qed.

Lemma sorted_below {A} (l : list (N * N * A)) : forall lb x,
  ranges_sorted lb l = true -> x < lb -> llookup l x = None.
Proof.
  induction l as [|[[lo hi] a] l IH]; intros lb x Hs Hx; [reflexivity|].
  cbn [ranges_sorted] in Hs. apply andb_true_iff in Hs as [Hs Hr]. apply andb_true_iff in Hs as [H1 H2].
  apply N.leb_le in H1, H2. cbn [llookup].
  destruct (lo <=? x) eqn:E; [apply N.leb_le in E; lia|]. cbn [andb].
  apply (IH (hi + 1)); [exact Hr|lia].
Qed.

Lemma sorted_app {A} (l1 : list (N * N * A)) : forall lb lo hi a l2,
  ranges_sorted lb (l1 ++ (lo, hi, a) :: l2) = true ->
  ranges_sorted lb l1 = true /\ lb <= lo /\ lo <= hi /\ ranges_sorted (hi + 1) l2 = true
  /\ (forall x, lo <= x -> llookup l1 x = None).
Proof.
  induction l1 as [|[[lo1 hi1] a1] l1 IH]; intros lb lo hi a l2 Hs.
  - cbn [app ranges_sorted] in Hs. apply andb_true_iff in Hs as [Hs Hr].
    apply andb_true_iff in Hs as [H1 H2]. apply N.leb_le in H1, H2.
    repeat split; try assumption; reflexivity.
  - cbn [app ranges_sorted] in Hs. apply andb_true_iff in Hs as [Hs Hr].
    apply andb_true_iff in Hs as [H1 H2]. apply N.leb_le in H1, H2.
    destruct (IH _ _ _ _ _ Hr) as (Ha & Hb & Hc & Hd & He).
    repeat split; try assumption; try lia.
    + cbn [ranges_sorted]. rewrite Ha. apply N.leb_le in H1, H2. rewrite H1, H2. reflexivity.
    + intros x Hx. cbn [llookup]. destruct (x <=? hi1) eqn:E; [apply N.leb_le in E; lia|].
      rewrite andb_false_r. apply He. exact Hx.
Qed.

(** on sorted ranges the search tree is the linear lookup *)
Lemma rlookup_llookup {A} (t : rtree A) : forall lb x,
  ranges_sorted lb (rflatten t) = true -> rlookup t x = llookup (rflatten t) x.
Proof.
  induction t as [|l IHl lo hi b r IHr]; intros lb x Hs; [reflexivity|].
  cbn [rflatten] in Hs. destruct (sorted_app _ _ _ _ _ _ Hs) as (Ha & Hb & Hc & Hd & He).
  cbn [rlookup rflatten]. rewrite llookup_app. cbn [llookup].
  destruct (x ?= lo) eqn:E1.
  - apply N.compare_eq in E1. subst x. rewrite (He lo) by lia.
    rewrite N.leb_refl. cbn [andb]. destruct (lo ?= hi) eqn:E2.
    + apply N.compare_eq in E2. subst hi. rewrite N.leb_refl. reflexivity.
    + rewrite N.compare_lt_iff in E2. destruct (lo <=? hi) eqn:E; [reflexivity|apply N.leb_gt in E; lia].
    + rewrite N.compare_gt_iff in E2. lia.
  - rewrite N.compare_lt_iff in E1. rewrite (IHl lb x Ha).
    destruct (llookup (rflatten l) x); [reflexivity|].
    destruct (lo <=? x) eqn:E; [apply N.leb_le in E; lia|]. cbn [andb].
    symmetry. apply (sorted_below _ (hi + 1)); [exact Hd|lia].
  - rewrite N.compare_gt_iff in E1. rewrite (He x) by lia.
    destruct (lo <=? x) eqn:E; [|apply N.leb_gt in E; lia]. cbn [andb].
    destruct (x ?= hi) eqn:E2.
    + apply N.compare_eq in E2. subst x. rewrite N.leb_refl. reflexivity.
    + rewrite N.compare_lt_iff in E2. destruct (x <=? hi) eqn:E3; [reflexivity|apply N.leb_gt in E3; lia].
    + rewrite N.compare_gt_iff in E2. destruct (x <=? hi) eqn:E3; [apply N.leb_le in E3; lia|].
      apply (IHr (hi + 1)). exact Hd.
Qed.

Lemma rtree_of_flatten {A} (l : list (N * N * A)) :
  snd (rbuild (rdepth l) l) = [] -> rflatten (rtree_of l) = l.
Proof.
  intros H. unfold rtree_of. pose proof (rbuild_flatten (rdepth l) l) as F.
  rewrite H, app_nil_r in F. exact F.
Qed.

Lemma rtree_of_spec {A} (l : list (N * N * A)) x :
  snd (rbuild (rdepth l) l) = [] -> ranges_sorted 0 l = true ->
  rlookup (rtree_of l) x = llookup l x.
Proof.
  intros H Hs. pose proof (rtree_of_flatten l H) as F.
  rewrite (rlookup_llookup (rtree_of l) 0 x); rewrite F; [reflexivity|exact Hs].
Qed.

Lemma llookup_in {A} (l : list (N * N * A)) x a :
  llookup l x = Some a -> exists lo hi, In (lo, hi, a) l /\ lo <= x /\ x <= hi.
Proof.
  induction l as [|[[lo hi] b] l IH]; [discriminate|]. cbn [llookup].
  destruct ((lo <=? x) && (x <=? hi)) eqn:E.
  - intros H. injection H as <-. apply andb_true_iff in E as [E1 E2]. apply N.leb_le in E1, E2.
    exists lo, hi. split; [left; reflexivity|lia].
  - intros H. destruct (IH H) as (lo' & hi' & Hin & Hb). exists lo', hi'. split; [right; exact Hin|exact Hb].
Qed.

(** ** the three tables of the crate *)
Lemma gcb_tree_spec x : rlookup gcb_tree x = llookup grapheme_cat_table x.
Proof. apply rtree_of_spec; vm_compute; reflexivity. Qed.
Lemma incb_extend_tree_spec x : rlookup incb_extend_tree x = llookup incb_extend_table x.
Proof. apply rtree_of_spec; vm_compute; reflexivity. Qed.
Lemma incb_linker_tree_spec x : rlookup incb_linker_tree x = llookup incb_linker_table x.
Proof. apply rtree_of_spec; vm_compute; reflexivity. Qed.

Definition ascii_cat (c : N) : cat :=
  if 32 <=? c then GC_Any else if c =? 10 then GC_LF else if c =? 13 then GC_CR else GC_Control.

(** [gcb] is the ASCII shortcut of the code, else the first (= only) range of the table
    that contains the code point, else [GC_Any] *)
Lemma gcb_spec_l c :
  gcb c = if c <=? 126 then ascii_cat c
          else match llookup grapheme_cat_table c with Some k => k | None => GC_Any end.
Proof. unfold gcb, ascii_cat. rewrite gcb_tree_spec. reflexivity. Qed.

Lemma incb_of_spec_l c :
  incb_of c = match llookup incb_linker_table c with
              | Some k => Some k
              | None => llookup incb_extend_table c
              end.
Proof. unfold incb_of. rewrite incb_linker_tree_spec, incb_extend_tree_spec. reflexivity. Qed.

(** every point of [lo..hi] lies in a range of [l] whose payload satisfies [p] *)
Fixpoint covered {A} (p : A -> bool) (l : list (N * N * A)) (lo hi : N) : bool :=
  match l with
  | [] => false
  | (a, b, k) :: r =>
      if b <? lo then covered p r lo hi
      else (a <=? lo) && p k && (if hi <=? b then true else covered p r (b + 1) hi)
  end.

Lemma covered_sound {A} (p : A -> bool) (l : list (N * N * A)) : forall lo hi x,
  covered p l lo hi = true -> lo <= x -> x <= hi ->
  exists k, llookup l x = Some k /\ p k = true.
Proof.
  induction l as [|[[a b] k] l IH]; intros lo hi x Hc H1 H2; [discriminate|].
  cbn [covered] in Hc. cbn [llookup]. destruct (b <? lo) eqn:E.
  - apply N.ltb_lt in E. destruct (x <=? b) eqn:E2; [apply N.leb_le in E2; lia|].
    rewrite andb_false_r. apply (IH lo hi); assumption.
  - apply N.ltb_ge in E. apply andb_true_iff in Hc as [Hc Hr]. apply andb_true_iff in Hc as [Ha Hp].
    apply N.leb_le in Ha. destruct (x <=? b) eqn:E2.
    + apply N.leb_le in E2. destruct (a <=? x) eqn:E3; [|apply N.leb_gt in E3; lia].
      cbn [andb]. exists k. split; [reflexivity|exact Hp].
    + apply N.leb_gt in E2. rewrite andb_false_r. destruct (hi <=? b) eqn:E4.
      * apply N.leb_le in E4. lia.
      * apply (IH (b + 1) hi); [exact Hr|lia|exact H2].
Qed.

Definition is_ext_zwj (k : cat) : bool := match k with GC_Extend | GC_ZWJ => true | _ => false end.

Definition incb_ranges_ok (l : list (N * N * incb)) : bool :=
  forallb (fun e => match e with (lo, hi, _) => (126 <? lo) && covered is_ext_zwj grapheme_cat_table lo hi end) l.

Lemma incb_ranges_ok_sound l c i :
  incb_ranges_ok l = true -> llookup l c = Some i -> is_ext_zwj (gcb c) = true.
Proof.
  intros Hok Hl. destruct (llookup_in _ _ _ Hl) as (lo & hi & Hin & H1 & H2).
  unfold incb_ranges_ok in Hok. rewrite forallb_forall in Hok. specialize (Hok _ Hin). cbn beta iota in Hok.
  apply andb_true_iff in Hok as [Hlo Hc]. apply N.ltb_lt in Hlo.
  destruct (covered_sound _ _ _ _ c Hc H1 H2) as (k & Hk & Hp).
  rewrite gcb_spec_l. destruct (c <=? 126) eqn:E; [apply N.leb_le in E; lia|]. rewrite Hk. exact Hp.
Qed.

(** Table fact: every code point with an Indic_Conjunct_Break class Linker or Extend has
    grapheme category Extend or ZWJ *)
Lemma incb_only_ext_zwj c i : incb_of c = Some i -> is_ext_zwj (gcb c) = true.
Proof.
  rewrite incb_of_spec_l. destruct (llookup incb_linker_table c) as [k|] eqn:E.
  - intros _. apply (incb_ranges_ok_sound incb_linker_table c k); [vm_compute; reflexivity|exact E].
  - intros H. apply (incb_ranges_ok_sound incb_extend_table c i); [vm_compute; reflexivity|exact H].
Qed.

Lemma incb_none c : is_ext_zwj (gcb c) = false -> incb_of c = None.
Proof.
  intros H. destruct (incb_of c) as [i|] eqn:E; [|reflexivity].
  rewrite (incb_only_ext_zwj c i E) in H. discriminate.
Qed.

(** Table fact: CR and LF are single code points *)
Definition crlf_entries_ok : bool :=
  forallb (fun e => match e with
                    | (lo, hi, GC_CR) => (lo =? 13) && (hi =? 13)
                    | (lo, hi, GC_LF) => (lo =? 10) && (hi =? 10)
                    | _ => true
                    end) grapheme_cat_table.

Lemma gcb_cr c : gcb c = GC_CR -> c = 13.
Proof.
  rewrite gcb_spec_l. destruct (c <=? 126) eqn:E.
  - unfold ascii_cat. destruct (32 <=? c); [discriminate|]. destruct (c =? 10); [discriminate|].
    destruct (c =? 13) eqn:E3; [apply N.eqb_eq in E3; intros _; exact E3|discriminate].
  - apply N.leb_gt in E. destruct (llookup grapheme_cat_table c) as [k|] eqn:El; [|discriminate].
    intros ->. destruct (llookup_in _ _ _ El) as (lo & hi & Hin & H1 & H2).
    assert (Hok : crlf_entries_ok = true) by (vm_compute; reflexivity).
    unfold crlf_entries_ok in Hok. rewrite forallb_forall in Hok. specialize (Hok _ Hin). cbn beta iota in Hok.
    apply andb_true_iff in Hok as [Ha Hb]. apply N.eqb_eq in Ha, Hb. lia.
Qed.

Lemma gcb_lf c : gcb c = GC_LF -> c = 10.
Proof.
  rewrite gcb_spec_l. destruct (c <=? 126) eqn:E.
  - unfold ascii_cat. destruct (32 <=? c); [discriminate|].
    destruct (c =? 10) eqn:E3; [apply N.eqb_eq in E3; intros _; exact E3|].
    destruct (c =? 13); discriminate.
  - apply N.leb_gt in E. destruct (llookup grapheme_cat_table c) as [k|] eqn:El; [|discriminate].
    intros ->. destruct (llookup_in _ _ _ El) as (lo & hi & Hin & H1 & H2).
    assert (Hok : crlf_entries_ok = true) by (vm_compute; reflexivity).
    unfold crlf_entries_ok in Hok. rewrite forallb_forall in Hok. specialize (Hok _ Hin). cbn beta iota in Hok.
    apply andb_true_iff in Hok as [Ha Hb]. apply N.eqb_eq in Ha, Hb. lia.
Qed.

Lemma gcb_printable c : printable_ascii c = true -> gcb c = GC_Any.
Proof.
  unfold printable_ascii, gcb. intros H. apply andb_true_iff in H as [H1 H2]. rewrite H1, H2. reflexivity.
Qed.

(** * B. Structure of the segmentation *)

Lemma seg_from_head x ka a r : exists c cs, seg_from x ka a r = (a :: c) :: cs.
Proof.
  revert x ka a. induction r as [|b r IH]; intros x ka a; cbn [seg_from].
  - exists [], []. reflexivity.
  - destruct (IH (advance x b (gcb b)) (gcb b) b) as (c & cs & E). rewrite E.
    destruct (is_break x ka (gcb b)).
    + exists [], ((b :: c) :: cs). reflexivity.
    + exists (b :: c), cs. reflexivity.
Qed.

Lemma seg_from_concat x ka a r : concat (seg_from x ka a r) = a :: r.
Proof.
  revert x ka a. induction r as [|b r IH]; intros x ka a; cbn [seg_from]; [reflexivity|].
  specialize (IH (advance x b (gcb b)) (gcb b) b).
  destruct (seg_from_head (advance x b (gcb b)) (gcb b) b r) as (c & cs & E). rewrite E in *.
  cbn [concat app] in IH.
  destruct (is_break x ka (gcb b)).
  - cbn [concat app]. f_equal. exact IH.
  - cbn [glue concat app]. f_equal. exact IH.
Qed.

Lemma seg_from_nonempty x ka a r : Forall (fun c => c <> []) (seg_from x ka a r).
Proof.
  revert x ka a. induction r as [|b r IH]; intros x ka a; cbn [seg_from].
  - constructor; [discriminate|constructor].
  - specialize (IH (advance x b (gcb b)) (gcb b) b).
    destruct (seg_from_head (advance x b (gcb b)) (gcb b) b r) as (c & cs & E). rewrite E in *.
    destruct (is_break x ka (gcb b)).
    + constructor; [discriminate|exact IH].
    + cbn [glue]. inversion IH as [|? ? _ Hcs]; subst. constructor; [discriminate|exact Hcs].
Qed.

Lemma segment_concat_l s : concat (segment s) = s.
Proof. destruct s as [|a r]; [reflexivity|]. apply seg_from_concat. Qed.

Lemma segment_nonempty_l s : Forall (fun c => c <> []) (segment s).
Proof. destruct s as [|a r]; [constructor|]. apply seg_from_nonempty. Qed.

Lemma segment_nil_l : segment [] = [].
Proof. reflexivity. Qed.

Lemma segment_singleton_l c : segment [c] = [[c]].
Proof. reflexivity. Qed.

Lemma segment_eq_nil s : segment s = [] <-> s = [].
Proof.
  split; [|intros ->; reflexivity]. destruct s as [|a r]; [reflexivity|]. cbn [segment].
  destruct (seg_from_head (advance ctx0 a (gcb a)) (gcb a) a r) as (c & cs & E). rewrite E. discriminate.
Qed.

(** ** printable ASCII: one cluster per code point *)
Lemma seg_from_ascii r : forall x a,
  forallb printable_ascii r = true ->
  seg_from x GC_Any a r = map (fun c => [c]) (a :: r).
Proof.
  induction r as [|b r IH]; intros x a H; [reflexivity|].
  cbn [forallb] in H. apply andb_true_iff in H as [Hb Hr].
  cbn [seg_from]. rewrite (gcb_printable b Hb). cbn [is_break check_pair].
  rewrite (IH _ b Hr). reflexivity.
Qed.

Lemma segment_ascii_l s : forallb printable_ascii s = true -> segment s = map (fun c => [c]) s.
Proof.
  destruct s as [|a r]; [reflexivity|]. cbn [forallb]. intros H. apply andb_true_iff in H as [Ha Hr].
  cbn [segment]. rewrite (gcb_printable a Ha). apply seg_from_ascii. exact Hr.
Qed.

(** ** splitting at a boundary *)
Lemma glue_app a l1 l2 : l1 <> [] -> glue a (l1 ++ l2) = glue a l1 ++ l2.
Proof. destruct l1; [congruence|reflexivity]. Qed.

Lemma seg_from_split r1 : forall x ka a b r2,
  is_break (fst (run_from x ka r1)) (snd (run_from x ka r1)) (gcb b) = true ->
  seg_from x ka a (r1 ++ b :: r2) =
  seg_from x ka a r1
  ++ seg_from (advance (fst (run_from x ka r1)) b (gcb b)) (gcb b) b r2.
Proof.
  induction r1 as [|c r1 IH]; intros x ka a b r2 H.
  - cbn [run_from fst snd] in *. cbn [app seg_from]. rewrite H. reflexivity.
  - cbn [run_from] in H. cbn [app seg_from run_from].
    rewrite (IH _ _ c b r2 H).
    destruct (is_break x ka (gcb c)); [reflexivity|].
    apply glue_app. destruct (seg_from_head (advance x c (gcb c)) (gcb c) c r1) as (c' & cs & E).
    rewrite E. discriminate.
Qed.

(** general form: a boundary after [s], and the cursor forgets [s] when it moves over [b] *)
Lemma segment_split s b v :
  s <> [] -> break_after s b = true ->
  advance (fst (state_of s)) b (gcb b) = advance ctx0 b (gcb b) ->
  segment (s ++ b :: v) = segment s ++ segment (b :: v).
Proof.
  destruct s as [|a r]; [congruence|]. intros _ Hb Hadv. unfold break_after in Hb.
  cbn [state_of] in Hb, Hadv. cbn [app segment].
  rewrite (seg_from_split r _ _ a b v Hb). rewrite Hadv. reflexivity.
Qed.

(** ** what the context can be, given the category of the last code point *)
Definition ctx_inv (x : ctx) (k : cat) : Prop :=
  (ris_odd x = true -> k = GC_Regional_Indicator)
  /\ (emo_st x <> E_none -> k = GC_Extended_Pictographic \/ is_ext_zwj k = true)
  /\ (icb_st x <> I_none -> k = GC_InCB_Consonant \/ is_ext_zwj k = true).

Lemma advance_inv x c : ctx_inv (advance x c (gcb c)) (gcb c).
Proof.
  unfold ctx_inv, advance. cbn [ris_odd emo_st icb_st]. repeat split.
  - destruct (gcb c); try discriminate. reflexivity.
  - destruct (gcb c); cbn [is_ext_zwj]; try congruence; auto.
  - destruct (incb_of c) as [i|] eqn:E.
    + intros _. right. exact (incb_only_ext_zwj c i E).
    + destruct (gcb c); cbn [is_ext_zwj]; try congruence; auto.
Qed.

Lemma run_from_inv r : forall x ka, ctx_inv x ka -> ctx_inv (fst (run_from x ka r)) (snd (run_from x ka r)).
Proof.
  induction r as [|c r IH]; intros x ka H; [exact H|]. cbn [run_from]. apply IH. apply advance_inv.
Qed.

Lemma state_of_inv s : s <> [] -> ctx_inv (fst (state_of s)) (snd (state_of s)).
Proof. destruct s as [|a r]; [congruence|]. intros _. cbn [state_of]. apply run_from_inv, advance_inv. Qed.

Lemma run_from_snoc r : forall x ka c,
  run_from x ka (r ++ [c]) = (advance (fst (run_from x ka r)) c (gcb c), gcb c).
Proof.
  induction r as [|d r IH]; intros x ka c; [reflexivity|]. cbn [app run_from]. apply IH.
Qed.

Lemma state_of_snoc u a : state_of (u ++ [a]) = (advance (fst (state_of u)) a (gcb a), gcb a).
Proof.
  destruct u as [|b r]; [reflexivity|]. cbn [app state_of]. apply run_from_snoc.
Qed.

(** a pair the table decides as "break" makes the cursor forget what was before *)
Lemma pr_break_ri k1 : check_pair k1 GC_Regional_Indicator = PR_Break -> k1 <> GC_Regional_Indicator.
Proof. intros H ->. discriminate. Qed.

Lemma pr_break_ext k1 k2 : check_pair k1 k2 = PR_Break -> is_ext_zwj k2 = true -> is_ctl k1 = true.
Proof. destruct k1, k2; cbn; congruence. Qed.

Lemma ctl_not_ext k : is_ctl k = true -> is_ext_zwj k = false.
Proof. destruct k; cbn; congruence. Qed.

Lemma advance_forget x k1 b :
  ctx_inv x k1 -> check_pair k1 (gcb b) = PR_Break ->
  advance x b (gcb b) = advance ctx0 b (gcb b).
Proof.
  intros (Hr & He & Hi) Hp. unfold advance. cbn [ris_odd emo_st icb_st ctx0].
  assert (Hext : is_ext_zwj (gcb b) = true -> emo_st x = E_none /\ icb_st x = I_none).
  { intros Hb. pose proof (pr_break_ext _ _ Hp Hb) as Hc. pose proof (ctl_not_ext _ Hc) as Hn.
    split.
    - destruct (emo_st x) eqn:E; [reflexivity| |]; (destruct He as [He|He]; [congruence| |];
        [subst k1; discriminate|congruence]).
    - destruct (icb_st x) eqn:E; [reflexivity|]. destruct Hi as [Hi|Hi]; [congruence| |].
      + subst k1. discriminate.
      + congruence. }
  f_equal.
  - destruct (gcb b) eqn:Eb; try reflexivity.
    destruct (ris_odd x) eqn:Er; [|reflexivity]. specialize (Hr eq_refl). subst k1. discriminate.
  - destruct (gcb b) eqn:Eb; try reflexivity; destruct (Hext eq_refl) as [-> _]; reflexivity.
  - destruct (incb_of b) as [i|] eqn:Ei; [|reflexivity].
    destruct (Hext (incb_only_ext_zwj b i Ei)) as [_ ->]. reflexivity.
Qed.

Lemma pr_break_is_break x k1 k2 : check_pair k1 k2 = PR_Break -> is_break x k1 k2 = true.
Proof. unfold is_break. intros ->. reflexivity. Qed.

Lemma segment_app_break_l u a b v :
  check_pair (gcb a) (gcb b) = PR_Break ->
  segment ((u ++ [a]) ++ b :: v) = segment (u ++ [a]) ++ segment (b :: v).
Proof.
  intros Hp. assert (Hne : u ++ [a] <> []) by (destruct u; discriminate).
  pose proof (state_of_inv _ Hne) as Hinv. rewrite state_of_snoc in Hinv. cbn [fst snd] in Hinv.
  apply segment_split; [exact Hne| |].
  - unfold break_after. rewrite state_of_snoc. cbn [fst snd]. apply pr_break_is_break. exact Hp.
  - rewrite state_of_snoc. cbn [fst]. apply (advance_forget _ (gcb a)); assumption.
Qed.

Lemma hard_break_pr a b : hard_break a b = true -> check_pair (gcb a) (gcb b) = PR_Break.
Proof.
  unfold hard_break. intros H. apply andb_true_iff in H as [H1 H2].
  destruct (gcb a), (gcb b); cbn in *; congruence.
Qed.

Lemma segment_app_hard_l u a b v :
  hard_break a b = true ->
  segment ((u ++ [a]) ++ b :: v) = segment (u ++ [a]) ++ segment (b :: v).
Proof. intros H. apply segment_app_break_l, hard_break_pr, H. Qed.

(** ** CR, LF, Control: alone, or CR LF *)
Lemma ctl_breaks_after x ka kb :
  is_ctl ka = true -> (ka = GC_CR -> kb <> GC_LF) -> is_break x ka kb = true.
Proof.
  intros H1 H2. unfold is_break. destruct ka; try discriminate H1; destruct kb; try reflexivity.
  exfalso. apply H2; reflexivity.
Qed.

Lemma nobreak_cases x ka kb :
  is_break x ka kb = false ->
  (ka = GC_CR /\ kb = GC_LF) \/ (is_ctl ka = false /\ is_ctl kb = false).
Proof.
  unfold is_break. destruct ka, kb; cbn [check_pair is_ctl]; intros H; try discriminate H;
    try (left; split; reflexivity); right; split; reflexivity.
Qed.

Lemma seg_from_after_ctl x ka a r :
  is_ctl ka = true -> ka <> GC_CR -> exists cs, seg_from x ka a r = [a] :: cs.
Proof.
  intros H1 H2. destruct r as [|b r]; cbn [seg_from]; [exists []; reflexivity|].
  rewrite ctl_breaks_after; [eexists; reflexivity|exact H1|congruence].
Qed.

Definition ctl_ok (cl : list N) : Prop :=
  forallb (fun c => negb (is_ctl (gcb c))) cl = true \/ (exists c, cl = [c]) \/ cl = [13; 10].

Lemma seg_from_ctl_ok r : forall x a, Forall ctl_ok (seg_from x (gcb a) a r).
Proof.
  induction r as [|b r IH]; intros x a; cbn [seg_from].
  - constructor; [right; left; exists a; reflexivity|constructor].
  - specialize (IH (advance x b (gcb b)) b).
    destruct (is_break x (gcb a) (gcb b)) eqn:Eb.
    + constructor; [right; left; exists a; reflexivity|exact IH].
    + destruct (nobreak_cases _ _ _ Eb) as [[Ha Hb]|[Ha Hb]].
      * pose proof (gcb_cr a Ha) as ->. pose proof (gcb_lf b Hb) as ->.
        destruct (seg_from_after_ctl (advance x 10 (gcb 10)) (gcb 10) 10 r) as (cs & E);
          [reflexivity|discriminate|].
        rewrite E in *. cbn [glue]. inversion IH as [|? ? _ Hcs]; subst.
        constructor; [right; right; reflexivity|exact Hcs].
      * destruct (seg_from_head (advance x b (gcb b)) (gcb b) b r) as (c & cs & E). rewrite E in *.
        cbn [glue]. inversion IH as [|? ? Hc Hcs]; subst. constructor; [|exact Hcs].
        left. destruct Hc as [Hc|[[c0 Hc]|Hc]].
        -- change (negb (is_ctl (gcb a)) && forallb (fun c => negb (is_ctl (gcb c))) (b :: c) = true).
           rewrite Ha, Hc. reflexivity.
        -- injection Hc as -> ->. cbn [forallb]. rewrite Ha, Hb. reflexivity.
        -- injection Hc as -> _. discriminate Hb.
Qed.

Lemma ctl_cluster_l s cl c :
  In cl (segment s) -> In c cl -> is_ctl (gcb c) = true -> cl = [c] \/ cl = [13; 10].
Proof.
  intros Hcl Hc Hk. destruct s as [|a r]; [contradiction|]. cbn [segment] in Hcl.
  pose proof (seg_from_ctl_ok r (advance ctx0 a (gcb a)) a) as H. rewrite Forall_forall in H.
  destruct (H cl Hcl) as [Hf|[[c0 ->]| ->]].
  - rewrite forallb_forall in Hf. specialize (Hf c Hc). rewrite Hk in Hf. discriminate.
  - destruct Hc as [->|[]]. left. reflexivity.
  - right. reflexivity.
Qed.

Lemma crlf_cluster_l : segment [13; 10] = [[13; 10]].
Proof. vm_compute. reflexivity. Qed.

(** ** U+0020 and what attaches to it *)
Lemma advance_any x a : gcb a = GC_Any -> advance x a GC_Any = ctx0.
Proof.
  intros H. unfold advance. rewrite (incb_none a) by (rewrite H; reflexivity). reflexivity.
Qed.

Lemma is_break_after_any kc :
  is_break ctx0 GC_Any kc =
  negb (match kc with GC_Extend | GC_SpacingMark | GC_ZWJ => true | _ => false end).
Proof. destruct kc; reflexivity. Qed.

Lemma any_then_other_l a c rest :
  gcb a = GC_Any ->
  segment (a :: c :: rest) =
  if ws_joinable c then glue a (segment (c :: rest)) else [a] :: segment (c :: rest).
Proof.
  intros Ha. cbn [segment]. rewrite Ha. rewrite (advance_any ctx0 a Ha).
  cbn [seg_from]. rewrite is_break_after_any. unfold ws_joinable.
  destruct (gcb c); reflexivity.
Qed.

Lemma space_then_other_eq_l c rest :
  segment (32 :: c :: rest) =
  if ws_joinable c then glue 32 (segment (c :: rest)) else [32] :: segment (c :: rest).
Proof. apply any_then_other_l. reflexivity. Qed.

Lemma space_then_other_l c rest :
  (exists cs, segment (32 :: c :: rest) = [32] :: cs) <-> ws_joinable c = false.
Proof.
  rewrite space_then_other_eq_l. destruct (ws_joinable c); split; intros H.
  - destruct H as (cs & H). cbn [segment] in H.
    destruct (seg_from_head (advance ctx0 c (gcb c)) (gcb c) c rest) as (c' & cs' & E).
    rewrite E in H. cbn [glue] in H. discriminate H.
  - discriminate.
  - reflexivity.
  - eexists. reflexivity.
Qed.

(** in any context: after a code point of category Any (U+0020, letters, digits, ...) the
    text splits unless an Extend / SpacingMark / ZWJ follows *)
Lemma any_break_after_l u a c v :
  gcb a = GC_Any -> ws_joinable c = false ->
  segment ((u ++ [a]) ++ c :: v) = segment (u ++ [a]) ++ segment (c :: v).
Proof.
  intros Ha Hc. assert (Hne : u ++ [a] <> []) by (destruct u; discriminate).
  apply segment_split; [exact Hne| |].
  - unfold break_after. rewrite state_of_snoc. cbn [fst snd]. rewrite Ha, (advance_any _ a Ha).
    rewrite is_break_after_any. unfold ws_joinable in Hc. destruct (gcb c); try reflexivity; discriminate.
  - rewrite state_of_snoc. cbn [fst]. rewrite Ha, (advance_any _ a Ha). reflexivity.
Qed.

(** ... and before it unless a Prepend precedes *)
Lemma check_pair_any k : k <> GC_Prepend -> check_pair k GC_Any = PR_Break.
Proof. destruct k; try reflexivity. congruence. Qed.

Lemma any_break_before_l u p a v :
  gcb a = GC_Any -> is_prepend p = false ->
  segment ((u ++ [p]) ++ a :: v) = segment (u ++ [p]) ++ segment (a :: v).
Proof.
  intros Ha Hp. apply segment_app_break_l. rewrite Ha. apply check_pair_any.
  unfold is_prepend in Hp. destruct (gcb p); congruence.
Qed.

Lemma prepend_joins_l p c rest :
  is_prepend p = true -> is_ctl (gcb c) = false ->
  segment (p :: c :: rest) = glue p (seg_from (advance (advance ctx0 p (gcb p)) c (gcb c)) (gcb c) c rest).
Proof.
  unfold is_prepend. intros Hp Hc. cbn [segment seg_from].
  destruct (gcb p); try discriminate. unfold is_break.
  destruct (gcb c); try discriminate; reflexivity.
Qed.

(** ** [no_mixedb] *)
Lemma no_mixedb_spec_l s :
  no_mixedb s = true <->
  Forall (fun c => forallb is_ws c = true \/ forallb (fun x => negb (is_ws x)) c = true) (segment s).
Proof.
  unfold no_mixedb. rewrite forallb_forall, Forall_forall. unfold cl_nomixed.
  split; intros H c Hc; specialize (H c Hc); [apply orb_true_iff in H|apply orb_true_iff]; exact H.
Qed.

Lemma incb_only_extend_l c i : incb_of c = Some i -> gcb c = GC_Extend \/ gcb c = GC_ZWJ.
Proof.
  intros H. pose proof (incb_only_ext_zwj c i H) as E.
  destruct (gcb c); try discriminate E; [left|right]; reflexivity.
Qed.

Lemma prepend_joins_ex_l p c rest :
  is_prepend p = true -> is_ctl (gcb c) = false ->
  exists cl cs, segment (p :: c :: rest) = (p :: c :: cl) :: cs.
Proof.
  intros Hp Hc. rewrite (prepend_joins_l p c rest Hp Hc).
  destruct (seg_from_head (advance (advance ctx0 p (gcb p)) c (gcb c)) (gcb c) c rest) as (cl & cs & E).
  rewrite E. exists cl, cs. reflexivity.
Qed.

(** ** no boundary: the two code points share a cluster *)
Lemma last_default {A} (l : list A) d d' : l <> [] -> last l d = last l d'.
Proof.
  induction l as [|x l IH]; [congruence|]. intros _. destruct l as [|y l]; [reflexivity|].
  cbn [last] in *. apply IH. discriminate.
Qed.

Lemma seg_from_nobreak r1 : forall x ka a b r2,
  is_break (fst (run_from x ka r1)) (snd (run_from x ka r1)) (gcb b) = false ->
  exists cl l1 l2, In cl (seg_from x ka a (r1 ++ b :: r2)) /\ cl = l1 ++ last (a :: r1) a :: b :: l2.
Proof.
  induction r1 as [|c r1 IH]; intros x ka a b r2 H.
  - cbn [run_from fst snd] in H. cbn [app seg_from]. rewrite H.
    destruct (seg_from_head (advance x b (gcb b)) (gcb b) b r2) as (c & cs & E). rewrite E.
    exists (a :: b :: c), [], c. split; [left; reflexivity|reflexivity].
  - cbn [run_from] in H. cbn [app seg_from].
    destruct (IH _ _ c b r2 H) as (cl & l1 & l2 & Hin & Hcl).
    assert (Hl : last (a :: c :: r1) a = last (c :: r1) c).
    { change (last (a :: c :: r1) a) with (last (c :: r1) a). apply last_default. discriminate. }
    rewrite Hl.
    destruct (is_break x ka (gcb c)).
    + exists cl, l1, l2. split; [right; exact Hin|exact Hcl].
    + destruct (seg_from (advance x c (gcb c)) (gcb c) c (r1 ++ b :: r2)) as [|h t]; [contradiction|].
      cbn [glue]. destruct Hin as [->|Hin].
      * exists (a :: cl), (a :: l1), l2. split; [left; reflexivity|]. rewrite Hcl. reflexivity.
      * exists cl, l1, l2. split; [right; exact Hin|exact Hcl].
Qed.

Lemma segment_nobreak_l u a b v :
  break_after (u ++ [a]) b = false ->
  exists cl l1 l2, In cl (segment ((u ++ [a]) ++ b :: v)) /\ cl = l1 ++ a :: b :: l2.
Proof.
  intros H. unfold break_after in H. destruct u as [|a0 r].
  - cbn [app state_of] in H. cbn [app segment].
    exact (seg_from_nobreak [] _ _ a b v H).
  - cbn [app state_of] in H. cbn [app segment].
    destruct (seg_from_nobreak (r ++ [a]) _ _ a0 b v H) as (cl & l1 & l2 & Hin & Hcl).
    exists cl, l1, l2. split; [exact Hin|]. rewrite Hcl. f_equal. f_equal.
    change (a0 :: r ++ [a]) with ((a0 :: r) ++ [a]). apply last_last.
Qed.

(** ... so if one of them is whitespace and the other is not, the text has a mixed cluster *)
Lemma no_mixedb_nobreak_l u a b v :
  break_after (u ++ [a]) b = false -> is_ws a = negb (is_ws b) ->
  no_mixedb ((u ++ [a]) ++ b :: v) = false.
Proof.
  intros H Hw. destruct (segment_nobreak_l u a b v H) as (cl & l1 & l2 & Hin & Hcl).
  unfold no_mixedb. destruct (forallb cl_nomixed (segment ((u ++ [a]) ++ b :: v))) eqn:E; [|reflexivity].
  rewrite forallb_forall in E. specialize (E cl Hin). unfold cl_nomixed in E. subst cl.
  rewrite !forallb_app in E. cbn [forallb] in E. rewrite Hw in E.
  destruct (is_ws b); cbn [negb] in E; rewrite ?andb_false_r, ?andb_true_r in E; cbn [andb orb] in E;
    rewrite ?andb_false_r in E; discriminate E.
Qed.

Lemma pair_nobreak x ka kb :
  check_pair ka kb = PR_NotBreak \/ check_pair ka kb = PR_Extended -> is_break x ka kb = false.
Proof. unfold is_break. intros [-> | ->]; reflexivity. Qed.

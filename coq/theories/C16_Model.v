(** C16 model: inference windows (src/windows.rs), the [CharString] offset
    arithmetic on its run-length encoded cluster lengths (src/unicode.rs) and
    [run_length_encode]/[run_length_decode] (src/utils.rs).  Definitions only.

    The text enters the model as its list of clusters (the real segmentation,
    supplied by the harness from [CharString::split]); the model derives the
    cluster byte lengths from the UTF-8 lengths of the code points, so the
    lengths the implementation reports ([get_char_byte_lengths], which goes
    through encode + decode) are an implementation OUTPUT that is compared.

    [usize] is modelled by unbounded [N].  Every subtraction that is not
    dominated by an explicit check in the code is a checked subtraction
    returning [Panic]; asserts, [panic!("should not happen")] and slices out
    of range are [Panic] as well; [Err] are the [Err(..)] results of the code;
    loops run on explicit fuel (= number of characters) and return [Fuel] when
    it is exhausted.  Additions/multiplications do not overflow in the model. *)
From TU Require Import Base.
Open Scope N_scope.

Inductive res (A : Type) : Type :=
| Ok (a : A)
| Err (code : N) (info : list N)   (* 1 = max <= 2*ctx; 2 = single character wider than the window *)
| Panic (site : N)                 (* the code would panic here *)
| Fuel.                            (* loop not finished within its fuel: would not terminate *)
Arguments Ok {A} a.
Arguments Err {A} code info.
Arguments Panic {A} site.
Arguments Fuel {A}.

Definition bind {A B} (r : res A) (f : A -> res B) : res B :=
  match r with Ok a => f a | Err c i => Err c i | Panic s => Panic s | Fuel => Fuel end.
Notation "'do' x <- e ; f" := (bind e (fun x => f))
  (at level 200, x name, e at level 100, f at level 200, right associativity).

(** usize subtraction with overflow check (debug profile) *)
Definition csub (site a b : N) : res N := if b <=? a then Ok (a - b) else Panic site.

(** * Cluster byte lengths *)
Definition utf8_len (c : cp) : N :=
  if c <? 128 then 1 else if c <? 2048 then 2 else if c <? 65536 then 3 else 4.
Definition cl_blen (c : cluster) : N := sumN (map utf8_len c).
Definition lens_of (cl : list cluster) : list N := map cl_blen cl.
Definition lenN {A} (l : list A) : N := N.of_nat (length l).

(** * utils.rs: run_length_encode / run_length_decode *)
Fixpoint rle_go (val count : N) (l : list N) : list (N * N) :=
  match l with
  | [] => [(val, count)]
  | v :: r => if v =? val then rle_go val (count + 1) r else (val, count) :: rle_go v 1 r
  end.
Definition rle (l : list N) : list (N * N) :=
  match l with [] => [] | v :: r => rle_go v 1 r end.
Definition unrle (r : list (N * N)) : list N :=
  flat_map (fun p => repeat (fst p) (N.to_nat (snd p))) r.

(** * unicode.rs: CharString *)
Record cstr := mkcs { c_rle : list (N * N); c_len : N; c_blen : N }.
(** [CharString::new]: [c_blen] is [str.len()] *)
Definition cs_new (lens : list N) : cstr :=
  {| c_rle := rle lens; c_len := lenN lens; c_blen := sumN lens |}.

(** [byte_start_end]: walk over the (num_bytes, count) runs *)
Fixpoint bse_go (r : list (N * N)) (start total n : N) : res (N * N) :=
  match r with
  | [] => Panic 1                                   (* panic!("should not happen") *)
  | (nb, cnt) :: r' =>
      if n <? total + cnt then
        do d <- csub 2 n total;                     (* n - total_count *)
        let s := start + nb * d in Ok (s, s + nb)
      else bse_go r' (start + cnt * nb) (total + cnt) n
  end.
Definition bse (cs : cstr) (n : N) : res (N * N) := bse_go (c_rle cs) 0 0 n.

(** [char_byte_len] *)
Definition cbl (cs : cstr) (n : N) : res N :=
  do p <- bse cs n; csub 3 (snd p) (fst p).         (* end - start *)

(** [char_range_to_byte_range] ([end - 1] is dominated by the assert) *)
Definition cr2br (cs : cstr) (s e : N) : res (N * N) :=
  if (s <? e) && (e <=? c_len cs) then
    do p <- bse cs s;
    if s <? e - 1 then do q <- bse cs (e - 1); Ok (fst p, snd q) else Ok p
  else Panic 4.                                     (* assert!(start < end && end <= len) *)

(** [&str[start..end]] as (offset, length); only the range is modelled *)
Definition slice (cs : cstr) (bs be : N) : res (N * N) :=
  if (bs <=? be) && (be <=? c_blen cs) then Ok (bs, be - bs) else Panic 6.

(** [get(n)]: [None] beyond the end *)
Definition cs_get (cs : cstr) (n : N) : res (option (N * N)) :=
  if c_len cs <=? n then Ok None
  else do p <- bse cs n; do r <- slice cs (fst p) (snd p); Ok (Some r).

(** [sub]: the literal [""] is reported as (0, 0) *)
Definition sub (cs : cstr) (s e : N) : res (N * N) :=
  if e <? s then Panic 5                            (* assert!(start <= end) *)
  else
    let s' := N.min s (c_len cs) in
    let e' := N.min e (c_len cs) in
    if (c_len cs =? 0) || (s' =? e') then Ok (0, 0)
    else do p <- cr2br cs s' e'; slice cs (fst p) (snd p).

(** * windows.rs *)
Record window := mkw {
  w_cs : N; w_ws : N; w_we : N; w_ce : N;           (* boundaries() *)
  w_bcs : N; w_bws : N; w_bwe : N; w_bce : N;       (* byte_boundaries() *)
  w_soff : N; w_slen : N }.                         (* str as (offset in s, byte length) *)

(** index ranges [a..b] and [(a..b).rev()] *)
Fixpoint nrange_k (a : N) (k : nat) : list N :=
  match k with O => [] | S k' => a :: nrange_k (a + 1) k' end.
Definition nrange (a b : N) : list N := nrange_k a (N.to_nat (b - a)).

Definition b2n (b : bool) : N := if b then 1 else 0.

(** the loop body common to [char] and [byte] after the indices are known *)
Definition mkwin (cs : cstr) (cstart ws we cend : N) : res window :=
  do bctx <- cr2br cs cstart cend;
  do bwin <- cr2br cs ws we;
  do str <- sub cs cstart cend;
  Ok (mkw cstart ws we cend (fst bctx) (fst bwin) (snd bwin) (snd bctx) (fst str) (snd str)).

(** [char()]: the while loop; [ws] = window_start *)
Fixpoint char_loop (fuel : nat) (cs : cstr) (max ctx ws : N) : res (list window) :=
  if ws <? c_len cs then
    match fuel with
    | O => Fuel
    | S f =>
      do wl <- csub 7 max ((1 + b2n (0 <? ws)) * ctx);
      let cstart := ws - ctx in                                   (* saturating_sub *)
      let cend := N.min (c_len cs) (ws + wl + ctx) in
      let we := N.min (c_len cs) (ws + wl) in
      do w <- mkwin cs cstart ws we cend;
      do rest <- char_loop f cs max ctx we;
      Ok (w :: rest)
    end
  else Ok [].
Definition char_windows (lens : list N) (max ctx : N) : res (list window) :=
  if max <=? 2 * ctx then Err 1 []
  else char_loop (length lens) (cs_new lens) max ctx 0.

(** [count_until]: fold_while over the indices with state (count, acc) *)
Fixpoint count_until (cs : cstr) (idxs : list N) (maxl count acc : N) : res N :=
  match idxs with
  | [] => Ok count
  | i :: r =>
    do b <- cbl cs i;
    let na := acc + b in
    if maxl <? na then Ok count else count_until cs r maxl (count + 1) na
  end.

(** [byte()] *)
Fixpoint byte_loop (fuel : nat) (cs : cstr) (max ctx ws : N) : res (list window) :=
  if ws <? c_len cs then
    match fuel with
    | O => Fuel
    | S f =>
      do wl <- csub 7 max ((1 + b2n (0 <? ws)) * ctx);
      do cnt <- count_until cs (nrange ws (c_len cs)) wl 0 0;
      let we := ws + cnt in
      if we <=? ws then
        do b <- cbl cs ws; Err 2 [ws; b; wl]                      (* the message's numbers *)
      else
        do cb <- count_until cs (rev (nrange 0 ws)) ctx 0 0;
        let cstart := ws - cb in                                  (* saturating_sub *)
        do cf <- count_until cs (nrange we (c_len cs)) ctx 0 0;
        let cend := we + cf in
        do w <- mkwin cs cstart ws we cend;
        do rest <- byte_loop f cs max ctx we;
        Ok (w :: rest)
    end
  else Ok [].
Definition byte_windows (lens : list N) (max ctx : N) : res (list window) :=
  if max <=? 2 * ctx then Err 1 []
  else byte_loop (length lens) (cs_new lens) max ctx 0.

Definition zero_window : window := mkw 0 0 0 0 0 0 0 0 0 0.
Definition full_window (cs : cstr) : window :=
  mkw 0 0 (c_len cs) (c_len cs) 0 0 (c_blen cs) (c_blen cs) 0 (c_blen cs).

(** kind: 0 = windows(Character), 1 = windows(Bytes), 2 = windows(Full),
    3 = char() called directly, >= 4 = byte() called directly *)
Definition windows (kind max ctx : N) (lens : list N) : res (list window) :=
  if kind =? 3 then char_windows lens max ctx
  else if 4 <=? kind then byte_windows lens max ctx
  else if sumN lens =? 0 then Ok [zero_window]                    (* s.is_empty() *)
  else if kind =? 0 then char_windows lens max ctx
  else if kind =? 1 then byte_windows lens max ctx
  else Ok [full_window (cs_new lens)].

(** text.rs: possible_character_substrings (same arithmetic; informational) *)
Fixpoint mapM {A B} (f : A -> res B) (l : list A) : res (list B) :=
  match l with
  | [] => Ok []
  | x :: r => do y <- f x; do ys <- mapM f r; Ok (y :: ys)
  end.
Definition pcs (lens : list N) (maxc : N) : res (list (N * N * N)) :=
  if sumN lens =? 0 then Ok [(0, 0, 0)]
  else
    let cs := cs_new lens in
    let num := c_len cs in
    let maxc := N.min maxc num in
    mapM (fun st =>
            let en := N.min num (st + maxc) in
            do p <- cr2br cs st en; Ok (fst p, snd p, en - st))
         (nrange 0 (num - maxc + 1)).

(** * Specification vocabulary (executable) *)
(** sum of the first [n] lengths *)
Fixpoint pre (l : list N) (n : N) : N :=
  match l with
  | [] => 0
  | x :: r => if n =? 0 then 0 else x + pre r (n - 1)
  end.

(** [tileb s e ws]: first starts at [s], consecutive, none empty, last ends at [e] *)
Fixpoint tileb (fs fe : window -> N) (s e : N) (ws : list window) : bool :=
  match ws with
  | [] => s =? e
  | w :: r => (fs w =? s) && (s <? fe w) && tileb fs fe (fe w) e r
  end.
Fixpoint Tile (fs fe : window -> N) (s e : N) (ws : list window) : Prop :=
  match ws with
  | [] => s = e
  | w :: r => fs w = s /\ s < fe w /\ Tile fs fe (fe w) e r
  end.

(** kind class: 0 characters, 1 bytes, 2 full *)
Definition kclass (kind : N) : N :=
  if (kind =? 0) || (kind =? 3) then 0 else if kind =? 2 then 2 else 1.

(** per-window clauses: ctx_contains, byte_char_agree, ctx_str, ctx_bound *)
Definition win_okb (lens : list N) (kc max : N) (w : window) : bool :=
  (* the context contains the window, inside the text, window not empty *)
  (w_cs w <=? w_ws w) && (w_ws w <? w_we w) && (w_we w <=? w_ce w) && (w_ce w <=? lenN lens)
  && (w_bcs w <=? w_bws w) && (w_bws w <? w_bwe w) && (w_bwe w <=? w_bce w) && (w_bce w <=? sumN lens)
  (* byte and character boundaries denote the same positions *)
  && (w_bcs w =? pre lens (w_cs w)) && (w_bws w =? pre lens (w_ws w))
  && (w_bwe w =? pre lens (w_we w)) && (w_bce w =? pre lens (w_ce w))
  (* the reported string is the context slice *)
  && (w_soff w =? w_bcs w) && (w_slen w =? w_bce w - w_bcs w)
  (* size limit *)
  && (if kc =? 0 then w_ce w - w_cs w <=? max
      else if kc =? 1 then w_bce w - w_bcs w <=? max
      else true).

Definition wins_okb (lens : list N) (kc max : N) (ws : list window) : bool :=
  tileb w_ws w_we 0 (lenN lens) ws && tileb w_bws w_bwe 0 (sumN lens) ws
  && forallb (win_okb lens kc max) ws.

Definition is_ok_with (p : list window -> bool) (r : res (list window)) : bool :=
  match r with Ok ws => p ws | _ => false end.
Definition is_err (c : N) (r : res (list window)) : bool :=
  match r with Err c' _ => c' =? c | _ => false end.

(** The property, as a test on a result [r] for the text with cluster byte
    lengths [lens] (all positive) *)
Definition prop_okb (kind max ctx : N) (lens : list N) (r : res (list window)) : bool :=
  if sumN lens =? 0 then
    (* empty text: outside the quantifier; only "defined result" *)
    match r with Ok _ | Err _ _ => true | _ => false end
  else if kclass kind =? 2 then is_ok_with (wins_okb lens 2 max) r
  else if kclass kind =? 0 then
    if max <=? 2 * ctx then is_err 1 r else is_ok_with (wins_okb lens 0 max) r
  else
    if max <=? 2 * ctx then is_err 1 r
    else if existsb (fun b => max - ctx <? b) lens then is_err 2 r       (* fits in no window *)
    else if forallb (fun b => b <=? max - 2 * ctx) lens then is_ok_with (wins_okb lens 1 max) r
    else is_ok_with (wins_okb lens 1 max) r || is_err 2 r.               (* fits only in the first window *)

(** * val glue
    input  = (kind max ctx clusters g probes)
             max/ctx: an integer, or (hi lo) = hi * 2^32 + lo for huge values;
             g is used by the harness only; probes = list of (a b)
    output = (windows cs probes pcs)
      windows: (0 (w ...)) | (1 code (info ...)) | (-777) | (-778),
               w = ((cs ws we ce) (bcs bws bwe bce) (soff slen))
      cs:      ((num_bytes count) ...) (byte lengths ...) len
      probes:  per (a b): (get(a) sub(a,b)), get: () | ((off len)) | -777, sub: (off len) | -777
      pcs:     (0 ((start_byte end_byte chars) ...)) | (-777) *)
Definition v_big (v : val) : N :=
  match v with
  | I z => Z.to_N z
  | L [I hi; I lo] => Z.to_N hi * 4294967296 + Z.to_N lo
  | _ => 0
  end.
Definition v_clusters (v : val) : list cluster := v_list (v_list v_n) v.

Definition win_v (w : window) : val :=
  L [ L [n_v (w_cs w); n_v (w_ws w); n_v (w_we w); n_v (w_ce w)];
      L [n_v (w_bcs w); n_v (w_bws w); n_v (w_bwe w); n_v (w_bce w)];
      L [n_v (w_soff w); n_v (w_slen w)] ].
Definition res_v {A} (f : A -> list val) (r : res A) : val :=
  match r with
  | Ok a => L (I 0%Z :: f a)
  | Err c i => L [I 1%Z; n_v c; list_v n_v i]
  | Panic _ => v_panic
  | Fuel => v_hang
  end.
Definition wres_v (r : res (list window)) : val := res_v (fun ws => [list_v win_v ws]) r.

Definition v_win (v : val) : option window :=
  match v with
  | L [L [I a; I b; I c; I d]; L [I e; I f; I g; I h]; L [I i; I j]] =>
      Some (mkw (Z.to_N a) (Z.to_N b) (Z.to_N c) (Z.to_N d)
                (Z.to_N e) (Z.to_N f) (Z.to_N g) (Z.to_N h) (Z.to_N i) (Z.to_N j))
  | _ => None
  end.
Fixpoint v_wins (l : list val) : option (list window) :=
  match l with
  | [] => Some []
  | v :: r => match v_win v, v_wins r with Some w, Some ws => Some (w :: ws) | _, _ => None end
  end.
Definition v_wres (v : val) : res (list window) :=
  match v with
  | L [I 0%Z; L l] => match v_wins l with Some ws => Ok ws | None => Panic 0 end
  | L [I 1%Z; I c; L i] => Err (Z.to_N c) (map v_n i)
  | L [I (-778)%Z] => Fuel
  | _ => Panic 0
  end.

Definition pair_nv (p : N * N) : val := L [n_v (fst p); n_v (snd p)].
Definition small_v {A} (f : A -> val) (r : res A) : val :=
  match r with Ok a => f a | _ => I (-777)%Z end.

Definition probe_v (cs : cstr) (p : val) : val :=
  let a := v_n (v_nth 0 p) in
  let b := v_n (v_nth 1 p) in
  L [ small_v (opt_v pair_nv) (cs_get cs a); small_v pair_nv (sub cs a b) ].

Definition run_C16 (v : val) : val :=
  let kind := v_n (v_nth 0 v) in
  let max := v_big (v_nth 1 v) in
  let ctx := v_big (v_nth 2 v) in
  let lens := lens_of (v_clusters (v_nth 3 v)) in
  let cs := cs_new lens in
  L [ wres_v (windows kind max ctx lens);
      L [ list_v pair_nv (c_rle cs); list_v n_v (unrle (c_rle cs)); n_v (c_len cs) ];
      L (map (probe_v cs) (match v_nth 5 v with L l => l | _ => [] end));
      res_v (fun l => [list_v (fun t => L [n_v (fst (fst t)); n_v (snd (fst t)); n_v (snd t)]) l])
            (pcs lens max) ].

(** well-formed input: no empty cluster (cluster byte lengths are positive) *)
Definition wf_C16 (v : val) : bool :=
  forallb (fun c => match c with [] => false | _ => true end) (v_clusters (v_nth 3 v)).

Definition check_C16 (v out : val) : bool :=
  let kind := v_n (v_nth 0 v) in
  let max := v_big (v_nth 1 v) in
  let ctx := v_big (v_nth 2 v) in
  let lens := lens_of (v_clusters (v_nth 3 v)) in
  prop_okb kind max ctx lens (v_wres (v_nth 0 out)).

(** * Correspondence of the segmenter (UAX29_Model): the cluster list handed over by the
    harness must be what the model's own segmenter produces for the text — [segment] in
    grapheme mode, one cluster per code point otherwise.  Part of [agree], not of
    [check_C16]: a mismatch is a model/implementation disagreement, not a property failure. *)
From TU Require Import UAX29_Model.
Fixpoint cls_eqb (a b : list cluster) : bool :=
  match a, b with
  | [], [] => true
  | x :: a', y :: b' => nlist_eqb x y && cls_eqb a' b'
  | _, _ => false
  end.
Definition seg_of (g : bool) (s : str) : list cluster := if g then segment s else singletons s.
Definition uax29_agree (v : val) : bool :=
  let seg := v_clusters (v_nth 3 v) in
  cls_eqb (seg_of (v_bool (v_nth 4 v)) (concat seg)) seg.

(** C13 proofs, part 8: the parallel f64 sum of [_mean_edit_distance] (balanced split tree) and the
    mean normalised edit distance in binary64. *)
From Coq Require Import ZArith List Bool QArith Qreals Reals Lia Lra.
From Flocq Require Import Core IEEE754.BinarySingleNaN.
From TU Require Import Base C13_Model C13_Float C13_F1 C13_FloatProofs.
From TU Require C12_Model C12_Props.
Import ListNotations.
Close Scope Q_scope.
Open Scope R_scope.

Lemma NNF_nzero : NNF f_nzero.
Proof. split; [reflexivity|]. unfold f_nzero. cbn. lra. Qed.
Lemma B2R_nzero : B2R f_nzero = 0.
Proof. reflexivity. Qed.

(** rayon's [add(l, r)] = (-0.0 + l) + r on bounded non-negative floats *)
Lemma sum2_range : forall a b ka kb, NNF a -> NNF b -> (0 <= ka)%Z -> (0 <= kb)%Z ->
  B2R a <= IZR ka -> B2R b <= IZR kb -> (ka + kb <= 2 ^ 53)%Z ->
  NNF (sum2 a b) /\ B2R (sum2 a b) <= IZR (ka + kb).
Proof.
  intros a b ka kb Ha Hb Hka Hkb La Lb Hk. unfold sum2.
  destruct (fadd_bound f_nzero a (IZR ka) NNF_nzero Ha) as (H1 & E1 & L1).
  - apply fmt_IZR. lia.
  - apply IZR_lt_TOP. lia.
  - rewrite B2R_nzero. lra.
  - destruct (fadd_bound (fadd f_nzero a) b (IZR (ka + kb)) H1 Hb) as (H2 & _ & L2).
    + apply fmt_IZR. lia.
    + apply IZR_lt_TOP. lia.
    + rewrite plus_IZR. lra.
    + split; assumption.
Qed.

Lemma leaf_sum_range : forall l, Forall in01f l -> (Z.of_nat (length l) <= 2 ^ 53)%Z ->
  NNF (leaf_sum l) /\ B2R (leaf_sum l) <= IZR (Z.of_nat (length l)).
Proof.
  intros l Hl Hn. unfold leaf_sum.
  destruct (fold_fadd_range l f_nzero 0 Hl NNF_nzero ltac:(lia) ltac:(rewrite B2R_nzero; lra) ltac:(lia)) as [A B].
  rewrite Z.add_0_l in B.
  destruct (sum2_range f_nzero (fold_left fadd l f_nzero) 0 (Z.of_nat (length l)) NNF_nzero A
              ltac:(lia) ltac:(lia) ltac:(rewrite B2R_nzero; lra) B ltac:(lia)) as [C D].
  rewrite Z.add_0_l in D. split; assumption.
Qed.

Lemma tree_sum_range : forall fuel l, Forall in01f l -> (Z.of_nat (length l) <= 2 ^ 53)%Z ->
  NNF (tree_sum fuel l) /\ B2R (tree_sum fuel l) <= IZR (Z.of_nat (length l)).
Proof.
  induction fuel as [|f IH]; intros l Hl Hn; cbn [tree_sum]; [apply leaf_sum_range; assumption|].
  destruct (Nat.div2 (length l)) as [|k'] eqn:K; [apply leaf_sum_range; assumption|].
  remember (S k') as k eqn:Hk.
  assert (Kle : (k <= length l)%nat).
  { rewrite Nat.div2_div in K. pose proof (Nat.div_mod (length l) 2 ltac:(lia)). lia. }
  rewrite <- (firstn_skipn k l) in Hl. apply Forall_app in Hl as [H1 H2].
  assert (L1 : length (firstn k l) = k) by (apply firstn_length_le; exact Kle).
  assert (L2 : length (skipn k l) = (length l - k)%nat) by apply skipn_length.
  assert (G1 : (Z.of_nat (length (firstn k l)) <= 2 ^ 53)%Z) by (rewrite L1; lia).
  assert (G2 : (Z.of_nat (length (skipn k l)) <= 2 ^ 53)%Z) by (rewrite L2; lia).
  destruct (IH (firstn k l) H1 G1) as [A1 B1].
  destruct (IH (skipn k l) H2 G2) as [A2 B2].
  rewrite L1 in B1. rewrite L2 in B2.
  destruct (sum2_range _ _ (Z.of_nat k) (Z.of_nat (length l - k)) A1 A2 ltac:(lia) ltac:(lia) B1 B2 ltac:(lia)) as [C D].
  split; [exact C|]. eapply Rle_trans; [exact D|]. apply IZR_le. lia.
Qed.

(** one normalised distance as f64 *)
Lemma dist_fl_range : forall a b : list cluster,
  (Z.of_nat (length a) < 2 ^ 53)%Z -> (Z.of_nat (length b) < 2 ^ 53)%Z ->
  in01f (dist_fl (C12_Model.distance ed_flags true a b)).
Proof.
  intros a b Ha Hb.
  destruct (C12_Props.norm_le_1 ed_flags a b eq_refl) as [Q0 Q1].
  set (q := C12_Model.distance ed_flags true a b) in *.
  assert (N0 : (0 <= Qnum q)%Z) by (unfold Qle in Q0; change (Qnum 0) with 0%Z in Q0; change (QDen 0) with 1%Z in Q0; lia).
  assert (N1 : (Qnum q <= Zpos (Qden q))%Z) by (unfold Qle in Q1; change (Qnum 1) with 1%Z in Q1; change (QDen 1) with 1%Z in Q1; lia).
  assert (D : (Zpos (Qden q) < 2 ^ 53)%Z).
  { unfold q, C12_Model.distance, C12_Model.norm_den. cbn [Qden]. rewrite Zpos_of_nat' by lia. lia. }
  unfold dist_fl.
  replace (of_Z (Z.pos (Qden q))) with (of_Z (Z.max (Z.pos (Qden q)) 1)) by (f_equal; lia).
  destruct (ratio_fl_spec (Qnum q) (Zpos (Qden q)) ltac:(lia) D) as (F & _ & R & _).
  split; assumption.
Qed.

Definition lens_ok (p : list cluster * list cluster) : Prop :=
  (Z.of_nat (length (fst p)) < 2 ^ 53)%Z /\ (Z.of_nat (length (snd p)) < 2 ^ 53)%Z.

Lemma mean_ed_fl_range_l : forall s t x,
  Forall lens_ok (C12_Model.zip s t) -> (Z.of_nat (length s) < 2 ^ 53)%Z ->
  mean_ed_fl true s t = Some x -> in01f x.
Proof.
  intros s t x Hl Hn H. unfold mean_ed_fl in H.
  destruct (Nat.eqb (length s) (length t)) eqn:E; [|discriminate]. apply Nat.eqb_eq in E.
  injection H as <-.
  set (ds := map (fun p => dist_fl (C12_Model.distance ed_flags true (fst p) (snd p))) (C12_Model.zip s t)).
  assert (Lds : length ds = length s) by (unfold ds; rewrite map_length; apply zip_length; exact E).
  assert (Fds : Forall in01f ds).
  { unfold ds. apply Forall_map. eapply Forall_impl; [|exact Hl]. intros [a b] [A B]. apply dist_fl_range; assumption. }
  destruct (tree_sum_range (length ds) ds Fds ltac:(lia)) as [A B].
  unfold of_nat. apply fdiv_by_count; [exact A|lia|].
  eapply Rle_trans; [exact B|]. apply IZR_le. lia.
Qed.

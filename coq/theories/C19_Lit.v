(** C19 literal model of the pair statistics of [train_bpe] (src/tokenization.rs:
    byte_pair_stats, max_byte_pair, replace_pair, update_stats and the merge loop).

    The statistics are what the code keeps:
      HashMap<BytePair, BytePairInfo { freq, words : HashMap<usize, usize> }>
    as an association list [pair -> (freq, list (word index, occ))].  Lookup /
    modification go to the first entry with the key ([get_mut]); an absent key is
    appended ([entry().or_insert()]).  A hash map has no order: wherever the code
    ITERATES a map ([max_byte_pair] over the statistics, [replace_pair] over
    [stats[pair].words]) the list may first be reordered arbitrarily at both levels
    ([sperm]); the theorems hold for every reordering.
    [usize] arithmetic: indices and lengths are [nat], every subtraction the code
    writes on them is [usub] (underflow = panic in the debug profile, wrap-around in
    release; modelled as the error [EPanicSub], which is proved unreachable, so the
    difference is immaterial), every indexing [w[i]] is [at_] (out of range =
    [EPanicIndex]), [saturating_sub] on frequencies / counters is the truncated
    [N.sub].  Additions on frequencies are unbounded (no 2^64 overflow modelled).
    Definitions only; proofs in C19_LitProofs.v. *)
From TU Require Import Base C19_Model.
From Coq Require Import Permutation.
Open Scope N_scope.

(** the ways [update_stats] / [replace_pair] can fail *)
Inductive err :=
| EPairNotFound   (* Err(anyhow!("pair not found in stats")) *)
| EWordNotFound   (* Err(anyhow!("word not found in pair stats")) *)
| EPanicKey       (* [stats[pair]] on an absent key *)
| EPanicIndex     (* slice index out of range *)
| EPanicSub       (* usize subtraction below 0 *)
| EFuel.          (* loop bound of the model exhausted (never: [no_fuel]) *)
Inductive result (A : Type) := Ok (a : A) | Err (e : err).
Arguments Ok {A} a.
Arguments Err {A} e.
Definition bind {A B} (r : result A) (f : A -> result B) : result B :=
  match r with Ok a => f a | Err e => Err e end.
Notation "x <- r ;; k" := (bind r (fun x => k)) (at level 61, r at next level, right associativity).

(** ** the two levels of hash maps *)
Definition occs := list (nat * N).          (* word index -> occurrences of the pair in that word *)
Definition info := (N * occs)%type.         (* BytePairInfo { freq, words } *)
Definition stats := list (pair * info).

Fixpoint occ_get (ws : occs) (idx : nat) : option N :=
  match ws with
  | [] => None
  | (j, o) :: r => if Nat.eqb j idx then Some o else occ_get r idx
  end.
(** [let occ = words.get_mut(idx)?; *occ = occ.saturating_sub(1)] *)
Fixpoint occ_dec (ws : occs) (idx : nat) : option occs :=
  match ws with
  | [] => None
  | (j, o) :: r => if Nat.eqb j idx then Some ((j, o - 1) :: r)
                   else match occ_dec r idx with Some r' => Some ((j, o) :: r') | None => None end
  end.
(** [*words.entry(idx).or_insert(0) += 1] = [words.entry(idx).and_modify(|c| *c += 1).or_insert(1)] *)
Fixpoint occ_bump (ws : occs) (idx : nat) : occs :=
  match ws with
  | [] => [(idx, 1)]
  | (j, o) :: r => if Nat.eqb j idx then (j, o + 1) :: r else (j, o) :: occ_bump r idx
  end.

Fixpoint st_get (st : stats) (q : pair) : option info :=
  match st with
  | [] => None
  | (q', i) :: r => if pair_eqb q' q then Some i else st_get r q
  end.
(** [stats.entry(q).and_modify(|info| { info.freq += k; bump idx }).or_insert({ freq: k, words: [(idx, 1)] })] *)
Fixpoint st_add (st : stats) (q : pair) (idx : nat) (k : N) : stats :=
  match st with
  | [] => [(q, (k, [(idx, 1)]))]
  | (q', (f, ws)) :: r => if pair_eqb q' q then (q', (f + k, occ_bump ws idx)) :: r
                          else (q', (f, ws)) :: st_add r q idx k
  end.
(** [let stat = stats.get_mut(q).ok_or("pair not found")?; stat.freq = stat.freq.saturating_sub(k);
     let occ = stat.words.get_mut(idx).ok_or("word not found")?; *occ = occ.saturating_sub(1)] *)
Fixpoint st_dec (st : stats) (q : pair) (idx : nat) (k : N) : result stats :=
  match st with
  | [] => Err EPairNotFound
  | (q', (f, ws)) :: r =>
    if pair_eqb q' q then
      match occ_dec ws idx with
      | Some ws' => Ok ((q', (f - k, ws')) :: r)
      | None => Err EWordNotFound
      end
    else r' <- st_dec r q idx k ;; Ok ((q', (f, ws)) :: r')
  end.
(** [let stat = stats.get_mut(pair).ok_or("pair not found")?; stat.freq = 0; all occ = 0] *)
Fixpoint st_zero (st : stats) (p : pair) : result stats :=
  match st with
  | [] => Err EPairNotFound
  | (q', (f, ws)) :: r =>
    if pair_eqb q' p then Ok ((q', (0, map (fun io => (fst io, 0)) ws)) :: r)
    else r' <- st_zero r p ;; Ok ((q', (f, ws)) :: r')
  end.

(** ** [byte_pair_stats]: for every word index, for i in 1..len: entry((w[i-1], w[i])) … *)
Definition add_word (st : stats) (idx : nat) (w : word) (k : N) : stats :=
  fold_left (fun st q => st_add st q idx k) (word_pairs w) st.
Fixpoint bps_from (idx : nat) (c : corpus) (st : stats) : stats :=
  match c with
  | [] => st
  | (w, k) :: r => bps_from (S idx) r (add_word st idx w k)
  end.
Definition byte_pair_stats_lit (c : corpus) : stats := bps_from 0 c [].

(** ** [max_byte_pair]: [iter().filter(freq > 0).max_by_key(freq)]; [max_by_key]
    keeps the LAST of several maximal elements in iteration order (its fold
    replaces the running best unless that is strictly greater).  The iteration
    order of the hash map is arbitrary, see [sperm]. *)
Definition max_step (best : option (pair * N)) (e : pair * info) : option (pair * N) :=
  let f := fst (snd e) in
  if 0 <? f then
    match best with
    | None => Some (fst e, f)
    | Some (_, fb) => if f <? fb then best else Some (fst e, f)
    end
  else best.
Definition max_byte_pair_lit (st : stats) : option pair :=
  match fold_left max_step st None with Some (p, _) => Some p | None => None end.

(** ** [replace_pair]: for (idx, occ) in &stats[pair].words { if occ < 1 continue; … } *)
Definition change := (nat * word * word * N)%type.   (* (idx, old word, new word, count) *)
Fixpoint replace_loop (p : pair) (ws : occs) (c : corpus) : result (corpus * list change) :=
  match ws with
  | [] => Ok (c, [])
  | (idx, o) :: r =>
    if o <? 1 then replace_loop p r c
    else match nth_error c idx with
         | None => Err EPanicIndex
         | Some (w, k) =>
           let nw := replace_in_word p w in
           cr <- replace_loop p r (set_nth c idx (nw, k)) ;;
           Ok (fst cr, (idx, w, nw, k) :: snd cr)
         end
  end.
Definition replace_pair_lit (c : corpus) (p : pair) (st : stats) : result (corpus * list change) :=
  match st_get st p with
  | None => Err EPanicKey
  | Some (_, ws) => replace_loop p ws c
  end.

(** ** [update_stats] *)
Definition usub (a b : nat) : result nat := if Nat.leb b a then Ok (a - b)%nat else Err EPanicSub.
Definition at_ (w : word) (i : nat) : result token :=
  match nth_error w i with Some t => Ok t | None => Err EPanicIndex end.
(** [slice.iter().find_position(f)] *)
Fixpoint find_pos (f : token -> bool) (l : word) : option nat :=
  match l with
  | [] => None
  | a :: r => if f a then Some O else match find_pos f r with Some n => Some (S n) | None => None end
  end.

(** body of the first while loop once [find_position] has put [i] on a token equal
    to [pair.first]; returns the next [i] and the statistics *)
Definition old_body (p : pair) (idx : nat) (k : N) (old : word) (i : nat) (st : stats) : result (nat * stats) :=
  let len := length old in
  (* if i == old_word.len() - 1 || old_word[i + 1] != pair.second { i += 1; continue; } *)
  l1 <- usub len 1 ;;
  c1 <- (if Nat.eqb i l1 then Ok true
         else x <- at_ old (i + 1) ;; Ok (negb (tok_eqb x (snd p)))) ;;
  if c1 then Ok ((i + 1)%nat, st)
  else
    (* if i > 0 { prev_pair = (old[i-1], old[i]) … } *)
    st1 <- (if Nat.ltb 0 i then
              j <- usub i 1 ;; a <- at_ old j ;; b <- at_ old i ;; st_dec st (a, b) idx k
            else Ok st) ;;
    (* if i < len - 2 && (old[i+2] != first || i >= len - 3 || old[i+3] != second) { next_pair = (old[i+1], old[i+2]) … } *)
    l2 <- usub len 2 ;;
    c2 <- (if Nat.ltb i l2 then
             x2 <- at_ old (i + 2) ;;
             if negb (tok_eqb x2 (fst p)) then Ok true
             else l3 <- usub len 3 ;;
                  if Nat.leb l3 i then Ok true
                  else x3 <- at_ old (i + 3) ;; Ok (negb (tok_eqb x3 (snd p)))
           else Ok false) ;;
    st2 <- (if c2 then a <- at_ old (i + 1) ;; b <- at_ old (i + 2) ;; st_dec st1 (a, b) idx k
            else Ok st1) ;;
    Ok ((i + 2)%nat, st2).                                             (* i += 2 *)

(** first while loop: walk the old word, decrement the neighbours of every match *)
Fixpoint old_loop (fuel : nat) (p : pair) (idx : nat) (k : N) (old : word) (i : nat) (st : stats) : result stats :=
  match fuel with
  | O => Err EFuel
  | S fuel' =>
    if Nat.ltb i (length old) then                                     (* while i < old_word.len() *)
      match find_pos (fun t => tok_eqb t (fst p)) (skipn i old) with   (* old_word[i..].iter().find_position(== first) *)
      | None => Ok st                                                  (* else break *)
      | Some start =>                                                  (* i += start *)
        r <- old_body p idx k old (i + start) st ;; old_loop fuel' p idx k old (fst r) (snd r)
      end
    else Ok st
  end.

(** body of the second while loop, [i] on a token equal to [merged] *)
Definition new_body (m : token) (idx : nat) (k : N) (nw : word) (i : nat) (st : stats) : result (nat * stats) :=
  let len := length nw in
  (* if i > 0 { prev_pair = (new[i-1], new[i]); entry(prev_pair)… } *)
  st1 <- (if Nat.ltb 0 i then
            j <- usub i 1 ;; a <- at_ nw j ;; b <- at_ nw i ;; Ok (st_add st (a, b) idx k)
          else Ok st) ;;
  (* if i < new_word.len() - 1 && new_word[i + 1] != merged { next_pair = (new[i], new[i+1]); entry(next_pair)… } *)
  l1 <- usub len 1 ;;
  c <- (if Nat.ltb i l1 then x <- at_ nw (i + 1) ;; Ok (negb (tok_eqb x m)) else Ok false) ;;
  st2 <- (if c then a <- at_ nw i ;; b <- at_ nw (i + 1) ;; Ok (st_add st1 (a, b) idx k)
          else Ok st1) ;;
  Ok ((i + 1)%nat, st2).                                               (* i += 1 *)

(** second while loop: walk the new word, increment the neighbours of every merged token *)
Fixpoint new_loop (fuel : nat) (m : token) (idx : nat) (k : N) (nw : word) (i : nat) (st : stats) : result stats :=
  match fuel with
  | O => Err EFuel
  | S fuel' =>
    if Nat.ltb i (length nw) then
      match find_pos (fun t => tok_eqb t m) (skipn i nw) with
      | None => Ok st
      | Some start =>
        r <- new_body m idx k nw (i + start) st ;; new_loop fuel' m idx k nw (fst r) (snd r)
      end
    else Ok st
  end.

(** one entry of [changes]; both loops start at [i = 0]; the loop bound [len + 1]
    is never reached *)
Definition one_change (p : pair) (st : stats) (ch : change) : result stats :=
  let '(idx, old, nw, k) := ch in
  st1 <- old_loop (S (length old)) p idx k old 0 st ;;
  new_loop (S (length nw)) (merge p) idx k nw 0 st1.
Fixpoint changes_loop (p : pair) (st : stats) (chs : list change) : result stats :=
  match chs with
  | [] => Ok st
  | ch :: r => st' <- one_change p st ch ;; changes_loop p st' r
  end.
Definition update_stats_lit (st : stats) (p : pair) (chs : list change) : result stats :=
  st0 <- st_zero st p ;; changes_loop p st0 chs.

(** the effect of the two loops, stated with the structural scans of C19_Model.v
    ([scans_lit]): the decrements of [old_scan] in order, each through [get_mut]
    with its two error exits, then the increments of [new_scan] *)
Fixpoint dec_all_lit (l : list pair) (idx : nat) (k : N) (st : stats) : result stats :=
  match l with
  | [] => Ok st
  | q :: r => st' <- st_dec st q idx k ;; dec_all_lit r idx k st'
  end.
Definition add_all_lit (l : list pair) (idx : nat) (k : N) (st : stats) : stats :=
  fold_left (fun st q => st_add st q idx k) l st.
Definition ch_idx (ch : change) : nat := fst (fst (fst ch)).

(** ** iteration order of a hash map: the same map, entries in another order, and
    within every entry the occurrence list in another order *)
Definition same_entry (e e' : pair * info) : Prop :=
  fst e = fst e' /\ fst (snd e) = fst (snd e') /\ Permutation (snd (snd e)) (snd (snd e')).
Definition sperm (st st' : stats) : Prop := exists st1, Permutation st st1 /\ Forall2 same_entry st1 st'.

(** ** the loop of [train_bpe] on (vocabulary, statistics):
    for merge_idx in 0..num_merges { let Some(pair) = max_byte_pair(&stats) else break;
      let changes = replace_pair(&mut vocab, &pair, &stats); update_stats(&mut stats, &pair, &changes)?; … }
    An outcome is the list of merged pairs, or the failure that ended the run. *)
Inductive outcome := Done (ps : list pair) | Failed (e : err).
Definition ocons (p : pair) (o : outcome) : outcome :=
  match o with Done ps => Done (p :: ps) | Failed e => Failed e end.
Inductive LRun : corpus -> stats -> nat -> outcome -> Prop :=
| LRun_budget : forall c st, LRun c st 0 (Done [])
| LRun_none : forall c st st1 k, sperm st st1 -> max_byte_pair_lit st1 = None -> LRun c st (S k) (Done [])
| LRun_panic : forall c st st1 k p e, sperm st st1 -> max_byte_pair_lit st1 = Some p ->
    replace_pair_lit c p st1 = Err e -> LRun c st (S k) (Failed e)
| LRun_err : forall c st st1 k p c' chs e, sperm st st1 -> max_byte_pair_lit st1 = Some p ->
    replace_pair_lit c p st1 = Ok (c', chs) -> update_stats_lit st1 p chs = Err e -> LRun c st (S k) (Failed e)
| LRun_step : forall c st st1 k p c' chs st' o, sperm st st1 -> max_byte_pair_lit st1 = Some p ->
    replace_pair_lit c p st1 = Ok (c', chs) -> update_stats_lit st1 p chs = Ok st' ->
    LRun c' st' k o -> LRun c st (S k) (ocons p o).

(** one deterministic instance (list order as iteration order) *)
Fixpoint train_lit (k : nat) (c : corpus) (st : stats) : outcome :=
  match k with
  | O => Done []
  | S k' =>
    match max_byte_pair_lit st with
    | None => Done []
    | Some p =>
      match replace_pair_lit c p st with
      | Err e => Failed e
      | Ok (c', chs) =>
        match update_stats_lit st p chs with
        | Err e => Failed e
        | Ok st' => ocons p (train_lit k' c' st')
        end
      end
    end
  end.

(** ** abstraction and representation invariant *)
Definition abs_freq (st : stats) (q : pair) : N :=
  match st_get st q with Some (f, _) => f | None => 0 end.
Definition abs_occ (st : stats) (q : pair) (idx : nat) : N :=
  match st_get st q with
  | Some (_, ws) => match occ_get ws idx with Some o => o | None => 0 end
  | None => 0
  end.
(** occurrences of [q] in word number [idx], as [byte_pair_stats] counts them *)
Definition wcount (c : corpus) (q : pair) (idx : nat) : N :=
  match nth_error c idx with Some (w, _) => count_pair q (word_pairs w) | None => 0 end.
(** keys distinct at both levels, word indices in range, every frequency the
    recount of the vocabulary (absent = 0), every occurrence counter the number of
    occurrences in that word (absent = 0) *)
Definition Rep (c : corpus) (st : stats) : Prop :=
  NoDup (map fst st) /\
  (forall q f ws, In (q, (f, ws)) st ->
     NoDup (map fst ws) /\ forall idx o, In (idx, o) ws -> (idx < length c)%nat) /\
  (forall q, abs_freq st q = pair_freq c q) /\
  (forall q idx, abs_occ st q idx = wcount c q idx).

(** ** replay of an observed training (correspondence): the vocabulary order the
    implementation built, then per merge the pair it chose and the vocabulary and
    statistics it held after [update_stats].  The literal model, started on the
    observed vocabulary order and driven by the observed pairs, must reproduce
    every observed state exactly (as finite maps), every chosen pair must be
    positive and maximal in the model's statistics, and a trace shorter than the
    budget must end in statistics without a positive pair. *)
Definition occs_sub (a b : occs) : bool :=
  forallb (fun io => match occ_get b (fst io) with Some o => N.eqb o (snd io) | None => false end) a.
Definition stats_sub (a b : stats) : bool :=
  forallb (fun e => match st_get b (fst e) with
                    | Some (f, ws) => N.eqb f (fst (snd e)) && Nat.eqb (length ws) (length (snd (snd e)))
                                      && occs_sub (snd (snd e)) ws && occs_sub ws (snd (snd e))
                    | None => false
                    end) a.
Definition stats_eqb (a b : stats) : bool :=
  Nat.eqb (length a) (length b) && stats_sub a b && stats_sub b a.

Fixpoint word_eqb (a b : word) : bool :=
  match a, b with
  | [], [] => true
  | x :: a', y :: b' => tok_eqb x y && word_eqb a' b'
  | _, _ => false
  end.
Fixpoint corpus_eqb (a b : corpus) : bool :=
  match a, b with
  | [], [] => true
  | (w, k) :: a', (w', k') :: b' => word_eqb w w' && N.eqb k k' && corpus_eqb a' b'
  | _, _ => false
  end.
Definition corpus_sub (a b : corpus) : bool :=
  forallb (fun wk => existsb (fun wk' => word_eqb (fst wk) (fst wk') && N.eqb (snd wk) (snd wk')) b) a.
(** same entries, other order (the vocabulary comes out of a hash map) *)
Definition corpus_perm (a b : corpus) : bool :=
  Nat.eqb (length a) (length b) && corpus_sub a b && corpus_sub b a.

Definition is_max (st : stats) (p : pair) : bool :=
  match st_get st p with
  | Some (f, _) => (0 <? f) && forallb (fun e => fst (snd e) <=? f) st
  | None => false
  end.

(** observed step: (chosen pair, vocabulary after, statistics after) *)
Definition ostep := (pair * corpus * stats)%type.
Fixpoint replay (k : nat) (c : corpus) (st : stats) (steps : list ostep) : bool :=
  match steps with
  | [] => match k with O => true | S _ => match max_byte_pair_lit st with None => true | Some _ => false end end
  | (p, oc, ost) :: r =>
    match k with
    | O => false
    | S k' =>
      is_max st p &&
      match replace_pair_lit c p st with
      | Err _ => false
      | Ok (c', chs) =>
        match update_stats_lit st p chs with
        | Err _ => false
        | Ok st' => corpus_eqb c' oc && stats_eqb st' ost && replay k' c' st' r
        end
      end
    end
  end.

(** val glue: the trace is the sixth field of the implementation output,
    (vocab stats steps); vocab = ((word count) …), word = list of tokens;
    stats = (((first second) freq ((idx occ) …)) …); step = (first second vocab stats) *)
Definition v_word (v : val) : word := v_list (v_list v_n) v.
Definition v_corpus (v : val) : corpus := v_list (fun e => (v_word (v_nth 0 e), v_n (v_nth 1 e))) v.
Definition v_pair (v : val) : pair := (v_list v_n (v_nth 0 v), v_list v_n (v_nth 1 v)).
Definition v_occs (v : val) : occs := v_list (fun e => (v_nat (v_nth 0 e), v_n (v_nth 1 e))) v.
Definition v_stats (v : val) : stats :=
  v_list (fun e => (v_pair (v_nth 0 e), (v_n (v_nth 1 e), v_occs (v_nth 2 e)))) v.
Definition v_step (v : val) : ostep :=
  ((v_list v_n (v_nth 0 v), v_list v_n (v_nth 1 v)), v_corpus (v_nth 2 v), v_stats (v_nth 3 v)).

Definition trace_shape (t : val) : bool :=
  match t with L [L _; L _; L _] => true | _ => false end.

(** [v] the input, [out] the implementation output with its trace *)
Definition trace_ok (v out : val) : bool :=
  let t := v_nth 5 out in
  let c0 := v_corpus (v_nth 0 t) in
  let st0 := v_stats (v_nth 1 t) in
  let steps := v_list v_step (v_nth 2 t) in
  trace_shape t
  (* the vocabulary built by the implementation is the counted corpus, in some order *)
  && corpus_perm c0 (in_corpus v)
  (* initial statistics *)
  && stats_eqb (byte_pair_stats_lit c0) st0
  (* every merge *)
  && replay (num_merges v) c0 (byte_pair_stats_lit c0) steps
  (* the table written is the list of merged pairs *)
  && tokl_eqb (out_entries out) (map (fun s => merge (fst (fst s))) steps).

Definition agree_lit (v m i : val) : bool := agree_C19 v m i && trace_ok v i.

(** C01 — injectivity corollaries of the round-trip theorems: "lossless" read as "two different texts
    never get the same encoding". Proofs only; the statements are pinned in [C01_Props.v]. *)
From TU Require Import Base C01_Model C01_Proofs C01_Check.
Open Scope N_scope.

Lemma utf8s_injective_l : forall s t,
  scalars s = true -> scalars t = true -> utf8s s = utf8s t -> s = t.
Proof.
  intros s t Hs Ht E. pose proof (utf8_decode_utf8s s Hs) as A.
  rewrite E, (utf8_decode_utf8s t Ht) in A. injection A as A. symmetry. exact A.
Qed.

Lemma byte_tokenize_injective_l : forall tokens padto pad prefix suffix b s t ign ign' ids,
  byte_base tokens padto pad prefix suffix = Some b ->
  Forall (fun t => t <> []) (b_sv b) -> Forall (fun t => scalars t = true) (b_sv b) ->
  scalars s = true -> scalars t = true ->
  byte_tokenize b s ign = Some ids -> byte_tokenize b t ign' = Some ids -> s = t.
Proof.
  intros tokens padto pad prefix suffix b s t ign ign' ids Hb Hne Hsc Hs Ht Es Et.
  destruct (byte_roundtrip_l _ _ _ _ _ _ s ign Hb Hne Hsc Hs) as [i1 [T1 [_ D1]]].
  destruct (byte_roundtrip_l _ _ _ _ _ _ t ign' Hb Hne Hsc Ht) as [i2 [T2 [_ D2]]].
  rewrite Es in T1. injection T1 as <-. rewrite Et in T2. injection T2 as <-.
  rewrite D1 in D2. injection D2 as D2. exact D2.
Qed.

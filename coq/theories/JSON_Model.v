(** JSON: the text -> value parser of serde_json 1.0.151 as the loader uses it
    ([serde_json::from_str::<Value>], features default + std: no arbitrary_precision, no float_roundtrip,
    no preserve_order, no unbounded_depth), the value -> text printer ([serde_json::to_string]), and the
    mapping of a parsed line to a training item (src/data/loading.rs:119-165).

    Sources followed: serde_json/src/de.rs ([deserialize_any], [parse_whitespace], [parse_ident],
    [parse_integer], [parse_number], [parse_decimal], [parse_exponent], [f64_from_parts], [parse_long_integer],
    [parse_decimal_overflow], [parse_exponent_overflow], [SeqAccess], [MapAccess], [end_seq], [end_map], [end],
    [check_recursion!] with remaining_depth = 128), src/read.rs ([SliceRead::parse_str_bytes] with validate = true,
    [parse_escape], [parse_unicode_escape], [decode_four_hex_digits]), src/value/de.rs ([ValueVisitor]),
    src/map.rs (BTreeMap: a later duplicate key replaces the earlier value), src/ser.rs ([format_escaped_str],
    the ESCAPE table).

    A text is a list of code points ([str]); every structural character of JSON is ASCII, and the byte-level
    tests of the reader ([ch < 0x20], four hex digits) give the same verdict on the UTF-8 bytes and on the
    code points (a non-ASCII character consists of bytes >= 0x80, which are neither control characters nor
    hex digits nor delimiters).  Definitions only. *)
From TU Require Import Base.
Open Scope N_scope.

(** * Characters *)
Definition is_ws_json (c : cp) : bool := (c =? 32) || (c =? 10) || (c =? 9) || (c =? 13).
Fixpoint skip_ws (s : str) : str :=
  match s with
  | c :: r => if is_ws_json c then skip_ws r else s
  | [] => []
  end.
Definition is_digit (c : cp) : bool := (48 <=? c) && (c <=? 57).

Fixpoint span (p : cp -> bool) (s : str) : str * str :=
  match s with
  | c :: r => if p c then let (a, b) := span p r in (c :: a, b) else ([], s)
  | [] => ([], [])
  end.

(** * Numbers *)
(** the lexeme, as the digits that were read (characters '0'..'9') *)
Record jnum := mk_jnum {
  n_neg : bool;                          (* leading '-' *)
  n_int : list cp;                       (* integer digits *)
  n_frac : option (list cp);             (* digits after '.' *)
  n_exp : option (bool * list cp)%type      (* exponent: negative?, digits *)
}.

Definition is_nil_s (l : list cp) : bool := match l with [] => true | _ => false end.

(** grammar: an optional minus, then 0 or a digit 1-9 followed by digits, then optionally a dot and one or more
    digits, then optionally e or E, an optional sign and one or more digits; maximal munch; "0" directly
    followed by a digit, "-" / "." / "e" without a digit are errors (they are in serde_json, whatever follows) *)
Definition lex_frac (s : str) : option (option (list cp) * str) :=
  match s with
  | c :: r =>
      if c =? 46 then
        let (fs, r') := span is_digit r in
        if is_nil_s fs then None else Some (Some fs, r')
      else Some (None, s)
  | [] => Some (None, s)
  end.

Definition lex_exp (s : str) : option (option (bool * list cp) * str) :=
  match s with
  | c :: r =>
      if (c =? 101) || (c =? 69) then
        let (eneg, r1) := match r with
                          | x :: r' => if x =? 43 then (false, r') else if x =? 45 then (true, r') else (false, r)
                          | [] => (false, r)
                          end in
        let (es, r2) := span is_digit r1 in
        if is_nil_s es then None else Some (Some (eneg, es), r2)
      else Some (None, s)
  | [] => Some (None, s)
  end.

Definition lex_number (s : str) : option (jnum * str) :=
  let (neg, s1) := match s with
                   | c :: r => if c =? 45 then (true, r) else (false, s)
                   | [] => (false, s)
                   end in
  let (ds, s2) := span is_digit s1 in
  match ds with
  | [] => None
  | d0 :: dr =>
      if (d0 =? 48) && negb (is_nil_s dr) then None
      else match lex_frac s2 with
           | None => None
           | Some (fr, s3) =>
               match lex_exp s3 with
               | None => None
               | Some (ex, s4) => Some (mk_jnum neg ds fr ex, s4)
               end
           end
  end.

(** ** the range check: serde_json errs ("number out of range") instead of producing an infinity *)
Definition U64_MAX : N := 18446744073709551615.
Definition I32_MAX : N := 2147483647.
(** overflow!(a * 10 + d, c) *)
Definition ovf (a d c : N) : bool := (c / 10 <=? a) && ((c / 10 <? a) || (c mod 10 <? d)).

(** parse_integer: the significand while it fits a u64; then parse_long_integer counts the remaining
    integer digits (the overflowing one included) as a decimal exponent *)
Fixpoint int_digits (ds : list cp) (sig : N) : N * nat :=
  match ds with
  | [] => (sig, O)
  | c :: r => let d := c - 48 in
              if ovf sig d U64_MAX then (sig, length ds) else int_digits r (sig * 10 + d)
  end.

(** parse_decimal: further digits go into the significand while it fits; the first one that does not and
    everything after it is ignored (parse_decimal_overflow) *)
Fixpoint frac_digits (ds : list cp) (sig : N) (e : Z) : N * Z :=
  match ds with
  | [] => (sig, e)
  | c :: r => let d := c - 48 in
              if ovf sig d U64_MAX then (sig, e) else frac_digits r (sig * 10 + d) (e - 1)%Z
  end.

(** parse_exponent: [None] = the exponent does not fit an i32 *)
Fixpoint exp_digits (ds : list cp) (e : N) : option N :=
  match ds with
  | [] => Some e
  | c :: r => let d := c - 48 in
              if ovf e d I32_MAX then None else exp_digits r (e * 10 + d)
  end.

(** i32 saturating_add / saturating_sub *)
Definition sat_i32 (z : Z) : Z := Z.max (-2147483648) (Z.min 2147483647 z).

(** binary64, as much as the check needs: the values involved are positive integers.
    [rne n]: n rounded to 53 significant bits, ties to even (u64 as f64; a correctly rounded decimal
    literal 1e<k>; the rounding of an exact product). *)
Definition rne (n : N) : N :=
  let k := N.size n in
  if k <=? 53 then n
  else let sh := k - 53 in
       let q := N.shiftr n sh in
       let r := n - N.shiftl q sh in
       let half := N.shiftl 1 (sh - 1) in
       let q' := if (half <? r) || ((r =? half) && N.odd q) then q + 1 else q in
       N.shiftl q' sh.
Definition is_inf (n : N) : bool := 2 ^ 1024 <=? n.

(** f64_from_parts(significand, exponent) returns Ok *)
Definition f64_ok (sig : N) (e : Z) : bool :=
  if sig =? 0 then true
  else if (e <? 0)%Z then true
  else if (308 <? e)%Z then false
  else negb (is_inf (rne (rne sig * rne (10 ^ Z.to_N e)))).

Definition number_ok (n : jnum) : bool :=
  let (sig, k) := int_digits (n_int n) 0 in
  match n_frac n, n_exp n with
  | None, None => match k with O => true | _ => f64_ok sig (Z.of_nat k) end
  | fr, ex =>
      let (sig', e) := match fr with
                       | Some fs => frac_digits fs sig (Z.of_nat k)
                       | None => (sig, Z.of_nat k)
                       end in
      match ex with
      | None => f64_ok sig' e
      | Some (eneg, es) =>
          match exp_digits es 0 with
          | None => (sig' =? 0) || eneg                     (* parse_exponent_overflow *)
          | Some x => f64_ok sig' (sat_i32 (if eneg then e - Z.of_N x else e + Z.of_N x))
          end
      end
  end.

(** * Strings *)
Definition hex_val (c : cp) : option N :=
  if (48 <=? c) && (c <=? 57) then Some (c - 48)
  else if (65 <=? c) && (c <=? 70) then Some (c - 55)
  else if (97 <=? c) && (c <=? 102) then Some (c - 87)
  else None.
Definition hex4 (a b c d : cp) : option N :=
  match hex_val a, hex_val b, hex_val c, hex_val d with
  | Some x, Some y, Some z, Some w => Some (x * 4096 + y * 256 + z * 16 + w)
  | _, _, _, _ => None
  end.
Definition simple_escape (e : cp) : option cp :=
  if e =? 34 then Some 34 else if e =? 92 then Some 92 else if e =? 47 then Some 47
  else if e =? 98 then Some 8 else if e =? 102 then Some 12 else if e =? 110 then Some 10
  else if e =? 114 then Some 13 else if e =? 116 then Some 9 else None.

Definition ocons (c : cp) (o : option (str * str)) : option (str * str) :=
  match o with Some (t, r) => Some (c :: t, r) | None => None end.

(** after the opening quote: (content, rest after the closing quote) *)
Fixpoint pstr (s : str) : option (str * str) :=
  match s with
  | [] => None                                               (* EofWhileParsingString *)
  | c :: r =>
    if c =? 34 then Some ([], r)
    else if c =? 92 then
      match r with
      | [] => None
      | e :: r1 =>
        if e =? 117 then
          match r1 with
          | h1 :: h2 :: h3 :: h4 :: r5 =>
            match hex4 h1 h2 h3 h4 with
            | None => None                                   (* InvalidEscape *)
            | Some n =>
              if (56320 <=? n) && (n <=? 57343) then None    (* a lone trailing surrogate *)
              else if (55296 <=? n) && (n <=? 56319) then    (* leading surrogate: \uDC00..\uDFFF must follow *)
                match r5 with
                | b1 :: u1 :: g1 :: g2 :: g3 :: g4 :: r11 =>
                  if (b1 =? 92) && (u1 =? 117) then
                    match hex4 g1 g2 g3 g4 with
                    | None => None
                    | Some n2 =>
                      if (56320 <=? n2) && (n2 <=? 57343)
                      then ocons ((n - 55296) * 1024 + (n2 - 56320) + 65536) (pstr r11)
                      else None
                    end
                  else None
                | _ => None
                end
              else ocons n (pstr r5)
            end
          | _ => None
          end
        else match simple_escape e with
             | Some x => ocons x (pstr r1)
             | None => None                                  (* InvalidEscape *)
             end
      end
    else if c <? 32 then None                                (* ControlCharacterWhileParsingString *)
    else ocons c (pstr r)
  end.

(** * Values *)
Inductive jvalue :=
| JNull
| JBool (b : bool)
| JNum (n : jnum)
| JStr (s : str)
| JArr (l : list jvalue)
| JObj (m : list (str * jvalue)).       (* members in the order of the text, duplicates kept *)

Inductive pres (A : Type) := POk (a : A) | PErr | PFuel.
Arguments POk {A} a.
Arguments PErr {A}.
Arguments PFuel {A}.

Definition pbind {A B} (x : pres A) (f : A -> pres B) : pres B :=
  match x with POk a => f a | PErr => PErr | PFuel => PFuel end.

Fixpoint plit (lit : str) (v : jvalue) (s : str) : pres (jvalue * str) :=
  match lit with
  | [] => POk (v, s)
  | l :: lit' => match s with
                 | c :: r => if c =? l then plit lit' v r else PErr
                 | [] => PErr
                 end
  end.

Section Loops.
Variable pv : str -> pres (jvalue * str).

(** SeqAccess::next_element + end_seq; [first]: no element read yet; the text is what follows '['
    (resp. the previous element); the result is the elements and the text after ']' *)
Fixpoint parr (fuel : nat) (first : bool) (s : str) : pres (list jvalue * str) :=
  match fuel with
  | O => PFuel
  | S f =>
    match skip_ws s with
    | [] => PErr                                              (* EofWhileParsingList *)
    | c :: r =>
      if c =? 93 then POk ([], r)
      else if first then
        pbind (pv (c :: r)) (fun vs => pbind (parr f false (snd vs)) (fun ls => POk (fst vs :: fst ls, snd ls)))
      else if c =? 44 then
        match skip_ws r with
        | [] => PErr
        | c2 :: r2 =>
          if c2 =? 93 then PErr                               (* TrailingComma *)
          else pbind (pv (c2 :: r2)) (fun vs => pbind (parr f false (snd vs)) (fun ls => POk (fst vs :: fst ls, snd ls)))
        end
      else PErr                                               (* ExpectedListCommaOrEnd *)
    end
  end.

(** one member after the opening quote of its key: key, ':', value *)
Definition pmember (r : str) : pres ((str * jvalue) * str) :=
  match pstr r with
  | None => PErr
  | Some (k, r1) =>
    match skip_ws r1 with
    | c :: r2 => if c =? 58 then pbind (pv r2) (fun vs => POk ((k, fst vs), snd vs)) else PErr
    | [] => PErr
    end
  end.

(** MapAccess::next_key / next_value + end_map *)
Fixpoint pobj (fuel : nat) (first : bool) (s : str) : pres (list (str * jvalue) * str) :=
  match fuel with
  | O => PFuel
  | S f =>
    match skip_ws s with
    | [] => PErr
    | c :: r =>
      if c =? 125 then POk ([], r)
      else if first then
        if c =? 34
        then pbind (pmember r) (fun ms => pbind (pobj f false (snd ms)) (fun ls => POk (fst ms :: fst ls, snd ls)))
        else PErr                                             (* KeyMustBeAString *)
      else if c =? 44 then
        match skip_ws r with
        | [] => PErr
        | c2 :: r2 =>
          if c2 =? 34
          then pbind (pmember r2) (fun ms => pbind (pobj f false (snd ms)) (fun ls => POk (fst ms :: fst ls, snd ls)))
          else PErr                                           (* TrailingComma / KeyMustBeAString *)
        end
      else PErr                                               (* ExpectedObjectCommaOrEnd *)
    end
  end.
End Loops.

(** [deserialize_any] for [Value].  [d] = remaining_depth - 1: '[' and '{' decrement remaining_depth and fail
    when it reaches 0.  The loops' fuel is the length of the text they work on (adequate: JSON_Proofs.pv_fuel). *)
Fixpoint pv (d : nat) (s : str) : pres (jvalue * str) :=
  match skip_ws s with
  | [] => PErr                                                (* EofWhileParsingValue *)
  | c :: r =>
    if c =? 110 then plit [117; 108; 108] JNull r
    else if c =? 116 then plit [114; 117; 101] (JBool true) r
    else if c =? 102 then plit [97; 108; 115; 101] (JBool false) r
    else if c =? 34 then
      match pstr r with Some (t, r') => POk (JStr t, r') | None => PErr end
    else if c =? 91 then
      match d with
      | O => PErr                                             (* RecursionLimitExceeded *)
      | S d' => pbind (parr (pv d') (S (length r)) true r) (fun ls => POk (JArr (fst ls), snd ls))
      end
    else if c =? 123 then
      match d with
      | O => PErr
      | S d' => pbind (pobj (pv d') (S (length r)) true r) (fun ls => POk (JObj (fst ls), snd ls))
      end
    else if (c =? 45) || is_digit c then
      match lex_number (c :: r) with
      | Some (n, r') => if number_ok n then POk (JNum n, r') else PErr
      | None => PErr
      end
    else PErr                                                 (* ExpectedSomeValue *)
  end.

Definition DEPTH : nat := 127.

(** serde_json::from_str::<Value>: one value, then only whitespace ([Deserializer::end]) *)
Definition json_parse_r (s : str) : pres jvalue :=
  pbind (pv DEPTH s) (fun vs => match skip_ws (snd vs) with [] => POk (fst vs) | _ => PErr end).
Definition json_parse (s : str) : option jvalue :=
  match json_parse_r s with POk v => Some v | _ => None end.

(** * Printing (serde_json::to_string: compact) *)
Definition hex_digit (n : N) : cp := if n <? 10 then 48 + n else 87 + n.
Definition esc_char (c : cp) : str :=
  if c =? 34 then [92; 34] else if c =? 92 then [92; 92]
  else if c =? 8 then [92; 98] else if c =? 9 then [92; 116] else if c =? 10 then [92; 110]
  else if c =? 12 then [92; 102] else if c =? 13 then [92; 114]
  else if c <? 32 then [92; 117; 48; 48; hex_digit (c / 16); hex_digit (c mod 16)]
  else [c].
Definition json_string (s : str) : str := 34 :: flat_map esc_char s ++ [34].

Definition print_num (n : jnum) : str :=
  (if n_neg n then [45] else []) ++ n_int n
  ++ (match n_frac n with Some fs => 46 :: fs | None => [] end)
  ++ (match n_exp n with Some (eneg, es) => 101 :: (if eneg then [45] else []) ++ es | None => [] end).

Fixpoint print (v : jvalue) : str :=
  match v with
  | JNull => [110; 117; 108; 108]
  | JBool true => [116; 114; 117; 101]
  | JBool false => [102; 97; 108; 115; 101]
  | JNum n => print_num n
  | JStr s => json_string s
  | JArr l =>
      91 :: (fix pl (l : list jvalue) : str :=
               match l with
               | [] => []
               | [x] => print x
               | x :: l' => print x ++ 44 :: pl l'
               end) l ++ [93]
  | JObj m =>
      123 :: (fix pm (m : list (str * jvalue)) : str :=
                match m with
                | [] => []
                | [(k, x)] => json_string k ++ 58 :: print x
                | (k, x) :: m' => json_string k ++ 58 :: print x ++ 44 :: pm m'
                end) m ++ [125]
  end.

(** nesting depth: 0 for scalars *)
Fixpoint depth (v : jvalue) : nat :=
  match v with
  | JArr l => S (fold_right (fun x a => Nat.max (depth x) a) O l)
  | JObj m => S (fold_right (fun kx a => Nat.max (depth (snd kx)) a) O m)
  | _ => O
  end.

(** well-formed number lexemes: what [lex_number] produces *)
Definition digits (l : list cp) : bool := forallb is_digit l.
Definition num_wf (n : jnum) : bool :=
  digits (n_int n) && negb (is_nil_s (n_int n))
  && match n_int n with d0 :: _ :: _ => negb (d0 =? 48) | _ => true end
  && match n_frac n with Some fs => digits fs && negb (is_nil_s fs) | None => true end
  && match n_exp n with Some (_, es) => digits es && negb (is_nil_s es) | None => true end
  && number_ok n.
Fixpoint wf (v : jvalue) : bool :=
  match v with
  | JNum n => num_wf n
  | JArr l => forallb wf l
  | JObj m => forallb (fun kx => wf (snd kx)) m
  | _ => true
  end.

(** * serde_json::Map (BTreeMap<String, Value>) *)
Fixpoint str_ltb (a b : str) : bool :=                       (* String's Ord: bytewise = by code point *)
  match a, b with
  | _, [] => false
  | [], _ :: _ => true
  | x :: a', y :: b' => (x <? y) || ((x =? y) && str_ltb a' b')
  end.
Definition str_eqb : str -> str -> bool := nlist_eqb.

Section Map.
Context {V : Type}.
(** insert: replaces the value of an equal key, otherwise inserts in key order *)
Fixpoint map_insert (k : str) (v : V) (m : list (str * V)) : list (str * V) :=
  match m with
  | [] => [(k, v)]
  | (k', v') :: m' =>
      if str_eqb k k' then (k, v) :: m'
      else if str_ltb k k' then (k, v) :: m
      else (k', v') :: map_insert k v m'
  end.
Definition map_of (members : list (str * V)) : list (str * V) :=
  fold_left (fun m kv => map_insert (fst kv) (snd kv) m) members [].
Fixpoint map_get (k : str) (m : list (str * V)) : option V :=
  match m with
  | [] => None
  | (k', v') :: m' => if str_eqb k k' then Some v' else map_get k m'
  end.
(** the last member with that key, in the order of the text *)
Fixpoint find_last (k : str) (members : list (str * V)) : option V :=
  match members with
  | [] => None
  | (k', v') :: m' => match find_last k m' with
                      | Some v => Some v
                      | None => if str_eqb k k' then Some v' else None
                      end
  end.
End Map.

(** * A line of a jsonl file -> a training item (train_data_generator_from_jsonl) *)
Inductive item_err := EParse | ENotObject | ENoInput | EInputType | ETargetType.
Inductive item_res := IErr (e : item_err) | IItem (input : str) (target : option str).

Definition K_INPUT : str := [105; 110; 112; 117; 116].
Definition K_TARGET : str := [116; 97; 114; 103; 101; 116].

Definition item_of_value (v : jvalue) : item_res :=
  match v with
  | JObj members =>
      let m := map_of members in
      match map_get K_INPUT m with
      | None => IErr ENoInput
      | Some (JStr i) =>
          match map_get K_TARGET m with
          | None => IItem i None
          | Some (JStr t) => IItem i (Some t)
          | Some _ => IErr ETargetType
          end
      | Some _ => IErr EInputType
      end
  | _ => IErr ENotObject
  end.

Definition item_of_line (s : str) : item_res :=
  match json_parse s with
  | Some v => item_of_value v
  | None => IErr EParse
  end.

(** TrainData::new(input, target): the target defaults to the input *)
Definition train_data (input : str) (target : option str) : str * str :=
  (input, match target with Some t => t | None => input end).

(** the line a writer produces for an item (serde_json::to_string of the object; keys in map order) *)
Definition value_of_item (input : str) (target : option str) : jvalue :=
  JObj ((K_INPUT, JStr input) :: match target with Some t => [(K_TARGET, JStr t)] | None => [] end).
Definition line_of (input : str) (target : option str) : str := print (value_of_item input target).

(** * json.dumps of Python (ensure_ascii = True, separators ", " and ": "): the other common writer *)
Definition hex4_digits (n : N) : str :=
  [hex_digit (n / 4096); hex_digit ((n / 256) mod 16); hex_digit ((n / 16) mod 16); hex_digit (n mod 16)].
Definition esc_char_ascii (c : cp) : str :=
  if c =? 34 then [92; 34] else if c =? 92 then [92; 92]
  else if c =? 8 then [92; 98] else if c =? 9 then [92; 116] else if c =? 10 then [92; 110]
  else if c =? 12 then [92; 102] else if c =? 13 then [92; 114]
  else if (32 <=? c) && (c <? 127) then [c]
  else if c <? 65536 then 92 :: 117 :: hex4_digits c
  else let v := c - 65536 in
       92 :: 117 :: hex4_digits (55296 + v / 1024) ++ 92 :: 117 :: hex4_digits (56320 + v mod 1024).
Definition json_string_ascii (s : str) : str := 34 :: flat_map esc_char_ascii s ++ [34].
Definition line_of_py (input : str) (target : option str) : str :=
  [123] ++ json_string_ascii K_INPUT ++ [58; 32] ++ json_string_ascii input
  ++ (match target with
      | Some t => [44; 32] ++ json_string_ascii K_TARGET ++ [58; 32] ++ json_string_ascii t
      | None => []
      end) ++ [125].

(** C12 — pinned statements about the binary64 model (C12_Float.v): the f64 that [edit::distance],
    [edit::prefix_distance] and [edit::distances] return, bit for bit.  Nothing but statements, [exact],
    and assumption audits.  These theorems go through Flocq's theory of [round] / [B2R] and therefore
    depend on the axioms of Coq's real numbers (allow-listed by exact name in props/C12.json); the 33
    theorems of C12_Props.v do not and stay closed under the global context.

    [distance_fl fl nm a b] = [q_fl (distance fl nm a b)] = [(dist as f64) / (divisor as f64)] for the
    unreduced fraction of the rational model; [f64] = Flocq [binary_float 53 1024], round to nearest even.
    [len_ok a b]: |a| + |b| <= 2^53, so that [usize as f64] is exact. *)
From Coq Require Import ZArith List Bool QArith Qreals Reals Lia.
From Flocq Require Import Core IEEE754.BinarySingleNaN.
From TU Require Import Base C12_Model C12_Proofs C12_Float C12_FloatBase C12_FloatProofs C12_FloatCheck.
Import ListNotations.

(** (1) range: the normalised distance is a finite double in [0,2], in [0,1] when whitespace may be
    substituted (sid = false; also as the float comparison [x <= 1.0]); the normalised prefix distance is a
    finite double in [0,1]. *)
Theorem norm_fl_range : forall fl a b, len_ok a b ->
  is_finite (distance_fl fl true a b) = true /\
  (0 <= B2R (distance_fl fl true a b) <= 2)%R /\
  (sid fl = false ->
   (B2R (distance_fl fl true a b) <= 1)%R /\ fle64 (distance_fl fl true a b) f64_one = true) /\
  is_finite (prefix_distance_fl fl true a b) = true /\
  (0 <= B2R (prefix_distance_fl fl true a b) <= 1)%R.
Proof. exact norm_fl_range_l. Qed.
Print Assumptions norm_fl_range.

(** (2) the result is exactly +0.0 (sign bit included) iff the texts are equal — normalised or not, two
    empty texts included *)
Theorem norm_fl_zero : forall fl nm a b, len_ok a b ->
  (distance_fl fl nm a b = f64_zero <-> a = b).
Proof. exact norm_fl_zero_l. Qed.
Print Assumptions norm_fl_zero.

(** (3) exactly 1.0 when the distance equals the longer length; and rounding is monotone: over the same
    divisor a larger distance never gives a smaller double (as reals and as the float comparison [<=]) *)
Theorem norm_fl_one : forall fl a b, len_ok a b -> (0 < Nat.max (length a) (length b))%nat ->
  dist fl a b = Nat.max (length a) (length b) -> distance_fl fl true a b = f64_one.
Proof. exact norm_fl_one_l. Qed.
Print Assumptions norm_fl_one.

Theorem norm_fl_mono : forall fl fl' nm a b a' b', len_ok a b -> len_ok a' b' ->
  norm_den nm a b = norm_den nm a' b' -> (dist fl a b <= dist fl' a' b')%nat ->
  (B2R (distance_fl fl nm a b) <= B2R (distance_fl fl' nm a' b'))%R /\
  fle64 (distance_fl fl nm a b) (distance_fl fl' nm a' b') = true.
Proof. exact norm_fl_mono_l. Qed.
Print Assumptions norm_fl_mono.

(** (4) the double is the correctly rounded value of the rational the theorems of C12_Props.v speak about
    ([rnd] = Flocq [round radix2 (fexp 53 1024) ZnearestE]) and lies within relative 2^-53 of it; same for
    the prefix distance *)
Theorem norm_fl_correct : forall fl nm a b, len_ok a b ->
  (B2R (distance_fl fl nm a b) = rnd prec64 emax64 (Q2R (distance fl nm a b)) /\
   (Rabs (B2R (distance_fl fl nm a b) - Q2R (distance fl nm a b)) <= u53 * Q2R (distance fl nm a b))%R) /\
  (B2R (prefix_distance_fl fl nm a b) = rnd prec64 emax64 (Q2R (prefix_distance fl nm a b)) /\
   (Rabs (B2R (prefix_distance_fl fl nm a b) - Q2R (prefix_distance fl nm a b))
    <= u53 * Q2R (prefix_distance fl nm a b))%R).
Proof. exact norm_fl_correct_l. Qed.
Print Assumptions norm_fl_correct.

(** (5) ORDER IS EXACT.  Integers: if [d1*m2 + d2*m1 < 2^53] the float comparison of [d1 as f64 / m1 as f64]
    and [d2 as f64 / m2 as f64] is the comparison of the fractions: [<] iff [<], [==] iff [=], and equal
    fractions give the identical double (two distinct fractions are at least 1/(m1 m2) apart, the two
    roundings move them by at most 2^-53 (d1/m1 + d2/m2) < 1/(m1 m2)). *)
Theorem quot_fl_order_exact : forall d1 m1 d2 m2 : Z,
  (0 <= d1)%Z -> (0 <= d2)%Z -> (1 <= m1 <= 2 ^ 53)%Z -> (1 <= m2 <= 2 ^ 53)%Z ->
  (d1 * m2 + d2 * m1 < 2 ^ 53)%Z ->
  (flt64 (quot_fl d1 m1) (quot_fl d2 m2) = true <-> (d1 * m2 < d2 * m1)%Z) /\
  (feq64 (quot_fl d1 m1) (quot_fl d2 m2) = true <-> (d1 * m2 = d2 * m1)%Z) /\
  ((d1 * m2 = d2 * m1)%Z -> quot_fl d1 m1 = quot_fl d2 m2).
Proof. exact quot_order_exact. Qed.
Print Assumptions quot_fl_order_exact.

(** ... for the distances of two pairs of texts, all shorter than 2^26 characters, without
    spaces_insert_delete_only (what Dictionary::get_closest calls): [<] on the doubles iff [<] on the
    rationals, [==] iff [==], equal rationals give the identical double — normalised or not *)
Theorem norm_fl_order_exact : forall fl fl' nm a b a' b',
  sid fl = false -> sid fl' = false -> short a -> short b -> short a' -> short b' ->
  let x := distance fl nm a b in let y := distance fl' nm a' b' in
  (flt64 (distance_fl fl nm a b) (distance_fl fl' nm a' b') = true <-> (x < y)%Q) /\
  (feq64 (distance_fl fl nm a b) (distance_fl fl' nm a' b') = true <-> (x == y)%Q) /\
  ((x == y)%Q -> distance_fl fl nm a b = distance_fl fl' nm a' b').
Proof. exact norm_fl_order_exact_l. Qed.
Print Assumptions norm_fl_order_exact.

(** ... and for EVERY flag combination (values up to 2 under spaces_insert_delete_only), texts shorter than
    2^26 characters: below 2 the absolute rounding error is at most half an ulp = 2^-53, and two distinct
    fractions with denominators below 2^26 are more than 2^-52 apart.  Integer form first. *)
Theorem quot_fl_order_exact2 : forall d1 m1 d2 m2 : Z,
  (0 <= d1 <= 2 * m1)%Z -> (0 <= d2 <= 2 * m2)%Z -> (1 <= m1)%Z -> (1 <= m2)%Z -> (m1 * m2 < 2 ^ 52)%Z ->
  (flt64 (quot_fl d1 m1) (quot_fl d2 m2) = true <-> (d1 * m2 < d2 * m1)%Z) /\
  (feq64 (quot_fl d1 m1) (quot_fl d2 m2) = true <-> (d1 * m2 = d2 * m1)%Z) /\
  ((d1 * m2 = d2 * m1)%Z -> quot_fl d1 m1 = quot_fl d2 m2).
Proof. exact quot_order_exact2. Qed.
Print Assumptions quot_fl_order_exact2.

Theorem norm_fl_order_exact_all : forall fl fl' nm a b a' b',
  short a -> short b -> short a' -> short b' ->
  let x := distance fl nm a b in let y := distance fl' nm a' b' in
  (flt64 (distance_fl fl nm a b) (distance_fl fl' nm a' b') = true <-> (x < y)%Q) /\
  (feq64 (distance_fl fl nm a b) (distance_fl fl' nm a' b') = true <-> (x == y)%Q) /\
  ((x == y)%Q -> distance_fl fl nm a b = distance_fl fl' nm a' b').
Proof. exact norm_fl_order_exact_all_l. Qed.
Print Assumptions norm_fl_order_exact_all.

(** [distances]: the Err exactly on a length mismatch, else [distance_fl] element-wise *)
Theorem distances_fl_spec : forall fl nm la lb,
  (length la <> length lb -> distances_fl fl nm la lb = None) /\
  (length la = length lb ->
   distances_fl fl nm la lb = Some (map (fun p => distance_fl fl nm (fst p) (snd p)) (zip la lb))).
Proof. exact distances_fl_l. Qed.
Print Assumptions distances_fl_spec.

(** the executable statement as it is extracted and evaluated on every implementation output
    ([check] = [check_C12F]: the clauses of [check_C12] decided on the exact values of the float fields) holds of
    the float model's own output, for every input outside the KF2 class whose texts have at most 2^52 characters:
    the val-level link between the checker and the theorems above *)
Theorem check_run_fl : forall v, no_kf2 v -> short52 v -> check_C12F v (run_C12F v) = true.
Proof. exact check_run_fl_l. Qed.
Print Assumptions check_run_fl.

(** ** non-vacuity *)
Example check_run_fl_premises :
  let v := (L [I 0; I 1; I 1; I 1; L [L [I 97]; L [I 32]]; L [L [I 32]; L [I 97]]; I 1; I 1])%Z in
  no_kf2 v /\ short52 v.
Proof. split; [intros _ _; vm_compute; repeat constructor|unfold short52; cbn; lia]. Qed.
Definition ex_s (l : list N) : list cluster := singletons l.
Example len_ok_example : len_ok (ex_s [97;98;99]%N) (ex_s [98;97]%N).
Proof. unfold len_ok, P53. cbn. lia. Qed.
Example short_example : short (ex_s [97;98;99]%N) /\ short25 (ex_s [97;98;99]%N).
Proof. unfold short, short25. cbn. lia. Qed.
(** "abc" vs "ba": distance 2 with swaps; normalised 2/3 = 0x3FE5555555555555 *)
Example norm_fl_example :
  fl_v (distance_fl (Flags true false) true (ex_s [97;98;99]%N) (ex_s [98;97]%N))
  = L [I 1; I 0; I 6004799503160661; I (-53)]%Z.
Proof. vm_compute. reflexivity. Qed.
(** 1/3 < 2/5 as doubles, 2/6 == 1/3 bit for bit *)
Example order_example :
  flt64 (quot_fl 1 3) (quot_fl 2 5) = true /\ quot_fl 2 6 = quot_fl 1 3.
Proof. split; [vm_compute; reflexivity|]. apply quot_fl_order_exact; lia. Qed.

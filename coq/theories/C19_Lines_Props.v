(** C19 — the line reader at byte level: pinned statements (third session, topic E item 4).
    [split_lines] (NFKC_Tie.v) = [BufRead::lines] on a list of units (cut at 0x0A, drop it and one 0x0D before it, a
    last piece without 0x0A is a line if non-empty); [read_lines bs] = the [io::Result<String>] items of [lines()] on
    the bytes [bs] ([None] = [Err(InvalidData)]: the piece is not UTF-8, [C01_Model.utf8_decode] = [String::from_utf8]);
    [bpe_read maxl] = [train_bpe]'s [lines().take(maxl).filter_map(ok)]; [dict_read] = [Dictionary::create]'s
    [lines().map_while(ok)]. *)
From TU Require Import Base C01_Model NFKC_Tie C19_Model C19_Lines C19_LinesProofs.
From TU Require C20_Model C19_LinesC20.
Open Scope N_scope.

(** Cutting lines commutes with UTF-8: no byte of a multi-byte sequence is 0x0A or 0x0D.  So the code-point-level
    reader the C19 correspondence used so far ([lines_of_file]) IS the byte-level reader on UTF-8 files. *)
Theorem split_lines_utf8 : forall s, split_lines [] (utf8s s) = map utf8s (split_lines [] s).
Proof. exact split_lines_utf8_l. Qed.
Print Assumptions split_lines_utf8.

Theorem read_lines_utf8 : forall s, scalars s = true -> read_lines (utf8s s) = map Some (split_lines [] s).
Proof. exact read_lines_utf8_l. Qed.
Print Assumptions read_lines_utf8.

(** The raw-line format with byte items contains the old one (lines of code points, each followed by a newline): *)
Theorem read_file_strings : forall raw : list (list N), scalars (file_content raw) = true ->
  read_lines (file_bytes (map (map Z.of_N) raw)) = map Some (lines_of_file raw).
Proof. exact read_file_strings_l. Qed.
Print Assumptions read_file_strings.

(** [train_bpe]'s and [Dictionary::create]'s readers are the same function on UTF-8 files ... *)
Theorem readers_agree_utf8 : forall s maxl, scalars s = true ->
  bpe_read maxl (utf8s s) = take_o maxl (split_lines [] s) /\ dict_read (utf8s s) = split_lines [] s.
Proof. exact readers_agree_utf8_l. Qed.
Print Assumptions readers_agree_utf8.

(** ... and not on others: [filter_map(ok)] skips a line that is not UTF-8, [map_while(ok)] ends the file there
    (file "a\n\xff\nb\n"); and the skipped line counts for [take(max_lines_per_file)]. *)
Theorem readers_differ_refuted : exists bs, bpe_read None bs = [[97]; [98]] /\ dict_read bs = [[97]].
Proof. exact readers_differ_l. Qed.
Print Assumptions readers_differ_refuted.
Theorem take_before_filter : exists bs, bpe_read (Some 2%nat) bs = [[97]] /\ firstn 2 (bpe_read None bs) = [[97]; [98]].
Proof. exact take_before_filter_l. Qed.
Print Assumptions take_before_filter.

(** The model of [BufRead::lines] in C19 (NFKC_Tie.v) and the one in C20 (C20_Model.v, used for [Dictionary::load])
    are the same function. *)
Theorem lines_models_agree : forall bs, split_lines [] bs = C20_Model.lines_of bs.
Proof. exact C19_LinesC20.lines_models_agree_l. Qed.
Print Assumptions lines_models_agree.

(** [norm_input] (take, then drop the markers of invalid lines) changes nothing when there are none: every theorem of
    C19_Props.v about [in_corpus v] speaks about the same corpus ... *)
Theorem norm_input_corpus : forall v, no_markers v -> in_corpus (norm_input v) = in_corpus v.
Proof. exact norm_input_corpus_l. Qed.
Print Assumptions norm_input_corpus.

(** ... and the executable statement on the normalised input holds of the model's output. *)
Theorem check_run_n : forall v, wf_input v -> check_C19n v (run_C19n v) = true.
Proof. exact check_run_n_l. Qed.
Print Assumptions check_run_n.

(** Examples.  File 0 = "ab\r\n" + the bytes 61 FF + "\n" + "c" without final newline; proc as the real crate gives it. *)
Definition ex_lines_in : val :=
  L [I 320; I 62; I 0; I 1; L [I 2]; L [L [L [I 97; I 98; I 13]; L [I 97; I (-256)]; L [I 99; I (-1000)]]];
     L [L [L [I 97; I 98]; L [I (-1)]; L [I 99]]]; I 1; L []].
Example ex_lines_bytes : file_bytes [[97; 98; 13]; [97; -256]; [99; -1000]]%Z = [97; 98; 13; 10; 97; 255; 10; 99].
Proof. vm_compute. reflexivity. Qed.
Example ex_lines_read : read_lines [97; 98; 13; 10; 97; 255; 10; 99] = [Some [97; 98]; None; Some [99]].
Proof. vm_compute. reflexivity. Qed.
Example ex_lines_agree : lines_agree_b ex_lines_in = true.
Proof. vm_compute. reflexivity. Qed.
(** with max_lines_per_file = 2 the invalid line uses up the second slot: only "ab" is counted *)
Example ex_lines_norm : in_lines (norm_input ex_lines_in) = [[97; 98]].
Proof. vm_compute. reflexivity. Qed.
Example ex_scalars : scalars (file_content [[97; 228]; [8364]]) = true.
Proof. vm_compute. reflexivity. Qed.

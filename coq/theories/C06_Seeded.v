(** C06 with the generator inside the model ("seed in, behaviour out") — definitions only.

    [Batched::new(.., seed)] (src/data/loading.rs:500-525) builds ONE generator for the iterator,
    [ChaCha8Rng::seed_from_u64(seed)] when a seed is given (the loader always gives one:
    src/data/mod.rs:1012 [Some(seed)]; [None] = [from_os_rng], outside the model), and hands
    [&mut self.rng] to every [build_batch] call.  [build_batch] consumes it in two places only:
      - shuffle without sort: [buf.shuffle(rng)] on the buffer after the fill — reached only when
        the buffer is not empty (the call returns [None] before), nothing is drawn for one element;
      - sort + shuffle: [rng.random_range(0..sub_sequences.len())] — only when there is a
        sub-sequence (otherwise the last item is popped and nothing is drawn).
    [build_batch_s] is [C06_Model.build_batch] with the oracle answers replaced by exactly these
    draws on a threaded generator state: [RNG_Model.shuffle] ([SliceRandom::shuffle]: the slice
    after the swaps) and [RNG_Model.random_range] (Canon's method; 32-bit draws below 2^32
    sub-sequences).  Everything else is the oracle model's text. *)
From TU Require Import RNG_Model.
From TU Require Import Base C06_Model.

Section Seeded.
Context {A : Type}.
Context (size : A -> nat).

(** one [build_batch] call: the result and the generator afterwards *)
Definition build_batch_s (sort shuffle : bool) (L P : nat) (ty : limit_type) (st : rng)
           (rest buf : list A) : @bres A * rng :=
  if negb sort && negb shuffle then
    (match buf with
     | _ :: _ :: _ => BErr AssertFail          (* assert_eq!(buf.len(), 1) *)
     | _ =>
         let '(b, rem, src') := batch_from size ty L [] (0, 0) (buf ++ rest) in
         BOk (if is_nil b then None else Some b) src' (opt_list rem)
     end, st)
  else
    let '(buf1, rest1) := fill size ty (L * P) (lim_from size buf) buf rest in
    if is_nil buf1 then (BOk None rest1 [], st)
    else if sort then
      let sb := sort_by size buf1 in
      if shuffle then
        match find_subseq (fun s e => limit size ty (slice sb s e)) L (length sb) with
        | None => (BErr OutOfFuel, st)
        | Some [] =>
            (match rev sb with
             | x :: r => BOk (Some [x]) rest1 (rev r)     (* vec![buf.pop().unwrap()] *)
             | [] => BErr AssertFail
             end, st)
        | Some subs =>
            (* let index = rng.random_range(0..sub_sequences.len()); *)
            match random_range (N.of_nat (length subs)) st with
            | None => (BErr BadOracle, st)     (* empty range / a length that is no usize: excluded, [seeded_total] *)
            | Some (i, st') =>
                (match nth_error subs (N.to_nat i) with
                 | None => BErr BadOracle       (* index out of bounds: excluded by [random_range_lt] *)
                 | Some (s, e) =>
                     if (s <=? e) && (e <=? length sb)
                     then BOk (Some (slice sb s e)) rest1 (firstn s sb ++ skipn e sb)
                     else BErr AssertFail
                 end, st')
            end
        end
      else (pop_batch size ty L sb rest1, st)
    else
      (* buf.shuffle(rng); *)
      let (sb, st') := RNG_Model.shuffle buf1 st in
      (pop_batch size ty L sb rest1, st').

(** the consumer calls next() until None *)
Fixpoint batches_loop_s (sort shuffle : bool) (L P : nat) (ty : limit_type)
         (fuel : nat) (st : rng) (rest buf : list A) : res (list (list A)) :=
  match fuel with
  | O => Err OutOfFuel
  | S f =>
    match build_batch_s sort shuffle L P ty st rest buf with
    | (BErr e, _) => Err e
    | (BOk None _ _, _) => Ok []
    | (BOk (Some b) rest' buf', st') => cons_res b (batches_loop_s sort shuffle L P ty f st' rest' buf')
    end
  end.

(** [Batched::new(iter, sort, shuffle, prefetch, limit, ty, Some(seed))] + drain *)
Definition batches_seeded (sort shuffle : bool) (prefetch limit_ : nat) (ty : limit_type) (seed : N)
           (input : list A) : res (list (list A)) :=
  batches_loop_s sort shuffle (Nat.max limit_ 1) (Nat.max prefetch 1) ty (length input + 1)
                 (seed_from_u64 seed) input [].
End Seeded.

(** every length that occurs is a usize (a [Vec] holds at most isize::MAX bytes): the number of
    sub-sequences is at most 2 * len + 2 *)
Definition fits (n : nat) : Prop := (N.of_nat n < 9223372036854775807)%N.

(** * val glue: input = (sort shuffle prefetch limit ty seed sizes) as in C06_Model.v; the seeded run
    reads all seven fields and nothing else *)
Definition in_seed (v : val) : N := v_n (v_nth 5 v).

Definition run_seeded (v : val) : res (list (list item)) :=
  batches_seeded isize (v_bool (v_nth 0 v)) (v_bool (v_nth 1 v)) (v_nat (v_nth 2 v)) (v_nat (v_nth 3 v))
                 (v_ty (v_nth 4 v)) (in_seed v) (v_items v).

(** output = (batches 1 ()): the batches the generator of the seed produces; no observation is
    taken from anywhere *)
Definition run_C06s (v : val) : val :=
  match run_seeded v with
  | Ok bs => L [batches_v bs; I 1%Z; L []]
  | Err OutOfFuel => L [I (-1)%Z]
  | Err BadOracle => L [I (-2)%Z]
  | Err AssertFail => L [I (-3)%Z]
  end.

(** first line: the implementation's batch sequence IS the seeded model's, batch for batch and in
    the order inside every batch — given (items, configuration, seed) alone *)
Definition seeded_ok (m i : val) : bool :=
  shape2 m && nat_ll_eqb (v_batches (v_nth 0 m)) (v_batches (v_nth 0 i)).

(** correspondence: [m] is the SEEDED run.  Second and third line: [agree_C06] as before, handed the
    seeded run — the relational replay; for the shuffling modes the lock-step replay of the draws
    the harness made with the real rand crates (cross-check; [m] is not read there); for the two
    deterministic modes exact equality of the whole output with [m], which without shuffle is the
    oracle model's own run ([run_seeded_noshuffle]) *)
Definition agree_C06s (v m i : val) : bool :=
  seeded_ok m i && agree_C06 v m i.

(** Unicode normalisation as the crate unicode-normalization (locked version, see NFKC_Table.v)
    computes it, and [text_utils::unicode::normalize] (src/unicode.rs) on top of it.

    - [ccc]            = [lookups::canonical_combining_class] (table, default 0);
    - [decompose_char] = [normalize::decompose] with the lookup of [decompose_canonical] /
                         [decompose_compatible]: ASCII shortcut, algorithmic Hangul syllables, then the
                         table of FULL decompositions (compatibility first, canonical as fallback), else
                         the code point itself. The crate never recurses: its tables are closed
                         (theorem [decompose_closed] in NFKC_Proofs.v);
    - [reorder]        = the buffer of [decompose::Decompositions]: code points are pushed in text order,
                         a starter (class 0) first sorts the pending non-starters with the stable
                         [sort_by_key] on the class and then makes everything ready;
    - [compose]        = [normalize::compose]: [compose_hangul] (L+V, LV+T), else [composition_table]
                         (BMP pairs from COMPOSITION_TABLE_KV, the others from [composition_table_astral]);
    - [comp_loop]      = the state machine of [recompose::Recompositions] ([composee], [last_ccc],
                         [buffer]; the blocked test [l_class >= ch_class]; a blocked starter flushes);
    - [nfd nfc nfkd nfkc], [nf], and [normalize_model] = the crate's [normalize]: with
      [use_graphemes] every extended grapheme cluster ([UAX29_Model.segment]) is normalised on its
      own and the results are concatenated.
    Definitions only. Code points are [N]; all recursion is structural (no fuel anywhere). *)
From Coq Require Import FMapPositive.
From TU Require Import Base UAX29_Model.
From TU Require Export NFKC_Table.
Open Scope N_scope.

(** * Tables as binary tries on the bits of the key (built once from the lists)
    [alookup] / [alookup2] are the reference: the first entry of the list with that key.
    [tfind (trie_of l)] is proved equal to [alookup l] in NFKC_Proofs.v ([trie_of_spec]). *)
Fixpoint alookup {A} (l : list (N * A)) (x : N) : option A :=
  match l with
  | [] => None
  | (k, v) :: r => if k =? x then Some v else alookup r x
  end.
Fixpoint alookup2 (l : list (N * N * N)) (a b : N) : option N :=
  match l with
  | [] => None
  | (a', b', r) :: l' => if (a' =? a) && (b' =? b) then Some r else alookup2 l' a b
  end.

Definition trie (A : Type) : Type := PositiveMap.t A.
Definition tfind {A} (m : trie A) (x : N) : option A :=
  match x with
  | Npos p => PositiveMap.find p m
  | N0 => None
  end.
Definition tadd {A} (x : N) (v : A) (m : trie A) : trie A :=
  match x with
  | Npos p => PositiveMap.add p v m
  | N0 => m
  end.
Definition trie_of {A} (l : list (N * A)) : trie A :=
  fold_right (fun e m => tadd (fst e) (snd e) m) (PositiveMap.empty A) l.

(** pairs: a trie on the first code point whose values are tries on the second *)
Definition tadd2 (e : N * N * N) (m : trie (trie N)) : trie (trie N) :=
  match e with
  | (a, b, r) =>
      let inner := match tfind m a with Some i => i | None => PositiveMap.empty N end in
      tadd a (tadd b r inner) m
  end.
Definition trie2_of (l : list (N * N * N)) : trie (trie N) :=
  fold_right tadd2 (PositiveMap.empty (trie N)) l.
Definition tfind2 (m : trie (trie N)) (a b : N) : option N :=
  match tfind m a with
  | Some i => tfind i b
  | None => None
  end.

Definition ccc_trie : trie N := trie_of ccc_table.
Definition canon_trie : trie (list N) := trie_of canon_decomp_table.
Definition compat_trie : trie (list N) := trie_of compat_decomp_table.
Definition comp_bmp_trie : trie (trie N) := trie2_of comp_bmp_table.
Definition comp_astral_trie : trie (trie N) := trie2_of comp_astral_table.

(** * Canonical combining class *)
Definition ccc (c : N) : N := match tfind ccc_trie c with Some k => k | None => 0 end.

(** * Decomposition of one code point *)
Definition S_BASE := 44032.   (* 0xAC00 *)
Definition L_BASE := 4352.    (* 0x1100 *)
Definition V_BASE := 4449.    (* 0x1161 *)
Definition T_BASE := 4519.    (* 0x11A7 *)
Definition L_COUNT := 19.
Definition V_COUNT := 21.
Definition T_COUNT := 28.
Definition N_COUNT := 588.    (* V_COUNT * T_COUNT *)
Definition S_COUNT := 11172.  (* L_COUNT * N_COUNT *)

Definition is_hangul_syllable (c : N) : bool := (S_BASE <=? c) && (c <? S_BASE + S_COUNT).

(** [decompose_hangul] *)
Definition decompose_hangul (s : N) : list N :=
  let si := s - S_BASE in
  let li := si / N_COUNT in
  let vi := (si mod N_COUNT) / T_COUNT in
  let ti := si mod T_COUNT in
  (L_BASE + li) :: (V_BASE + vi) :: (if 0 <? ti then [T_BASE + ti] else []).

Definition canonical_fully_decomposed (c : N) : option (list N) := tfind canon_trie c.
Definition compatibility_fully_decomposed (c : N) : option (list N) := tfind compat_trie c.

(** the closure handed to [decompose]: [compatibility_fully_decomposed(c).or_else(|| canonical_…(c))] *)
Definition table_decomposition (compat : bool) (c : N) : option (list N) :=
  if compat then
    match compatibility_fully_decomposed c with
    | Some d => Some d
    | None => canonical_fully_decomposed c
    end
  else canonical_fully_decomposed c.

(** [normalize::decompose]: the code points handed to [emit_char], in order *)
Definition decompose_char (compat : bool) (c : N) : list N :=
  if c <=? 127 then [c]
  else if is_hangul_syllable c then decompose_hangul c
  else match table_decomposition compat c with
       | Some d => d
       | None => [c]
       end.

Definition decompose (compat : bool) (s : list N) : list N := flat_map (decompose_char compat) s.

(** * Canonical ordering: the buffer of [Decompositions] *)

(** stable insertion: [x] (class [cx]) was pushed BEFORE the sorted [l], so it goes in front of
    the first element whose class is not smaller *)
Fixpoint ins_cc (cx x : N) (l : list N) : list N :=
  match l with
  | [] => [x]
  | y :: r => if cx <=? ccc y then x :: l else y :: ins_cc cx x r
  end.
(** [sort_by_key(|k| k.0)] (stable) on the pending block *)
Fixpoint sort_cc (l : list N) : list N :=
  match l with
  | [] => []
  | x :: r => ins_cc (ccc x) x (sort_cc r)
  end.

(** [pend]: the pending non-starters, last pushed first *)
Fixpoint reorder (pend : list N) (s : list N) : list N :=
  match s with
  | [] => sort_cc (rev pend)
  | c :: r => if ccc c =? 0 then sort_cc (rev pend) ++ c :: reorder [] r
              else reorder (c :: pend) r
  end.

(** * Composition of a pair *)
Definition L_LAST := 4370.    (* L_BASE + L_COUNT - 1 *)
Definition V_LAST := 4469.    (* V_BASE + V_COUNT - 1 *)
Definition T_LAST := 4546.    (* T_BASE + T_COUNT - 1 *)
Definition T_FIRST := 4520.   (* T_BASE + 1 *)
Definition S_LAST := 55203.   (* S_BASE + S_COUNT - 1 *)

Definition compose_hangul (a b : N) : option N :=
  if (L_BASE <=? a) && (a <=? L_LAST) && (V_BASE <=? b) && (b <=? V_LAST) then
    Some (S_BASE + ((a - L_BASE) * N_COUNT + (b - V_BASE) * T_COUNT))
  else if (S_BASE <=? a) && (a <=? S_LAST) && (T_FIRST <=? b) && (b <=? T_LAST)
          && ((a - S_BASE) mod T_COUNT =? 0) then
    Some (a + (b - T_BASE))
  else None.

Definition composition_table (a b : N) : option N :=
  if (a <? 65536) && (b <? 65536) then tfind2 comp_bmp_trie a b   (* key (c1 << 16 | c2) *)
  else tfind2 comp_astral_trie a b.                                (* composition_table_astral *)

Definition compose (a b : N) : option N :=
  match compose_hangul a b with
  | Some r => Some r
  | None => composition_table a b
  end.

(** * Canonical composition: [Recompositions::next] run to the end over the decomposed text.
    [co] = composee, [last] = last_ccc, [buf] = buffer (last pushed first).
    Everything returned by [next] is consed in the order of the calls. *)
Fixpoint comp_loop (co : option N) (last : option N) (buf : list N) (s : list N) : list N :=
  match s with
  | [] =>
      (* Finished: the composee, then the buffer *)
      match co with
      | Some k => k :: rev buf
      | None => rev buf
      end
  | ch :: r =>
      let cc := ccc ch in
      match co with
      | None =>
          if negb (cc =? 0) then ch :: comp_loop None last buf r
          else comp_loop (Some ch) last buf r
      | Some k =>
          match last with
          | None =>
              match compose k ch with
              | Some k' => comp_loop (Some k') None buf r
              | None =>
                  if cc =? 0 then k :: comp_loop (Some ch) None buf r
                  else comp_loop (Some k) (Some cc) (ch :: buf) r
              end
          | Some l =>
              if cc <=? l then
                (* [ch] is blocked from the composee *)
                if cc =? 0 then k :: rev buf ++ comp_loop (Some ch) None [] r   (* Purging *)
                else comp_loop (Some k) (Some cc) (ch :: buf) r
              else
                match compose k ch with
                | Some k' => comp_loop (Some k') (Some l) buf r
                | None => comp_loop (Some k) (Some cc) (ch :: buf) r
                end
          end
      end
  end.

Definition recompose (s : list N) : list N := comp_loop None None [] s.

(** * The four forms *)
Definition nfd (s : list N) : list N := reorder [] (decompose false s).
Definition nfkd (s : list N) : list N := reorder [] (decompose true s).
Definition nfc (s : list N) : list N := recompose (nfd s).
Definition nfkc (s : list N) : list N := recompose (nfkd s).

Inductive form : Set := NFC | NFD | NFKC | NFKD.
Definition nf (f : form) (s : list N) : list N :=
  match f with
  | NFC => nfc s
  | NFD => nfd s
  | NFKC => nfkc s
  | NFKD => nfkd s
  end.

(** [text_utils::unicode::normalize(s, normalization, use_graphemes)] *)
Definition normalize_model (f : form) (use_graphemes : bool) (s : list N) : list N :=
  if use_graphemes then flat_map (nf f) (segment s) else nf f s.

(** * Vocabulary of the theorems *)

(** canonical order (UAX #15 D108/D109): no non-starter directly after a code point of a
    higher class *)
Fixpoint cordered (l : list N) : bool :=
  match l with
  | a :: r => match r with
              | b :: _ => ((ccc b =? 0) || (ccc a <=? ccc b)) && cordered r
              | [] => true
              end
  | [] => true
  end.

(** KF3: not White_Space itself, but its compatibility decomposition contains White_Space *)
Definition makes_space (c : N) : bool := negb (is_ws c) && existsb is_ws (decompose_char true c).
(** the finite set, computed here once: keys of the compatibility table, then keys that are only
    in the canonical table (no canonical decomposition contains White_Space: the second part is
    empty; [makes_space_complete] in NFKC_Proofs.v shows nothing is missed) *)
Definition nfkc_makes_space : list N :=
  Eval vm_compute in
    filter makes_space (map fst compat_decomp_table)
    ++ filter (fun c => makes_space c
                        && match compatibility_fully_decomposed c with Some _ => false | None => true end)
              (map fst canon_decomp_table).

(** the wire encoding of [Normalization] used by the harness: 1 NFC, 2 NFD, 3 NFKC, 4 NFKD *)
Definition form_of (k : N) : option form :=
  if k =? 1 then Some NFC else if k =? 2 then Some NFD
  else if k =? 3 then Some NFKC else if k =? 4 then Some NFKD else None.

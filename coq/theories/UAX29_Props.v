(** UAX #29 model — pinned statements. Nothing but statements, [exact], and assumption audits.
    [segment] is the model of [str.graphemes(true)] of unicode-segmentation (version and Unicode
    version in UAX29_Table.v); it is tied to the crate by the C11 correspondence. *)
From TU Require Import Base UAX29_Model UAX29_Proofs.
Open Scope N_scope.

(** ** the tables: search tree = first range of the translated table that contains the point *)
Theorem gcb_spec : forall c,
  gcb c = if c <=? 126
          then (if 32 <=? c then GC_Any else if c =? 10 then GC_LF else if c =? 13 then GC_CR else GC_Control)
          else match llookup grapheme_cat_table c with Some k => k | None => GC_Any end.
Proof. exact gcb_spec_l. Qed.
Print Assumptions gcb_spec.

Theorem incb_of_spec : forall c,
  incb_of c = match llookup incb_linker_table c with
              | Some k => Some k
              | None => llookup incb_extend_table c
              end.
Proof. exact incb_of_spec_l. Qed.
Print Assumptions incb_of_spec.

(** table fact (all 1 114 112 code points, by a range computation): InCB Linker / Extend
    code points have grapheme category Extend or ZWJ *)
Theorem incb_only_extend : forall c i,
  incb_of c = Some i -> gcb c = GC_Extend \/ gcb c = GC_ZWJ.
Proof. exact incb_only_extend_l. Qed.
Print Assumptions incb_only_extend.

(** table fact: CR and LF are U+000D and U+000A only *)
Theorem gcb_cr_lf : forall c, (gcb c = GC_CR -> c = 13) /\ (gcb c = GC_LF -> c = 10).
Proof. exact (fun c => conj (gcb_cr c) (gcb_lf c)). Qed.
Print Assumptions gcb_cr_lf.

(** ** [segment s] is a segmentation of [s]: with [segment_nonempty] this is
    [ValidSeg (segment s) s] of C11_Proofs *)
Theorem segment_concat : forall s, concat (segment s) = s.
Proof. exact segment_concat_l. Qed.
Print Assumptions segment_concat.

Theorem segment_nonempty : forall s, Forall (fun c => c <> []) (segment s).
Proof. exact segment_nonempty_l. Qed.
Print Assumptions segment_nonempty.

Theorem segment_nil : segment [] = [].
Proof. exact segment_nil_l. Qed.
Print Assumptions segment_nil.

Theorem segment_singleton : forall c, segment [c] = [[c]].
Proof. exact segment_singleton_l. Qed.
Print Assumptions segment_singleton.

(** ** printable ASCII (U+0020 .. U+007E) never joins: one cluster per code point *)
Theorem segment_ascii : forall s,
  forallb printable_ascii s = true -> segment s = map (fun c => [c]) s.
Proof. exact segment_ascii_l. Qed.
Print Assumptions segment_ascii.

(** ** CR LF is one cluster; apart from that CR, LF and Control never join anything (GB3-GB5) *)
Theorem crlf_cluster : segment [13; 10] = [[13; 10]].
Proof. exact crlf_cluster_l. Qed.
Print Assumptions crlf_cluster.

Theorem ctl_cluster : forall s cl c,
  In cl (segment s) -> In c cl -> is_ctl (gcb c) = true -> cl = [c] \/ cl = [13; 10].
Proof. exact ctl_cluster_l. Qed.
Print Assumptions ctl_cluster.

(** ** locality: where the pair table says "break" (GB4, GB5, GB999 — no look-behind), the
    two sides are segmented independently, whatever precedes and follows *)
Theorem segment_app_break : forall u a b v,
  check_pair (gcb a) (gcb b) = PR_Break ->
  segment ((u ++ [a]) ++ b :: v) = segment (u ++ [a]) ++ segment (b :: v).
Proof. exact segment_app_break_l. Qed.
Print Assumptions segment_app_break.

(** the instance asked for by C10/C14: CR / LF / Control on either side (not CR x LF) *)
Theorem segment_app_hard_break : forall u a b v,
  hard_break a b = true ->
  segment ((u ++ [a]) ++ b :: v) = segment (u ++ [a]) ++ segment (b :: v).
Proof. exact segment_app_hard_l. Qed.
Print Assumptions segment_app_hard_break.

(** general form, for boundaries that depend on what precedes (GB9c, GB11, GB12/13): the
    decision is [break_after s b]; the second premise says the cursor's look-behind state after
    [b] is the one it has at the start of a text *)
Theorem segment_split : forall s b v,
  s <> [] -> break_after s b = true ->
  advance (fst (state_of s)) b (gcb b) = advance ctx0 b (gcb b) ->
  segment (s ++ b :: v) = segment s ++ segment (b :: v).
Proof. exact UAX29_Proofs.segment_split. Qed.
Print Assumptions segment_split.

(** ** U+0020 (KF1): the cluster of a leading space is the singleton exactly when the next
    code point is not Extend / SpacingMark / ZWJ — and then the rest is segmented on its own;
    otherwise the space is glued to the first cluster of the rest *)
Theorem space_then_other : forall c rest,
  (exists cs, segment (32 :: c :: rest) = [32] :: cs) <-> ws_joinable c = false.
Proof. exact space_then_other_l. Qed.
Print Assumptions space_then_other.

Theorem space_then_other_eq : forall c rest,
  segment (32 :: c :: rest) =
  if ws_joinable c then glue 32 (segment (c :: rest)) else [32] :: segment (c :: rest).
Proof. exact space_then_other_eq_l. Qed.
Print Assumptions space_then_other_eq.

(** the same for every code point of category Any (letters, digits, all printable ASCII) *)
Theorem any_then_other : forall a c rest,
  gcb a = GC_Any ->
  segment (a :: c :: rest) =
  if ws_joinable c then glue a (segment (c :: rest)) else [a] :: segment (c :: rest).
Proof. exact any_then_other_l. Qed.
Print Assumptions any_then_other.

(** in any context: a code point of category Any is split from what follows unless that is
    Extend / SpacingMark / ZWJ, and from what precedes unless that is Prepend *)
Theorem any_break_after : forall u a c v,
  gcb a = GC_Any -> ws_joinable c = false ->
  segment ((u ++ [a]) ++ c :: v) = segment (u ++ [a]) ++ segment (c :: v).
Proof. exact any_break_after_l. Qed.
Print Assumptions any_break_after.

Theorem any_break_before : forall u p a v,
  gcb a = GC_Any -> is_prepend p = false ->
  segment ((u ++ [p]) ++ a :: v) = segment (u ++ [p]) ++ segment (a :: v).
Proof. exact any_break_before_l. Qed.
Print Assumptions any_break_before.

(** Prepend joins whatever follows except CR / LF / Control (GB9b): the other source of
    clusters mixing whitespace and non-whitespace ("\u{600} ") *)
Theorem prepend_joins : forall p c rest,
  is_prepend p = true -> is_ctl (gcb c) = false ->
  exists cl cs, segment (p :: c :: rest) = (p :: c :: cl) :: cs.
Proof. exact prepend_joins_ex_l. Qed.
Print Assumptions prepend_joins.

(** ** "no cluster mixes whitespace and non-whitespace" is a decidable property of the string *)
Theorem no_mixedb_spec : forall s,
  no_mixedb s = true <->
  Forall (fun c => forallb is_ws c = true \/ forallb (fun x => negb (is_ws x)) c = true) (segment s).
Proof. exact no_mixedb_spec_l. Qed.
Print Assumptions no_mixedb_spec.

(** ** no boundary: [break_after (u ++ [a]) b = false] puts [a] and [b] side by side in one
    cluster — hence a mixed cluster when exactly one of them is whitespace *)
Theorem segment_nobreak : forall u a b v,
  break_after (u ++ [a]) b = false ->
  exists cl l1 l2, In cl (segment ((u ++ [a]) ++ b :: v)) /\ cl = l1 ++ a :: b :: l2.
Proof. exact segment_nobreak_l. Qed.
Print Assumptions segment_nobreak.

Theorem no_mixedb_nobreak : forall u a b v,
  break_after (u ++ [a]) b = false -> is_ws a = negb (is_ws b) ->
  no_mixedb ((u ++ [a]) ++ b :: v) = false.
Proof. exact no_mixedb_nobreak_l. Qed.
Print Assumptions no_mixedb_nobreak.

(** ** examples (non-vacuity, and the rules at work) *)
(** e + U+0301 | SPACE + U+0301 (KF1) | CR LF | two flags and a half | ka + virama + ka |
    woman ZWJ laptop | Prepend + a *)
Example segment_example :
  segment [101; 769; 32; 769; 13; 10; 127462; 127463; 127464; 127465; 127466; 2325; 2381; 2325;
           128105; 8205; 128187; 1536; 97]
  = [[101; 769]; [32; 769]; [13; 10]; [127462; 127463]; [127464; 127465]; [127466];
     [2325; 2381; 2325]; [128105; 8205; 128187]; [1536; 97]].
Proof. vm_compute. reflexivity. Qed.
(** Hangul: L V T | LV T | LVT T, then L L V *)
Example segment_hangul :
  segment [4352; 4449; 4520; 44032; 4520; 44033; 4520; 4352; 4352; 4449]
  = [[4352; 4449; 4520]; [44032; 4520]; [44033; 4520]; [4352; 4352; 4449]].
Proof. vm_compute. reflexivity. Qed.
(** GB9c needs a linker: ka + ZWJ + ka breaks, ka + virama + ZWJ + ka does not; U+200C
    (Extend but not InCB=Extend) interrupts the conjunct *)
Example segment_incb :
  segment [2325; 8205; 2325] = [[2325; 8205]; [2325]]
  /\ segment [2325; 2381; 8205; 2325] = [[2325; 2381; 8205; 2325]]
  /\ segment [2325; 2381; 8204; 2325] = [[2325; 2381; 8204]; [2325]].
Proof. vm_compute. repeat split; reflexivity. Qed.
Example hard_break_witness : hard_break 97 10 = true /\ hard_break 13 10 = false.
Proof. vm_compute. split; reflexivity. Qed.
Example pr_break_witness : check_pair (gcb 97) (gcb 98) = PR_Break /\ check_pair (gcb 32) (gcb 128512) = PR_Break.
Proof. vm_compute. split; reflexivity. Qed.
Example ws_joinable_witness : ws_joinable 769 = true /\ ws_joinable 8205 = true /\ ws_joinable 2307 = true
  /\ ws_joinable 97 = false /\ is_prepend 1536 = true.
Proof. vm_compute. repeat split; reflexivity. Qed.
Example no_mixedb_witness : no_mixedb [97; 13; 10; 32; 101; 769] = true /\ no_mixedb [97; 32; 769] = false.
Proof. vm_compute. split; reflexivity. Qed.
Example break_after_witness : break_after [97; 32] 769 = false /\ break_after [127462; 127463] 127464 = true
  /\ break_after [127462] 127463 = false /\ break_after [2325; 2381] 2325 = false.
Proof. vm_compute. repeat split; reflexivity. Qed.
(** premises of [segment_split] at a context-dependent boundary: after two Regional_Indicators
    a third one starts a new cluster, and is segmented as at the start of a text *)
Example segment_split_witness :
  break_after [127462; 127463] 127464 = true
  /\ advance (fst (state_of [127462; 127463])) 127464 (gcb 127464) = advance ctx0 127464 (gcb 127464).
Proof. vm_compute. split; reflexivity. Qed.

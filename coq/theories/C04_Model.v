(** C04 model: the id space of the byte, character and BPE tokenizers
    (src/tokenization.rs: Vocab::build, new_base_tokenizer, ByteTokenizer::new_with,
    CharTokenizer::new, BPETokenizer::new and their vocab_size / get_vocab / id_to_token /
    token_to_id / pad, prefix, suffix, unk ids / de_tokenize of a single id).
    Builds on C01_Model (special vocabulary, byte and char tokenizers, UTF-8 decoder).
    The BPE part models only the id layout (bytes 0..255, merge i at 256+i, specials after),
    not the merge loop. [BPETokenizer::id_to_token] is the repaired one (defect D2). *)
From TU Require Import Base C01_Model.
Open Scope N_scope.

Definition bytes_reg : list (list byte) := map (fun k => [N.of_nat k]) (seq 0 256).

(** a built tokenizer: kind (0 byte, 1 char, 2 BPE), regular tokens in id order, character
    alphabet (char), retained merges in id order (BPE), the special-token base *)
Record tk := { k_kind : N; k_reg : list (list byte); k_A : list cp; k_merges : list (list byte); k_base : base }.

Record cfg4 := { q_kind : N; q_padto : option N; q_tokens : list str; q_pad : str;
                 q_prefix : list str; q_suffix : list str; q_unk : str; q_alpha : list cp;
                 q_merges : list (list byte); q_maxv : option N }.

(** [BPETokenizer::new]: [limit = max_vocab_size - tokens.len() - 256] (saturating, [tokens.len()]
    counts duplicates); merges with id >= limit are dropped. The table is given in id order. *)
Definition bpe_keep (maxv : option N) (ntok : nat) (merges : list (list byte)) : list (list byte) :=
  match maxv with
  | None => merges
  | Some m => firstn (N.to_nat (m - N.of_nat ntok - 256)) merges
  end.

Definition build (q : cfg4) : option tk :=
  match q_kind q with
  | 0 => option_map (fun b => {| k_kind := 0; k_reg := bytes_reg; k_A := []; k_merges := []; k_base := b |})
                    (byte_base (q_tokens q) (q_padto q) (q_pad q) (q_prefix q) (q_suffix q))
  | 1 => option_map (fun b => {| k_kind := 1; k_reg := map utf8 (q_alpha q); k_A := q_alpha q; k_merges := []; k_base := b |})
                    (char_base (q_alpha q) (q_tokens q) (q_unk q) (q_pad q) (q_prefix q) (q_suffix q))
  | _ => let ms := bpe_keep (q_maxv q) (length (q_tokens q)) (q_merges q) in
         option_map (fun b => {| k_kind := 2; k_reg := bytes_reg ++ ms; k_A := []; k_merges := ms; k_base := b |})
                    (mk_base (256 + N.of_nat (length ms)) (q_tokens q) (q_pad q) (q_prefix q) (q_suffix q))
  end.

Definition n_reg (t : tk) : N := N.of_nat (length (k_reg t)).
Definition k_sv (t : tk) : list str := b_sv (k_base t).

Definition vocab_size (t : tk) : N := n_reg t + N.of_nat (length (k_sv t)).

(** [get_vocab]: the values of a BTreeMap keyed by id *)
Definition get_vocab (t : tk) : list (list byte) := k_reg t ++ map utf8s (k_sv t).

Definition sp_bytes (t : tk) (id : N) : option (list byte) :=
  option_map utf8s (sp_tok (b_off (k_base t)) (k_sv t) id).

Definition id_to_token (t : tk) (id : N) : option (list byte) :=
  match k_kind t with
  | 0 => if id <? 256 then Some [id] else sp_bytes t id
  | 1 => match sp_bytes t id with
         | Some x => Some x
         | None => nth_error (k_reg t) (N.to_nat id)
         end
  | _ => if id <? 256 then Some [id]
         else if id <? n_reg t then nth_error (k_reg t) (N.to_nat id)
         else sp_bytes t id
  end.

Definition token_to_id (t : tk) (s : str) : option N :=
  let sp := sp_id (b_off (k_base t)) (k_sv t) s in
  match k_kind t with
  | 0 => match utf8s s with [x] => Some x | _ => sp end
  | 1 => match sp with
         | Some i => Some i
         | None => match s with [c] => option_map N.of_nat (index_ofN c (k_A t)) | _ => None end
         end
  | _ => match sp with
         | Some i => Some i
         | None => match utf8s s with
                   | [x] => Some x
                   | bs => option_map (fun k => 256 + N.of_nat k) (index_of bs (k_merges t))
                   end
         end
  end.

(** [BPETokenizer::de_tokenize] *)
Fixpoint bpe_decode_bytes (t : tk) (ids : list N) (ign : bool) : option (list byte) :=
  match ids with
  | [] => Some []
  | i :: r =>
    if i <? n_reg t then
      match nth_error (k_reg t) (N.to_nat i) with
      | Some bs => option_map (app bs) (bpe_decode_bytes t r ign)
      | None => None
      end
    else if ign then bpe_decode_bytes t r ign
    else match sp_tok (b_off (k_base t)) (k_sv t) i with
         | Some s => option_map (app (utf8s s)) (bpe_decode_bytes t r ign)
         | None => None
         end
  end.

Definition decode_ids (t : tk) (ids : list N) (ign : bool) : option str :=
  match k_kind t with
  | 0 => byte_decode (k_base t) ids ign
  | 1 => char_decode (k_base t) (k_A t) ids ign
  | _ => obind (bpe_decode_bytes t ids ign) utf8_decode
  end.

Definition unk_id (t : tk) (unk : str) : option N :=
  match k_kind t with 1 => sp_id (b_off (k_base t)) (k_sv t) unk | _ => None end.

(** * Executable premises *)
Fixpoint nodupb (l : list (list N)) : bool :=
  match l with [] => true | x :: r => negb (mem_str x r) && nodupb r end.

(** regular tokens pairwise distinct; merges have at least two bytes (well-formed table) *)
Definition wfb (t : tk) : bool :=
  nodupb (k_reg t) && forallb (fun m => (2 <=? length m)%nat) (k_merges t).

(** no special token is spelled like a regular token *)
Definition disjointb (t : tk) : bool :=
  forallb (fun s => negb (mem_str (utf8s s) (k_reg t))) (k_sv t).

(** * val glue
    input  = (kind padto tokens pad prefix suffix unk alphabet merges maxv probes)
    output = (0) or (1 vocab_size vocab I2T T2I PROBES pad prefix_ids suffix_ids unk? DEC)
             I2T = id_to_token and DEC = de_tokenize of the single id, for every id in [0, vocab_size + 8);
             T2I: per vocabulary entry () if it is not UTF-8, else (token_to_id result);
             PROBES: token_to_id of the extra probe strings. *)
Definition bytes_v (l : list byte) : val := list_v n_v l.

Definition v_cfg4 (v : val) : cfg4 :=
  {| q_kind := v_n (v_nth 0 v); q_padto := v_opt v_n (v_nth 1 v); q_tokens := v_strs (v_nth 2 v);
     q_pad := v_str (v_nth 3 v); q_prefix := v_strs (v_nth 4 v); q_suffix := v_strs (v_nth 5 v);
     q_unk := v_str (v_nth 6 v); q_alpha := v_str (v_nth 7 v); q_merges := v_strs (v_nth 8 v);
     q_maxv := v_opt v_n (v_nth 9 v) |}.

Definition all_ids (t : tk) : list N := map N.of_nat (seq 0 (N.to_nat (vocab_size t) + 8)).

Definition run_C04 (v : val) : val :=
  let q := v_cfg4 v in
  let probes := v_strs (v_nth 10 v) in
  match build q with
  | None => L [I 0]
  | Some t =>
    L [ I 1;
        n_v (vocab_size t);
        list_v bytes_v (get_vocab t);
        list_v (fun id => opt_v bytes_v (id_to_token t id)) (all_ids t);
        list_v (fun tok => match utf8_decode tok with
                           | Some s => L [opt_v n_v (token_to_id t s)]
                           | None => L []
                           end) (get_vocab t);
        list_v (fun p => opt_v n_v (token_to_id t p)) probes;
        n_v (b_pad (k_base t));
        list_v n_v (b_pre (k_base t));
        list_v n_v (b_suf (k_base t));
        opt_v n_v (unk_id t (q_unk q));
        list_v (fun id => opt_v str_v (decode_ids t [id] false)) (all_ids t) ]
  end.

(** ** The executable statement of the property on an implementation output *)
Definition v_bytes (v : val) : list byte := v_list v_n v.

Definition opt_bytes_is (v : val) (o : option (list byte)) : bool :=
  match v, o with
  | L [x], Some b => nlist_eqb (v_bytes x) b
  | L [], None => true
  | _, _ => false
  end.

Definition opt_str_res_is (v : val) (o : option str) : bool := opt_bytes_is v o.

Definition in_range (lo hi : N) (x : N) : bool := (lo <=? x) && (x <? hi).

(** [l] and [m] have the same length and [f] holds of every pair *)
Fixpoint forall2b {A B} (f : A -> B -> bool) (l : list A) (m : list B) : bool :=
  match l, m with
  | [], [] => true
  | x :: l', y :: m' => f x y && forall2b f l' m'
  | _, _ => false
  end.

Definition check_C04 (v out : val) : bool :=
  let q := v_cfg4 v in
  match build q with
  | None => true
  | Some t =>
    if negb (wfb t && forallb scalars (k_sv t) && scalars (k_A t)) then true
    else
    match out with
    | L [I 1%Z; vsv; L vocabv; L i2t; L t2i; L _; padv; L prev; L sufv; unkv; L decv] =>
      let vs := v_n vsv in
      let vocab := map v_bytes vocabv in
      let nr := n_reg t in
      let ids := map N.of_nat (seq 0 (length i2t)) in
      (* get_vocab has exactly vocab_size entries *)
      N.eqb (N.of_nat (length vocab)) vs
      (* every id in [0, vocab_size + 8) was probed *)
      && Nat.eqb (length i2t) (N.to_nat vs + 8) && Nat.eqb (length decv) (N.to_nat vs + 8)
      (* id_to_token(id) = get_vocab()[id] below vocab_size, None above *)
      && forall2b (fun id r => opt_bytes_is r (nth_error vocab (N.to_nat id))) ids i2t
      (* token_to_id maps every UTF-8 token back to its id (specials spelled unlike regular tokens) *)
      && (if disjointb t then
            forall2b (fun id_tok r =>
                        match utf8_decode (snd id_tok), r with
                        | Some _, L [L [I z]] => Z.eqb z (Z.of_N (fst id_tok))
                        | None, L [] => true
                        | _, _ => false
                        end)
                     (combine ids vocab) t2i
          else true)
      (* the special tokens occupy exactly the ids after the regular ones *)
      && forall2b nlist_eqb (skipn (N.to_nat nr) vocab) (map utf8s (k_sv t))
      (* pad / unk / prefix / suffix ids inside the vocabulary, distinct from every regular id *)
      && in_range nr vs (v_n padv)
      && forallb (fun x => in_range nr vs (v_n x)) prev
      && forallb (fun x => in_range nr vs (v_n x)) sufv
      && (match unkv with L [x] => in_range nr vs (v_n x) | L [] => negb (N.eqb (k_kind t) 1) | _ => false end)
      (* decoding a single regular id yields exactly that token's bytes *)
      && forall2b (fun id r =>
                     if id <? nr then opt_str_res_is r (obind (nth_error vocab (N.to_nat id)) utf8_decode)
                     else true) ids decv
    | _ => false
    end
  end.

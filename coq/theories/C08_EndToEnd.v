(** C08 end to end: the train loader as the composition of the modelled stages

      generator output (C07)  --enumerate/take/skip/step_by (C08)-->  selected positions
        --filter_map ok--> --pipe(pipeline) (C05: transparent)--> --filter_map ok-->  delivered items
        --batched (C06)-->  batches  --buffered (C09: transparent)-->

    and the statement the property makes about a WORLD of W ranks: whatever the batching
    configuration, the oracle (= seed) of each rank and the thread schedule, the batches of all
    ranks together contain exactly the items of the single-process run, each once.
    Definitions and proofs; the pinned statements are in C08_Props.v. *)
From Coq Require Import Sorting.Sorted Sorting.Permutation.
From TU Require Import Base C06_Model C06_Top C08_Model C08_Proofs.
Require Import Lia.

Section EndToEnd.
  Context {D B : Type}.
  (** [data]: the generator's output, position by position ([None] = the json line did not parse);
      [g i d]: the user pipeline applied to the item of global position [i] (it sees the data and the
      seed [seed + epoch + i], nothing else — the purity assumption), [None] = [Err] (item dropped). *)
  Variable data : list (option D).
  Variable g : nat -> D -> option B.

  Definition item_at (i : nat) : option (nat * B) :=
    match nth i data None with
    | Some d => match g i d with Some b => Some (i, b) | None => None end
    | None => None
    end.

  Fixpoint keep_some {X} (l : list (option X)) : list X :=
    match l with [] => [] | Some x :: r => x :: keep_some r | None :: r => keep_some r end.

  (** what one rank delivers to its batcher, in order, tagged with the global position *)
  Definition loader_items (lim skip ff rank W : nat) : list (nat * B) :=
    keep_some (map item_at (sel lim skip ff rank W (length data))).

  Definition oks : list bool := map (fun o => match o with Some _ => true | None => false end) data.
  Definition ress : list bool :=
    map (fun i => match nth i data None with
                  | Some d => match g i d with Some _ => true | None => false end
                  | None => false end) (seq 0 (length data)).

  Lemma nth_oks i : nth i oks false = match nth i data None with Some _ => true | None => false end.
  Proof.
    unfold oks.
    exact (map_nth (fun o : option D => match o with Some _ => true | None => false end) data None i).
  Qed.

  Lemma nth_ress i : i < length data ->
    nth i ress false = match nth i data None with
                       | Some d => match g i d with Some _ => true | None => false end
                       | None => false end.
  Proof.
    intros H. unfold ress.
    set (f := fun i => match nth i data None with
                  | Some d => match g i d with Some _ => true | None => false end
                  | None => false end).
    rewrite (nth_indep (map f (seq 0 (length data))) false (f 0)) by (rewrite map_length, seq_length; exact H).
    rewrite (map_nth f). rewrite seq_nth by exact H. reflexivity.
  Qed.

  Lemma keep_some_map_filter (l : list nat) : Forall (fun i => i < length data) l ->
    map fst (keep_some (map item_at l)) = delivered oks ress l.
  Proof.
    induction l as [|i l IH]; intros HF; [reflexivity|].
    inversion HF as [|? ? Hi HF']; subst.
    cbn [map keep_some]. unfold delivered in *. cbn [filter].
    rewrite nth_oks, (nth_ress i Hi). unfold item_at at 1.
    destruct (nth i data None) as [d|]; cbn [andb].
    - destruct (g i d) as [b|]; cbn [map fst]; rewrite (IH HF'); reflexivity.
    - exact (IH HF').
  Qed.

  Lemma in_skipn_l {X} (x : X) : forall k (l : list X), In x (skipn k l) -> In x l.
  Proof. induction k as [|k IH]; intros [|y l] H; cbn [skipn] in H; auto. right. exact (IH l H). Qed.

  Lemma in_firstn_l {X} (x : X) : forall k (l : list X), In x (firstn k l) -> In x l.
  Proof.
    induction k as [|k IH]; intros [|y l] H; cbn [firstn] in H; auto; try contradiction.
    destruct H as [H|H]; [left; exact H|right; exact (IH l H)].
  Qed.

  Lemma sel_in_range lim skip ff rank W N : Forall (fun i => i < N) (sel lim skip ff rank W N).
  Proof.
    apply Forall_forall. intros i Hi. unfold sel, select, step_by in Hi.
    apply sb_in in Hi. apply in_skipn_l in Hi. apply in_firstn_l in Hi.
    apply in_seq in Hi. lia.
  Qed.

  (** the positions a rank delivers are exactly C08's [stream] for the derived oracles *)
  Lemma loader_positions_l lim skip ff rank W :
    map fst (loader_items lim skip ff rank W) = stream oks ress lim skip ff rank W (length data).
  Proof. unfold loader_items, stream. apply keep_some_map_filter, sel_in_range. Qed.

  (** every delivered item is the pipeline's value for its global position: the same value in
      every (rank, world size, fast-forward, skip) that delivers it *)
  Lemma loader_item_value_l lim skip ff rank W i b :
    In (i, b) (loader_items lim skip ff rank W) ->
    exists d, nth i data None = Some d /\ g i d = Some b.
  Proof.
    unfold loader_items. generalize (sel lim skip ff rank W (length data)) as l.
    induction l as [|j l IH]; cbn [map keep_some]; [intros []|].
    destruct (item_at j) as [[j' b']|] eqn:E.
    - intros [H|H]; [|exact (IH H)].
      unfold item_at in E.
      destruct (nth j data None) as [d|] eqn:En; [|discriminate].
      destruct (g j d) as [b0|] eqn:Eg; [|discriminate].
      injection E as Ej Eb. injection H as Hj Hb. subst j' b' i b.
      exists d. split; [exact En|exact Eg].
    - exact IH.
  Qed.

  Lemma keep_some_perm {X} (l1 l2 : list (option X)) : Permutation l1 l2 -> Permutation (keep_some l1) (keep_some l2).
  Proof.
    induction 1 as [|x l l' H IH|x y l|l l' l'' H1 IH1 H2 IH2].
    - constructor.
    - destruct x; cbn [keep_some]; [constructor|]; exact IH.
    - destruct x, y; cbn [keep_some]; try apply Permutation_refl. apply perm_swap.
    - eapply Permutation_trans; eassumption.
  Qed.

  Lemma keep_some_app {X} (a b : list (option X)) : keep_some (a ++ b) = keep_some a ++ keep_some b.
  Proof. induction a as [|[x|] a IH]; cbn [app keep_some]; rewrite ?IH; reflexivity. Qed.

  Lemma keep_some_concat (ls : list (list nat)) :
    keep_some (map item_at (concat ls)) = concat (map (fun l => keep_some (map item_at l)) ls).
  Proof.
    induction ls as [|l ls IH]; [reflexivity|].
    cbn [concat map]. rewrite map_app, keep_some_app, IH. reflexivity.
  Qed.

  Lemma sorted_lt_nodup (l : list nat) : StronglySorted lt l -> NoDup l.
  Proof.
    induction 1 as [|x l Hs IH Hx]; constructor; [|exact IH].
    intros Hin. rewrite Forall_forall in Hx. specialize (Hx x Hin). lia.
  Qed.

  Lemma nodup_app_disj {X} (a b : list X) : NoDup a -> NoDup b -> (forall x, In x a -> ~ In x b) -> NoDup (a ++ b).
  Proof.
    induction a as [|x a IH]; intros Ha Hb Hd; [exact Hb|].
    inversion Ha as [|? ? Hx Ha']; subst. cbn [app]. constructor.
    - rewrite in_app_iff. intros [H|H]; [exact (Hx H)|]. exact (Hd x (or_introl eq_refl) H).
    - apply IH; [exact Ha'|exact Hb|]. intros y Hy. apply Hd. right. exact Hy.
  Qed.

  Lemma nodup_concat_ranks lim skip ff W N (rs : list nat) :
    NoDup rs -> Forall (fun r => r < W) rs ->
    NoDup (concat (map (fun r => sel lim skip ff r W N) rs)).
  Proof.
    induction rs as [|r rs IH]; intros Hnd HF; [constructor|].
    inversion Hnd as [|? ? Hnotin Hnd']; subst. inversion HF as [|? ? Hr HF']; subst.
    cbn [map concat]. apply nodup_app_disj.
    - apply sorted_lt_nodup, sel_sorted_l.
    - exact (IH Hnd' HF').
    - intros i Hi Hc. apply in_concat in Hc. destruct Hc as [l' [Hl' Hil']].
      apply in_map_iff in Hl'. destruct Hl' as [r' [<- Hr']].
      rewrite Forall_forall in HF'. specialize (HF' r' Hr').
      apply (ranks_disjoint_l lim skip ff W N r r' i Hr HF'); [|exact Hi|exact Hil'].
      intros ->. exact (Hnotin Hr').
  Qed.

  (** the selections of the W ranks, concatenated, are a permutation of the single-process selection *)
  Lemma ranks_perm_l lim skip ff W N : 1 <= W ->
    Permutation (concat (map (fun r => sel lim skip ff r W N) (seq 0 W))) (sel lim skip ff 0 1 N).
  Proof.
    intros HW. apply NoDup_Permutation.
    - apply nodup_concat_ranks; [apply seq_NoDup|]. apply Forall_forall. intros r Hr. apply in_seq in Hr. lia.
    - apply sorted_lt_nodup, sel_sorted_l.
    - intros i. rewrite (ranks_union_l lim skip ff W N i HW). split.
      + intros Hc. apply in_concat in Hc. destruct Hc as [l [Hl Hi]].
        apply in_map_iff in Hl. destruct Hl as [r [<- Hr]]. apply in_seq in Hr.
        exists r. split; [lia|exact Hi].
      + intros [r [Hr Hi]]. apply in_concat. exists (sel lim skip ff r W N). split; [|exact Hi].
        apply in_map_iff. exists r. split; [reflexivity|]. apply in_seq. lia.
  Qed.

  (** ... hence so are the delivered items *)
  Lemma world_items_perm_l lim skip ff W : 1 <= W ->
    Permutation (concat (map (fun r => loader_items lim skip ff r W) (seq 0 W)))
                (loader_items lim skip ff 0 1).
  Proof.
    intros HW. unfold loader_items.
    rewrite <- (map_map (fun r => sel lim skip ff r W (length data)) (fun l => keep_some (map item_at l))).
    rewrite <- keep_some_concat.
    apply keep_some_perm, Permutation_map, ranks_perm_l, HW.
  Qed.

  (** ** with batching *)
  Variable size : (nat * B) -> nat.

  (** every rank batches its own delivered items with its own configuration-independent oracle
      (rng state); [world_batches] holds when rank [r]'s run produced [nth r bss []] *)
  Definition world_batches sort shuffle prefetch blim ty (os : nat -> oracle) lim skip ff W
             (bss : list (list (list (nat * B)))) : Prop :=
    length bss = W /\
    forall r, r < W ->
      batches size sort shuffle prefetch blim ty (os r) (loader_items lim skip ff r W) = Ok (nth r bss []).

  Lemma concat_map_perm {X} (f h : nat -> list X) (rs : list nat) :
    (forall r, In r rs -> Permutation (f r) (h r)) ->
    Permutation (concat (map f rs)) (concat (map h rs)).
  Proof.
    induction rs as [|r rs IH]; intros H; [constructor|].
    cbn [map concat]. apply Permutation_app.
    - apply H. left. reflexivity.
    - apply IH. intros r' Hr'. apply H. right. exact Hr'.
  Qed.

  Lemma concat_concat_map {X} (f : nat -> list (list X)) (rs : list nat) :
    concat (concat (map f rs)) = concat (map (fun r => concat (f r)) rs).
  Proof.
    induction rs as [|r rs IH]; [reflexivity|].
    cbn [map concat]. rewrite concat_app, IH. reflexivity.
  Qed.

  (** The batches of all ranks of a world together hold exactly the items of the single-process
      run, each once — for every batching mode, limit, prefetch factor, and every oracle per rank. *)
  Lemma world_batches_partition_l sort shuffle prefetch blim ty os lim skip ff W bss : 1 <= W ->
    world_batches sort shuffle prefetch blim ty os lim skip ff W bss ->
    Permutation (concat (concat bss)) (loader_items lim skip ff 0 1).
  Proof.
    intros HW [Hlen Hall].
    eapply Permutation_trans; [|apply world_items_perm_l; exact HW].
    assert (Hbss : bss = map (fun r => nth r bss []) (seq 0 W)).
    { rewrite <- Hlen. clear. induction bss as [|b bss IH] using rev_ind; [reflexivity|].
      rewrite app_length. cbn [length]. rewrite Nat.add_1_r, seq_S, map_app. cbn [map plus].
      rewrite app_nth2 by lia. rewrite Nat.sub_diag. cbn [nth]. f_equal.
      rewrite IH at 1. apply map_ext_in. intros r Hr. apply in_seq in Hr.
      rewrite app_nth1 by lia. reflexivity. }
    rewrite Hbss at 1. rewrite concat_concat_map.
    apply concat_map_perm. intros r Hr. apply in_seq in Hr.
    apply (batches_partition_l _ size sort shuffle prefetch blim ty (os r)). apply Hall. lia.
  Qed.

  (** no batch of any rank is empty, and every batch with more than one item respects the limit *)
  Lemma world_batches_wellformed_l sort shuffle prefetch blim ty os lim skip ff W bss r : r < W ->
    world_batches sort shuffle prefetch blim ty os lim skip ff W bss ->
    Forall (fun b => b <> []) (nth r bss []) /\
    Forall (fun b => 1 < length b -> limit size ty b <= Nat.max blim 1) (nth r bss []).
  Proof.
    intros Hr [_ Hall]. specialize (Hall r Hr). split.
    - exact (batches_nonempty_l _ size sort shuffle prefetch blim ty (os r) _ _ Hall).
    - exact (batches_limit_l _ size sort shuffle prefetch blim ty (os r) _ _ Hall).
  Qed.
End EndToEnd.

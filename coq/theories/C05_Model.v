(** C05: val glue around the Pipe LTS.
    input  = (mode xs W choices)
             mode 0: controlled schedule of the real threads (W >= 1), [choices] drives the scheduler
             mode 1: free-running threads (W >= 0) with per-item delays ([choices] = delays, ignored here)
    output = (events out ended counts)
             events: (actor code idx pulled) per scheduler step (mode 0; empty in mode 1)
             out: the items the consumer received, ended: it then saw end of stream,
             counts: how often the pipeline function ran for each input *)
From TU Require Import Base Pipe_Model.
Local Open Scope Z_scope.

Definition fZ (x : Z) : Z := 3 * x + 1.

Definition ev_v (e : event) : val :=
  match e with (a, c, i, p) => L [nat_v a; nat_v c; nat_v i; nat_v p] end.

Definition pipe_fuel (n W nchoices : nat) : nat := (nchoices + (6 * n + W + 2) * (W + 3))%nat.

Definition count_nat (x : nat) (l : list nat) : nat := length (filter (Nat.eqb x) l).

Definition run_C05 (v : val) : val :=
  let mode := v_nat (v_nth 0 v) in
  let xs := v_list v_z (v_nth 1 v) in
  let W := v_nat (v_nth 2 v) in
  let choices := v_list v_nat (v_nth 3 v) in
  let n := length xs in
  match mode with
  | O =>
      let '(evs, s) := run_sched Z Z fZ 0 (pipe_fuel n W (length choices)) 0 choices None (init Z Z xs W) in
      let ended := existsb (fun e => match e with (_, c, _, _) => Nat.eqb c 12 end) evs in
      L [list_v ev_v evs; list_v z_v (out s); bool_v ended;
         list_v nat_v (map (fun i => count_nat i (log s)) (seq 0 n))]
  | _ =>
      L [L []; list_v z_v (map fZ xs); bool_v true; list_v nat_v (repeat 1%nat n)]
  end.

Fixpoint zlist_eqb (a b : list Z) : bool :=
  match a, b with
  | [], [] => true
  | x :: a', y :: b' => Z.eqb x y && zlist_eqb a' b'
  | _, _ => false
  end.

(** the property on an implementation output: exactly f(x0), f(x1), … in order,
    then end of stream, each input processed exactly once *)
Definition check_C05 (v o : val) : bool :=
  let xs := v_list v_z (v_nth 1 v) in
  match o with
  | L [L _; L _; I _; L _] =>
      zlist_eqb (v_list v_z (v_nth 1 o)) (map fZ xs)
      && v_bool (v_nth 2 o)
      && zlist_eqb (v_list v_z (v_nth 3 o)) (repeat 1 (length xs))
  | _ => false
  end.

(** C11 model: text::clean, text::word_boundaries (src/text.rs),
    whitespace::remove, whitespace::full (src/whitespace.rs) on cluster lists
    (the [CharString] of src/unicode.rs). Code-point mode: the segmentation is
    [singletons s], defined here. Grapheme mode: the segmentation is an input
    (what unicode-segmentation returned, supplied by the harness).
    Since UAX29_Model.v the segmenter itself is modelled as well ([segment]); the
    harness' cluster lists stay the input of [run_C11]/[check_C11], and
    [uax29_agree] (part of the correspondence relation [agree]) demands that
    [segment] reproduces them.
    Definitions only. *)
From TU Require Import Base UAX29_Model.
Open Scope N_scope.

(** * Specification vocabulary *)

Definition head_is {A} (p : A -> bool) (l : list A) : bool :=
  match l with x :: _ => p x | [] => false end.

(** maximal runs of elements that are not [ws] ("whitespace-split words") *)
Definition attach {A} (c : A) (opn : bool) (w : list (list A)) : list (list A) :=
  if opn then match w with x :: rest => (c :: x) :: rest | [] => [[c]] end
  else [c] :: w.
Fixpoint wordsP {A} (ws : A -> bool) (l : list A) : list (list A) :=
  match l with
  | [] => []
  | c :: r => if ws c then wordsP ws r
              else attach c (head_is (fun x => negb (ws x)) r) (wordsP ws r)
  end.
(** code-point words of a string; cluster words of a segmentation *)
Definition words (s : str) : list str := wordsP is_ws s.
Definition words_cl (seg : list cluster) : list (list cluster) := wordsP cl_ws seg.

Fixpoint join {A} (sep : list A) (l : list (list A)) : list A :=
  match l with
  | [] => []
  | w :: r => match r with [] => w | _ :: _ => w ++ sep ++ join sep r end
  end.

Definition nonws_cp (c : cp) : bool := negb (is_ws c).
Definition nonws_cl (c : cluster) : bool := negb (cl_ws c).
Definition strip_cps (s : str) : str := filter nonws_cp s.
Definition strip_cl (seg : list cluster) : list cluster := filter nonws_cl seg.

(** * The code *)

(** [str::trim]: drop leading and trailing White_Space code points *)
Fixpoint dropws (s : str) : str :=
  match s with
  | [] => []
  | c :: r => if is_ws c then dropws r else s
  end.
Definition trim (s : str) : str := rev (dropws (rev (dropws s))).

Definition is_nil {A} (l : list A) : bool := match l with [] => true | _ => false end.

(** [clean]: [lw] = last_was_whitespace, [ne] = !output.is_empty() *)
Fixpoint clean_aux (lw ne : bool) (chars : list cluster) : str :=
  match chars with
  | [] => []
  | c :: r =>
    if cl_ws c then clean_aux true ne r
    else let t := trim c in
         (if lw && ne then [32] else []) ++ t ++ clean_aux false (ne || negb (is_nil t)) r
  end.
Definition clean (seg : list cluster) : str := clean_aux false false seg.

(** [word_boundaries]: [idx] = loop index (= num_elements at the end),
    [start] = the Option<usize> *)
Fixpoint wb_aux (idx : nat) (start : option nat) (chars : list cluster) : list (nat * nat) :=
  match chars with
  | [] => match start with
          | Some st => if Nat.ltb st idx then [(st, idx)] else []
          | None => []
          end
  | c :: r =>
    match cl_ws c, start with
    | true, Some st => (st, idx) :: wb_aux (S idx) None r
    | false, None => wb_aux (S idx) (Some idx) r
    | _, _ => wb_aux (S idx) start r
    end
  end.
Definition word_boundaries (seg : list cluster) : list (nat * nat) := wb_aux 0 None seg.

(** [remove] / [full]: filter, then itertools' join *)
Definition remove (seg : list cluster) : str := concat (filter nonws_cl seg).
Definition full (seg : list cluster) : str := join [32] (filter nonws_cl seg).

(** * Executable hypotheses and statement *)

(** no empty cluster; every cluster all-whitespace or whitespace-free *)
Definition nomixed_cl (c : cluster) : bool := cl_ws c || forallb nonws_cp c.
Definition wf_seg (seg : list cluster) : bool :=
  forallb (fun c => negb (is_nil c) && nomixed_cl c) seg.

(** whitespace-clean string (code-point level): the only whitespace is U+0020,
    never leading, trailing or doubled *)
Fixpoint scs (s : str) : bool :=
  match s with
  | [] => true
  | c :: r => (if is_ws c then N.eqb c 32 && head_is nonws_cp r else true) && scs r
  end.
Definition cleansb (s : str) : bool := negb (head_is is_ws s) && scs s.

Definition sub {A} (l : list A) (r : nat * nat) : list A := firstn (snd r - fst r) (skipn (fst r) l).

(** [wbs] tiles [l] (whose first element has index [lo]): gap of whitespace,
    range of non-whitespace that cannot be extended to the right, gap, ... *)
Fixpoint tile (lo : nat) (l : list cluster) (wbs : list (nat * nat)) : bool :=
  match wbs with
  | [] => forallb cl_ws l
  | (a, b) :: wbs' =>
      Nat.leb lo a && Nat.ltb a b && Nat.leb (b - lo) (length l)
      && forallb cl_ws (firstn (a - lo) l)
      && forallb nonws_cl (firstn (b - a) (skipn (a - lo) l))
      && negb (head_is nonws_cl (skipn (b - lo) l))
      && tile b (skipn (b - lo) l) wbs'
  end.

Fixpoint cll_eqb (a b : list cluster) : bool :=
  match a, b with
  | [], [] => true
  | x :: a', y :: b' => cl_eqb x y && cll_eqb a' b'
  | _, _ => false
  end.
Fixpoint clll_eqb (a b : list (list cluster)) : bool :=
  match a, b with
  | [], [] => true
  | x :: a', y :: b' => cll_eqb x y && clll_eqb a' b'
  | _, _ => false
  end.

(** * val glue
    input  = (g seg seg2)  g: use_graphemes; seg: clusters of the text;
             seg2: clusters of the cleaned text (grapheme mode; ignored in
             code-point mode where both are [singletons])
    output = (clean boundaries remove full clean-of-clean?) *)
Definition v_clusters (v : val) : list cluster := v_list (v_list v_n) v.
Definition v_pair (v : val) : nat * nat := (v_nat (v_nth 0 v), v_nat (v_nth 1 v)).
Definition pair_nat_v (p : nat * nat) : val := L [nat_v (fst p); nat_v (snd p)].

Definition in_seg (v : val) : list cluster :=
  if v_bool (v_nth 0 v) then v_clusters (v_nth 1 v)
  else singletons (concat (v_clusters (v_nth 1 v))).
(** segmentation of the cleaned text [c] *)
Definition in_seg2 (v : val) (c : str) : list cluster :=
  if v_bool (v_nth 0 v) then v_clusters (v_nth 2 v) else singletons c.

Definition run_C11 (v : val) : val :=
  let seg := in_seg v in
  let c := clean seg in
  let seg2 := in_seg2 v c in
  L [ list_v n_v c;
      list_v pair_nat_v (word_boundaries seg);
      list_v n_v (remove seg);
      list_v n_v (full seg);
      opt_v (list_v n_v) (if nlist_eqb (concat seg2) c then Some (clean seg2) else None) ].

Definition shape5 (out : val) : bool :=
  match out with L [L _; L _; L _; L _; L _] => true | _ => false end.

Definition check_C11 (v out : val) : bool :=
  let seg := in_seg v in
  let s := concat seg in
  let c := v_list v_n (v_nth 0 out) in
  let wbs := v_list v_pair (v_nth 1 out) in
  let rm := v_list v_n (v_nth 2 out) in
  let fl := v_list v_n (v_nth 3 out) in
  let c2 := v_opt (v_list v_n) (v_nth 4 out) in
  let seg2 := in_seg2 v c in
  shape5 out &&
  (if wf_seg seg then
     (* normal form: the words joined by single spaces *)
     nlist_eqb c (join [32] (words s))
     (* no leading/trailing/consecutive whitespace, only U+0020 *)
     && cleansb c
     (* same non-whitespace code points in the same order *)
     && nlist_eqb (strip_cps c) (strip_cps s)
     (* idempotent (the cleaned text is segmented by [seg2]) *)
     && nlist_eqb (concat seg2) c
     && match c2 with Some c' => nlist_eqb c' c | None => false end
     (* boundaries: exactly the ranges of the words, in order *)
     && tile 0 seg wbs
     && clll_eqb (map (sub seg) wbs) (words_cl seg)
     (* remove / full *)
     && nlist_eqb rm (strip_cps s)
     && nlist_eqb fl (join [32] (strip_cl seg))
   else true).

(** * Correspondence of the segmenter itself (grapheme mode): the model's own
    [segment] of the text and of the cleaned text must be the cluster lists the
    real [CharString] produced. Part of [agree], not of [check_C11]: a mismatch
    is a model/implementation disagreement, not a property failure. *)
Definition uax29_agree (v : val) : bool :=
  if v_bool (v_nth 0 v) then
    let seg := v_clusters (v_nth 1 v) in
    let seg2 := v_clusters (v_nth 2 v) in
    cll_eqb (segment (concat seg)) seg && cll_eqb (segment (concat seg2)) seg2
  else true.

(** Specification-level restatements of the UCD model's predicates in terms of membership in the
    translated tables (no search trees, no fast paths). *)
From TU Require Import Base UCD_Model UCD_Ranges UCD_Lower UCD_Words.
From Coq Require Import Lia.
Open Scope N_scope.

Definition all_sets : list rset :=
  [std_alphabetic; std_case_ignorable; std_lowercase; std_uppercase; std_lt; re_alphabetic; re_mark;
   re_decimal_number; re_connector_punctuation; re_join_control; re_punctuation; re_perl_word].

Lemma tables_sorted_l :
  forallb (fun t => ranges_sorted 0 (unit_ranges t)) all_sets = true
  /\ ranges_sorted 0 lower_singles_list = true.
Proof. split; vm_compute; reflexivity. Qed.

Lemma tables_lookup_l x :
  rmem alphabetic_t x = in_ranges std_alphabetic x
  /\ rmem case_ignorable_t x = in_ranges std_case_ignorable x
  /\ rmem lowercase_t x = in_ranges std_lowercase x
  /\ rmem uppercase_t x = in_ranges std_uppercase x
  /\ rmem lt_t x = in_ranges std_lt x
  /\ rmem re_alphabetic_t x = in_ranges re_alphabetic x
  /\ rmem re_mark_t x = in_ranges re_mark x
  /\ rmem re_nd_t x = in_ranges re_decimal_number x
  /\ rmem re_pc_t x = in_ranges re_connector_punctuation x
  /\ rmem re_jc_t x = in_ranges re_join_control x
  /\ rmem re_punct_t x = in_ranges re_punctuation x
  /\ rmem re_word_t x = in_ranges re_perl_word x
  /\ rlookup lower_singles_t x = llookup lower_singles_list x.
Proof.
  repeat split; first [apply alphabetic_t_spec|apply case_ignorable_t_spec|apply lowercase_t_spec
    |apply uppercase_t_spec|apply lt_t_spec|apply re_alphabetic_t_spec|apply re_mark_t_spec|apply re_nd_t_spec
    |apply re_pc_t_spec|apply re_jc_t_spec|apply re_punct_t_spec|apply re_word_t_spec|apply lower_singles_t_spec].
Qed.

(** [char::is_alphabetic]: an ASCII letter or a member of the table *)
Lemma is_alphabetic_spec_l c :
  is_alphabetic c = ascii_lower c || ascii_upper c || in_ranges std_alphabetic c.
Proof.
  unfold is_alphabetic. rewrite alphabetic_t_spec. destruct (ascii_lower c || ascii_upper c); [reflexivity|].
  cbn [orb]. destruct (c <=? 169) eqn:E; [|reflexivity]. apply N.leb_le in E.
  destruct (in_ranges std_alphabetic c) eqn:H; [|reflexivity].
  pose proof (sorted_in_ge std_alphabetic 170 c) as G. assert (170 <= c) by (apply G; [vm_compute; reflexivity|exact H]). lia.
Qed.

Lemma is_case_ignorable_spec_l c :
  is_case_ignorable c = existsb (N.eqb c) [39; 46; 58; 94; 96] || in_ranges std_case_ignorable c.
Proof.
  unfold is_case_ignorable. rewrite case_ignorable_t_spec. destruct (c <? 128) eqn:E.
  - apply N.ltb_lt in E. destruct (in_ranges std_case_ignorable c) eqn:H; [|rewrite orb_false_r; reflexivity].
    pose proof (sorted_in_ge std_case_ignorable 168 c) as G. assert (168 <= c) by (apply G; [vm_compute; reflexivity|exact H]). lia.
  - apply N.ltb_ge in E. assert (X : existsb (N.eqb c) [39; 46; 58; 94; 96] = false).
    { cbn [existsb]. rewrite !(proj2 (N.eqb_neq c _)) by lia. reflexivity. }
    rewrite X. reflexivity.
Qed.

Lemma is_cased_spec_l c :
  is_cased c = ascii_lower c || ascii_upper c
               || in_ranges std_lowercase c || in_ranges std_uppercase c || in_ranges std_lt c.
Proof.
  unfold is_cased. rewrite lowercase_t_spec, uppercase_t_spec, lt_t_spec.
  destruct (ascii_lower c || ascii_upper c); [reflexivity|]. cbn [orb].
  destruct (c <=? 169) eqn:E; [|reflexivity]. apply N.leb_le in E.
  assert (G : forall t, ranges_sorted 170 (unit_ranges t) = true -> in_ranges t c = false).
  { intros t Ht. destruct (in_ranges t c) eqn:H; [|reflexivity]. pose proof (sorted_in_ge t 170 c Ht H). lia. }
  rewrite (G std_lowercase), (G std_uppercase), (G std_lt); [reflexivity| | |]; vm_compute; reflexivity.
Qed.

Lemma wclass_spec_l c :
  wclass c = in_ranges re_alphabetic c || in_ranges re_mark c || in_ranges re_connector_punctuation c
             || in_ranges re_join_control c.
Proof. unfold wclass. rewrite re_alphabetic_t_spec, re_mark_t_spec, re_pc_t_spec, re_jc_t_spec. reflexivity. Qed.

Lemma re_word_spec_l c :
  re_word c = in_ranges re_perl_word c
  /\ re_word c = wclass c || in_ranges re_decimal_number c
  /\ (in_ranges re_decimal_number c = true -> wclass c = false).
Proof.
  split; [apply re_word_t_spec|]. split.
  - rewrite re_word_union. unfold re_nd. rewrite re_nd_t_spec. reflexivity.
  - intros H. apply nd_not_class. unfold re_nd. rewrite re_nd_t_spec. exact H.
Qed.

Lemma str_is_punctuation_spec_l s :
  str_is_punctuation s = true <-> s <> [] /\ forall c, In c s -> in_ranges re_punctuation c = true.
Proof.
  destruct s as [|x s]; [split; [discriminate|intros [H _]; congruence]|].
  unfold str_is_punctuation. rewrite forallb_forall. split.
  - intros H. split; [discriminate|]. intros c Hc. rewrite <- re_punct_t_spec. exact (H c Hc).
  - intros [_ H] c Hc. unfold re_punct. rewrite re_punct_t_spec. exact (H c Hc).
Qed.

(** the per-character mapping in terms of the linear lookups *)
Lemma to_lower_spec_l c :
  to_lower c =
  if c <? 192 then [if ascii_upper c then c + 32 else c]
  else match llookup lower_singles_list c with
       | Some (lo, par, d) => if negb par || Bool.eqb (N.odd c) (N.odd lo) then [add_delta c d] else lut_other c
       | None => lut_other c
       end.
Proof.
  destruct (c <? 192) eqn:E.
  - apply N.ltb_lt in E. exact (to_lower_ascii c E).
  - apply N.ltb_ge in E. exact (to_lower_lut c E).
Qed.

(** position by position *)
Lemma to_lowercase_positions_l s :
  to_lowercase s = concat (lower_positions [] s)
  /\ length (lower_positions [] s) = length s
  /\ forall i c, nth_error s i = Some c ->
       nth_error (lower_positions [] s) i = Some (lower_at (rev (firstn i s)) c (skipn (S i) s)).
Proof.
  split; [apply lower_from_positions|]. split; [apply lower_positions_length|].
  intros i c H. rewrite (lower_positions_nth s [] i c H), app_nil_r. reflexivity.
Qed.

(** C19 literal model, proofs part 4: iteration order of the maps ([sperm]),
    [max_byte_pair_lit], and the refinement: every run of the literal loop from
    the initial statistics is a [Run] of the recount specification. *)
From TU Require Import Base C19_Model C19_Proofs C19_Count C19_Check C19_Delta C19_NoDup C19_Lit C19_LitMaps C19_LitScan C19_LitProofs.
From Coq Require Import Lia Permutation.
Open Scope N_scope.
Arguments N.add : simpl never.
Arguments N.sub : simpl never.
Arguments N.mul : simpl never.
Arguments N.ltb : simpl never.
Arguments N.leb : simpl never.
Arguments N.eqb : simpl never.

(** * lookups do not depend on the order of the entries *)
Lemma st_get_notin : forall st q, ~ In q (map fst st) -> st_get st q = None.
Proof.
  intros st q H. destruct (st_get st q) as [i|] eqn:E; [|reflexivity]. apply st_get_in in E.
  exfalso. apply H. apply in_map_iff. exists (q, i). now split.
Qed.
Lemma occ_get_notin : forall ws j, ~ In j (map fst ws) -> occ_get ws j = None.
Proof.
  intros ws j H. destruct (occ_get ws j) as [o|] eqn:E; [|reflexivity]. apply occ_get_in in E.
  exfalso. apply H. apply in_map_iff. exists (j, o). now split.
Qed.

Lemma st_get_perm : forall st s q, NoDup (map fst st) -> Permutation st s -> st_get s q = st_get st q.
Proof.
  intros st s q Hnd Hp.
  assert (Hnd' : NoDup (map fst s)) by (eapply Permutation_NoDup; [apply Permutation_map; exact Hp | exact Hnd]).
  destruct (st_get st q) as [i|] eqn:E.
  - apply in_st_get; [exact Hnd'|]. eapply Permutation_in; [exact Hp|]. now apply st_get_in.
  - apply st_get_notin. intros Hin. apply (st_get_none _ _ E).
    eapply Permutation_in; [apply Permutation_sym, Permutation_map; exact Hp | exact Hin].
Qed.
Lemma occ_get_perm : forall ws ws' j, NoDup (map fst ws) -> Permutation ws ws' -> occ_get ws' j = occ_get ws j.
Proof.
  intros ws ws' j Hnd Hp.
  assert (Hnd' : NoDup (map fst ws')) by (eapply Permutation_NoDup; [apply Permutation_map; exact Hp | exact Hnd]).
  destruct (occ_get ws j) as [o|] eqn:E.
  - apply in_occ_get; [exact Hnd'|]. eapply Permutation_in; [exact Hp|]. now apply occ_get_in.
  - apply occ_get_notin. intros Hin. apply (occ_get_none _ _ E).
    eapply Permutation_in; [apply Permutation_sym, Permutation_map; exact Hp | exact Hin].
Qed.

Lemma st_get_F2 : forall s s1 q, Forall2 same_entry s s1 ->
  match st_get s q, st_get s1 q with
  | Some (f, ws), Some (f1, ws1) => f = f1 /\ Permutation ws ws1
  | None, None => True
  | _, _ => False
  end.
Proof.
  intros s s1 q H; induction H as [|[q0 [f ws]] [q1 [f1 ws1]] r r1 He Hr IH]; cbn [st_get]; [exact Logic.I|].
  destruct He as (E1 & E2 & E3). cbn [fst snd] in *. subst q1 f1.
  destruct (pair_eqb q0 q); [now split | exact IH].
Qed.

Lemma occs_ok_perm : forall n ws ws', occs_ok n ws -> Permutation ws ws' -> occs_ok n ws'.
Proof.
  intros n ws ws' [Hnd Hb] Hp. split.
  - eapply Permutation_NoDup; [apply Permutation_map; exact Hp | exact Hnd].
  - apply Forall_forall. intros io Hin. rewrite Forall_forall in Hb. apply Hb.
    eapply Permutation_in; [apply Permutation_sym; exact Hp | exact Hin].
Qed.

Lemma WF_perm : forall n st s, WF n st -> Permutation st s -> WF n s.
Proof.
  intros n st s [Hnd Hf] Hp. split.
  - eapply Permutation_NoDup; [apply Permutation_map; exact Hp | exact Hnd].
  - apply Forall_forall. intros e Hin. rewrite Forall_forall in Hf. apply Hf.
    eapply Permutation_in; [apply Permutation_sym; exact Hp | exact Hin].
Qed.
Lemma WF_F2 : forall n s s1, WF n s -> Forall2 same_entry s s1 -> WF n s1.
Proof.
  intros n s s1 [Hnd Hf] H2.
  assert (Hk : map fst s1 = map fst s).
  { clear Hnd Hf. induction H2 as [|e e1 r r1 He Hr IH]; [reflexivity|]. cbn [map]. destruct He as (E & _). now rewrite E, IH. }
  split; [now rewrite Hk|]. clear Hnd Hk.
  induction H2 as [|e e1 r r1 He Hr IH]; [constructor|]. inversion Hf as [|? ? H1 Hfr]; subst.
  constructor; [|now apply IH]. destruct He as (_ & _ & E). eapply occs_ok_perm; eassumption.
Qed.

(** the invariant is insensitive to the iteration order at both levels *)
Lemma rep_sperm_l : forall c st st1, Rep c st -> sperm st st1 -> Rep c st1.
Proof.
  intros c st st1 Hrep (s & Hp & H2). apply Rep_WF in Hrep as (Hwf & Hf & Ho). apply Rep_WF.
  pose proof (WF_perm _ _ _ Hwf Hp) as Hwfs.
  split; [eapply WF_F2; eassumption|].
  assert (Hg : forall q, st_get s q = st_get st q) by (intros q; apply st_get_perm; [apply Hwf | exact Hp]).
  split.
  - intros q. rewrite <- Hf. unfold abs_freq. pose proof (st_get_F2 s st1 q H2) as H. rewrite Hg in H.
    destruct (st_get st q) as [[f ws]|], (st_get st1 q) as [[f1 ws1]|]; try contradiction; [|reflexivity].
    now destruct H as [-> _].
  - intros q j. rewrite <- Ho. unfold abs_occ. pose proof (st_get_F2 s st1 q H2) as H. rewrite Hg in H.
    destruct (st_get st q) as [[f ws]|] eqn:Eg, (st_get st1 q) as [[f1 ws1]|]; try contradiction; [|reflexivity].
    destruct H as [_ Hpw]. destruct (WF_entry _ _ _ _ _ Hwf Eg) as [Hndw _].
    now rewrite (occ_get_perm ws ws1 j Hndw Hpw).
Qed.

Lemma sperm_refl : forall st, sperm st st.
Proof.
  intros st. exists st. split; [apply Permutation_refl|].
  induction st as [|e r IH]; constructor; [|exact IH]. repeat split. apply Permutation_refl.
Qed.

(** * (5) [max_byte_pair] *)
Definition freq_of (e : pair * info) : N := fst (snd e).
(** [p] is a key whose recorded frequency is positive and maximal *)
Definition MaxIn (st : stats) (p : pair) : Prop :=
  exists f ws, In (p, (f, ws)) st /\ 0 < f /\ forall e, In e st -> freq_of e <= f.

Lemma max_fold : forall st best, (forall b fb, best = Some (b, fb) -> 0 < fb) ->
  match fold_left max_step st best with
  | None => best = None /\ (forall e, In e st -> freq_of e = 0)
  | Some (p, f) => 0 < f /\ ((exists ws, In (p, (f, ws)) st) \/ best = Some (p, f)) /\
                   (forall e, In e st -> freq_of e <= f) /\ (forall b fb, best = Some (b, fb) -> fb <= f)
  end.
Proof.
  induction st as [|[q [fq ws]] r IH]; intros best Hb; cbn [fold_left].
  - destruct best as [[b fb]|].
    + split; [eapply Hb; reflexivity|]. split; [now right|]. split; [intros e []|]. intros b' fb' E. injection E as _ <-. lia.
    + split; [reflexivity | intros e []].
  - specialize (IH (max_step best (q, (fq, ws)))).
    change (max_step best (q, (fq, ws))) with
      (if 0 <? fq then match best with
                       | None => Some (q, fq)
                       | Some (_, fb) => if fq <? fb then best else Some (q, fq)
                       end
       else best) in *.
    destruct (N.ltb_spec 0 fq) as [Hpos|Hz].
    + destruct best as [[b fb]|].
      * destruct (N.ltb_spec fq fb) as [Hlt|Hge].
        -- specialize (IH Hb). destruct (fold_left max_step r (Some (b, fb))) as [[p f]|].
           ++ destruct IH as (I1 & I2 & I3 & I4). split; [exact I1|]. split; [|split; [|exact I4]].
              ** destruct I2 as [(ws' & Hin)|E]; [left; exists ws'; now right | now right].
              ** intros e [<-|Hin]; [|now apply I3]. unfold freq_of. cbn [fst snd]. specialize (I4 b fb eq_refl). lia.
           ++ destruct IH as [E _]. discriminate.
        -- assert (Hb' : forall b0 fb0, Some (q, fq) = Some (b0, fb0) -> 0 < fb0) by (intros ? ? E; injection E as _ <-; exact Hpos).
           specialize (IH Hb'). destruct (fold_left max_step r (Some (q, fq))) as [[p f]|].
           ++ destruct IH as (I1 & I2 & I3 & I4). specialize (I4 q fq eq_refl). split; [exact I1|]. split; [|split].
              ** destruct I2 as [(ws' & Hin)|E]; [left; exists ws'; now right|]. injection E as <- <-. left. exists ws. now left.
              ** intros e [<-|Hin]; [|now apply I3]. unfold freq_of. cbn [fst snd]. exact I4.
              ** intros b' fb' E. injection E as _ <-. lia.
           ++ destruct IH as [E _]. discriminate.
      * assert (Hb' : forall b0 fb0, Some (q, fq) = Some (b0, fb0) -> 0 < fb0) by (intros ? ? E; injection E as _ <-; exact Hpos).
        specialize (IH Hb'). destruct (fold_left max_step r (Some (q, fq))) as [[p f]|].
        -- destruct IH as (I1 & I2 & I3 & I4). specialize (I4 q fq eq_refl). split; [exact I1|]. split; [|split].
           ++ destruct I2 as [(ws' & Hin)|E]; [left; exists ws'; now right|]. injection E as <- <-. left. exists ws. now left.
           ++ intros e [<-|Hin]; [|now apply I3]. unfold freq_of. cbn [fst snd]. exact I4.
           ++ intros b' fb' E. discriminate.
        -- destruct IH as [E _]. discriminate.
    + assert (fq = 0) by lia. subst fq. specialize (IH Hb). destruct (fold_left max_step r best) as [[p f]|].
      * destruct IH as (I1 & I2 & I3 & I4). split; [exact I1|]. split; [|split; [|exact I4]].
        -- destruct I2 as [(ws' & Hin)|E]; [left; exists ws'; now right | now right].
        -- intros e [<-|Hin]; [|now apply I3]. unfold freq_of. cbn [fst snd]. lia.
      * destruct IH as [E I2]. split; [exact E|]. intros e [<-|Hin]; [reflexivity | now apply I2].
Qed.

Lemma max_lit_some_l : forall st p, max_byte_pair_lit st = Some p -> MaxIn st p.
Proof.
  intros st p H. unfold max_byte_pair_lit in H.
  pose proof (max_fold st None) as M. destruct (fold_left max_step st None) as [[p' f]|]; [|discriminate].
  injection H as ->. destruct M as (M1 & M2 & M3 & _); [intros ? ? E; discriminate|].
  destruct M2 as [(ws & Hin)|E]; [|discriminate]. now exists f, ws.
Qed.

Lemma max_lit_none_l : forall st, max_byte_pair_lit st = None <-> (forall e, In e st -> freq_of e = 0).
Proof.
  intros st. unfold max_byte_pair_lit.
  pose proof (max_fold st None) as M. destruct (fold_left max_step st None) as [[p f]|].
  - destruct M as (M1 & M2 & _); [intros ? ? E; discriminate|]. split; [discriminate|].
    intros Hz. destruct M2 as [(ws & Hin)|E]; [|discriminate]. specialize (Hz _ Hin). unfold freq_of in Hz. cbn [fst snd] in Hz. lia.
  - destruct M as [_ M2]; [intros ? ? E; discriminate|]. split; [intros _; exact M2 | reflexivity].
Qed.

(** under the invariant: [None] iff no pair of the vocabulary has positive
    frequency; otherwise a pair that occurs, with positive and maximal frequency *)
Lemma abs_freq_entry : forall st q f ws, NoDup (map fst st) -> In (q, (f, ws)) st -> abs_freq st q = f.
Proof. intros st q f ws Hnd Hin. unfold abs_freq. now rewrite (in_st_get st q (f, ws) Hnd Hin). Qed.

Lemma abs_freq_le : forall st f, (forall e, In e st -> freq_of e <= f) -> forall q, abs_freq st q <= f.
Proof.
  intros st f H q. unfold abs_freq. destruct (st_get st q) as [[fq ws]|] eqn:E; [|lia].
  apply st_get_in in E. exact (H _ E).
Qed.

Lemma maxin_stepok : forall c st p, Rep c st -> MaxIn st p -> StepOK c p /\ 0 < abs_freq st p.
Proof.
  intros c st p (Hnd & _ & Hf & _) (f & ws & Hin & Hpos & Hmax).
  pose proof (abs_freq_entry st p f ws Hnd Hin) as Hp.
  split; [|lia]. split; [apply pair_freq_pos_in; rewrite <- Hf; lia|]. split; [rewrite <- Hf; lia|].
  intros q. rewrite <- !Hf, Hp. now apply abs_freq_le.
Qed.

Lemma allzero_exhausted : forall c st, Rep c st -> ((forall e, In e st -> freq_of e = 0) <-> Exhausted c).
Proof.
  intros c st (Hnd & _ & Hf & _). unfold Exhausted. split.
  - intros Hz q. rewrite <- Hf. pose proof (abs_freq_le st 0) as H. specialize (H (fun e He => eq_ind_r (fun x => x <= 0) (N.le_refl 0) (Hz e He)) q). lia.
  - intros Hex [q [f ws]] Hin. unfold freq_of. cbn [fst snd]. rewrite <- (abs_freq_entry st q f ws Hnd Hin), Hf. apply Hex.
Qed.

Lemma max_lit_spec_l : forall c st, Rep c st ->
  (max_byte_pair_lit st = None <-> Exhausted c) /\
  (forall p, max_byte_pair_lit st = Some p -> StepOK c p /\ abs_freq st p = pair_freq c p).
Proof.
  intros c st Hrep. split.
  - rewrite max_lit_none_l. now apply allzero_exhausted.
  - intros p H. split; [apply (maxin_stepok c st p Hrep), max_lit_some_l, H|]. now destruct Hrep as (_ & _ & Hf & _).
Qed.

(** * freshness of the merged token along a run (from C19_NoDup) *)
Lemma fresh_occurs : forall c0 pre p, CorpusOK [] c0 -> Occurs c0 pre -> In p (all_pairs (state_after c0 pre)) ->
  Fresh (state_after c0 pre) p /\ Occurs c0 (pre ++ [p]).
Proof.
  intros c0 pre p Hc0 Ho Hin.
  pose proof (occurs_snoc c0 pre p Ho Hin) as Ho'. split; [|exact Ho'].
  pose proof (occurs_nodup_l c0 (pre ++ [p]) Hc0 Ho') as Hnd. rewrite map_app in Hnd. cbn [map] in Hnd.
  pose proof (state_ok pre [] c0 Hc0) as Hcok. cbn [app] in Hcok.
  apply all_pairs_in in Hin as (w & kk & Hw & Hf & Hs).
  pose proof (Hcok _ _ Hw) as Hall. rewrite Forall_forall in Hall.
  destruct (Hall _ Hf) as [Hx _]. destruct (Hall _ Hs) as [Hy _].
  split; [exact Hx|]. split; [exact Hy|]. intros w' k' Hw' Hm.
  pose proof (Hcok _ _ Hw') as Hall'. rewrite Forall_forall in Hall'. destruct (Hall' _ Hm) as [_ [[b Hb]|Hin']].
  - unfold merge in Hb. destruct (fst p) as [|? [|]]; destruct (snd p); cbn in Hb; congruence.
  - apply NoDup_remove_2 in Hnd. apply Hnd. rewrite app_nil_r. exact Hin'.
Qed.

(** one iteration of the loop under the invariant, for any pair with positive
    maximal recorded frequency: the specification accepts it, neither
    [replace_pair] nor [update_stats] fails, and the invariant holds again *)
Lemma lit_step : forall c0 pre c st p, CorpusOK [] c0 -> Occurs c0 pre -> c = state_after c0 pre ->
  Rep c st -> MaxIn st p ->
  StepOK c p /\ Occurs c0 (pre ++ [p]) /\
  exists chs st', replace_pair_lit c p st = Ok (apply_pair c p, chs) /\
                  update_stats_lit st p chs = Ok st' /\ Rep (apply_pair c p) st'.
Proof.
  intros c0 pre c st p Hc0 Ho Hc Hrep Hmax.
  destruct (maxin_stepok c st p Hrep Hmax) as [Hok Hpos]. split; [exact Hok|].
  assert (Hin : In p (all_pairs (state_after c0 pre))) by (rewrite <- Hc; apply Hok).
  destruct (fresh_occurs c0 pre p Hc0 Ho Hin) as [Hfresh Ho']. split; [exact Ho'|].
  rewrite <- Hc in Hfresh. now apply update_lit_ok_l.
Qed.

(** * (4) the literal loop refines the recount specification *)
Lemma lrun_gen : forall c st k o, LRun c st k o ->
  forall c0 pre, CorpusOK [] c0 -> Occurs c0 pre -> c = state_after c0 pre -> Rep c st ->
  exists ps, o = Done ps /\ Run c k ps.
Proof.
  intros c st k o H; induction H as [c st|c st st1 k Hsp Hmax|c st st1 k p e Hsp Hmax Hrp
                                     |c st st1 k p c' chs e Hsp Hmax Hrp Hus
                                     |c st st1 k p c' chs st' o Hsp Hmax Hrp Hus Hrun IH];
    intros c0 pre Hc0 Ho Hc Hrep.
  - exists []. split; [reflexivity | constructor].
  - exists []. split; [reflexivity|]. constructor.
    pose proof (rep_sperm_l c st st1 Hrep Hsp) as Hrep1. now apply (max_lit_spec_l c st1 Hrep1).
  - exfalso. pose proof (rep_sperm_l c st st1 Hrep Hsp) as Hrep1.
    destruct (lit_step c0 pre c st1 p Hc0 Ho Hc Hrep1 (max_lit_some_l _ _ Hmax)) as (_ & _ & chs & st' & E & _).
    congruence.
  - exfalso. pose proof (rep_sperm_l c st st1 Hrep Hsp) as Hrep1.
    destruct (lit_step c0 pre c st1 p Hc0 Ho Hc Hrep1 (max_lit_some_l _ _ Hmax)) as (_ & _ & chs0 & st' & E & E2 & _).
    rewrite E in Hrp. injection Hrp as <- <-. congruence.
  - pose proof (rep_sperm_l c st st1 Hrep Hsp) as Hrep1.
    destruct (lit_step c0 pre c st1 p Hc0 Ho Hc Hrep1 (max_lit_some_l _ _ Hmax)) as (Hok & Ho' & chs0 & st0 & E & E2 & Hrep').
    rewrite E in Hrp. injection Hrp as <- <-. rewrite E2 in Hus. injection Hus as <-.
    destruct (IH c0 (pre ++ [p]) Hc0 Ho') as (ps & -> & Hr); [rewrite state_after_snoc; now rewrite <- Hc | exact Hrep'|].
    exists (p :: ps). split; [reflexivity|]. now constructor.
Qed.

Lemma train_lit_refines_l : forall c k o, CorpusOK [] c -> LRun c (byte_pair_stats_lit c) k o ->
  exists ps, o = Done ps /\ Run c k ps.
Proof.
  intros c k o Hc H. apply (lrun_gen _ _ _ _ H c [] Hc).
  - intros i p Hn. destruct i; discriminate.
  - reflexivity.
  - apply rep_init_l.
Qed.

(** the deterministic instance is a run of the literal loop *)
Lemma train_lit_lrun : forall k c st, LRun c st k (train_lit k c st).
Proof.
  induction k as [|k IH]; intros c st; cbn [train_lit]; [constructor|].
  destruct (max_byte_pair_lit st) as [p|] eqn:Em.
  - destruct (replace_pair_lit c p st) as [[c' chs]|e] eqn:Er.
    + destruct (update_stats_lit st p chs) as [st'|e] eqn:Eu.
      * eapply LRun_step; [apply sperm_refl | exact Em | exact Er | exact Eu | apply IH].
      * eapply LRun_err; [apply sperm_refl | exact Em | exact Er | exact Eu].
    + eapply LRun_panic; [apply sperm_refl | exact Em | exact Er].
  - eapply LRun_none; [apply sperm_refl | exact Em].
Qed.

(** * the replay used by the correspondence check is sound: an accepted trace is
      a run of the recount specification on the observed vocabulary *)
Lemma is_max_maxin : forall st p, is_max st p = true -> MaxIn st p.
Proof.
  intros st p H. unfold is_max in H. destruct (st_get st p) as [[f ws]|] eqn:Eg; [|discriminate].
  apply andb_true_iff in H as [H1 H2]. apply N.ltb_lt in H1. exists f, ws. split; [now apply st_get_in|]. split; [exact H1|].
  intros e He. rewrite forallb_forall in H2. specialize (H2 e He). apply N.leb_le in H2. exact H2.
Qed.

Lemma replay_sound_gen : forall steps k c st c0 pre, CorpusOK [] c0 -> Occurs c0 pre -> c = state_after c0 pre ->
  Rep c st -> replay k c st steps = true -> Run c k (map (fun s : ostep => fst (fst s)) steps).
Proof.
  induction steps as [|[[p oc] ost] r IH]; intros k c st c0 pre Hc0 Ho Hc Hrep H; cbn [map].
  - destruct k; [constructor|]. cbn [replay] in H. destruct (max_byte_pair_lit st) eqn:Em; [discriminate|].
    constructor. now apply (max_lit_spec_l c st Hrep).
  - destruct k as [|k]; cbn [replay] in H; [discriminate|]. apply andb_true_iff in H as [Hm H]. cbn [fst].
    destruct (lit_step c0 pre c st p Hc0 Ho Hc Hrep (is_max_maxin _ _ Hm)) as (Hok & Ho' & chs & st' & E & E2 & Hrep').
    rewrite E, E2 in H. apply andb_true_iff in H as [_ H].
    constructor; [exact Hok|]. apply (IH k _ st' c0 (pre ++ [p]) Hc0 Ho'); [rewrite state_after_snoc; now rewrite <- Hc | exact Hrep' | exact H].
Qed.

Lemma replay_sound_l : forall c k steps, CorpusOK [] c -> replay k c (byte_pair_stats_lit c) steps = true ->
  Run c k (map (fun s : ostep => fst (fst s)) steps).
Proof.
  intros c k steps Hc H. apply (replay_sound_gen steps k c (byte_pair_stats_lit c) c [] Hc); [|reflexivity | apply rep_init_l | exact H].
  intros i p Hn. destruct i; discriminate.
Qed.

(** * what an accepting verdict of [trace_ok] means *)
Lemma word_eqb_eq : forall a b, word_eqb a b = true -> a = b.
Proof.
  induction a as [|x a IH]; destruct b as [|y b]; cbn [word_eqb]; intros H; try reflexivity; try discriminate.
  apply andb_true_iff in H as [H1 H2]. apply nlist_eqb_eq in H1. subst y. f_equal. now apply IH.
Qed.
Lemma tokl_eqb_eq : forall a b, tokl_eqb a b = true -> a = b.
Proof.
  induction a as [|x a IH]; destruct b as [|y b]; cbn [tokl_eqb]; intros H; try reflexivity; try discriminate.
  apply andb_true_iff in H as [H1 H2]. apply nlist_eqb_eq in H1. subst y. f_equal. now apply IH.
Qed.
Lemma corpus_sub_incl : forall a b, corpus_sub a b = true -> incl a b.
Proof.
  intros a b H [w k] Hin. unfold corpus_sub in H. rewrite forallb_forall in H. specialize (H _ Hin).
  apply existsb_exists in H as ([w' k'] & Hin' & E). cbn [fst snd] in E. apply andb_true_iff in E as [E1 E2].
  apply word_eqb_eq in E1. apply N.eqb_eq in E2. now subst.
Qed.

(** if the trace clause of the correspondence accepts an implementation output
    (and the counted words are distinct vocabulary entries), the table in that
    output is the table of an accepted run of the specification — established by
    replaying the literal model against the observed statistics, independently of
    the relational test [accepts] *)
Lemma trace_ok_sound_l : forall v out, NoDup (in_corpus v) -> trace_ok v out = true ->
  exists ps, Run (in_corpus v) (num_merges v) ps /\ map merge ps = out_entries out.
Proof.
  intros v out Hnd H. unfold trace_ok in H.
  set (t := v_nth 5 out) in *. set (c0 := v_corpus (v_nth 0 t)) in *. set (steps := v_list v_step (v_nth 2 t)) in *.
  repeat (apply andb_true_iff in H as [H ?]).
  match goal with Hp : corpus_perm _ _ = true |- _ => unfold corpus_perm in Hp; repeat (apply andb_true_iff in Hp as [Hp ?]) end.
  match goal with Hl : Nat.eqb (length c0) _ = true |- _ => apply Nat.eqb_eq in Hl; rename Hl into Hlen end.
  assert (Hi1 : incl c0 (in_corpus v)) by now apply corpus_sub_incl.
  assert (Hi2 : incl (in_corpus v) c0) by now apply corpus_sub_incl.
  assert (Hperm : Permutation c0 (in_corpus v)).
  { apply Permutation_sym. apply NoDup_Permutation_bis; [exact Hnd | lia | exact Hi2]. }
  assert (Hok : CorpusOK [] c0).
  { intros w k Hin. apply (in_corpus_ok v w k). now apply Hi1. }
  exists (map (fun s : ostep => fst (fst s)) steps). split.
  - eapply Run_perm; [|exact Hperm]. now apply replay_sound_l.
  - rewrite map_map. symmetry. now apply tokl_eqb_eq.
Qed.

(** everything proved about runs of the specification holds of the literal loop *)
Lemma train_lit_table_l : forall c k o, CorpusOK [] c -> LRun c (byte_pair_stats_lit c) k o ->
  exists ps, o = Done ps /\ (length ps <= k)%nat /\ NoDup (map merge ps) /\
    (forall i p, nth_error ps i = Some p ->
       StepOK (state_after c (firstn i ps)) p /\
       TokOK (map merge (firstn i ps)) (fst p) /\ TokOK (map merge (firstn i ps)) (snd p) /\
       (2 <= length (merge p))%nat) /\
    ((length ps < k)%nat -> Exhausted (state_after c ps)).
Proof.
  intros c k o Hc H. destruct (train_lit_refines_l c k o Hc H) as (ps & -> & Hr). exists ps. split; [reflexivity|].
  destruct (run_table_wf_l c k ps Hc Hr) as [Hlen Hwf]. split; [exact Hlen|]. split; [eapply run_nodup_l; eassumption|]. split.
  - intros i p Hn. split; [eapply run_entry_max_l; eassumption | now apply Hwf].
  - now apply run_short_exhausted_l.
Qed.

Lemma train_lit_ok_l : forall c k, CorpusOK [] c ->
  exists ps, train_lit k c (byte_pair_stats_lit c) = Done ps /\ Run c k ps.
Proof. intros c k Hc. apply (train_lit_refines_l c k _ Hc). apply train_lit_lrun. Qed.

Lemma replace_pair_lit_ok_p : forall c st p, Rep c st -> st_get st p <> None ->
  exists chs, replace_pair_lit c p st = Ok (apply_pair c p, chs) /\ NoDup (map ch_idx chs) /\
    (forall idx w nw k, In (idx, w, nw, k) chs <->
       nth_error c idx = Some (w, k) /\ nw = replace_in_word p w /\ 0 < count_pair p (word_pairs w)).
Proof.
  intros c st p H1 H2. destruct (replace_pair_lit_ok_l c st p H1 H2) as (chs & A & B & C & _). now exists chs.
Qed.

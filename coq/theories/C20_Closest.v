(** C20 — get_closest: first pass (minimal distance), second pass (maximal frequency). *)
From TU Require Import Base C12_Model C20_Model C20_Topk.
From Coq Require Import Lia ZifyBool ZifyNat ZifyN Permutation QArith.
Open Scope N_scope.
Arguments N.eqb : simpl never. Arguments N.ltb : simpl never. Arguments N.leb : simpl never.

Definition de := (Q * (word * N))%type.

Lemma q_ltb_lt : forall a b, q_ltb a b = true <-> (a < b)%Q.
Proof.
  intros a b. unfold q_ltb. rewrite negb_true_iff. split; intro H.
  - apply Qnot_le_lt. intro L. apply Qle_bool_iff in L. congruence.
  - destruct (Qle_bool b a) eqn:E; [|reflexivity]. apply Qle_bool_iff in E. exfalso. eapply Qlt_not_le; eassumption.
Qed.
Lemma q_ltb_ge : forall a b, q_ltb a b = false <-> (b <= a)%Q.
Proof.
  intros a b. unfold q_ltb. rewrite negb_false_iff. apply Qle_bool_iff.
Qed.

Definition eqm (m : Q) (x : de) : bool := Qeq_bool (fst x) m.

Lemma filter_none : forall (f : de -> bool) l, (forall x, In x l -> f x = false) -> filter f l = [].
Proof.
  intros f l H. induction l as [|x l IH]; [reflexivity|]. cbn [filter].
  rewrite (H x (or_introl eq_refl)). apply IH. intros y Hy. apply H. right. exact Hy.
Qed.

(** invariant of the first pass after the prefix [p] *)
Definition inv1 (p : list de) (mn : option Q) (ties : list (word * N)) : Prop :=
  match mn with
  | None => p = [] /\ ties = []
  | Some m => (exists x, In x p /\ (fst x == m)%Q) /\ (forall x, In x p -> (m <= fst x)%Q)
              /\ ties = map snd (filter (eqm m) p)
  end.

Lemma pass1_inv : forall r p mn ties, inv1 p mn ties ->
  match p ++ r with
  | [] => pass1 r mn ties = []
  | _ => exists m, (exists x, In x (p ++ r) /\ (fst x == m)%Q) /\ (forall x, In x (p ++ r) -> (m <= fst x)%Q)
                   /\ pass1 r mn ties = map snd (filter (eqm m) (p ++ r))
  end.
Proof.
  induction r as [|[d e] r IH]; intros p mn ties I.
  - rewrite app_nil_r. cbn [pass1]. destruct mn as [m|]; cbn [inv1] in I.
    + destruct I as [[x [Hx Ex]] [Hm Ht]]. destruct p as [|y p]; [destruct Hx|]. exists m.
      split; [exists x; auto|]. split; [exact Hm|exact Ht].
    + destruct I as [-> ->]. reflexivity.
  - assert (Happ0 : forall x : de, p ++ x :: r = (p ++ [x]) ++ r) by (intro; rewrite <- app_assoc; reflexivity).
    pose proof (Happ0 (d, e)) as Happ.
    cbn [pass1]. destruct mn as [m|]; cbn [inv1] in I.
    + destruct I as [[x [Hx Ex]] [Hm Ht]]. subst ties.
      destruct (q_ltb d m) eqn:E1; [|destruct (Qeq_bool d m) eqn:E2].
      * (* new minimum *)
        apply q_ltb_lt in E1. rewrite Happ. apply IH. cbn [inv1]. split; [|split].
        -- exists (d, e). split; [apply in_or_app; right; left; reflexivity|cbn [fst]; reflexivity].
        -- intros y Hy. apply in_app_or in Hy as [Hy|[<-|[]]]; cbn [fst].
           ++ apply Qlt_le_weak. eapply Qlt_le_trans; [exact E1|apply Hm, Hy].
           ++ apply Qle_refl.
        -- rewrite filter_app. rewrite filter_none.
           ++ cbn [filter eqm fst app]. unfold eqm. cbn [fst].
              replace (Qeq_bool d d) with true by (symmetry; apply Qeq_bool_iff; reflexivity). reflexivity.
           ++ intros y Hy. unfold eqm. destruct (Qeq_bool (fst y) d) eqn:Ey; [|reflexivity].
              apply Qeq_bool_iff in Ey. exfalso. apply (Qlt_not_le _ _ E1). rewrite <- Ey. apply Hm, Hy.
      * (* tie *)
        rewrite Happ. apply IH. cbn [inv1]. split; [|split].
        -- exists x. split; [apply in_or_app; left; exact Hx|exact Ex].
        -- intros y Hy. apply in_app_or in Hy as [Hy|[<-|[]]]; cbn [fst]; [apply Hm, Hy|].
           apply q_ltb_ge in E1. exact E1.
        -- rewrite filter_app, map_app. cbn [filter]. change (eqm m (d, e)) with (Qeq_bool d m). rewrite E2. reflexivity.
      * (* farther *)
        rewrite Happ. apply IH. cbn [inv1]. split; [|split].
        -- exists x. split; [apply in_or_app; left; exact Hx|exact Ex].
        -- intros y Hy. apply in_app_or in Hy as [Hy|[<-|[]]]; cbn [fst]; [apply Hm, Hy|].
           apply q_ltb_ge in E1. exact E1.
        -- rewrite filter_app, map_app. cbn [filter]. change (eqm m (d, e)) with (Qeq_bool d m). rewrite E2.
           cbn [map]. rewrite app_nil_r. reflexivity.
    + destruct I as [-> ->]. rewrite Happ. apply IH. cbn [inv1 app]. split; [|split].
      * exists (d, e). split; [left; reflexivity|cbn [fst]; reflexivity].
      * intros y [<-|[]]. cbn [fst]. apply Qle_refl.
      * cbn [filter]. unfold eqm. cbn [fst].
        replace (Qeq_bool d d) with true by (symmetry; apply Qeq_bool_iff; reflexivity). reflexivity.
Qed.

Lemma pass2_spec : forall l best,
  In (pass2 best l) (best :: l) /\ forall t, In t (best :: l) -> snd t <= snd (pass2 best l).
Proof.
  induction l as [|e l IH]; intro best; cbn [pass2].
  - split; [left; reflexivity|]. intros t [<-|[]]. lia.
  - destruct (IH (if snd best <=? snd e then e else best)) as [H1 H2]. split.
    + destruct H1 as [H1|H1]; [|right; right; exact H1].
      destruct (snd best <=? snd e); [right; left; exact H1 | left; exact H1].
    + intros t Ht.
      assert (Hb : snd best <= snd (pass2 (if snd best <=? snd e then e else best) l)).
      { specialize (H2 _ (or_introl eq_refl)). destruct (snd best <=? snd e) eqn:E; lia. }
      assert (He : snd e <= snd (pass2 (if snd best <=? snd e then e else best) l)).
      { specialize (H2 _ (or_introl eq_refl)). destruct (snd best <=? snd e) eqn:E; lia. }
      destruct Ht as [<-|[<-|Ht]]; [exact Hb|exact He|]. apply H2. right. exact Ht.
Qed.

(** the two passes together, on a list of (distance, entry) *)
Lemma passes_spec : forall l : list de, l <> [] ->
  exists t ts, pass1 l None [] = t :: ts /\
    exists dd, In (dd, pass2 t ts) l
      /\ forall d' e', In (d', e') l -> (dd <= d')%Q /\ ((d' == dd)%Q -> snd e' <= snd (pass2 t ts)).
Proof.
  intros l Hne. pose proof (pass1_inv l [] None [] (conj eq_refl eq_refl)) as H. cbn [app] in H.
  destruct l as [|x0 l0]; [congruence|]. set (l := x0 :: l0) in *.
  destruct H as [m [[x [Hx Ex]] [Hm Ht]]].
  assert (Hin : In (snd x) (pass1 l None [])).
  { rewrite Ht. apply in_map. apply filter_In. split; [exact Hx|]. unfold eqm. apply Qeq_bool_iff. exact Ex. }
  destruct (pass1 l None []) as [|t ts] eqn:E; [destruct Hin|].
  exists t, ts. split; [reflexivity|].
  destruct (pass2_spec ts t) as [P1 P2].
  rewrite Ht in P1. apply in_map_iff in P1 as [[dd e] [E1 E2]]. cbn [snd] in E1. subst e.
  apply filter_In in E2 as [E2 E3]. unfold eqm in E3. cbn [fst] in E3. apply Qeq_bool_iff in E3.
  exists dd. split; [exact E2|]. intros d' e' Hd'. split.
  - rewrite E3. apply (Hm (d', e') Hd').
  - intro Eq. apply P2. rewrite Ht. change e' with (snd (d', e')). apply in_map. apply filter_In.
    split; [exact Hd'|]. unfold eqm. cbn [fst]. apply Qeq_bool_iff. rewrite Eq. exact E3.
Qed.

(** distance of the query to an entry, through the segmentation oracle *)
Definition kseg (segs : list (list bytes)) (k : word) : list bytes :=
  match seg_of segs k with Some s => s | None => [] end.
Definition kdist (norm : bool) (segs : list (list bytes)) (q : list bytes) (e : word * N) : Q :=
  distance nofl norm q (kseg segs (fst e)).
Definition covered (segs : list (list bytes)) (d : dict) : Prop :=
  forall e, In e d -> seg_of segs (fst e) <> None.

Lemma seg_of_concat : forall segs k s, seg_of segs k = Some s -> concat s = k.
Proof.
  induction segs as [|s' segs IH]; intros k s H; cbn [seg_of] in H; [discriminate|].
  destruct (bytes_eqb (concat s') k) eqn:E.
  - injection H as <-. apply bytes_eqb_eq. exact E.
  - apply IH. exact H.
Qed.

Lemma with_dists_covered : forall norm segs q d, covered segs d ->
  with_dists norm segs q d = Some (map (fun e => (kdist norm segs q e, e)) d).
Proof.
  intros norm segs q. induction d as [|e d IH]; intro C; [reflexivity|].
  cbn [with_dists map]. unfold kdist at 1, kseg.
  assert (C1 := C e (or_introl eq_refl)). destruct (seg_of segs (fst e)) as [s|]; [|congruence].
  rewrite IH; [reflexivity|]. intros e' H. apply C. right. exact H.
Qed.
Lemma with_dists_none : forall norm segs q d, with_dists norm segs q d = None -> ~ covered segs d.
Proof.
  intros norm segs q d H C. rewrite (with_dists_covered norm segs q d C) in H. discriminate.
Qed.

Lemma closest_spec_l : forall norm segs q d,
  (d = [] -> closest norm segs q d = CNone) /\
  (d <> [] -> covered segs d ->
   exists e, closest norm segs q d = CSome e /\ In e d /\
     forall e', In e' d ->
       (kdist norm segs q e <= kdist norm segs q e')%Q /\
       ((kdist norm segs q e' == kdist norm segs q e)%Q -> snd e' <= snd e)).
Proof.
  intros norm segs q d. split; [intros ->; reflexivity|]. intros Hne C.
  unfold closest. destruct d as [|e0 d0]; [congruence|]. set (d := e0 :: d0) in *.
  rewrite (with_dists_covered norm segs q d C).
  set (l := map (fun e => (kdist norm segs q e, e)) d).
  assert (Hl : l <> []) by (unfold l, d; cbn [map]; discriminate).
  destruct (passes_spec l Hl) as [t [ts [E [dd [Hin Hall]]]]]. rewrite E.
  exists (pass2 t ts). split; [reflexivity|].
  unfold l in Hin. apply in_map_iff in Hin as [e [Ee Hin]]. injection Ee as Ed Ee. subst e.
  split; [exact Hin|]. intros e' He'.
  assert (Hin' : In (kdist norm segs q e', e') l) by (unfold l; apply in_map_iff; exists e'; auto).
  destruct (Hall _ _ Hin') as [H1 H2]. rewrite Ed. split; [exact H1|exact H2].
Qed.

(** C13 — pinned statements (first version). *)
From Coq Require Import QArith.
From TU Require Import Base C13_Model.

Theorem f1_zero : forall beta fp fn, f1 beta 0 fp fn = (0%Q, 0 # nz fp, 0 # nz fn).
Proof. intros. reflexivity. Qed.
Print Assumptions f1_zero.

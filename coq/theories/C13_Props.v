(** C13 — pinned statements. Nothing but statements, [exact], and assumption audits.
    Texts are the cleaned, NFKC-normalised texts as cluster lists. [clean_text l] (the premise
    of the spelling theorems): whitespace-clean on clusters (whitespace characters are exactly
    U+0020, none leading, trailing or adjacent) and every other character is non-empty and free
    of whitespace code points. Outside that premise lies the known finding KF3. *)
From Coq Require Import QArith.
From TU Require Import Base C13_Model C13_Walk C13_F1 C13_Ws C13_Sp C13_Proofs.
From TU Require C10_Model C11_Model C12_Model C18_Model.
From TU Require UAX29_Model NFKC_Model C11_UAX29 C13_NSeam C13_NFKC C13_Raw C13_RawFl C13_Fast.
From Coq Require Reals Qreals.
From Flocq Require Core IEEE754.BinarySingleNaN.
From Coq Require Lra.
From TU Require C13_Float C13_FloatProofs C13_FloatClose C13_FloatMean.
Open Scope nat_scope.

(** ** F-beta *)
(** every component in [0,1] — for every rational beta (beta enters only as beta^2) *)
Theorem f1_range : forall beta tp fp fn,
  let x := f1 beta tp fp fn in
  (0 <= c1 x /\ c1 x <= 1)%Q /\ (0 <= c2 x /\ c2 x <= 1)%Q /\ (0 <= c3 x /\ c3 x <= 1)%Q.
Proof. exact f1_range_l. Qed.
Print Assumptions f1_range.

(** the quotient is only taken over a positive denominator (the two [max(1)] ones are positive by type) *)
Theorem f1_denominator_pos : forall beta tp fp fn,
  qpos (ratio tp (tp + fp) + ratio tp (tp + fn)) = true ->
  (0 < beta * beta * ratio tp (tp + fp) + ratio tp (tp + fn))%Q.
Proof. exact f1_den_pos_l. Qed.
Print Assumptions f1_denominator_pos.

Theorem f1_calibrated : forall beta,
  (forall tp, 0 < tp -> (c1 (f1 beta tp 0 0) == 1 /\ c2 (f1 beta tp 0 0) == 1 /\ c3 (f1 beta tp 0 0) == 1)%Q) /\
  (forall fp fn, (c1 (f1 beta 0 fp fn) == 0 /\ c2 (f1 beta 0 fp fn) == 0 /\ c3 (f1 beta 0 fp fn) == 0)%Q).
Proof. intros beta. split; [exact (f1_perfect beta)|exact (f1_no_tp beta)]. Qed.
Print Assumptions f1_calibrated.

(** ** aggregation *)
Theorem micro_spec : forall beta vals,
  micro_f1 beta vals = f1 beta (total tp_of vals) (total fp_of vals) (total fn_of vals).
Proof. exact micro_spec_l. Qed.
Print Assumptions micro_spec.

(** mean over the sequences of the per-sequence triple ((1,1,1) for an "empty" sequence), divided by
    max(#sequences, 1): the empty list gives (0,0,0) *)
Theorem seq_avg_spec : forall beta vals,
  (c1 (seq_avg_f1 beta vals) == qsum (map (fun v => c1 (seq_one beta v)) vals) / qlen (length vals) /\
   c2 (seq_avg_f1 beta vals) == qsum (map (fun v => c2 (seq_one beta v)) vals) / qlen (length vals) /\
   c3 (seq_avg_f1 beta vals) == qsum (map (fun v => c3 (seq_one beta v)) vals) / qlen (length vals))%Q.
Proof. exact seq_avg_spec_l. Qed.
Print Assumptions seq_avg_spec.

Theorem aggregate_range : forall seq_avg beta vals,
  let x := aggregate seq_avg beta vals in
  (0 <= c1 x /\ c1 x <= 1)%Q /\ (0 <= c2 x /\ c2 x <= 1)%Q /\ (0 <= c3 x /\ c3 x <= 1)%Q.
Proof. exact aggregate_range_l. Qed.
Print Assumptions aggregate_range.

(** ** binary_f1, accuracy, mean edit distance: defining formulas *)
Theorem binary_f1_spec : forall beta p t,
  binary_f1 beta p t =
  if Nat.eqb (length p) (length t)
  then Some (f1 beta (cnt andb p t) (cnt (fun x y => x && negb y) p t) (cnt (fun x y => negb x && y) p t))
  else None.
Proof. exact binary_f1_spec_l. Qed.
Print Assumptions binary_f1_spec.

Theorem accuracy_spec : forall p t,
  accuracy p t =
  (if Nat.eqb (length p) (length t)
   then Some (ratio (length (filter (fun x => Z.eqb (fst x) (snd x)) (combine p t))) (length p))
   else None)
  /\ forall a, accuracy p t = Some a -> (0 <= a /\ a <= 1)%Q.
Proof. intros p t. split; [exact (accuracy_spec_l p t)|exact (accuracy_range_l p t)]. Qed.
Print Assumptions accuracy_spec.

Theorem mean_ed_spec : forall nm s t,
  mean_ed nm s t =
  (if Nat.eqb (length s) (length t) then Some (qsum (dists nm s t) / qlen (length s))%Q else None)
  /\ forall m, mean_ed nm s t = Some m -> (0 <= m)%Q /\ (nm = true -> (m <= 1)%Q).
Proof. intros nm s t. split; [exact (mean_ed_spec_l nm s t)|exact (mean_ed_range_l nm s t)]. Qed.
Print Assumptions mean_ed_spec.

(** ** whitespace correction *)
(** counts = |G ∩ P|, |P \ G|, |G \ P| for the duplicate-free, mode-filtered operation sets *)
Theorem ws_counts_spec : forall m i p t e tp fp fn info,
  ws_tp_fp_fn m i p t = Some (Some ((e, tp, fp, fn), info)) ->
  exists gt pr tps fps fns,
    C10_Model.operations i t = Some gt /\ C10_Model.operations i p = Some pr /\
    let G := ops_to_set m gt in
    let P := ops_to_set m pr in
    NoDup G /\ NoDup P /\
    (forall k o, In (k, o) G <-> nth_error gt k = Some o /\ in_mode m o = true) /\
    (forall k o, In (k, o) P <-> nth_error pr k = Some o /\ in_mode m o = true) /\
    NoDup tps /\ NoDup fps /\ NoDup fns /\
    (forall x, In x tps <-> In x G /\ In x P) /\
    (forall x, In x fps <-> In x P /\ ~ In x G) /\
    (forall x, In x fns <-> In x G /\ ~ In x P) /\
    tp = length tps /\ fp = length fps /\ fn = length fns /\
    (e = true <-> G = [] /\ P = []).
Proof. exact ws_counts_spec_l. Qed.
Print Assumptions ws_counts_spec.

Theorem ws_pred_eq_target : forall m i p e tp fp fn a b c,
  ws_tp_fp_fn m i p p = Some (Some ((e, tp, fp, fn), (a, b, c))) -> fp = 0 /\ fn = 0 /\ b = [] /\ c = [].
Proof. exact ws_pred_eq_target_l. Qed.
Print Assumptions ws_pred_eq_target.

Theorem ws_unchanged : forall m i t e tp fp fn info,
  ws_tp_fp_fn m i i t = Some (Some ((e, tp, fp, fn), info)) -> tp = 0 /\ fp = 0.
Proof. exact ws_unchanged_l. Qed.
Print Assumptions ws_unchanged.

(** never the panic value, for all inputs (the only possible failure is the Err of whitespace::operations) *)
Theorem ws_total : forall beta sa m inputs preds targets, ws_f1 beta sa m inputs preds targets <> Panic.
Proof. exact ws_f1_total_l. Qed.
Print Assumptions ws_total.

(** ** spelling correction *)
(** the word walk: for clean non-empty input and prediction and ANY script that applies under
    spaces_insert_delete_only (not only the optimal one), both [unwrap]s succeed, the walk ends with
    input_idx = #input words and pred_idx = #predicted words — the closing assertion cannot fire —
    and if all predicted words are matched every input word is reported correct *)
Theorem group_walk_ok : forall ic pc ops mp,
  C10_Model.cleanb ic = true -> C10_Model.cleanb pc = true -> ic <> [] -> pc <> [] ->
  C12_Model.script_ok sp_flags ops ic pc = true ->
  exists mg ins pp correct,
    attribute (C11_Model.word_boundaries ic) ic pc ops = Some (mg, ins)
    /\ walk (S (length (C11_Model.word_boundaries ic))) (length (C11_Model.word_boundaries ic))
            mg ins mp 0 0 [] = Some (length (C11_Model.word_boundaries ic), pp, correct)
    /\ pp = length (C11_Model.word_boundaries pc)
    /\ ((forall x, x < pp -> mem_nat x mp = true) ->
        forall w, w < length (C11_Model.word_boundaries ic) -> In w correct).
Proof. exact group_walk_ok_l. Qed.
Print Assumptions group_walk_ok.

(** on clean texts the two notions of "word" in the metric coincide *)
Theorem words_agree : forall l, clean_text l = true ->
  length (C18_Model.split_ascii_ws (concat l)) = length (C11_Model.word_boundaries l).
Proof. exact C13_Sp.words_agree. Qed.
Print Assumptions words_agree.

(** totality: on clean input and prediction (any target) the panic value is never produced, with
    the repaired zero-word case (D6) included; Err exactly on a length mismatch *)
Theorem sp_total : forall beta sa inputs preds targets,
  forallb clean_text inputs = true -> forallb clean_text preds = true ->
  if same3 inputs preds targets
  then exists vals, sp_f1 beta sa inputs preds targets = Ok (aggregate sa beta vals)
       /\ Forall2 (fun x c => match x with (i, p, t) => sp_tp_fp_fn i p t = Some c end) (zip3 inputs preds targets) vals
  else sp_f1 beta sa inputs preds targets = Err.
Proof. exact sp_f1_total_l. Qed.
Print Assumptions sp_total.

Theorem sp_pred_eq_target : forall ic pc e tp fp fn,
  clean_text ic = true -> clean_text pc = true ->
  sp_tp_fp_fn ic pc pc = Some (e, tp, fp, fn) -> fp = 0 /\ fn = 0.
Proof. exact sp_pred_eq_target_l. Qed.
Print Assumptions sp_pred_eq_target.

Theorem sp_unchanged : forall ic tc e tp fp fn, sp_tp_fp_fn ic ic tc = Some (e, tp, fp, fn) -> tp = 0.
Proof. exact sp_unchanged_l. Qed.
Print Assumptions sp_unchanged.

(** ** the executable statement holds of the model's own output *)
Theorem check_run : forall v, premise_C13 v = true -> check_C13 v (run_C13 v) = true.
Proof. exact check_run_l. Qed.
Print Assumptions check_run.


(** ** the RAW texts: [prep s = normalize(clean(s, true), NFKC, true)] computed by the model itself
    (UAX29_Model.segment, C11_Model.clean, NFKC_Model.normalize_model), and the premise "the prepared
    text is clean" replaced by [kf3_free g s], a decidable condition on the raw text alone:
      no_mixedb s            no cluster of s mixes White_Space with other code points
      && avoids s            no code point of s is one of the 52 of NFKC_Model.nfkc_makes_space
      && (g = true -> seams_ok (words s))   between two words: no Prepend at the end of the first, no
                                            Extend / SpacingMark / ZWJ at the start of the second *)
Module N.
Import UAX29_Model NFKC_Model.
Local Open Scope N_scope.

(** NFKC and the two ends of a piece of text, as the segmenter sees them: whether the first code point
    attaches to a preceding space, and whether the last is a Prepend, can be read off the compatibility
    decomposition of that one code point (reordering and composition do not matter) ... *)
Theorem nfkc_first_joinable : forall d x rest,
  ws_joinable (hd d (nfkc (x :: rest))) = ws_joinable (hd d (decompose_char true x)).
Proof. exact C13_NSeam.nfkc_hd_joinable. Qed.
Print Assumptions nfkc_first_joinable.

Theorem nfkc_last_prepend : forall d u y, is_prepend d = false ->
  is_prepend (last (nfkc (u ++ [y])) d) = is_prepend (last (decompose_char true y) d).
Proof. exact C13_NSeam.nfkc_last_prepend. Qed.
Print Assumptions nfkc_last_prepend.

(** ... and the decomposition does not change them either (all 5930 table entries, Hangul by arithmetic) *)
Theorem nfkc_keeps_seam_classes : forall c,
  ws_joinable (hd 32 (decompose_char true c)) = ws_joinable c
  /\ is_prepend (last (decompose_char true c) 32) = is_prepend c.
Proof. exact C13_NFKC.decompose_char_seam. Qed.
Print Assumptions nfkc_keeps_seam_classes.

(** the prepared text is whitespace-clean (no seam condition needed) *)
Theorem prep_clean_n : forall s, no_mixedb s = true -> avoids s = true -> C11_Model.cleansb (prep s) = true.
Proof. exact C13_NFKC.prep_cleansb. Qed.
Print Assumptions prep_clean_n.

(** its words are the words of the raw text, each normalised cluster by cluster, in order *)
Theorem prep_words_n : forall s,
  no_mixedb s = true -> avoids s = true -> seams_ok (C11_Model.words s) = true ->
  prep s = C11_Model.join [32] (map (normalize_model NFKC true) (C11_Model.words s))
  /\ C11_Model.words (prep s) = map (normalize_model NFKC true) (C11_Model.words s).
Proof. exact (fun s Hm Ha Hs => conj (C13_NFKC.prep_words s Hm Hs) (C13_NFKC.words_prep s Hm Ha Hs)). Qed.
Print Assumptions prep_words_n.

(** "no mixed cluster after normalisation": the half of KF3 that NFKC_Props leaves open *)
Theorem prep_no_mixed_n : forall s,
  no_mixedb s = true -> avoids s = true -> seams_ok (C11_Model.words s) = true -> no_mixedb (prep s) = true.
Proof. exact C13_NFKC.prep_no_mixed. Qed.
Print Assumptions prep_no_mixed_n.

(** [kf3_free] on the raw text gives the premise of every spelling theorem above, in both modes *)
Theorem kf3_free_clean_text : forall g s, kf3_free g s = true -> clean_text (text_of g s) = true.
Proof. exact C13_NFKC.kf3_free_clean_text. Qed.
Print Assumptions kf3_free_clean_text.

(** the condition and the class (as the harness decides it on the prepared text) are disjoint; in
    code-point mode a text of the property's domain that avoids the set is never in the class.
    No "iff": [kf3_free] is sufficient, not necessary (third statement: U+FDFA is in the set, its NFKC is
    four words separated by single spaces) — and the class is inhabited ("x ¨", fourth statement). *)
Theorem kf3_free_not_class : forall g s, kf3_free g s = true -> kf3_class g s = false.
Proof. exact C13_NFKC.kf3_free_not_class. Qed.
Print Assumptions kf3_free_not_class.

Theorem kf3_class_cp : forall s, no_mixedb s = true -> avoids s = true -> kf3_class false s = false.
Proof. exact C13_NFKC.kf3_class_cp. Qed.
Print Assumptions kf3_class_cp.

Theorem kf3_class_exact_refuted :
  (exists s, kf3_free true s = false /\ kf3_free false s = false /\ kf3_class true s = false /\ kf3_class false s = false)
  /\ (exists s, no_mixedb s = true /\ kf3_class true s = true /\ kf3_class false s = true).
Proof.
  split; [exists [65018]; exact C13_NFKC.kf3_free_not_necessary|].
  exists [120; 32; 168]. destruct C13_NFKC.kf3_class_witness as (A & B & _ & _ & C). exact (conj C (conj A B)).
Qed.
Print Assumptions kf3_class_exact_refuted.
End N.

(** the word walk on raw texts *)
Theorem group_walk_ok_n : forall g i p ops mp,
  kf3_free g i = true -> kf3_free g p = true ->
  text_of g i <> [] -> text_of g p <> [] ->
  C12_Model.script_ok sp_flags ops (text_of g i) (text_of g p) = true ->
  exists mg ins pp correct,
    attribute (C11_Model.word_boundaries (text_of g i)) (text_of g i) (text_of g p) ops = Some (mg, ins)
    /\ walk (S (length (C11_Model.word_boundaries (text_of g i)))) (length (C11_Model.word_boundaries (text_of g i)))
            mg ins mp 0 0 [] = Some (length (C11_Model.word_boundaries (text_of g i)), pp, correct)
    /\ pp = length (C11_Model.word_boundaries (text_of g p))
    /\ ((forall x, x < pp -> mem_nat x mp = true) ->
        forall w, w < length (C11_Model.word_boundaries (text_of g i)) -> In w correct).
Proof. exact C13_Raw.group_walk_ok_n_l. Qed.
Print Assumptions group_walk_ok_n.

(** spelling_correction_f1 of the model on RAW texts: if every input and every prediction is [kf3_free]
    (targets: anything) the panic value is never produced; Err exactly on a length mismatch; otherwise Ok
    with all three values in [0,1] (rational level; the binary64 statement is [Fl.spelling_total_fl_n]) *)
Theorem spelling_total_n : forall beta sa g inputs preds targets,
  forallb (kf3_free g) inputs = true -> forallb (kf3_free g) preds = true ->
  sp_f1 beta sa (C13_Raw.texts g inputs) (C13_Raw.texts g preds) (C13_Raw.texts g targets) <> Panic
  /\ if same3 inputs preds targets
     then exists vals,
            sp_f1 beta sa (C13_Raw.texts g inputs) (C13_Raw.texts g preds) (C13_Raw.texts g targets) = Ok (aggregate sa beta vals)
            /\ Forall2 (fun x c => match x with (i, p, t) => sp_tp_fp_fn i p t = Some c end)
                       (zip3 (C13_Raw.texts g inputs) (C13_Raw.texts g preds) (C13_Raw.texts g targets)) vals
            /\ fpr01 (aggregate sa beta vals)
     else sp_f1 beta sa (C13_Raw.texts g inputs) (C13_Raw.texts g preds) (C13_Raw.texts g targets) = Err.
Proof. exact C13_Raw.spelling_total_n_l. Qed.
Print Assumptions spelling_total_n.

(** calibration on raw texts: prediction = target after preparation: no false positive or negative;
    prediction = input after preparation: no true positive (all texts) *)
Theorem sp_pred_eq_target_n : forall g i p t e tp fp fn,
  kf3_free g i = true -> kf3_free g p = true -> prep p = prep t ->
  sp_tp_fp_fn (text_of g i) (text_of g p) (text_of g t) = Some (e, tp, fp, fn) -> fp = 0 /\ fn = 0.
Proof. exact C13_Raw.sp_pred_eq_target_n_l. Qed.
Print Assumptions sp_pred_eq_target_n.

Theorem sp_unchanged_n : forall g i p t e tp fp fn,
  prep p = prep i ->
  sp_tp_fp_fn (text_of g i) (text_of g p) (text_of g t) = Some (e, tp, fp, fn) -> tp = 0.
Proof. exact C13_Raw.sp_unchanged_n_l. Qed.
Print Assumptions sp_unchanged_n.

(** the executable statement holds of the model's output computed from the RAW texts (the [data] field
    recomputed by the model: [rawify]); for the spelling metric under [kf3_free] of inputs and predictions.
    This is the domain inside which the harness withholds the tag class:KF3. *)
Theorem check_run_n : forall v, premise_n v = true -> check_C13 (rawify v) (run_C13N v) = true.
Proof. exact C13_Raw.check_run_n_l. Qed.
Print Assumptions check_run_n.

(** the extracted check evaluates the rational model with fractions reduced after every addition
    ([run_C13_fast], needed for lists of hundreds of sequences): same values, same verdicts *)
Theorem run_fast_eq : forall v, run_C13_fast v = run_C13 v.
Proof. exact C13_Fast.run_fast_eq_l. Qed.
Print Assumptions run_fast_eq.

Theorem check_fast_eq : forall v out, check_C13_fast v out = check_C13 v out.
Proof. exact C13_Fast.check_fast_eq_l. Qed.
Print Assumptions check_fast_eq.

(** KF3 is real in the model too: "x ¨" / "x" / "x ¨" in code-point mode yields the panic value *)
Theorem kf3_panic_witness :
  sp_f1 1 false (C13_Raw.texts false [[120; 32; 168]%N]) (C13_Raw.texts false [[120]%N]) (C13_Raw.texts false [[120; 32; 168]%N]) = Panic
  /\ kf3_free false [120; 32; 168]%N = false.
Proof. exact C13_Raw.kf3_panic_witness_l. Qed.
Print Assumptions kf3_panic_witness.

(** ** binary64: the arithmetic of the metrics inside the model (C13_Float.v) *)
Module Fl.
Import Reals Qreals Lra Core BinarySingleNaN C13_Float C13_FloatProofs C13_FloatClose.

(** "F-beta <= 1" is FALSE of the expression [_f1] had before the repair (/repo d11): for
    tp = 1000, fp = 0, fn = 2, beta = 1.9243201927590334e-08 the binary64 result is 1 + 2^-52 *)
Theorem f1_fl_le_1_refuted :
  exists tp fp fn beta,
    (is_finite (fmul beta beta) = true) /\
    (Bltb f_one (c1f (f1_fl_pinned beta tp fp fn)) = true) /\
    (1 < B2R (c1f (f1_fl_pinned beta tp fp fn)))%R.
Proof. exact f1_fl_le_1_refuted_l. Qed.
Print Assumptions f1_fl_le_1_refuted.

(** ... and on the other side: tp = 1390, fp = 2, fn = 0, beta = 108442877.09708491 *)
Theorem f1_fl_le_1_refuted_huge :
  (is_finite (fmul beta_huge beta_huge) = true) /\
  (Bltb f_one (c1f (f1_fl_pinned beta_huge 1390 2 0)) = true) /\
  (1 < B2R (c1f (f1_fl_pinned beta_huge 1390 2 0)))%R.
Proof. exact f1_fl_le_1_refuted_huge_l. Qed.
Print Assumptions f1_fl_le_1_refuted_huge.

Local Open Scope R_scope.
(** a float that is finite and, as a real number, in [0,1] *)
Definition fin01 (x : f64) : Prop := is_finite x = true /\ 0 <= B2R x <= 1.

(** (1) precision / recall = [a as f64 / b.max(1) as f64] for counts 0 <= a <= b < 2^53 (so that [as f64]
    is exact): the correctly rounded quotient, finite, in [0,1], = 0 iff a = 0, = 1 iff a = b > 0,
    at least 2^-53 when a > 0 and at most 1 - 2^-53 when a < b *)
Theorem prec_rec_fl_range : forall a b, (0 <= a <= b)%Z -> (b < 2 ^ 53)%Z ->
  is_finite (ratio_fl a b) = true /\
  B2R (ratio_fl a b) = round radix2 (SpecFloat.fexp 53 1024) ZnearestE (IZR a / IZR (Z.max b 1)) /\
  0 <= B2R (ratio_fl a b) <= 1 /\
  (B2R (ratio_fl a b) = 0 <-> a = 0%Z) /\
  (B2R (ratio_fl a b) = 1 <-> (a = b /\ 0 < a)%Z) /\
  ((0 < a)%Z -> bpow radix2 (-53) <= B2R (ratio_fl a b)) /\
  ((a < b)%Z -> B2R (ratio_fl a b) <= 1 - bpow radix2 (-53)).
Proof. exact ratio_fl_spec. Qed.
Print Assumptions prec_rec_fl_range.

(** (6) the REPAIRED [_f1] (as committed in /repo): for all counts with tp + fp, tp + fn < 2^53 and every
    beta whose square is finite in binary64 (this implies beta finite; |beta| <= 2^511 suffices),
    F-beta, precision and recall are finite and in [0,1] *)
Theorem f1_fixed_range : forall beta tp fp fn,
  is_finite (fmul beta beta) = true ->
  (Z.of_nat (tp + fp) < 2 ^ 53)%Z -> (Z.of_nat (tp + fn) < 2 ^ 53)%Z ->
  fin01 (c1f (f1_fl beta tp fp fn)) /\ fin01 (c2f (f1_fl beta tp fp fn)) /\ fin01 (c3f (f1_fl beta tp fp fn)).
Proof. exact f1_fixed_range_l. Qed.
Print Assumptions f1_fixed_range.

(** calibration holds exactly in binary64: no true positive: (0,0,0) for EVERY beta (NaN included);
    no false positive/negative and a true positive: exactly (1.0, 1.0, 1.0) *)
Theorem f1_fl_calibrated : forall beta,
  (forall fp fn, (Z.of_nat fp < 2 ^ 53)%Z -> (Z.of_nat fn < 2 ^ 53)%Z ->
     B2R (c1f (f1_fl beta 0 fp fn)) = 0 /\ B2R (c2f (f1_fl beta 0 fp fn)) = 0 /\ B2R (c3f (f1_fl beta 0 fp fn)) = 0
     /\ is_finite (c1f (f1_fl beta 0 fp fn)) = true) /\
  (is_finite (fmul beta beta) = true -> forall tp, (0 < tp)%nat -> (Z.of_nat tp < 2 ^ 53)%Z ->
     B2R (c1f (f1_fl beta tp 0 0)) = 1 /\ B2R (c2f (f1_fl beta tp 0 0)) = 1 /\ B2R (c3f (f1_fl beta tp 0 0)) = 1
     /\ is_finite (c1f (f1_fl beta tp 0 0)) = true).
Proof. exact f1_fl_calibrated_l. Qed.
Print Assumptions f1_fl_calibrated.

(** (4) averaging never leaves [0,1]: the left fold of f64 additions from 0.0 over n <= 2^53 floats in [0,1]
    is finite and at most n (every partial sum is bounded by its exactly representable index), and
    divided by max(n,1) as f64 it is in [0,1] *)
Theorem seq_avg_fl_range : forall l : list f64, Forall fin01 l -> (Z.of_nat (length l) <= 2 ^ 53)%Z ->
  (is_finite (fold_left fadd l f_zero) = true /\
   0 <= B2R (fold_left fadd l f_zero) <= IZR (Z.of_nat (length l))) /\
  fin01 (fdiv (fold_left fadd l f_zero) (of_nat (Nat.max (length l) 1))).
Proof. intros l H N. split; [exact (sum_fl_range_l l H N)|exact (mean_fl_range_l l H N)]. Qed.
Print Assumptions seq_avg_fl_range.

(** both aggregates of the model ([micro_f1], [sequence_averaged_f1]) in binary64: all three results
    finite and in [0,1] when the summed counts stay below 2^53 *)
Theorem aggregate_fl_range : forall seq_avg beta vals,
  is_finite (fmul beta beta) = true ->
  (Z.of_nat (total tp_of vals + total fp_of vals) < 2 ^ 53)%Z /\
  (Z.of_nat (total tp_of vals + total fn_of vals) < 2 ^ 53)%Z ->
  (Z.of_nat (length vals) <= 2 ^ 53)%Z ->
  let x := aggregate_fl seq_avg beta vals in fin01 (c1f x) /\ fin01 (c2f x) /\ fin01 (c3f x).
Proof. exact aggregate_fl_range_l. Qed.
Print Assumptions aggregate_fl_range.

Theorem binary_f1_fl_range : forall beta p t x,
  is_finite (fmul beta beta) = true -> (Z.of_nat (length p) < 2 ^ 53)%Z ->
  binary_f1_fl beta p t = Some x -> fin01 (c1f x) /\ fin01 (c2f x) /\ fin01 (c3f x).
Proof. exact binary_f1_fl_range_l. Qed.
Print Assumptions binary_f1_fl_range.

Theorem accuracy_fl_range : forall p t x,
  (Z.of_nat (length p) < 2 ^ 53)%Z -> accuracy_fl p t = Some x -> fin01 x.
Proof. exact accuracy_fl_range_l. Qed.
Print Assumptions accuracy_fl_range.

(** [_mean_edit_distance]: rayon's parallel f64 sum as a balanced split tree ([tree_sum], leaves folded from
    -0.0, nodes (-0.0 + l) + r): over n <= 2^53 floats in [0,1] it is finite, non-negative and at most n,
    for every fuel (= every depth at which splitting stops) *)
Theorem tree_sum_fl_range : forall fuel (l : list f64), Forall fin01 l -> (Z.of_nat (length l) <= 2 ^ 53)%Z ->
  (is_finite (tree_sum fuel l) = true /\ 0 <= B2R (tree_sum fuel l)) /\
  B2R (tree_sum fuel l) <= IZR (Z.of_nat (length l)).
Proof. exact C13_FloatMean.tree_sum_range. Qed.
Print Assumptions tree_sum_fl_range.

(** mean normalised edit distance in binary64: finite and in [0,1] (texts shorter than 2^53 characters,
    fewer than 2^53 sequences); uses C12 [norm_le_1] for the per-pair values *)
Theorem mean_ed_fl_range : forall s t x,
  Forall (fun p => (Z.of_nat (length (fst p)) < 2 ^ 53)%Z /\ (Z.of_nat (length (snd p)) < 2 ^ 53)%Z) (C12_Model.zip s t) ->
  (Z.of_nat (length s) < 2 ^ 53)%Z ->
  mean_ed_fl true s t = Some x -> fin01 x.
Proof. exact C13_FloatMean.mean_ed_fl_range_l. Qed.
Print Assumptions mean_ed_fl_range.

(** (5) the binary64 results of the repaired [_f1] against the rational model ([C13_Model.f1], about which
    [f1_range] ... [check_run] above speak), for a rational beta equal to the float beta: F-beta within
    relative 2^-49, precision and recall within relative 2^-53 — for EVERY beta with a finite square
    (underflow of beta^2 included) and counts below 2^53 *)
Theorem q_close : forall (betaq : Q) beta tp fp fn,
  Q2R betaq = B2R beta -> is_finite (fmul beta beta) = true ->
  (Z.of_nat (tp + fp) < 2 ^ 53)%Z -> (Z.of_nat (tp + fn) < 2 ^ 53)%Z ->
  Rabs (B2R (c1f (f1_fl beta tp fp fn)) - Q2R (C13_F1.c1 (f1 betaq tp fp fn)))
    <= bpow radix2 (-49) * Q2R (C13_F1.c1 (f1 betaq tp fp fn)) /\
  Rabs (B2R (c2f (f1_fl beta tp fp fn)) - Q2R (c2 (f1 betaq tp fp fn)))
    <= bpow radix2 (-53) * Q2R (c2 (f1 betaq tp fp fn)) /\
  Rabs (B2R (c3f (f1_fl beta tp fp fn)) - Q2R (c3 (f1 betaq tp fp fn)))
    <= bpow radix2 (-53) * Q2R (c3 (f1 betaq tp fp fn)).
Proof.
  intros betaq beta tp fp fn Hq Fb H1 H2. split.
  - exact (f1_q_close_F_l betaq beta tp fp fn Hq Fb H1 H2).
  - exact (f1_q_close_pr_l betaq beta tp fp fn H1 H2).
Qed.
Print Assumptions q_close.
(** the premise: beta = 0.5 as a float and as the rational 1/2 *)
Example q_close_premise : Q2R (1 # 2) = B2R (fdiv f_one (of_Z 2)).
Proof.
  replace (B2R (fdiv f_one (of_Z 2))) with (F2R (Float radix2 4503599627370496 (-53))) by (vm_compute; reflexivity).
  unfold Q2R, F2R. cbn [Qnum Qden Fnum Fexp]. change (bpow radix2 (-53)) with (/ 9007199254740992). lra.
Qed.

(** ** the expression [_f1] had BEFORE the repair, [((1.0 + beta_sq) * precision * recall) / (beta_sq * precision + recall)] *)
(** (2) for counts below 2^53 and every beta with a finite square it is finite and non-negative ... *)
Theorem f1_fl_nonneg_finite : forall beta tp fp fn,
  is_finite (fmul beta beta) = true ->
  (Z.of_nat (tp + fp) < 2 ^ 53)%Z -> (Z.of_nat (tp + fn) < 2 ^ 53)%Z ->
  is_finite (c1f (f1_fl_pinned beta tp fp fn)) = true /\ 0 <= B2R (c1f (f1_fl_pinned beta tp fp fn)).
Proof. intros beta tp fp fn A B C. destruct (f1_fl_upper_l beta tp fp fn A B C) as (F & L & _). split; assumption. Qed.
Print Assumptions f1_fl_nonneg_finite.

(** (3b) ... and never above 1 + 2^-50 (the refutation above shows 1 + 2^-52 is reached) *)
Theorem f1_fl_upper : forall beta tp fp fn,
  is_finite (fmul beta beta) = true ->
  (Z.of_nat (tp + fp) < 2 ^ 53)%Z -> (Z.of_nat (tp + fn) < 2 ^ 53)%Z ->
  B2R (c1f (f1_fl_pinned beta tp fp fn)) <= 1 + bpow radix2 (-50).
Proof. intros beta tp fp fn A B C. destruct (f1_fl_upper_l beta tp fp fn A B C) as (_ & _ & U). exact U. Qed.
Print Assumptions f1_fl_upper.

(** (3c) where the old expression WAS safe: counts below 2^31 and 2^-18 <= beta^2 <= 2^18 (|beta| between
    2^-9 and 2^9; includes every beta in [0.01, 100]). Full statement "F <= 1 for all beta" is refuted above;
    not decided: the bands 2^-53 < beta^2 < 2^-18 and 2^18 < beta^2 < 2^53 (violations exist there for some
    counts, e.g. beta^2 = 2^-44 with tp = 2550, fn = 2) and counts of 2^31 or more. *)
Theorem f1_fl_le_1_partial : forall beta tp fp fn,
  is_finite (fmul beta beta) = true ->
  bpow radix2 (-18) <= B2R (fmul beta beta) <= bpow radix2 18 ->
  (Z.of_nat (tp + fp) < 2 ^ 31)%Z -> (Z.of_nat (tp + fn) < 2 ^ 31)%Z ->
  fin01 (c1f (f1_fl_pinned beta tp fp fn)).
Proof. exact f1_fl_le_1_partial_l. Qed.
Print Assumptions f1_fl_le_1_partial.

(** non-vacuity of the hypotheses: beta = 0.5 has a finite square inside [2^-18, 2^18]; so has beta_tiny
    a finite square (outside that band) *)
Example beta_half_ok :
  let beta := fdiv f_one (of_Z 2) in
  (is_finite (fmul beta beta) = true) /\ (Bleb (fdiv f_one (of_Z 262144)) (fmul beta beta) = true)
  /\ (Bleb (fmul beta beta) (of_Z 262144) = true).
Proof. vm_compute. repeat split. Qed.
(** binary_f1 on 3 true positives and 1 false negative with that beta: the float model computes
    (F, precision, recall) = (0.9375, 1.0, 0.75) exactly *)
Example f1_fl_example :
  option_map (fun x => (B2SF (c1f x), B2SF (c2f x), B2SF (c3f x)))
             (binary_f1_fl (fdiv f_one (of_Z 2)) [true; true; true; false] [true; true; true; true])
  = Some (SpecFloat.S754_finite false 8444249301319680 (-53),
          SpecFloat.S754_finite false 4503599627370496 (-52),
          SpecFloat.S754_finite false 6755399441055744 (-53)).
Proof. vm_compute. reflexivity. Qed.

(** spelling_correction_f1 of the binary64 model on RAW texts: [kf3_free] inputs and predictions: never the
    panic value, Err exactly on a length mismatch, otherwise Ok, and F, precision, recall are finite
    binary64 numbers in [0,1] (summed counts below 2^53, beta with a finite square) *)
Theorem spelling_total_fl_n : forall beta sa g inputs preds targets,
  forallb (kf3_free g) inputs = true -> forallb (kf3_free g) preds = true ->
  sp_f1_fl beta sa (C13_Raw.texts g inputs) (C13_Raw.texts g preds) (C13_Raw.texts g targets) <> Panic
  /\ if same3 inputs preds targets
     then exists vals,
            sp_f1_fl beta sa (C13_Raw.texts g inputs) (C13_Raw.texts g preds) (C13_Raw.texts g targets) = Ok (aggregate_fl sa beta vals)
            /\ Forall2 (fun x c => match x with (i, p, t) => sp_tp_fp_fn i p t = Some c end)
                       (zip3 (C13_Raw.texts g inputs) (C13_Raw.texts g preds) (C13_Raw.texts g targets)) vals
            /\ (is_finite (fmul beta beta) = true ->
                (Z.of_nat (total tp_of vals + total fp_of vals) < 2 ^ 53)%Z /\
                (Z.of_nat (total tp_of vals + total fn_of vals) < 2 ^ 53)%Z ->
                (Z.of_nat (length vals) <= 2 ^ 53)%Z ->
                let x := aggregate_fl sa beta vals in fin01 (c1f x) /\ fin01 (c2f x) /\ fin01 (c3f x))
     else sp_f1_fl beta sa (C13_Raw.texts g inputs) (C13_Raw.texts g preds) (C13_Raw.texts g targets) = Err.
Proof. exact C13_RawFl.spelling_total_fl_n_l. Qed.
Print Assumptions spelling_total_fl_n.
End Fl.

(** ** non-vacuity *)
Definition ex_s (l : list N) : list cluster := singletons l.
(** "ab c" and "a b" are clean texts *)
Example clean_text_witness : clean_text (ex_s [97; 98; 32; 99]%N) = true /\ clean_text (ex_s [97; 32; 98]%N) = true.
Proof. vm_compute. split; reflexivity. Qed.
(** the hypotheses of [group_walk_ok] with a NON-optimal script: "a b" -> "ab c" by deleting the space,
    inserting a space and inserting "c"; and with the optimal one *)
Example group_walk_witness :
  C12_Model.script_ok sp_flags [(C12_Model.EDelete, 1, 1); (C12_Model.EInsert, 3, 2); (C12_Model.EInsert, 3, 3)]
                      (ex_s [97; 32; 98]%N) (ex_s [97; 98; 32; 99]%N) = true
  /\ C12_Model.operations sp_flags (ex_s [97; 32; 98]%N) (ex_s [97; 98; 32; 99]%N)
     = Some [(C12_Model.EInsert, 1, 1); (C12_Model.EReplace, 2, 3)].
Proof. vm_compute. split; reflexivity. Qed.
(** a spelling-F1 input (one triple "a b" / "" / "a b", the D6 witness) meeting the premise of [check_run] *)
Example premise_witness :
  premise_C13 (L [I 4; L [L [I 1; I 1]; I 0; I 0];
                  L [L [L [L [I 97]; L [I 32]; L [I 98]]]; L [L []]; L [L [L [I 97]; L [I 32]; L [I 98]]]]; L []])%Z = true.
Proof. vm_compute. reflexivity. Qed.

(** [kf3_free] on a non-trivial raw text: "ﬁ  é\n中" (ligature, double space, precomposed e-acute, line feed, CJK):
    free in both modes, prepared to "fi é 中" *)
Example kf3_free_witness :
  kf3_free true [64257; 32; 32; 233; 10; 20013]%N = true /\ kf3_free false [64257; 32; 32; 233; 10; 20013]%N = true
  /\ prep [64257; 32; 32; 233; 10; 20013]%N = [102; 105; 32; 233; 32; 20013]%N.
Proof. vm_compute. repeat split; reflexivity. Qed.
(** ... and a text that is free in code-point mode only: "a\n" + U+0301 (the acute would attach to the space) *)
Example kf3_free_seam_witness :
  kf3_free false [97; 10; 769]%N = true /\ kf3_free true [97; 10; 769]%N = false /\ kf3_class true [97; 10; 769]%N = true.
Proof. vm_compute. repeat split; reflexivity. Qed.
(** the premise of [check_run_n]: spelling F1 on the raw triple " a  b" / "ab" / "a b" in grapheme mode, with the
    oracle field as the model computes it *)
Example premise_n_witness :
  let v := L [I 4; L [L [I 1; I 1]; I 0; I 1]; L [];
              L [L [L [I 32; I 97; I 32; I 32; I 98]]; L [L [I 97; I 98]]; L [L [I 97; I 32; I 98]]]; L []]%Z in
  premise_n v = true /\ prep_agree (rawify v) = true.
Proof. vm_compute. split; reflexivity. Qed.

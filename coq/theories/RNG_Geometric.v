(** RNG model, part 2: [rand_distr::Geometric] (rand_distr 0.5.1, src/geometric.rs), bit for bit.  Definitions only.

    [Geometric::new(p)] and [Distribution<u64>::sample] use no libm function in the range that matters:
      new:     !p.is_finite() || !(0.0..=1.0).contains(&p)  -> Err
               p == 0.0 || p >= 2.0 / 3.0                   -> { p, pi: p, k: 0 }
               else  k = 1; pi = (1.0 - p).powi(2); while pi > 0.5 { k += 1; pi = pi * pi }
      sample:  p >= 2/3:  count draws [random::<f64>()] until one is <= p
               p == 0:    u64::MAX
               else       d = number of draws < pi before the first one that is not;
                          loop { m = random::<u64>() & ((1 << k) - 1);
                                 p_reject = if m <= i32::MAX { (1.0 - p).powi(m as i32) } else { (1.0 - p).powf(m as f64) };
                                 u = random::<f64>(); if u < p_reject { break m } }
                          (d << k) + m
    [f64::powi] is the intrinsic llvm.powi.f64.i32, lowered to compiler-rt's [__powidf2]: square-and-multiply
      r = 1; loop { if b & 1 { r *= a }  b /= 2;  if b == 0 break;  a *= a }
    i.e. a fixed sequence of binary64 multiplications, each rounded to nearest-even: expressible in the exact
    dyadic layer of RNG_Model ([fround], [fmul]).  ([powi(2)] is one multiplication either way.)
    [powf] (libm) is reached only for m > i32::MAX, which needs k >= 32, i.e. p below about 3.3e-10: that is an
    outcome of its own ([GSPowf] = outside the model).

    Two facts about the code that the model keeps:
    - for 0 < p <= 2^-54 the subtraction 1.0 - p rounds to 1.0, pi stays 1.0 and the loop of [new] never ends
      ([GNHang]; [RNG_GeometricProofs.new_loop_one]: from pi = 1 the loop runs out of every fuel);
    - the three sampling loops end with probability one but not for every stream: they run on explicit fuel
      ([GSFuel]); the theorems say the fuel does not influence a result that is returned.

    The tie to the real crate goes through [mask_tokens] of /repo (src/data/postprocessing.rs), the only user of
    the sampler: the harness crate does not depend on rand_distr (see notes/C08.md, Requests). *)
From TU Require Import RNG_Model.
From TU Require Import Base.
Open Scope N_scope.

(** * binary64 pieces on [RNG_Model.f64w] (non-negative values) *)
Definition g_one : f64w := Fin 4503599627370496 (-52).
Definition g_half : f64w := Fin 4503599627370496 (-53).
(** [2.0 / 3.0] = 6004799503160661 * 2^-53 (a constant the compiler folds; [two_thirds_is_quotient]) *)
Definition two_thirds : f64w := Fin 6004799503160661 (-53).

(** [usize as f64] / [u64 as f64] *)
Definition g_of_N (n : N) : f64w := fround n 0.

(** [a - b] for a >= b >= 0 (a negative result is [FNeg]: no magnitude) *)
Definition gsub (a b : f64w) : f64w :=
  match a, b with
  | Fin m1 e1, Fin m2 e2 =>
      let '(a1, a2, e) := falign m1 e1 m2 e2 in
      if a2 <=? a1 then fround (a1 - a2) e else FNeg
  | FNaN, _ | _, FNaN => FNaN
  | FNeg, _ | _, FNeg => FNaN
  | FInf, Fin _ _ => FInf
  | Fin _ _, FInf => FNeg
  | FInf, FInf => FNaN
  end.

(** [a / b] for a, b >= 0: the exact quotient to 128 or more bits with a sticky bit, then one rounding;
    x / 0 = inf, 0 / 0 = NaN, x / inf = 0, inf / x = inf, inf / inf = NaN *)
Definition gdiv (a b : f64w) : f64w :=
  match a, b with
  | Fin m1 e1, Fin m2 e2 =>
      if m2 =? 0 then (if m1 =? 0 then FNaN else FInf)
      else
        let n := m1 * 2 ^ 128 in
        let q := n / m2 in
        let sticky := if n mod m2 =? 0 then 0 else 1 in
        fround (2 * q + sticky) (e1 - e2 - 129)%Z
  | Fin _ _, FInf => Fin 0 emin
  | FInf, Fin _ _ => FInf
  | _, _ => FNaN
  end.

(** [__powidf2(a, b)] for b >= 0: binary square-and-multiply, least significant bit first *)
Fixpoint powi_pos (a r : f64w) (b : positive) : f64w :=
  match b with
  | xH => fmul r a
  | xO b' => powi_pos (fmul a a) r b'
  | xI b' => powi_pos (fmul a a) (fmul r a) b'
  end.
Definition powi (a : f64w) (b : N) : f64w :=
  match b with N0 => g_one | Npos p => powi_pos a g_one p end.

(** * [Geometric::new] *)
Record geo := Geo { g_p : f64w; g_pi : f64w; g_k : N }.

Inductive geo_new_res :=
| GNOk (g : geo)
| GNErr          (* Error::InvalidProbability *)
| GNHang         (* 1.0 - p == 1.0: [while pi > 0.5 { pi = pi * pi }] with pi = 1.0 never ends *)
| GNFuel.        (* the model's fuel for that loop ran out otherwise (never observed; 64 squarings) *)

Fixpoint new_loop (fuel : nat) (pi : f64w) (k : N) : option (f64w * N) :=
  match fuel with
  | O => None
  | S f => if fgt pi g_half then new_loop f (fmul pi pi) (k + 1) else Some (pi, k)
  end.

Definition new_fuel : nat := 64.

Definition is_one (x : f64w) : bool :=
  match x with Fin m e => (m =? 4503599627370496) && (e =? -52)%Z | _ => false end.

Definition geo_new (p : f64w) : geo_new_res :=
  match p with
  | Fin m _ =>
      if fgt p g_one then GNErr
      else if (m =? 0) || fle two_thirds p then GNOk (Geo p p 0)
      else let q := gsub g_one p in
           if is_one q then GNHang
           else match new_loop new_fuel (fmul q q) 1 with
                | Some (pi, k) => GNOk (Geo p pi k)
                | None => GNFuel
                end
  | _ => GNErr
  end.

(** * [sample] *)
Inductive gs_res :=
| GSOk (x : N) (st : rng)
| GSFuel            (* a sampling loop did not end within the fuel *)
| GSPowf            (* m > i32::MAX: [powf], libm — outside the model *)
| GSOverflow.       (* (d << k) + m >= 2^64: panic with overflow checks *)

(** [loop { if random::<f64>() <= p { break } failures += 1 }] *)
Fixpoint trivial_loop (fuel : nat) (p : f64w) (n : N) (st : rng) : option (N * rng) :=
  match fuel with
  | O => None
  | S f => let (u, st1) := random_f64 st in
           if fle (Fin u (-53)) p then Some (n, st1) else trivial_loop f p (n + 1) st1
  end.

(** [while random::<f64>() < pi { failures += 1 }] *)
Fixpoint d_loop (fuel : nat) (pi : f64w) (n : N) (st : rng) : option (N * rng) :=
  match fuel with
  | O => None
  | S f => let (u, st1) := random_f64 st in
           if fgt pi (Fin u (-53)) then d_loop f pi (n + 1) st1 else Some (n, st1)
  end.

Inductive m_res := MOk (m : N) (st : rng) | MFuel | MPowf.

Definition i32_max : N := 2147483647.

(** the rejection loop for M; [q] = 1.0 - p (recomputed by the code at every round: the same value) *)
Fixpoint m_loop (fuel : nat) (q : f64w) (k : N) (st : rng) : m_res :=
  match fuel with
  | O => MFuel
  | S f =>
    let (x, st1) := next_u64 st in
    let m := N.land x (N.shiftl 1 k - 1) in
    if i32_max <? m then MPowf
    else let (u, st2) := random_f64 st1 in
         if fgt (powi q m) (Fin u (-53)) then MOk m st2 else m_loop f q k st2
  end.

Definition geo_sample (fuel : nat) (g : geo) (st : rng) : gs_res :=
  let p := g_p g in
  if fle two_thirds p then
    match trivial_loop fuel p 0 st with Some (n, st') => GSOk n st' | None => GSFuel end
  else if fis_zero p then GSOk (p64 - 1) st
  else match d_loop fuel (g_pi g) 0 st with
       | None => GSFuel
       | Some (d, st1) =>
         match m_loop fuel (gsub g_one p) (g_k g) st1 with
         | MFuel => GSFuel
         | MPowf => GSPowf
         | MOk m st2 => let x := w64 (N.shiftl d (g_k g)) + m in
                        if p64 <=? x then GSOverflow else GSOk x st2
         end
       end.

(** the fuel of the extracted model: each loop ends at a round with probability >= 1/4 (trivial: >= 2/3; d: >= 1/2;
    m: pi > 1/4) *)
Definition geo_fuel : nat := 1000.

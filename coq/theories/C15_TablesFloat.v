(** C15: the tables [corrupt_spelling] builds are well-formed for [WeightedIndex] — the binary64 part.
    [fround_ge]: rounding to nearest never falls below a representable lower bound (the mirror image of
    [C15_SeededFloat.fround_le]).  [sane_weights_ok]: a non-empty list of fewer than 2^53 canonical
    NORMAL weights below 2^960 has a finite NORMAL total: [C15_Seeded.weights_ok] holds, so
    [WeightedIndex::new] succeeds and never returns a zero-weight index. *)
From TU Require Import RNG_Model RNG_Proofs.
From TU Require Import Base UCD_Model UAX29_Model C15_Model C15_Seeded C15_SeededFloat C15_Tables C15_TablesProofs.
From Coq Require Import Permutation.
Require Import Lia ZifyN ZArith.
Local Open Scope N_scope.
Local Arguments N.add : simpl never. Local Arguments N.mul : simpl never. Local Arguments N.land : simpl never.
Local Arguments N.shiftl : simpl never. Local Arguments N.shiftr : simpl never.
Local Arguments N.div : simpl never. Local Arguments N.modulo : simpl never. Local Arguments N.pow : simpl never.
Local Arguments N.ltb : simpl never. Local Arguments N.leb : simpl never. Local Arguments N.eqb : simpl never.
Local Arguments N.size : simpl never. Local Arguments N.odd : simpl never.
Local Arguments Z.add : simpl never. Local Arguments Z.sub : simpl never. Local Arguments Z.max : simpl never.
Local Arguments Z.min : simpl never. Local Arguments Z.leb : simpl never. Local Arguments Z.ltb : simpl never.
Local Arguments Z.to_N : simpl never. Local Arguments Z.of_N : simpl never.

Lemma dle_renorm_r : forall e' My Ey, dle My Ey t53 e' -> dle My Ey t52 (e' + 1).
Proof.
  intros e' My Ey Hv. set (b := Z.min e' Ey). apply (dle_base b) in Hv; [|lia|lia].
  apply (dle_base b); [lia|lia|]. unfold sc in *.
  replace (Z.to_N (e' + 1 - b)) with (1 + Z.to_N (e' - b)) by lia. rewrite pow2_add, N.mul_assoc.
  change (t52 * 2 ^ 1) with t53. exact Hv.
Qed.

(** rounding m / P down or up is at least Y when Y * P <= m *)
Lemma round_core_ge : forall m P Y q0, 0 < P -> Y * P <= m ->
  (q0 = m / P \/ (q0 = m / P + 1 /\ m mod P <> 0)) -> Y <= q0.
Proof.
  intros m P Y q0 HP H Hq.
  assert (A : Y <= m / P) by (apply N.div_le_lower_bound; [lia|lia]).
  destruct Hq as [->|[-> _]]; lia.
Qed.

Lemma fround_ge : forall m e My Ey, fcan My Ey -> dle My Ey m e ->
  match fround m e with Fin q e2 => dle My Ey q e2 | FInf => True | _ => False end.
Proof.
  intros m e My Ey Hc H. destruct (fcan_bounds My Ey Hc) as [HMy [HEy1 HEy2]].
  destruct (N.eq_dec m 0) as [->|Hm].
  { rewrite fround_zero. unfold dle, sc in *. rewrite N.mul_0_l in *.
    pose proof (pow2_pos (Z.to_N (Ey - Z.min Ey e))) as P1. assert (My = 0) by nia. subst My. lia. }
  destruct (size_bounds m Hm) as [[Hlo Hhi] Hs1].
  destruct (fround_struct m e Hm) as (q0 & Hf & H53 & Hq52 & _ & Hcase). cbv zeta in *.
  destruct (exp_facts e (Z.of_N (N.size m))) as (He'1 & He'2 & He'3). cbv zeta in *.
  set (e' := Z.max (e + Z.of_N (N.size m) - 53) emin) in *. clearbody e'.
  assert (Hv : dle My Ey q0 e').
  { destruct Hcase as [[E ->]|[E Hq]].
    - assert (B1 : (Z.min e' Ey <= e')%Z) by (clear; lia). assert (B2 : (Z.min e' Ey <= Ey)%Z) by (clear; lia).
      assert (B3 : (Z.min e' Ey <= e)%Z) by (clear -E; lia).
      apply (dle_base (Z.min e' Ey)); [exact B2|exact B1|]. apply (dle_base (Z.min e' Ey)) in H; [|exact B2|exact B3].
      unfold sc in *. rewrite <- N.mul_assoc, <- pow2_add.
      rewrite to_N_split by (split; assumption). exact H.
    - destruct (Z_lt_ge_dec Ey e') as [Hlt|Hge].
      + (* the bound is finer than the grid: then the result is normal and exceeds every value of that exponent *)
        assert (Hn : t52 <= q0).
        { apply Hq52. apply He'3. clear -Hlt HEy1. lia. }
        apply (dle_base Ey); [clear; lia|clear -Hlt; lia|]. unfold sc.
        rewrite Z.sub_diag. change (Z.to_N 0) with 0. rewrite N.pow_0_r, N.mul_1_r.
        assert (Hk : 1 <= Z.to_N (e' - Ey)) by (clear -Hlt; lia).
        pose proof (pow2_le 1 _ Hk) as Hp. change (2 ^ 1) with 2 in Hp.
        set (P := 2 ^ Z.to_N (e' - Ey)) in *. clearbody P. clear -Hn HMy Hp. unfold t52, t53 in *. nia.
      + assert (B1 : (e <= Ey)%Z) by (clear -E Hge; lia). assert (B2 : (e <= e)%Z) by (clear; lia).
        assert (B3 : (e <= e')%Z) by (clear -E; lia).
        apply (dle_base e); [exact B1|exact B3|]. apply (dle_base e) in H; [|exact B1|exact B2]. unfold sc in *.
        rewrite Z.sub_diag in H. change (Z.to_N 0) with 0 in H. rewrite N.pow_0_r, N.mul_1_r in H.
        rewrite <- (to_N_split Ey e' e) in * by (clear -E Hge; lia).
        rewrite pow2_add, N.mul_assoc in *.
        apply N.mul_le_mono_r. eapply round_core_ge; [apply pow2_pos|exact H|exact Hq]. }
  rewrite Hf. unfold norm.
  destruct (q0 =? t53) eqn:Eq.
  - apply N.eqb_eq in Eq. subst q0. apply dle_renorm_r in Hv.
    destruct (971 <? e' + 1)%Z; [exact Logic.I|exact Hv].
  - destruct (971 <? e')%Z; [exact Logic.I|exact Hv].
Qed.

(** * partial sums of sane weights.
    [bnd j t]: [t] is a canonical normal value of at most j * 2^960 *)
Definition bnd (j : N) (t : f64w) : Prop :=
  match t with
  | Fin m e => fcan m e /\ t52 <= m /\ dle m e j 960
  | _ => False
  end.

Lemma w_sane_spec w : w_sane w = true -> exists m e, w = Fin m e /\ fcan m e /\ t52 <= m /\ dle m e 1 960.
Proof.
  destruct w as [m e| | |]; try discriminate. cbn [w_sane]. fold t52 t53. intros H.
  apply Bool.andb_true_iff in H as [H H4]. apply Bool.andb_true_iff in H as [H H3].
  apply Bool.andb_true_iff in H as [H1 H2].
  apply N.leb_le in H1. apply N.ltb_lt in H2. apply Z.leb_le in H3, H4.
  exists m, e. split; [reflexivity|]. split; [left; split; [split; assumption|split; [exact H3|lia]]|].
  split; [exact H1|].
  apply (dle_base e); [lia|lia|]. unfold sc. rewrite Z.sub_diag. change (Z.to_N 0) with 0. rewrite N.pow_0_r, !N.mul_1_r.
  assert (Hk : 53 <= Z.to_N (960 - e)) by lia. pose proof (pow2_le 53 _ Hk) as Hp. change (2 ^ 53) with t53 in Hp. lia.
Qed.

Lemma w_sane_bnd w : w_sane w = true -> bnd 1 w.
Proof. intros H. destruct (w_sane_spec w H) as (m & e & -> & Hc & Hn & Hd). cbn [bnd]. repeat split; assumption. Qed.

Lemma dle_add : forall m1 e1 m2 e2 j1 j2 E,
  dle m1 e1 j1 E -> dle m2 e2 j2 E ->
  dle (sc (Z.min e1 e2) m1 e1 + sc (Z.min e1 e2) m2 e2) (Z.min e1 e2) (j1 + j2) E.
Proof.
  intros m1 e1 m2 e2 j1 j2 E H1 H2. set (e0 := Z.min e1 e2). set (b := Z.min e0 E).
  assert (B0 : (b <= e0)%Z) by (unfold b; lia). assert (B1 : (b <= e1)%Z) by (unfold b, e0; lia).
  assert (B2 : (b <= e2)%Z) by (unfold b, e0; lia). assert (BE : (b <= E)%Z) by (unfold b; lia).
  apply (dle_base b) in H1; [|exact B1|exact BE]. apply (dle_base b) in H2; [|exact B2|exact BE].
  apply (dle_base b); [exact B0|exact BE|].
  assert (R1 : sc b (sc e0 m1 e1) e0 = sc b m1 e1).
  { unfold sc. rewrite <- N.mul_assoc, <- pow2_add. do 2 f_equal. unfold e0 in *. lia. }
  assert (R2 : sc b (sc e0 m2 e2) e0 = sc b m2 e2).
  { unfold sc. rewrite <- N.mul_assoc, <- pow2_add. do 2 f_equal. unfold e0 in *. lia. }
  unfold sc at 1. rewrite N.mul_add_distr_r. fold (sc b (sc e0 m1 e1) e0). fold (sc b (sc e0 m2 e2) e0).
  rewrite R1, R2. unfold sc at 3. rewrite N.mul_add_distr_r. fold (sc b j1 E). fold (sc b j2 E). lia.
Qed.

Lemma dle_add_l : forall m1 e1 m2 e2, dle m1 e1 (sc (Z.min e1 e2) m1 e1 + sc (Z.min e1 e2) m2 e2) (Z.min e1 e2).
Proof.
  intros m1 e1 m2 e2. set (e0 := Z.min e1 e2). apply (dle_base e0); [unfold e0; lia|lia|].
  unfold sc at 2. rewrite Z.sub_diag. change (Z.to_N 0) with 0. rewrite N.pow_0_r, N.mul_1_r. lia.
Qed.

(** one more sane weight: the sum is normal again, bounded by (j + 1) * 2^960 *)
Lemma fadd_bnd : forall j t w, j + 1 < t53 -> bnd j t -> bnd 1 w -> bnd (j + 1) (fadd t w).
Proof.
  intros j [m1 e1| | |] [m2 e2| | |] Hj Ht Hw; cbn [bnd] in *; try contradiction.
  destruct Ht as (Hc1 & Hn1 & Hd1). destruct Hw as (Hc2 & Hn2 & Hd2).
  cbn [fadd]. rewrite falign_sc.
  pose proof (dle_add _ _ _ _ _ _ _ Hd1 Hd2) as Hup.
  destruct (fround_le _ _ (j + 1) 960 Hj ltac:(unfold emin; lia) Hup) as (q & e2' & Hf & Hd).
  pose proof (fround_ge _ _ m1 e1 Hc1 (dle_add_l m1 e1 m2 e2)) as Hlo. rewrite Hf in *.
  pose proof (fround_canon _ _ _ _ Hf) as Hcq.
  split; [exact Hcq|split; [|exact Hd]].
  (* a canonical value that is at least a normal one is normal *)
  destruct Hcq as [[[Hq _] _]|[Hq ->]]; [exact Hq|exfalso].
  destruct (fcan_bounds m1 e1 Hc1) as [_ [He1 _]].
  apply (dle_base emin) in Hlo; [|exact He1|lia]. unfold sc in Hlo.
  rewrite Z.sub_diag in Hlo. change (Z.to_N 0) with 0 in Hlo. rewrite N.pow_0_r, N.mul_1_r in Hlo.
  pose proof (pow2_pos (Z.to_N (e1 - emin))) as Hp. set (P := 2 ^ Z.to_N (e1 - emin)) in *. clearbody P.
  clear -Hlo Hp Hn1 Hq. nia.
Qed.

Lemma bnd_fcs j t : bnd j t -> fcs t.
Proof. destruct t; cbn [bnd fcs]; try contradiction. intros [H _]. exact H. Qed.

Lemma psum_bnd : forall r j t, bnd j t -> Forall (fun w => w_sane w = true) r ->
  j + N.of_nat (length r) < t53 ->
  exists c T, psum t r = inr (c, T) /\ bnd (j + N.of_nat (length r)) T.
Proof.
  induction r as [|w r IH]; intros j t Ht Hr Hj; cbn [psum].
  - destruct t as [m e| | |]; cbn [bnd] in Ht; try contradiction. cbn [fis_zero].
    destruct Ht as (Hc & Hn & Hd). replace (m =? 0) with false by (symmetry; apply N.eqb_neq; unfold t52 in Hn; lia).
    exists [], (Fin m e). split; [reflexivity|]. cbn [length]. change (N.of_nat 0) with 0. rewrite N.add_0_r.
    cbn [bnd]. repeat split; assumption.
  - inversion Hr as [|? ? Hw Hr']; subst. pose proof (w_sane_bnd w Hw) as Bw.
    assert (G : fge0 w = true) by (destruct w; cbn [bnd] in Bw; try contradiction; reflexivity). rewrite G.
    cbn [length] in Hj. rewrite Nat2N.inj_succ in Hj.
    assert (Hj1 : j + 1 < t53) by lia.
    pose proof (fadd_bnd j t w Hj1 Ht Bw) as B1.
    destruct (IH (j + 1) (fadd t w) B1 Hr' ltac:(lia)) as (c & T & Hp & HB). rewrite Hp.
    exists (t :: c), T. split; [reflexivity|]. cbn [length]. rewrite Nat2N.inj_succ.
    replace (j + N.succ (N.of_nat (length r))) with (j + 1 + N.of_nat (length r)) by lia. exact HB.
Qed.

Lemma w_sane_fcanon w : w_sane w = true -> fcanon w = true.
Proof.
  intros H. destruct (w_sane_spec w H) as (m & e & -> & Hc & _). apply fcanon_iff. exact Hc.
Qed.

(** the theorem of this file *)
Lemma sane_weights_ok ws : ws <> [] -> Forall (fun w => w_sane w = true) ws ->
  N.of_nat (length ws) < t53 -> weights_ok ws = true.
Proof.
  intros Hne Hall Hlen. unfold weights_ok. apply Bool.andb_true_iff. split.
  - apply forallb_forall. intros w Hw. apply w_sane_fcanon. exact (proj1 (Forall_forall _ _) Hall w Hw).
  - destruct ws as [|w0 r]; [congruence|]. inversion Hall as [|? ? Hw0 Hr]; subst.
    pose proof (w_sane_bnd w0 Hw0) as B0. unfold windex_new_f.
    assert (G : fge0 w0 = true) by (destruct w0; cbn [bnd] in B0; try contradiction; reflexivity). rewrite G.
    rewrite wcum_psum. cbn [length] in Hlen. rewrite Nat2N.inj_succ in Hlen.
    destruct (psum_bnd r 1 w0 B0 Hr ltac:(lia)) as (c & T & Hp & HB). rewrite Hp.
    destruct T as [M E| | |]; cbn [bnd] in HB; try contradiction. destruct HB as (HcT & HnT & _).
    unfold uniform_f64_new. replace (M =? 0) with false by (symmetry; apply N.eqb_neq; unfold t52 in HnT; lia).
    rewrite (new_bounded_noop M E HcT). fold t52. apply N.leb_le. exact HnT.
Qed.

(** * the tables [corrupt_spelling] builds are well-formed ([wtabs_ok]) when the powf results are sane *)
Lemma grams_length l : forall gs, grams_of l = Some gs -> length gs = length l.
Proof.
  induction l as [|x r IH]; intros gs H; cbn [grams_of] in H.
  - injection H as <-. reflexivity.
  - destruct (split3 (it_key x)) as [[[p c] n]|]; [|discriminate].
    destruct (grams_of r) as [gs'|]; [|discriminate]. injection H as <-. cbn [length]. f_equal. apply IH. reflexivity.
Qed.

Lemma filter_length_le' {A} (f : A -> bool) l : (length (filter f l) <= length l)%nat.
Proof. induction l as [|a l IH]; cbn [filter length]; [lia|]. destruct (f a); cbn [length]; lia. Qed.

Lemma itab_entry_sane items it rt p n es : items_sane items = true -> build_tables items = TOk it rt ->
  In (p, n, es) it ->
  es <> [] /\ Forall (fun w => w_sane w = true) (map snd es) /\ N.of_nat (length es) < t53.
Proof.
  intros Hs Hb Hen. unfold items_sane in Hs. apply Bool.andb_true_iff in Hs as [Hs Hl]. fold t53 in Hl.
  apply N.ltb_lt in Hl. split; [|split].
  - unfold build_tables, build_tables_by in Hb.
    destruct (grams_of (kept_sorted item_leb items)) as [gs|] eqn:Eg; [|discriminate]. injection Hb as <- <-.
    exact (proj2 (itab_entry_spec _ _ _ _ Hen)).
  - apply Forall_forall. intros w Hw. apply in_map_iff in Hw as ([c w'] & E & Hin). cbn [snd] in E. subst w'.
    destruct (itab_edit_origin _ _ _ _ _ _ _ _ Hb Hen Hin) as (x & Hx & _ & _ & <-).
    exact (proj1 (forallb_forall _ _) Hs x Hx).
  - unfold build_tables, build_tables_by in Hb.
    destruct (grams_of (kept_sorted item_leb items)) as [gs|] eqn:Eg; [|discriminate]. injection Hb as <- <-.
    destruct (itab_entry_spec _ _ _ _ Hen) as [-> _]. rewrite map_length.
    pose proof (filter_length_le' (g_ctx p n) gs) as L1. rewrite (grams_length _ _ Eg) in L1.
    unfold kept_sorted in L1. pose proof (filter_length_le' (keep_item (f_of_N (freq_sum items))) (sort_by item_leb items)) as L2.
    rewrite <- (Permutation_length (sort_perm item_leb items)) in L2. lia.
Qed.

Lemma remove_nth_map {A B} (f : A -> B) (l : list A) : forall i, map f (remove_nth i l) = remove_nth i (map f l).
Proof. induction l as [|a l IH]; intros [|i]; cbn [remove_nth map]; try reflexivity. f_equal. apply IH. Qed.

Lemma tables_wtabs_ok_l items it rt fd : items_sane items = true -> build_tables items = TOk it rt ->
  wtabs_ok (spell_cfg_of fd it rt) = true.
Proof.
  intros Hs Hb. unfold wtabs_ok, spell_cfg_of. cbn [witab wrtab]. apply Bool.andb_true_iff. split.
  - apply forallb_forall. intros en Hen. apply in_map_iff in Hen as ([[p n] es] & <- & Hin).
    cbn [seg_ins snd]. rewrite map_map. cbn [seg_edit snd].
    destruct (itab_entry_sane _ _ _ _ _ _ Hs Hb Hin) as (Hne & Hall & Hl).
    apply sane_weights_ok.
    + destruct es; [congruence|discriminate].
    + exact Hall.
    + rewrite map_length. exact Hl.
  - apply forallb_forall. intros en Hen. apply in_map_iff in Hen as ([[[p c] n] es] & <- & Hin).
    cbn [seg_rep snd]. rewrite map_map. cbn [seg_edit snd].
    assert (Hb' := Hb). unfold build_tables, build_tables_by in Hb'.
    destruct (grams_of (kept_sorted item_leb items)) as [gs|] eqn:Eg; [|discriminate]. injection Hb' as Eit Ert.
    rewrite <- Ert in Hin. apply rtab_In in Hin as (es0 & i & w & Hen0 & Hn & -> & Hne). rewrite Eit in Hen0.
    destruct (itab_entry_sane _ _ _ _ _ _ Hs Hb Hen0) as (_ & Hall & Hl).
    apply sane_weights_ok.
    + destruct (remove_nth i es0); [congruence|discriminate].
    + apply Forall_forall. intros x Hx. rewrite remove_nth_map in Hx. apply remove_nth_incl in Hx.
      exact (proj1 (Forall_forall _ _) Hall x Hx).
    + rewrite map_length. pose proof (remove_nth_length es0 i). lia.
Qed.

(** C07 proofs, part 2: sequential = concatenation, interleaved = round-robin transpose. *)
From TU Require Import Base C07_Model C07_Proofs.
Require Import Lia.

Section Specs.
Context {A : Type}.
Implicit Types (srcs : list (list A)) (fin : list bool).

(** * Sequential *)
Lemma skipn_nth_error : forall B (l : list B) i a, nth_error l i = Some a -> skipn i l = a :: skipn (S i) l.
Proof. induction l; destruct i; cbn; intros; try discriminate; [congruence|]. erewrite IHl; eauto. Qed.

Lemma skipn_set_nth : forall B i (x : B) l, i < length l -> skipn i (set_nth i x l) = x :: skipn (S i) l.
Proof. induction i; destruct l; cbn; intros; try lia; auto. apply IHi. lia. Qed.

Lemma next_seq_stay : forall o clk fin idx, nth idx fin true = false ->
  next_idx Sequential o clk fin idx = inr (idx, clk).
Proof.
  intros o clk fin idx H. unfold next_idx. rewrite (not_all_fin _ _ H).
  pose proof (unf_lt _ _ H) as Hl. apply Nat.ltb_lt in Hl. rewrite Hl, H. reflexivity.
Qed.

Lemma next_seq_adv : forall o clk fin idx, idx < length fin -> nth idx fin true = true ->
  SeqShape idx fin -> all_fin fin = false ->
  next_idx Sequential o clk fin idx = inr (S idx, clk) /\ S idx < length fin.
Proof.
  intros o clk fin idx Hl Hi Hs Hall. unfold next_idx. rewrite Hall.
  pose proof Hl as Hl'. apply Nat.ltb_lt in Hl'. rewrite Hl', Hi. cbn [negb].
  destruct (all_fin_false _ Hall) as [j Hj]. pose proof (unf_lt _ _ Hj) as Hjl.
  assert (idx < j).
  { destruct (Nat.eq_dec j idx) as [->|Hne]; [congruence|].
    rewrite (Hs j Hjl Hne) in Hj. apply Nat.ltb_ge in Hj. lia. }
  rewrite Nat.mod_small by lia. split; [reflexivity|lia].
Qed.

Lemma tagged_cons : forall i (x : A) xs r, tagged_from i ((x :: xs) :: r) = (i, x) :: tagged_from i (xs :: r).
Proof. reflexivity. Qed.

Lemma seq_core : forall o f srcs idx fin clk out,
  Inv Sequential srcs idx fin ->
  run_loop (next_idx Sequential o) f srcs idx fin clk = Ok out ->
  out = tagged_from idx (skipn idx srcs).
Proof.
  intros o. induction f as [|f IH]; intros srcs idx fin clk out HI H; [discriminate|].
  cbn [run_loop] in H.
  pose proof (unf_lt _ _ (inv_idx _ _ _ _ HI)) as Hidx.
  assert (Hidx' : idx < length srcs) by (rewrite <- (inv_len _ _ _ _ HI); exact Hidx).
  destruct (nth_error srcs idx) as [[|x xs]|] eqn:Hn; [| |discriminate].
  - rewrite (skipn_nth_error _ _ _ _ Hn). cbn [tagged_from map app].
    pose proof (seqshape_set _ _ (inv_seq _ _ _ _ HI eq_refl)) as Hs.
    assert (Hset : nth idx (set_nth idx true fin) true = true) by (apply nth_set_nth_eq; exact Hidx).
    destruct (all_fin (set_nth idx true fin)) eqn:Eall.
    + injection H as <-. rewrite skipn_all2; [reflexivity|].
      destruct (Nat.lt_ge_cases (S idx) (length srcs)) as [Hlt|]; [exfalso|lia].
      rewrite all_fin_true in Eall. specialize (Eall (S idx)).
      rewrite (Hs (S idx)) in Eall; [|rewrite set_nth_length, (inv_len _ _ _ _ HI); exact Hlt|lia].
      apply Nat.ltb_lt in Eall. lia.
    + destruct (next_seq_adv o clk _ idx ltac:(rewrite set_nth_length; exact Hidx) Hset Hs Eall) as [En Hlt].
      rewrite En in H.
      eapply IH; [|exact H].
      pose proof (next_idx_ok _ _ _ _ _ _ _ (fun _ => Hs) En) as [Hi' Hs'].
      apply inv_none; auto.
  - rewrite (next_seq_stay _ _ _ _ (inv_idx _ _ _ _ HI)) in H.
    apply cons_res_ok in H. destruct H as (out' & H & ->).
    rewrite (skipn_nth_error _ _ _ _ Hn), tagged_cons. f_equal.
    rewrite <- (skipn_set_nth _ idx xs srcs Hidx').
    eapply IH; [|exact H].
    eapply inv_item; eauto; [apply HI|apply HI].
Qed.

(** * Interleaved *)
Definition hd_at srcs (j : nat) : list (nat * A) :=
  match nth j srcs [] with x :: _ => [(j, x)] | [] => [] end.
Definition hs (i : nat) srcs : list (nat * A) := flat_map (hd_at srcs) (seq i (length srcs - i)).
Definition ts (i : nat) srcs : list (list A) :=
  map (fun j => if i <=? j then tl (nth j srcs []) else nth j srcs []) (seq 0 (length srcs)).
Fixpoint rrec (fuel : nat) srcs : list (nat * A) :=
  match fuel with O => [] | S f => hs 0 srcs ++ rrec f (map (@tl A) srcs) end.
Definition rr' srcs := rrec (max_len srcs) srcs.

Lemma nth_map_seq : forall B (f : nat -> B) n j d, j < n -> nth j (map f (seq 0 n)) d = f j.
Proof.
  intros B f n j d H. rewrite (nth_indep _ d (f 0)) by (rewrite map_length, seq_length; exact H).
  rewrite map_nth, seq_nth by exact H. reflexivity.
Qed.

Lemma ts_length : forall i srcs, length (ts i srcs) = length srcs.
Proof. intros. unfold ts. rewrite map_length, seq_length. reflexivity. Qed.

Lemma nth_ts : forall i srcs j,
  nth j (ts i srcs) [] = if i <=? j then tl (nth j srcs []) else nth j srcs [].
Proof.
  intros i srcs j. destruct (Nat.lt_ge_cases j (length srcs)) as [Hlt|Hge].
  - unfold ts. rewrite nth_map_seq by exact Hlt. reflexivity.
  - rewrite nth_overflow by (rewrite ts_length; exact Hge).
    rewrite (nth_overflow srcs) by exact Hge. destruct (i <=? j); reflexivity.
Qed.

Lemma list_ext : forall l1 l2 : list (list A), length l1 = length l2 ->
  (forall j, nth j l1 [] = nth j l2 []) -> l1 = l2.
Proof. intros l1 l2 Hl H. apply (nth_ext _ _ [] [] Hl). intros; apply H. Qed.

Lemma flat_map_nil : forall B C (f : B -> list C) l, (forall x, In x l -> f x = []) -> flat_map f l = [].
Proof. induction l; cbn; intros H; auto. rewrite H, IHl; auto. Qed.

Lemma flat_map_ext_in' : forall B C (f g : B -> list C) l,
  (forall x, In x l -> f x = g x) -> flat_map f l = flat_map g l.
Proof. induction l; cbn; intros H; auto. rewrite H, IHl; auto. Qed.

Lemma hs_skip : forall a b l, a <= b <= length l ->
  (forall j, a <= j < b -> nth j l [] = []) -> hs a l = hs b l.
Proof.
  intros a b l Hab H. unfold hs.
  replace (length l - a) with ((b - a) + (length l - b)) by lia.
  rewrite seq_app, flat_map_app. replace (a + (b - a)) with b by lia.
  rewrite flat_map_nil; [reflexivity|].
  intros j Hj. apply in_seq in Hj. unfold hd_at. rewrite H by lia. reflexivity.
Qed.

Lemma ts_skip : forall a b l, a <= b ->
  (forall j, a <= j < b -> nth j l [] = []) -> ts a l = ts b l.
Proof.
  intros a b l Hab H. apply list_ext; [rewrite !ts_length; reflexivity|].
  intros j. rewrite !nth_ts.
  destruct (a <=? j) eqn:Ea, (b <=? j) eqn:Eb; auto.
  - apply Nat.leb_le in Ea. apply Nat.leb_gt in Eb. rewrite H by lia. reflexivity.
  - apply Nat.leb_gt in Ea. apply Nat.leb_le in Eb. lia.
Qed.

Lemma hs_end : forall l, hs (length l) l = [].
Proof. intros. unfold hs. rewrite Nat.sub_diag. reflexivity. Qed.

Lemma ts_end : forall l, ts (length l) l = l.
Proof.
  intros. apply list_ext; [apply ts_length|]. intros j. rewrite nth_ts.
  destruct (length l <=? j) eqn:E; auto. apply Nat.leb_le in E.
  rewrite nth_overflow by exact E. reflexivity.
Qed.

Lemma nth_map_tl : forall l j, nth j (map (@tl A) l) [] = tl (nth j l []).
Proof. intros. change (@nil A) with (tl (@nil A)) at 1. apply map_nth. Qed.

Lemma ts_0 : forall l, ts 0 l = map (@tl A) l.
Proof.
  intros. apply list_ext; [rewrite ts_length, map_length; reflexivity|].
  intros j. rewrite nth_ts, nth_map_tl. reflexivity.
Qed.

Lemma list_max_cons : forall a l, list_max (a :: l) = Nat.max a (list_max l).
Proof. reflexivity. Qed.

Lemma max_len_tl : forall l, max_len (map (@tl A) l) = pred (max_len l).
Proof.
  unfold max_len. induction l as [|a l IH]; [reflexivity|].
  cbn [map]. rewrite !list_max_cons, IH. destruct a; cbn [tl length]; lia.
Qed.

Lemma max_len_0 : forall l : list (list A), max_len l = 0 -> forall j, nth j l [] = [].
Proof.
  unfold max_len. induction l as [|a l IH]; intros H j.
  - destruct j; reflexivity.
  - cbn [map] in H. rewrite list_max_cons in H.
    destruct j; [destruct a; [reflexivity|cbn [length] in H; lia]|apply IH; lia].
Qed.

Lemma all_nil_max_len : forall l : list (list A), (forall j, nth j l [] = []) -> max_len l = 0.
Proof.
  unfold max_len. induction l as [|a l IH]; intros H; [reflexivity|].
  cbn [map]. rewrite list_max_cons, IH by (intros j; apply (H (S j))).
  specialize (H 0). cbn in H. subst a. reflexivity.
Qed.

Lemma hs_all_nil : forall i l, (forall j, nth j l [] = []) -> hs i l = [].
Proof. intros i l H. unfold hs. apply flat_map_nil. intros j _. unfold hd_at. rewrite H. reflexivity. Qed.

Lemma rr'_nil : forall l, (forall j, nth j l [] = []) -> rr' l = [].
Proof. intros l H. unfold rr'. rewrite all_nil_max_len by exact H. reflexivity. Qed.

Lemma rr'_unfold : forall l, rr' l = hs 0 l ++ rr' (map (@tl A) l).
Proof.
  intros l. unfold rr'. rewrite max_len_tl. destruct (max_len l) eqn:E.
  - cbn. rewrite hs_all_nil; [reflexivity|]. apply max_len_0. exact E.
  - reflexivity.
Qed.

(** moving from position [S i] to the next unfinished position [i'] (all sources
    in between, cyclically, are exhausted) does not change what remains to be emitted *)
Lemma jump : forall l fin i i', length fin = length l -> i < length l ->
  (forall j, nth j fin true = true -> nth j l [] = []) ->
  nth i' fin true = false ->
  ((i < i' /\ forall j, i < j < i' -> nth j fin true = true) \/
   (i' <= i /\ (forall j, i < j -> nth j fin true = true) /\ (forall j, j < i' -> nth j fin true = true))) ->
  hs (S i) l ++ rr' (ts (S i) l) = hs i' l ++ rr' (ts i' l).
Proof.
  intros l fin i i' Hlen Hi Hf Hi' [[Hlt Hb]|(Hle & Hafter & Hbefore)].
  - pose proof (unf_lt _ _ Hi') as Hl'. rewrite Hlen in Hl'.
    rewrite (hs_skip (S i) i'), (ts_skip (S i) i'); auto; try lia;
      intros j Hj; apply Hf, Hb; lia.
  - rewrite (hs_skip (S i) (length l)), (ts_skip (S i) (length l)); try lia;
      try (intros j Hj; apply Hf, Hafter; lia).
    rewrite hs_end, ts_end, rr'_unfold, <- ts_0. cbn [app].
    rewrite (hs_skip 0 i'), (ts_skip 0 i'); auto; try lia;
      intros j Hj; apply Hf, Hbefore; lia.
Qed.

Lemma next_inter_probe : forall o clk fin idx idx' clk',
  next_idx Interleaved o clk fin idx = inr (idx', clk') ->
  idx < length fin /\ probe fin (length fin) (S idx mod length fin) = Some idx'.
Proof.
  intros o clk fin idx idx' clk' H. unfold next_idx in H.
  destruct (all_fin fin); [discriminate|].
  destruct (idx <? length fin) eqn:E; [|discriminate]. cbn [negb] in H.
  apply Nat.ltb_lt in E. split; [exact E|].
  destruct (probe fin (length fin) (S idx mod length fin)); [|discriminate].
  injection H as <- _. reflexivity.
Qed.

Lemma hs_item : forall srcs i x xs, nth_error srcs i = Some (x :: xs) ->
  hs i srcs = (i, x) :: hs (S i) (set_nth i xs srcs).
Proof.
  intros srcs i x xs Hn. pose proof (nth_error_lt _ _ _ _ Hn) as Hi.
  unfold hs. rewrite set_nth_length.
  replace (length srcs - i) with (S (length srcs - S i)) by lia. cbn [seq flat_map].
  unfold hd_at at 1. rewrite (nth_error_nth _ _ _ _ [] Hn). cbn [app]. f_equal.
  apply flat_map_ext_in'. intros j Hj. apply in_seq in Hj. unfold hd_at.
  rewrite nth_set_nth_neq by lia. reflexivity.
Qed.

Lemma ts_item : forall srcs i x xs, nth_error srcs i = Some (x :: xs) ->
  ts i srcs = ts (S i) (set_nth i xs srcs).
Proof.
  intros srcs i x xs Hn. pose proof (nth_error_lt _ _ _ _ Hn) as Hi.
  apply list_ext; [rewrite !ts_length, set_nth_length; reflexivity|].
  intros j. rewrite !nth_ts. destruct (Nat.eq_dec j i) as [->|Hne].
  - rewrite Nat.leb_refl, (nth_error_nth _ _ _ _ [] Hn).
    replace (S i <=? i) with false by (symmetry; apply Nat.leb_gt; lia).
    rewrite nth_set_nth_eq by exact Hi. reflexivity.
  - rewrite nth_set_nth_neq by exact Hne.
    destruct (i <=? j) eqn:E1, (S i <=? j) eqn:E2; auto.
    + apply Nat.leb_le in E1. apply Nat.leb_gt in E2. lia.
    + apply Nat.leb_gt in E1. apply Nat.leb_le in E2. lia.
Qed.

Lemma inter_core : forall o f srcs idx fin clk out,
  Inv Interleaved srcs idx fin ->
  run_loop (next_idx Interleaved o) f srcs idx fin clk = Ok out ->
  out = hs idx srcs ++ rr' (ts idx srcs).
Proof.
  intros o. induction f as [|f IH]; intros srcs idx fin clk out HI H; [discriminate|].
  cbn [run_loop] in H.
  pose proof (unf_lt _ _ (inv_idx _ _ _ _ HI)) as Hidx.
  assert (Hidx' : idx < length srcs) by (rewrite <- (inv_len _ _ _ _ HI); exact Hidx).
  destruct (nth_error srcs idx) as [[|x xs]|] eqn:Hn; [| |discriminate].
  - (* exhausted: same as standing at S idx *)
    assert (Hnil : nth idx srcs [] = []) by (eapply nth_error_nth; exact Hn).
    assert (Hstep : hs idx srcs ++ rr' (ts idx srcs) = hs (S idx) srcs ++ rr' (ts (S idx) srcs)).
    { rewrite (hs_skip idx (S idx)), (ts_skip idx (S idx)); auto; try lia;
        intros j Hj; replace j with idx by lia; exact Hnil. }
    destruct (all_fin (set_nth idx true fin)) eqn:Eall.
    + injection H as <-. rewrite all_fin_true in Eall.
      assert (Hall : forall j, nth j srcs [] = []) by (intros j; eapply inv_none_fin; eauto).
      rewrite hs_all_nil by exact Hall. rewrite rr'_nil; [reflexivity|].
      intros j. rewrite nth_ts, Hall. destruct (idx <=? j); reflexivity.
    + destruct (next_idx Interleaved o clk (set_nth idx true fin) idx) as [e|[idx' clk']] eqn:En; [discriminate|].
      pose proof (next_idx_ok Interleaved _ _ _ _ _ _ ltac:(intros E0; discriminate E0) En) as [Hi' _].
      pose proof (next_inter_probe _ _ _ _ _ _ En) as [Hl Hp].
      assert (HI' : Inv Interleaved srcs idx' (set_nth idx true fin)) by (apply inv_none; auto; discriminate).
      rewrite (IH _ _ _ _ _ HI' H), Hstep. symmetry.
      eapply jump; [apply HI'|exact Hidx'|apply HI'|exact Hi'|].
      apply (probe_shape _ _ _ Hl Hp).
  - destruct (next_idx Interleaved o clk fin idx) as [e|[idx' clk']] eqn:En; [discriminate|].
    pose proof (next_idx_ok Interleaved _ _ _ _ _ _ ltac:(intros E0; discriminate E0) En) as [Hi' _].
    pose proof (next_inter_probe _ _ _ _ _ _ En) as [Hl Hp].
    apply cons_res_ok in H. destruct H as (out' & H & ->).
    assert (HI' : Inv Interleaved (set_nth idx xs srcs) idx' fin) by (eapply inv_item; eauto; discriminate).
    rewrite (IH _ _ _ _ _ HI' H), (hs_item _ _ _ _ Hn), (ts_item _ _ _ _ Hn). cbn [app]. f_equal.
    symmetry. eapply jump; [apply HI'|rewrite set_nth_length; exact Hidx'|apply HI'|exact Hi'|].
    apply (probe_shape _ _ _ Hl Hp).
Qed.

(** the recursive transpose is the closed form [rr] of the model *)
Lemma flat_map_map : forall B C D (f : B -> C) (g : C -> list D) l,
  flat_map g (map f l) = flat_map (fun x => g (f x)) l.
Proof. induction l; cbn; auto. rewrite IHl. reflexivity. Qed.

Lemma round_0 : forall l, round l 0 = hs 0 l.
Proof.
  intros. unfold round, hs. rewrite Nat.sub_0_r. apply flat_map_ext_in'. intros j _.
  unfold hd_at. destruct (nth j l []); reflexivity.
Qed.

Lemma round_S : forall l r, round l (S r) = round (map (@tl A) l) r.
Proof.
  intros. unfold round. rewrite map_length. apply flat_map_ext_in'. intros j _.
  rewrite nth_map_tl. destruct (nth j l []); [destruct r|]; reflexivity.
Qed.

Lemma rrec_closed : forall f l, rrec f l = flat_map (round l) (seq 0 f).
Proof.
  induction f as [|f IH]; intros l; [reflexivity|].
  cbn [rrec seq flat_map]. rewrite round_0. f_equal.
  rewrite <- seq_shift, flat_map_map, IH. apply flat_map_ext_in'. intros r _.
  symmetry. apply round_S.
Qed.

Lemma rr'_rr : forall l, rr' l = rr l.
Proof. intros. unfold rr', rr. apply rrec_closed. Qed.

Lemma ts_0_hs_0 : forall l, hs 0 l ++ rr' (ts 0 l) = rr l.
Proof. intros. rewrite ts_0, <- rr'_unfold. apply rr'_rr. Qed.

End Specs.

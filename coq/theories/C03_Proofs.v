(** C03 proofs. *)
From TU Require Import Base BPE_Model C03_Model.
Open Scope N_scope.

Lemma merge_word_pinned_refuted_l :
  exists tbl w, merge_word_pinned tbl w <> Some (canon_ids tbl w).
Proof.
  exists [[97;98];[97;98;99]], [97;98;99]. vm_compute. discriminate.
Qed.

(** C03 proofs: the word- and text-level statements assembled from C02_Loop / C03_Sim. *)
From TU Require Import Base BPE_Model C03_Model C02_Inv C02_Loop C02_Proofs C03_Sim.
From Coq Require Import Lia.
Open Scope N_scope.

Lemma merge_word_pinned_refuted_l :
  exists tbl w, Forall (fun b => b < 256) w /\ merge_word_pinned tbl w <> Some (canon_ids tbl w).
Proof.
  exists [[97;98];[97;98;99]], [97;98;99]. split; [repeat constructor|vm_compute; discriminate].
Qed.

Lemma best_is_min_l : forall tbl ts m p, best tbl 0 ts = Some (m, p) ->
  (exists l x y r, ts = l ++ x :: y :: r /\ p = length l /\ lookup tbl (x ++ y) = Some m) /\
  (forall l x y r m', ts = l ++ x :: y :: r -> lookup tbl (x ++ y) = Some m' ->
     m < m' \/ (m = m' /\ (p <= length l)%nat)).
Proof.
  intros tbl ts m p H. split.
  - destruct (best_sound tbl ts 0 m p H) as [l [x [y [r [E [Hp Hl]]]]]]. exists l, x, y, r. auto.
  - intros l x y r m' E Hl. exact (best_min tbl ts 0 m p H l x y r m' E Hl).
Qed.

Lemma best_none_l : forall tbl ts, best tbl 0 ts = None ->
  forall l x y r, ts = l ++ x :: y :: r -> lookup tbl (x ++ y) = None.
Proof. intros tbl ts H. exact (best_none tbl ts 0 H). Qed.

Lemma canon_maximal_pairs : forall tbl ts l x y r,
  canon tbl ts = l ++ x :: y :: r -> lookup tbl (x ++ y) = None.
Proof. intros tbl ts. exact (best_none tbl (canon tbl ts) 0 (canon_maximal_l tbl ts)). Qed.

(** the heap loop is the canonical reference, for every table and every word of bytes *)
Lemma merge_word_canonical_l tbl w : Forall (fun b => b < 256) w ->
  merge_word tbl w = Some (canon_ids tbl w).
Proof.
  intro Hb. destruct (merge_word_inv_l tbl w Hb) as [bs [E _]].
  pose proof E as E2. unfold merge_word_st in E2.
  apply (loop_canonical tbl w) in E2; [|apply init_inv; exact Hb|apply init_complete].
  cbn [fst] in E2. rewrite toks_singletons in E2.
  unfold merge_word. rewrite E. cbn [option_map snd]. rewrite flatten_ids_toks, E2. reflexivity.
Qed.

(** the reference changes no byte *)
Lemma merge_at_concat : forall p ts, concat (merge_at p ts) = concat ts.
Proof.
  induction p as [|p IH]; intros [|x [|y r]]; cbn [merge_at concat]; try reflexivity.
  - rewrite app_assoc. reflexivity.
  - rewrite IH. reflexivity.
  - rewrite IH. reflexivity.
Qed.

Lemma canon_concat_l tbl ts : concat (canon tbl ts) = concat ts.
Proof.
  unfold canon. generalize (length ts) as n. intro n. revert ts.
  induction n as [|n IH]; intro ts; cbn [canon_fuel]; [reflexivity|].
  destruct (best tbl 0 ts) as [[m p]|]; [|reflexivity]. rewrite IH. apply merge_at_concat.
Qed.

(** text level *)
Lemma all_some_map {A B} (f : A -> option B) (g : A -> B) : forall l,
  (forall x, In x l -> f x = Some (g x)) -> all_some (map f l) = Some (map g l).
Proof.
  induction l as [|x l IH]; intro H; [reflexivity|]. cbn [map all_some].
  rewrite (H x) by (left; reflexivity). rewrite IH by (intros y Hy; apply H; right; exact Hy). reflexivity.
Qed.

Lemma bpe_body_canonical_l tbl s : Forall valid_cp s -> bpe_body tbl s = Some (canon_text tbl s).
Proof.
  intro Hs. unfold bpe_body, canon_text.
  rewrite (all_some_map _ (fun w => canon_ids tbl (utf8s w))).
  - cbn [option_map]. rewrite flat_map_concat_map. reflexivity.
  - intros w Hw. apply merge_word_canonical_l. apply utf8s_bytes. apply (words_valid s Hs). exact Hw.
Qed.

Lemma check_run_C03_l v : Forall valid_cp (v_str (v_nth 1 v)) -> check_C03 v (run_C03 v) = true.
Proof.
  intro Hs. unfold check_C03, run_C03. rewrite (bpe_body_canonical_l _ _ Hs). cbn [opt_v val_eqb].
  rewrite val_eqb_nlist. reflexivity.
Qed.

From TU Require Import Base C01_Model.
From Coq Require Import Lia.
Open Scope N_scope.

Lemma cons_reg_str c segs : concat (map seg_str (cons_reg c segs)) = c :: concat (map seg_str segs).
Proof. destruct segs as [|[r|t] rest]; reflexivity. Qed.

From TU Require Import Base C01_Model.
From Coq Require Import Lia ZifyBool ZifyN ZifyNat Permutation.
Open Scope N_scope.
Ltac Zify.zify_post_hook ::= Z.div_mod_to_equations.

Lemma utf8_decode_cons c r : scalar c = true ->
  utf8_decode (utf8 c ++ r) = option_map (cons c) (utf8_decode r).
Proof.
  intros Hs. unfold scalar in Hs. unfold utf8.
  destruct (c <? 128) eqn:E1.
  { cbn [app utf8_decode]. rewrite E1. reflexivity. }
  destruct (c <? 2048) eqn:E2.
  { cbn [app utf8_decode].
    replace (192 + c / 64 <? 128) with false by lia.
    replace (192 + c / 64 <? 194) with false by lia.
    replace (192 + c / 64 <? 224) with true by lia.
    unfold cont. replace ((128 <=? 128 + c mod 64) && (128 + c mod 64 <? 192)) with true by lia.
    f_equal. f_equal. lia. }
  destruct (c <? 65536) eqn:E3.
  { cbn [app utf8_decode].
    replace (224 + c / 4096 <? 128) with false by lia.
    replace (224 + c / 4096 <? 194) with false by lia.
    replace (224 + c / 4096 <? 224) with false by lia.
    replace (224 + c / 4096 <? 240) with true by lia.
    cbv zeta. unfold cont.
    replace (224 + c / 4096 - 224) with (c / 4096) by lia.
    replace (128 + (c / 64) mod 64 - 128) with ((c / 64) mod 64) by lia.
    replace (128 + c mod 64 - 128) with (c mod 64) by lia.
    replace (c / 4096 * 4096 + (c / 64) mod 64 * 64 + c mod 64) with c by lia.
    replace ((128 <=? 128 + (c / 64) mod 64) && (128 + (c / 64) mod 64 <? 192)) with true by lia.
    replace ((128 <=? 128 + c mod 64) && (128 + c mod 64 <? 192)) with true by lia.
    replace (2048 <=? c) with true by lia. unfold scalar. rewrite Hs. reflexivity. }
  cbn [app utf8_decode].
  replace (240 + c / 262144 <? 128) with false by lia.
  replace (240 + c / 262144 <? 194) with false by lia.
  replace (240 + c / 262144 <? 224) with false by lia.
  replace (240 + c / 262144 <? 240) with false by lia.
  replace (240 + c / 262144 <? 245) with true by lia.
  cbv zeta. unfold cont.
  replace (240 + c / 262144 - 240) with (c / 262144) by lia.
  replace (128 + (c / 4096) mod 64 - 128) with ((c / 4096) mod 64) by lia.
  replace (128 + (c / 64) mod 64 - 128) with ((c / 64) mod 64) by lia.
  replace (128 + c mod 64 - 128) with (c mod 64) by lia.
  replace (c / 262144 * 262144 + (c / 4096) mod 64 * 4096 + (c / 64) mod 64 * 64 + c mod 64) with c by lia.
  replace ((128 <=? 128 + (c / 4096) mod 64) && (128 + (c / 4096) mod 64 <? 192)) with true by lia.
  replace ((128 <=? 128 + (c / 64) mod 64) && (128 + (c / 64) mod 64 <? 192)) with true by lia.
  replace ((128 <=? 128 + c mod 64) && (128 + c mod 64 <? 192)) with true by lia.
  replace (65536 <=? c) with true by lia.
  replace (c <? 1114112) with true by lia. reflexivity.
Qed.

(** * equality tests *)
Lemma nlist_eqb_eq a b : nlist_eqb a b = true <-> a = b.
Proof.
  revert b; induction a as [|x a IH]; intros [|y b]; cbn; split; intros H; try congruence; try reflexivity.
  - apply andb_true_iff in H as [H1 H2]. apply N.eqb_eq in H1. apply IH in H2. congruence.
  - injection H as -> ->. rewrite N.eqb_refl. cbn. apply IH. reflexivity.
Qed.
Lemma str_eqb_eq a b : str_eqb a b = true <-> a = b.
Proof. apply nlist_eqb_eq. Qed.
Lemma str_eqb_refl a : str_eqb a a = true.
Proof. apply str_eqb_eq. reflexivity. Qed.
Lemma str_eqb_neq a b : str_eqb a b = false <-> a <> b.
Proof. split; intros H. - intros E. apply str_eqb_eq in E. congruence.
  - destruct (str_eqb a b) eqn:E; [apply str_eqb_eq in E; contradiction|reflexivity]. Qed.

(** * uniq *)
Lemma uniq_In x l : In x (uniq l) <-> In x l.
Proof.
  induction l as [|y l IH]; cbn [uniq]; [tauto|]. cbn [In]. rewrite filter_In, IH.
  split.
  - intros [H|[H _]]; auto.
  - intros [H|H]; [auto|]. destruct (str_eqb y x) eqn:E.
    + left. apply str_eqb_eq in E. exact E.
    + right. split; [exact H|reflexivity].
Qed.

Lemma NoDup_filter {A} (f : A -> bool) l : NoDup l -> NoDup (filter f l).
Proof.
  induction 1 as [|x l Hx Hl IH]; cbn; [constructor|].
  destruct (f x); [constructor; [rewrite filter_In; tauto|exact IH]|exact IH].
Qed.

Lemma uniq_NoDup l : NoDup (uniq l).
Proof.
  induction l as [|y l IH]; cbn [uniq]; constructor.
  - rewrite filter_In. intros [_ H]. rewrite str_eqb_refl in H. discriminate.
  - apply NoDup_filter. exact IH.
Qed.

(** * index_of / nth_error *)
Lemma index_of_nth t l k : index_of t l = Some k -> nth_error l k = Some t.
Proof.
  revert k; induction l as [|x l IH]; intros k; cbn [index_of]; [discriminate|].
  destruct (str_eqb t x) eqn:E.
  - intros H. injection H as <-. apply str_eqb_eq in E. subst. reflexivity.
  - destruct (index_of t l) as [j|]; cbn; [|discriminate]. intros H. injection H as <-. cbn. apply IH. reflexivity.
Qed.

Lemma index_of_In t l : In t l -> exists k, index_of t l = Some k.
Proof.
  induction l as [|x l IH]; cbn [In index_of]; [tauto|]. intros H.
  destruct (str_eqb t x) eqn:E; [eexists; reflexivity|].
  destruct H as [H|H]; [subst; rewrite str_eqb_refl in E; discriminate|].
  destruct (IH H) as [k ->]. eexists; reflexivity.
Qed.

Lemma index_of_lt t l k : index_of t l = Some k -> (k < length l)%nat.
Proof. intros H. apply index_of_nth in H. apply nth_error_Some. congruence. Qed.

Lemma nth_index_of l : NoDup l -> forall k t, nth_error l k = Some t -> index_of t l = Some k.
Proof.
  induction 1 as [|x l Hx Hl IH]; intros k t; [destruct k; discriminate|].
  destruct k as [|k]; cbn [nth_error index_of].
  - intros H. injection H as ->. rewrite str_eqb_refl. reflexivity.
  - intros H. destruct (str_eqb t x) eqn:E.
    + apply str_eqb_eq in E. subst. exfalso. apply Hx. eapply nth_error_In. exact H.
    + rewrite (IH _ _ H). reflexivity.
Qed.

Lemma index_ofN_nth c l k : index_ofN c l = Some k -> nth_error l k = Some c.
Proof.
  revert k; induction l as [|x l IH]; intros k; cbn [index_ofN]; [discriminate|].
  destruct (N.eqb c x) eqn:E.
  - intros H. injection H as <-. apply N.eqb_eq in E. subst. reflexivity.
  - destruct (index_ofN c l) as [j|]; cbn; [|discriminate]. intros H. injection H as <-. cbn. apply IH. reflexivity.
Qed.

(** * special vocabulary: ids and tokens are inverse *)
Lemma sp_id_tok off sv t i : sp_id off sv t = Some i -> sp_tok off sv i = Some t /\ off <= i /\ i < off + N.of_nat (length sv).
Proof.
  unfold sp_id, sp_tok. destruct (index_of t sv) as [k|] eqn:E; cbn; [|discriminate].
  intros H. injection H as <-. pose proof (index_of_lt _ _ _ E) as Hlt. apply index_of_nth in E.
  replace (off + N.of_nat k <? off) with false by lia.
  replace (N.to_nat (off + N.of_nat k - off)) with k by lia. split; [exact E|lia].
Qed.

Lemma sp_tok_id off sv t i : NoDup sv -> sp_tok off sv i = Some t -> sp_id off sv t = Some i.
Proof.
  unfold sp_id, sp_tok. intros Hnd. destruct (i <? off) eqn:E; [discriminate|].
  intros H. rewrite (nth_index_of _ Hnd _ _ H). cbn. f_equal. lia.
Qed.

Lemma sp_id_In off sv t : In t sv -> exists i, sp_id off sv t = Some i.
Proof. intros H. destruct (index_of_In _ _ H) as [k Hk]. unfold sp_id. rewrite Hk. eexists; reflexivity. Qed.

Lemma sp_id_Some_In off sv t i : sp_id off sv t = Some i -> In t sv.
Proof. intros H. apply sp_id_tok in H as [H _]. unfold sp_tok in H. destruct (i <? off); [discriminate|]. eapply nth_error_In; eauto. Qed.

(** * map_opt *)
Lemma map_opt_Forall2 {A B} (f : A -> option B) l r : map_opt f l = Some r -> Forall2 (fun x y => f x = Some y) l r.
Proof.
  revert r; induction l as [|x l IH]; intros r; cbn [map_opt].
  - intros H. injection H as <-. constructor.
  - destruct (f x) eqn:E; [|discriminate]. destruct (map_opt f l); [|discriminate].
    intros H. injection H as <-. constructor; [exact E|apply IH; reflexivity].
Qed.

Lemma map_opt_all {A B} (f : A -> option B) l : (forall x, In x l -> exists y, f x = Some y) -> exists r, map_opt f l = Some r.
Proof.
  induction l as [|x l IH]; intros H; cbn [map_opt]; [eexists; reflexivity|].
  destruct (H x (or_introl eq_refl)) as [y ->]. destruct IH as [r ->]; [intros; apply H; right; assumption|].
  eexists; reflexivity.
Qed.

(** * is_prefix, first_match, scan *)
Lemma is_prefix_app t s : is_prefix t s = true -> s = t ++ skipn (length t) s.
Proof.
  revert s; induction t as [|a t IH]; intros s; cbn [is_prefix]; [reflexivity|].
  destruct s as [|b s]; [discriminate|]. intros H. apply andb_true_iff in H as [H1 H2].
  apply N.eqb_eq in H1. subst. cbn. f_equal. apply IH. exact H2.
Qed.

Lemma is_prefix_app_r t r : is_prefix t (t ++ r) = true.
Proof. induction t as [|a t IH]; cbn; [reflexivity|]. rewrite N.eqb_refl. exact IH. Qed.

Lemma first_match_spec toks s t : first_match toks s = Some t -> In t toks /\ is_prefix t s = true.
Proof.
  induction toks as [|x toks IH]; cbn [first_match]; [discriminate|].
  destruct (is_prefix x s) eqn:E.
  - intros H. injection H as <-. split; [left; reflexivity|exact E].
  - intros H. destruct (IH H). split; [right; assumption|assumption].
Qed.

Lemma first_match_None toks s : first_match toks s = None -> forall t, In t toks -> is_prefix t s = false.
Proof.
  induction toks as [|x toks IH]; cbn [first_match]; [intros _ t []|].
  destruct (is_prefix x s) eqn:E; [discriminate|]. intros H t [<-|Ht]; [exact E|apply IH; assumption].
Qed.

Lemma cons_reg_str c segs : concat (map seg_str (cons_reg c segs)) = c :: concat (map seg_str segs).
Proof. destruct segs as [|[r|t] rest]; reflexivity. Qed.

(** [scan] partitions the text, for every token list (= every alternation order). *)
Lemma scan_skipn toks : Forall (fun t => t <> []) toks ->
  forall s k, concat (map seg_str (scan toks s k)) = skipn k s.
Proof.
  intros Hne. induction s as [|c r IH]; intros k; cbn [scan].
  - destruct k; reflexivity.
  - destruct k as [|k]; [|cbn [skipn]; apply IH].
    destruct (first_match toks (c :: r)) as [t|] eqn:E.
    + apply first_match_spec in E as [Hin Hp]. cbn [map concat seg_str]. rewrite IH.
      pose proof (is_prefix_app _ _ Hp) as Hs. rewrite Forall_forall in Hne. specialize (Hne _ Hin).
      destruct t as [|a t]; [congruence|]. cbn [length skipn app] in Hs |- *.
      replace (S (length t) - 1)%nat with (length t) by lia. exact (eq_sym Hs).
    + rewrite cons_reg_str, IH. reflexivity.
Qed.

(** * order independence for prefix-free token sets *)
Definition PrefixFree (toks : list str) : Prop :=
  forall t u, In t toks -> In u toks -> is_prefix t u = true -> t = u.

Lemma is_prefix_both t u s : is_prefix t s = true -> is_prefix u s = true ->
  is_prefix t u = true \/ is_prefix u t = true.
Proof.
  revert u s; induction t as [|a t IH]; intros u s; [left; reflexivity|].
  destruct u as [|b u]; [right; reflexivity|]. destruct s as [|c s]; cbn [is_prefix]; [discriminate|].
  intros H1 H2. apply andb_true_iff in H1 as [E1 H1]. apply andb_true_iff in H2 as [E2 H2].
  apply N.eqb_eq in E1, E2. subst. rewrite N.eqb_refl. cbn. eapply IH; eauto.
Qed.

Lemma first_match_some toks s t : In t toks -> is_prefix t s = true -> exists u, first_match toks s = Some u.
Proof.
  intros Hin Hp. destruct (first_match toks s) eqn:E; [eexists; reflexivity|].
  rewrite (first_match_None _ _ E _ Hin) in Hp. discriminate.
Qed.

Lemma first_match_perm toks toks' s : PrefixFree toks -> Permutation toks toks' ->
  first_match toks' s = first_match toks s.
Proof.
  intros Hpf Hperm. destruct (first_match toks s) as [t|] eqn:E.
  - apply first_match_spec in E as [Hin Hp].
    destruct (first_match_some toks' s t) as [u Hu]; [eapply Permutation_in; eauto|exact Hp|].
    rewrite Hu. f_equal. apply first_match_spec in Hu as [Hin' Hp'].
    apply Permutation_sym in Hperm. pose proof (Permutation_in _ Hperm Hin') as Hin2.
    destruct (is_prefix_both _ _ _ Hp Hp') as [H|H]; [symmetry|]; apply Hpf; assumption.
  - destruct (first_match toks' s) as [u|] eqn:E'; [|reflexivity]. exfalso.
    apply first_match_spec in E' as [Hin' Hp']. apply Permutation_sym in Hperm.
    rewrite (first_match_None _ _ E _ (Permutation_in _ Hperm Hin')) in Hp'. discriminate.
Qed.

Lemma scan_perm_l toks toks' : PrefixFree toks -> Permutation toks toks' ->
  forall s k, scan toks' s k = scan toks s k.
Proof.
  intros Hpf Hperm. induction s as [|c r IH]; intros k; cbn [scan]; [reflexivity|].
  destruct k as [|k]; [|apply IH]. rewrite (first_match_perm _ _ _ Hpf Hperm).
  destruct (first_match toks (c :: r)); rewrite IH; reflexivity.
Qed.

Lemma is_prefix_refl t : is_prefix t t = true.
Proof. induction t as [|a t IH]; cbn; [reflexivity|]. rewrite N.eqb_refl. exact IH. Qed.

Lemma prefix_freeb_spec sv : prefix_freeb sv = true <-> PrefixFree sv.
Proof.
  unfold prefix_freeb, PrefixFree. rewrite forallb_forall. split.
  - intros H t u Ht Hu Hp. specialize (H t Ht). rewrite forallb_forall in H. specialize (H u Hu).
    rewrite Hp in H. cbn in H. rewrite orb_false_r in H. apply str_eqb_eq. exact H.
  - intros H t Ht. rewrite forallb_forall. intros u Hu. destruct (is_prefix t u) eqn:E; cbn.
    + rewrite orb_false_r. apply str_eqb_eq. apply H; assumption.
    + apply orb_true_r.
Qed.

(** * every special segment of a scan is one of the tokens; regular segments are non-empty *)
Definition seg_in (toks : list str) (g : seg) : Prop :=
  match g with Spec t => In t toks | Reg r => r <> [] end.

Lemma scan_seg_in toks s k : Forall (seg_in toks) (scan toks s k).
Proof.
  revert k; induction s as [|c r IH]; intros k; cbn [scan]; [constructor|].
  destruct k as [|k]; [|apply IH]. destruct (first_match toks (c :: r)) as [t|] eqn:E.
  - constructor; [apply first_match_spec in E as [H _]; exact H|apply IH].
  - specialize (IH O). destruct (scan toks r 0) as [|[r'|t'] rest]; cbn [cons_reg].
    + constructor; [cbn; congruence|constructor].
    + inversion IH; subst. constructor; [cbn; congruence|assumption].
    + constructor; [cbn; congruence|assumption].
Qed.

(** * UTF-8 *)
Lemma utf8_decode_utf8s s : scalars s = true -> utf8_decode (utf8s s) = Some s.
Proof.
  unfold scalars. induction s as [|c s IH]; cbn [forallb utf8s flat_map]; [reflexivity|].
  intros H. apply andb_true_iff in H as [H1 H2]. rewrite utf8_decode_cons by exact H1.
  fold (utf8s s). rewrite (IH H2). reflexivity.
Qed.

Lemma utf8_lt256 c : scalar c = true -> Forall (fun b => b < 256) (utf8 c).
Proof.
  unfold scalar, utf8. intros Hs.
  destruct (c <? 128) eqn:E1; [repeat constructor; lia|].
  destruct (c <? 2048) eqn:E2; [repeat constructor; lia|].
  destruct (c <? 65536) eqn:E3; repeat constructor; lia.
Qed.

Lemma utf8s_lt256 s : scalars s = true -> Forall (fun b => b < 256) (utf8s s).
Proof.
  unfold scalars. induction s as [|c s IH]; cbn [forallb utf8s flat_map]; [constructor|].
  intros H. apply andb_true_iff in H as [H1 H2]. apply Forall_app. split; [apply utf8_lt256; exact H1|apply IH; exact H2].
Qed.

Lemma utf8s_app a b : utf8s (a ++ b) = utf8s a ++ utf8s b.
Proof. unfold utf8s. apply flat_map_app. Qed.

Lemma scalars_app a b : scalars (a ++ b) = scalars a && scalars b.
Proof. unfold scalars. apply forallb_app. Qed.

Lemma scalars_concat l : Forall (fun t => scalars t = true) l -> scalars (concat l) = true.
Proof. induction 1 as [|t l Ht Hl IH]; cbn [concat]; [reflexivity|]. rewrite scalars_app, Ht, IH. reflexivity. Qed.

(** * base construction *)
Definition ids_of (b : base) (toks : list str) (ids : list N) : Prop :=
  Forall2 (fun t i => sp_id (b_off b) (b_sv b) t = Some i) toks ids.

Lemma mk_base_spec off tokens pad prefix suffix b :
  mk_base off tokens pad prefix suffix = Some b ->
  b_off b = off /\ b_sv b = uniq tokens /\ ids_of b prefix (b_pre b) /\ ids_of b suffix (b_suf b)
  /\ sp_id off (uniq tokens) pad = Some (b_pad b).
Proof.
  unfold mk_base, ids_of.
  destruct (map_opt (sp_id off (uniq tokens)) prefix) as [p|] eqn:Ep; [|discriminate].
  destruct (map_opt (sp_id off (uniq tokens)) suffix) as [q|] eqn:Eq; [|discriminate].
  destruct (sp_id off (uniq tokens) pad) as [pd|] eqn:Ed; [|discriminate].
  intros H. injection H as <-. cbn. repeat split; try reflexivity; apply map_opt_Forall2; assumption.
Qed.

Lemma ids_of_length b toks ids : ids_of b toks ids -> length ids = length toks.
Proof. induction 1; cbn; congruence. Qed.

Lemma middle_app b body : middle b (b_pre b ++ body ++ b_suf b) = body.
Proof.
  unfold middle. rewrite !app_length.
  replace (length (b_pre b) + (length body + length (b_suf b)) - length (b_pre b) - length (b_suf b))%nat
    with (length body) by lia.
  rewrite skipn_app, skipn_all, Nat.sub_diag. cbn [skipn app].
  rewrite firstn_app, firstn_all, Nat.sub_diag. cbn [firstn]. apply app_nil_r.
Qed.

(** * byte tokenizer *)
Definition seg_ids_rel (b : base) (g : seg) (l : list N) : Prop :=
  match g with
  | Reg r => l = utf8s r
  | Spec t => exists i, sp_id (b_off b) (b_sv b) t = Some i /\ l = [i]
  end.

Lemma byte_segs_some b segs : Forall (seg_in (b_sv b)) segs ->
  exists ls, map_opt (byte_seg_ids b) segs = Some ls /\ Forall2 (seg_ids_rel b) segs ls.
Proof.
  induction 1 as [|g segs Hg Hs IH]; cbn [map_opt]; [exists []; split; [reflexivity|constructor]|].
  destruct IH as (ls & -> & Hls). destruct g as [r|t]; cbn [byte_seg_ids].
  - eexists; split; [reflexivity|]. constructor; [reflexivity|exact Hls].
  - cbn in Hg. destruct (sp_id_In (b_off b) _ _ Hg) as [i Hi]. rewrite Hi. cbn.
    eexists; split; [reflexivity|]. constructor; [exists i; auto|exact Hls].
Qed.

Lemma byte_body_ign b s : byte_body b s true = Some (utf8s s).
Proof. unfold byte_body, split_input. cbn. rewrite app_nil_r. reflexivity. Qed.

Lemma byte_body_parse b s : exists ls, byte_body b s false = Some (concat ls)
  /\ Forall2 (seg_ids_rel b) (scan (b_sv b) s 0) ls.
Proof.
  unfold byte_body, split_input. destruct (byte_segs_some b _ (scan_seg_in (b_sv b) s 0)) as (ls & -> & H).
  exists ls. split; [reflexivity|exact H].
Qed.

Lemma byte_tokenize_shape_l tokens padto pad prefix suffix b s ign :
  byte_base tokens padto pad prefix suffix = Some b ->
  ids_of b prefix (b_pre b) /\ ids_of b suffix (b_suf b) /\ b_off b = 256 /\
  exists body, byte_tokenize b s ign = Some (b_pre b ++ body ++ b_suf b)
    /\ (ign = true -> body = utf8s s)
    /\ (ign = false -> exists ls, Forall2 (seg_ids_rel b) (scan (b_sv b) s 0) ls /\ body = concat ls).
Proof.
  unfold byte_base. intros Hb. apply mk_base_spec in Hb as (Hoff & Hsv & Hp & Hq & _).
  repeat split; try assumption. unfold byte_tokenize, add_pre_suf. destruct ign.
  - rewrite byte_body_ign. eexists; split; [reflexivity|]. split; [reflexivity|discriminate].
  - destruct (byte_body_parse b s) as (ls & -> & Hls). eexists; split; [reflexivity|].
    split; [discriminate|]. intros _. exists ls. auto.
Qed.

(** decoding *)
Lemma bdb_app b x y ign : byte_decode_bytes b (x ++ y) ign =
  obind (byte_decode_bytes b x ign) (fun bx => option_map (app bx) (byte_decode_bytes b y ign)).
Proof.
  induction x as [|i x IH]; cbn [app byte_decode_bytes obind].
  - destruct (byte_decode_bytes b y ign); reflexivity.
  - destruct (i <? 256).
    + rewrite IH. destruct (byte_decode_bytes b x ign); cbn; [|reflexivity].
      destruct (byte_decode_bytes b y ign); reflexivity.
    + destruct ign; [exact IH|]. destruct (sp_tok (b_off b) (b_sv b) i); [|reflexivity].
      rewrite IH. destruct (byte_decode_bytes b x false); cbn; [|reflexivity].
      destruct (byte_decode_bytes b y false); cbn; [rewrite app_assoc|]; reflexivity.
Qed.

Lemma bdb_bytes b l ign : Forall (fun x => x < 256) l -> byte_decode_bytes b l ign = Some l.
Proof.
  induction 1 as [|x l Hx Hl IH]; cbn [byte_decode_bytes]; [reflexivity|].
  replace (x <? 256) with true by lia. rewrite IH. reflexivity.
Qed.

Lemma bdb_specials b toks ids : 256 <= b_off b -> ids_of b toks ids ->
  byte_decode_bytes b ids false = Some (utf8s (concat toks)).
Proof.
  intros Hoff. induction 1 as [|t i toks ids Hi Hr IH]; cbn [byte_decode_bytes concat]; [reflexivity|].
  apply sp_id_tok in Hi as (Ht & Hge & _). replace (i <? 256) with false by lia.
  rewrite Ht, IH. cbn. rewrite utf8s_app. reflexivity.
Qed.

Lemma bdb_segs b segs ls : 256 <= b_off b ->
  Forall (fun g => scalars (seg_str g) = true) segs ->
  Forall2 (seg_ids_rel b) segs ls ->
  byte_decode_bytes b (concat ls) false = Some (utf8s (concat (map seg_str segs))).
Proof.
  intros Hoff Hsc H. induction H as [|g l segs ls Hg Hr IH]; cbn [concat map]; [reflexivity|].
  inversion Hsc as [|? ? Hg1 Hs1]; subst. rewrite bdb_app, (IH Hs1), utf8s_app. destruct g as [r|t]; cbn in Hg.
  - subst l. rewrite bdb_bytes by (apply utf8s_lt256; exact Hg1). reflexivity.
  - destruct Hg as (i & Hi & ->). apply sp_id_tok in Hi as (Ht & Hge & _). cbn [byte_decode_bytes].
    replace (i <? 256) with false by lia. rewrite Ht. cbn. rewrite app_nil_r. reflexivity.
Qed.

Lemma ids_of_In b toks ids : ids_of b toks ids -> Forall (fun t => In t (b_sv b)) toks.
Proof. induction 1 as [|t i toks ids Hi Hr IH]; constructor; [eapply sp_id_Some_In; eauto|exact IH]. Qed.

Lemma Forall_In_sub {A} (P : A -> Prop) l m : Forall P l -> Forall (fun t => In t l) m -> Forall P m.
Proof. intros Hl Hm. rewrite Forall_forall in *. auto. Qed.

Lemma scan_scalars toks s : Forall (fun t => t <> []) toks -> scalars s = true ->
  Forall (fun g => scalars (seg_str g) = true) (scan toks s 0).
Proof.
  intros Hne Hs. pose proof (scan_skipn _ Hne s 0) as Hcat. cbn [skipn] in Hcat.
  assert (Hall : scalars (concat (map seg_str (scan toks s 0))) = true) by (rewrite Hcat; exact Hs).
  revert Hall. generalize (scan toks s 0). induction l as [|g l IH]; [constructor|].
  cbn [map concat]. rewrite scalars_app. intros H. apply andb_true_iff in H as [H1 H2]. constructor; auto.
Qed.

Lemma byte_body_decodes b s ign body : 256 <= b_off b ->
  Forall (fun t => t <> []) (b_sv b) -> scalars s = true ->
  byte_body b s ign = Some body -> byte_decode_bytes b body false = Some (utf8s s).
Proof.
  intros Hoff Hne Hs. destruct ign.
  - rewrite byte_body_ign. intros H. injection H as <-. apply bdb_bytes. apply utf8s_lt256. exact Hs.
  - destruct (byte_body_parse b s) as (ls & -> & Hls). intros H. injection H as <-.
    rewrite (bdb_segs b (scan (b_sv b) s 0) ls Hoff); [| |exact Hls].
    + rewrite scan_skipn by exact Hne. reflexivity.
    + apply scan_scalars; assumption.
Qed.

Lemma byte_body_some b s ign : exists body, byte_body b s ign = Some body.
Proof.
  destruct ign; [rewrite byte_body_ign; eexists; reflexivity|].
  destruct (byte_body_parse b s) as (ls & -> & _). eexists; reflexivity.
Qed.

Lemma byte_roundtrip_l tokens padto pad prefix suffix b s ign :
  byte_base tokens padto pad prefix suffix = Some b ->
  Forall (fun t => t <> []) (b_sv b) -> Forall (fun t => scalars t = true) (b_sv b) -> scalars s = true ->
  exists ids, byte_tokenize b s ign = Some ids
    /\ byte_decode b ids false = Some (concat prefix ++ s ++ concat suffix)
    /\ byte_decode b (middle b ids) false = Some s.
Proof.
  intros Hb Hne Hsc Hs.
  destruct (byte_tokenize_shape_l _ _ _ _ _ _ s ign Hb) as (Hp & Hq & Hoff & _).
  assert (Hoff' : 256 <= b_off b) by lia.
  destruct (byte_body_some b s ign) as [body Hbd].
  pose proof (byte_body_decodes b s ign body Hoff' Hne Hs Hbd) as Hbody.
  unfold byte_tokenize, add_pre_suf. rewrite Hbd. cbn [option_map].
  exists (b_pre b ++ body ++ b_suf b). split; [reflexivity|]. unfold byte_decode. split.
  - rewrite !bdb_app, (bdb_specials b _ _ Hoff' Hp), (bdb_specials b _ _ Hoff' Hq), Hbody. cbn [obind option_map].
    rewrite <- !utf8s_app. apply utf8_decode_utf8s. rewrite !scalars_app, Hs.
    rewrite !scalars_concat; [reflexivity| |].
    + eapply Forall_In_sub; [exact Hsc|eapply ids_of_In; eauto].
    + eapply Forall_In_sub; [exact Hsc|eapply ids_of_In; eauto].
  - rewrite middle_app, Hbody. cbn [obind]. apply utf8_decode_utf8s. exact Hs.
Qed.

(** * character tokenizer *)
Fixpoint n_chars (g : bool) (segs : list seg) (os : list (list cluster)) : nat :=
  match segs with
  | [] => 0
  | Reg r :: rest => length (clusters_of g r (hd [] os)) + n_chars g rest (tl os)
  | Spec _ :: rest => 1 + n_chars g rest os
  end.

Lemma char_segs_len b A u g segs : forall os, length (char_segs_ids b A u g segs os) = n_chars g segs os.
Proof.
  induction segs as [|[r|t] rest IH]; intros os; cbn [char_segs_ids n_chars]; [reflexivity| |].
  - rewrite app_length, map_length, IH. reflexivity.
  - cbn [length]. rewrite IH. reflexivity.
Qed.

Lemma char_base_spec A tokens unk pad prefix suffix b :
  char_base A tokens unk pad prefix suffix = Some b ->
  b_off b = N.of_nat (length A) /\ ids_of b prefix (b_pre b) /\ ids_of b suffix (b_suf b) /\
  exists u, sp_id (b_off b) (b_sv b) unk = Some u /\ N.of_nat (length A) <= u.
Proof.
  unfold char_base. intros Hb. apply mk_base_spec in Hb as (Hoff & Hsv & Hp & Hq & _).
  repeat split; try assumption.
  destruct (sp_id_In (b_off b) (b_sv b) unk) as [u Hu].
  { rewrite Hsv. apply uniq_In. apply in_or_app. right. left. reflexivity. }
  exists u. split; [exact Hu|]. apply sp_id_tok in Hu. lia.
Qed.

Lemma char_id_out A u c : (forall x, c = [x] -> ~ In x A) -> char_id A u c = u.
Proof.
  intros H. destruct c as [|x [|y c]]; cbn [char_id]; try reflexivity.
  destruct (index_ofN x A) as [i|] eqn:E; [|reflexivity].
  exfalso. apply (H x eq_refl). apply index_ofN_nth in E. eapply nth_error_In; eauto.
Qed.

Lemma nth_index_ofN l : NoDup l -> forall k c, nth_error l k = Some c -> index_ofN c l = Some k.
Proof.
  induction 1 as [|x l Hx Hl IH]; intros k c; [destruct k; discriminate|].
  destruct k as [|k]; cbn [nth_error index_ofN].
  - intros H. injection H as ->. rewrite N.eqb_refl. reflexivity.
  - intros H. destruct (N.eqb c x) eqn:E.
    + apply N.eqb_eq in E. subst. exfalso. apply Hx. eapply nth_error_In. exact H.
    + rewrite (IH _ _ H). reflexivity.
Qed.

Lemma char_id_in A u x i : NoDup A -> nth_error A i = Some x -> char_id A u [x] = N.of_nat i.
Proof. intros Hnd H. cbn [char_id]. rewrite (nth_index_ofN _ Hnd _ _ H). reflexivity. Qed.

Lemma char_body_ign b A unk g s os u : sp_id (b_off b) (b_sv b) unk = Some u ->
  char_body b A unk g s true os = Some (map (char_id A u) (clusters_of g s (hd [] os))).
Proof. unfold char_body, split_input. intros ->. cbn [char_segs_ids]. rewrite app_nil_r. reflexivity. Qed.

Lemma char_len_l A tokens unk pad prefix suffix b g s ign os :
  char_base A tokens unk pad prefix suffix = Some b ->
  exists ids, char_tokenize b A unk g s ign os = Some ids /\
    length ids = (length prefix + n_chars g (split_input (b_sv b) s ign) os + length suffix)%nat.
Proof.
  intros Hb. apply char_base_spec in Hb as (Hoff & Hp & Hq & u & Hu & _).
  unfold char_tokenize, char_body. rewrite Hu. cbn [option_map]. eexists; split; [reflexivity|].
  unfold add_pre_suf. rewrite !app_length, char_segs_len, (ids_of_length _ _ _ Hp), (ids_of_length _ _ _ Hq). lia.
Qed.

(** decoding *)
Lemma cd_app b A x y ign : char_decode b A (x ++ y) ign =
  obind (char_decode b A x ign) (fun sx => option_map (app sx) (char_decode b A y ign)).
Proof.
  induction x as [|i x IH]; cbn [app char_decode obind].
  - destruct (char_decode b A y ign); reflexivity.
  - destruct (nth_error A (N.to_nat i)).
    + rewrite IH. destruct (char_decode b A x ign); cbn; [|reflexivity].
      destruct (char_decode b A y ign); reflexivity.
    + destruct ign; [exact IH|]. destruct (sp_tok (b_off b) (b_sv b) i); [|reflexivity].
      rewrite IH. destruct (char_decode b A x false); cbn; [|reflexivity].
      destruct (char_decode b A y false); cbn; [rewrite app_assoc|]; reflexivity.
Qed.

Lemma cd_special b (A : list cp) t i : N.of_nat (length A) <= b_off b -> sp_id (b_off b) (b_sv b) t = Some i ->
  nth_error A (N.to_nat i) = None /\ sp_tok (b_off b) (b_sv b) i = Some t.
Proof.
  intros Hoff Hi. apply sp_id_tok in Hi as (Ht & Hge & _). split; [|exact Ht].
  apply nth_error_None. lia.
Qed.

Lemma cd_specials b A toks ids : N.of_nat (length A) <= b_off b -> ids_of b toks ids ->
  char_decode b A ids false = Some (concat toks).
Proof.
  intros Hoff. induction 1 as [|t i toks ids Hi Hr IH]; cbn [char_decode concat]; [reflexivity|].
  destruct (cd_special b A t i Hoff Hi) as [-> ->]. rewrite IH. reflexivity.
Qed.

Definition in_alpha (A : list cp) (c : cluster) : bool :=
  match c with [x] => match index_ofN x A with Some _ => true | None => false end | _ => false end.

Lemma cd_clusters b A u cls ign : forallb (in_alpha A) cls = true ->
  char_decode b A (map (char_id A u) cls) ign = Some (concat cls).
Proof.
  induction cls as [|c cls IH]; cbn [forallb map char_decode concat]; [reflexivity|].
  intros H. apply andb_true_iff in H as [H1 H2]. destruct c as [|x [|y c]]; cbn in H1; try discriminate.
  cbn [char_id]. destruct (index_ofN x A) as [k|] eqn:E; [|discriminate].
  rewrite Nat2N.id. pose proof (index_ofN_nth _ _ _ E) as Hn. unfold cp in *. rewrite Hn, (IH H2). reflexivity.
Qed.

Fixpoint clusters_ok (g : bool) (segs : list seg) (os : list (list cluster)) : Prop :=
  match segs with
  | [] => True
  | Reg r :: rest => concat (clusters_of g r (hd [] os)) = r /\ clusters_ok g rest (tl os)
  | Spec _ :: rest => clusters_ok g rest os
  end.

Lemma concat_singletons (s : str) : concat (singletons s) = s.
Proof. unfold singletons. induction s as [|c s IH]; cbn; [reflexivity|]. rewrite IH. reflexivity. Qed.

Lemma clusters_ok_cp segs : forall os, clusters_ok false segs os.
Proof.
  induction segs as [|[r|t] rest IH]; intros os; cbn [clusters_ok]; auto.
  split; [apply concat_singletons|apply IH].
Qed.

Lemma clusters_ok_oracle segs : forall os, oracle_okb segs os = true -> clusters_ok true segs os.
Proof.
  induction segs as [|[r|t] rest IH]; intros os; cbn [clusters_ok oracle_okb]; auto.
  destruct os as [|o os]; [discriminate|]. intros H.
  apply andb_true_iff in H as [H H3]. apply andb_true_iff in H as [H1 _].
  cbn [hd tl clusters_of]. split; [apply nlist_eqb_eq; exact H1|apply IH; exact H3].
Qed.

Lemma cd_segs b A u g segs : N.of_nat (length A) <= b_off b ->
  Forall (seg_in (b_sv b)) segs -> forall os,
  clusters_ok g segs os -> over_alphabet A g segs os = true ->
  char_decode b A (char_segs_ids b A u g segs os) false = Some (concat (map seg_str segs)).
Proof.
  intros Hoff. induction 1 as [|sg segs Hg Hs IH]; intros os Hok Hov; [reflexivity|].
  destruct sg as [r|t]; cbn [char_segs_ids clusters_ok over_alphabet map concat seg_str] in *.
  - destruct Hok as [Hc Hok]. apply andb_true_iff in Hov as [Ha Hov].
    rewrite cd_app, (cd_clusters b A u _ false Ha), (IH _ Hok Hov), Hc. reflexivity.
  - destruct (sp_id_In (b_off b) _ _ Hg) as [i Hi]. rewrite Hi. cbn [char_decode].
    destruct (cd_special b A t i Hoff Hi) as [-> ->]. rewrite (IH _ Hok Hov). reflexivity.
Qed.

Lemma split_input_cat sv s ign : (ign = false -> Forall (fun t => t <> []) sv) ->
  concat (map seg_str (split_input sv s ign)) = s.
Proof.
  intros H. unfold split_input. destruct ign; [cbn; apply app_nil_r|].
  rewrite scan_skipn by auto. reflexivity.
Qed.

Lemma split_input_seg_in sv s ign : s <> [] \/ ign = false -> Forall (seg_in sv) (split_input sv s ign).
Proof.
  unfold split_input. destruct ign; [|intros _; apply scan_seg_in].
  intros [H|H]; [|discriminate]. constructor; [exact H|constructor].
Qed.

Lemma char_roundtrip_l A tokens unk pad prefix suffix b g s ign os :
  char_base A tokens unk pad prefix suffix = Some b ->
  (ign = false -> Forall (fun t => t <> []) (b_sv b)) ->
  clusters_ok g (split_input (b_sv b) s ign) os ->
  over_alphabet A g (split_input (b_sv b) s ign) os = true ->
  exists ids, char_tokenize b A unk g s ign os = Some ids
    /\ char_decode b A ids false = Some (concat prefix ++ s ++ concat suffix)
    /\ char_decode b A (middle b ids) false = Some s.
Proof.
  intros Hb Hne Hok Hov. apply char_base_spec in Hb as (Hoff & Hp & Hq & u & Hu & _).
  assert (Hoff' : N.of_nat (length A) <= b_off b) by lia.
  unfold char_tokenize, char_body. rewrite Hu. cbn [option_map]. eexists; split; [reflexivity|].
  assert (Hbody : char_decode b A (char_segs_ids b A u g (split_input (b_sv b) s ign) os) false = Some s).
  { destruct s as [|c s'].
    - (* the empty text: no character at all *)
      unfold split_input in *. destruct ign; cbn [scan] in *; [|reflexivity].
      cbn [char_segs_ids clusters_ok] in *. destruct Hok as [Hc _]. rewrite app_nil_r.
      destruct (clusters_of g [] (hd [] os)) as [|c cls] eqn:E; [reflexivity|].
      cbn [over_alphabet] in Hov. rewrite E in Hov. apply andb_true_iff in Hov as [Ha _].
      rewrite (cd_clusters b A u _ false Ha). rewrite Hc. reflexivity.
    - rewrite (cd_segs b A u g _ Hoff'); [|apply split_input_seg_in; left; discriminate|exact Hok|exact Hov].
      rewrite split_input_cat by exact Hne. reflexivity. }
  unfold add_pre_suf. split.
  - rewrite !cd_app, (cd_specials b A _ _ Hoff' Hp), (cd_specials b A _ _ Hoff' Hq), Hbody. reflexivity.
  - rewrite middle_app. exact Hbody.
Qed.

(** * the scan is the leftmost-first split: a special segment is the first alternative matching
    where it starts, and no alternative matches at any position inside a regular segment *)
Fixpoint leftmost (toks : list str) (segs : list seg) : Prop :=
  match segs with
  | [] => True
  | Reg r :: tl =>
    (forall i, (i < length r)%nat -> first_match toks (skipn i r ++ concat (map seg_str tl)) = None)
    /\ leftmost toks tl
  | Spec t :: tl => first_match toks (t ++ concat (map seg_str tl)) = Some t /\ leftmost toks tl
  end.

Lemma scan_leftmost_l toks : Forall (fun t => t <> []) toks -> forall s k, leftmost toks (scan toks s k).
Proof.
  intros Hne. induction s as [|c r IH]; intros k; cbn [scan]; [exact Logic.I|].
  destruct k as [|k]; [|apply IH].
  destruct (first_match toks (c :: r)) as [t|] eqn:E.
  - cbn [leftmost]. split; [|apply IH]. rewrite scan_skipn by exact Hne.
    pose proof E as E'. apply first_match_spec in E' as [Hin Hp].
    pose proof (is_prefix_app _ _ Hp) as Hs. rewrite Forall_forall in Hne. specialize (Hne _ Hin).
    destruct t as [|a t]; [congruence|]. cbn [length skipn app] in Hs |- *.
    replace (S (length t) - 1)%nat with (length t) by lia.
    rewrite <- Hs. exact E.
  - pose proof (scan_skipn _ Hne r 0) as Hcat. cbn [skipn] in Hcat. specialize (IH O).
    destruct (scan toks r 0) as [|[r'|t'] rest]; cbn [cons_reg leftmost].
    + cbn in Hcat. subst r. split; [|exact Logic.I]. intros i Hi. cbn in Hi.
      assert (i = O) by lia. subst i. exact E.
    + cbn [leftmost] in IH. destruct IH as [IH1 IH2]. split; [|exact IH2].
      cbn [map concat seg_str] in Hcat. intros [|i] Hi.
      * cbn [skipn app]. rewrite Hcat. exact E.
      * cbn [skipn]. apply IH1. cbn in Hi. lia.
    + split; [|exact IH]. intros i Hi. cbn in Hi. assert (i = O) by lia. subst i.
      cbn [skipn app]. rewrite Hcat. exact E.
Qed.

(** no two regular segments are adjacent (regular segments are maximal) *)
Fixpoint no_adjacent_reg (segs : list seg) : Prop :=
  match segs with
  | Reg _ :: ((Reg _ :: _) as tl) => False
  | _ :: tl => no_adjacent_reg tl
  | [] => True
  end.

Lemma scan_no_adjacent toks s k : no_adjacent_reg (scan toks s k).
Proof.
  revert k; induction s as [|c r IH]; intros k; cbn [scan]; [exact Logic.I|].
  destruct k as [|k]; [|apply IH]. destruct (first_match toks (c :: r)).
  - cbn [no_adjacent_reg]. apply IH.
  - specialize (IH O). destruct (scan toks r 0) as [|[r'|t'] rest]; cbn [cons_reg]; [exact Logic.I| |].
    + destruct rest as [|[r2|t2] rest']; cbn [no_adjacent_reg] in *; auto.
    + cbn [no_adjacent_reg] in *. exact IH.
Qed.

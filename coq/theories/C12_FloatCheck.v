(** C12 proofs, part 7: the executable statement evaluated on float fields ([check_C12F]) holds of the
    float model's own output ([run_C12F]) — the val-level link between the extracted checker and the
    binary64 theorems. *)
From Coq Require Import ZArith List Bool QArith Qreals Reals Lia Lra.
From Flocq Require Import Core IEEE754.BinarySingleNaN.
From TU Require Import Base C12_Model C12_Spec C12_Matrix C12_Trace C12_Norm C12_Proofs C12_Float C12_FloatBase C12_FloatProofs.
Import ListNotations.
Close Scope Q_scope.
Open Scope R_scope.

(** * from float fields to the pair of integers read by [v_zq] *)
Definition zq_of (x : f64) : Z * Z := v_zq (num_of_fl_v (fl_v x)).

Lemma zq_of_spec : forall x : f64, is_finite x = true ->
  (0 < snd (zq_of x))%Z /\ IZR (fst (zq_of x)) = B2R x * IZR (snd (zq_of x)).
Proof.
  intros [s|s| |s m e Hb] F; try discriminate.
  - unfold zq_of. destruct s; cbn; split; try lia; lra.
  - unfold zq_of, fl_v, num_of_fl_v, sgn_v.
    assert (Es : (if Z.eqb (if s then 1 else 0) 0 then Z.pos m else - Z.pos m)%Z = cond_Zopp s (Z.pos m))
      by (destruct s; reflexivity).
    rewrite Es. unfold B2R, F2R. cbn [Fnum Fexp].
    destruct (Z.leb_spec 0 e) as [He|He]; unfold v_zq; cbn [v_nth nth v_z fst snd].
    + split; [lia|]. rewrite mult_IZR, (IZR_2p e He). lra.
    + split; [apply Z.pow_pos_nonneg; lia|]. rewrite (IZR_2p (- e)) by lia.
      rewrite Rmult_assoc, <- bpow_plus. replace (e + - e)%Z with 0%Z by lia. cbn [bpow]. lra.
Qed.

(** * closeness over the reals gives [q_close] *)
Lemma q_close_exact_R : forall n d p, (0 < d)%Z -> IZR n = IZR p * IZR d -> q_close true (n, d) p 1 = true.
Proof.
  intros n d p Hd H. unfold q_close. apply andb_true_iff. split; [apply Z.ltb_lt; exact Hd|].
  apply Z.eqb_eq. apply eq_IZR. rewrite !mult_IZR, H. cbn. lra.
Qed.

Lemma q_close_approx_R : forall n d p q, (0 < d)%Z -> (0 <= p)%Z ->
  Rabs (IZR n / IZR d - IZR p / IZR (Zpos q)) <= bpow radix2 (-40) * (IZR p / IZR (Zpos q)) ->
  q_close false (n, d) p q = true.
Proof.
  intros n d p q Hd Hp H. unfold q_close. apply andb_true_iff. split; [apply Z.ltb_lt; exact Hd|].
  apply Z.leb_le. apply le_IZR. rewrite mult_IZR, !abs_IZR, minus_IZR, !mult_IZR, (IZR_2p 40) by lia.
  assert (D : 0 < IZR d) by (apply (IZR_lt 0); exact Hd).
  assert (Q : 0 < IZR (Zpos q)) by (apply (IZR_lt 0); lia).
  assert (P : 0 <= IZR p) by (apply (IZR_le 0); exact Hp).
  set (D' := IZR d) in *. set (Q' := IZR (Zpos q)) in *. set (N := IZR n) in *. set (P' := IZR p) in *.
  assert (E : N * Q' - P' * D' = (N / D' - P' / Q') * (D' * Q')) by (field; lra).
  rewrite E, Rabs_mult, (Rabs_pos_eq (D' * Q')) by nra.
  rewrite (Rabs_pos_eq (P' * D')) by nra.
  assert (B : bpow radix2 40 * bpow radix2 (-40) = 1) by (rewrite <- bpow_plus; reflexivity).
  assert (DQ : 0 < D' * Q') by nra.
  assert (S : Rabs (N / D' - P' / Q') * (D' * Q') <= bpow radix2 (-40) * (P' / Q') * (D' * Q'))
    by (apply Rmult_le_compat_r; lra).
  replace (bpow radix2 (-40) * (P' / Q') * (D' * Q')) with (bpow radix2 (-40) * (P' * D')) in S by (field; lra).
  pose proof (bpow_gt_0 radix2 40) as B40.
  assert (S2 : Rabs (N / D' - P' / Q') * (D' * Q') * bpow radix2 40 <= bpow radix2 (-40) * (P' * D') * bpow radix2 40)
    by (apply Rmult_le_compat_r; lra).
  replace (bpow radix2 (-40) * (P' * D') * bpow radix2 40) with (P' * D' * (bpow radix2 40 * bpow radix2 (-40))) in S2 by ring.
  rewrite B, Rmult_1_r in S2. exact S2.
Qed.

Lemma u53_le_40 : u53 <= bpow radix2 (-40). Proof. unfold u53. apply bpow_le. lia. Qed.

(** the float of a well-sized fraction passes the closeness clause against that fraction *)
Lemma q_close_q_fl : forall (ex : bool) (p : Z) (q : positive),
  (0 <= p <= P53)%Z -> (Zpos q <= P53)%Z -> (ex = true -> q = 1%positive) ->
  q_close ex (zq_of (quot_fl p (Zpos q))) p q = true.
Proof.
  intros ex p q Hp Hq Hex.
  destruct (quot_spec p (Zpos q) Hp ltac:(lia)) as (F & E & _).
  destruct (zq_of_spec _ F) as [Dpos Val]. destruct (zq_of (quot_fl p (Zpos q))) as [n d]. cbn [fst snd] in *.
  assert (D : 0 < IZR d) by (apply (IZR_lt 0); exact Dpos).
  destruct ex.
  - rewrite (Hex eq_refl) in *. apply q_close_exact_R; [exact Dpos|]. rewrite Val, E. f_equal.
    unfold Rdiv. rewrite Rinv_1, Rmult_1_r. apply (rnd_fmt prec64 emax64).
    apply (fmt_IZR prec64 emax64 Hprec64 Hmax64). unfold P53, prec64 in *. lia.
  - apply q_close_approx_R; [exact Dpos|lia|].
    replace (IZR n / IZR d) with (B2R (quot_fl p (Zpos q))) by (rewrite Val; field; lra).
    eapply Rle_trans; [apply quot_close; lia|].
    apply Rmult_le_compat_r; [|apply u53_le_40].
    assert (1 <= IZR (Zpos q)) by (apply (IZR_le 1); lia). assert (0 <= IZR p) by (apply (IZR_le 0); lia).
    apply Rmult_le_pos; [lra|apply Rlt_le, Rinv_0_lt_compat; lra].
Qed.

(** the range clause: a float in [0,1] has 0 <= num <= den *)
Lemma zq_range : forall x : f64, is_finite x = true -> 0 <= B2R x <= 1 ->
  (0 <= fst (zq_of x))%Z /\ (fst (zq_of x) <= snd (zq_of x))%Z.
Proof.
  intros x F [B0 B1]. destruct (zq_of_spec x F) as [Dpos Val].
  assert (D : 0 < IZR (snd (zq_of x))) by (apply (IZR_lt 0); exact Dpos).
  split; apply le_IZR; rewrite Val; nra.
Qed.

(** * the premise: both texts have at most 2^52 characters *)
Definition short52 (v : val) : Prop :=
  (Z.of_nat (length (in_a v)) <= 2 ^ 52)%Z /\ (Z.of_nat (length (in_b v)) <= 2 ^ 52)%Z.

Lemma firstn1_len {A} (l : list A) : (length (firstn 1 l) <= length l)%nat.
Proof. rewrite firstn_length. lia. Qed.

Lemma batch_list_len : forall x y n z, In z (batch_list x y n) ->
  (length z <= Nat.max (length x) (length y))%nat.
Proof.
  intros x y n z H. unfold batch_list in H. destruct (n <=? 3)%nat.
  - apply (In_firstn_aux z) in H || idtac.
    assert (In z [x; y; x]).
    { clear -H. revert H. generalize [x; y; x]. induction n as [|n IH]; intros l H; [destruct H|].
      destruct l as [|a l]; [destruct H|]. cbn [firstn] in H. destruct H as [->|H]; [left; reflexivity|right; apply IH; exact H]. }
    cbn in H0. destruct H0 as [<-|[<-|[<-|[]]]]; lia.
  - apply in_map_iff in H as (k & <- & _). destruct (Nat.even k); [lia|].
    pose proof (firstn1_len x). lia.
Qed.

Lemma zip_In {A B} : forall (l : list A) (r : list B) p, In p (zip l r) -> In (fst p) l /\ In (snd p) r.
Proof.
  induction l as [|x l IH]; intros [|y r] p H; cbn [zip] in H; try destruct H as [<-|H].
  - destruct H. - destruct H. - destruct H.
  - cbn. auto.
  - destruct (IH r p H). cbn. auto.
Qed.

(** * [check_C12F] holds of [run_C12F] *)
Lemma num_fl_zq : forall x : f64, v_zq (num_of_fl_v (fl_v x)) = zq_of x. Proof. reflexivity. Qed.

Lemma shape_num : forall x : f64, exists n d, num_of_fl_v (fl_v x) = L [I n; I d].
Proof.
  intros [s|s| |s m e H]; unfold fl_v, num_of_fl_v, sgn_v.
  - destruct s; eexists; eexists; reflexivity.
  - destruct s; eexists; eexists; reflexivity.
  - eexists; eexists; reflexivity.
  - destruct (0 <=? e)%Z; destruct s; eexists; eexists; reflexivity.
Qed.

Local Opaque q_close zq_of.
Lemma check_run_fl_l : forall v, no_kf2 v -> short52 v -> check_C12F v (run_C12F v) = true.
Proof.
  intros v HP [La Lb]. unfold no_kf2 in HP. unfold check_C12F, run_C12F, conv_out, check_C12.
  set (fl := in_flags v) in *. set (nm := in_norm v) in *.
  set (a := in_a v) in *. set (b := in_b v) in *.
  assert (LO : len_ok a b) by (unfold len_ok, P53; lia).
  destruct (operations_spec fl a b) as (ops & Hops & Hsort & Hscr & Hlen). rewrite Hops.
  cbn [v_nth nth].
  assert (Hl : (match list_v edit_v ops with L l => l | I _ => [] end) = map edit_v ops) by reflexivity.
  assert (Hv : v_list v_edit (list_v edit_v ops) = ops).
  { unfold v_list, list_v. rewrite map_map. rewrite <- (map_id ops) at 2.
    apply map_ext. apply v_edit_edit_v. }
  rewrite Hl, Hv, !num_fl_zq.
  pose proof (norm_den_bounds nm a b LO) as MB. pose proof (dist_bounds fl a b LO) as DB.
  pose proof (pnorm_den_bounds nm a b LO) as PMB. pose proof (pdist_bounds fl a b LO) as PDB.
  assert (EX : forall x y, negb nm = true -> norm_den nm x y = 1%positive)
    by (intros x y H; destruct nm; [discriminate|reflexivity]).
  assert (PEX : negb nm = true -> pnorm_den nm a = 1%positive)
    by (intros H; destruct nm; [discriminate|reflexivity]).
  repeat (apply andb_true_iff; split).
  - (* shape *)
    unfold shape_ok.
    destruct (shape_num (distance_fl fl nm a b)) as (n1 & d1 & ->).
    destruct (shape_num (prefix_distance_fl fl nm a b)) as (n2 & d2 & ->).
    unfold list_v, distances_fl, distances.
    destruct (Nat.eqb (length (in_la v)) (length (in_lb v))); reflexivity.
  - (* distance value *)
    unfold distance_fl. rewrite q_fl_quot. unfold distance. cbn [Qnum Qden].
    apply q_close_q_fl; [exact DB|lia|apply EX].
  - (* range *)
    destruct nm eqn:Enm; [|reflexivity].
    assert (R : 0 <= B2R (distance_fl fl true a b) <= 1 /\ is_finite (distance_fl fl true a b) = true).
    { unfold distance_fl. rewrite q_fl_quot. unfold distance. cbn [Qnum Qden].
      pose proof (norm_den_bounds true a b LO) as MBt.
      destruct (quot_spec _ _ DB MBt) as (F & _ & _). split; [split|exact F].
      - apply quot_nonneg; [exact DB|exact MBt].
      - apply (quot_le_k 1); [apply fmt_one|exact DB|exact MBt|]. rewrite norm_den_Z.
        destruct (sid fl) eqn:Es.
        + specialize (HP eq_refl eq_refl). lia.
        + pose proof (dist_le_max fl a b Es). lia. }
    destruct R as [R F]. destruct (zq_range _ F R) as [Z0 Z1].
    apply andb_true_iff. split; apply Z.leb_le; assumption.
  - (* prefix distance value *)
    rewrite <- prefix_dist_spec_l. unfold prefix_distance_fl. rewrite q_fl_quot. unfold prefix_distance. cbn [Qnum Qden].
    apply q_close_q_fl; [exact PDB|lia|exact PEX].
  - rewrite forallb_forall. intros e He. apply in_map_iff in He as (e' & <- & _). apply edit_shape_edit_v.
  - exact Hsort.
  - exact Hscr.
  - apply Nat.eqb_eq. exact Hlen.
  - (* distances *)
    unfold distances_fl, distances. destruct (Nat.eqb (length (in_la v)) (length (in_lb v))); [|reflexivity].
    cbn [option_map opt_v]. unfold list_v. cbn [v_opt]. unfold v_list. rewrite !map_map.
    assert (G : forall l : list (list cluster * list cluster),
               (forall p, In p l -> len_ok (fst p) (snd p)) ->
               all2 (fun x p => q_close (negb nm) x (Z.of_nat (dist fl (fst p) (snd p))) (norm_den nm (fst p) (snd p)))
                    (map (fun p => v_zq (num_of_fl_v (fl_v (q_fl (distance fl nm (fst p) (snd p)))))) l) l = true).
    { induction l as [|p l IH]; intros Hin; cbn [map all2]; [reflexivity|].
      apply andb_true_iff. split; [|apply IH; intros p' Hp'; apply Hin; right; exact Hp'].
      pose proof (Hin p (or_introl eq_refl)) as LOp.
      rewrite num_fl_zq, q_fl_quot. unfold distance. cbn [Qnum Qden].
      apply q_close_q_fl; [apply dist_bounds; exact LOp|apply (norm_den_bounds nm _ _ LOp)|apply EX]. }
    apply G. intros p Hp. apply zip_In in Hp as [H1 H2].
    apply batch_list_len in H1. apply batch_list_len in H2. fold a b in H1, H2.
    unfold len_ok, P53. lia.
Qed.

From Coq Require Import Lia Permutation.
From TU Require Import Base Pipe_Model Pipe_Proofs Pipe_Proofs2 C05_Model.

Section S.
Variables (A B : Type) (f : A -> B) (d : A).

Lemma xs_step s l s' : step A B f d s l = Some s' -> xs s' = xs s.
Proof.
  intros H. destruct l as [t|t|t|t|t|t| |]; cbn [step] in H;
  repeat match type of H with
         | context [match ?x with _ => _ end] => destruct x
         | context [if ?x then _ else _] => destruct x
         end; try discriminate; injection H as <-; reflexivity.
Qed.
Lemma xs_run tr : forall s s', run A B f d s tr = Some s' -> xs s' = xs s.
Proof.
  induction tr as [|l tr IH]; cbn [run]; intros s s' H; [injection H as <-; reflexivity|].
  destruct (step A B f d s l) eqn:E; [|discriminate]. rewrite (IH _ _ H). eapply xs_step; eauto.
Qed.

Lemma pipe_prefix_l (l : list A) W tr s :
  run A B f d (init A B l W) tr = Some s -> out s = map f (firstn (length (out s)) l).
Proof.
  intros H. pose proof (inv_reach A B f d _ _ _ _ H) as I. pose proof (xs_run _ _ _ H) as X. cbn in X.
  rewrite <- X. apply (inv_pref _ _ _ _ I).
Qed.

Lemma pipe_no_deadlock_l (l : list A) W tr s :
  run A B f d (init A B l W) tr = Some s -> final A B s = false ->
  exists lab s', lab <> Drop /\ step A B f d s lab = Some s'.
Proof. intros H. apply progress. eapply inv_reach; eauto. Qed.

Lemma pipe_terminal_l (l : list A) W tr s :
  0 < W -> run A B f d (init A B l W) tr = Some s -> dropped s = false ->
  (forall lab, lab <> Drop -> step A B f d s lab = None) ->
  out s = map f l /\ final A B s = true /\ Permutation (log s) (seq 0 (length l)).
Proof.
  intros HW H Hd Hno.
  pose proof (reach_run A B f d W tr _ _ (reach_init A B f l W) H) as [I L D Hl].
  pose proof (xs_run _ _ _ H) as X. cbn in X.
  assert (Hf : final A B s = true).
  { destruct (final A B s) eqn:E; [reflexivity|].
    destruct (progress A B f d s I E) as (lab & s' & Hne & Hs). rewrite (Hno lab Hne) in Hs. discriminate. }
  destruct (terminal_l A B f s I L ltac:(lia) Hd Hf) as [H1 H2]. rewrite X in H1, H2. auto.
Qed.

Lemma pipe_once_l (l : list A) W tr s :
  run A B f d (init A B l W) tr = Some s -> NoDup (log s) /\ forall i, In i (log s) -> i < next s.
Proof.
  intros H. pose proof (reach_run A B f d W tr _ _ (reach_init A B f l W) H) as [I L D Hl].
  unfold LogInv in L. split.
  - assert (ND : NoDup (log s ++ gots (thr s))).
    { eapply Permutation_NoDup; [symmetry; exact L|apply seq_NoDup]. }
    clear - ND. induction (log s) as [|x r IH]; [constructor|].
    cbn in ND. inversion ND as [|? ? Hn Hr]; subst. constructor; [|apply IH, Hr].
    intros Hin. apply Hn. apply in_or_app. left. exact Hin.
  - intros i Hin. assert (In i (seq 0 (next s))).
    { eapply Permutation_in; [exact L|]. apply in_or_app. left. exact Hin. }
    apply in_seq in H0. lia.
Qed.
End S.

Lemma pipe_maximal_run_l (l : list Z) W tr (s : state Z Z) :
  0 < W -> run Z Z fZ 0%Z (init Z Z l W) tr = Some s -> dropped s = false ->
  (forall lab, lab <> Drop -> step Z Z fZ 0%Z s lab = None) -> out s = map fZ l.
Proof. intros HW H Hd Hno. apply (pipe_terminal_l Z Z fZ 0%Z l W tr s HW H Hd Hno). Qed.

(** ** what an accepting verdict of the executable statement means *)
Lemma zlist_eqb_eq a b : zlist_eqb a b = true <-> a = b.
Proof.
  revert b; induction a as [|x a IH]; intros [|y b]; cbn; split; intros H; try congruence; try reflexivity.
  - apply andb_true_iff in H as [H1 H2]. apply Z.eqb_eq in H1. apply IH in H2. congruence.
  - injection H as -> ->. rewrite Z.eqb_refl. cbn. apply IH. reflexivity.
Qed.

Lemma check_C05_sound_l v o : check_C05 v o = true ->
  v_list v_z (v_nth 1 o) = map fZ (v_list v_z (v_nth 1 v))
  /\ v_bool (v_nth 2 o) = true
  /\ v_list v_z (v_nth 3 o) = repeat 1%Z (length (v_list v_z (v_nth 1 v))).
Proof.
  unfold check_C05. intros H.
  destruct o as [|l]; [discriminate|].
  destruct l as [|a [|b [|c [|d [|e r]]]]]; try discriminate;
    destruct a; try discriminate; destruct b; try discriminate; destruct c; try discriminate; destruct d; try discriminate.
  apply andb_true_iff in H as [H H3]. apply andb_true_iff in H as [H1 H2].
  apply zlist_eqb_eq in H1, H3. auto.
Qed.

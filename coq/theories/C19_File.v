(** C19 with the merge file inside the model.  [train_bpe] ends with [merge_ops.save(out_file)]
    ([rmp_serde::to_vec] of the [HashMap<Vec<u8>, u32>], iteration order of the map); so far the harness read the
    file back with the crate's [load] and the file format was trusted.  The implementation output now carries the
    bytes of the file (field 7) next to the real loader's reading of it (field 0, [((id key) ...)] sorted by id);
    [file_agree_C19] = [MsgPack_Model.saved_agree]: the model's reader takes the same map from the bytes, the bytes
    are [mp_encode] of the entries in file order (minimal-width integers, array keys), nothing follows the map, and
    the map is the table with id = position.  Definitions only. *)
From TU Require Import Base C19_Model MsgPack_Model.
Open Scope N_scope.

Definition file_agree_C19 (i : val) : bool :=
  match i with
  | L [tv; _; _; _; _; _; _; fb] => saved_agree (out_entries i) fb tv
  | L (_ :: _ :: _ :: _ :: _ :: _ :: _) => false   (* a table was read but the file bytes are missing *)
  | _ => true                                        (* error outputs: nothing was loaded *)
  end.

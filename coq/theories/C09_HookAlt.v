(** C09 hook machine: the pinned bookkeeping and the alternative bookkeepings (seeded changes C09-2, C09-4,
    a print-first repair) — refutations with witness histories, and the conditions under which each is safe. *)
From Coq Require Import Lia.
From TU Require Import Base C09_Model C09_Hook C09_HookProofs.

Lemma hexec_app pol s a b : hexec pol s (a ++ b) = hexec pol (hexec pol s a) b.
Proof. unfold hexec. apply fold_left_app. Qed.

(** * the pinned train_bpe: after EVERY history that ends with train_bpe no live threaded pipe is protected *)
Lemma pinned_train_unprotects_l ops s i p :
  s = hexec pinned hinit (ops ++ [TrainBpe]) ->
  nth_error (h_pipes s) i = Some p -> p_live p = true -> p_threads p <> 0 ->
  exists n st, panic_result s (PanicIn i) = Some (n, Some st) /\ st <> Exited.
Proof.
  intros Hs Hn Hl Ht. unfold panic_result. rewrite (hpanic_protected s i p Hn Hl Ht). cbn [option_map].
  rewrite hexec_app in Hs. cbn in Hs. unfold verdict. rewrite Hs. cbn [h_hook h_locked].
  destruct (h_locked _); cbn.
  - exists 0, Blocked. split; [reflexivity|discriminate].
  - destruct (p_threads p) as [|[|w]]; [contradiction| |].
    + exists 1, Truncated. split; [reflexivity|discriminate].
    + exists 1, Blocked. split; [reflexivity|discriminate].
Qed.

Lemma hook_pinned_refuted_l :
  hrun pinned hinit [NewPipe 2; TrainBpe; PanicIn 0] = (Blocked, [0; 0; 1])
  /\ hrun pinned hinit [NewPipe 1; TrainBpe; PanicIn 0] = (Truncated, [0; 0; 1])
  /\ first_protected hinit [NewPipe 2; TrainBpe; PanicIn 0] = Some 2
  /\ hook_ok [NewPipe 2; TrainBpe; PanicIn 0] 42 [0; 0; 1] = false
  /\ hrun repaired hinit [NewPipe 2; TrainBpe; PanicIn 0] = (Exited, [0; 0; 0]).
Proof. repeat split. Qed.

(** * a generic form of the main invariant, for Pipe::new as it is and any train_bpe that keeps property [P] *)
Section Generic.
  Variable P : hook -> bool.
  Variable t : train_pol.
  Hypothesis P_exit : P HExit = true.
  Hypothesis P_train : forall h, P h = true -> P (train_hook t h) = true.
  Let pol := {| ppol := PipeAlways; tpol := t |}.

  Definition covered_by (s : hstate) : Prop :=
    (exists p, In p (h_pipes s) /\ threaded_fresh p) -> P (h_hook s) = true.

  Lemma covered_by_step s o : covered_by s -> covered_by (hstep pol s o).
  Proof.
    intros C. destruct o as [w|i| |i| | | | |]; try exact C.
    - destruct w as [|w]; cbn.
      + intros (p & Hin & Hf). cbn in Hin. apply in_app_or in Hin as [Hin|[<-|[]]].
        * apply C. exists p. split; assumption.
        * destruct Hf as [Hf _]. cbn in Hf. contradiction.
      + intros _. exact P_exit.
    - cbn. destruct (nth_error (h_pipes s) i) as [p|]; [|exact C].
      destruct (p_live p); [|exact C]. cbn.
      intros (q & Hin & Hf). apply In_upd in Hin as (p' & Hp' & [->| ->]).
      + apply C. exists p'. split; assumption.
      + apply C. exists p'. split; [assumption|]. exact Hf.
    - intros H. cbn. apply P_train. apply C. exact H.
    - intros (q & Hin & Hf). cbn in Hin. apply in_map_iff in Hin as (p & <- & _).
      destruct Hf as [_ Hf]. cbn in Hf. discriminate.
  Qed.

  Lemma covered_by_exec ops : forall s, covered_by s -> covered_by (hexec pol s ops).
  Proof.
    induction ops as [|o r IH]; intros s C; [exact C|]. cbn. apply IH. apply covered_by_step. exact C.
  Qed.
End Generic.

(** * print-first repair: safe exactly as long as nobody else holds the stdout lock *)
Fixpoint exits_some (h : hook) : bool :=
  match h with HExit => true | HThenPrint p | HPrintThen p => exits_some p | _ => false end.

Lemma exits_some_fire h : exits_some h = true -> exists n, fire false h = FExit n.
Proof.
  induction h; cbn; intros E; try discriminate.
  - exists 0. reflexivity.
  - destruct (IHh E) as (n & ->). exists n. reflexivity.
  - destruct (IHh E) as (n & ->). exists (S n). reflexivity.
Qed.

Lemma print_first_unlocked_l ops s i p :
  s = hexec print_first hinit ops -> h_locked s = false ->
  nth_error (h_pipes s) i = Some p -> p_live p = true -> p_threads p <> 0 -> p_clob p = false ->
  exists n, panic_result s (PanicIn i) = Some (n, Some Exited).
Proof.
  intros Hs Hk Hn Hl Ht Hc. unfold panic_result. rewrite (hpanic_protected s i p Hn Hl Ht). cbn [option_map].
  assert (C : covered_by exits_some s).
  { rewrite Hs. apply (covered_by_exec exits_some TrainPrintFirst); [reflexivity|intros h H; exact H|].
    intros (q & [] & _). }
  assert (E : exits_some (h_hook s) = true).
  { apply C. exists p. split; [eapply nth_error_In; exact Hn|split; assumption]. }
  destruct (exits_some_fire _ E) as (n & F). exists n. unfold verdict. rewrite Hk, F. reflexivity.
Qed.

Lemma print_first_refuted_l :
  exists ops i p, let s := hexec print_first hinit ops in
    nth_error (h_pipes s) i = Some p /\ p_live p = true /\ p_threads p <> 0 /\ p_clob p = false
    /\ panic_result s (PanicIn i) = Some (0, Some Blocked)
    /\ hrun print_first hinit (ops ++ [PanicIn i]) = (Blocked, [0; 0; 0; 0]).
Proof.
  exists [NewPipe 2; TrainBpe; LockStdout], 0, (new_pipe 2 None). cbn. repeat split. discriminate.
Qed.

(** * C09-4: the hook is installed through a process-wide Once *)
Lemma once_refuted_l :
  (exists ops i p, let s := hexec once_pinned hinit ops in
     nth_error (h_pipes s) i = Some p /\ p_live p = true /\ p_threads p <> 0 /\ p_clob p = false
     /\ panic_result s (PanicIn i) = Some (1, Some Blocked))
  /\ (exists ops i p, let s := hexec once_chain hinit ops in
     nth_error (h_pipes s) i = Some p /\ p_live p = true /\ p_threads p <> 0 /\ p_clob p = false
     /\ panic_result s (PanicIn i) = Some (0, Some Blocked)).
Proof.
  split.
  - exists [NewPipe 1; DropPipe 0; TrainBpe; NewPipe 2], 1, (new_pipe 2 None). cbn. repeat split. discriminate.
  - exists [NewPipe 1; DropPipe 0; ForeignHook; NewPipe 2], 1, (new_pipe 2 None). cbn. repeat split. discriminate.
Qed.

Definition once_inv (s : hstate) : Prop :=
  (h_once s = true -> exits_first (h_hook s) = true)
  /\ (forall p, In p (h_pipes s) -> p_threads p <> 0 -> h_once s = true).

Lemma once_inv_step s o : o <> ForeignHook -> once_inv s -> once_inv (hstep once_chain s o).
Proof.
  intros Hne [A B]. destruct o as [w|i| |i| | | | |]; try (split; assumption); try contradiction.
  - destruct w as [|w]; cbn.
    + split; [exact A|]. cbn. intros p Hin Ht. apply in_app_or in Hin as [Hin|[<-|[]]]; [eapply B; eassumption|].
      cbn in Ht. contradiction.
    + split; [|intros; reflexivity]. cbn. intros _. destruct (h_once s); [apply A; reflexivity|reflexivity].
  - cbn. destruct (nth_error (h_pipes s) i) as [p|]; [|split; assumption].
    destruct (p_live p); [|split; assumption]. split; [exact A|]. cbn.
    intros q Hin Ht. apply In_upd in Hin as (p' & Hp' & [->| ->]); eapply B; eassumption.
Qed.

Lemma once_inv_exec ops : forall s, ~ In ForeignHook ops -> once_inv s -> once_inv (hexec once_chain s ops).
Proof.
  induction ops as [|o r IH]; intros s Hn C; [exact C|]. cbn. apply IH.
  - intros H. apply Hn. right. exact H.
  - apply once_inv_step; [|exact C]. intros ->. apply Hn. left. reflexivity.
Qed.

Lemma once_closed_world_l ops s i p :
  s = hexec once_chain hinit ops -> ~ In ForeignHook ops ->
  nth_error (h_pipes s) i = Some p -> p_live p = true -> p_threads p <> 0 ->
  panic_result s (PanicIn i) = Some (0, Some Exited).
Proof.
  intros Hs Hnf Hn Hl Ht. unfold panic_result. rewrite (hpanic_protected s i p Hn Hl Ht). cbn [option_map]. f_equal.
  assert (K : once_inv s).
  { rewrite Hs. apply once_inv_exec; [exact Hnf|]. split; [discriminate|intros q []]. }
  destruct K as [A B]. unfold verdict.
  rewrite (exits_first_fire _ (A (B p (nth_error_In _ _ Hn) Ht))). destruct (p_threads p) as [|[|w]]; reflexivity.
Qed.

(** * C09-2: Pipe::new saves the previous hook, Drop puts it back *)
Lemma restore_refuted_l :
  exists ops i p, let s := hexec restore_on_drop hinit ops in
    nth_error (h_pipes s) i = Some p /\ p_live p = true /\ p_threads p <> 0 /\ p_clob p = false
    /\ panic_result s (PanicIn i) = Some (0, Some Blocked)
    /\ hrun restore_on_drop hinit (ops ++ [PanicIn i]) = (Blocked, [0; 0; 0; 0]).
Proof.
  exists [NewPipe 2; NewPipe 2; DropPipe 0], 1, (new_pipe 2 (Some HExit)). cbn. repeat split. discriminate.
Qed.

(** ... but it is safe when pipes are dropped in reverse order of creation (strictly nested lifetimes) *)
Lemma forallb_skipn {A} (f : A -> bool) (l : list A) : forall n,
  forallb f (skipn n l) = true -> forall j q, n <= j -> nth_error l j = Some q -> f q = true.
Proof.
  induction l as [|x r IH]; intros n H j q Hj Hq; [destruct j; discriminate|].
  destruct n.
  - cbn in H. apply andb_true_iff in H as [Hx Hr]. destruct j; cbn in Hq.
    + injection Hq as <-. exact Hx.
    + apply (IH 0 Hr j q); [lia|exact Hq].
  - destruct j; [lia|]. cbn in H, Hq. apply (IH n H j q); [lia|exact Hq].
Qed.

Definition fresh_live_at (l : list pipe) (j : nat) : Prop :=
  exists p, nth_error l j = Some p /\ p_live p = true /\ threaded_fresh p.

Definition nest_inv (s : hstate) : Prop :=
  ((exists j, fresh_live_at (h_pipes s) j) -> exits_first (h_hook s) = true)
  /\ (forall j q h, nth_error (h_pipes s) j = Some q -> p_live q = true -> p_saved q = Some h ->
        (exists j', j' < j /\ fresh_live_at (h_pipes s) j') -> exits_first h = true).

Lemma nth_error_lt {A} (l : list A) j q : nth_error l j = Some q -> j < length l.
Proof. intros H. apply nth_error_Some. rewrite H. discriminate. Qed.

Lemma nth_error_snoc {A} (l : list A) x j q :
  nth_error (l ++ [x]) j = Some q -> nth_error l j = Some q \/ (j = length l /\ q = x).
Proof.
  intros H. destruct (Nat.lt_ge_cases j (length l)) as [Hlt|Hge].
  - left. rewrite nth_error_app1 in H by exact Hlt. exact H.
  - right. rewrite nth_error_app2 in H by exact Hge.
    destruct (j - length l) as [|d] eqn:E; cbn in H; [|destruct d; discriminate].
    injection H as <-. split; [lia|reflexivity].
Qed.

Lemma fresh_live_snoc l x j : fresh_live_at (l ++ [x]) j -> fresh_live_at l j \/ (j = length l /\ p_live x = true /\ threaded_fresh x).
Proof.
  intros (p & Hn & Hl & Hf). apply nth_error_snoc in Hn as [Hn|[-> ->]].
  - left. exists p. split; [|split]; assumption.
  - right. split; [reflexivity|split; assumption].
Qed.

Lemma fresh_live_upd_dead l i j : fresh_live_at (upd i set_dead l) j -> fresh_live_at l j /\ j <> i.
Proof.
  intros (p & Hn & Hl & Hf). rewrite nth_error_upd in Hn. destruct (Nat.eqb i j) eqn:E.
  - destruct (nth_error l j) as [p'|]; [|discriminate]. cbn in Hn. injection Hn as <-. cbn in Hl. discriminate.
  - apply Nat.eqb_neq in E. split; [exists p; split; [|split]; assumption|intros ->; apply E; reflexivity].
Qed.

Lemma fresh_live_map_clob l j : ~ fresh_live_at (map set_clob l) j.
Proof.
  intros (p & Hn & _ & _ & Hc). rewrite nth_error_map in Hn. destruct (nth_error l j); [|discriminate].
  cbn in Hn. injection Hn as <-. cbn in Hc. discriminate.
Qed.

Lemma nest_inv_step s o : nested_drop s o = true -> nest_inv s -> nest_inv (hstep restore_on_drop s o).
Proof.
  intros Hnd [A B]. destruct o as [w|i| |i| | | | |]; try (split; assumption).
  - (* NewPipe *)
    destruct w as [|w]; cbn.
    + split; cbn.
      * intros (j & Hj). apply fresh_live_snoc in Hj as [Hj|(_ & _ & Hf & _)]; [apply A; exists j; exact Hj|].
        cbn in Hf. contradiction.
      * intros j q h Hn Hl Hs (j' & Hlt & Hj'). apply nth_error_snoc in Hn as [Hn|[-> ->]]; [|discriminate].
        apply (B j q h Hn Hl Hs). exists j'. split; [exact Hlt|].
        apply fresh_live_snoc in Hj' as [Hj'|(-> & _)]; [exact Hj'|].
        apply nth_error_lt in Hn. lia.
    + split; cbn; [intros _; reflexivity|].
      intros j q h Hn Hl Hs (j' & Hlt & Hj'). apply nth_error_snoc in Hn as [Hn|[-> ->]].
      * apply (B j q h Hn Hl Hs). exists j'. split; [exact Hlt|].
        apply fresh_live_snoc in Hj' as [Hj'|(-> & _)]; [exact Hj'|].
        apply nth_error_lt in Hn. lia.
      * cbn in Hs. injection Hs as <-. apply A. exists j'.
        apply fresh_live_snoc in Hj' as [Hj'|(-> & _)]; [exact Hj'|lia].
  - (* DropPipe *)
    unfold nested_drop in Hnd. cbn. destruct (nth_error (h_pipes s) i) as [p0|] eqn:E0; [|split; assumption].
    destruct (p_live p0) eqn:L0; [|split; assumption]. split; cbn.
    + intros (j & Hj). apply fresh_live_upd_dead in Hj as [Hj Hne].
      destruct (p_saved p0) as [h0|] eqn:S0; [|apply A; exists j; exact Hj].
      apply (B i p0 h0 E0 L0 S0). exists j. split; [|exact Hj].
      destruct (Nat.lt_ge_cases j i) as [Hlt|Hge]; [exact Hlt|]. exfalso.
      destruct Hj as (p & Hn & Hl & Ht & Hc).
      pose proof (forallb_skipn _ _ _ Hnd j p ltac:(lia) Hn) as F. unfold live_threaded in F.
      rewrite Hl in F. cbn in F. destruct (p_threads p); [contradiction|discriminate].
    + intros j q h Hn Hl Hs (j' & Hlt & Hj'). rewrite nth_error_upd in Hn.
      apply fresh_live_upd_dead in Hj' as [Hj' _].
      destruct (Nat.eqb i j).
      * destruct (nth_error (h_pipes s) j) as [q'|]; [|discriminate]. cbn in Hn. injection Hn as <-. cbn in Hl. discriminate.
      * apply (B j q h Hn Hl Hs). exists j'. split; assumption.
  - (* ForeignHook *)
    split; cbn.
    + intros (j & Hj). exfalso. exact (fresh_live_map_clob _ _ Hj).
    + intros j q h _ _ _ (j' & _ & Hj'). exfalso. exact (fresh_live_map_clob _ _ Hj').
Qed.

Lemma nest_inv_exec ops : forall s, well_nested restore_on_drop s ops = true -> nest_inv s ->
  nest_inv (hexec restore_on_drop s ops).
Proof.
  induction ops as [|o r IH]; intros s W C; [exact C|]. cbn in W. apply andb_true_iff in W as [W1 W2].
  cbn. apply IH; [exact W2|]. apply nest_inv_step; assumption.
Qed.

Lemma restore_nested_l ops s i p :
  s = hexec restore_on_drop hinit ops -> well_nested restore_on_drop hinit ops = true ->
  nth_error (h_pipes s) i = Some p -> p_live p = true -> p_threads p <> 0 -> p_clob p = false ->
  panic_result s (PanicIn i) = Some (0, Some Exited).
Proof.
  intros Hs W Hn Hl Ht Hc. unfold panic_result. rewrite (hpanic_protected s i p Hn Hl Ht). cbn [option_map]. f_equal.
  assert (K : nest_inv s).
  { rewrite Hs. apply nest_inv_exec; [exact W|]. split.
    - intros (j & q & Hq & _). destruct j; discriminate.
    - intros j q h Hq. destruct j; discriminate. }
  destruct K as [A _]. unfold verdict.
  rewrite (exits_first_fire (h_hook s)).
  - destruct (p_threads p) as [|[|w]]; reflexivity.
  - apply A. exists i, p. repeat split; assumption.
Qed.

(** * the pipe fields the property's statement reads do not depend on the hook bookkeeping *)
Definition ghost (p : pipe) : nat * bool * bool := (p_threads p, p_live p, p_clob p).

Lemma map_upd {A B} (g : A -> B) (f : A -> A) (f' : B -> B) (l : list A) :
  (forall x, g (f x) = f' (g x)) -> forall i, map g (upd i f l) = upd i f' (map g l).
Proof.
  intros H. induction l as [|x r IH]; intros [|i]; cbn; try reflexivity; [now rewrite H|now rewrite IH].
Qed.

Lemma ghost_step pol1 pol2 s1 s2 o :
  map ghost (h_pipes s1) = map ghost (h_pipes s2) ->
  map ghost (h_pipes (hstep pol1 s1 o)) = map ghost (h_pipes (hstep pol2 s2 o)).
Proof.
  intros G. destruct o as [w|i| |i| | | | |]; try exact G.
  - destruct w as [|w]; cbn.
    + rewrite !map_app, G. reflexivity.
    + destruct (ppol pol1), (ppol pol2); cbn; rewrite !map_app, G; reflexivity.
  - cbn. pose proof (f_equal (fun l => nth_error l i) G) as N. cbn in N. rewrite !nth_error_map in N.
    destruct (nth_error (h_pipes s1) i) as [p1|], (nth_error (h_pipes s2) i) as [p2|]; try discriminate; [|exact G].
    cbn in N. injection N as N1 N2 N3. rewrite N2. destruct (p_live p2); [|exact G]. cbn.
    rewrite (map_upd ghost set_dead (fun g => (fst (fst g), false, snd g))) by reflexivity.
    rewrite (map_upd ghost set_dead (fun g => (fst (fst g), false, snd g))) by reflexivity.
    rewrite G. reflexivity.
  - cbn. rewrite !map_map.
    transitivity (map (fun g : nat * bool * bool => (fst (fst g), snd (fst g), true)) (map ghost (h_pipes s1))).
    + rewrite map_map. reflexivity.
    + rewrite G, map_map. reflexivity.
Qed.

Lemma ghost_exec pol1 pol2 ops : forall s1 s2,
  map ghost (h_pipes s1) = map ghost (h_pipes s2) ->
  map ghost (h_pipes (hexec pol1 s1 ops)) = map ghost (h_pipes (hexec pol2 s2 ops)).
Proof.
  induction ops as [|o r IH]; intros s1 s2 G; [exact G|]. cbn. apply IH. apply ghost_step. exact G.
Qed.

Lemma protected_ghost s1 s2 o :
  map ghost (h_pipes s1) = map ghost (h_pipes s2) -> protected_panic s1 o = protected_panic s2 o.
Proof.
  intros G. destruct o; try reflexivity. cbn.
  pose proof (f_equal (fun l => nth_error l i) G) as N. cbn in N. rewrite !nth_error_map in N.
  destruct (nth_error (h_pipes s1) i) as [p1|], (nth_error (h_pipes s2) i) as [p2|]; try discriminate; [|reflexivity].
  cbn in N. injection N as N1 N2 N3. rewrite N1, N2, N3. reflexivity.
Qed.

Lemma ghost_policy_independent_l pol ops o :
  protected_panic (hexec pol hinit ops) o = protected_panic (hexec repaired hinit ops) o.
Proof. apply protected_ghost. apply ghost_exec. reflexivity. Qed.

(** Shared proof layer for the float models of C12 (binary64) and C17 (binary32): facts about Flocq's
    [round] / [Bdiv] / [Bmult] / [binary_normalize] at round-to-nearest-even, generic in the format
    [(prec, emax)].  Nothing here is executable; the models (C12_Float.v, C17_Float.v) do not import it.
    (Same content as the first part of C13_FloatProofs.v, which cannot be imported from C12 without a
    dependency cycle: C13 requires C12_Props.) *)
From Coq Require Import ZArith List Bool Reals Lia Lra.
From Flocq Require Import Core IEEE754.BinarySingleNaN Relative.
Import ListNotations.
Open Scope Z_scope.

Section Gen.
Variables prec emax : Z.
Context (Hprec : Prec_gt_0 prec) (Hmax : Prec_lt_emax prec emax).

Notation bf := (binary_float prec emax).
Notation fexpG := (SpecFloat.fexp prec emax).
Notation eminG := (SpecFloat.emin prec emax).

Definition gdiv : bf -> bf -> bf := @Bdiv prec emax Hprec Hmax mode_NE.
Definition gmul : bf -> bf -> bf := @Bmult prec emax Hprec Hmax mode_NE.
Definition gofZ (z : Z) : bf := binary_normalize prec emax Hprec Hmax mode_NE z 0 false.

Open Scope R_scope.
Definition rnd (x : R) : R := round radix2 fexpG ZnearestE x.
Definition fmt (x : R) : Prop := generic_format radix2 fexpG x.
Definition Fin (x : bf) : Prop := is_finite x = true.
Definition TOP : R := bpow radix2 emax.
(** the unit roundoff 2^-prec *)
Definition uu : R := bpow radix2 (- prec).
(** the smallest normal number *)
Definition NRM : R := bpow radix2 (eminG + prec - 1).

Lemma prec_pos : (0 < prec)%Z. Proof. exact Hprec. Qed.
Lemma prec_emax : (prec < emax)%Z. Proof. exact Hmax. Qed.

Local Instance vexp : Valid_exp fexpG := fexp_correct prec emax Hprec.
Local Instance vrnd : Valid_rnd ZnearestE := valid_rnd_N _.

Lemma rnd_le : forall x y, x <= y -> rnd x <= rnd y.
Proof. intros. apply round_le; auto with typeclass_instances. Qed.
Lemma rnd_fmt : forall x, fmt x -> rnd x = x.
Proof. intros. apply round_generic; auto with typeclass_instances. Qed.
Lemma rnd_le_fmt : forall x c, fmt c -> x <= c -> rnd x <= c.
Proof. intros. apply round_le_generic; auto with typeclass_instances. Qed.
Lemma rnd_ge_fmt : forall x c, fmt c -> c <= x -> c <= rnd x.
Proof. intros. apply round_ge_generic; auto with typeclass_instances. Qed.
Lemma rnd_0 : rnd 0 = 0.
Proof. apply round_0; auto with typeclass_instances. Qed.
Lemma fmt_0 : fmt 0.
Proof. apply generic_format_0. Qed.
Lemma fmt_rnd : forall x, fmt (rnd x).
Proof. intros. apply generic_format_round; auto with typeclass_instances. Qed.
Lemma fmt_B2R : forall x : bf, fmt (B2R x).
Proof. intros. apply generic_format_B2R. Qed.
Lemma fmt_bpow : forall e, (eminG <= e)%Z -> fmt (bpow radix2 e).
Proof.
  intros e H. apply generic_format_bpow. pose proof prec_pos. unfold SpecFloat.fexp. lia.
Qed.
Lemma rnd_nonneg : forall x, 0 <= x -> 0 <= rnd x.
Proof. intros. apply rnd_ge_fmt; [apply fmt_0|assumption]. Qed.

Lemma emin_neg : (eminG <= 0)%Z.
Proof. pose proof prec_pos. pose proof prec_emax. unfold SpecFloat.emin. lia. Qed.

Lemma IZR_2p : forall k, (0 <= k)%Z -> IZR (2 ^ k) = bpow radix2 k.
Proof. intros k H. change (2 ^ k)%Z with (Zpower radix2 k). apply IZR_Zpower. exact H. Qed.

Lemma fmt_IZR : forall z, (Z.abs z <= 2 ^ prec)%Z -> fmt (IZR z).
Proof.
  intros z H. pose proof prec_pos as P. pose proof emin_neg as E.
  destruct (Z.eq_dec (Z.abs z) (2 ^ prec)) as [Eq|Ne].
  - assert (Hz : z = (2 ^ prec)%Z \/ z = (- 2 ^ prec)%Z) by lia.
    destruct Hz as [-> | ->].
    + rewrite IZR_2p by lia. apply fmt_bpow. lia.
    + rewrite opp_IZR. apply generic_format_opp. rewrite IZR_2p by lia. apply fmt_bpow. lia.
  - apply generic_format_FLT. apply (FLT_spec radix2 _ _ _ (Float radix2 z 0)).
    + unfold F2R. cbn. ring.
    + cbn [Fnum]. change (Zpower radix2 prec) with (2 ^ prec)%Z. lia.
    + cbn [Fexp]. lia.
Qed.

Lemma fmt_1 : fmt 1.
Proof.
  apply (fmt_IZR 1). pose proof prec_pos. change (Z.abs 1) with (2 ^ 0)%Z. apply Z.pow_le_mono_r; lia.
Qed.

Lemma TOP_pos : 0 < TOP. Proof. apply bpow_gt_0. Qed.
Lemma one_lt_TOP : 1 < TOP.
Proof.
  unfold TOP. change 1 with (bpow radix2 0). apply bpow_lt. pose proof prec_pos. pose proof prec_emax. lia.
Qed.

(** a rounded value whose argument is bounded by a representable c < 2^emax does not overflow *)
Lemma rnd_lt_TOP : forall x c, fmt c -> c < TOP -> Rabs x <= c -> Rabs (rnd x) < TOP.
Proof.
  intros x c Fc Hc Hx. apply Rle_lt_trans with c; [|exact Hc].
  apply abs_round_le_generic; auto with typeclass_instances.
Qed.

(** * the operations on finite floats *)
Lemma gmul_spec : forall x y : bf, Fin x -> Fin y ->
  Rabs (rnd (B2R x * B2R y)) < TOP ->
  B2R (gmul x y) = rnd (B2R x * B2R y) /\ Fin (gmul x y).
Proof.
  intros x y Fx Fy H. pose proof (Bmult_correct prec emax Hprec Hmax mode_NE x y) as C.
  cbn [round_mode] in C. fold (rnd (B2R x * B2R y)) in C. fold TOP in C.
  rewrite (Rlt_bool_true _ _ H) in C. destruct C as (C1 & C2 & _). split; [assumption|].
  unfold Fin in *. unfold gmul. rewrite C2, Fx, Fy. reflexivity.
Qed.

Lemma gdiv_spec : forall x y : bf, Fin x -> B2R y <> 0 ->
  Rabs (rnd (B2R x / B2R y)) < TOP ->
  B2R (gdiv x y) = rnd (B2R x / B2R y) /\ Fin (gdiv x y).
Proof.
  intros x y Fx Hy H. pose proof (Bdiv_correct prec emax Hprec Hmax mode_NE x y Hy) as C.
  cbn [round_mode] in C. fold (rnd (B2R x / B2R y)) in C. fold TOP in C.
  rewrite (Rlt_bool_true _ _ H) in C. destruct C as (C1 & C2 & _). split; [assumption|].
  unfold Fin in *. unfold gdiv. rewrite C2. exact Fx.
Qed.

Lemma bpow_prec_lt_TOP : bpow radix2 prec < TOP.
Proof. unfold TOP. apply bpow_lt. apply prec_emax. Qed.

(** [n as float] is exact up to 2^prec *)
Lemma gofZ_spec : forall z, (Z.abs z <= 2 ^ prec)%Z -> B2R (gofZ z) = IZR z /\ Fin (gofZ z).
Proof.
  intros z H. pose proof (binary_normalize_correct prec emax Hprec Hmax mode_NE z 0 false) as C.
  cbv zeta in C. cbn [round_mode] in C.
  assert (E : F2R (Float radix2 z 0) = IZR z) by (unfold F2R; cbn; ring).
  rewrite E in C. fold (rnd (IZR z)) in C. fold TOP in C.
  rewrite (rnd_fmt _ (fmt_IZR z H)) in C.
  rewrite Rlt_bool_true in C.
  - destruct C as (C1 & C2 & _). split; assumption.
  - apply Rle_lt_trans with (bpow radix2 prec); [|apply bpow_prec_lt_TOP].
    rewrite <- abs_IZR. rewrite <- IZR_2p by (pose proof prec_pos; lia). apply IZR_le. exact H.
Qed.

(** signs: a finite result is not a NaN, so the sign rule of the operation applies *)
Lemma fin_not_nan : forall x : bf, Fin x -> is_nan x = false.
Proof. intros [s|s| |s m e H]; cbn; intros F; try reflexivity; discriminate. Qed.

Lemma gdiv_sign : forall x y : bf, Fin x -> B2R y <> 0 ->
  Rabs (rnd (B2R x / B2R y)) < TOP -> Bsign (gdiv x y) = xorb (Bsign x) (Bsign y).
Proof.
  intros x y Fx Hy H. pose proof (Bdiv_correct prec emax Hprec Hmax mode_NE x y Hy) as C.
  cbn [round_mode] in C. fold (rnd (B2R x / B2R y)) in C. fold TOP in C.
  rewrite (Rlt_bool_true _ _ H) in C. destruct C as (_ & C2 & C3). apply C3.
  apply fin_not_nan. unfold Fin in *. rewrite C2. exact Fx.
Qed.

Lemma gmul_sign : forall x y : bf, Fin x -> Fin y ->
  Rabs (rnd (B2R x * B2R y)) < TOP -> Bsign (gmul x y) = xorb (Bsign x) (Bsign y).
Proof.
  intros x y Fx Fy H. pose proof (Bmult_correct prec emax Hprec Hmax mode_NE x y) as C.
  cbn [round_mode] in C. fold (rnd (B2R x * B2R y)) in C. fold TOP in C.
  rewrite (Rlt_bool_true _ _ H) in C. destruct C as (_ & C2 & C3). apply C3.
  apply fin_not_nan. unfold Fin in *. rewrite C2, Fx, Fy. reflexivity.
Qed.

(** an unsigned integer converts to a float with sign bit 0 (+0.0 for 0) *)
Lemma gofZ_sign : forall z, (0 <= z <= 2 ^ prec)%Z -> Bsign (gofZ z) = false.
Proof.
  intros z H. pose proof (binary_normalize_correct prec emax Hprec Hmax mode_NE z 0 false) as C.
  cbv zeta in C. cbn [round_mode] in C.
  assert (E : F2R (Float radix2 z 0) = IZR z) by (unfold F2R; cbn; ring).
  rewrite E in C. fold (rnd (IZR z)) in C. fold TOP in C.
  rewrite (rnd_fmt _ (fmt_IZR z ltac:(lia))) in C.
  rewrite Rlt_bool_true in C.
  - destruct C as (_ & _ & C3). unfold gofZ. rewrite C3.
    destruct (Rcompare_spec (IZR z) 0) as [L|_|_]; try reflexivity.
    exfalso. assert (0 <= IZR z) by (apply (IZR_le 0); lia). lra.
  - apply Rle_lt_trans with (bpow radix2 prec); [|apply bpow_prec_lt_TOP].
    rewrite <- abs_IZR. rewrite <- IZR_2p by (pose proof prec_pos; lia). apply IZR_le. lia.
Qed.

(** two finite floats with the same value and the same sign bit are the same float *)
Lemma fl_eq : forall x y : bf, Fin x -> Fin y -> B2R x = B2R y -> Bsign x = Bsign y -> x = y.
Proof. intros. apply B2R_Bsign_inj; assumption. Qed.

(** * relative error of one rounding in the normal range *)
Lemma uu_pos : 0 < uu. Proof. apply bpow_gt_0. Qed.
Lemma uu_lt_1 : uu < 1.
Proof. unfold uu. change 1 with (bpow radix2 0). apply bpow_lt. pose proof prec_pos. lia. Qed.
Lemma uu_half : uu <= / 2.
Proof.
  unfold uu. change (/ 2) with (bpow radix2 (-1)). apply bpow_le. pose proof prec_pos. lia.
Qed.

Lemma rnd_rel : forall x, NRM <= Rabs x -> Rabs (rnd x - x) <= uu * Rabs x.
Proof.
  intros x H. pose proof (relative_error_N_FLT radix2 eminG prec Hprec (fun z => negb (Z.even z)) x H) as E.
  replace (/ 2 * bpow radix2 (- prec + 1)) with uu in E; [exact E|].
  unfold uu. rewrite bpow_plus. change (bpow radix2 1) with 2. field.
Qed.
Lemma rnd_up : forall x, NRM <= x -> rnd x <= x * (1 + uu).
Proof.
  intros x H. assert (X0 : 0 <= x) by (pose proof (bpow_ge_0 radix2 (eminG + prec - 1)); unfold NRM in H; lra).
  pose proof (rnd_rel x) as E. rewrite (Rabs_pos_eq x X0) in E. specialize (E H).
  apply Rabs_le_inv in E. lra.
Qed.
Lemma rnd_dn : forall x, NRM <= x -> x * (1 - uu) <= rnd x.
Proof.
  intros x H. assert (X0 : 0 <= x) by (pose proof (bpow_ge_0 radix2 (eminG + prec - 1)); unfold NRM in H; lra).
  pose proof (rnd_rel x) as E. rewrite (Rabs_pos_eq x X0) in E. specialize (E H).
  apply Rabs_le_inv in E. lra.
Qed.

(** * k-fold relative closeness: y (1-u)^k <= x <= y (1+u)^k *)
Definition lo : R := 1 - uu.
Definition hi : R := 1 + uu.
Definition ap (k : nat) (x y : R) : Prop := y * lo ^ k <= x <= y * hi ^ k.

Lemma lo_pos : 0 < lo. Proof. unfold lo. pose proof uu_lt_1. lra. Qed.
Lemma lo_le1 : lo <= 1. Proof. unfold lo. pose proof uu_pos. lra. Qed.
Lemma hi_ge1 : 1 <= hi. Proof. unfold hi. pose proof uu_pos. lra. Qed.
Lemma lok_pos : forall k, 0 < lo ^ k. Proof. intros. apply pow_lt, lo_pos. Qed.
Lemma hik_pos : forall k, 0 < hi ^ k. Proof. intros. apply pow_lt. pose proof hi_ge1. lra. Qed.
Lemma lok_le1 : forall k, lo ^ k <= 1.
Proof. intros k. rewrite <- (pow1 k). apply pow_incr. pose proof lo_pos. pose proof lo_le1. lra. Qed.
Lemma hik_ge1 : forall k, 1 <= hi ^ k.
Proof. intros k. apply pow_R1_Rle, hi_ge1. Qed.

Lemma ap_nonneg : forall k x y, 0 <= y -> ap k x y -> 0 <= x.
Proof. intros k x y Y [L _]. pose proof (lok_pos k). eapply Rle_trans; [|exact L]. apply Rmult_le_pos; lra. Qed.
Lemma ap_refl : forall x, ap 0 x x.
Proof. intros x. unfold ap. cbn [pow]. lra. Qed.
Lemma ap_weaken : forall j k x y, (j <= k)%nat -> 0 <= y -> ap j x y -> ap k x y.
Proof.
  intros j k x y H Y [L U]. replace k with (j + (k - j))%nat by lia. unfold ap. rewrite !pow_add.
  pose proof (lok_pos j). pose proof (hik_pos j). pose proof (lok_pos (k - j)). pose proof (lok_le1 (k - j)).
  pose proof (hik_ge1 (k - j)). split.
  - eapply Rle_trans; [|exact L]. rewrite <- Rmult_assoc. rewrite <- (Rmult_1_r (y * lo ^ j)) at 2.
    apply Rmult_le_compat_l; [apply Rmult_le_pos; lra|lra].
  - eapply Rle_trans; [exact U|]. rewrite <- Rmult_assoc. rewrite <- (Rmult_1_r (y * hi ^ j)) at 1.
    apply Rmult_le_compat_l; [apply Rmult_le_pos; lra|lra].
Qed.
Lemma ap_trans : forall j k x y z, ap j x y -> ap k y z -> ap (j + k) x z.
Proof.
  intros j k x y z [L1 U1] [L2 U2]. unfold ap. rewrite !pow_add.
  pose proof (lok_pos j). pose proof (hik_pos j). split.
  - eapply Rle_trans; [|exact L1]. replace (z * (lo ^ j * lo ^ k)) with (z * lo ^ k * lo ^ j) by ring.
    apply Rmult_le_compat_r; lra.
  - eapply Rle_trans; [exact U1|]. replace (z * (hi ^ j * hi ^ k)) with (z * hi ^ k * hi ^ j) by ring.
    apply Rmult_le_compat_r; lra.
Qed.
Lemma ap_mul : forall j k x x' y y', 0 <= x' -> 0 <= y' -> ap j x x' -> ap k y y' -> ap (j + k) (x * y) (x' * y').
Proof.
  intros j k x x' y y' X Y Hx Hy.
  pose proof (ap_nonneg _ _ _ X Hx) as X0. pose proof (ap_nonneg _ _ _ Y Hy) as Y0.
  destruct Hx as [L1 U1]. destruct Hy as [L2 U2]. unfold ap. rewrite !pow_add.
  pose proof (lok_pos j). pose proof (hik_pos j). pose proof (lok_pos k). pose proof (hik_pos k). split.
  - replace (x' * y' * (lo ^ j * lo ^ k)) with ((x' * lo ^ j) * (y' * lo ^ k)) by ring.
    apply Rmult_le_compat; try assumption; apply Rmult_le_pos; lra.
  - replace (x' * y' * (hi ^ j * hi ^ k)) with ((x' * hi ^ j) * (y' * hi ^ k)) by ring.
    apply Rmult_le_compat; assumption.
Qed.
Lemma ap_rnd : forall x, NRM <= x -> ap 1 (rnd x) x.
Proof. intros x H. unfold ap, lo, hi. rewrite !pow_1. split; [apply rnd_dn|apply rnd_up]; exact H. Qed.

(** Bernoulli-type bounds that turn [ap k] into a linear bound *)
Lemma lok_bernoulli : forall k, 1 - INR k * uu <= lo ^ k.
Proof.
  induction k as [|k IH].
  - cbn. lra.
  - rewrite S_INR. cbn [pow]. unfold lo in *. pose proof uu_pos. pose proof uu_lt_1.
    pose proof (pos_INR k).
    assert (0 <= INR k * uu * uu) by (apply Rmult_le_pos; [apply Rmult_le_pos|]; lra).
    assert ((1 - uu) * (1 - INR k * uu) <= (1 - uu) * (1 - uu) ^ k) by (apply Rmult_le_compat_l; lra).
    lra.
Qed.
Lemma hik_quadratic : forall k, INR k * uu <= 1 -> hi ^ k <= 1 + INR k * uu + (INR k * uu) * (INR k * uu).
Proof.
  induction k as [|k IH].
  - intros _. cbn. lra.
  - rewrite S_INR. intros H. cbn [pow]. unfold hi in *. pose proof uu_pos as U. pose proof (pos_INR k) as K.
    assert (K1 : INR k * uu <= 1) by nra. specialize (IH K1).
    assert ((1 + uu) * (1 + uu) ^ k <= (1 + uu) * (1 + INR k * uu + INR k * uu * (INR k * uu)))
      by (apply Rmult_le_compat_l; lra).
    set (a := INR k) in *.
    assert (a * a * uu * uu * uu <= a * uu * uu).
    { assert (a * uu * (a * uu * uu) <= 1 * (a * uu * uu)).
      { apply Rmult_le_compat_r; [|exact K1]. apply Rmult_le_pos; [apply Rmult_le_pos|]; lra. }
      lra. }
    nra.
Qed.

End Gen.

(** C15 proofs, part 1: booleans, candidate collection, soundness of [choices]
    ([one_edit]), totality of the repaired providers, the pinned arithmetic. *)
From TU Require Import Base C15_Model.
From Coq Require Import Lia.

(** * Boolean reflection *)
Lemma mem_In i ex : mem i ex = true <-> In i ex.
Proof.
  unfold mem. rewrite existsb_exists. split.
  - intros (x & Hx & E). apply Nat.eqb_eq in E. subst. exact Hx.
  - intros H. exists i. split; [exact H | apply Nat.eqb_refl].
Qed.

Lemma mem_false i ex : mem i ex = false <-> ~ In i ex.
Proof.
  rewrite <- mem_In. destruct (mem i ex); split; intros H; congruence.
Qed.

Lemma nlist_eqb_eq a b : nlist_eqb a b = true <-> a = b.
Proof.
  revert b; induction a as [|x a IH]; intros [|y b]; cbn; split; intros H; try congruence; try reflexivity.
  - apply andb_true_iff in H as [H1 H2]. apply N.eqb_eq in H1. apply IH in H2. congruence.
  - injection H as -> ->. rewrite N.eqb_refl. cbn. apply IH. reflexivity.
Qed.

Lemma nlist_eqb_refl a : nlist_eqb a a = true.
Proof. apply nlist_eqb_eq. reflexivity. Qed.

Lemma cls_eqb_eq a b : cls_eqb a b = true <-> a = b.
Proof.
  revert b; induction a as [|x a IH]; intros [|y b]; cbn; split; intros H; try congruence; try reflexivity.
  - apply andb_true_iff in H as [H1 H2]. apply nlist_eqb_eq in H1. apply IH in H2. congruence.
  - injection H as -> ->. rewrite nlist_eqb_refl. cbn. apply IH. reflexivity.
Qed.

Lemma ocl_eqb_eq a b : ocl_eqb a b = true <-> a = b.
Proof.
  destruct a as [x|], b as [y|]; cbn; try (split; congruence).
  rewrite nlist_eqb_eq. split; congruence.
Qed.

Lemma set_eqb_spec a b : set_eqb a b = true <-> (forall x, In x a <-> In x b).
Proof.
  unfold set_eqb. rewrite andb_true_iff, !forallb_forall. split.
  - intros [H1 H2] x. split; intros H; [apply mem_In, H1, H | apply mem_In, H2, H].
  - intros H. split; intros x Hx; apply mem_In, H, Hx.
Qed.

Lemma in_rangeb_spec w ex : in_rangeb w ex = true <-> in_range w ex.
Proof.
  unfold in_rangeb, in_range. rewrite forallb_forall, Forall_forall.
  split; intros H x Hx; specialize (H x Hx); [apply Nat.ltb_lt, H | apply Nat.ltb_lt, H].
Qed.

(** * Candidate collection *)
Lemma collect_In prov idxs l i es :
  collect prov idxs = Some l -> In (i, es) l -> In i idxs /\ prov i = Found (Some es).
Proof.
  revert l. induction idxs as [|j r IH]; intros l H Hin; cbn in H.
  - injection H as <-. destruct Hin.
  - destruct (prov j) as [| |[es'|]] eqn:E; try discriminate.
    + destruct (collect prov r) as [l'|] eqn:E'; cbn in H; [|discriminate].
      injection H as <-. destruct Hin as [Hin|Hin].
      * injection Hin as -> ->. split; [left; reflexivity | exact E].
      * destruct (IH l' eq_refl Hin) as [H1 H2]. split; [right; exact H1 | exact H2].
    + destruct (IH l H Hin) as [H1 H2]. split; [right; exact H1 | exact H2].
Qed.

Lemma collect_total prov idxs :
  (forall i, In i idxs -> exists o, prov i = Found o) -> exists l, collect prov idxs = Some l.
Proof.
  induction idxs as [|j r IH]; intros H; cbn.
  - eexists; reflexivity.
  - destruct (H j (or_introl eq_refl)) as [o Ho]. rewrite Ho.
    destruct IH as [l Hl]. { intros i Hi. apply H. right. exact Hi. }
    rewrite Hl. destruct o; cbn; eexists; reflexivity.
Qed.

Lemma collect_fault prov i r :
  (prov i = Overflow \/ prov i = EmptyWord) -> collect prov (i :: r) = None.
Proof. intros [H|H]; cbn; rewrite H; reflexivity. Qed.

Lemma pos_edits_In e es : In e (pos_edits es) <-> In (e, true) es.
Proof.
  unfold pos_edits. rewrite in_map_iff. split.
  - intros ([e' b] & E & Hin). cbn in E. subst e'. apply filter_In in Hin as [Hin Hb]. cbn in Hb. subst b. exact Hin.
  - intros H. exists (e, true). split; [reflexivity|]. apply filter_In. split; [exact H | reflexivity].
Qed.

(** * Index sets *)
Lemma ins_idxs_In w ex i :
  In i (ins_idxs w ex) <-> i <= length w /\ ~ In i ex /\ (0 < i -> ~ In (i - 1) ex).
Proof.
  unfold ins_idxs. rewrite filter_In, in_seq, negb_true_iff, orb_false_iff, andb_false_iff, !mem_false.
  rewrite Nat.ltb_ge. split.
  - intros [H1 [H2 H3]]. split; [lia|]. split; [exact H2|]. intros H0. destruct H3 as [H3|H3]; [lia | exact H3].
  - intros [H1 [H2 H3]]. split; [lia|]. split; [exact H2|].
    destruct i as [|i']; [left; lia | right; apply H3; lia].
Qed.

Lemma rep_idxs_In w ex i : In i (rep_idxs w ex) <-> i < length w /\ ~ In i ex.
Proof.
  unfold rep_idxs. rewrite filter_In, in_seq, negb_true_iff, mem_false. split; intros [H1 H2]; split; try lia; assumption.
Qed.

Lemma del_idxs_In fd cd w ex i : In i (del_idxs fd cd w ex) -> i < length w /\ ~ In i ex.
Proof.
  unfold del_idxs. rewrite filter_In, in_seq, andb_true_iff, negb_true_iff, mem_false.
  intros [H1 [H2 _]]. split; [lia | exact H2].
Qed.

Lemma swap_idxs_In cs w ex i :
  In i (swap_idxs cs w ex) -> i < length w - 1 /\ ~ In i ex /\ ~ In (S i) ex.
Proof.
  unfold swap_idxs. rewrite filter_In, in_seq, andb_true_iff, negb_true_iff, orb_false_iff, !mem_false.
  intros [H1 [[H2 H3] _]]. split; [lia|]. split; assumption.
Qed.

(** * Providers *)
Lemma ins_ctx_found t w i : exists o, ins_ctx t w i = Found o.
Proof. unfold ins_ctx. eexists; reflexivity. Qed.

Lemma rep_ctx_found t w i : w <> [] -> exists o, rep_ctx t w i = Found o.
Proof.
  intros Hw. unfold rep_ctx.
  destruct (nth_error w (Nat.min i (Nat.pred (length w)))) as [s|] eqn:E; [eexists; reflexivity|].
  exfalso. apply nth_error_None in E. destruct w as [|c w']; [congruence|]. cbn in E. lia.
Qed.

Lemma ins_ctx_at t w i : i <= length w ->
  ins_ctx t w i = Found (ins_lookup t (prev_ctx w i) (get_or w i eow)).
Proof. intros H. unfold ins_ctx. rewrite Nat.min_l by exact H. reflexivity. Qed.

Lemma rep_ctx_at t w i s : nth_error w i = Some s ->
  rep_ctx t w i = Found (rep_lookup t (prev_ctx w i) s (get_or w (S i) eow)).
Proof.
  intros H. unfold rep_ctx.
  assert (Hi : i < length w) by (apply nth_error_Some; congruence).
  rewrite Nat.min_l by lia. rewrite H. reflexivity.
Qed.

Lemma ctx_total_l t r w i :
  ins_ctx t w i <> Overflow /\ ins_ctx t w i <> EmptyWord /\
  rep_ctx r w i <> Overflow /\ (w <> [] -> rep_ctx r w i <> EmptyWord).
Proof.
  split; [unfold ins_ctx; discriminate|]. split; [unfold ins_ctx; discriminate|]. split.
  - unfold rep_ctx. destruct (nth_error w _); discriminate.
  - intros Hw. destruct (rep_ctx_found r w i Hw) as [o Ho]. rewrite Ho. discriminate.
Qed.

Lemma ctx_pinned_overflow_l t r w :
  ins_ctx_pinned t w 0 = Overflow /\ rep_ctx_pinned r w 0 = Overflow.
Proof. split; reflexivity. Qed.

(** away from index 0 the pinned arithmetic and the repaired one coincide *)
Lemma ins_ctx_pinned_eq t w i : 0 < i -> w <> [] -> ins_ctx_pinned t w i = ins_ctx t w i.
Proof.
  intros Hi Hw. unfold ins_ctx_pinned, ins_ctx.
  destruct (Nat.min i (length w)) as [|j] eqn:E.
  - destruct w; [congruence|]. cbn in E. lia.
  - reflexivity.
Qed.

Lemma rep_ctx_pinned_eq t w i : 0 < i -> 1 < length w -> rep_ctx_pinned t w i = rep_ctx t w i.
Proof.
  intros Hi Hw. unfold rep_ctx_pinned, rep_ctx.
  destruct (Nat.min i (Nat.pred (length w))) as [|j] eqn:E; [lia|]. reflexivity.
Qed.

(** * Soundness of the choice set *)
Lemma ins_choices_cases prov w ex l :
  ins_choices prov w ex = Some l ->
  exists cands, collect prov (ins_idxs w ex) = Some cands /\
    (l = [ESame] \/ l = flat_map (fun c => map (EIns (fst c)) (pos_edits (snd c))) cands).
Proof.
  unfold ins_choices. destruct (collect prov (ins_idxs w ex)) as [cands|]; [|discriminate].
  destruct cands as [|c0 cands']; intros H; injection H as <-.
  - exists []. split; [reflexivity | left; reflexivity].
  - exists (c0 :: cands'). split; [reflexivity | right; reflexivity].
Qed.

Lemma rep_choices_cases prov w ex l :
  rep_choices prov w ex = Some l ->
  exists cands, collect prov (rep_idxs w ex) = Some cands /\
    (l = [ESame] \/ l = flat_map (fun c => map (ERep (fst c)) (pos_edits (snd c))) cands).
Proof.
  unfold rep_choices. destruct (collect prov (rep_idxs w ex)) as [cands|]; [|discriminate].
  destruct cands as [|c0 cands']; intros H; injection H as <-.
  - exists []. split; [reflexivity | left; reflexivity].
  - exists (c0 :: cands'). split; [reflexivity | right; reflexivity].
Qed.

Lemma ins_choices_valid c w ex l k :
  k_ins c = true -> ins_choices (ins_ctx (itab c) w) w ex = Some l -> In k l -> valid_ed c w ex k.
Proof.
  intros Hk H Hin. apply ins_choices_cases in H as (cands & E & [->| ->]).
  - destruct Hin as [<-|[]]. exact Logic.I.
  - apply in_flat_map in Hin as ([i es] & Hc & Hk').
    cbn [fst snd] in Hk'. apply in_map_iff in Hk' as (e & <- & He).
    apply pos_edits_In in He.
    destruct (collect_In _ _ _ _ _ E Hc) as [Hi Hp].
    apply ins_idxs_In in Hi as (Hi1 & Hi2 & Hi3).
    rewrite ins_ctx_at in Hp by exact Hi1. injection Hp as Hp.
    cbn. repeat split; try assumption. exists es. split; assumption.
Qed.

Lemma rep_choices_valid c w ex l k :
  k_rep c = true -> rep_choices (rep_ctx (rtab c) w) w ex = Some l -> In k l -> valid_ed c w ex k.
Proof.
  intros Hk H Hin. apply rep_choices_cases in H as (cands & E & [->| ->]).
  - destruct Hin as [<-|[]]. exact Logic.I.
  - apply in_flat_map in Hin as ([i es] & Hc & Hk').
    cbn [fst snd] in Hk'. apply in_map_iff in Hk' as (e & <- & He).
    apply pos_edits_In in He.
    destruct (collect_In _ _ _ _ _ E Hc) as [Hi Hp].
    apply rep_idxs_In in Hi as (Hi1 & Hi2).
    destruct (nth_error w i) as [s|] eqn:Es; [|apply nth_error_None in Es; lia].
    rewrite (rep_ctx_at _ _ _ _ Es) in Hp. injection Hp as Hp.
    cbn. repeat split; try assumption. exists s, es. repeat split; assumption.
Qed.

Lemma del_choices_valid c cd w ex k :
  k_del c = true -> In k (del_choices (full_del c) cd w ex) -> valid_ed c w ex k.
Proof.
  intros Hk Hin. unfold del_choices in Hin.
  destruct (del_idxs (full_del c) cd w ex) as [|i0 r] eqn:E.
  - destruct Hin as [<-|[]]. exact Logic.I.
  - rewrite <- E in Hin. apply in_map_iff in Hin as (i & <- & Hi).
    apply del_idxs_In in Hi as [H1 H2]. cbn. repeat split; assumption.
Qed.

Lemma swap_choices_valid c cs w ex k :
  k_swap c = true -> In k (swap_choices cs w ex) -> valid_ed c w ex k.
Proof.
  intros Hk Hin. unfold swap_choices in Hin.
  destruct (1 <? length w) eqn:El; [|destruct Hin as [<-|[]]; exact Logic.I].
  destruct (swap_idxs cs w ex) as [|i0 r] eqn:E.
  - destruct Hin as [<-|[]]. exact Logic.I.
  - rewrite <- E in Hin. apply in_map_iff in Hin as (i & <- & Hi).
    apply swap_idxs_In in Hi as (H1 & H2 & H3). cbn. repeat split; try assumption. lia.
Qed.

Lemma opt_app_Some {A} (a b : option (list A)) l :
  opt_app a b = Some l -> exists x y, a = Some x /\ b = Some y /\ l = x ++ y.
Proof.
  destruct a as [x|], b as [y|]; cbn; intros H; try discriminate.
  injection H as <-. exists x, y. repeat split.
Qed.

Lemma choices_valid c cd cs w ex l k :
  choices c cd cs w ex = Some l -> In k l -> valid_ed c w ex k.
Proof.
  unfold choices, choices_gen. intros H Hin.
  destruct (negb (k_ins c || k_del c || k_rep c || k_swap c)).
  { injection H as <-. destruct Hin as [<-|[]]. exact Logic.I. }
  apply opt_app_Some in H as (l1 & r1 & H1 & H & ->).
  apply opt_app_Some in H as (l2 & r2 & H2 & H & ->).
  apply opt_app_Some in H as (l3 & l4 & H3 & H4 & ->).
  injection H2 as <-. injection H4 as <-.
  rewrite !in_app_iff in Hin. destruct Hin as [Hin|[Hin|[Hin|Hin]]].
  - destruct (k_ins c) eqn:Ek; [|injection H1 as <-; destruct Hin].
    eapply ins_choices_valid; eassumption.
  - destruct (k_del c) eqn:Ek; [|destruct Hin]. eapply del_choices_valid; eassumption.
  - destruct (k_rep c) eqn:Ek; [|injection H3 as <-; destruct Hin].
    eapply rep_choices_valid; eassumption.
  - destruct (k_swap c) eqn:Ek; [|destruct Hin]. eapply swap_choices_valid; eassumption.
Qed.

(** * Totality of the repaired code, fault of the pinned code *)
Lemma ins_choices_total t w ex : exists l, ins_choices (ins_ctx t w) w ex = Some l.
Proof.
  unfold ins_choices.
  destruct (collect_total (ins_ctx t w) (ins_idxs w ex)) as [l Hl].
  { intros i _. apply ins_ctx_found. }
  rewrite Hl. destruct l; eexists; reflexivity.
Qed.

Lemma rep_choices_total t w ex : exists l, rep_choices (rep_ctx t w) w ex = Some l.
Proof.
  unfold rep_choices.
  destruct (collect_total (rep_ctx t w) (rep_idxs w ex)) as [l Hl].
  { intros i Hi. apply rep_ctx_found. apply rep_idxs_In in Hi as [Hi _]. destruct w; [cbn in Hi; lia | discriminate]. }
  rewrite Hl. destruct l; eexists; reflexivity.
Qed.

Lemma choices_total_l c cd cs w ex : exists l, choices c cd cs w ex = Some l.
Proof.
  unfold choices, choices_gen.
  destruct (negb (k_ins c || k_del c || k_rep c || k_swap c)); [eexists; reflexivity|].
  destruct (ins_choices_total (itab c) w ex) as [l1 H1].
  destruct (rep_choices_total (rtab c) w ex) as [l3 H3].
  rewrite H1, H3. destruct (k_ins c), (k_rep c); cbn; eexists; reflexivity.
Qed.

Lemma outcomes_total_l c cd cs w ex : exists l, outcomes c cd cs w ex = Some l.
Proof.
  unfold outcomes. destruct (choices_total_l c cd cs w ex) as [l Hl]. rewrite Hl. eexists; reflexivity.
Qed.

Lemma ins_idxs_head w ex : ~ In 0 ex -> exists r, ins_idxs w ex = 0 :: r.
Proof.
  intros H. unfold ins_idxs. cbn [seq filter].
  apply mem_false in H. rewrite H. cbn. eexists; reflexivity.
Qed.

Lemma rep_idxs_head w ex : w <> [] -> ~ In 0 ex -> exists r, rep_idxs w ex = 0 :: r.
Proof.
  intros Hw H. unfold rep_idxs. destruct w as [|c w']; [congruence|]. cbn [length seq filter].
  apply mem_false in H. rewrite H. cbn. eexists; reflexivity.
Qed.

Lemma opt_app_None_l {A} (b : option (list A)) : opt_app None b = None.
Proof. reflexivity. Qed.
Lemma opt_app_None_r {A} (a : option (list A)) : opt_app a None = None.
Proof. destruct a; reflexivity. Qed.

(** the pinned code: a call with insert enabled and position 0 not excluded can
    hit the overflow; likewise with replace enabled on a non-empty word *)
Lemma choices_pinned_fault_l c cd cs w ex :
  ~ In 0 ex -> (k_ins c = true \/ (k_rep c = true /\ w <> [])) -> choices_pinned c cd cs w ex = None.
Proof.
  intros H0 Hk. unfold choices_pinned, choices_gen.
  destruct Hk as [Hk|[Hk Hw]].
  - rewrite Hk. cbn [orb negb].
    destruct (ins_idxs_head w ex H0) as [r Hr]. unfold ins_choices. rewrite Hr.
    rewrite collect_fault by (left; reflexivity). reflexivity.
  - rewrite Hk. rewrite !orb_true_r. cbn [orb negb].
    destruct (rep_idxs_head w ex Hw H0) as [r Hr]. unfold rep_choices at 1. rewrite Hr.
    rewrite collect_fault by (left; reflexivity).
    rewrite opt_app_None_l, !opt_app_None_r. reflexivity.
Qed.

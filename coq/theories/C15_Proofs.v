From TU Require Import Base C15_Model.
From Coq Require Import Lia.

Lemma ins_ctx_total t w i : ins_ctx t w i <> Overflow.
Proof. unfold ins_ctx. discriminate. Qed.

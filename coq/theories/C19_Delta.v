(** C19 proofs, part 4: the incremental pair statistics ([update_stats]) equal a
    recount of the new vocabulary — per changed word and for the whole corpus. *)
From TU Require Import Base C19_Model C19_Proofs.
From Coq Require Import Lia.
Open Scope N_scope.
Arguments N.add : simpl never.
Arguments N.sub : simpl never.
Arguments N.mul : simpl never.
Arguments N.ltb : simpl never.

Lemma count_pair_app : forall q l1 l2, count_pair q (l1 ++ l2) = count_pair q l1 + count_pair q l2.
Proof. intros q l1 l2; induction l1 as [|a l IH]; cbn [app count_pair]; [lia | rewrite IH; lia]. Qed.

Lemma word_pairs_cons2 : forall a b r, word_pairs (a :: b :: r) = (a, b) :: word_pairs (b :: r).
Proof. reflexivity. Qed.

(** old pairs of a suffix including the pair formed with the token in front of it *)
Definition opairs (prev : option token) (s : word) : list pair :=
  match prev with Some z => word_pairs (z :: s) | None => word_pairs s end.
Lemma opairs_cons : forall prev a t, opairs prev (a :: t) = bpair prev a ++ word_pairs (a :: t).
Proof. intros [z|] a t; reflexivity. Qed.
Lemma opairs_nil : forall prev, opairs prev [] = [].
Proof. intros [z|]; reflexivity. Qed.

Lemma merge_ne_fst : forall p : pair, snd p <> [] -> merge p <> fst p.
Proof.
  intros [x y] Hy H. unfold merge in H. cbn [fst snd] in *. apply Hy.
  apply (app_inv_head x). now rewrite app_nil_r.
Qed.
Lemma merge_ne_snd : forall p : pair, fst p <> [] -> merge p <> snd p.
Proof.
  intros [x y] Hx H. unfold merge in H. cbn [fst snd] in *. apply Hx.
  assert (Hl : length (x ++ y) = length y) by now rewrite H. rewrite app_length in Hl.
  destruct x; [reflexivity | cbn [length] in Hl; lia].
Qed.

Lemma tok_eqb_neq : forall a b, a <> b -> tok_eqb a b = false.
Proof. intros a b H. unfold tok_eqb. destruct (nlist_eqb a b) eqn:E; [|reflexivity]. apply nlist_eqb_eq in E. congruence. Qed.
Lemma tok_eqb_refl : forall a, tok_eqb a a = true.
Proof. intros a. apply nlist_eqb_refl. Qed.

(** * how [replace_in_word] proceeds at a match / at a non-match *)
Lemma N_match : forall (p : pair) a b r, snd p <> [] -> tok_eqb a (fst p) && tok_eqb b (snd p) = true ->
  replace_in_word p (a :: b :: r) = merge p :: replace_in_word p r.
Proof.
  intros p a b r Hy E. cbn [replace_in_word replace_aux]. rewrite E.
  apply andb_true_iff in E as [E1 E2]. apply nlist_eqb_eq in E1, E2. subst a b. fold (merge p).
  destruct r as [|c r']; cbn [replace_aux replace_in_word]; [reflexivity|].
  rewrite (tok_eqb_neq _ _ (merge_ne_fst p Hy)). reflexivity.
Qed.
Lemma N_nomatch : forall (p : pair) a t, starts_match p (a :: t) = false ->
  replace_in_word p (a :: t) = a :: replace_in_word p t.
Proof.
  intros p a t E. destruct t as [|b r]; cbn [replace_in_word replace_aux]; [reflexivity|].
  cbn [starts_match] in E. now rewrite E.
Qed.

Definition kp (p q : pair) (k : N) : N := if pair_eqb q p then k else 0.

(** * the decomposition: old pairs = matches + decremented + untouched,
      new pairs = incremented + untouched, and no untouched pair is the merged pair *)
Lemma scan_decomp : forall p : pair, fst p <> [] -> snd p <> [] -> forall n s, (length s <= n)%nat ->
  (forall t, In t s -> t <> merge p) ->
  (forall prev, (forall z, prev = Some z -> z <> merge p /\ starts_match p (z :: s) = false) ->
     exists (R : pair -> N) (k : N),
       (forall q, count_pair q (opairs prev s) = kp p q k + count_pair q (old_scan p prev s) + R q) /\
       (forall q, count_pair q (opairs prev (replace_in_word p s)) =
                  count_pair q (new_scan (merge p) prev (replace_in_word p s)) + R q) /\
       R p = 0) /\
  (forall b,
     exists (R : pair -> N) (k : N),
       (forall q, count_pair q (word_pairs (b :: s)) =
                  kp p q k + count_pair q (next_old p b s ++ old_scan p (Some b) s) + R q) /\
       (forall q, count_pair q (word_pairs (merge p :: replace_in_word p s)) =
                  count_pair q (next_new (merge p) (merge p) (replace_in_word p s)
                                ++ new_scan (merge p) (Some (merge p)) (replace_in_word p s)) + R q) /\
       R p = 0).
Proof.
  intros p Hx Hy. set (m := merge p).
  induction n as [|n IH]; intros s Hlen Hm.
  - destruct s; [|cbn [length] in Hlen; lia]. split.
    + intros prev _. exists (fun _ => 0), 0. cbn [replace_in_word old_scan new_scan]. rewrite opairs_nil.
      unfold kp. repeat split; intros; cbn [count_pair]; destruct (pair_eqb _ _); lia.
    + intros b. exists (fun _ => 0), 0. cbn [replace_in_word old_scan new_scan next_old next_new word_pairs app].
      unfold kp. repeat split; intros; cbn [count_pair]; destruct (pair_eqb _ _); lia.
  - destruct s as [|a t].
    { apply IH; [cbn [length]; lia | exact Hm]. }
    assert (Ham : a <> m) by (apply Hm; now left).
    assert (Hmt : forall x, In x t -> x <> m) by (intros x Hx'; apply Hm; now right).
    destruct (starts_match p (a :: t)) eqn:Esm.
    + (* a match starts at [a] *)
      destruct t as [|b r]; [discriminate Esm|]. cbn [starts_match] in Esm.
      assert (Hmr : forall x, In x r -> x <> m) by (intros x Hx'; apply Hmt; now right).
      assert (Hlr : (length r <= n)%nat) by (cbn [length] in Hlen; lia).
      destruct (IH r Hlr Hmr) as [_ IHM]. destruct (IHM b) as (R & k & H1 & H2 & H3).
      pose proof Esm as Eab. apply andb_true_iff in Eab as [Ea Eb]. apply nlist_eqb_eq in Ea, Eb.
      assert (Hp : (a, b) = p) by (destruct p; cbn [fst snd] in *; now subst).
      rewrite (N_match p a b r Hy Esm). fold m.
      assert (Common : forall prevO prevN, exists (R' : pair -> N) (k' : N),
        (forall q, count_pair q (opairs prevO (a :: b :: r)) = kp p q k' + count_pair q (old_scan p prevO (a :: b :: r)) + R' q) /\
        (forall q, count_pair q (opairs prevN (m :: replace_in_word p r)) =
                   count_pair q (new_scan m prevN (m :: replace_in_word p r)) + R' q) /\ R' p = 0).
      { intros prevO prevN. exists R, (k + 1). split; [|split; [|exact H3]].
        - intros q. rewrite opairs_cons, word_pairs_cons2. cbn [old_scan]. rewrite Esm.
          rewrite !count_pair_app. cbn [count_pair]. rewrite (H1 q), !count_pair_app. rewrite Hp.
          unfold kp. destruct (pair_eqb q p); lia.
        - intros q. rewrite opairs_cons. cbn [new_scan]. rewrite tok_eqb_refl.
          rewrite !count_pair_app. rewrite (H2 q), !count_pair_app. lia. }
      split.
      * intros prev _. apply Common.
      * intros b0. destruct (Common (Some b0) (Some m)) as (R' & k' & C1 & C2 & C3). exists R', k'.
        split; [|split; [|exact C3]].
        -- intros q. specialize (C1 q). cbn [opairs] in C1. rewrite C1.
           unfold next_old. cbn [starts_match]. rewrite Esm. cbn [app]. reflexivity.
        -- intros q. specialize (C2 q). cbn [opairs] in C2. rewrite C2.
           unfold next_new. rewrite tok_eqb_refl. cbn [app]. reflexivity.
    + (* no match at [a] *)
      assert (Hlt : (length t <= n)%nat) by (cbn [length] in Hlen; lia).
      destruct (IH t Hlt Hmt) as [IHP _].
      destruct (IHP (Some a)) as (R & k & H1 & H2 & H3).
      { intros z Hz. injection Hz as <-. split; assumption. }
      rewrite (N_nomatch p a t Esm).
      assert (Hos : forall prev, old_scan p prev (a :: t) = old_scan p (Some a) t).
      { intros prev. destruct t as [|b r]; [reflexivity|]. cbn [old_scan]. cbn [starts_match] in Esm. now rewrite Esm. }
      assert (Hns : forall prev, new_scan m prev (a :: replace_in_word p t) = new_scan m (Some a) (replace_in_word p t)).
      { intros prev. cbn [new_scan]. now rewrite (tok_eqb_neq _ _ Ham). }
      cbn [opairs] in H1, H2.
      split.
      * intros prev Hprev.
        exists (fun q => count_pair q (bpair prev a) + R q), k. split; [|split].
        -- intros q. rewrite opairs_cons, count_pair_app, (H1 q), Hos. lia.
        -- intros q. rewrite opairs_cons, count_pair_app, (H2 q), Hns. lia.
        -- rewrite H3. destruct prev as [z|]; cbn [bpair count_pair]; [|lia].
           destruct (pair_eqb p (z, a)) eqn:E; [|lia]. apply pair_eqb_eq in E.
           destruct (Hprev z eq_refl) as [_ Hsm]. cbn [starts_match] in Hsm.
           subst p. cbn [fst snd] in Hsm. now rewrite !tok_eqb_refl in Hsm.
      * intros b0. exists R, k. split; [|split; [|exact H3]].
        -- intros q. unfold next_old. rewrite Esm. rewrite word_pairs_cons2. cbn [count_pair].
           rewrite count_pair_app. cbn [count_pair]. rewrite (H1 q), Hos. lia.
        -- intros q. unfold next_new. rewrite (tok_eqb_neq _ _ Ham). rewrite word_pairs_cons2. cbn [count_pair].
           rewrite count_pair_app. cbn [count_pair]. rewrite (H2 q), Hns. lia.
Qed.

(** * consequences for one word *)
Lemma new_scan_has_m : forall m q s prev, In q (new_scan m prev s) -> fst q = m \/ snd q = m.
Proof.
  intros m q s; induction s as [|a t IH]; intros prev H; cbn [new_scan] in H; [destruct H|].
  destruct (tok_eqb a m) eqn:E.
  - apply nlist_eqb_eq in E. subst a. apply in_app_or in H as [H|H].
    + destruct prev as [z|]; cbn [bpair In] in H; [|destruct H]. destruct H as [<-|[]]. now right.
    + apply in_app_or in H as [H|H]; [|eapply IH; exact H].
      unfold next_new in H. destruct t as [|b t']; [destruct H|]. destruct (tok_eqb b m); [destruct H|].
      destruct H as [<-|[]]. now left.
  - eapply IH; exact H.
Qed.

Lemma count_pair_notin : forall q l, ~ In q l -> count_pair q l = 0.
Proof.
  intros q l H. destruct (N.eq_dec (count_pair q l) 0) as [E|E]; [exact E|].
  exfalso. apply H. apply count_pair_pos_in. lia.
Qed.

Lemma new_scan_no_p : forall (p : pair) s prev, fst p <> [] -> snd p <> [] ->
  count_pair p (new_scan (merge p) prev s) = 0.
Proof.
  intros p s prev Hx Hy. apply count_pair_notin. intros H. apply new_scan_has_m in H as [H|H].
  - symmetry in H. now apply (merge_ne_fst p Hy).
  - symmetry in H. now apply (merge_ne_snd p Hx).
Qed.

(** the per-word delta lemma *)
Lemma word_delta_l : forall (p : pair) w, fst p <> [] -> snd p <> [] -> ~ In (merge p) w ->
  exists R : pair -> N,
    (forall q, q <> p -> count_pair q (word_pairs w) = count_pair q (old_scan p None w) + R q) /\
    (forall q, q <> p -> count_pair q (word_pairs (replace_in_word p w)) =
                         count_pair q (new_scan (merge p) None (replace_in_word p w)) + R q) /\
    count_pair p (word_pairs (replace_in_word p w)) = 0.
Proof.
  intros p w Hx Hy Hm.
  destruct (scan_decomp p Hx Hy (length w) w (le_n _)) as [HP _].
  { intros t Ht E. subst t. exact (Hm Ht). }
  destruct (HP None) as (R & k & H1 & H2 & H3); [intros z Hz; discriminate|].
  cbn [opairs] in H1, H2. exists R. split; [|split].
  - intros q Hq. rewrite (H1 q). unfold kp. destruct (pair_eqb q p) eqn:E; [|lia].
    apply pair_eqb_eq in E. congruence.
  - intros q Hq. apply H2.
  - rewrite (H2 p), H3, new_scan_no_p by assumption. lia.
Qed.

(** * the update as arithmetic on frequency functions *)
Lemma pair_eqb_sym : forall a b, pair_eqb a b = pair_eqb b a.
Proof.
  intros a b. destruct (pair_eqb a b) eqn:E1, (pair_eqb b a) eqn:E2; try reflexivity.
  - apply pair_eqb_eq in E1. subst. now rewrite pair_eqb_refl in E2.
  - apply pair_eqb_eq in E2. subst. now rewrite pair_eqb_refl in E1.
Qed.

Lemma sub_all_spec : forall l k F q, sub_all l k F q = F q - k * count_pair q l.
Proof.
  induction l as [|a l IH]; intros k F q; unfold sub_all in *; cbn [fold_left count_pair]; [lia|].
  rewrite IH. unfold fupd. destruct (pair_eqb q a) eqn:E.
  - apply pair_eqb_eq in E. subst a. lia.
  - lia.
Qed.
Lemma add_all_spec : forall l k F q, add_all l k F q = F q + k * count_pair q l.
Proof.
  induction l as [|a l IH]; intros k F q; unfold add_all in *; cbn [fold_left count_pair]; [lia|].
  rewrite IH. unfold fupd. destruct (pair_eqb q a) eqn:E.
  - apply pair_eqb_eq in E. subst a. lia.
  - lia.
Qed.

(** one changed word: if the statistics hold at least this word's contribution,
    the update replaces the old contribution by the new one (no saturation) *)
Lemma upd_word_spec : forall (p : pair) w k F, fst p <> [] -> snd p <> [] -> ~ In (merge p) w -> F p = 0 ->
  forall q,
    (q <> p -> k * count_pair q (word_pairs w) <= F q ->
       upd_word p w k F q = F q - k * count_pair q (word_pairs w) + k * count_pair q (word_pairs (replace_in_word p w))) /\
    upd_word p w k F p = 0.
Proof.
  intros p w k F Hx Hy Hm HFp q. destruct (word_delta_l p w Hx Hy Hm) as (R & H1 & H2 & H3).
  unfold upd_word. split.
  - intros Hq Hle. rewrite add_all_spec, sub_all_spec, (H1 q Hq), (H2 q Hq).
    rewrite (H1 q Hq) in Hle. lia.
  - rewrite add_all_spec, sub_all_spec, HFp, new_scan_no_p by assumption. lia.
Qed.

(** a word without the pair is not changed by the replacement *)
Lemma replace_id : forall (p : pair) w, count_pair p (word_pairs w) = 0 -> replace_in_word p w = w.
Proof.
  intros p w; induction w as [|a t IH]; intros H; [reflexivity|].
  assert (Esm : starts_match p (a :: t) = false).
  { destruct t as [|b r]; [reflexivity|]. cbn [starts_match]. rewrite word_pairs_cons2 in H. cbn [count_pair] in H.
    destruct (pair_eqb p (a, b)) eqn:E; [lia|].
    destruct (tok_eqb a (fst p) && tok_eqb b (snd p)) eqn:E2; [|reflexivity].
    apply andb_true_iff in E2 as [Ea Eb]. apply nlist_eqb_eq in Ea, Eb. subst a b.
    destruct p; cbn [fst snd] in E. now rewrite pair_eqb_refl in E. }
  rewrite (N_nomatch p a t Esm). f_equal. apply IH.
  destruct t as [|b r]; [reflexivity|]. rewrite word_pairs_cons2 in H. cbn [count_pair] in H. lia.
Qed.

Lemma upd_vocab_apply : forall c p, upd_vocab c p = apply_pair c p.
Proof.
  intros c p. unfold upd_vocab, apply_pair. apply map_ext. intros [w k]; cbn [fst snd].
  destruct (0 <? count_pair p (word_pairs w)) eqn:E; [reflexivity|].
  apply N.ltb_ge in E. rewrite replace_id; [reflexivity | lia].
Qed.

(** * the whole vocabulary *)
Lemma upd_fold_spec : forall (p : pair), fst p <> [] -> snd p <> [] ->
  forall c (F A : fstats), (forall w k, In (w, k) c -> ~ In (merge p) w) ->
  F p = 0 -> (forall q, q <> p -> F q = A q + pair_freq c q) ->
  let F' := fold_left (fun F wk => if 0 <? count_pair p (word_pairs (fst wk)) then upd_word p (fst wk) (snd wk) F else F) c F in
  F' p = 0 /\ (forall q, q <> p -> F' q = A q + pair_freq (apply_pair c p) q) /\ pair_freq (apply_pair c p) p = 0.
Proof.
  intros p Hx Hy c; induction c as [|[w k] r IH]; intros F A Hm HFp HF; cbn zeta; cbn [fold_left apply_pair map pair_freq fst snd].
  - split; [exact HFp|]. split; [|reflexivity]. intros q Hq. rewrite (HF q Hq). cbn [pair_freq]. lia.
  - assert (Hmw : ~ In (merge p) w) by (apply (Hm w k); now left).
    assert (Hmr : forall w0 k0, In (w0, k0) r -> ~ In (merge p) w0) by (intros w0 k0 H0; apply (Hm w0 k0); now right).
    destruct (word_delta_l p w Hx Hy Hmw) as (_ & _ & _ & Hnp).
    set (G := if 0 <? count_pair p (word_pairs w) then upd_word p w k F else F).
    assert (HG : G p = 0 /\ forall q, q <> p ->
              G q = (A q + k * count_pair q (word_pairs (replace_in_word p w))) + pair_freq r q).
    { unfold G. destruct (0 <? count_pair p (word_pairs w)) eqn:E.
      - split; [apply (upd_word_spec p w k F Hx Hy Hmw HFp p)|].
        intros q Hq. destruct (upd_word_spec p w k F Hx Hy Hmw HFp q) as [Hu _].
        rewrite Hu; [|exact Hq|]; rewrite (HF q Hq); cbn [pair_freq]; lia.
      - apply N.ltb_ge in E. split; [exact HFp|]. intros q Hq. rewrite replace_id by lia.
        rewrite (HF q Hq). cbn [pair_freq]. lia. }
    destruct HG as [HG1 HG2].
    destruct (IH G (fun q => A q + k * count_pair q (word_pairs (replace_in_word p w))) Hmr HG1 HG2) as (I1 & I2 & I3).
    cbn zeta in I1, I2. split; [exact I1|]. split.
    + intros q Hq. rewrite (I2 q Hq). unfold apply_pair. lia.
    + unfold apply_pair in I3. rewrite Hnp, I3. lia.
Qed.

(** [update_stats] applied to recounted statistics yields the recount of the new
    vocabulary, and [replace_pair] yields that vocabulary *)
Lemma update_recount_l : forall c p, Fresh c p ->
  (forall q, upd_freq c p (pair_freq c) q = pair_freq (apply_pair c p) q) /\ upd_vocab c p = apply_pair c p.
Proof.
  intros c p (Hx & Hy & Hm). split; [|apply upd_vocab_apply].
  pose proof (upd_fold_spec p Hx Hy c (fupd (pair_freq c) p 0) (fun _ => 0) Hm) as H.
  cbn zeta in H. destruct H as (H1 & H2 & H3).
  - unfold fupd. now rewrite pair_eqb_refl.
  - intros q Hq. unfold fupd. destruct (pair_eqb q p) eqn:E; [apply pair_eqb_eq in E; congruence | lia].
  - intros q. unfold upd_freq. destruct (pair_eqb q p) eqn:E.
    + apply pair_eqb_eq in E. subst q. now rewrite H1, H3.
    + rewrite H2; [lia|]. intros ->. now rewrite pair_eqb_refl in E.
Qed.

(** * freshness follows from distinct spellings *)
Lemma state_ok : forall ps tbl c, CorpusOK tbl c -> CorpusOK (tbl ++ map merge ps) (state_after c ps).
Proof.
  induction ps as [|p ps IH]; intros tbl c H; cbn [map state_after fold_left].
  - now rewrite app_nil_r.
  - fold (state_after (apply_pair c p) ps). replace (tbl ++ merge p :: map merge ps) with ((tbl ++ [merge p]) ++ map merge ps)
      by (rewrite <- app_assoc; reflexivity).
    apply IH. now apply apply_pair_ok.
Qed.

Lemma nodup_nth_firstn : forall (l : list token) i m, NoDup l -> nth_error l i = Some m -> ~ In m (firstn i l).
Proof.
  induction l as [|a l IH]; intros i m Hnd Hn; destruct i as [|i]; cbn [nth_error firstn] in *; try discriminate.
  - intros [].
  - inversion Hnd as [|? ? Ha Hl]; subst. intros [->|Hin].
    + apply Ha. eapply nth_error_In; eassumption.
    + eapply IH; eassumption.
Qed.

Lemma run_fresh_l : forall c k ps, CorpusOK [] c -> Run c k ps -> NoDup (map merge ps) ->
  forall i p, nth_error ps i = Some p -> Fresh (state_after c (firstn i ps)) p.
Proof.
  intros c k ps Hc Hr Hnd i p Hn.
  destruct (run_table_wf_gen _ _ _ Hr [] Hc i p Hn) as [[Hx _] [Hy _]].
  split; [exact Hx|]. split; [exact Hy|].
  intros w kk Hin Hm. pose proof (state_ok (firstn i ps) [] c Hc) as Hok. cbn [app] in Hok.
  specialize (Hok _ _ Hin). rewrite Forall_forall in Hok. destruct (Hok _ Hm) as [_ [[b Hb]|Hin']].
  - unfold merge in Hb. destruct (fst p) as [|? [|]]; destruct (snd p); cbn in Hb; congruence.
  - rewrite <- firstn_map in Hin'. revert Hin'. apply nodup_nth_firstn; [exact Hnd|].
    now apply map_nth_error.
Qed.

(** per-word occurrence counts ([BytePairInfo::words]) are the same update with weight 1 *)
Lemma update_delta_l : forall (p : pair) w, fst p <> [] -> snd p <> [] -> ~ In (merge p) w ->
  forall q, upd_word p w 1 (fupd (fun x => count_pair x (word_pairs w)) p 0) q
            = count_pair q (word_pairs (replace_in_word p w)).
Proof.
  intros p w Hx Hy Hm q.
  set (F := fupd (fun x => count_pair x (word_pairs w)) p 0).
  assert (HFp : F p = 0) by (unfold F, fupd; now rewrite pair_eqb_refl).
  destruct (upd_word_spec p w 1 F Hx Hy Hm HFp q) as [H1 H2].
  destruct (pair_eqb q p) eqn:E.
  - apply pair_eqb_eq in E. subst q. rewrite H2. destruct (word_delta_l p w Hx Hy Hm) as (_ & _ & _ & H3). now rewrite H3.
  - assert (Hq : q <> p) by (intros ->; now rewrite pair_eqb_refl in E).
    assert (HF : F q = count_pair q (word_pairs w)) by (unfold F, fupd; now rewrite E).
    rewrite (H1 Hq); rewrite HF; lia.
Qed.

(** * the incremental trainer refines the recount specification *)
Lemma upd_word_pt : forall p w k F q,
  upd_word p w k F q = F q - k * count_pair q (old_scan p None w)
                       + k * count_pair q (new_scan (merge p) None (replace_in_word p w)).
Proof. intros. unfold upd_word. now rewrite add_all_spec, sub_all_spec. Qed.

Lemma upd_fold_ext : forall p c (F G : fstats), (forall q, F q = G q) -> forall q,
  fold_left (fun F wk => if 0 <? count_pair p (word_pairs (fst wk)) then upd_word p (fst wk) (snd wk) F else F) c F q =
  fold_left (fun F wk => if 0 <? count_pair p (word_pairs (fst wk)) then upd_word p (fst wk) (snd wk) F else F) c G q.
Proof.
  intros p c; induction c as [|[w k] r IH]; intros F G H q; cbn [fold_left fst snd]; [apply H|].
  apply IH. intros x. destruct (0 <? count_pair p (word_pairs w)); [|apply H].
  now rewrite !upd_word_pt, H.
Qed.

Lemma upd_freq_ext : forall c p (F G : fstats), (forall q, F q = G q) -> forall q, upd_freq c p F q = upd_freq c p G q.
Proof.
  intros c p F G H q. unfold upd_freq. apply upd_fold_ext. intros x. unfold fupd. destruct (pair_eqb x p); [reflexivity | apply H].
Qed.

Lemma inc_refines_l : forall c F k ps, IRun c F k ps -> (forall q, F q = pair_freq c q) ->
  forall tbl, CorpusOK tbl c -> NoDup (tbl ++ map merge ps) -> Run c k ps.
Proof.
  intros c F k ps H; induction H as [c F|c F k Hex|c F k p ps Hpos Hmax Hrun IH]; intros HF tbl Hc Hnd.
  - constructor.
  - constructor. intros q. rewrite <- HF. apply Hex.
  - assert (Hok : StepOK c p).
    { split; [apply pair_freq_pos_in; rewrite <- HF; exact Hpos|]. split; [rewrite <- HF; exact Hpos|].
      intros q. rewrite <- !HF. apply Hmax. }
    assert (Hfresh : Fresh c p).
    { destruct Hok as (Hin & _). apply all_pairs_in in Hin as (w & kk & Hw & Hf & Hs).
      pose proof (Hc _ _ Hw) as Hall. rewrite Forall_forall in Hall.
      destruct (Hall _ Hf) as [Hx _]. destruct (Hall _ Hs) as [Hy _].
      split; [exact Hx|]. split; [exact Hy|]. intros w' k' Hw' Hm.
      pose proof (Hc _ _ Hw') as Hall'. rewrite Forall_forall in Hall'. destruct (Hall' _ Hm) as [_ [[b Hb]|Hin']].
      - unfold merge in Hb. destruct (fst p) as [|? [|]]; destruct (snd p); cbn in Hb; congruence.
      - cbn [map] in Hnd. apply NoDup_remove_2 in Hnd. apply Hnd. apply in_or_app. now left. }
    constructor; [exact Hok|].
    destruct (update_recount_l c p Hfresh) as [Hfreq Hvoc]. rewrite Hvoc in *.
    apply (IH) with (tbl := tbl ++ [merge p]).
    + intros q. rewrite <- Hfreq. apply upd_freq_ext. exact HF.
    + now apply apply_pair_ok.
    + rewrite <- app_assoc. exact Hnd.
Qed.

(** C13 on the raw texts, binary64 level: the spelling metric of the float model never yields the
    panic value on [kf3_free] inputs and predictions, and its three results are finite and in [0,1]
    (composition of C13_Raw.sp_collect with C13_FloatProofs.aggregate_fl_range_l). *)
From Coq Require Import ZArith List Bool QArith Reals Lia.
From Flocq Require Import Core IEEE754.BinarySingleNaN.
From TU Require Import Base C13_Model C13_Float C13_F1 C13_FloatProofs C13_Raw.
Import ListNotations.

Lemma spelling_total_fl_n_l beta sa g inputs preds targets :
  forallb (kf3_free g) inputs = true -> forallb (kf3_free g) preds = true ->
  sp_f1_fl beta sa (texts g inputs) (texts g preds) (texts g targets) <> Panic
  /\ if same3 inputs preds targets
     then exists vals,
            sp_f1_fl beta sa (texts g inputs) (texts g preds) (texts g targets) = Ok (aggregate_fl sa beta vals)
            /\ Forall2 (fun x c => match x with (i, p, t) => sp_tp_fp_fn i p t = Some c end)
                       (zip3 (texts g inputs) (texts g preds) (texts g targets)) vals
            /\ (Fin (fmul beta beta) -> totals_ok vals -> (Z.of_nat (length vals) <= 2 ^ 53)%Z ->
                in01f3 (aggregate_fl sa beta vals))
     else sp_f1_fl beta sa (texts g inputs) (texts g preds) (texts g targets) = Err.
Proof.
  intros Hi Hp. pose proof (texts_clean g inputs Hi) as Ci. pose proof (texts_clean g preds Hp) as Cp.
  assert (S : same3 (texts g inputs) (texts g preds) (texts g targets) = same3 inputs preds targets).
  { unfold same3, texts. rewrite !map_length. reflexivity. }
  unfold sp_f1_fl. rewrite S. destruct (same3 inputs preds targets); [|split; [discriminate|reflexivity]].
  destruct (sp_collect (texts g inputs) (texts g preds) (texts g targets) Ci Cp) as (vals & E & F).
  rewrite E. split; [discriminate|]. exists vals. split; [reflexivity|]. split; [exact F|].
  intros Fb Ht Hn. apply aggregate_fl_range_l; assumption.
Qed.

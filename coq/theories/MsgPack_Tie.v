(** MessagePack model: what an accepted correspondence on a file means ([load_agree], [saved_agree]). *)
From TU Require Import Base MsgPack_Model MsgPack_Codec MsgPack_Stream MsgPack_Map.
From Coq Require Import Lia ZifyBool ZifyNat ZifyN Permutation.
Open Scope N_scope.
Arguments N.eqb : simpl never.
Arguments N.ltb : simpl never.

Lemma entries_eqb_eq : forall a b, entries_eqb a b = true -> a = b.
Proof.
  induction a as [|[k v] a IH]; intros [|[k' v'] b]; cbn [entries_eqb]; intros H; try reflexivity; try discriminate.
  apply andb_true_iff in H. destruct H as [H H3]. apply andb_true_iff in H. destruct H as [H1 H2].
  apply nl_eqb_iff in H1. apply N.eqb_eq in H2. rewrite (IH _ H3). congruence.
Qed.
Lemma tbl_eqb_eq : forall a b, tbl_eqb a b = true -> a = b.
Proof.
  induction a as [|x a IH]; intros [|y b]; cbn [tbl_eqb]; intros H; try reflexivity; try discriminate.
  apply andb_true_iff in H. destruct H as [H1 H2]. apply nl_eqb_iff in H1. rewrite (IH _ H2). congruence.
Qed.

Lemma is_byte_list_spec v : is_byte_list v = true -> Forall isbyte (v_list v_n v).
Proof.
  destruct v as [z|l]; [discriminate|]. cbn [is_byte_list v_list]. intros H.
  induction l as [|x l IH]; cbn [map]; [constructor|]. cbn [forallb] in H. apply andb_true_iff in H. destruct H as [H1 H2].
  constructor; [|apply IH; exact H2]. destruct x as [z|?]; [|discriminate]. unfold isbyte, v_n, v_z. lia.
Qed.

Lemma ins_item_perm e : forall l, Permutation (ins_item e l) (e :: l).
Proof.
  induction l as [|x l IH]; cbn [ins_item]; [reflexivity|]. destruct (item_leb e x); [reflexivity|].
  rewrite IH. apply perm_swap.
Qed.
Lemma sort_items_perm : forall l, Permutation (sort_items l) l.
Proof.
  induction l as [|e l IH]; cbn [sort_items fold_right]; [reflexivity|].
  fold (sort_items l). rewrite ins_item_perm. constructor. exact IH.
Qed.

(** [load_agree]: the model read the bytes, and the real loader's map is the model's *)
Theorem load_agree_sound_l fb lv : load_agree fb lv = true ->
  Forall isbyte (v_list v_n fb) /\
  exists es, mp_decode (v_list v_n fb) = Some es /\ v_entries lv = sort_items (fm_items es) /\
             Permutation (v_entries lv) (fm_items es) /\
             (forall k, fm_get (v_entries lv) k = fm_get es k).
Proof.
  unfold load_agree. intros H. apply andb_true_iff in H. destruct H as [H H2]. apply andb_true_iff in H. destruct H as [Hb _].
  split; [apply is_byte_list_spec; exact Hb|].
  destruct (mp_decode (v_list v_n fb)) as [es|]; [|discriminate]. exists es. split; [reflexivity|].
  apply entries_eqb_eq in H2. split; [symmetry; exact H2|]. rewrite <- H2. split; [apply sort_items_perm|].
  intros k. rewrite <- (fm_get_items_l es k). symmetry. apply fm_get_perm_l; [apply fm_items_nodup_keys|].
  apply Permutation_sym. apply sort_items_perm.
Qed.

(** [saved_agree]: the file IS [mp_encode] of the table's entries in some order, nothing behind it, and the
    real loader read that table *)
Theorem saved_agree_sound_l tbl fb lv : saved_agree tbl fb lv = true ->
  exists es, v_list v_n fb = mp_encode es /\ mp_parse (v_list v_n fb) = Some (es, []) /\
             Permutation es (entries_of_table tbl) /\ NoDup tbl /\ table_in_limits es /\
             load_table (v_list v_n fb) = Loaded tbl /\
             v_entries lv = sort_items es.
Proof.
  unfold saved_agree. intros H. apply andb_true_iff in H. destruct H as [Hl H].
  destruct (load_agree_sound_l _ _ Hl) as (Hb & es0 & Hd & Hlv & _).
  destruct (mp_parse (v_list v_n fb)) as [[es [|? ?]]|] eqn:Ep; try discriminate.
  apply andb_true_iff in H. destruct H as [H H3]. apply andb_true_iff in H. destruct H as [H1 H2].
  apply nl_eqb_iff in H1. apply entries_eqb_eq in H2.
  destruct (table_of_items es) as [t|] eqn:Et; [|discriminate]. apply tbl_eqb_eq in H3. subst t.
  assert (es0 = es). { unfold mp_decode in Hd. rewrite Ep in Hd. cbn in Hd. congruence. } subst es0.
  pose proof (table_of_items_sound_l _ _ Et) as Hperm.
  exists es. split; [symmetry; exact H1|]. split; [reflexivity|]. split; [exact Hperm|].
  assert (Hnd : NoDup tbl).
  { rewrite <- (entries_of_table_keys tbl). apply (Permutation_NoDup (l := map fst es));
      [apply Permutation_map; exact Hperm|]. rewrite <- H2. apply fm_items_nodup_keys. }
  split; [exact Hnd|].
  destruct (mp_parse_split_l _ _ _ _ Ep) as (_ & _ & _ & Hlim & _). split; [apply Hlim; exact Hb|].
  split; [|rewrite Hlv, H2; reflexivity].
  unfold load_table, mp_decode. rewrite Ep. cbn [option_map fst]. rewrite H2, Et. reflexivity.
Qed.

(** ** no false alarm: the file the writer model produces for a table, in any order, together with the listing of
    that table, is accepted *)
Lemma v_list_n_rt l : v_list v_n (list_v n_v l) = l.
Proof.
  unfold list_v. cbn [v_list]. rewrite map_map. induction l as [|x l IH]; cbn [map]; [reflexivity|].
  rewrite IH. unfold v_n, n_v, v_z. rewrite N2Z.id. reflexivity.
Qed.
Lemma is_byte_list_rt l : Forall isbyte l -> is_byte_list (list_v n_v l) = true.
Proof.
  unfold list_v. cbn [is_byte_list]. induction 1 as [|x l Hx Hl IH]; cbn [map forallb]; [reflexivity|].
  rewrite IH. unfold n_v, isbyte in *. cbn. lia.
Qed.
Lemma entries_eqb_refl : forall a, entries_eqb a a = true.
Proof. induction a as [|[k v] a IH]; cbn [entries_eqb]; [reflexivity|]. rewrite nl_eqb_refl, N.eqb_refl, IH. reflexivity. Qed.
Lemma tbl_eqb_refl : forall a, tbl_eqb a a = true.
Proof. induction a as [|x a IH]; cbn [tbl_eqb]; [reflexivity|]. rewrite nl_eqb_refl, IH. reflexivity. Qed.

Definition items_val (l : list (list N * N)) : val := L (map (fun e => L [n_v (snd e); list_v n_v (fst e)]) l).
Lemma v_entries_rt l : v_entries (items_val l) = l.
Proof.
  unfold v_entries, items_val. cbn [v_list]. rewrite map_map. induction l as [|[k v] l IH]; cbn [map]; [reflexivity|].
  rewrite IH. cbn [v_nth nth fst snd]. rewrite v_list_n_rt. unfold v_n, n_v, v_z. rewrite N2Z.id. reflexivity.
Qed.
Lemma is_item_list_rt l : Forall (fun e => Forall isbyte (fst e)) l -> is_item_list (items_val l) = true.
Proof.
  unfold items_val. cbn [is_item_list]. induction 1 as [|[k v] l Hx Hl IH]; cbn [map forallb]; [reflexivity|].
  rewrite IH. cbn [fst snd] in *. rewrite (is_byte_list_rt _ Hx). unfold n_v. cbn. lia.
Qed.

Theorem saved_agree_complete_l tbl es : NoDup tbl -> N.of_nat (length tbl) <= u32_max ->
  Forall (fun k => N.of_nat (length k) <= u32_max /\ Forall isbyte k) tbl ->
  Permutation es (entries_of_table tbl) ->
  saved_agree tbl (list_v n_v (mp_encode es)) (items_val (sort_items es)) = true.
Proof.
  intros Hnd Hn Hk Hp.
  assert (Hlim : table_in_limits es).
  { apply (table_in_limits_perm (entries_of_table tbl)); [apply Permutation_sym; exact Hp|].
    apply entries_of_table_limits; assumption. }
  assert (Hkeys : NoDup (map fst es)).
  { apply (Permutation_NoDup (l := map fst (entries_of_table tbl))).
    - apply Permutation_map. apply Permutation_sym. exact Hp.
    - rewrite entries_of_table_keys. exact Hnd. }
  assert (Hbk : Forall (fun e => Forall isbyte (fst e)) (sort_items es)).
  { apply (Permutation_Forall (Permutation_sym (sort_items_perm es))). destruct Hlim as [_ Hok].
    apply Forall_forall. intros e He. exact (proj1 (proj2 (proj1 (Forall_forall _ _) Hok e He))). }
  unfold saved_agree, load_agree. rewrite v_list_n_rt, v_entries_rt.
  rewrite (is_byte_list_rt _ (mp_encode_isbyte_l _ Hlim)), (is_item_list_rt _ Hbk).
  rewrite (mp_decode_encode_l _ Hlim). rewrite (fm_items_id_l _ Hkeys), entries_eqb_refl.
  unfold mp_parse. rewrite <- (app_nil_r (mp_encode es)) at 1. rewrite (mp_parse_encode_l _ _ _ Hlim).
  rewrite nl_eqb_refl, (fm_items_id_l _ Hkeys), entries_eqb_refl, (table_of_items_perm_l _ _ Hp), tbl_eqb_refl.
  reflexivity.
Qed.

(** C10 with the segmenter inside the model — definitions only.
    [segment] (UAX29_Model) replaces the cluster-list oracle: [uax29_agree] (part of the
    correspondence relation) demands that the cluster lists the harness supplies are
    [segment] of their concatenation; [seam_safe] is the decidable condition on a text under
    which a U+0020 may be inserted or deleted at its word boundaries without changing any
    other cluster (the complement of the KF1 seam class); [xcheck] is the cross-check of
    that condition against the class flag the harness computes with the real crate. *)
From TU Require Import Base UAX29_Model C10_Model.
From TU Require C11_Model.
Open Scope N_scope.

(** ** context-free boundaries
    [cf_break a b]: the rules put a boundary between [a] and [b] whatever precedes [a] and
    whatever follows [b]. The pair table says "break" (GB4, GB5, GB999), or [b] is an
    InCB=Consonant and [a] is neither InCB=Linker nor InCB=Extend (GB9c cannot apply: the
    conjunct state does not survive [a]). All other verdicts of the pair table either never
    break (GB3, GB6-GB9b) or depend on what precedes [a] (GB9c after a linker/extend, GB11
    ZWJ x ExtPict, GB12/13 RI x RI). *)
Definition cf_break (a b : N) : bool :=
  match check_pair (gcb a) (gcb b) with
  | PR_Break => true
  | PR_InCbConsonant => match incb_of a with None => true | Some _ => false end
  | _ => false
  end.

(** a position between [a] and [b] where U+0020 can be written or removed: context-free
    boundaries [a | b], [a | SP] (a is not Prepend) and [SP | b] (b is not Extend /
    SpacingMark / ZWJ) *)
Definition seam_ok (a b : N) : bool :=
  negb (is_prepend a) && negb (ws_joinable b) && cf_break a b.

(** every word boundary of a word list is such a position: the category-only condition
    ([seam_safe_cf]: last code point of a word, first code point of the next one) *)
Fixpoint seams_ok (W : list str) : bool :=
  match W with
  | w1 :: (w2 :: _) as R => seam_ok (last w1 32) (hd 32 w2) && seams_ok R
  | _ => true
  end.
Definition seam_safe_cf (s : str) : bool := seams_ok (C11_Model.words s).

(** ** cluster lists that re-segment to themselves (SeamStable as a decidable property)
    [glued c d]: after the text [c] the cursor sees a boundary before the first code point of
    [d] — decided inside [c] ([break_after] starts from the empty context), so it is what the
    segmenter does whenever [c] starts at a boundary. [chain L]: every two neighbours of [L]
    are [glued]. [is_cluster c]: [c] on its own is one cluster. *)
Definition glued (c d : cluster) : bool :=
  match d with b :: _ => break_after c b | [] => true end.
Fixpoint chain (L : list cluster) : bool :=
  match L with
  | c :: ((d :: _) as R) => glued c d && chain R
  | _ => true
  end.
Definition is_cluster (c : cluster) : bool := cll_eqb (segment c) [c].
Definition stableb (L : list cluster) : bool := cll_eqb (segment (concat L)) L.

(** ** [seam_safe]: the whitespace of a text can be deleted
    no cluster of [s] mixes whitespace and non-whitespace, and wherever a whitespace cluster
    stands between two clusters [c] and [d], [d] still starts a cluster when it follows [c]
    directly ([glued c d]: decided inside [c], e.g. a third regional indicator after a
    complete flag). For a whitespace-clean text this is exactly "the non-whitespace clusters
    of the text are the clusters of the text without whitespace" ([seam_safe_iff]);
    [seam_safe_cf] (categories of the two code points at each word boundary only) implies it. *)
Fixpoint del_safe (t : list cluster) : bool :=
  match t with
  | c :: ((w :: r) as R) =>
      (if negb (cl_ws c) && cl_ws w then match r with d :: _ => glued c d | [] => true end else true)
      && del_safe R
  | _ => true
  end.
Definition seam_safe (s : str) : bool := no_mixedb s && del_safe (segment s).

(** ** string-level premise of the property, and the domain of the round-trip theorem *)
Definition str_premise (f t : str) : bool :=
  C11_Model.cleansb f && C11_Model.cleansb t && nlist_eqb (strip_cp f) (strip_cp t).
Definition dom_C10 (f t : str) : bool := str_premise f t && seam_safe f && seam_safe t.

(** the KF1 class in model terms: string-level premise without mixed clusters, but different
    non-whitespace cluster lists *)
Definition kf1b (f t : str) : bool :=
  str_premise f t && no_mixedb f && no_mixedb t
  && negb (cll_eqb (strip (segment f)) (strip (segment t))).

(** ** val glue
    input = (sp from to rops g kf1 ss)
      kf1: the harness' class flag (string-level premise by the real clean/remove, no mixed
           cluster, non-whitespace clusters differ) — what it suppresses as known finding KF1
           unless [ss] holds;
      ss:  the harness' own evaluation of [seam_safe from && seam_safe to] (a transliteration
           of the definitions above over the generated range tables), compared here *)
Definition in_g (v : val) : bool := v_bool (v_nth 4 v).
Definition in_from (v : val) : list cluster := v_clusters (v_nth 1 v).
Definition in_to (v : val) : list cluster := v_clusters (v_nth 2 v).

(** the oracle is the model's segmentation *)
Definition uax29_agree (v : val) : bool :=
  if in_g v then
    cll_eqb (segment (concat (in_from v))) (in_from v)
    && cll_eqb (segment (concat (in_to v))) (in_to v)
  else true.

(** the harness' [ss] flag is [seam_safe] of both texts, and inside the domain of the
    round-trip theorem the class flag is off *)
Definition xcheck (v : val) : bool :=
  if in_g v then
    let f := concat (in_from v) in
    let t := concat (in_to v) in
    Bool.eqb (v_bool (v_nth 6 v)) (seam_safe f && seam_safe t)
    && negb (dom_C10 f t && v_bool (v_nth 5 v))
  else true.

Definition agree_C10 (inp m i : val) : bool := val_eqb m i && uax29_agree inp && xcheck inp.

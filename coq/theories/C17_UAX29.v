(** C17 with the segmenter inside the model.

    Part 1 (definitions, used by C17_Extract.v): [uax29_agree] for mode-0 inputs — every cluster
    list of every per-text oracle must be the model's own segmentation of the text it spells
    ([seg_of], [oracle_checked] of C01_UAX29: [UAX29_Model.segment] in grapheme mode, one cluster
    per code point otherwise).  Part of the correspondence relation [agree], not of [check_C17].

    Part 2: the group theorems for the byte tokenizer computing its own segmentation
    ([byte_groups_u]): one group per cluster of [segment] of every regular segment; the premises
    [clusters_ok] / [clusters_ne] disappear. *)
From TU Require Import Base UAX29_Model UAX29_Proofs C01_Model C01_Proofs C01_UAX29 C17_Model C17_Proofs.
From Coq Require Import Lia.
Open Scope nat_scope.

(** * Part 1: definitions *)
Definition uax29_agree (v : val) : bool :=
  match v_z (v_nth 0 v) with
  | 0%Z =>
    let g := c_g (v_cfg (v_nth 1 v)) in
    forallb (oracle_checked g) (v_list (v_list (v_list v_str)) (v_nth 5 v))
  | _ => true
  end.

(** the groups of the byte tokenizer in grapheme mode, segmenting by itself *)
Definition byte_groups_u (b : base) (cpg : bool) (s : str) (ign : bool) : list tg :=
  byte_groups b cpg true s ign (oracle_u true (split_input (b_sv b) s ign)).

(** the groups of the segments, written without an oracle *)
Fixpoint segs_groups_u (cpg : bool) (segs : list seg) : list tg :=
  match segs with
  | [] => []
  | Reg r :: rest => map (cluster_group cpg) (segment r) ++ segs_groups_u cpg rest
  | Spec _ :: rest => Full 1 :: segs_groups_u cpg rest
  end.

(** * Part 2: proofs *)
Lemma segs_groups_oracle_u cpg segs :
  segs_groups cpg true segs (oracle_u true segs) = segs_groups_u cpg segs.
Proof.
  induction segs as [|[r|t] rest IH]; cbn [segs_groups segs_groups_u oracle_u hd tl clusters_of seg_of];
    [reflexivity|rewrite IH; reflexivity|rewrite IH; reflexivity].
Qed.

Lemma byte_groups_u_eq b cpg s ign :
  byte_groups_u b cpg s ign
  = repeat (Full 1) (length (b_pre b)) ++ segs_groups_u cpg (split_input (b_sv b) s ign)
    ++ repeat (Full 1) (length (b_suf b)).
Proof. unfold byte_groups_u, byte_groups. rewrite segs_groups_oracle_u. reflexivity. Qed.

Lemma clusters_ne_u segs : clusters_ne true segs (oracle_u true segs).
Proof. apply clusters_ne_oracle, oracle_u_okb. Qed.

(** the groups partition the ids: lengths sum to the number of ids, one group per prefix token,
    per cluster of [segment] of each regular segment, per special token, per suffix token; every
    group is positive (Mean weights sum to one) *)
Lemma groups_partition_u_l tokens padto pad prefix suffix b cpg s ign :
  byte_base tokens padto pad prefix suffix = Some b ->
  exists ids, byte_tokenize b s ign = Some ids
    /\ list_sum (map tg_len (byte_groups_u b cpg s ign)) = length ids
    /\ length (byte_groups_u b cpg s ign)
       = length prefix + n_chars_u (split_input (b_sv b) s ign) + length suffix
    /\ forallb positiveb (byte_groups_u b cpg s ign) = true.
Proof.
  intros Hb. unfold byte_groups_u.
  destruct (groups_partition_l tokens padto pad prefix suffix b cpg true s ign
              (oracle_u true (split_input (b_sv b) s ign)) Hb (clusters_ok_u _)) as (ids & E & L1 & L2).
  exists ids. split; [exact E|]. split; [exact L1|]. split.
  - rewrite L2, n_chars_oracle_u. reflexivity.
  - apply byte_groups_positive_l, clusters_ne_u.
Qed.

(** parsing off: exactly one group per cluster of [segment s], of as many tokens as the cluster
    has UTF-8 bytes (byte groups: [Full #bytes]; code-point groups: one nested [Full] per code
    point of the cluster) *)
Lemma groups_ign_u_l b cpg s :
  byte_groups_u b cpg s true
  = repeat (Full 1) (length (b_pre b)) ++ map (cluster_group cpg) (segment s)
    ++ repeat (Full 1) (length (b_suf b))
  /\ Forall2 (fun c g => tg_len g = length (utf8s c)
                         /\ g = (if cpg then Nested (map (fun x => Full (length (utf8 x))) c)
                                 else Full (length (utf8s c))))
             (segment s) (map (cluster_group cpg) (segment s)).
Proof.
  split.
  - rewrite byte_groups_u_eq. unfold split_input. cbn [segs_groups_u]. rewrite app_nil_r. reflexivity.
  - induction (segment s) as [|c l IH]; cbn [map]; constructor; [|exact IH].
    split; [apply cluster_group_len|reflexivity].
Qed.

(** the oracles computed by the model pass the correspondence test *)
Lemma uax29_agree_mode0 cfgv mean ign texts g segss :
  c_g (v_cfg cfgv) = g ->
  uax29_agree (L [I 0%Z; cfgv; mean; ign; texts;
                  list_v (list_v (list_v str_v)) (map (oracle_u g) segss)]) = true.
Proof.
  intros Hg. unfold uax29_agree. cbn [v_nth nth v_z]. rewrite Hg.
  assert (E : v_list (v_list (v_list v_str)) (list_v (list_v (list_v str_v)) (map (oracle_u g) segss))
              = map (oracle_u g) segss).
  { assert (R1 : forall s, v_str (str_v s) = s).
    { intros s. unfold v_str, str_v, v_list, list_v. rewrite map_map.
      induction s as [|x s IH]; [reflexivity|]. cbn [map]. rewrite IH. unfold v_n, n_v, v_z. rewrite N2Z.id. reflexivity. }
    assert (R2 : forall (l : list str), v_list v_str (list_v str_v l) = l).
    { intros l. unfold v_list, list_v. rewrite map_map. induction l as [|x l IH]; [reflexivity|].
      cbn [map]. rewrite IH, R1. reflexivity. }
    assert (R3 : forall (l : list (list str)), v_list (v_list v_str) (list_v (list_v str_v) l) = l).
    { intros l. unfold v_list at 1, list_v at 1. rewrite map_map. induction l as [|x l IH]; [reflexivity|].
      cbn [map]. rewrite IH, R2. reflexivity. }
    generalize (map (oracle_u g) segss). intros l. unfold v_list at 1, list_v at 1. rewrite map_map.
    induction l as [|x l IH]; [reflexivity|]. cbn [map]. rewrite IH, R3. reflexivity. }
  rewrite E. rewrite forallb_forall. intros o Ho. apply in_map_iff in Ho as (segs & <- & _).
  apply oracle_u_checked.
Qed.

Lemma uax29_agree_sound_l v : uax29_agree v = true -> v_z (v_nth 0 v) = 0%Z ->
  Forall (Forall (fun o => o = seg_of (c_g (v_cfg (v_nth 1 v))) (concat o)))
         (v_list (v_list (v_list v_str)) (v_nth 5 v)).
Proof.
  unfold uax29_agree. intros H E. rewrite E in H. rewrite forallb_forall in H. rewrite Forall_forall.
  intros os Hos. specialize (H os Hos). unfold oracle_checked in H. rewrite forallb_forall in H.
  rewrite Forall_forall. intros o Ho. apply seg_checked_sound, H, Ho.
Qed.

(** Pipeline proofs, part 6 (topic N): the stage tables of Pipeline_Stages.v.
    - the item path is a function of (configurations, tables, max_length, item, seed, incoming marks) for EVERY pair of
      tables — no premise "no unmodelled stage" is left (generic in the two opaque-stage functions: file equivariance);
    - TokenMasking: what the masking loop can do to the token ids;
    - SpellingCorruption in every mode: C15's totality and specification theorems transported to the stage;
    - ChatDecode: a template with one {text}; the unit tests of the crate. *)
From TU Require Import RNG_Model RNG_Proofs RNG_Geometric.
From TU Require C01_Proofs.
From TU Require Import Base C01_Model UCD_Model C15_Model C15_Seeded C15_Tables C15_Spell C15_SpellProofs C15_SpellTotal.
From TU Require Import JSON_Model JSON_Roundtrip Pipeline_Model Pipeline_Proofs Pipeline_Tasks Pipeline_TasksProofs C08_Pipeline C08_Bytes.
From TU Require Import Pipeline_Stages.
Require Import Lia.
Local Open Scope nat_scope.

(** * the file index is irrelevant, for every pair of opaque-stage functions that do not read it *)
Section Equivariance.
Variable opq : nat -> item -> info -> res (item * info).
Variable qopq : nat -> xitem -> info -> res (xitem * info).
Hypothesis opq_file : forall id x i fl, opq id x (set_file fl i) = rmap (snd_file fl) (opq id x i).
Hypothesis qopq_file : forall id x i fl, qopq id x (set_file fl i) = rmap (snd_file fl) (qopq id x i).

Lemma preproc_file_g : forall c x i fl,
  preproc opq c x (set_file fl i) = rmap (snd_file fl) (preproc opq c x i).
Proof.
  induction c using cfg_ind'; intros x i fl;
    try (cbn [Pipeline_Model.preproc]; apply apply_part_file; intros; reflexivity);
    try (cbn [Pipeline_Model.preproc]; apply substring_file).
  - reflexivity.
  - rewrite !preproc_chain. revert x i. induction l as [|c r IHr]; intros x i; [reflexivity|].
    inversion H as [|? ? Hhd Htl]; subst. cbn [chain_run]. rewrite (Hhd x i fl).
    destruct (preproc opq c x i) as [[a j]| |]; cbn [rmap snd_file fst snd]; [|reflexivity|reflexivity].
    exact (IHr Htl a j).
  - reflexivity.
  - rewrite !preproc_switch. cbn [set_file i_seed]. generalize (switch_choice ps (i_seed i)) as k.
    induction l as [|c r IHr]; intros k; [reflexivity|].
    inversion H as [|? ? Hhd Htl]; subst. cbn [pick_run]. destruct k as [|k]; [apply Hhd|].
    apply IHr; assumption.
  - reflexivity.
  - cbn [Pipeline_Model.preproc]. apply opq_file.
Qed.

Lemma postproc_file_g : forall maxlen c x i f,
  postproc qopq maxlen c x (set_file f i) = rmap (snd_file f) (postproc qopq maxlen c x i).
Proof.
  intros maxlen. induction c using qcfg_ind'; intros x i f.
  - reflexivity.
  - rewrite !postproc_chain. revert x i. induction l as [|c r IHr]; intros x i; [reflexivity|].
    inversion H as [|? ? Hhd Htl]; subst. cbn [qchain_run]. rewrite (Hhd x i f).
    destruct (postproc qopq maxlen c x i) as [[a j]| |]; cbn [rmap snd_file fst snd]; [|reflexivity|reflexivity].
    exact (IHr Htl a j).
  - rewrite !postproc_switch. cbn [set_file i_seed]. generalize (switch_choice ps (i_seed i)) as k.
    induction l as [|c r IHr]; intros k; [reflexivity|].
    inversion H as [|? ? Hhd Htl]; subst. cbn [qpick_run]. destruct k as [|k]; [apply Hhd|].
    apply IHr; assumption.
  - rewrite !postproc_on_mark. cbn [set_file i_marks]. destruct (mark_get k (i_marks i)) as [m|]; [|reflexivity].
    destruct (nlist_eqb m v); [|reflexivity].
    revert x i. induction l as [|c r IHr]; intros x i; [reflexivity|].
    inversion H as [|? ? Hhd Htl]; subst. cbn [qchain_run]. rewrite (Hhd x i f).
    destruct (postproc qopq maxlen c x i) as [[a j]| |]; cbn [rmap snd_file fst snd]; [|reflexivity|reflexivity].
    exact (IHr Htl a j).
  - rewrite !postproc_switch_on_mark. cbn [set_file i_marks]. destruct (mark_get k (i_marks i)) as [m|]; [|reflexivity].
    destruct (C01_Model.index_of m vs) as [idx|]; [|reflexivity]. revert idx.
    induction l as [|c r IHr]; intros idx; [reflexivity|].
    inversion H as [|? ? Hhd Htl]; subst. cbn [qpick_run]. destruct idx as [|idx]; [apply Hhd|].
    apply IHr; assumption.
  - reflexivity.
  - cbn [Pipeline_Tasks.postproc]. apply qopq_file.
Qed.

Lemma pipeline_file_g : forall c t q maxlen x i f,
  pipeline_t opq qopq (PGlobal c) t (QGlobal q) maxlen x (set_file f i) =
  pipeline_t opq qopq (PGlobal c) t (QGlobal q) maxlen x i.
Proof.
  intros c t q maxlen x i f. unfold pipeline_t, preprocess, postprocess. rewrite (preproc_file_g c x i f).
  destruct (preproc opq c x i) as [[a j]| |]; cbn [rmap rbind snd_file fst snd]; [|reflexivity|reflexivity].
  destruct (task t a) as [inp| |]; cbn [rbind]; [|reflexivity|reflexivity].
  rewrite (postproc_file_g maxlen q _ j f).
  destruct (postproc qopq maxlen q _ j) as [[y k]| |]; reflexivity.
Qed.

Lemma pipeline_function_of_seed_g : forall c t q maxlen x i i',
  i_seed i = i_seed i' -> i_marks i = i_marks i' ->
  pipeline_t opq qopq (PGlobal c) t (QGlobal q) maxlen x i =
  pipeline_t opq qopq (PGlobal c) t (QGlobal q) maxlen x i'.
Proof.
  intros c t q maxlen x i i' Hs Hm.
  rewrite <- (pipeline_file_g c t q maxlen x i (i_file i')). f_equal.
  destruct i as [s f m], i' as [s' f' m']. cbn [i_seed i_marks i_file set_file] in *. subst. reflexivity.
Qed.
End Equivariance.

(** the stages of the two tables do not read the file index *)
Lemma opq_tab_file : forall st id x i fl,
  opq_tab st id x (set_file fl i) = rmap (snd_file fl) (opq_tab st id x i).
Proof.
  intros st id x i fl. unfold opq_tab. destruct (nth_error st id) as [s|]; [|reflexivity].
  destruct s; cbn [run_stage]; try reflexivity; apply apply_part_file; intros; reflexivity.
Qed.

Lemma qopq_tab_file : forall qs id x i fl,
  qopq_tab qs id x (set_file fl i) = rmap (snd_file fl) (qopq_tab qs id x i).
Proof.
  intros qs id x i fl. unfold qopq_tab. destruct (nth_error qs id) as [q|]; [|reflexivity].
  unfold mask_stage. cbn [set_file i_seed]. destruct (mask_ctor q); try reflexivity.
  destruct (mask_ids _ _ _ _ _ _ _ _); reflexivity.
Qed.

(** the purity assumption of C08 as a theorem for EVERY configuration over the stage tables *)
Lemma pipeline_tab_function_of_seed : forall st qs c t q maxlen x i i',
  i_seed i = i_seed i' -> i_marks i = i_marks i' ->
  pipeline_t (opq_tab st) (qopq_tab qs) (PGlobal c) t (QGlobal q) maxlen x i =
  pipeline_t (opq_tab st) (qopq_tab qs) (PGlobal c) t (QGlobal q) maxlen x i'.
Proof.
  intros st qs. apply pipeline_function_of_seed_g; [apply opq_tab_file|apply qopq_tab_file].
Qed.

(** * TokenMasking *)
Lemma set_range_length : forall ids from n v, length (set_range ids from n v) = length ids.
Proof.
  induction ids as [|x r IH]; intros from n v; [reflexivity|]. cbn [set_range].
  destruct from as [|f]; [destruct n as [|n']; [reflexivity|]|]; cbn [length]; rewrite IH; reflexivity.
Qed.

Lemma set_range_nth : forall ids from n v j d,
  nth j (set_range ids from n v) d =
  if (Nat.leb from j && Nat.ltb j (from + n) && Nat.ltb j (length ids))%bool then v else nth j ids d.
Proof.
  induction ids as [|x r IH]; intros from n v j d.
  - cbn [set_range length]. destruct j; rewrite Bool.andb_false_r; reflexivity.
  - cbn [set_range]. destruct from as [|f].
    + destruct n as [|n'].
      * replace (Nat.ltb j (0 + 0)) with false by (symmetry; apply Nat.ltb_ge; lia).
        rewrite Bool.andb_false_r. reflexivity.
      * destruct j as [|j]; [reflexivity|]. cbn [nth length]. rewrite IH.
        replace (Nat.ltb (S j) (0 + S n')) with (Nat.ltb j (0 + n'))
          by (destruct (Nat.ltb_spec j (0 + n')); destruct (Nat.ltb_spec (S j) (0 + S n')); try reflexivity; lia).
        replace (Nat.ltb (S j) (S (length r))) with (Nat.ltb j (length r))
          by (destruct (Nat.ltb_spec j (length r)); destruct (Nat.ltb_spec (S j) (S (length r))); try reflexivity; lia).
        reflexivity.
    + destruct j as [|j]; [reflexivity|]. cbn [nth length]. rewrite IH.
      replace (Nat.leb (S f) (S j)) with (Nat.leb f j) by reflexivity.
      replace (Nat.ltb (S j) (S f + n)) with (Nat.ltb j (f + n))
        by (destruct (Nat.ltb_spec j (f + n)); destruct (Nat.ltb_spec (S j) (S f + n)); try reflexivity; lia).
      replace (Nat.ltb (S j) (S (length r))) with (Nat.ltb j (length r))
        by (destruct (Nat.ltb_spec j (length r)); destruct (Nat.ltb_spec (S j) (S (length r))); try reflexivity; lia).
      reflexivity.
Qed.

(** what the loop may do: same length; only positions npfx .. npfx + nm - 1 can change; a changed position holds the
    mask id *)
Definition masked_of (npfx nm : nat) (mid : N) (old new : list N) : Prop :=
  length new = length old /\
  forall j d, nth j new d = nth j old d \/ (npfx <= j < npfx + nm /\ nth j new d = mid).

Lemma masked_refl : forall npfx nm mid l, masked_of npfx nm mid l l.
Proof. intros. split; [reflexivity|]. intros; left; reflexivity. Qed.

Lemma masked_trans : forall npfx nm mid a b c,
  masked_of npfx nm mid a b -> masked_of npfx nm mid b c -> masked_of npfx nm mid a c.
Proof.
  intros npfx nm mid a b c [L1 H1] [L2 H2]. split; [congruence|]. intros j d.
  destruct (H2 j d) as [E|[R E]]; [|right; split; assumption]. rewrite E. apply H1.
Qed.

Lemma mask_loop_masked : forall fuel g p' mn nm npfx mid i ids st ids',
  mask_loop fuel g p' mn nm npfx mid i ids st = MkOk ids' -> masked_of npfx nm mid ids ids'.
Proof.
  induction fuel as [|f IH]; intros g p' mn nm npfx mid i ids st ids' H; [discriminate|].
  cbn [mask_loop] in H. destruct (Nat.leb nm i) eqn:Ei.
  - injection H as <-. apply masked_refl.
  - apply Nat.leb_gt in Ei. destruct (random_f64 st) as [u st1].
    destruct (fgt (Fin u (-53)) p').
    + eapply IH; exact H.
    + destruct (geo_sample geo_fuel g st1) as [x st2| | |]; try discriminate.
      destruct (p64 <=? x + mn)%N; [discriminate|].
      set (n := N.to_nat (N.min (N.min (x + mn) (N.of_nat (nm / 2))) (N.of_nat (nm - i)))) in H.
      assert (Hn : n <= nm - i) by (unfold n; lia).
      eapply masked_trans; [|eapply IH; exact H].
      split; [apply set_range_length|]. intros j d. rewrite set_range_nth.
      destruct (Nat.leb (i + npfx) j && Nat.ltb j (i + npfx + n) && Nat.ltb j (length ids))%bool eqn:E; [|left; reflexivity].
      right. rewrite !Bool.andb_true_iff in E. destruct E as [[E1 E2] _].
      apply Nat.leb_le in E1. apply Nat.ltb_lt in E2. split; [lia|reflexivity].
Qed.

Lemma mask_ids_masked : forall g p' mn npfx nsfx mid seed ids ids',
  mask_ids g p' mn npfx nsfx mid seed ids = MkOk ids' ->
  masked_of npfx (length ids - npfx - nsfx) mid ids ids'.
Proof.
  intros g p' mn npfx nsfx mid seed ids ids' H. unfold mask_ids in H.
  destruct (Nat.leb (length ids) 1); [injection H as <-; apply masked_refl|].
  destruct (Nat.ltb (length ids) (npfx + nsfx)); [discriminate|].
  eapply mask_loop_masked; exact H.
Qed.

(** the stage: never an Err; an Ok result has the same data, info, variant, labels and paddings, and token ids that
    differ from the old ones only by mask ids strictly between the tokenizer's prefix and suffix tokens *)
Definition same_but_ids (t t' : tinput) : Prop :=
  match t, t' with
  | TIClass _ pad l, TIClass _ pad' l' => pad = pad' /\ l = l'
  | TISeq _ pad ls, TISeq _ pad' ls' => pad = pad' /\ ls = ls'
  | TIGen _ pad ls, TIGen _ pad' ls' => pad = pad' /\ ls = ls'
  | TICond _ pad tids tpad ls, TICond _ pad' tids' tpad' ls' => pad = pad' /\ tids = tids' /\ tpad = tpad' /\ ls = ls'
  | _, _ => False
  end.

Lemma tin_set_ids_same : forall t ids, same_but_ids t (tin_set_ids t ids) /\ tin_ids (tin_set_ids t ids) = ids.
Proof. intros [ids0 p l|ids0 p ls|ids0 p ls|ids0 p tids q ls] ids; cbn; repeat split. Qed.

Lemma mask_ctor_mid : forall q g p' mid, mask_ctor q = MCOk g p' mid ->
  byte_token_to_id (qs_b q) (qs_tok q) = Some mid.
Proof.
  intros q g p' mid. unfold mask_ctor. destruct (byte_token_to_id (qs_b q) (qs_tok q)) as [m|]; [|congruence].
  generalize (geo_new (qs_p q)) as r. generalize (qs_min q =? 0)%N as z.
  destruct (qs_nump q); intros z r; destruct r; try congruence; destruct z; congruence.
Qed.

Lemma mask_stage_spec : forall q x i,
  match mask_stage q x i with
  | ROk (x', i') =>
      i' = i /\ x_data x' = x_data x /\ same_but_ids (x_in x) (x_in x') /\
      exists mid, byte_token_to_id (qs_b q) (qs_tok q) = Some mid /\
        masked_of (length (b_pre (qs_b q)))
                  (length (tin_ids (x_in x)) - length (b_pre (qs_b q)) - length (b_suf (qs_b q)))
                  mid (tin_ids (x_in x)) (tin_ids (x_in x'))
  | RErr _ => False
  | RPanic _ => True
  end.
Proof.
  intros q x i. unfold mask_stage. destruct (mask_ctor q) as [g p' mid| | | |] eqn:Ec; try exact Logic.I.
  destruct (mask_ids _ _ _ _ _ _ _ _) as [ids'| | |] eqn:Em; try exact Logic.I.
  cbn [x_data x_in]. destruct (tin_set_ids_same (x_in x) ids') as [Hs Hi].
  repeat split; [exact Hs|]. exists mid. split.
  - exact (mask_ctor_mid q g p' mid Ec).
  - rewrite Hi. eapply mask_ids_masked; exact Em.
Qed.

(** the length of every sequence of the task input is unchanged: masking never changes what the batcher counts *)
Lemma mask_stage_len : forall q x i x' i', mask_stage q x i = ROk (x', i') -> tin_len (x_in x') = tin_len (x_in x).
Proof.
  intros q x i x' i' H. pose proof (mask_stage_spec q x i) as S. rewrite H in S.
  destruct S as (_ & _ & Hs & mid & _ & [HL _]).
  destruct (x_in x) as [a p l|a p ls|a p ls|a p tids tp ls], (x_in x') as [a' p' l'|a' p' ls'|a' p' ls'|a' p' tids' tp' ls'];
    cbn [same_but_ids] in Hs; try contradiction; cbn [tin_len tin_ids] in *; try lia.
  destruct Hs as (_ & -> & _ & _). lia.
Qed.

(** * what ANY postprocessing configuration over the TokenMasking table can do to an item: never an Err, info and data
    untouched, the variant kept, and no sequence gets longer (ClipLength shortens, TokenMasking keeps the lengths) *)
Definition tin_shorter (t' t : tinput) : Prop :=
  match t', t with
  | TIClass ids' _ _, TIClass ids _ _ => length ids' <= length ids
  | TISeq ids' _ ls', TISeq ids _ ls => length ids' <= length ids /\ length ls' <= length ls
  | TIGen ids' _ ls', TIGen ids _ ls => length ids' <= length ids /\ length ls' <= length ls
  | TICond ids' _ tids' _ ls', TICond ids _ tids _ ls =>
      length ids' <= length ids /\ length tids' <= length tids /\ length ls' <= length ls
  | _, _ => False
  end.

Lemma tin_shorter_refl : forall t, tin_shorter t t.
Proof. intros [a p l|a p ls|a p ls|a p tids tp ls]; cbn; lia. Qed.

Lemma tin_shorter_trans : forall a b c, tin_shorter a b -> tin_shorter b c -> tin_shorter a c.
Proof.
  intros [a1 p1 l1|a1 p1 ls1|a1 p1 ls1|a1 p1 t1 q1 ls1] [a2 p2 l2|a2 p2 ls2|a2 p2 ls2|a2 p2 t2 q2 ls2]
         [a3 p3 l3|a3 p3 ls3|a3 p3 ls3|a3 p3 t3 q3 ls3]; cbn; try tauto; lia.
Qed.

Definition post_rel2 (x : xitem) (i : info) (r : res (xitem * info)) : Prop :=
  match r with
  | ROk (x', i') => i' = i /\ x_data x' = x_data x /\ tin_shorter (x_in x') (x_in x)
  | RErr _ => False
  | RPanic _ => True
  end.

Lemma post_rel2_refl : forall x i, post_rel2 x i (ROk (x, i)).
Proof. intros. cbn. repeat split. apply tin_shorter_refl. Qed.

Section PostAll.
Variable qs : list qstage.
Variable maxlen : nat.
Notation postproc := (Pipeline_Tasks.postproc (qopq_tab qs) maxlen).

Lemma qchain_rel2 : forall l, Forall (fun c => qrefs_ok (length qs) c = true -> forall x i, post_rel2 x i (postproc c x i)) l ->
  forallb (qrefs_ok (length qs)) l = true -> forall x i, post_rel2 x i (qchain_run (qopq_tab qs) maxlen l x i).
Proof.
  induction l as [|c r IH]; intros HF Hop x i; [apply post_rel2_refl|].
  cbn [forallb] in Hop. apply andb_true_iff in Hop. destruct Hop as [Hc Hr].
  inversion HF as [|? ? Hhd Htl]; subst. cbn [qchain_run].
  pose proof (Hhd Hc x i) as H1. destruct (postproc c x i) as [[x1 i1]| |]; cbn [post_rel2] in H1; [|contradiction|exact Logic.I].
  destruct H1 as (-> & Hd & Hp). pose proof (IH Htl Hr x1 i) as H2.
  destruct (qchain_run (qopq_tab qs) maxlen r x1 i) as [[x2 i2]| |]; cbn [post_rel2] in *; [|contradiction|exact Logic.I].
  destruct H2 as (-> & Hd2 & Hp2). repeat split; [congruence|eapply tin_shorter_trans; eassumption].
Qed.

Lemma qpick_rel2 : forall l, Forall (fun c => qrefs_ok (length qs) c = true -> forall x i, post_rel2 x i (postproc c x i)) l ->
  forallb (qrefs_ok (length qs)) l = true -> forall k x i,
  match qpick_run (qopq_tab qs) maxlen l k x i with RErr _ => False | r => post_rel2 x i r end.
Proof.
  induction l as [|c r IH]; intros HF Hop k x i; [exact Logic.I|].
  cbn [forallb] in Hop. apply andb_true_iff in Hop. destruct Hop as [Hc Hr].
  inversion HF as [|? ? Hhd Htl]; subst. cbn [qpick_run]. destruct k as [|k].
  - pose proof (Hhd Hc x i) as H. destruct (postproc c x i) as [[x1 i1]| |]; cbn [post_rel2] in *; auto.
  - exact (IH Htl Hr k x i).
Qed.

Lemma clip_shorter : forall n t, tin_shorter (clip n t) t.
Proof.
  intros n [a p l|a p ls|a p ls|a p tids tp ls]; cbn [clip tin_shorter]; rewrite ?firstn_length; lia.
Qed.

Lemma mask_rel2 : forall q x i, post_rel2 x i (mask_stage q x i).
Proof.
  intros q x i. pose proof (mask_stage_spec q x i) as S. destruct (mask_stage q x i) as [[x' i']|e|s]; cbn [post_rel2];
    [|contradiction|exact Logic.I].
  destruct S as (-> & Hd & Hs & mid & _ & [HL _]). repeat split; [exact Hd|].
  revert Hs HL.
  destruct (x_in x) as [a p l|a p ls|a p ls|a p tids tp ls], (x_in x') as [a' p' l'|a' p' ls'|a' p' ls'|a' p' tids' tp' ls'];
    cbn [same_but_ids tin_shorter tin_ids]; intros Hs HL; try contradiction.
  - rewrite HL. apply le_n.
  - destruct Hs as [_ <-]. rewrite HL. split; apply le_n.
  - destruct Hs as [_ <-]. rewrite HL. split; apply le_n.
  - destruct Hs as (_ & <- & _ & <-). rewrite HL. repeat split; apply le_n.
Qed.

Lemma postproc_rel2 : forall c, qrefs_ok (length qs) c = true -> forall x i, post_rel2 x i (postproc c x i).
Proof.
  induction c using qcfg_ind'; intros Hop x i; cbn [qrefs_ok] in Hop.
  - apply post_rel2_refl.
  - rewrite postproc_chain. apply qchain_rel2; assumption.
  - rewrite postproc_switch. pose proof (qpick_rel2 l H Hop (switch_choice ps (i_seed i)) x i) as Hp.
    destruct (qpick_run _ _ _ _ _ _) as [[x1 i1]| |]; [exact Hp|contradiction|exact Logic.I].
  - rewrite postproc_on_mark. destruct (mark_get k (i_marks i)) as [m|]; [|apply post_rel2_refl].
    destruct (nlist_eqb m v); [|apply post_rel2_refl]. apply qchain_rel2; assumption.
  - rewrite postproc_switch_on_mark. destruct (mark_get k (i_marks i)) as [m|]; [|exact Logic.I].
    destruct (C01_Model.index_of m vs) as [idx|]; [|exact Logic.I].
    pose proof (qpick_rel2 l H Hop idx x i) as Hp.
    destruct (qpick_run _ _ _ _ _ _) as [[x1 i1]| |]; [exact Hp|contradiction|exact Logic.I].
  - cbn [Pipeline_Tasks.postproc post_rel2 x_data x_in]. repeat split. apply clip_shorter.
  - cbn [Pipeline_Tasks.postproc]. unfold qopq_tab. apply Nat.ltb_lt in Hop.
    destruct (nth_error qs id) as [q|] eqn:E; [apply mask_rel2|]. apply nth_error_None in E. lia.
Qed.
End PostAll.

(** * the masking loop is total: with at least two maskable tokens every round makes progress, so the outer loop never
    runs out of its fuel unless the sampler does *)
Lemma mask_loop_total : forall fuel g p' mn nm npfx mid i ids st,
  (1 <= mn)%N -> 2 <= nm -> nm - i < fuel ->
  mask_loop fuel g p' mn nm npfx mid i ids st = MkFuel ->
  exists st', geo_sample geo_fuel g st' = GSFuel.
Proof.
  induction fuel as [|f IH]; intros g p' mn nm npfx mid i ids st Hmn Hnm Hf H; [lia|].
  cbn [mask_loop] in H. destruct (Nat.leb nm i) eqn:Ei; [discriminate|]. apply Nat.leb_gt in Ei.
  destruct (random_f64 st) as [u st1]. destruct (fgt (Fin u (-53)) p').
  - eapply IH; [exact Hmn|exact Hnm| |exact H]. lia.
  - destruct (geo_sample geo_fuel g st1) as [x st2| | |] eqn:Es; try discriminate; [|exists st1; exact Es].
    destruct (p64 <=? x + mn)%N; [discriminate|].
    set (n := N.to_nat (N.min (N.min (x + mn) (N.of_nat (nm / 2))) (N.of_nat (nm - i)))) in H.
    assert (Hn : 1 <= n).
    { unfold n. assert (1 <= nm / 2) by (apply Nat.div_le_lower_bound; lia). lia. }
    eapply IH; [exact Hmn|exact Hnm| |exact H]. lia.
Qed.

(** * SpellingCorruption, every mode: C15's theorems at the stage *)
Lemma spell_ctor_run : forall prob fd m seed s, spell_ctor_ok prob m = true ->
  spell_text (smode_no m) fd prob (smode_pc m) (smode_art m) (smode_items m) (smode_miss m) seed s <> SpPanicProb /\
  spell_text (smode_no m) fd prob (smode_pc m) (smode_art m) (smode_items m) (smode_miss m) seed s <> SpPanicKey.
Proof.
  intros prob fd m seed s H. unfold spell_ctor_ok in H. apply andb_true_iff in H. destruct H as [Hp Ht].
  unfold spell_text. rewrite Hp. cbn [negb].
  destruct (mode_probs _ _ _ _) as [[a r] pc'].
  destruct (has_tables (smode_no m)).
  - destruct (build_tables (smode_items m)); [|discriminate].
    destruct (spell_words_t _ _ _ _ _ _ _) as [[l st]|]; split; discriminate.
  - destruct (spell_words_t _ _ _ _ _ _ _) as [[l st]|]; split; discriminate.
Qed.

(** inside C15's domain (a positive probability, sane dictionary entries, no empty list of misspellings, sizes below
    the machine limits) the stage returns a text for every seed: no Err, no panic *)
Lemma spell_x_defined : forall prob fd m seed s,
  dom_ok (smode_no m) fd prob (smode_items m) (smode_miss m) s = true ->
  exists t, spell_x prob fd m seed s = ROk t.
Proof.
  intros prob fd m seed s H.
  destruct (spell_text_total_l (smode_no m) fd prob (smode_pc m) (smode_art m) (smode_items m) (smode_miss m) seed s H)
    as [t Ht].
  exists t. unfold spell_x. rewrite Ht. reflexivity.
Qed.

(** what it returns: the whitespace-separated words in order, joined by one space; each word is itself, one of its
    misspellings (or the word with one regex part replaced by a misspelling of that part), or the end of a chain of
    edit_word calls under the mode's tables; dropped when empty *)
Lemma spell_x_words : forall prob fd m seed s t,
  (has_tables (smode_no m) = true -> items_sane (smode_items m) = true) ->
  spell_x prob fd m seed s = ROk t ->
  exists wc os, mode_cfg (smode_no m) fd (smode_items m) = Some wc /\
                Forall2 (word_result_t wc (mode_miss (smode_no m) (smode_miss m))) (split_ws s) os /\
                t = join_sp (keep_some os).
Proof.
  intros prob fd m seed s t Hs H. unfold spell_x in H.
  destruct (spell_text _ _ _ _ _ _ _ _ _) as [t'| | |] eqn:E; try discriminate. injection H as <-.
  exact (spell_text_spec_l _ _ _ _ _ _ _ _ _ _ Hs E).
Qed.

(** * ChatDecode *)
Lemma is_prefix_app : forall p s, is_prefix p (p ++ s) = true.
Proof. induction p as [|a p IH]; intros s; [destruct s; reflexivity|]. cbn. rewrite N.eqb_refl. apply IH. Qed.

Lemma replace_skip : forall pat t k s, replace_pat pat t k s = replace_pat pat t 0 (skipn k s).
Proof.
  intros pat t k s. revert k. induction s as [|c r IH]; intros k; [destruct k; reflexivity|].
  destruct k as [|k]; [reflexivity|]. cbn [replace_pat skipn]. apply IH.
Qed.

Lemma find_pat_none_head : forall pat s, find_pat pat s = None -> is_prefix pat s = false.
Proof.
  intros pat s H. destruct s as [|c r]; cbn [find_pat] in H; destruct (is_prefix pat _); try discriminate; reflexivity.
Qed.

Lemma replace_none : forall pat t s, find_pat pat s = None -> replace_pat pat t 0 s = s.
Proof.
  intros pat t. induction s as [|c r IH]; intros H; [reflexivity|].
  pose proof (find_pat_none_head _ _ H) as Hp. cbn [replace_pat]. rewrite Hp. f_equal. apply IH.
  cbn [find_pat] in H. rewrite Hp in H. destruct (find_pat pat r); [discriminate|reflexivity].
Qed.

Lemma is_prefix_length : forall p s, is_prefix p s = true -> length p <= length s.
Proof.
  induction p as [|a p IH]; intros s H; [cbn; lia|]. destruct s as [|b s]; [discriminate|].
  cbn in H. apply andb_true_iff in H. destruct H as [_ H]. apply IH in H. cbn [length]. lia.
Qed.

(** the first occurrence: what is in front of it is copied, the pattern is replaced, the rest is processed on *)
Lemma replace_at : forall pat t s k, pat <> [] -> find_pat pat s = Some k ->
  replace_pat pat t 0 s = firstn k s ++ t ++ replace_pat pat t 0 (skipn (k + length pat) s).
Proof.
  intros pat t s k Hne. revert k. induction s as [|c r IH]; intros k H.
  - cbn [find_pat] in H. destruct (is_prefix pat []) eqn:E; [|discriminate].
    apply is_prefix_length in E. destruct pat; [contradiction|cbn in E; lia].
  - cbn [find_pat] in H. destruct (is_prefix pat (c :: r)) eqn:E.
    + injection H as <-. cbn [replace_pat firstn app]. rewrite E. f_equal.
      rewrite replace_skip. f_equal. destruct pat as [|a p]; [contradiction|]. cbn [length].
      replace (S (length p) - 1) with (length p) by lia. reflexivity.
    + destruct (find_pat pat r) as [k'|] eqn:Ef; [|discriminate]. cbn [option_map] in H. injection H as <-.
      cbn [replace_pat firstn skipn plus app]. rewrite E. f_equal. apply IH. reflexivity.
Qed.

(** a role template with exactly one {text} (what [ChatTemplate::new], the Python constructor, demands) at position k:
    a complete message is  template[..k] ++ text ++ template[k+6..]  — whatever the text contains, it is not scanned
    again — and a partial message is that without the tail *)
Lemma template_once : forall tpl k text, find_pat PAT_TEXT tpl = Some k ->
  find_pat PAT_TEXT (skipn (k + 6) tpl) = None ->
  replace_pat PAT_TEXT text 0 tpl = firstn k tpl ++ text ++ skipn (k + 6) tpl.
Proof.
  intros tpl k text H1 H2. rewrite (replace_at PAT_TEXT text tpl k ltac:(discriminate) H1).
  change (length PAT_TEXT) with 6. rewrite (replace_none _ _ _ H2). reflexivity.
Qed.

Lemma chat_single_message : forall t role text partial tpl k,
  role_get role (ct_roles t) = Some tpl -> find_pat PAT_TEXT tpl = Some k ->
  find_pat PAT_TEXT (skipn (k + 6) tpl) = None ->
  chat_format t [mk_cm text role partial] =
  ROk (ostr (ct_start t) ++ firstn k tpl ++ text ++ (if partial then [] else skipn (k + 6) tpl ++ ostr (ct_end t))).
Proof.
  intros t role text partial tpl k Hr H1 H2. unfold chat_format. cbn [chat_msgs cm_role cm_partial cm_text].
  rewrite Hr. destruct partial.
  - rewrite H1. rewrite app_nil_r. reflexivity.
  - cbn [chat_msgs]. rewrite (template_once tpl k text H1 H2). rewrite <- !app_assoc. reflexivity.
Qed.

(** messages are formatted one after the other: the text of [m :: r] is the text of [m] followed by that of [r] *)
Lemma chat_msgs_acc : forall roles msgs acc,
  chat_msgs roles msgs acc =
  match chat_msgs roles msgs [] with
  | ROk (t, p) => ROk (acc ++ t, p)
  | RErr e => RErr e
  | RPanic s => RPanic s
  end.
Proof.
  intros roles. induction msgs as [|m r IH]; intros acc; cbn [chat_msgs]; [rewrite app_nil_r; reflexivity|].
  destruct (role_get (cm_role m) roles) as [tpl|]; [|reflexivity].
  destruct (cm_partial m).
  - destruct r; [|reflexivity]. destruct (find_pat PAT_TEXT tpl); [|reflexivity]. reflexivity.
  - rewrite IH. rewrite (IH ([] ++ _)). cbn [app].
    destruct (chat_msgs roles r []) as [[t p]| |]; [|reflexivity|reflexivity]. rewrite app_assoc. reflexivity.
Qed.

(** * the executable statements of the new lines hold of the model's own output *)
Lemma res_x_shape : forall v r, check_item v (res_x_v r) = true \/ res_x_v r = v_fuel_out \/ res_x_v r = v_outside.
Proof.
  intros v [y|e|s]; cbn [res_x_v].
  - left. destruct (x_in y); reflexivity.
  - left. reflexivity.
  - destruct s as [|p]; [auto|]. do 5 (try (destruct p as [p|p|]; auto)).
Qed.

Lemma check_run_item_x : forall v,
  check_item v (run_item_x v) = true \/ run_item_x v = v_fuel_out \/ run_item_x v = v_outside.
Proof.
  intros v. unfold run_item_x. destruct (map_opt v_qstage _) as [qs|]; [|left; reflexivity].
  destruct (negb _ || negb _ || negb _ || negb _ || negb _); [right; right; reflexivity|].
  destruct (v_task (v_nth 2 v)) as [t|]; [|left; reflexivity].
  destruct (negb _ || negb _ || negb _ || negb _); [left; reflexivity|]. apply res_x_shape.
Qed.

Lemma check_run_bloader_x : forall v,
  check_loader v (run_bloader_x v) = true \/ run_bloader_x v = v_panic \/ run_bloader_x v = v_fuel_out
  \/ run_bloader_x v = v_outside.
Proof.
  intros v. unfold run_bloader_x. destruct (map_opt v_qstage _) as [qs|]; [|left; reflexivity].
  destruct (negb _ || negb _ || negb _ || negb _ || negb _); [auto|].
  destruct (v_task (v_nth 6 v)) as [t|]; [|left; reflexivity].
  destruct (negb _ || negb _); [left; reflexivity|].
  destruct (loader_run_tb _ _ _ _ _ _ _ _ _ _ _ _ _ _ _ _ _ _ _ _) as [m bs| | |]; auto.
Qed.

Lemma check_run_mask : forall v,
  check_mask v (run_mask v) = true \/ run_mask v = v_fuel_out \/ run_mask v = v_outside.
Proof.
  intros v. unfold run_mask. destruct (v_qstage (v_nth 1 v)) as [q|]; [|left; reflexivity].
  destruct (negb (qstage_dom q)); [auto|]. destruct (negb (qstage_ok q)); [left; reflexivity|].
  set (x := mk_xitem _ _). set (i := mk_info _ _ _).
  pose proof (mask_stage_spec q x i) as S. destruct (mask_stage q x i) as [[x' i']|e|s].
  - left. destruct S as (_ & _ & _ & mid & _ & [HL _]). cbn [check_mask].
    assert (Hk : forall z ids, length (tin_ids (match z with
                                                 | 0%Z => TIClass ids 0%N 0%Z
                                                 | 1%Z => TISeq ids 0%N []
                                                 | 2%Z => TIGen ids 0%N []
                                                 | _ => TICond ids 0%N [] 0%N []
                                                 end)) = length ids).
    { intros z ids. destruct z as [|p|p]; [reflexivity| |reflexivity].
      destruct p as [p|p|]; [reflexivity| |reflexivity]. destruct p; reflexivity. }
    unfold list_v. rewrite map_length. rewrite HL. unfold x. cbn [x_in]. rewrite Hk. apply Nat.eqb_refl.
  - contradiction.
  - destruct s as [|p]; [auto|]. do 5 (try (destruct p as [p|p|]; auto)).
Qed.

(** * the loader: a delivered item is a function of (configurations, tables, line, seed + epoch + position) — for every
    configuration over the stage tables, whatever file the line came from and whatever rank / world / skip / offset
    delivers it (C08_BytesProofs.g_item_by_index composed with the purity theorem above) *)
From TU Require Import C08_Model C08_EndToEnd C08_BytesProofs.

Lemma stage_item_by_position : forall st qs c tk q maxlen seed epoch data lim skip ff rank W i t,
  In (i, t) (loader_items data (g_fn (pipe_res_t (opq_tab st) (qopq_tab qs) (PGlobal c) tk (QGlobal q) maxlen seed epoch))
                          lim skip ff rank W) ->
  exists fl line, nth i data None = Some (fl, line) /\
    forall fl', pipeline_t (opq_tab st) (qopq_tab qs) (PGlobal c) tk (QGlobal q) maxlen line (item_info seed epoch i fl')
                = ROk t.
Proof.
  intros st qs c tk q maxlen seed epoch data lim skip ff rank W i t H.
  destruct (g_item_by_index _ _ _ _ _ _ _ _ _ H) as ([fl line] & Hd & Hp).
  exists fl, line. split; [exact Hd|]. intros fl'. unfold pipe_res_t in Hp. cbn [fst snd] in Hp. rewrite <- Hp.
  apply pipeline_tab_function_of_seed; reflexivity.
Qed.

(** * the misspellings map: [miss_put] is [HashMap::insert] as seen by [miss_lookup] — the last list given for a key is the
    one that is found, the other keys are untouched *)
Lemma neq_refl : forall l, nlist_eqb l l = true.
Proof. intros l. apply C01_Proofs.nlist_eqb_eq. reflexivity. Qed.

Lemma miss_put_same : forall m k v, miss_lookup (miss_put k v m) k = Some v.
Proof.
  induction m as [|[k' v'] r IH]; intros k v; cbn [miss_put miss_lookup].
  - rewrite neq_refl. reflexivity.
  - destruct (nlist_eqb k k') eqn:E; cbn [miss_lookup]; [rewrite neq_refl; reflexivity|].
    rewrite E. apply IH.
Qed.

Lemma miss_put_other : forall m k v w, nlist_eqb w k = false -> miss_lookup (miss_put k v m) w = miss_lookup m w.
Proof.
  induction m as [|[k' v'] r IH]; intros k v w Hw; cbn [miss_put miss_lookup].
  - rewrite Hw. reflexivity.
  - destruct (nlist_eqb k k') eqn:E; cbn [miss_lookup].
    + rewrite Hw. apply C01_Proofs.nlist_eqb_eq in E. subst k'. rewrite Hw. reflexivity.
    + destruct (nlist_eqb w k'); [reflexivity|]. apply IH. exact Hw.
Qed.

Lemma miss_put_spec : forall m k v,
  miss_lookup (miss_put k v m) k = Some v /\
  forall w, nlist_eqb w k = false -> miss_lookup (miss_put k v m) w = miss_lookup m w.
Proof. intros m k v. split; [apply miss_put_same|intros w Hw; apply miss_put_other; exact Hw]. Qed.

(** * ChatDecode decodes what serde_json writes *)
Lemma typed_string_print : forall s k, typed_string (jstr_k s k) = Some (s, k).
Proof. intros s k. unfold typed_string, jstr_k. change (skip_ws (34%N :: ?x)) with (34%N :: x). cbv iota beta.
  change (34 =? 34)%N with true. cbv iota. apply pstr_esc. Qed.

Lemma typed_bool_print : forall b k, typed_bool (jbool b ++ 125%N :: k) = Some (b, 125%N :: k).
Proof. intros [|] k; reflexivity. Qed.

Lemma map_text_first : forall f V r p,
  msg_map (S f) true (34%N :: K_TEXT ++ 34%N :: 58%N :: V) None r p =
  match typed_string V with Some (x, s5) => msg_map f false s5 (Some x) r p | None => None end.
Proof. reflexivity. Qed.

Lemma map_role_next : forall f V t p,
  msg_map (S f) false (44%N :: 34%N :: K_ROLE ++ 34%N :: 58%N :: V) t None p =
  match typed_string V with Some (x, s5) => msg_map f false s5 t (Some x) p | None => None end.
Proof. reflexivity. Qed.

Lemma map_partial_next : forall f V t r,
  msg_map (S f) false (44%N :: 34%N :: K_PARTIAL ++ 34%N :: 58%N :: V) t r None =
  match typed_bool V with Some (b, s5) => msg_map f false s5 t r (Some b) | None => None end.
Proof. reflexivity. Qed.

Lemma map_end : forall f rest t r b,
  msg_map (S f) false (125%N :: rest) (Some t) (Some r) (Some b) = Some (mk_cm t r b, rest).
Proof. reflexivity. Qed.

Lemma typed_msg_print : forall m rest, typed_msg (print_msg_k m rest) = Some (m, rest).
Proof.
  intros [t r b] rest. unfold typed_msg, print_msg_k. cbn [cm_text cm_role cm_partial].
  change (skip_ws (123%N :: ?x)) with (123%N :: x). cbv iota beta.
  change (123 =? 123)%N with true. cbv iota.
  set (V3 := jbool b ++ 125%N :: rest).
  set (V2 := jstr_k r (44%N :: 34%N :: K_PARTIAL ++ 34%N :: 58%N :: V3)).
  set (V1 := jstr_k t (44%N :: 34%N :: K_ROLE ++ 34%N :: 58%N :: V2)).
  change (length (34%N :: K_TEXT ++ 34%N :: 58%N :: V1)) with (S (S (S (S (S (S (S (length V1)))))))).
  rewrite map_text_first. unfold V1 at 1. rewrite typed_string_print.
  rewrite map_role_next. unfold V2 at 1. rewrite typed_string_print.
  rewrite map_partial_next. unfold V3 at 1. rewrite typed_bool_print.
  rewrite map_end. reflexivity.
Qed.


Lemma seq_end : forall f first rest, msgs_seq (S f) first (93%N :: rest) = Some ([], rest).
Proof. reflexivity. Qed.

Lemma seq_first : forall f m T,
  msgs_seq (S f) true (print_msg_k m T) =
  match typed_msg (print_msg_k m T) with
  | Some (m', s2) => match msgs_seq f false s2 with Some (l, s3) => Some (m' :: l, s3) | None => None end
  | None => None
  end.
Proof. reflexivity. Qed.

Lemma seq_next : forall f m T,
  msgs_seq (S f) false (44%N :: print_msg_k m T) =
  match typed_msg (print_msg_k m T) with
  | Some (m', s2) => match msgs_seq f false s2 with Some (l, s3) => Some (m' :: l, s3) | None => None end
  | None => None
  end.
Proof. reflexivity. Qed.

Lemma tail_ok : forall l f rest, length l < f -> msgs_seq f false (print_tail l rest) = Some (l, rest).
Proof.
  induction l as [|m r IH]; intros f rest Hf; (destruct f as [|f]; [lia|]); cbn [print_tail].
  - apply seq_end.
  - cbn [length] in Hf. assert (Hf' : length r < f) by (apply Nat.succ_lt_mono; exact Hf).
    rewrite seq_next, typed_msg_print, (IH f rest Hf'). reflexivity.
Qed.

Lemma len_jstr : forall s k, length k < length (jstr_k s k).
Proof. intros s k. unfold jstr_k. cbn [length]. rewrite app_length. cbn [length]. lia. Qed.

Lemma len_msg : forall m T, length T < length (print_msg_k m T).
Proof.
  intros m T. unfold print_msg_k.
  set (V3 := jbool (cm_partial m) ++ 125%N :: T).
  set (X2 := 44%N :: 34%N :: K_PARTIAL ++ 34%N :: 58%N :: V3).
  set (X1 := 44%N :: 34%N :: K_ROLE ++ 34%N :: 58%N :: jstr_k (cm_role m) X2).
  assert (H3 : length T < length V3) by (unfold V3; rewrite app_length; cbn [length]; lia).
  assert (H2 : length V3 < length X2) by (unfold X2; cbn [length]; rewrite app_length; cbn [length]; lia).
  pose proof (len_jstr (cm_role m) X2) as H2'.
  assert (H1 : length (jstr_k (cm_role m) X2) < length X1) by (unfold X1; cbn [length]; rewrite app_length; cbn [length]; lia).
  pose proof (len_jstr (cm_text m) X1) as H1'.
  cbn [length]. rewrite app_length. cbn [length]. unfold cp in *. lia.
Qed.

Lemma len_tail : forall l rest, length l < length (print_tail l rest).
Proof.
  induction l as [|m r IH]; intros rest; cbn [print_tail length]; [lia|].
  pose proof (len_msg m (print_tail r rest)). pose proof (IH rest). lia.
Qed.

(** what serde_json writes for a list of chat messages is decoded to exactly that list, whatever the texts and role names
    contain (quotes, backslashes, control characters, "{text}", non-ASCII) *)
Theorem chat_roundtrip_l : forall l, chat_of_text (print_chat l) = Some l.
Proof.
  intros l. unfold chat_of_text, print_chat. change (skip_ws (91%N :: ?x)) with (91%N :: x). cbv iota beta.
  change (91 =? 91)%N with true. cbv iota.
  destruct l as [|m r].
  - reflexivity.
  - rewrite seq_first, typed_msg_print.
    rewrite tail_ok; [reflexivity|].
    pose proof (len_msg m (print_tail r [])). pose proof (len_tail r []). lia.
Qed.

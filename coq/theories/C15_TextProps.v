(** C15 — pinned statements about the parts of [corrupt_spelling] that used to be oracles or harness code:
    the Unicode class tests behind can_delete / can_swap (C15_Classes, from UCD_Model), the construction of
    the insertion / replacement tables from the character 3-gram dictionary (C15_Tables), and the closure
    itself as a function of the TEXT in all three modes (C15_Spell).  Nothing but statements, [exact],
    assumption audits and examples.

    Vocabulary.  [cd_u w] / [cs_u w]: can_delete per cluster ([str_is_alphabetic c || str_is_punctuation c])
    and can_swap per adjacent pair (both alphabetic) computed from the clusters with UCD_Model;
    [alpha_cl c]: every code point of [c] satisfies [char::is_alphabetic]; [punct_cl c]: [c] is non-empty
    and every code point is in \p{P}; [fixed_u w]: the clusters of [w] that are neither, in order.
    [item] = (dictionary key, frequency, the binary64 result of freq.powf(1/T)); [build_tables items] = [TOk it rt]
    (insertion table keyed (prev, next), replacement table keyed (prev, cur, next)) or [TPanic] (a key that
    passed the relative-frequency filter is not a 3-gram); [build_tables_pinned]: with the sort key of the
    pinned commit; [items_wf]: distinct keys, scalar strings; [items_sane]: the powf results are canonical
    normal binary64 values below 2^960 and there are fewer than 2^53 items.
    [chain_text c n x ex st]: n chained [edit_word] calls on TEXTS, every call on [segment] of the text the
    previous one returned; [chain_g]: its relational counterpart; [spell_text]: the whole closure. *)
From TU Require Import RNG_Model RNG_Proofs.
From TU Require Import Base UCD_Model UAX29_Model C15_Model C15_Proofs C15_Seeded C15_SeededFloat C15_SeededProofs.
From TU Require Import C15_Seam C15_Classes C15_Tables C15_TablesProofs C15_TablesFloat C15_Spell C15_SpellProofs C15_SpellTotal.
From Coq Require Import Lia Permutation.
Close Scope N_scope.
Open Scope nat_scope.

(** * (a) the class tests inside the model: statements about the clusters of the word alone *)

(** delete_class_u: whatever one call deletes is alphabetic or punctuation — for every configuration,
    word, exclusion set; [cd_u] / [cs_u] are computed, there is no predicate premise *)
Theorem delete_class_u : forall c w ex l i,
  choices c (cd_u w) (cs_u w) w ex = Some l -> In (EDel i) l ->
  exists cl, nth_error w i = Some cl /\ (alpha_cl cl \/ punct_cl cl).
Proof.
  intros c w ex l i H Hin. destruct (choices_del_class c w ex l i H Hin) as (cl & Hn & Hd).
  exists cl. split; [exact Hn|]. apply can_delete_spec. exact Hd.
Qed.
Print Assumptions delete_class_u.

(** swap_class_u: the two characters one call swaps are both alphabetic *)
Theorem swap_class_u : forall c w ex l i,
  choices c (cd_u w) (cs_u w) w ex = Some l -> In (ESwap i) l ->
  exists a b, nth_error w i = Some a /\ nth_error w (S i) = Some b /\ alpha_cl a /\ alpha_cl b.
Proof.
  intros c w ex l i H Hin. destruct (choices_swap_class c w ex l i H Hin) as (a & b & Ha & Hb & Hs).
  exists a, b. split; [exact Ha|]. split; [exact Hb|]. apply can_swap_spec. exact Hs.
Qed.
Print Assumptions swap_class_u.

(** seeded_class_u: the same of the seeded function, for EVERY generator state, on the extended grapheme
    clusters of a text *)
Theorem seeded_class_u : forall wc x ex st k st',
  wf st -> wtabs_ok wc = true ->
  edit_word_seeded wc (cd_u (segment x)) (cs_u (segment x)) (segment x) ex st = SOk k st' ->
  match k with
  | EDel i => exists cl, nth_error (segment x) i = Some cl /\ (alpha_cl cl \/ punct_cl cl)
  | ESwap i => exists a b, nth_error (segment x) i = Some a /\ nth_error (segment x) (S i) = Some b /\
                           alpha_cl a /\ alpha_cl b
  | _ => True
  end.
Proof.
  intros wc x ex st k st' Hw Hok H. pose proof (seeded_class_l wc (segment x) ex st k st' Hw Hok H) as C.
  destruct k; try exact Logic.I; cbn [class_of_edit] in C.
  - destruct C as (cl & Hn & Hd). exists cl. split; [exact Hn|apply can_delete_spec; exact Hd].
  - destruct C as (a & b & Ha & Hb & Hs). exists a, b. split; [exact Ha|]. split; [exact Hb|apply can_swap_spec; exact Hs].
Qed.
Print Assumptions seeded_class_u.

(** chain_seeded_u: the seeded chain under the model's predicates is a chain of the relational model in which
    every call used [cd_u] / [cs_u] of the word it was given *)
Theorem chain_seeded_u : forall wc n w ex st w' ex' st', wf st -> wtabs_ok wc = true ->
  chain_seeded wc pf_u n w ex st = Some (w', ex', st') ->
  wf st' /\ chain_u (erase wc) n (w, ex) (w', ex') /\ chain (erase wc) n (w, ex) (w', ex').
Proof.
  intros wc n w ex st w' ex' st' Hw Hok H. destruct (chain_seeded_chain_u wc n w ex st w' ex' st' Hw Hok H) as [A B].
  split; [exact A|]. split; [exact B|apply chain_u_chain; exact B].
Qed.
Print Assumptions chain_seeded_u.

(** undeletable_kept_u: without insertions and replacements (no character dictionary: realistic mode, or no
    file) any number of chained calls leaves the characters that are neither alphabetic nor punctuation —
    digits, symbols, emoji, base + combining mark — exactly as they were, in order *)
Theorem undeletable_kept_u : forall c n w ex w' ex',
  k_ins c = false -> k_rep c = false -> chain_u c n (w, ex) (w', ex') -> fixed_u w' = fixed_u w.
Proof. intros c n w ex w' ex' Hi Hr H. exact (fixed_chain_l c Hi Hr n (w, ex) (w', ex') H). Qed.
Print Assumptions undeletable_kept_u.

(** classes_checked: in an input accepted by the class clause of the correspondence every per-call
    predicate list IS the model's, so the relational and the seeded line judged the implementation
    against [cd_u] / [cs_u] *)
Theorem classes_checked : forall v,
  is_e2e v = false -> Z.eqb (stream_of v) 3 = false -> real_preds v = true -> classes_ok v = true ->
  Forall (fun s => s_cd s = cd_u (s_w s) /\ s_cs s = cs_u (s_w s)) (v_steps v).
Proof. exact classes_ok_steps. Qed.
Print Assumptions classes_checked.

(** * (b) the tables *)

(** tables_content: the tables are a function of the dictionary CONTENT — any two listings of the same
    items (what iterating the HashMap can yield) give the same tables, edit for edit, weight for weight *)
Theorem tables_content : forall items items',
  items_wf items -> Permutation items items' -> build_tables items = build_tables items'.
Proof. exact tables_content_l. Qed.
Print Assumptions tables_content.

(** tables_pinned_refuted: with the sort key of the pinned commit ([Reverse(freq)] alone) they are not — D13 *)
Theorem tables_pinned_refuted :
  exists items items', items_wf items /\ Permutation items items' /\
    build_tables_pinned items <> build_tables_pinned items' /\ build_tables items = build_tables items'.
Proof. exact tables_pinned_refuted_l. Qed.
Print Assumptions tables_pinned_refuted.

(** the sorted sequence is sorted by falling frequency, ties by the bytes of the key, and is a permutation *)
Theorem tables_order : forall items,
  Permutation items (sort_by item_leb items) /\
  Sorted.StronglySorted (fun a b => item_leb a b = true) (sort_by item_leb items).
Proof.
  intros items. split; [apply sort_perm|apply sort_sorted; [exact item_leb_total|exact item_leb_trans]].
Qed.
Print Assumptions tables_order.

(** itab_spec: what [InsertEdits::get_edits] finds for a context (prev, next): exactly the kept 3-grams
    (prev, cur, next), in the sorted order, each [cur] with the weight of its own item; no entry for a
    context without such a 3-gram *)
Theorem itab_spec : forall items it rt,
  build_tables items = TOk it rt ->
  exists gs, grams_of (kept_sorted item_leb items) = Some gs /\
    forall p n, sins_lookup it p n = match filter (g_ctx p n) gs with [] => None | l => Some (map g_edit l) end.
Proof.
  intros items it rt H. unfold build_tables, build_tables_by in H.
  destruct (grams_of (kept_sorted item_leb items)) as [gs|]; [|discriminate]. injection H as <- _.
  exists gs. split; [reflexivity|]. intros p n. apply itab_lookup_spec.
Qed.
Print Assumptions itab_spec.

(** edit_origin: every edit of every insertion entry comes from a dictionary item that passed the filter,
    whose key splits into (prev, edit, next) with (prev, next) the entry's context, and carries that item's
    powf result as its weight *)
Theorem edit_origin : forall items it rt p n es c w,
  build_tables items = TOk it rt -> In (p, n, es) it -> In (c, w) es ->
  exists x, In x items /\ keep_item (f_of_N (freq_sum items)) x = true /\
            split3 (it_key x) = Some (p, c, n) /\ it_w x = w.
Proof. exact itab_edit_origin. Qed.
Print Assumptions edit_origin.

(** rtab_spec: the replacement entries are exactly the insertion entries with one position removed, keyed by
    the removed edit string; an entry that would be empty is not built *)
Theorem rtab_spec : forall items it rt p cur n es,
  build_tables items = TOk it rt ->
  (In (p, cur, n, es) rt <->
   exists es0 i w, In (p, n, es0) it /\ nth_error es0 i = Some (cur, w) /\ es = remove_nth i es0 /\ es <> []).
Proof.
  intros items it rt p cur n es H. unfold build_tables, build_tables_by in H.
  destruct (grams_of (kept_sorted item_leb items)) as [gs|]; [|discriminate]. injection H as <- <-.
  apply rtab_In.
Qed.
Print Assumptions rtab_spec.

(** tables_nonempty: no empty edit list is ever built *)
Theorem tables_nonempty : forall items it rt,
  build_tables items = TOk it rt ->
  (forall p n es, In (p, n, es) it -> es <> []) /\ (forall p c n es, In (p, c, n, es) rt -> es <> []).
Proof.
  intros items it rt H. split.
  - intros p n es Hin. unfold build_tables, build_tables_by in H.
    destruct (grams_of (kept_sorted item_leb items)) as [gs|]; [|discriminate]. injection H as <- _.
    exact (proj2 (itab_entry_spec _ _ _ _ Hin)).
  - intros p c n es Hin. apply (rtab_spec items it rt p c n es H) in Hin as (_ & _ & _ & _ & _ & _ & Hne). exact Hne.
Qed.
Print Assumptions tables_nonempty.

(** tables_wtabs_ok: the premise of C15's seeded theorems ([wtabs_ok]: canonical weights, every entry's
    total a NORMAL number — "out of domain: an entry with an empty edit list, all-zero weights, a
    non-finite or subnormal total") holds of every table [corrupt_spelling] builds, given only that the powf
    results are sane *)
Theorem tables_wtabs_ok : forall items it rt fd,
  items_sane items = true -> build_tables items = TOk it rt -> wtabs_ok (spell_cfg_of fd it rt) = true.
Proof. exact tables_wtabs_ok_l. Qed.
Print Assumptions tables_wtabs_ok.

(** spell_call_total: hence a call of [edit_word] with these tables and the model's predicates never panics
    ("invalid weights", empty range, provider fault), for every word, exclusion set and generator state *)
Theorem spell_call_total : forall items it rt fd w ex st,
  items_sane items = true -> build_tables items = TOk it rt -> wf st -> (N.of_nat (S (length w)) < p64)%N ->
  exists k st', edit_word_seeded (spell_cfg_of fd it rt) (cd_u w) (cs_u w) w ex st = SOk k st'.
Proof. exact spell_call_total_l. Qed.
Print Assumptions spell_call_total.

(** sane_weights_total: a non-empty list of fewer than 2^53 canonical normal weights below 2^960 passes
    [WeightedIndex::new] with a finite normal total (binary64 sums, every rounding accounted for) *)
Theorem sane_weights_total : forall ws, ws <> [] -> Forall (fun w => w_sane w = true) ws ->
  (N.of_nat (length ws) < t53)%N -> weights_ok ws = true.
Proof. exact sane_weights_ok. Qed.
Print Assumptions sane_weights_total.

(** fround_lower: binary64 rounding of RNG_Model never falls below a representable lower bound
    (with [fround_upper] of C15_SeededProps: rounding is monotone around representable values) *)
Theorem fround_lower : forall m e My Ey, fcan My Ey -> dle My Ey m e ->
  match fround m e with Fin q e2 => dle My Ey q e2 | FInf => True | _ => False end.
Proof. exact fround_ge. Qed.
Print Assumptions fround_lower.

(** * (c) the closure on texts *)

(** chain_text_chain: the chained calls of corrupt_spelling, each on the extended grapheme clusters of the
    text the previous call returned, with the model's own predicates: every step is an element of the
    relational choice set of that call (so one_edit, excluded_untouched, excl_reindexed ... of C15_Props hold of
    it w.r.t. the clusters of THAT text) *)
Theorem chain_text_chain : forall wc n x ex st x' ex' st', wf st -> wtabs_ok wc = true ->
  chain_text wc n x ex st = Some (x', ex', st') -> wf st' /\ chain_g (erase wc) n (x, ex) (x', ex').
Proof. exact chain_text_g. Qed.
Print Assumptions chain_text_chain.

Theorem chain_g_steps : forall c n x ex s', chain_g c (S n) (x, ex) s' ->
  exists k, valid_ed c (segment x) ex k /\ class_of_edit (segment x) k /\
            chain_g c n (concat (apply_word k (segment x)), apply_excl k ex) s'.
Proof. exact chain_g_step. Qed.
Print Assumptions chain_g_steps.

(** chain_text_safe: on an [edit_safe] word (C15_Seam: all clusters of the word and of the positive-weight
    table strings are clusters on their own and glued in every order) re-segmenting between the calls
    changes nothing: the chain on texts is the chain on cluster lists, the returned exclusion set lies inside
    the segmentation of the returned text, and the unprotected characters of the result are a subsequence of
    the original ones ([chain_inv], [chain_fresh] hold of what corrupt_spelling does in grapheme mode) *)
Theorem chain_text_safe : forall wc n x st x' ex' st', wf st -> wtabs_ok wc = true ->
  edit_safe (erase wc) (segment x) = true ->
  chain_text wc n x [] st = Some (x', ex', st') ->
  chain (erase wc) n (segment x, []) (segment x', ex') /\
  in_range (segment x') ex' /\ subseq (unprot (segment x') ex') (segment x).
Proof. exact chain_text_safe_l. Qed.
Print Assumptions chain_text_safe.

(** spell_text_spec: the whole closure, every mode, every seed, text, dictionary and misspelling list: the
    output is the words of the text ([split_whitespace]), in order, joined by one space, each of them
      - itself, or
      - (modes with misspellings) one of the listed misspellings of the word, or, when the word has none,
        the word with ONE of its regex parts ([split_words]) replaced by one of that part's misspellings, or
      - the end of a chain of 1 .. max(1, number of clusters) [edit_word] calls from the empty exclusion set,
        dropped when it is empty;
    with a character dictionary the premise is only that the powf results are sane *)
Theorem spell_text_spec : forall mode fd prob pc art items m seed text t,
  (has_tables mode = true -> items_sane items = true) ->
  spell_text mode fd prob pc art items m seed text = SpText t ->
  exists wc os, mode_cfg mode fd items = Some wc /\
                Forall2 (word_result_t wc (mode_miss mode m)) (split_ws text) os /\ t = join_sp (keep_some os).
Proof. exact spell_text_spec_l. Qed.
Print Assumptions spell_text_spec.

(** real_word_draws: the misspelling branch draws [random_range(0..#misspellings)] once for a listed word;
    for a word with replaceable parts [random_range(0..#such parts)] and then [random_range(0..#misspellings
    of that part)]; nothing when it falls through — at most two sampler calls, and the generator moves by
    exactly them *)
Theorem real_word_draws_spec : forall m word parts st o st',
  real_word m word parts st = Some (o, st') ->
  snd (run_calls (real_word_draws m word parts st) st) = st' /\ length (real_word_draws m word parts st) <= 2.
Proof. exact real_word_draws_l. Qed.
Print Assumptions real_word_draws_spec.

(** notables_call: without a character dictionary a call keeps every character that is neither alphabetic
    nor punctuation, and deletes / swaps only characters of those classes — for every generator state *)
Theorem notables_call : forall fd w ex st k st', wf st ->
  edit_word_seeded (spell_cfg fd None) (cd_u w) (cs_u w) w ex st = SOk k st' ->
  fixed_u (apply_word k w) = fixed_u w /\ class_of_edit w k.
Proof. exact notables_call_fixed. Qed.
Print Assumptions notables_call.

(** spell_text_total: inside the decidable domain [dom_ok] (a positive probability; with a character
    dictionary: every key that passes the filter is a 3-gram and the powf results are sane; no word has an
    empty list of misspellings; sizes below the machine limits) the closure returns a text for EVERY seed and
    every value of the two other probabilities: no assertion, no "invalid weights", no empty range *)
Theorem spell_text_total : forall mode fd prob pc art items m seed text,
  dom_ok mode fd prob items m text = true ->
  exists t, spell_text mode fd prob pc art items m seed text = SpText t.
Proof. exact spell_text_total_l. Qed.
Print Assumptions spell_text_total.

(** chain_text_total: a chain of n calls never faults and the text grows by at most B code points per call
    (B = the longest edit string of the tables) *)
Theorem chain_text_total : forall wc B n, wtabs_ok wc = true -> strs_le (erase wc) B ->
  forall x ex st, wf st -> (N.of_nat (S (length x + n * B)) < p64)%N ->
  exists x' ex' st', chain_text wc n x ex st = Some (x', ex', st') /\ wf st' /\ length x' <= length x + n * B.
Proof. exact C15_SpellTotal.chain_text_total. Qed.
Print Assumptions chain_text_total.

(** check_run4: the executable statement of the fourth stream (the two runs agree; inside [dom4] no panic)
    holds of the model's own output, for every input *)
Theorem check_run4 : forall v, check_spell4 v (L [seeded_spell4 v; seeded_spell4 v]) = true.
Proof. exact check_run4_l. Qed.
Print Assumptions check_run4.

(** exact4_implies_spec: the exact line of the fourth stream transfers the theorem to the implementation output
    it accepts: for an input inside the domain both runs printed the same text, and it consists of the words of
    the input, each kept, replaced by a listed misspelling (of the word or of one regex part), or corrupted by a
    chain of [edit_word] calls — the val-level counterpart of [exact_implies_member] *)
Theorem exact4_implies_spec : forall v r1 r2,
  dom4 v = true -> exact_spell4 v (seeded_spell4 v) (L [r1; r2]) = true ->
  exists t wc os, r1 = L [list_v n_v t] /\ r2 = r1 /\
    mode_cfg (v_nat (v_nth 1 v)) (v_bool (v_nth 2 v)) (v_list v_item (v_nth 5 v)) = Some wc /\
    Forall2 (word_result_t wc (mode_miss (v_nat (v_nth 1 v)) (v_miss (v_nth 6 v)))) (split_ws (v_str (v_nth 4 v))) os /\
    t = join_sp (keep_some os).
Proof. exact exact4_spec_l. Qed.
Print Assumptions exact4_implies_spec.

(** * Non-vacuity and known answers *)
Open Scope N_scope.
Definition s_ (l : list N) : str := l.
(** "a7.é" with é = U+00E9: 'a' and 'é' alphabetic, '.' punctuation, '7' neither *)
Example classes_witness :
  cd_u [s_ [97]; s_ [55]; s_ [46]; s_ [233]] = [true; false; true; true] /\
  cs_u [s_ [97]; s_ [233]; s_ [55]] = [true; false] /\
  fixed_u [s_ [97]; s_ [55]; s_ [46]; s_ [101; 769]; s_ [128512]] = [s_ [55]; s_ [101; 769]; s_ [128512]].
Proof. vm_compute. repeat split. Qed.

(** the constant of the relative-frequency filter: 1.0 / 10_000.0 = 0x3F1A36E2EB1C432D *)
Example min_rel_freq_bits : min_rel_freq = Fin 7378697629483821 (-66).
Proof. vm_compute. reflexivity. Qed.

(** the threshold: frequency 1 of a total of 10 000 is kept, of 10 001 it is dropped *)
Example keep_threshold :
  keep_item (f_of_N 10000) (s_ [97], 1%N, f_one) = true /\ keep_item (f_of_N 10001) (s_ [97], 1%N, f_one) = false /\
  keep_item (f_of_N 0) (s_ [97], 0%N, f_zero) = true.
Proof. vm_compute. repeat split. Qed.

(** a dictionary: "<bow> a b" 4, "<bow> c b" 4, "<bow> x b" 9, "a b <eow>" 2, and a key with two spaces and
    a NO-BREAK SPACE "a  c <eow>" 2; weights sqrt(freq) *)
Definition bow_ : list N := [60; 98; 111; 119; 62].
Definition eow_ : list N := [60; 101; 111; 119; 62].
Definition items_ex : list item :=
  [ (s_ (bow_ ++ [32; 97; 32; 98]), 4%N, Fin 4503599627370496 (-51));
    (s_ ([97; 32; 98; 32] ++ eow_), 2%N, Fin 6369051672525773 (-52));
    (s_ (bow_ ++ [32; 120; 32; 98]), 9%N, Fin 6755399441055744 (-51));
    (s_ ([97; 32; 32; 99; 160] ++ eow_), 2%N, Fin 6369051672525773 (-52));
    (s_ (bow_ ++ [32; 99; 32; 98]), 4%N, Fin 4503599627370496 (-51)) ].

Example tables_witness :
  items_wf items_ex /\ items_sane items_ex = true /\
  build_tables items_ex =
  TOk [ (s_ bow_, s_ [98], [(s_ [120], Fin 6755399441055744 (-51)); (s_ [97], Fin 4503599627370496 (-51));
                            (s_ [99], Fin 4503599627370496 (-51))]);
        (s_ [97], s_ eow_, [(s_ [99], Fin 6369051672525773 (-52)); (s_ [98], Fin 6369051672525773 (-52))]) ]
      [ (s_ [97], s_ [98], s_ eow_, [(s_ [99], Fin 6369051672525773 (-52))]);
        (s_ [97], s_ [99], s_ eow_, [(s_ [98], Fin 6369051672525773 (-52))]);
        (s_ bow_, s_ [99], s_ [98], [(s_ [120], Fin 6755399441055744 (-51)); (s_ [97], Fin 4503599627370496 (-51))]);
        (s_ bow_, s_ [97], s_ [98], [(s_ [120], Fin 6755399441055744 (-51)); (s_ [99], Fin 4503599627370496 (-51))]);
        (s_ bow_, s_ [120], s_ [98], [(s_ [97], Fin 4503599627370496 (-51)); (s_ [99], Fin 4503599627370496 (-51))]) ] /\
  build_tables (rev items_ex) = build_tables items_ex.
Proof.
  split; [|split; [|split]].
  - split; [repeat constructor; cbn; intuition discriminate|repeat constructor].
  - vm_compute. reflexivity.
  - vm_compute. reflexivity.
  - vm_compute. reflexivity.
Qed.

(** a key that is not a 3-gram panics only if it passes the filter *)
Example tables_panic_witness :
  build_tables [(s_ [97; 32; 98], 1%N, f_one)] = TPanic /\
  build_tables [(s_ [97; 32; 98], 1%N, f_one); (s_ ([97; 32; 98; 32] ++ eow_), 20000%N, f_one)]
  = TOk [(s_ [97], s_ eow_, [(s_ [98], f_one)])] [].
Proof. vm_compute. repeat split. Qed.

(** known answers (the real crate through `c15 run`; input and implementation output as the harness prints
    them): the exact line of the fourth stream accepts them, they lie in the domain, the statement holds.
    1. artificial mode with a dictionary: text "0c-" + IDEOGRAPHIC SPACE, seed 588579954 -> "0c" ('-' deleted) *)
Definition ka4_in_1 : val := L [I 4; I 0; I 1; I 588579954; L [I 48; I 99; I 45; I 32; I 12288]; L [L [L [I 99; I 32; I 46; I 32; I 45]; I 4; L [I 0; I 7149018786131516; I (-52)]]; L [L [I 60; I 98; I 111; I 119; I 62; I 32; I 48; I 32; I 99]; I 3; L [I 0; I 6495314627411702; I (-52)]]; L [L [I 101; I 769; I 32; I 191; I 32; I 233]; I 1; L [I 0; I 4503599627370496; I (-52)]]; L [L [I 60; I 98; I 111; I 119; I 62; I 32; I 233; I 32; I 99]; I 3; L [I 0; I 6495314627411702; I (-52)]]; L [L [I 45; I 32; I 837; I 32; I 97]; I 4; L [I 0; I 7149018786131516; I (-52)]]]; L []; L [L [I 0; I 4503599627370496; I (-52)]; L [I 0; I 7995648556387507; I (-59)]; L [I 0; I 5629499534213120; I (-51)]; L [I 0; I 6755399441055744; I (-51)]]; L [L [L [I 48; I 99; I 45]; L []; L [L [L [I 48]; I 0; I 0]; L [L [I 99]; I 1; I 0]; L [L [I 45]; I 0; I 1]]]]; L [L [I 1; I 10000; L [I 0; I 7378697629483821; I (-66)]]; L [I 1; I 3; L [I 0; I 6004799503160661; I (-54)]]; L [I 0; I 0; L [I 2; I 0; I 0]]]].
Definition ka4_out_1 : val := L [L [L [I 48; I 99]]; L [L [I 48; I 99]]].
(** 2. mixed mode: text "b\u{e9} \u{3a3}", the second word has the misspellings ["e\u{301}a", "\u{201e}"] -> "b\u{e9} \u{201e}" *)
Definition ka4_in_2 : val := L [I 4; I 2; I 1; I 752196295; L [I 98; I 233; I 32; I 931]; L [L [L [I 60; I 98; I 111; I 119; I 62; I 32; I 128512; I 32; I 60; I 101; I 111; I 119; I 62]; I 4; L [I 0; I 4503599627370496; I (-50)]]; L [L [I 2325; I 32; I 101; I 769; I 46; I 32; I 99]; I 1; L [I 0; I 4503599627370496; I (-52)]]; L [L [I 99; I 32; I 931; I 32; I 60; I 101; I 111; I 119; I 62]; I 3; L [I 0; I 6755399441055744; I (-51)]]; L [L [I 60; I 98; I 111; I 119; I 62; I 32; I 8222; I 32; I 931]; I 3; L [I 0; I 6755399441055744; I (-51)]]; L [L [I 60; I 98; I 111; I 119; I 62; I 32; I 9786; I 160; I 2325]; I 3; L [I 0; I 6755399441055744; I (-51)]]; L [L [I 110; I 771; I 32; I 36; I 32; I 42958]; I 5; L [I 0; I 5629499534213120; I (-50)]]; L [L [I 60; I 98; I 111; I 119; I 62; I 32; I 8222; I 32; I 9786]; I 3; L [I 0; I 6755399441055744; I (-51)]]; L [L [I 223; I 32; I 189; I 32; I 127465]; I 3; L [I 0; I 6755399441055744; I (-51)]]]; L [L [L [I 98; I 233]; L [L [I 101; I 769; I 8217]; L [I 101; I 769]; L [I 46]]]; L [L [I 931]; L [L [I 101; I 769; I 97]; L [I 8222]]]; L [L [I 837]; L [L [I 45; I 931; I 99]; L [I 48; I 8217; I 178]; L [I 48]]]]; L [L [I 0; I 8106479329266893; I (-53)]; L [I 0; I 8106479329266893; I (-53)]; L [I 0; I 6528281570443264; I (-54)]; L [I 0; I 4503599627370496; I (-52)]]; L [L [L [I 98; I 233]; L [L [I 0; L [I 98; I 233]]]; L [L [L [I 98]; I 1; I 0]; L [L [I 233]; I 1; I 0]]]; L [L [I 931]; L [L [I 0; L [I 931]]]; L [L [L [I 931]; I 1; I 0]]]]; L [L [I 1; I 10000; L [I 0; I 7378697629483821; I (-66)]]; L [I 1; I 3; L [I 0; I 6004799503160661; I (-54)]]; L [I 0; I 0; L [I 2; I 0; I 0]]]].
Definition ka4_out_2 : val := L [L [L [I 98; I 233; I 32; I 8222]]; L [L [I 98; I 233; I 32; I 8222]]].
(** 3. artificial mode without a dictionary: "-7a \u{bd}\u{915}\u{201e}" -> the letter KA deleted from the second word *)
Definition ka4_in_3 : val := L [I 4; I 3; I 0; I 928895310; L [I 45; I 55; I 97; I 32; I 189; I 2325; I 8222]; L []; L []; L [L [I 0; I 8106479329266893; I (-53)]; L [I 0; I 0; I (-1074)]; L [I 0; I 7177491647037440; I (-54)]; L [I 0; I 4503599627370496; I (-51)]]; L [L [L [I 45; I 55; I 97]; L []; L [L [L [I 45]; I 0; I 1]; L [L [I 55]; I 0; I 0]; L [L [I 97]; I 1; I 0]]]; L [L [I 189; I 2325; I 8222]; L [L [I 2; L [I 2325]]]; L [L [L [I 189]; I 0; I 0]; L [L [I 2325]; I 1; I 0]; L [L [I 8222]; I 0; I 1]]]]; L [L [I 1; I 10000; L [I 0; I 7378697629483821; I (-66)]]; L [I 1; I 3; L [I 0; I 6004799503160661; I (-54)]]; L [I 0; I 0; L [I 2; I 0; I 0]]]].
Definition ka4_out_3 : val := L [L [L [I 45; I 55; I 97; I 32; I 189; I 8222]]; L [L [I 45; I 55; I 97; I 32; I 189; I 8222]]].
Example exact4_witness :
  Forall (fun io : val * val => exact_spell4 (fst io) (seeded_spell4 (fst io)) (snd io) = true /\
                                dom4 (fst io) = true /\ check_spell4 (fst io) (snd io) = true)
         [(ka4_in_1, ka4_out_1); (ka4_in_2, ka4_out_2); (ka4_in_3, ka4_out_3)].
Proof. repeat constructor; vm_compute; reflexivity. Qed.

(** a different text is rejected *)
Example exact4_rejects : exact_spell4 ka4_in_1 (seeded_spell4 ka4_in_1) (L [L [L [I 48; I 45]]; L [L [I 48; I 45]]]) = false.
Proof. vm_compute. reflexivity. Qed.

(** After the repair D17 the Pipe over the loader's real upstream (Inference_Unfused.v with
    [fused = true]: a scan that is not fused, behind [Iterator::fuse]) IS Pipe_Model's Pipe over the list
    of the enumerated texts before the first Err text: every execution of the one is, label by label, an
    execution of the other, with the same threads, channel and output.  Hence every C05 / C09 theorem
    about Pipe_Model (in-order delivery under every schedule, termination, no deadlock, bounded
    look-ahead) holds of the loader's pipe stage with its real upstream. *)
From Coq Require Import Lia Permutation.
From TU Require Import Base Pipe_Model Pipe_Proofs Inference_Unfused.

Section Fused.
Variables (T B : Type) (f : nat * T -> B) (d : nat * T).
Notation A := (nat * T)%type.
Notation ustep := (ustep T B f d true).
Notation urun := (urun T B f d true).
Notation step := (step A B f d).
Notation run := (run A B f d).

(** the texts before the first Err *)
Fixpoint ok_prefix (texts : list (option T)) : list T :=
  match texts with Some x :: r => x :: ok_prefix r | _ => [] end.
Definition enum (l : list T) : list A := combine (seq 0 (length l)) l.

Variable texts : list (option T).
Definition full : list A := enum (ok_prefix texts).

Lemma ok_prefix_some : forall (ts : list (option T)) n x, (forall i, i < n -> exists y, nth_error ts i = Some (Some y)) ->
  nth_error ts n = Some (Some x) -> n < length (ok_prefix ts) /\ nth_error (ok_prefix ts) n = Some x.
Proof.
  induction ts as [|[y|] r IH]; intros n x Hall Hn.
  - destruct n; discriminate.
  - destruct n as [|n]; cbn [nth_error ok_prefix length] in *.
    + injection Hn as ->. split; [lia|reflexivity].
    + destruct (IH n x) as [H1 H2]; [|exact Hn|split; [lia|exact H2]].
      intros i Hi. destruct (Hall (S i) ltac:(lia)) as [z Hz]. exists z. exact Hz.
  - destruct n as [|n]; [discriminate|]. destruct (Hall 0 ltac:(lia)) as [z Hz]. discriminate.
Qed.

Lemma ok_prefix_all : forall (ts : list (option T)) i, i < length (ok_prefix ts) ->
  exists y, nth_error ts i = Some (Some y).
Proof.
  induction ts as [|[y|] r IH]; intros i Hi; cbn [ok_prefix length] in Hi; try lia.
  destruct i as [|i]; [exists y; reflexivity|]. apply IH. lia.
Qed.

Lemma ok_prefix_stop : forall (ts : list (option T)) n, n <= length (ok_prefix ts) ->
  (nth_error ts n = None \/ nth_error ts n = Some None) -> n = length (ok_prefix ts).
Proof.
  intros ts n Hn H. destruct (Nat.eq_dec n (length (ok_prefix ts))) as [E|E]; [exact E|].
  destruct (ok_prefix_all ts n ltac:(lia)) as [y Hy]. destruct H as [H|H]; rewrite H in Hy; discriminate.
Qed.

Lemma full_length : length full = length (ok_prefix texts).
Proof. unfold full, enum. rewrite combine_length, seq_length. lia. Qed.

Lemma combine_seq_nth (l : list T) : forall k n x, nth_error l n = Some x ->
  nth_error (combine (seq k (length l)) l) n = Some (k + n, x).
Proof.
  induction l as [|y l IH]; intros k n x H.
  - destruct n; discriminate.
  - destruct n as [|n]; cbn [length seq combine nth_error] in *.
    + injection H as ->. rewrite Nat.add_0_r. reflexivity.
    + rewrite (IH (S k) n x H). f_equal. f_equal. lia.
Qed.

Lemma full_nth n x : nth_error (ok_prefix texts) n = Some x -> nth_error full n = Some (n, x).
Proof. intros H. unfold full, enum. rewrite (combine_seq_nth _ 0 n x H). reflexivity. Qed.

Definition absu (s : ustate T B) : state A B := with_xs T B (u_base T B s) full.

Record Uinv (s : ustate T B) : Prop := {
  ui_next : next (u_base T B s) = length (xs (u_base T B s));
  ui_xs : xs (u_base T B s) = firstn (next (u_base T B s)) full;
  ui_le : next (u_base T B s) <= length full;
  ui_live : u_done T B s = false ->
            u_cnt T B s = next (u_base T B s) /\ u_src T B s = skipn (next (u_base T B s)) texts;
  ui_done : u_done T B s = true -> next (u_base T B s) = length full;
  ui_pos : u_done T B s = false -> u_pos T B s = next (u_base T B s);
  (* iter_err as the first scan writes it: nothing, or the position of the FIRST Err text *)
  ui_err : u_err T B s = None \/
           (u_err T B s = Some (length (ok_prefix texts)) /\ nth_error texts (length (ok_prefix texts)) = Some None) }.

(** labels other than Pull do not look at the part of [xs] beyond what was pulled *)
Lemma step_with_xs (b : state A B) (l2 : list A) lab :
  (forall t, lab <> Pull t) ->
  (forall t i, lab = SendOk t -> nth_error (thr b) t = Some (Sending i) -> nth i (xs b) d = nth i l2 d) ->
  step (with_xs T B b l2) lab = option_map (fun b' => with_xs T B b' l2) (step b lab).
Proof.
  intros Hp Hs. destruct lab as [t|t|t|t|t|t| |]; try (exfalso; exact (Hp t eq_refl));
    unfold Pipe_Model.step, with_xs; cbn [xs next turn thr chan out dropped log pad ndrop].
  - destruct (nth_error (thr b) t) as [[]|]; reflexivity.
  - destruct (nth_error (thr b) t) as [[]|]; try reflexivity.
    destruct (i =? turn b); reflexivity.
  - destruct (nth_error (thr b) t) as [[| | |i| |]|] eqn:E; try reflexivity.
    destruct (negb (dropped b) && (length (chan b) <? length (thr b))); [|reflexivity].
    cbn [option_map xs next turn thr chan out dropped log pad ndrop]. rewrite (Hs t i eq_refl E). reflexivity.
  - destruct (nth_error (thr b) t) as [[]|]; try reflexivity.
    destruct (dropped b) eqn:Ed; [|reflexivity]. unfold set_thr.
    cbn [option_map xs next turn thr chan out dropped log pad ndrop]. rewrite Ed. reflexivity.
  - destruct (nth_error (thr b) t) as [[]|]; reflexivity.
  - destruct (dropped b); [reflexivity|]. destruct (chan b); reflexivity.
  - destruct (dropped b); reflexivity.
Qed.

Lemma nth_firstn_lt {X} (l : list X) n i dflt : i < n -> nth i (firstn n l) dflt = nth i l dflt.
Proof.
  revert n i. induction l as [|x l IH]; intros n i H.
  - rewrite firstn_nil. reflexivity.
  - destruct n as [|n]; [lia|]. destruct i as [|i]; cbn [firstn nth]; [reflexivity|]. apply IH. lia.
Qed.

Lemma skipn_head {X} (l : list X) : forall n x r, skipn n l = x :: r -> nth_error l n = Some x /\ skipn (S n) l = r.
Proof.
  induction l as [|y l IH]; intros n x r H.
  - destruct n; discriminate.
  - destruct n as [|n]; cbn [skipn nth_error] in *.
    + injection H as -> ->. split; reflexivity.
    + exact (IH n x r H).
Qed.

Lemma firstn_S_nth_error {X} (l : list X) : forall n x, nth_error l n = Some x -> firstn (S n) l = firstn n l ++ [x].
Proof.
  induction l as [|y l IH]; intros n x H.
  - destruct n; discriminate.
  - destruct n as [|n]; cbn [nth_error] in H.
    + injection H as ->. reflexivity.
    + cbn [firstn app]. f_equal. change (firstn (S n) l = firstn n l ++ [x]). exact (IH n x H).
Qed.

Lemma next_step_other (b b' : state A B) lab : (forall t, lab <> Pull t) -> step b lab = Some b' ->
  next b' = next b /\ xs b' = xs b.
Proof.
  intros Hp H. destruct lab as [t|t|t|t|t|t| |]; try (exfalso; exact (Hp t eq_refl)); cbn [Pipe_Model.step] in H;
  repeat match type of H with
         | context [match ?x with _ => _ end] => destruct x
         | context [if ?x then _ else _] => destruct x
         end; try discriminate; injection H as <-; split; reflexivity.
Qed.

(** one step of the loader's pipe is the same step of Pipe_Model's pipe on the list [full] *)
Lemma sim_step s lab s' : Inv A B f (absu s) -> Uinv s -> ustep s lab = Some s' ->
  step (absu s) lab = Some (absu s') /\ Uinv s'.
Proof.
  intros I U H. destruct U as [Un Ux Ule Ulive Udone Upos Uerr].
  destruct (match lab with Pull _ => true | _ => false end) eqn:Ep.
  - destruct lab as [t| | | | | | |]; try discriminate. clear Ep.
    unfold Inference_Unfused.ustep in H. cbn [andb] in H.
    destruct (u_done T B s) eqn:Ed.
    + (* fused and ended: the worker exits *)
      specialize (Udone eq_refl).
      destruct (step (u_base T B s) (Pull t)) as [b'|] eqn:Es; [|discriminate]. injection H as <-.
      unfold absu. cbn [u_base]. unfold Pipe_Model.step in Es |- *. unfold with_xs.
      cbn [xs next turn thr chan out dropped log pad ndrop].
      destruct (nth_error (thr (u_base T B s)) t) as [[]|]; try discriminate.
      rewrite Un in Es. rewrite Nat.ltb_irrefl in Es. injection Es as <-.
      replace (next (u_base T B s) <? length full) with false by (symmetry; apply Nat.ltb_ge; lia). unfold set_thr. cbn [xs next turn thr chan out dropped log pad ndrop].
      split; [reflexivity|].
      constructor; cbn [u_base u_done u_cnt u_src u_pos u_err xs next]; auto; try discriminate.
    + destruct (Ulive eq_refl) as [Uc Us].
      destruct (u_src T B s) as [|[x|] r] eqn:Esrc.
      * (* the text iterator is exhausted *)
        assert (Hend : next (u_base T B s) = length full).
        { rewrite full_length in *. apply ok_prefix_stop; [exact Ule|]. left.
          apply nth_error_None. symmetry in Us. apply (f_equal (@length _)) in Us. rewrite skipn_length in Us.
          cbn [length] in Us. lia. }
        destruct (step (u_base T B s) (Pull t)) as [b'|] eqn:Es; [|discriminate]. injection H as <-.
        unfold absu. cbn [u_base]. unfold Pipe_Model.step in Es |- *. unfold with_xs.
        cbn [xs next turn thr chan out dropped log pad ndrop].
        destruct (nth_error (thr (u_base T B s)) t) as [[]|]; try discriminate.
        rewrite Un in Es. rewrite Nat.ltb_irrefl in Es. injection Es as <-.
        replace (next (u_base T B s) <? length full) with false by (symmetry; apply Nat.ltb_ge; lia). unfold set_thr. cbn [xs next turn thr chan out dropped log pad ndrop].
        split; [reflexivity|].
        constructor; cbn [u_base u_done u_cnt u_src u_pos u_err xs next]; auto; try discriminate.
      * (* an Ok text: pulled with the number the loader's enumerate gives it *)
        assert (Hnth : nth_error texts (next (u_base T B s)) = Some (Some x)).
        { symmetry in Us. exact (proj1 (skipn_head _ _ _ _ Us)). }
        assert (Hall : forall i, i < next (u_base T B s) -> exists y, nth_error texts i = Some (Some y)).
        { intros i Hi. apply ok_prefix_all. rewrite <- full_length. lia. }
        destruct (ok_prefix_some texts _ x Hall Hnth) as [Hlt Hok].
        pose proof (full_nth _ _ Hok) as Hfull.
        destruct (step (with_xs T B (u_base T B s) (xs (u_base T B s) ++ [(u_cnt T B s, x)])) (Pull t)) as [b'|] eqn:Es;
          [|discriminate]. injection H as <-.
        unfold absu. cbn [u_base]. unfold Pipe_Model.step in Es |- *. unfold with_xs in Es |- *.
        cbn [xs next turn thr chan out dropped log pad ndrop] in Es |- *.
        destruct (nth_error (thr (u_base T B s)) t) as [[]|]; try discriminate.
        rewrite app_length, <- Un in Es. cbn [length] in Es.
        replace (next (u_base T B s) <? next (u_base T B s) + 1) with true in Es by (symmetry; apply Nat.ltb_lt; lia).
        injection Es as <-. cbn [xs next turn thr chan out dropped log pad ndrop].
        replace (next (u_base T B s) <? length full) with true by (symmetry; apply Nat.ltb_lt; rewrite full_length; lia).
        split; [reflexivity|].
        constructor; cbn [u_base u_done u_cnt u_src u_pos u_err xs next].
        -- rewrite app_length, <- Un. cbn [length]. lia.
        -- rewrite Ux at 1. rewrite Uc.
           rewrite (firstn_S_nth_error full (next (u_base T B s)) _ Hfull). reflexivity.
        -- rewrite full_length. lia.
        -- intros _. split; [lia|].
           symmetry in Us. symmetry. exact (proj2 (skipn_head _ _ _ _ Us)).
        -- intros Hd. discriminate.
        -- intros _. rewrite (Upos eq_refl). reflexivity.
        -- exact Uerr.
      * (* an Err text: recorded, this worker exits, the upstream is over *)
        assert (Hend : next (u_base T B s) = length full).
        { rewrite full_length in *. apply ok_prefix_stop; [exact Ule|]. right.
          symmetry in Us. exact (proj1 (skipn_head _ _ _ _ Us)). }
        destruct (step (u_base T B s) (Pull t)) as [b'|] eqn:Es; [|discriminate]. injection H as <-.
        unfold absu. cbn [u_base]. unfold Pipe_Model.step in Es |- *. unfold with_xs.
        cbn [xs next turn thr chan out dropped log pad ndrop].
        destruct (nth_error (thr (u_base T B s)) t) as [[]|]; try discriminate.
        rewrite Un in Es. rewrite Nat.ltb_irrefl in Es. injection Es as <-.
        replace (next (u_base T B s) <? length full) with false by (symmetry; apply Nat.ltb_ge; lia). unfold set_thr. cbn [xs next turn thr chan out dropped log pad ndrop].
        split; [reflexivity|].
        constructor; cbn [u_base u_done u_cnt u_src u_pos u_err xs next]; auto; try discriminate.
        right. rewrite (Upos eq_refl), Hend, full_length. split; [reflexivity|].
        rewrite <- full_length, <- Hend. symmetry in Us. exact (proj1 (skipn_head _ _ _ _ Us)).
  - assert (Hp : forall t, lab <> Pull t) by (intros t ->; discriminate).
    assert (H' : option_map (fun b' => umk T B b' (u_src T B s) (u_cnt T B s) (u_pos T B s) (u_done T B s) (u_err T B s))
                            (step (u_base T B s) lab) = Some s').
    { destruct lab; try discriminate; exact H. }
    destruct (step (u_base T B s) lab) as [b'|] eqn:Es; [|discriminate]. injection H' as <-.
    unfold absu. cbn [u_base].
    rewrite (step_with_xs (u_base T B s) full lab Hp).
    + rewrite Es. cbn [option_map]. split; [reflexivity|].
      destruct (next_step_other _ _ _ Hp Es) as [En Exs].
      constructor; cbn [u_base u_done u_cnt u_src u_pos u_err]; rewrite ?En, ?Exs; auto.
    + intros t i -> Ht. rewrite Ux. apply nth_firstn_lt.
      assert (Hr : turn (absu s) <= i < next (absu s)).
      { apply (holder_range A B f (absu s) t (Sending i) i I); [exact Ht|reflexivity]. }
      exact (proj2 Hr).
Qed.

Lemma uinv_init W : Uinv (uinit T B texts W).
Proof. constructor; cbn; auto; try lia; try discriminate. Qed.

Lemma absu_init W : absu (uinit T B texts W) = init A B full W.
Proof. reflexivity. Qed.

(** every execution of the repaired loader's pipe over its real upstream is an execution of Pipe_Model's
    pipe over the list of the enumerated texts before the first Err text, with the same output *)
Lemma sim_run tr : forall s0 s, Inv A B f (absu s0) -> Uinv s0 -> urun s0 tr = Some s ->
  run (absu s0) tr = Some (absu s) /\ Uinv s.
Proof.
  induction tr as [|lab tr IH]; intros s0 s I U H; cbn [Inference_Unfused.urun Pipe_Model.run] in *.
  - injection H as <-. split; [reflexivity|exact U].
  - destruct (ustep s0 lab) as [s1|] eqn:E; [|discriminate].
    destruct (sim_step s0 lab s1 I U E) as [Hs U1]. rewrite Hs.
    apply (IH s1 s); [|exact U1|exact H]. exact (inv_step A B f d _ _ _ I Hs).
Qed.

Lemma fused_is_pipe_l W tr : forall s, urun (uinit T B texts W) tr = Some s ->
  run (init A B full W) tr = Some (absu s) /\ out (absu s) = out (u_base T B s).
Proof.
  intros s H. split; [|reflexivity].
  rewrite <- absu_init. apply (sim_run tr _ s); [|apply uinv_init|exact H].
  rewrite absu_init. apply inv_init.
Qed.

(** after the repair the first scan can record only ONE error: the first Err text (before it, every Err
    text a worker ran into overwrote iter_err) *)
Lemma fused_err_is_first_l W tr s : urun (uinit T B texts W) tr = Some s ->
  u_err T B s = None \/
  (u_err T B s = Some (length (ok_prefix texts)) /\ nth_error texts (length (ok_prefix texts)) = Some None).
Proof.
  intros H. assert (I0 : Inv A B f (absu (uinit T B texts W))) by (rewrite absu_init; apply inv_init).
  exact (ui_err _ (proj2 (sim_run tr _ s I0 (uinv_init W) H))).
Qed.

End Fused.

(** C18 proofs: word splitting, the LCS table = recursive specification on reversed
    prefixes, backtrace invariants, optimality, complement. *)
From Coq Require Import Lia Sorting.Sorted.
From TU Require Import Base C18_Model.

(** * split_ascii_whitespace *)
Definition awf (c : cp) : bool := negb (is_ascii_ws c).
Definition word_ok (w : str) : Prop := w <> [] /\ forallb awf w = true.

Lemma push_word_app : forall w l r, push_word w (l ++ r) = push_word w l ++ r.
Proof. intros [|c w] l r; reflexivity. Qed.

Lemma split_scan_app : forall u s W,
  split_scan s = ([], W) ->
  split_scan (u ++ s) = (fst (split_scan u), snd (split_scan u) ++ W).
Proof.
  induction u as [|a u IH]; intros s W Hs.
  - simpl. exact Hs.
  - cbn [app split_scan]. rewrite (IH s W Hs). cbn [fst snd].
    destruct (is_ascii_ws a).
    + cbn [fst snd]. now rewrite push_word_app.
    + reflexivity.
Qed.

Lemma split_sep_l : forall u c v, is_ascii_ws c = true ->
  split_ascii_ws (u ++ c :: v) = split_ascii_ws u ++ split_ascii_ws v.
Proof.
  intros u c v Hc. unfold split_ascii_ws.
  assert (Hs : split_scan (c :: v) = ([], push_word (fst (split_scan v)) (snd (split_scan v)))).
  { cbn [split_scan]. now rewrite Hc. }
  rewrite (split_scan_app u _ _ Hs). cbn [fst snd]. now rewrite push_word_app.
Qed.

Lemma split_scan_word : forall w, forallb awf w = true -> split_scan w = (w, []).
Proof.
  induction w as [|c w IH]; intros H; [reflexivity|].
  cbn [forallb] in H. apply andb_true_iff in H as [Hc Hw].
  cbn [split_scan]. rewrite (IH Hw). unfold awf in Hc.
  destruct (is_ascii_ws c); [discriminate|reflexivity].
Qed.

Lemma split_word_l : forall w, word_ok w -> split_ascii_ws w = [w].
Proof.
  intros w [Hne Hw]. unfold split_ascii_ws. rewrite (split_scan_word w Hw).
  destruct w; [congruence|reflexivity].
Qed.

Lemma split_scan_wf : forall s,
  forallb awf (fst (split_scan s)) = true /\ Forall word_ok (snd (split_scan s)).
Proof.
  induction s as [|c s [IH1 IH2]]; [split; [reflexivity|constructor]|].
  cbn [split_scan]. destruct (is_ascii_ws c) eqn:E; cbn [fst snd].
  - split; [reflexivity|].
    destruct (fst (split_scan s)) eqn:F; cbn [push_word]; [exact IH2|].
    constructor; [split; [discriminate|exact IH1]|exact IH2].
  - split; [|exact IH2]. cbn [forallb]. unfold awf at 1. now rewrite E, IH1.
Qed.

Lemma split_words_ok_l : forall s, Forall word_ok (split_ascii_ws s).
Proof.
  intros s. unfold split_ascii_ws. destruct (split_scan_wf s) as [H1 H2].
  destruct (fst (split_scan s)) eqn:F; cbn [push_word]; [exact H2|].
  constructor; [split; [discriminate|exact H1]|exact H2].
Qed.

(** * The table *)
Lemma pick_cases : forall vd vi vm m,
  let c := pick vd vi vm m in
  (snd c = MDel /\ fst c = vd) \/ (snd c = MIns /\ fst c = vi) \/
  (snd c = MMatch /\ m = true /\ fst c = S vm) \/ (snd c = MNoMatch /\ m = false /\ fst c = vm).
Proof.
  intros vd vi vm m. unfold pick.
  destruct (Nat.leb vd vi); destruct m; cbn [fst snd];
  match goal with |- context [Nat.leb ?a ?b] => destruct (Nat.leb a b) end; cbn [fst snd]; tauto.
Qed.

Lemma pick_ge : forall vd vi vm m,
  vd <= fst (pick vd vi vm m) /\ vi <= fst (pick vd vi vm m) /\
  (if m then S vm else vm) <= fst (pick vd vi vm m).
Proof.
  intros vd vi vm m. unfold pick.
  destruct (Nat.leb vd vi) eqn:E1; [apply Nat.leb_le in E1|apply Nat.leb_gt in E1]; cbn [fst snd];
  match goal with |- context [Nat.leb ?a ?b] => destruct (Nat.leb a b) eqn:E2 end;
  [apply Nat.leb_le in E2|apply Nat.leb_gt in E2|apply Nat.leb_le in E2|apply Nat.leb_gt in E2];
  cbn [fst snd]; destruct m; lia.
Qed.

Lemma nth_map_lt : forall {A B} (f : A -> B) l i d d', i < length l -> nth i (map f l) d' = f (nth i l d).
Proof.
  intros A B f l. induction l as [|a l IH]; intros i d d' H; [simpl in H; lia|].
  destruct i; [reflexivity|]. simpl. apply IH. simpl in H. lia.
Qed.

Lemma nth_error_skipn' : forall {A} a (l : list A) i, a <= i -> nth_error (skipn a l) (i - a) = nth_error l i.
Proof.
  intros A a. induction a as [|a IH]; intros l i H.
  - now rewrite Nat.sub_0_r.
  - destruct l as [|x l]; destruct i as [|i]; try lia.
    + simpl. now destruct (i - a).
    + simpl. apply IH. lia.
Qed.

Lemma nth_error_rev' : forall {A} (l : list A) i, i < length l ->
  nth_error (rev l) (length l - 1 - i) = nth_error l i.
Proof.
  intros A l. induction l as [|a l IH]; intros i H; [simpl in H; lia|].
  cbn [rev length]. destruct i as [|i].
  - rewrite nth_error_app2; rewrite rev_length; [|lia].
    replace (S (length l) - 1 - 0 - length l) with 0 by lia. reflexivity.
  - cbn [length] in H. rewrite nth_error_app1; [|rewrite rev_length; lia].
    replace (S (length l) - 1 - S i) with (length l - 1 - i) by lia.
    cbn [nth_error]. apply IH. lia.
Qed.

Definition pair_lt (p q : nat * nat) : Prop := fst p < fst q /\ snd p < snd q.

Lemma SS_app_last : forall {A} (R : A -> A -> Prop) l a,
  StronglySorted R l -> Forall (fun q => R q a) l -> StronglySorted R (l ++ [a]).
Proof.
  intros A R l a HS HF. induction HS as [|b l HS IH Hb]; cbn [app].
  - constructor; constructor.
  - inversion HF as [|? ? Hba HF']; subst. constructor; [apply IH; exact HF'|].
    apply Forall_app. split; [exact Hb|constructor; [exact Hba|constructor]].
Qed.

Section LCS.
Variable K : Type.
Variable eqb : K -> K -> bool.

(** the recursive specification of a cell, on REVERSED prefixes *)
Fixpoint cellv (ra rb : list K) {struct ra} : cell :=
  match ra with
  | [] => match rb with [] => (0, MNoMatch) | _ :: _ => (0, MIns) end
  | x :: ra' =>
    (fix inner (rb : list K) : cell :=
       match rb with
       | [] => (0, MDel)
       | y :: rb' => pick (fst (cellv ra' rb)) (fst (inner rb')) (fst (cellv ra' rb')) (eqb x y)
       end) rb
  end.

Lemma cellv_cons_cons : forall x ra y rb,
  cellv (x :: ra) (y :: rb) =
  pick (fst (cellv ra (y :: rb))) (fst (cellv (x :: ra) rb)) (fst (cellv ra rb)) (eqb x y).
Proof. reflexivity. Qed.
Lemma cellv_cons_nil : forall x ra, cellv (x :: ra) [] = (0, MDel).
Proof. reflexivity. Qed.
Lemma cellv_nil_cons : forall y rb, cellv [] (y :: rb) = (0, MIns).
Proof. reflexivity. Qed.
Lemma cellv_nil_fst : forall rb, fst (cellv [] rb) = 0.
Proof. intros [|y rb]; reflexivity. Qed.
Lemma cellv_fst_nil : forall ra, fst (cellv ra []) = 0.
Proof. intros [|x ra]; reflexivity. Qed.

(** all reversed prefixes of [ys], shortest first, on top of [acc] *)
Fixpoint prefs (acc ys : list K) : list (list K) :=
  acc :: match ys with [] => [] | y :: ys' => prefs (y :: acc) ys' end.

Lemma prefs_cons : forall acc ys, prefs acc ys = acc :: tl (prefs acc ys).
Proof. intros acc [|y ys]; reflexivity. Qed.
Lemma prefs_length : forall ys acc, length (prefs acc ys) = S (length ys).
Proof. induction ys as [|y ys IH]; intros acc; cbn [prefs length]; [reflexivity|]. now rewrite IH. Qed.
Lemma prefs_nth : forall p acc s d, nth (length p) (prefs acc (p ++ s)) d = rev p ++ acc.
Proof.
  induction p as [|a p IH]; intros acc s d.
  - cbn [app length rev]. rewrite prefs_cons. reflexivity.
  - cbn [app length rev prefs nth]. rewrite IH. now rewrite <- app_assoc.
Qed.

Lemma row0_tail : forall ys y acc,
  map (cellv []) (prefs (y :: acc) ys) = (0, MIns) :: map (fun _ => (0, MIns)) ys.
Proof.
  induction ys as [|y' ys IH]; intros y acc; cbn [prefs map]; [reflexivity|].
  f_equal. apply IH.
Qed.

Lemma row0_spec : forall ys, row0 ys = map (cellv []) (prefs [] ys).
Proof.
  intros ys. unfold row0. destruct ys as [|y ys]; [reflexivity|].
  cbn [prefs map]. rewrite row0_tail. reflexivity.
Qed.

Lemma row_aux_spec : forall x ra ys acc,
  row_aux eqb x (fst (cellv (x :: ra) acc)) (map (cellv ra) (prefs acc ys)) ys
  = map (cellv (x :: ra)) (tl (prefs acc ys)).
Proof.
  intros x ra. induction ys as [|y ys IH]; intros acc; [reflexivity|].
  cbn [prefs tl]. rewrite (prefs_cons (y :: acc) ys). cbn [map row_aux].
  rewrite <- cellv_cons_cons. f_equal.
  specialize (IH (y :: acc)). rewrite (prefs_cons (y :: acc) ys) in IH. cbn [map tl] in IH.
  exact IH.
Qed.

Lemma next_row_spec : forall x ra ys,
  next_row eqb x (map (cellv ra) (prefs [] ys)) ys = map (cellv (x :: ra)) (prefs [] ys).
Proof.
  intros x ra ys. unfold next_row.
  pose proof (row_aux_spec x ra ys []) as H. rewrite cellv_cons_nil in H. cbn [fst] in H.
  rewrite H. rewrite (prefs_cons [] ys) at 2. reflexivity.
Qed.

Definition rows_spec (ys : list K) (rs : list (list K)) : list (list cell) :=
  map (fun r => map (cellv r) (prefs [] ys)) rs.

Lemma build_rows_spec : forall xs ys ra,
  build_rows eqb (map (cellv ra) (prefs [] ys)) xs ys = rows_spec ys (tl (prefs ra xs)).
Proof.
  induction xs as [|x xs IH]; intros ys ra; [reflexivity|].
  cbn [build_rows prefs tl]. rewrite next_row_spec. rewrite IH.
  rewrite (prefs_cons (x :: ra) xs). reflexivity.
Qed.

Lemma matrix_spec : forall xs ys, matrix eqb xs ys = rows_spec ys (prefs [] xs).
Proof.
  intros xs ys. unfold matrix. rewrite row0_spec, build_rows_spec.
  rewrite (prefs_cons [] xs) at 2. reflexivity.
Qed.

Lemma cell_at_matrix : forall ra rb sa sb,
  cell_at (matrix eqb (rev ra ++ sa) (rev rb ++ sb)) (length ra) (length rb) = cellv ra rb.
Proof.
  intros ra rb sa sb. rewrite matrix_spec. unfold cell_at, rows_spec.
  rewrite (nth_map_lt _ _ _ []); [|rewrite prefs_length, app_length, rev_length; lia].
  rewrite (nth_map_lt _ _ _ []); [|rewrite prefs_length, app_length, rev_length; lia].
  rewrite <- (rev_length ra) at 1. rewrite <- (rev_length rb) at 1.
  rewrite !prefs_nth, !rev_involutive, !app_nil_r. reflexivity.
Qed.

(** * Backtrace *)
Definition rel (xs ys : list K) (p : nat * nat) : Prop :=
  exists x y, nth_error xs (fst p) = Some x /\ nth_error ys (snd p) = Some y /\ eqb x y = true.

Definition Matching (xs ys : list K) (M : list (nat * nat)) : Prop :=
  StronglySorted pair_lt M /\ Forall (rel xs ys) M.

Lemma nth_error_mid : forall (ra sa : list K) x, nth_error (rev ra ++ x :: sa) (length ra) = Some x.
Proof.
  intros ra sa x. rewrite nth_error_app2; rewrite rev_length; [|lia].
  now rewrite Nat.sub_diag.
Qed.

Lemma bt_ok : forall xs ys fuel ra rb sa sb acc,
  xs = rev ra ++ sa -> ys = rev rb ++ sb -> length ra + length rb <= fuel ->
  exists M', backtrace fuel (matrix eqb xs ys) (length ra) (length rb) acc = Some (M' ++ acc)
    /\ length M' = fst (cellv ra rb)
    /\ StronglySorted pair_lt M'
    /\ Forall (fun p => fst p < length ra /\ snd p < length rb /\ rel xs ys p) M'.
Proof.
  intros xs ys. induction fuel as [|f IH]; intros ra rb sa sb acc Hx Hy Hf.
  - destruct ra; destruct rb; cbn [length] in Hf; try lia.
    exists []. repeat split; constructor.
  - pose proof (cell_at_matrix ra rb sa sb) as Hc. rewrite <- Hx, <- Hy in Hc.
    destruct ra as [|x ra]; destruct rb as [|y rb].
    + exists []. repeat split; constructor.
    + (* first row: Insert *)
      cbn [length] in *. cbn [backtrace]. rewrite Hc. cbn [cellv snd].
      destruct (IH [] rb sa (y :: sb) acc Hx) as (M' & H1 & H2 & H3 & H4).
      { rewrite Hy. cbn [rev]. now rewrite <- app_assoc. }
      { cbn [length]. lia. }
      exists M'. cbn [length] in H1. rewrite H1. split; [reflexivity|].
      split; [rewrite H2; now rewrite cellv_nil_fst|]. split; [exact H3|].
      eapply Forall_impl; [|exact H4]. cbn [length]. intros p (A & B & C). repeat split; try lia; exact C.
    + (* first column: Delete *)
      cbn [length] in *. cbn [backtrace]. rewrite Hc. cbn [cellv snd].
      destruct (IH ra [] (x :: sa) sb acc) as (M' & H1 & H2 & H3 & H4).
      { rewrite Hx. cbn [rev]. now rewrite <- app_assoc. }
      { exact Hy. }
      { cbn [length]. lia. }
      exists M'. cbn [length] in H1. rewrite H1. split; [reflexivity|].
      split; [rewrite H2; now rewrite cellv_fst_nil|]. split; [exact H3|].
      eapply Forall_impl; [|exact H4]. cbn [length]. intros p (A & B & C). repeat split; try lia; exact C.
    + cbn [length] in *. cbn [backtrace]. rewrite Hc.
      assert (Hx' : xs = rev ra ++ x :: sa) by (rewrite Hx; cbn [rev]; now rewrite <- app_assoc).
      assert (Hy' : ys = rev rb ++ y :: sb) by (rewrite Hy; cbn [rev]; now rewrite <- app_assoc).
      rewrite cellv_cons_cons.
      destruct (pick_cases (fst (cellv ra (y :: rb))) (fst (cellv (x :: ra) rb)) (fst (cellv ra rb)) (eqb x y))
        as [[Ho Hv]|[[Ho Hv]|[(Ho & Hm & Hv)|(Ho & Hm & Hv)]]]; rewrite Ho.
      * destruct (IH ra (y :: rb) (x :: sa) sb acc Hx' Hy) as (M' & H1 & H2 & H3 & H4).
        { cbn [length]. lia. }
        cbn [length] in H1. exists M'. split; [exact H1|]. split; [now rewrite H2, Hv|]. split; [exact H3|].
        eapply Forall_impl; [|exact H4]. cbn [length]. intros p (A & B & C). repeat split; try lia; exact C.
      * destruct (IH (x :: ra) rb sa (y :: sb) acc Hx Hy') as (M' & H1 & H2 & H3 & H4).
        { cbn [length]. lia. }
        cbn [length] in H1. exists M'. split; [exact H1|]. split; [now rewrite H2, Hv|]. split; [exact H3|].
        eapply Forall_impl; [|exact H4]. cbn [length]. intros p (A & B & C). repeat split; try lia; exact C.
      * destruct (IH ra rb (x :: sa) (y :: sb) ((length ra, length rb) :: acc) Hx' Hy') as (M' & H1 & H2 & H3 & H4).
        { lia. }
        exists (M' ++ [(length ra, length rb)]). rewrite <- app_assoc. split; [exact H1|].
        split; [rewrite app_length, H2, Hv; cbn [length]; lia|].
        split.
        { apply SS_app_last; [exact H3|]. eapply Forall_impl; [|exact H4].
          intros p (A & B & _). split; cbn [fst snd]; lia. }
        apply Forall_app. split.
        { eapply Forall_impl; [|exact H4]. intros p (A & B & C). repeat split; try lia; exact C. }
        constructor; [|constructor]. cbn [fst snd]. repeat split; try lia.
        exists x, y. cbn [fst snd]. rewrite Hx' at 1. rewrite Hy' at 1. rewrite !nth_error_mid. auto.
      * destruct (IH ra rb (x :: sa) (y :: sb) acc Hx' Hy') as (M' & H1 & H2 & H3 & H4).
        { lia. }
        exists M'. split; [exact H1|]. split; [now rewrite H2, Hv|]. split; [exact H3|].
        eapply Forall_impl; [|exact H4]. intros p (A & B & C). repeat split; try lia; exact C.
Qed.

Lemma match_keys_ok : forall xs ys,
  exists M, match_keys eqb xs ys = Some M
    /\ length M = fst (cellv (rev xs) (rev ys))
    /\ StronglySorted pair_lt M
    /\ Forall (fun p => fst p < length xs /\ snd p < length ys /\ rel xs ys p) M.
Proof.
  intros xs ys. unfold match_keys.
  destruct (bt_ok xs ys (length xs + length ys + 1) (rev xs) (rev ys) [] [] [])
    as (M & H1 & H2 & H3 & H4).
  - now rewrite rev_involutive, app_nil_r.
  - now rewrite rev_involutive, app_nil_r.
  - rewrite !rev_length. lia.
  - rewrite !rev_length, app_nil_r in H1. rewrite !rev_length in H4. exists M. auto.
Qed.

Lemma lcs_value_spec : forall xs ys, lcs_value eqb xs ys = fst (cellv (rev xs) (rev ys)).
Proof.
  intros xs ys. unfold lcs_value.
  pose proof (cell_at_matrix (rev xs) (rev ys) [] []) as H.
  rewrite !rev_involutive, !app_nil_r, !rev_length in H. now rewrite H.
Qed.

(** * Optimality *)
Definition shift (a b : nat) (p : nat * nat) : nat * nat := (fst p - a, snd p - b).

Lemma shift_matching : forall a b xs ys M,
  Matching xs ys M -> Forall (fun p => a <= fst p /\ b <= snd p) M ->
  Matching (skipn a xs) (skipn b ys) (map (shift a b) M).
Proof.
  intros a b xs ys M [HS HR] HF. split.
  - induction HS as [|p M HS IH Hp]; cbn [map]; [constructor|].
    inversion HF as [|? ? [Ha Hb] HF']; subst. inversion HR as [|? ? _ HR']; subst.
    constructor; [apply IH; assumption|].
    apply Forall_map. rewrite Forall_forall in *. intros q Hq.
    destruct (Hp q Hq) as [L1 L2]. destruct (HF' q Hq) as [G1 G2].
    split; cbn [shift fst snd]; lia.
  - apply Forall_map. rewrite Forall_forall in *. intros p Hp.
    destruct (HR p Hp) as (x & y & Hx & Hy & Hxy). destruct (HF p Hp) as [Ha Hb].
    exists x, y. cbn [shift fst snd]. rewrite !nth_error_skipn' by assumption. auto.
Qed.

Lemma rel_nil_l : forall ys p, ~ rel [] ys p.
Proof. intros ys p (x & y & Hx & _). destruct (fst p); discriminate. Qed.
Lemma rel_nil_r : forall xs p, ~ rel xs [] p.
Proof. intros xs p (x & y & _ & Hy & _). destruct (snd p); discriminate. Qed.

Lemma cellv_upper : forall p q M, Matching p q M -> length M <= fst (cellv p q).
Proof.
  induction p as [|x p IHp]; intros q M HM.
  - destruct M as [|pr M]; [simpl; lia|]. destruct HM as [_ HR].
    inversion HR as [|? ? H _]; subst. now apply rel_nil_l in H.
  - revert M HM. induction q as [|y q IHq]; intros M HM.
    + destruct M as [|pr M]; [simpl; lia|]. destruct HM as [_ HR].
      inversion HR as [|? ? H _]; subst. now apply rel_nil_r in H.
    + rewrite cellv_cons_cons.
      destruct (pick_ge (fst (cellv p (y :: q))) (fst (cellv (x :: p) q)) (fst (cellv p q)) (eqb x y))
        as (Gd & Gi & Gm).
      destruct M as [|[i j] M]; [simpl; lia|].
      pose proof HM as [HS HR].
      inversion HS as [|? ? HS' Hlt]; subst. inversion HR as [|? ? Hr HR']; subst.
      destruct i as [|i].
      * destruct j as [|j].
        -- destruct Hr as (x' & y' & Hx & Hy & Hxy). cbn [fst snd nth_error] in Hx, Hy.
           injection Hx as <-. injection Hy as <-. rewrite Hxy in Gm |- *. cbv iota in Gm.
           assert (HM' : Matching (skipn 1 (x :: p)) (skipn 1 (y :: q)) (map (shift 1 1) M)).
           { apply shift_matching; [split; assumption|].
             eapply Forall_impl; [|exact Hlt]. intros pr [A B]. cbn [fst snd] in A, B. lia. }
           cbn [skipn] in HM'. apply IHp in HM'. rewrite map_length in HM'. cbn [length]. lia.
        -- assert (HM' : Matching (skipn 0 (x :: p)) (skipn 1 (y :: q)) (map (shift 0 1) ((0, S j) :: M))).
           { apply shift_matching; [exact HM|]. constructor; [cbn [fst snd]; lia|].
             eapply Forall_impl; [|exact Hlt]. intros pr [A B]. cbn [fst snd] in A, B. lia. }
           cbn [skipn] in HM'. apply IHq in HM'. rewrite map_length in HM'. lia.
      * assert (HM' : Matching (skipn 1 (x :: p)) (skipn 0 (y :: q)) (map (shift 1 0) ((S i, j) :: M))).
        { apply shift_matching; [exact HM|]. constructor; [cbn [fst snd]; lia|].
          eapply Forall_impl; [|exact Hlt]. intros pr [A B]. cbn [fst snd] in A, B. lia. }
        cbn [skipn] in HM'. apply IHp in HM'. rewrite map_length in HM'. lia.
Qed.

Definition mir (n m : nat) (p : nat * nat) : nat * nat := (n - 1 - fst p, m - 1 - snd p).

Lemma rel_range : forall xs ys p, rel xs ys p -> fst p < length xs /\ snd p < length ys.
Proof.
  intros xs ys p (x & y & Hx & Hy & _). split; apply nth_error_Some; congruence.
Qed.

Lemma mirror_matching : forall xs ys M,
  Matching xs ys M -> Matching (rev xs) (rev ys) (rev (map (mir (length xs) (length ys)) M)).
Proof.
  intros xs ys M [HS HR]. split.
  - induction HS as [|p M HS IH Hp]; cbn [map rev]; [constructor|].
    inversion HR as [|? ? Hr HR']; subst.
    apply SS_app_last; [apply IH; exact HR'|].
    rewrite Forall_forall in *. intros q Hq. apply in_rev in Hq. apply in_map_iff in Hq as (q0 & <- & Hq0).
    destruct (Hp q0 Hq0) as [L1 L2]. destruct (rel_range _ _ _ (HR' q0 Hq0)) as [R1 R2].
    split; cbn [mir fst snd]; lia.
  - rewrite Forall_forall in *. intros q Hq. apply in_rev in Hq. apply in_map_iff in Hq as (p & <- & Hp).
    pose proof (HR p Hp) as Hr. destruct (rel_range _ _ _ Hr) as [R1 R2].
    destruct Hr as (x & y & Hx & Hy & Hxy). exists x, y. cbn [mir fst snd].
    rewrite !nth_error_rev' by assumption. auto.
Qed.

Lemma lcs_upper : forall xs ys M, Matching xs ys M -> length M <= fst (cellv (rev xs) (rev ys)).
Proof.
  intros xs ys M HM. apply mirror_matching in HM. apply cellv_upper in HM.
  now rewrite rev_length, map_length in HM.
Qed.

(** * The boolean checkers *)
Lemma pair_lt_trans : forall a b c, pair_lt a b -> pair_lt b c -> pair_lt a c.
Proof. unfold pair_lt. intros a b c [] []. lia. Qed.

Lemma inc_pairsb_spec : forall m, inc_pairsb m = true <-> StronglySorted pair_lt m.
Proof.
  assert (Hs : forall m, inc_pairsb m = true <-> Sorted pair_lt m).
  { induction m as [|p m IH]; [split; [constructor|reflexivity]|].
    cbn [inc_pairsb]. rewrite andb_true_iff, IH. split.
    - intros [H1 H2]. constructor; [exact H2|]. destruct m as [|q m]; constructor.
      unfold pair_ltb in H1. apply andb_true_iff in H1 as [A B].
      apply Nat.ltb_lt in A. apply Nat.ltb_lt in B. split; assumption.
    - intros H. inversion H as [|? ? H1 H2]; subst. split; [|exact H1].
      destruct m as [|q m]; [reflexivity|]. inversion H2 as [|? ? [A B]]; subst.
      unfold pair_ltb. apply andb_true_iff. split; apply Nat.ltb_lt; assumption. }
  intros m. rewrite Hs. split.
  - apply Sorted_StronglySorted. exact pair_lt_trans.
  - apply StronglySorted_Sorted.
Qed.

Lemma relatedb_spec : forall xs ys p, relatedb eqb xs ys p = true <-> rel xs ys p.
Proof.
  intros xs ys p. unfold relatedb, rel. split.
  - destruct (nth_error xs (fst p)) as [x|]; [|discriminate].
    destruct (nth_error ys (snd p)) as [y|]; [|discriminate]. intros H. exists x, y. auto.
  - intros (x & y & -> & -> & H). exact H.
Qed.

Lemma lcs_matchingb_spec : forall xs ys m,
  lcs_matchingb eqb xs ys m = true <-> Matching xs ys m /\ length m = lcs_value eqb xs ys.
Proof.
  intros xs ys m. unfold lcs_matchingb, Matching.
  rewrite !andb_true_iff, inc_pairsb_spec, forallb_forall, Forall_forall, Nat.eqb_eq.
  split.
  - intros [[A B] C]. repeat split; try assumption. intros p Hp. apply relatedb_spec. auto.
  - intros [[A B] C]. repeat split; try assumption. intros p Hp. apply relatedb_spec. auto.
Qed.

End LCS.

Arguments rel {K}.
Arguments Matching {K}.
Arguments cellv {K}.

(** * Statements in the form they are pinned *)
Lemma match_total_l : forall K (eqb : K -> K -> bool) xs ys, exists M, match_keys eqb xs ys = Some M.
Proof. intros. destruct (match_keys_ok K eqb xs ys) as (M & H & _). eauto. Qed.

Lemma match_increasing_l : forall K (eqb : K -> K -> bool) xs ys M,
  match_keys eqb xs ys = Some M -> StronglySorted pair_lt M.
Proof.
  intros K eqb xs ys M H. destruct (match_keys_ok K eqb xs ys) as (M' & H1 & _ & H3 & _).
  rewrite H in H1. injection H1 as ->. exact H3.
Qed.

Lemma match_related_l : forall K (eqb : K -> K -> bool) xs ys M,
  match_keys eqb xs ys = Some M ->
  Forall (fun p => exists x y, nth_error xs (fst p) = Some x /\ nth_error ys (snd p) = Some y /\ eqb x y = true) M.
Proof.
  intros K eqb xs ys M H. destruct (match_keys_ok K eqb xs ys) as (M' & H1 & _ & _ & H4).
  rewrite H in H1. injection H1 as ->. eapply Forall_impl; [|exact H4]. intros p (_ & _ & C). exact C.
Qed.

Lemma match_matching_l : forall K (eqb : K -> K -> bool) xs ys M,
  match_keys eqb xs ys = Some M -> Matching eqb xs ys M.
Proof.
  intros K eqb xs ys M H. split; [eapply match_increasing_l; eauto|].
  eapply match_related_l; eauto.
Qed.

Lemma match_size_l : forall K (eqb : K -> K -> bool) xs ys M,
  match_keys eqb xs ys = Some M -> length M = lcs_value eqb xs ys.
Proof.
  intros K eqb xs ys M H. destruct (match_keys_ok K eqb xs ys) as (M' & H1 & H2 & _).
  rewrite H in H1. injection H1 as ->. now rewrite lcs_value_spec.
Qed.

Lemma match_optimal_l : forall K (eqb : K -> K -> bool) xs ys M M',
  match_keys eqb xs ys = Some M -> Matching eqb xs ys M' -> length M' <= length M.
Proof.
  intros K eqb xs ys M M' H HM. rewrite (match_size_l _ _ _ _ _ H), lcs_value_spec.
  now apply lcs_upper.
Qed.

Lemma inc_len_bound : forall (M0 : list (nat * nat)) lo k, StronglySorted pair_lt M0 ->
  Forall (fun q => lo <= fst q < lo + k) M0 -> length M0 <= k.
Proof.
  induction M0 as [|q M0 IH]; intros lo k HS HF; [simpl; lia|].
  inversion HS as [|? ? HS' Hlt]; subst. inversion HF as [|? ? Hq HF']; subst.
  destruct k as [|k]; [lia|]. cbn [length].
  assert (length M0 <= k); [|lia].
  apply (IH (S lo) k HS'). rewrite Forall_forall in *. intros r Hr.
  destruct (Hlt r Hr) as [A _]. specialize (HF' r Hr). lia.
Qed.

Lemma swap_sorted : forall M : list (nat * nat), StronglySorted pair_lt M ->
  StronglySorted pair_lt (map (fun p => (snd p, fst p)) M).
Proof.
  intros M0 HS. induction HS as [|p M0 HS IH Hp]; cbn [map]; constructor; [exact IH|].
  apply Forall_map. eapply Forall_impl; [|exact Hp]. intros q [A B]. split; cbn [fst snd]; assumption.
Qed.

Lemma matching_bound_l : forall K (eqb : K -> K -> bool) xs ys M,
  Matching eqb xs ys M -> length M <= length xs /\ length M <= length ys.
Proof.
  intros K eqb xs ys M [HS HR]. split.
  - apply (inc_len_bound M 0); [exact HS|]. eapply Forall_impl; [|exact HR].
    intros p Hp. apply rel_range in Hp. lia.
  - rewrite <- (map_length (fun p => (snd p, fst p))). apply (inc_len_bound _ 0); [now apply swap_sorted|].
    apply Forall_map. eapply Forall_impl; [|exact HR]. intros p Hp. apply rel_range in Hp. cbn [fst]. lia.
Qed.

(** the checker is sound: what it accepts is an optimal matching *)
Lemma lcs_matchingb_sound_l : forall K (eqb : K -> K -> bool) xs ys m,
  lcs_matchingb eqb xs ys m = true ->
  Matching eqb xs ys m /\ forall M', Matching eqb xs ys M' -> length M' <= length m.
Proof.
  intros K eqb xs ys m H. apply lcs_matchingb_spec in H as [HM HL]. split; [exact HM|].
  intros M' HM'. rewrite HL, lcs_value_spec. now apply lcs_upper.
Qed.

Lemma lcs_matchingb_complete_l : forall K (eqb : K -> K -> bool) xs ys M,
  match_keys eqb xs ys = Some M -> lcs_matchingb eqb xs ys M = true.
Proof.
  intros K eqb xs ys M H. apply lcs_matchingb_spec. split; [now apply match_matching_l|].
  now apply match_size_l.
Qed.

(** * Identity: a sequence matched with itself gives the diagonal *)
Lemma diag_matching : forall K (eqb : K -> K -> bool) (xs : list K),
  (forall x, eqb x x = true) ->
  Matching eqb xs xs (map (fun i => (i, i)) (seq 0 (length xs))).
Proof.
  intros K eqb xs Hrefl. split.
  - generalize 0 as s. generalize (length xs) as n.
    induction n as [|n IH]; intros s; cbn [seq map]; constructor; [apply IH|].
    apply Forall_map. rewrite Forall_forall. intros i Hi. apply in_seq in Hi.
    split; cbn [fst snd]; lia.
  - apply Forall_map. rewrite Forall_forall. intros i Hi. apply in_seq in Hi.
    destruct (nth_error xs i) as [x|] eqn:E.
    + exists x, x. cbn [fst snd]. auto.
    + apply nth_error_None in E. lia.
Qed.

(** a strictly increasing list of n pairs with first components below n is the diagonal
    as far as first components go (and likewise for the second ones) *)
Lemma inc_full : forall (M : list (nat * nat)) s n,
  StronglySorted pair_lt M -> Forall (fun p => s <= fst p < s + n) M -> length M = n ->
  map fst M = seq s n.
Proof.
  induction M as [|p M IH]; intros s n HS HF HL.
  - cbn [length] in HL. subst n. reflexivity.
  - destruct n as [|n]; [discriminate|]. cbn [length] in HL. injection HL as HL. revert HL.
    inversion HS as [|? ? HS' Hlt]; subst. inversion HF as [|? ? Hp HF']; subst. intros HL.
    assert (Hfst : fst p = s).
    { (* otherwise the n remaining pairs live in an interval of n-1 values *)
      destruct (Nat.eq_dec (fst p) s) as [|Hne]; [assumption|exfalso].
      assert (length M <= n - 1); [|lia].
      apply (inc_len_bound M (S (S s)) (n - 1) HS'). rewrite Forall_forall in *. intros r Hr.
      destruct (Hlt r Hr) as [A _]. specialize (HF' r Hr). lia. }
    cbn [map seq]. f_equal; [exact Hfst|].
    apply IH; [exact HS'| |exact HL].
    rewrite Forall_forall in *. intros r Hr. destruct (Hlt r Hr) as [A _]. specialize (HF' r Hr). lia.
Qed.

Lemma match_self_l : forall K (eqb : K -> K -> bool) (xs : list K) M,
  (forall x, eqb x x = true) -> match_keys eqb xs xs = Some M ->
  M = map (fun i => (i, i)) (seq 0 (length xs)).
Proof.
  intros K eqb xs M Hrefl H.
  pose proof (match_matching_l _ _ _ _ _ H) as HM.
  pose proof (match_optimal_l _ _ _ _ _ _ H (diag_matching K eqb xs Hrefl)) as Hopt.
  rewrite map_length, seq_length in Hopt.
  destruct (matching_bound_l _ _ _ _ _ HM) as [Hb _].
  assert (HL : length M = length xs) by lia.
  destruct HM as [HS HR].
  assert (H1 : map fst M = seq 0 (length xs)).
  { apply inc_full; [exact HS| |exact HL]. eapply Forall_impl; [|exact HR].
    intros p Hp. apply rel_range in Hp. lia. }
  assert (H2 : map fst (map (fun p : nat * nat => (snd p, fst p)) M) = seq 0 (length xs)).
  { apply inc_full.
    - now apply swap_sorted.
    - apply Forall_map. eapply Forall_impl; [|exact HR]. intros p Hp. apply rel_range in Hp. cbn [fst]. lia.
    - now rewrite map_length. }
  rewrite map_map in H2. cbn [fst] in H2.
  clear -H1 H2. revert H1 H2. generalize (seq 0 (length xs)) as l.
  induction M as [|[i j] M IH]; intros l H1 H2; destruct l as [|a l]; try discriminate; [reflexivity|].
  cbn [map fst snd] in *. injection H1 as -> H1. injection H2 as -> H2. f_equal. now apply IH.
Qed.

(** * edited_words *)
Lemma mem_nat_spec : forall i l, mem_nat i l = true <-> In i l.
Proof.
  intros i l. unfold mem_nat. rewrite existsb_exists. split.
  - intros (x & Hx & E). apply Nat.eqb_eq in E. now subst.
  - intros H. exists i. split; [exact H|apply Nat.eqb_refl].
Qed.

Lemma complement_spec : forall n used i, In i (complement n used) <-> i < n /\ ~ In i used.
Proof.
  intros n used i. unfold complement. rewrite filter_In, in_seq, negb_true_iff.
  rewrite <- mem_nat_spec. destruct (mem_nat i used); split; intros [A B]; split; try lia; congruence.
Qed.

Lemma complement_sorted : forall n used, StronglySorted lt (complement n used).
Proof.
  intros n used. unfold complement. generalize 0 as s.
  induction n as [|n IH]; intros s; cbn [seq filter]; [constructor|].
  destruct (negb (mem_nat s used)); [|apply IH].
  constructor; [apply IH|]. rewrite Forall_forall. intros i Hi. apply filter_In in Hi as [Hi _].
  apply in_seq in Hi. lia.
Qed.

Lemma edited_complement_l : forall a b ea eb,
  edited_words a b = Some (ea, eb) ->
  exists M, match_words a b = Some (M, length (split_ascii_ws a), length (split_ascii_ws b))
    /\ (forall i, In i ea <-> i < length (split_ascii_ws a) /\ ~ In i (map fst M))
    /\ (forall j, In j eb <-> j < length (split_ascii_ws b) /\ ~ In j (map snd M))
    /\ StronglySorted lt ea /\ StronglySorted lt eb.
Proof.
  intros a b ea eb H. unfold edited_words in H.
  destruct (match_words a b) as [[[M na] nb]|] eqn:E; [|discriminate].
  unfold match_words in E.
  destruct (match_keys str_eqb (split_ascii_ws a) (split_ascii_ws b)) as [M'|]; [|discriminate].
  injection E as -> <- <-. injection H as <- <-. exists M. split; [reflexivity|].
  split; [intros i; apply complement_spec|]. split; [intros i; apply complement_spec|].
  split; apply complement_sorted.
Qed.

Lemma match_words_spec_l : forall a b,
  exists M, match_words a b = Some (M, length (split_ascii_ws a), length (split_ascii_ws b))
    /\ match_keys str_eqb (split_ascii_ws a) (split_ascii_ws b) = Some M.
Proof.
  intros a b. unfold match_words.
  destruct (match_total_l _ str_eqb (split_ascii_ws a) (split_ascii_ws b)) as [M ->]. eauto.
Qed.

Lemma str_eqb_eq : forall a b, str_eqb a b = true <-> a = b.
Proof.
  unfold str_eqb. induction a as [|x a IH]; intros [|y b]; cbn [nlist_eqb]; split; try congruence; try discriminate.
  - intros H. apply andb_true_iff in H as [A B]. apply N.eqb_eq in A. apply IH in B. congruence.
  - intros H. injection H as -> ->. apply andb_true_iff. split; [apply N.eqb_refl|now apply IH].
Qed.

(** * check_C18 holds of the model's own output *)
Lemma v_pair_pairv : forall p, v_pair (pairv p) = p.
Proof.
  intros [i j]. unfold v_pair, pairv, v_nat, nat_v. cbn [v_nth nth v_z fst snd].
  now rewrite !Nat2Z.id.
Qed.
Lemma v_list_list_v : forall {A} (f : val -> A) (g : A -> val) l,
  (forall x, f (g x) = x) -> v_list f (list_v g l) = l.
Proof.
  intros A f g l H. unfold v_list, list_v. rewrite map_map. rewrite <- (map_id l) at 2.
  apply map_ext. exact H.
Qed.
Lemma v_nat_nat_v : forall n, v_nat (nat_v n) = n.
Proof. intros n. unfold v_nat, nat_v. cbn [v_z]. apply Nat2Z.id. Qed.
Lemma natlist_eqb_refl : forall l, natlist_eqb l l = true.
Proof. induction l as [|x l IH]; [reflexivity|]. cbn [natlist_eqb]. now rewrite Nat.eqb_refl, IH. Qed.

Lemma check_run_l : forall v, keys_ok v = true -> check_C18 v (run_C18 v) = true.
Proof.
  intros v Hk. unfold check_C18, run_C18. rewrite Hk. cbn [negb].
  set (wa := split_ascii_ws (v_str (v_nth 0 v))).
  set (wb := split_ascii_ws (v_str (v_nth 1 v))).
  set (ka := if v_bool (v_nth 2 v) then v_list v_str (v_nth 3 v) else wa).
  set (kb := if v_bool (v_nth 2 v) then v_list v_str (v_nth 4 v) else wb).
  destruct (match_total_l _ str_eqb ka kb) as [m Hm]. rewrite Hm.
  destruct (match_total_l _ str_eqb wa wb) as [mx Hmx]. rewrite Hmx.
  cbn [shape6 list_v nat_v edited_of fst snd v_nth nth v_z].
  change (L (map pairv m)) with (list_v pairv m). change (L (map pairv mx)) with (list_v pairv mx).
  rewrite !(v_list_list_v v_pair pairv) by apply v_pair_pairv.
  change (L (map nat_v ?l)) with (list_v nat_v l).
  rewrite !(v_list_list_v v_nat nat_v) by apply v_nat_nat_v.
  rewrite (lcs_matchingb_complete_l _ _ _ _ _ Hm), (lcs_matchingb_complete_l _ _ _ _ _ Hmx).
  rewrite !Z.eqb_refl, !natlist_eqb_refl. reflexivity.
Qed.

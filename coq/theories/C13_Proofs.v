(** C13 proofs, part 5: the executable statement [check_C13] holds of the model's own output. *)
From Coq Require Import QArith Lqa Lia.
From TU Require Import Base C13_Model C13_F1 C13_Ws C13_Sp.
From TU Require C10_Model.
Open Scope nat_scope.

(** * val *)
Lemma val_eqb_refl : forall v, val_eqb v v = true.
Proof.
  fix IH 1. intros [z|l].
  - apply Z.eqb_refl.
  - cbn [val_eqb]. induction l as [|x l IHl]; [reflexivity|]. rewrite (IH x), IHl. reflexivity.
Qed.

Lemma val_eqb_eq : forall a b, val_eqb a b = true -> a = b.
Proof.
  fix IH 1. intros [z|l] [z'|l'] H; cbn [val_eqb] in H; try discriminate.
  - apply Z.eqb_eq in H. now f_equal.
  - f_equal. revert l' H. induction l as [|x l IHl]; intros [|y l'] H; try discriminate; [reflexivity|].
    apply andb_true_iff in H as [H1 H2]. f_equal; [now apply IH|now apply IHl].
Qed.

(** * numbers *)
Lemma v_num_num_v : forall q, v_num (num_v q) = Some (Qnum (Qred q), Zpos (Qden (Qred q))).
Proof. intros q. unfold num_v, v_num. cbv zeta. cbn [Z.ltb Z.compare Z.leb]. now rewrite Z.pow_0_r, Z.mul_1_r. Qed.

Lemma close_refl : forall x p, v_num x = Some p -> close x x = true.
Proof.
  intros x [n d] H. unfold close. rewrite H. rewrite Z.sub_diag. cbn [Z.abs Z.mul].
  apply Z.leb_le. apply Z.abs_nonneg.
Qed.

Lemma close_num_v : forall q, close (num_v q) (num_v q) = true.
Proof. intros q. eapply close_refl. apply v_num_num_v. Qed.

Lemma num_v_ext : forall a b, (a == b)%Q -> num_v a = num_v b.
Proof. intros a b H. unfold num_v. now rewrite (Qred_complete a b H). Qed.

Lemma in01_num_v : forall q, in01q q -> in01 (num_v q) = true.
Proof.
  intros q [H0 H1]. unfold in01. rewrite v_num_num_v.
  rewrite <- (Qred_correct q) in H0, H1. unfold Qle in H0, H1. cbn [Qnum Qden] in H0, H1.
  apply andb_true_iff. split; apply Z.leb_le; lia.
Qed.

Lemma nonneg_num_v : forall q, (0 <= q)%Q -> nonneg (num_v q) = true.
Proof.
  intros q H0. unfold nonneg. rewrite v_num_num_v.
  rewrite <- (Qred_correct q) in H0. unfold Qle in H0. cbn [Qnum Qden] in H0. apply Z.leb_le. lia.
Qed.

Lemma is_zero_num_v : forall q, (q == 0)%Q -> is_zero (num_v q) = true.
Proof.
  intros q H. unfold is_zero. rewrite v_num_num_v.
  rewrite <- (Qred_correct q) in H. unfold Qeq in H. cbn [Qnum Qden] in H. apply Z.eqb_eq. lia.
Qed.

Lemma close3_refl : forall x, close3 (fpr_v x) (fpr_v x) = true.
Proof. intros [[f p] r]. unfold close3, fpr_v. now rewrite !close_num_v. Qed.

Lemma in01_3_fpr : forall x, fpr01 x -> in01_3 (fpr_v x) = true.
Proof.
  intros [[f p] r] (H1 & H2 & H3). unfold in01_3, fpr_v. unfold c1, c2, c3 in *. cbn [fst snd] in *.
  now rewrite !in01_num_v.
Qed.

Lemma eq3_fpr : forall x, (c1 x == c2 x)%Q -> (c3 x == c2 x)%Q -> eq3 (fpr_v x) = true.
Proof.
  intros [[f p] r] H1 H2. unfold c1, c2, c3 in *. cbn [fst snd] in *. unfold eq3, fpr_v.
  rewrite (num_v_ext f p H1), (num_v_ext r p H2). now rewrite !close_num_v.
Qed.

Lemma zero3_fpr : forall x, (c1 x == 0)%Q -> (c2 x == 0)%Q -> (c3 x == 0)%Q -> zero3 (fpr_v x) = true.
Proof.
  intros [[f p] r] H1 H2 H3. unfold c1, c2, c3 in *. cbn [fst snd] in *. unfold zero3, fpr_v.
  now rewrite !is_zero_num_v.
Qed.

(** * collect *)
Lemma collect_ok : forall {A} (l : list (option (option A))),
  (forall x, In x l -> exists v, x = Some (Some v)) ->
  exists vals, collect l = Ok vals /\ Forall2 (fun x v => x = Some (Some v)) l vals.
Proof.
  intros A. induction l as [|x l IH]; intros H.
  - exists []. split; [reflexivity|constructor].
  - destruct (H x (or_introl eq_refl)) as [v ->].
    destruct IH as (vals & E & F); [intros y Hy; apply H; now right|].
    exists (v :: vals). cbn [collect]. rewrite E. split; [reflexivity|]. constructor; [reflexivity|exact F].
Qed.

Lemma collect_inv : forall {A} (l : list (option (option A))) vals,
  collect l = Ok vals -> Forall2 (fun x v => x = Some (Some v)) l vals.
Proof.
  intros A. induction l as [|x l IH]; intros vals H; cbn [collect] in H.
  - injection H as <-. constructor.
  - destruct x as [[v|]|]; destruct (collect l) as [vs| |]; try discriminate.
    injection H as <-. constructor; [reflexivity|now apply IH].
Qed.

Lemma collect_no_panic : forall {A} (l : list (option (option A))),
  (forall x, In x l -> x <> Some None) -> collect l <> Panic.
Proof.
  intros A. induction l as [|x l IH]; intros H; cbn [collect]; [discriminate|].
  assert (Hx := H x (or_introl eq_refl)).
  assert (Hl : collect l <> Panic) by (apply IH; intros y Hy; apply H; now right).
  destruct x as [[v|]|]; destruct (collect l) as [vs| |]; try discriminate; congruence.
Qed.

(** * calibration of the aggregates *)
Lemma total_zero : forall f vals, Forall (fun c => f c = 0) vals -> total f vals = 0.
Proof.
  intros f vals H. unfold total, sum_nat. induction H as [|c vals Hc _ IH]; [reflexivity|].
  cbn [map fold_right]. lia.
Qed.

Lemma qsum_ext : forall {A} (f g : A -> Q) l, (forall x, In x l -> (f x == g x)%Q) ->
  (qsum (map f l) == qsum (map g l))%Q.
Proof.
  intros A f g. induction l as [|x l IH]; intros H; cbn [map qsum]; [reflexivity|].
  rewrite (H x (or_introl eq_refl)), IH; [reflexivity|]. intros y Hy. apply H. now right.
Qed.

Lemma seq_one_eq : forall beta c, fp_of c = 0 -> fn_of c = 0 ->
  (c1 (seq_one beta c) == c2 (seq_one beta c))%Q /\ (c3 (seq_one beta c) == c2 (seq_one beta c))%Q.
Proof.
  intros beta [[[e tp] fp] fn] H1 H2. cbn [fp_of fn_of] in H1, H2. subst fp fn. unfold seq_one.
  destruct e; [split; reflexivity|]. destruct tp as [|tp].
  - destruct (f1_no_tp beta 0 0) as (A & B & C). rewrite A, B, C. split; reflexivity.
  - destruct (f1_perfect beta (S tp) ltac:(lia)) as (A & B & C). rewrite A, B, C. split; reflexivity.
Qed.

Lemma agg_eq : forall sa beta vals, Forall (fun c => fp_of c = 0 /\ fn_of c = 0) vals ->
  (c1 (aggregate sa beta vals) == c2 (aggregate sa beta vals))%Q /\
  (c3 (aggregate sa beta vals) == c2 (aggregate sa beta vals))%Q.
Proof.
  intros sa beta vals H. unfold aggregate. destruct sa.
  - destruct (seq_avg_spec_l beta vals) as (A & B & C). rewrite A, B, C.
    rewrite Forall_forall in H. split.
    + apply Qdiv_comp; [|reflexivity]. apply qsum_ext. intros c Hc. destruct (H c Hc) as [X Y].
      apply (seq_one_eq beta c X Y).
    + apply Qdiv_comp; [|reflexivity]. apply qsum_ext. intros c Hc. destruct (H c Hc) as [X Y].
      apply (seq_one_eq beta c X Y).
  - rewrite micro_spec_l.
    rewrite (total_zero fp_of), (total_zero fn_of);
      try (eapply Forall_impl; [|exact H]; intros c Hc; cbv beta in Hc; tauto).
    destruct (total tp_of vals) as [|tp].
    + destruct (f1_no_tp beta 0 0) as (A & B & C). rewrite A, B, C. split; reflexivity.
    + destruct (f1_perfect beta (S tp) ltac:(lia)) as (A & B & C). rewrite A, B, C. split; reflexivity.
Qed.

Lemma agg_zero : forall beta vals, Forall (fun c => tp_of c = 0) vals ->
  (c1 (micro_f1 beta vals) == 0)%Q /\ (c2 (micro_f1 beta vals) == 0)%Q /\ (c3 (micro_f1 beta vals) == 0)%Q.
Proof.
  intros beta vals H. rewrite micro_spec_l, (total_zero tp_of vals H). apply f1_no_tp.
Qed.

Lemma calib_fpr : forall d sa beta vals,
  (val_eqb (v_nth 1 d) (v_nth 2 d) = true -> Forall (fun c => fp_of c = 0 /\ fn_of c = 0) vals) ->
  (val_eqb (v_nth 1 d) (v_nth 0 d) = true -> Forall (fun c => tp_of c = 0) vals) ->
  calib d sa (fpr_v (aggregate sa beta vals)) = true.
Proof.
  intros d sa beta vals H1 H2. unfold calib. apply andb_true_iff. split.
  - destruct (val_eqb (v_nth 1 d) (v_nth 2 d)); [|reflexivity].
    destruct (agg_eq sa beta vals (H1 eq_refl)) as [A B]. now apply eq3_fpr.
  - destruct (val_eqb (v_nth 1 d) (v_nth 0 d)); [|reflexivity]. destruct sa; [reflexivity|].
    cbn [negb andb]. unfold aggregate. destruct (agg_zero beta vals (H2 eq_refl)) as (A & B & C).
    now apply zero3_fpr.
Qed.

(** * zip3 *)
Lemma zip3_in : forall {A} (a b c : list A) x y z, In (x, y, z) (zip3 a b c) -> In x a /\ In y b /\ In z c.
Proof.
  intros A. induction a as [|x0 a IH]; intros [|y0 b] [|z0 c] x y z H; cbn [zip3] in H; try contradiction. destruct H as [H|H].
  - injection H as <- <- <-. cbn [In]. auto.
  - destruct (IH _ _ _ _ _ H) as (P & Q & R). cbn [In]. auto.
Qed.

Lemma zip3_same : forall {A} (a b : list A) x y z, In (x, y, z) (zip3 a b b) -> y = z.
Proof.
  intros A. induction a as [|x0 a IH]; intros [|y0 b] x y z H; cbn [zip3] in H; try contradiction. destruct H as [H|H].
  - now injection H as _ <- <-.
  - now apply (IH b x y z).
Qed.

Lemma zip3_same12 : forall {A} (a c : list A) x y z, In (x, y, z) (zip3 a a c) -> x = y.
Proof.
  intros A. induction a as [|x0 a IH]; intros [|z0 c] x y z H; cbn [zip3] in H; try contradiction. destruct H as [H|H].
  - now injection H as <- <- _.
  - now apply (IH c x y z).
Qed.

Lemma Forall2_map_l : forall {A B C} (f : A -> B) (R : B -> C -> Prop) l vals,
  Forall2 R (map f l) vals -> Forall2 (fun x v => R (f x) v) l vals.
Proof.
  intros A B C f R. induction l as [|x l IH]; intros vals H; inversion H; subst; constructor; auto.
Qed.

Lemma Forall2_forall_r : forall {A B} (R : A -> B -> Prop) (P : B -> Prop) l vals,
  Forall2 R l vals -> (forall x v, In x l -> R x v -> P v) -> Forall P vals.
Proof.
  intros A B R P l vals H. induction H as [|x v l vals Hxv _ IH]; intros HP; constructor.
  - apply (HP x v); [now left|exact Hxv].
  - apply IH. intros y w Hy. apply HP. now right.
Qed.

(** * the five functions *)
Definition d_inputs (v : val) := v_cll (v_nth 0 (v_nth 2 v)).
Definition d_preds (v : val) := v_cll (v_nth 1 (v_nth 2 v)).
Definition d_targets (v : val) := v_cll (v_nth 2 (v_nth 2 v)).

Lemma check_sp : forall v, v_z (v_nth 0 v) = 4%Z ->
  forallb clean_text (d_inputs v) = true -> forallb clean_text (d_preds v) = true ->
  check_C13 v (run_C13 v) = true.
Proof.
  intros v Hfn Hci Hcp. unfold check_C13, run_C13. rewrite Hfn.
  fold (d_inputs v) (d_preds v) (d_targets v).
  set (beta := v_beta (v_nth 0 (v_nth 1 v))). set (sa := v_bool (v_nth 1 (v_nth 1 v))).
  unfold sp_f1. destruct (same3 (d_inputs v) (d_preds v) (d_targets v)); [|reflexivity].
  destruct (collect_ok (map (fun x => match x with (i, p, t) => Some (sp_tp_fp_fn i p t) end)
                            (zip3 (d_inputs v) (d_preds v) (d_targets v)))) as (vals & E & F).
  { intros x Hx. apply in_map_iff in Hx as ([[i p] t] & <- & Hin). apply zip3_in in Hin as (Hi & Hp & _).
    rewrite forallb_forall in Hci, Hcp.
    destruct (sp_total_l i p t (Hci i Hi) (Hcp p Hp)) as [c ->]. eauto. }
  rewrite E. cbn [outcome_out ok_v agree_C13]. rewrite Hfn. rewrite close3_refl. cbn [andb].
  rewrite in01_3_fpr by apply aggregate_range_l. cbn [andb].
  apply Forall2_map_l in F.
  apply calib_fpr.
  - intros Heq. apply val_eqb_eq in Heq.
    assert (Hpt : d_preds v = d_targets v) by (unfold d_preds, d_targets; now rewrite Heq).
    rewrite <- Hpt in F. eapply Forall2_forall_r; [exact F|].
    intros [[i p] t] [[[e tp] fp] fn] Hin Hr. cbv beta in Hr. injection Hr as Hr.
    pose proof (zip3_same _ _ _ _ _ Hin) as <-. apply zip3_in in Hin as (Hi & Hp & _).
    rewrite forallb_forall in Hci, Hcp.
    destruct (sp_pred_eq_target_l i p e tp fp fn (Hci i Hi) (Hcp p Hp) Hr) as [-> ->]. split; reflexivity.
  - intros Heq. apply val_eqb_eq in Heq.
    assert (Hpi : d_preds v = d_inputs v) by (unfold d_preds, d_inputs; now rewrite Heq).
    rewrite Hpi in F. eapply Forall2_forall_r; [exact F|].
    intros [[i p] t] [[[e tp] fp] fn] Hin Hr. cbv beta in Hr. injection Hr as Hr.
    pose proof (zip3_same12 _ _ _ _ _ Hin) as <-.
    cbn [tp_of]. exact (sp_unchanged_l i t e tp fp fn Hr).
Qed.

Lemma no_fp_fn_infos : forall (ws : list winfo),
  Forall (fun w => match w with (_, b, c) => b = [] /\ c = [] end) ws ->
  no_fp_fn (list_v winfo_v ws) = true.
Proof.
  intros ws H. unfold no_fp_fn, list_v. apply forallb_forall. intros x Hx.
  apply in_map_iff in Hx as ([[a b] c] & <- & Hin). rewrite Forall_forall in H.
  destruct (H _ Hin) as [-> ->]. reflexivity.
Qed.

Lemma check_ws : forall v, v_z (v_nth 0 v) = 3%Z -> check_C13 v (run_C13 v) = true.
Proof.
  intros v Hfn. unfold check_C13, run_C13. rewrite Hfn.
  fold (d_inputs v) (d_preds v) (d_targets v).
  set (beta := v_beta (v_nth 0 (v_nth 1 v))). set (sa := v_bool (v_nth 1 (v_nth 1 v))).
  set (m := v_mode (v_nth 2 (v_nth 1 v))).
  unfold ws_f1. destruct (same3 (d_inputs v) (d_preds v) (d_targets v)); [|reflexivity].
  set (l := map (fun x => match x with (i, p, t) => ws_tp_fp_fn m i p t end) (zip3 (d_inputs v) (d_preds v) (d_targets v))).
  destruct (collect l) as [vals| |] eqn:E; [|reflexivity|].
  2:{ exfalso. apply (collect_no_panic l); [|exact E]. intros x Hx.
      apply in_map_iff in Hx as ([[i p] t] & <- & _). apply ws_total_l. }
  cbn [outcome_out ok_v agree_C13 fst snd]. rewrite Hfn. rewrite close3_refl, val_eqb_refl. cbn [andb].
  rewrite in01_3_fpr by apply aggregate_range_l. cbn [andb].
  apply collect_inv in E. apply Forall2_map_l in E.
  apply andb_true_iff. split.
  - apply calib_fpr.
    + intros Heq. apply val_eqb_eq in Heq.
      assert (Hpt : d_preds v = d_targets v) by (unfold d_preds, d_targets; now rewrite Heq).
      rewrite <- Hpt in E. apply Forall_map. eapply Forall2_forall_r; [exact E|].
      intros [[i p] t] [[[[e tp] fp] fn] [[a b] c]] Hin Hr. cbv beta in Hr.
      pose proof (zip3_same _ _ _ _ _ Hin) as <-.
      destruct (ws_pred_eq_target_l _ _ _ _ _ _ _ _ _ _ Hr) as (-> & -> & _). cbn [fst fp_of fn_of]. auto.
    + intros Heq. apply val_eqb_eq in Heq.
      assert (Hpi : d_preds v = d_inputs v) by (unfold d_preds, d_inputs; now rewrite Heq).
      rewrite Hpi in E. apply Forall_map. eapply Forall2_forall_r; [exact E|].
      intros [[i p] t] [[[[e tp] fp] fn] info] Hin Hr. cbv beta in Hr.
      pose proof (zip3_same12 _ _ _ _ _ Hin) as <-.
      destruct (ws_unchanged_l _ _ _ _ _ _ _ _ Hr) as [-> _]. reflexivity.
  - destruct (val_eqb (v_nth 1 (v_nth 2 v)) (v_nth 2 (v_nth 2 v))) eqn:Heq; [|reflexivity].
    apply val_eqb_eq in Heq.
    assert (Hpt : d_preds v = d_targets v) by (unfold d_preds, d_targets; now rewrite Heq).
    rewrite <- Hpt in E. apply no_fp_fn_infos. apply Forall_map. eapply Forall2_forall_r; [exact E|].
    intros [[i p] t] [[[[e tp] fp] fn] [[a b] c]] Hin Hr. cbv beta in Hr.
    pose proof (zip3_same _ _ _ _ _ Hin) as <-.
    destruct (ws_pred_eq_target_l _ _ _ _ _ _ _ _ _ _ Hr) as (_ & _ & -> & ->). cbn [snd]. auto.
Qed.

Lemma check_binary : forall v, v_z (v_nth 0 v) = 0%Z -> check_C13 v (run_C13 v) = true.
Proof.
  intros v Hfn. unfold check_C13, run_C13. rewrite Hfn.
  destruct (binary_f1 _ _ _) as [x|] eqn:E; [|reflexivity].
  cbn [opt_out ok_v agree_C13]. rewrite Hfn, close3_refl. cbn [andb].
  apply in01_3_fpr. rewrite binary_f1_spec_l in E.
  destruct (Nat.eqb _ _); [|discriminate]. injection E as <-. apply f1_range_l.
Qed.

Lemma check_accuracy : forall v, v_z (v_nth 0 v) = 1%Z -> check_C13 v (run_C13 v) = true.
Proof.
  intros v Hfn. unfold check_C13, run_C13. rewrite Hfn.
  destruct (accuracy _ _) as [x|] eqn:E; [|reflexivity].
  cbn [opt_out ok_v agree_C13]. rewrite Hfn, close_num_v. cbn [andb].
  apply in01_num_v. exact (accuracy_range_l _ _ _ E).
Qed.

Lemma check_mean_ed : forall v, v_z (v_nth 0 v) = 2%Z -> check_C13 v (run_C13 v) = true.
Proof.
  intros v Hfn. unfold check_C13, run_C13. rewrite Hfn.
  destruct (mean_ed _ _ _) as [x|] eqn:E; [|reflexivity].
  cbn [opt_out ok_v agree_C13]. rewrite Hfn, close_num_v. cbn [andb].
  destruct (mean_ed_range_l _ _ _ _ E) as [H0 H1].
  destruct (v_bool (v_nth 0 (v_nth 1 v))).
  - apply in01_num_v. split; [exact H0|now apply H1].
  - now apply nonneg_num_v.
Qed.

Lemma check_run_l : forall v, premise_C13 v = true -> check_C13 v (run_C13 v) = true.
Proof.
  intros v H. unfold premise_C13 in H.
  destruct (v_z (v_nth 0 v)) as [|p|p] eqn:Hfn; [now apply check_binary| |discriminate].
  destruct p as [p|p|].
  - destruct p as [p|p|]; try discriminate. now apply check_ws.
  - destruct p as [p|p|]; try discriminate.
    + destruct p as [p|p|]; try discriminate.
      apply andb_true_iff in H as [H1 H2]. now apply check_sp.
    + now apply check_mean_ed.
  - now apply check_accuracy.
Qed.

(** * [_correction_f1] as a whole: Err exactly on a length mismatch (spelling) / never the panic value *)
Lemma sp_f1_total_l : forall beta sa inputs preds targets,
  forallb clean_text inputs = true -> forallb clean_text preds = true ->
  if same3 inputs preds targets
  then exists vals, sp_f1 beta sa inputs preds targets = Ok (aggregate sa beta vals)
       /\ Forall2 (fun x c => match x with (i, p, t) => sp_tp_fp_fn i p t = Some c end) (zip3 inputs preds targets) vals
  else sp_f1 beta sa inputs preds targets = Err.
Proof.
  intros beta sa inputs preds targets Hci Hcp. unfold sp_f1.
  destruct (same3 inputs preds targets); [|reflexivity].
  destruct (collect_ok (map (fun x => match x with (i, p, t) => Some (sp_tp_fp_fn i p t) end)
                            (zip3 inputs preds targets))) as (vals & E & F).
  { intros x Hx. apply in_map_iff in Hx as ([[i p] t] & <- & Hin). apply zip3_in in Hin as (Hi & Hp & _).
    rewrite forallb_forall in Hci, Hcp.
    destruct (sp_total_l i p t (Hci i Hi) (Hcp p Hp)) as [c ->]. eauto. }
  rewrite E. exists vals. split; [reflexivity|]. apply Forall2_map_l in F.
  clear -F. induction F as [|[[i p] t] c l vals H _ IH]; constructor; [|exact IH].
  cbv beta in H. now injection H.
Qed.

Lemma ws_f1_total_l : forall beta sa m inputs preds targets, ws_f1 beta sa m inputs preds targets <> Panic.
Proof.
  intros beta sa m inputs preds targets. unfold ws_f1.
  destruct (same3 inputs preds targets); [|discriminate].
  set (l := map (fun x => match x with (i, p, t) => ws_tp_fp_fn m i p t end) (zip3 inputs preds targets)).
  destruct (collect l) as [vals| |] eqn:E; try discriminate.
  exfalso. apply (collect_no_panic l); [|exact E]. intros x Hx.
  apply in_map_iff in Hx as ([[i p] t] & <- & _). apply ws_total_l.
Qed.

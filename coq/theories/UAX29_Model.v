(** UAX #29 extended grapheme cluster segmentation as the crate unicode-segmentation
    (locked version, see UAX29_Table.v) implements it: [str.graphemes(true)], i.e. repeated
    [GraphemeCursor::next_boundary] over the whole string (src/grapheme.rs).

    - [gcb]        = [GraphemeCursor::grapheme_category] (ASCII shortcut, then the range table);
    - [incb_of]    = [is_incb_linker] / [derived_property::InCB_Extend];
    - [check_pair] = [check_pair], clause by clause (GB3 .. GB13, GB999);
    - [ctx]/[advance] = what the cursor knows about the text before the offset, kept while
      moving forward: parity of the run of Regional_Indicators ([ris_count]), whether the text
      ends in ExtPict Extend* / ExtPict Extend* ZWJ (what [handle_emoji] finds scanning back),
      whether it ends in InCB=Consonant {Linker|Extend}* and a Linker was seen (what
      [handle_incb_consonant] finds scanning back);
    - [is_break]   = [is_boundary] for [is_extended = true];
    - [segment]    = the list of clusters.
    Definitions only. Code points are [N]; recursion is structural. *)
From TU Require Import Base.
From TU Require Export UAX29_Table.
Open Scope N_scope.

(** * Range tables: linear reference lookup and a balanced search tree built from the list *)

Fixpoint llookup {A} (l : list (N * N * A)) (x : N) : option A :=
  match l with
  | [] => None
  | (lo, hi, a) :: r => if (lo <=? x) && (x <=? hi) then Some a else llookup r x
  end.

Inductive rtree (A : Type) : Type :=
  | RLeaf
  | RNode (l : rtree A) (lo hi : N) (a : A) (r : rtree A).
Arguments RLeaf {A}.
Arguments RNode {A} l lo hi a r.

Fixpoint rlookup {A} (t : rtree A) (x : N) : option A :=
  match t with
  | RLeaf => None
  | RNode l lo hi a r =>
      match x ?= lo with
      | Lt => rlookup l x
      | _ => match x ?= hi with Gt => rlookup r x | _ => Some a end
      end
  end.

(** consume the list left to right into a tree of depth <= [d]; returns what is left *)
Fixpoint rbuild {A} (d : nat) (l : list (N * N * A)) : rtree A * list (N * N * A) :=
  match d with
  | O => (RLeaf, l)
  | S d' =>
      let (tl, l1) := rbuild d' l in
      match l1 with
      | [] => (tl, [])
      | (lo, hi, a) :: l2 => let (tr, l3) := rbuild d' l2 in (RNode tl lo hi a tr, l3)
      end
  end.
Definition rdepth {A} (l : list A) : nat := S (Nat.log2 (length l)).
Definition rtree_of {A} (l : list (N * N * A)) : rtree A := fst (rbuild (rdepth l) l).

Fixpoint rflatten {A} (t : rtree A) : list (N * N * A) :=
  match t with
  | RLeaf => []
  | RNode l lo hi a r => rflatten l ++ (lo, hi, a) :: rflatten r
  end.

(** strictly increasing, non-overlapping, well-formed ranges *)
Fixpoint ranges_sorted {A} (lb : N) (l : list (N * N * A)) : bool :=
  match l with
  | [] => true
  | (lo, hi, _) :: r => (lb <=? lo) && (lo <=? hi) && ranges_sorted (hi + 1) r
  end.

Definition gcb_tree : rtree cat := rtree_of grapheme_cat_table.
Definition incb_extend_tree : rtree incb := rtree_of incb_extend_table.
Definition incb_linker_tree : rtree incb := rtree_of incb_linker_table.

(** * Categories *)

(** [GraphemeCursor::grapheme_category] *)
Definition gcb (c : N) : cat :=
  if c <=? 126 then
    if 32 <=? c then GC_Any
    else if c =? 10 then GC_LF
    else if c =? 13 then GC_CR
    else GC_Control
  else match rlookup gcb_tree c with Some k => k | None => GC_Any end.

(** [is_incb_linker(ch)], else [InCB_Extend(ch)] — in the order the code asks *)
Definition incb_of (c : N) : option incb :=
  match rlookup incb_linker_tree c with
  | Some k => Some k
  | None => rlookup incb_extend_tree c
  end.

Inductive pair_result : Set :=
  PR_NotBreak | PR_Break | PR_Extended | PR_InCbConsonant | PR_Regional | PR_Emoji.

(** [check_pair(before, after)], clause by clause, first match wins *)
Definition check_pair (before after : cat) : pair_result :=
  match before, after with
  | GC_CR, GC_LF => PR_NotBreak                                              (* GB3 *)
  | (GC_Control | GC_CR | GC_LF), _ => PR_Break                              (* GB4 *)
  | _, (GC_Control | GC_CR | GC_LF) => PR_Break                              (* GB5 *)
  | GC_L, (GC_L | GC_V | GC_LV | GC_LVT) => PR_NotBreak                      (* GB6 *)
  | (GC_LV | GC_V), (GC_V | GC_T) => PR_NotBreak                             (* GB7 *)
  | (GC_LVT | GC_T), GC_T => PR_NotBreak                                     (* GB8 *)
  | _, (GC_Extend | GC_ZWJ) => PR_NotBreak                                   (* GB9 *)
  | _, GC_SpacingMark => PR_Extended                                         (* GB9a *)
  | GC_Prepend, _ => PR_Extended                                             (* GB9b *)
  | _, GC_InCB_Consonant => PR_InCbConsonant                                 (* GB9c *)
  | GC_ZWJ, GC_Extended_Pictographic => PR_Emoji                             (* GB11 *)
  | GC_Regional_Indicator, GC_Regional_Indicator => PR_Regional              (* GB12, GB13 *)
  | _, _ => PR_Break                                                         (* GB999 *)
  end.

(** * What is known about the text before the offset *)

(** the text before the offset ends in ... *)
Inductive emo : Set :=
  | E_none
  | E_pict   (* ExtPict Extend* *)
  | E_zwj.   (* ExtPict Extend* ZWJ *)
Inductive icb : Set :=
  | I_none
  | I_cons (linker : bool).   (* InCB=Consonant {Linker|Extend}*, [linker]: a Linker among them *)

Record ctx : Set := Ctx { ris_odd : bool; emo_st : emo; icb_st : icb }.
Definition ctx0 : ctx := Ctx false E_none I_none.

(** move the offset over code point [c] of category [k] *)
Definition advance (x : ctx) (c : N) (k : cat) : ctx :=
  Ctx
    (match k with GC_Regional_Indicator => negb (ris_odd x) | _ => false end)
    (match k with
     | GC_Extended_Pictographic => E_pict
     | GC_Extend => match emo_st x with E_pict => E_pict | _ => E_none end
     | GC_ZWJ => match emo_st x with E_pict => E_zwj | _ => E_none end
     | _ => E_none
     end)
    (match incb_of c with
     | Some InCB_Linker => match icb_st x with I_cons _ => I_cons true | I_none => I_none end
     | Some InCB_Extend => icb_st x
     | None => match k with GC_InCB_Consonant => I_cons false | _ => I_none end
     end).

(** [is_boundary] at an offset inside the string: [x] describes the text before the offset,
    [ka] is the category of the code point before it, [kb] of the one after it *)
Definition is_break (x : ctx) (ka kb : cat) : bool :=
  match check_pair ka kb with
  | PR_NotBreak => false
  | PR_Break => true
  | PR_Extended => false                                           (* is_extended *)
  | PR_InCbConsonant => match icb_st x with I_cons true => false | _ => true end
  | PR_Regional => negb (ris_odd x)                                (* ris_count % 2 == 0 *)
  | PR_Emoji => match emo_st x with E_zwj => false | _ => true end
  end.

(** * Segmentation *)

Definition glue (a : N) (rest : list (list N)) : list (list N) :=
  match rest with c :: cs => (a :: c) :: cs | [] => [[a]] end.

(** clusters of [a :: r]; [x] describes the text up to and including [a], [ka = gcb a] *)
Fixpoint seg_from (x : ctx) (ka : cat) (a : N) (r : list N) : list (list N) :=
  match r with
  | [] => [[a]]
  | b :: r' =>
      let kb := gcb b in
      let rest := seg_from (advance x b kb) kb b r' in
      if is_break x ka kb then [a] :: rest else glue a rest
  end.

Definition segment (s : list N) : list (list N) :=
  match s with
  | [] => []
  | a :: r => let ka := gcb a in seg_from (advance ctx0 a ka) ka a r
  end.

(** * Vocabulary of the theorems *)

Definition is_ctl (k : cat) : bool :=
  match k with GC_Control | GC_CR | GC_LF => true | _ => false end.

(** the rules break between [a] and [b] whatever surrounds them (GB4 / GB5, minus GB3) *)
Definition hard_break (a b : N) : bool :=
  (is_ctl (gcb a) || is_ctl (gcb b))
  && negb (match gcb a, gcb b with GC_CR, GC_LF => true | _, _ => false end).

(** categories that attach to a preceding U+0020 (GB9, GB9a) *)
Definition ws_joinable (c : N) : bool :=
  match gcb c with GC_Extend | GC_SpacingMark | GC_ZWJ => true | _ => false end.
Definition is_prepend (c : N) : bool :=
  match gcb c with GC_Prepend => true | _ => false end.

Definition printable_ascii (c : N) : bool := (32 <=? c) && (c <=? 126).

(** what the cursor knows after the text [a :: r]: context and category of the last code point *)
Fixpoint run_from (x : ctx) (ka : cat) (r : list N) : ctx * cat :=
  match r with
  | [] => (x, ka)
  | c :: r' => run_from (advance x c (gcb c)) (gcb c) r'
  end.
Definition state_of (s : list N) : ctx * cat :=
  match s with
  | [] => (ctx0, GC_Any)
  | a :: r => run_from (advance ctx0 a (gcb a)) (gcb a) r
  end.

(** is there a boundary between [s] (non-empty) and a following code point [b]? *)
Definition break_after (s : list N) (b : N) : bool :=
  is_break (fst (state_of s)) (snd (state_of s)) (gcb b).

(** every cluster is all-whitespace or whitespace-free; decidable on the string alone *)
Definition cl_nomixed (c : list N) : bool := forallb is_ws c || forallb (fun x => negb (is_ws x)) c.
Definition no_mixedb (s : list N) : bool := forallb cl_nomixed (segment s).

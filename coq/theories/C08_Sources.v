(** C08 end to end, generator included: C07's multi-source generator feeds the loader of
    C08_EndToEnd.v.  With a limit that does not cut the stream and no skip, the batches of all
    ranks of a world hold, each exactly once, the processed item of every position of the generator's
    output whose line parses and whose pipeline result is Ok — and by C07 those positions are the lines of
    the source files, each exactly once, in per-source order. *)
From Coq Require Import Sorting.Permutation.
From TU Require Import Base C06_Model C06_Top C08_Model C08_Proofs C08_EndToEnd.
From TU Require C07_Model C07_Top.
Require Import Lia.

Lemma sel_full lim N : N <= lim -> sel lim 0 0 0 1 N = seq 0 N.
Proof.
  intros H. unfold sel, select. rewrite step_by_one_l. cbn [plus skipn].
  rewrite firstn_seq. rewrite Nat.min_r by exact H. reflexivity.
Qed.

Section Sources.
  Context {A D B : Type}.
  Variable parse : nat -> A -> option D.   (* (source index, raw line) -> parsed item, None = malformed line *)
  Variable g : nat -> D -> option B.       (* (global position, item) -> pipeline result, None = Err *)
  Variable size : nat * B -> nat.

  Definition data_of (out : list (nat * A)) : list (option D) := map (fun p => parse (fst p) (snd p)) out.

  Lemma world_covers_sources_l s o (srcs : list (list A)) out sort shuffle prefetch blim ty os lim W bss :
    srcs <> [] -> C07_Model.run_gen s o srcs = C07_Model.Ok out ->
    length out <= lim -> 1 <= W ->
    world_batches (data_of out) g size sort shuffle prefetch blim ty os lim 0 0 W bss ->
    Permutation (concat (concat bss)) (keep_some (map (item_at (data_of out) g) (seq 0 (length out)))) /\
    length out = C07_Model.total_len srcs /\
    (forall j, C07_Model.proj j out = nth j srcs []) /\
    Forall (fun p => fst p < length srcs) out.
  Proof.
    intros Hne Hrun Hlim HW Hwb.
    destruct (C07_Top.gen_items_l s o srcs out Hne Hrun) as [Hproj [Hlen Htags]].
    split; [|split; [exact Hlen|split; [exact Hproj|exact Htags]]].
    pose proof (world_batches_partition_l (data_of out) g size sort shuffle prefetch blim ty os lim 0 0 W bss HW Hwb) as HP.
    unfold loader_items in HP.
    assert (Hl : length (data_of out) = length out) by (unfold data_of; apply map_length).
    rewrite Hl in HP. rewrite (sel_full lim (length out) Hlim) in HP. exact HP.
  Qed.
End Sources.
